(** Glue: the abstract cache inside Stream/StreamLts.v (C04, C08) against the
    cache models.

    StreamLts keeps the cache as a flat list of attached leaves
    ([st_tree : list (path * handle)], paths with the target name first) and a
    store of leaf handles ([st_leaves]: path, (value, timestamp)); its writer
    step [write] is the tree-write part of Target.GnmiUpdate for ONE update
    ([WUpd]), one delete ([WDel]) or the subtree delete of Target.Reset
    ([WDelSub]).

    The abstraction: for a target [name], the ctree [tr] over SubModel's
    notifications holds at index path [p] exactly the canonical notification
    [s_noti name p (v, ts)] where StreamLts holds [(v, ts)] at [name :: p]
    ([Rs]).  Proved, for every state satisfying StreamProofs.GInv (every
    reachable state does) and every input of [write]:

      [stream_write_upd_sim]  [write .. (WUpd (name :: p) v ts)] is
          [gen_update1 (h_ed h)] on the canonical notification -- the function
          GlueCacheSub proves to be CacheModel.gnmi_update1 (for BOTH settings
          of the event-driven switch) and, for [h_ed = true],
          SubModel.gnmi_update1: same accept / stale / error verdict, same
          content afterwards, same announcement ([ILeaf l] or nothing), other
          targets untouched;
      [stream_write_upd_cache]  the composition with CacheModel.gnmi_update1.

    Domain: target name not empty; the index path [p] is not empty and not
    under "meta".  On the empty index path (the bare target path [[name]])
    the models agree as well -- everybody rejects it:
    [stream_bare_target_agree] (this used to be a difference, repaired in
    StreamLts by its owner). *)
From Gnmi Require Import Base.Prelude CTree.CTreeModel CTree.CTreeProofs CTree.CTreeTheorems
  Path.PathModel Path.PathProofs Value.ValueModel Cache.CacheModel.
From Gnmi Require Subscribe.SubModel Stream.StreamLts Stream.StreamProofs.
From Gnmi Require Import Glue.GluePath Glue.GlueTree Glue.GlueCacheSub.
Open Scope string_scope.
Open Scope list_scope.
Open Scope Z_scope.

(** * Canonical notifications *)

Definition names_gp (p : path) : SubModel.gpath :=
  SubModel.GP "" "" (map (fun s => (s, [])) p).

Definition name_pre (name : string) : SubModel.gpath := SubModel.GP name "" [].

(** the notification a writer sends for [WUpd (name :: p) v ts], which is also
    what the leaf at [name :: p] holds afterwards *)
Definition s_noti (name : string) (p : path) (c : Z * Z) : SubModel.noti :=
  SubModel.NT (snd c) (name_pre name) [(names_gp p, fst c)] [] false.

Lemma names_to_strings p : SubModel.to_strings (Some (names_gp p)) false = p.
Proof.
  unfold SubModel.to_strings, names_gp. cbn [SubModel.g_elems app].
  induction p as [|s p IH]; [reflexivity|]. cbn [map flat_map]. rewrite IH. reflexivity.
Qed.

Lemma names_wf p : sub_wf (names_gp p).
Proof.
  unfold sub_wf, gpath_wf, sub_gp, names_gp. cbn [gp_elems SubModel.g_elems].
  induction p; constructor; [constructor|assumption].
Qed.

Lemma name_pre_wf name : sub_wf (name_pre name).
Proof. constructor. Qed.

Lemma s_noti_wf name p c : noti_wf (s_noti name p c).
Proof.
  split; [apply name_pre_wf|]. split; [|constructor].
  constructor; [apply names_wf|constructor].
Qed.

Lemma join_names name p :
  name <> "" ->
  SubModel.join_prefix_path (name_pre name) (Some (names_gp p)) = Some p.
Proof.
  intros Hn. unfold SubModel.join_prefix_path. rewrite names_to_strings.
  unfold SubModel.to_strings at 1, name_pre. cbn [SubModel.g_target SubModel.g_origin SubModel.g_elems flat_map].
  unfold SubModel.nonempty at 1. destruct (String.eqb_spec name ""); [contradiction|].
  cbn [SubModel.origin_of names_gp SubModel.g_origin].
  destruct SubModel.fix_C05_1; reflexivity.
Qed.

(** proto.Equal on canonical notifications *)
Lemma sub_list_eqb_refl {A} (e : A -> A -> bool) l :
  (forall x, e x x = true) -> SubModel.list_eqb e l l = true.
Proof. intros H. induction l as [|x l IH]; cbn; [reflexivity|]. now rewrite H, IH. Qed.

Lemma sub_gpath_eqb_refl a : SubModel.gpath_eqb a a = true.
Proof.
  unfold SubModel.gpath_eqb. rewrite !String.eqb_refl. cbn.
  apply sub_list_eqb_refl. intros e. unfold SubModel.pelem_eqb. rewrite String.eqb_refl. cbn.
  apply sub_list_eqb_refl. intros kv. unfold SubModel.kv_eqb. now rewrite !String.eqb_refl.
Qed.

Lemma s_noti_eqb name p c c' :
  SubModel.noti_eqb (s_noti name p c) (s_noti name p c') = (snd c =? snd c') && (fst c =? fst c').
Proof.
  unfold SubModel.noti_eqb, s_noti. cbn [SubModel.n_ts SubModel.n_prefix SubModel.n_upds SubModel.n_dels
                                       SubModel.n_atomic SubModel.list_eqb SubModel.upd_eqb fst snd].
  unfold SubModel.upd_eqb. cbn [fst snd Bool.eqb].
  rewrite !sub_gpath_eqb_refl. cbn [andb]. now rewrite !andb_true_r.
Qed.

(** * The abstraction relation *)

Definition Rs (st : StreamLts.state) (name : string) (tr : tree SubModel.noti) : Prop :=
  wf_tree tr /\
  forall p, lookup tr p = option_map (s_noti name p) (StreamLts.cache_at st (name :: p)).

Lemma Rs_Inv st name tr : Rs st name tr -> Inv tr.
Proof.
  intros [Hwf H]. split; [assumption|]. intros p v Hv. rewrite H in Hv.
  destruct (StreamLts.cache_at st (name :: p)) as [c|]; [|discriminate]. inversion Hv; subst.
  split; [apply s_noti_wf|discriminate].
Qed.

Lemma Rs_empty nw subs name : Rs (StreamLts.init nw subs) name None.
Proof. split; [exact I|]. intros p. reflexivity. Qed.

(** ctree.Add conflicts, as StreamLts states them on the flat list *)
Lemma conflicts_iff st name tr p :
  StreamProofs.GInv st -> Rs st name tr ->
  (StreamLts.conflicts st (name :: p) = false <-> conflict_free tr p).
Proof.
  intros G [Hwf HR]. unfold StreamLts.conflicts. split.
  - intros Hc q w Hq. rewrite HR in Hq. unfold StreamLts.cache_at in Hq.
    destruct (StreamLts.tlookup (name :: q) (StreamLts.st_tree st)) as [l|] eqn:Hl; [|discriminate].
    apply StreamProofs.tlookup_In in Hl.
    assert (Hx : (fun pl : path * nat => strict_prefix (fst pl) (name :: p) || strict_prefix (name :: p) (fst pl))
                   (name :: q, l) = false).
    { destruct (strict_prefix (fst (name :: q, l)) (name :: p) || strict_prefix (name :: p) (fst (name :: q, l))) eqn:E;
        [|exact E].
      assert (existsb (fun pl : path * nat => strict_prefix (fst pl) (name :: p) || strict_prefix (name :: p) (fst pl))
                      (StreamLts.st_tree st) = true) by (apply existsb_exists; eauto).
      congruence. }
    cbn [fst] in Hx. apply orb_false_iff in Hx as [H1 H2].
    rewrite strict_prefix_cons, String.eqb_refl in H1, H2. auto.
  - intros Hcf. destruct (existsb _ (StreamLts.st_tree st)) eqn:E; [|reflexivity]. exfalso.
    apply existsb_exists in E as ([P l] & Hin & Hx). cbn [fst] in Hx.
    destruct (StreamProofs.g_ok _ G _ _ Hin) as (Hok & _).
    destruct P as [|a q]; [discriminate|].
    rewrite !strict_prefix_cons in Hx.
    destruct (String.eqb_spec a name) as [->|Hne].
    + rewrite String.eqb_refl in Hx. cbn [andb] in Hx.
      pose proof (StreamProofs.In_tlookup _ _ _ (StreamProofs.g_nodup _ G) Hin) as Hl.
      destruct (StreamProofs.leaf_cont_of_path st l _ (StreamProofs.g_leaf _ G _ _ Hin)) as [c Hc].
      assert (Hq : lookup tr q = Some (s_noti name q c)).
      { rewrite HR. unfold StreamLts.cache_at. rewrite Hl, Hc. reflexivity. }
      destruct (Hcf _ _ Hq) as [H1 H2]. rewrite H1, H2 in Hx. discriminate.
    + assert (E1 : String.eqb a name = false) by now apply String.eqb_neq.
      assert (E2 : String.eqb name a = false) by (apply String.eqb_neq; congruence).
      rewrite ?E1, ?E2 in Hx. discriminate.
Qed.

Lemma path_eqb_sym_glue a b : path_eqb a b = path_eqb b a.
Proof.
  destruct (path_eqb a b) eqn:E1, (path_eqb b a) eqn:E2; try reflexivity.
  - apply path_eqb_eq in E1. subst. rewrite path_eqb_refl in E2. discriminate.
  - apply path_eqb_eq in E2. subst. rewrite path_eqb_refl in E1. discriminate.
Qed.

(** * WUpd *)

(** the content after an accepted write *)
Definition content_set (st st' : StreamLts.state) (P : path) (c : Z * Z) : Prop :=
  forall Q, StreamLts.cache_at st' Q = if path_eqb Q P then Some c else StreamLts.cache_at st Q.

Lemma Rs_after_set st st' name p c tr tr' :
  Rs st name tr -> content_set st st' (name :: p) c ->
  CTreeModel.add tr p (s_noti name p c) = Some tr' -> Rs st' name tr'.
Proof.
  intros [Hwf HR] Hc Ha. destruct (add_spec tr tr' p _ Hwf Ha) as [Hwf' Hl].
  split; [assumption|]. intros q. rewrite Hl, Hc. cbn [path_eqb]. rewrite String.eqb_refl. cbn [andb].
  destruct (path_eqb q p) eqn:E; [apply path_eqb_eq in E; subst; reflexivity|apply HR].
Qed.

Lemma Rs_frame st st' name name' p c tr0 :
  name' <> name -> content_set st st' (name :: p) c -> Rs st name' tr0 -> Rs st' name' tr0.
Proof.
  intros Hne Hc [Hwf HR]. split; [assumption|]. intros q. rewrite Hc. cbn [path_eqb].
  destruct (String.eqb_spec name' name); [contradiction|]. cbn [andb]. apply HR.
Qed.

Lemma content_set_existing st l P c f w :
  StreamProofs.GInv st -> StreamLts.tlookup P (StreamLts.st_tree st) = Some l ->
  content_set st
    (StreamLts.mkState (StreamLts.upd_nth l (fun pc => (fst pc, c)) (StreamLts.st_leaves st))
       (StreamLts.st_dels st) (StreamLts.st_tree st) (StreamLts.set_feed st w f)
       (StreamLts.st_subs st) (StreamLts.st_locks st)) P c.
Proof.
  intros G Hl Q. unfold StreamLts.cache_at. cbn [StreamLts.st_tree].
  destruct (path_eqb Q P) eqn:E.
  - apply path_eqb_eq in E. subst Q. rewrite Hl. unfold StreamLts.leaf_cont. cbn [StreamLts.st_leaves].
    rewrite StreamProofs.nth_error_upd_nth_eq.
    pose proof (StreamProofs.tlookup_leaf st P l G Hl) as Hp. unfold StreamLts.leaf_path in Hp.
    destruct (nth_error (StreamLts.st_leaves st) l) as [[a b]|]; [reflexivity|discriminate].
  - destruct (StreamLts.tlookup Q (StreamLts.st_tree st)) as [l'|] eqn:Hl'; [|reflexivity].
    unfold StreamLts.leaf_cont. cbn [StreamLts.st_leaves].
    rewrite StreamProofs.nth_error_upd_nth_neq; [reflexivity|].
    intros ->. pose proof (StreamProofs.tlookup_leaf st P l' G Hl) as H1.
    pose proof (StreamProofs.tlookup_leaf st Q l' G Hl') as H2. rewrite H1 in H2. inversion H2; subst.
    rewrite path_eqb_refl in E. discriminate.
Qed.

Lemma content_set_new st P c f w :
  StreamProofs.GInv st -> StreamLts.tlookup P (StreamLts.st_tree st) = None ->
  content_set st
    (StreamLts.mkState (StreamLts.st_leaves st ++ [(P, c)]) (StreamLts.st_dels st)
       (StreamLts.st_tree st ++ [(P, List.length (StreamLts.st_leaves st))])
       (StreamLts.set_feed st w f) (StreamLts.st_subs st) (StreamLts.st_locks st)) P c.
Proof.
  intros G Hl Q. unfold StreamLts.cache_at. cbn [StreamLts.st_tree]. rewrite StreamProofs.tlookup_app.
  destruct (StreamLts.tlookup Q (StreamLts.st_tree st)) as [l'|] eqn:Hl'.
  - destruct (path_eqb Q P) eqn:E; [apply path_eqb_eq in E; subst; congruence|].
    unfold StreamLts.leaf_cont. cbn [StreamLts.st_leaves].
    pose proof (StreamProofs.tlookup_leaf st Q l' G Hl') as Hp. unfold StreamLts.leaf_path in Hp.
    destruct (nth_error (StreamLts.st_leaves st) l') as [x|] eqn:En; [|discriminate].
    now rewrite (StreamProofs.nth_error_app_l _ _ _ _ En).
  - cbn [StreamLts.tlookup]. rewrite (path_eqb_sym_glue P Q).
    destruct (path_eqb Q P) eqn:E; [|reflexivity].
    unfold StreamLts.leaf_cont. cbn [StreamLts.st_leaves].
    rewrite nth_error_app2 by lia. rewrite Nat.sub_diag. reflexivity.
Qed.

(** what an announced item stands for *)
Definition item_noti (st : StreamLts.state) (it : StreamLts.item) : option SubModel.noti :=
  match it with
  | StreamLts.ILeaf l =>
      match nth_error (StreamLts.st_leaves st) l with
      | Some (name :: q, c) => Some (s_noti name q c)
      | _ => None
      end
  | _ => None
  end.

Theorem stream_write_upd_sim h st w name k rest v ts st' res tr :
  StreamProofs.GInv st -> Rs st name tr ->
  name <> "" -> k <> "meta" ->
  StreamLts.write h st w (StreamLts.WUpd (name :: k :: rest) v ts) = Some (st', res) ->
  match gen_update1 (StreamLts.h_ed h) tr (s_noti name (k :: rest) (v, ts)) with
  | SubModel.URes tr' feed err =>
      Rs st' name tr' /\
      (forall name' tr0, name' <> name -> Rs st name' tr0 -> Rs st' name' tr0) /\
      match res with
      | StreamLts.WOk =>
          err = false /\
          exists f, StreamLts.st_feeds st' = StreamLts.set_feed st w f /\
                    map (item_noti st') f = map Some feed
      | _ => err = true /\ feed = [] /\ st' = st
      end
  | _ => False
  end.
Proof.
  intros G HRs Hname Hk Hw. set (p := k :: rest) in *.
  pose proof HRs as [Hwf HR].
  unfold gen_update1. cbn [s_noti SubModel.n_upds SubModel.n_prefix SubModel.n_atomic].
  rewrite (join_names name p Hname). subst p. cbv beta iota.
  destruct (String.eqb_spec k "meta") as [|_]; [contradiction|].
  set (p := k :: rest) in *. set (n := SubModel.NT (snd (v, ts)) (name_pre name) [(names_gp p, fst (v, ts))] [] false).
  change n with (s_noti name p (v, ts)) in *. clear n.
  unfold StreamLts.write in Hw.
  destruct (negb (StreamLts.target_ok (name :: p) && StreamLts.star_free (name :: p)
                  && negb (Nat.eqb (List.length (name :: p)) 1))); [discriminate|].
  destruct (StreamLts.h_agree h && negb (StreamLts.agree_on st (name :: p))); [discriminate|].
  pose proof (HR p) as Hlk. unfold StreamLts.cache_at in Hlk.
  destruct (StreamLts.tlookup (name :: p) (StreamLts.st_tree st)) as [l|] eqn:Hl.
  - (* the leaf exists *)
    destruct (StreamLts.leaf_cont st l) as [[v0 ts0]|] eqn:Hc; [|discriminate].
    cbn [option_map] in Hlk. rewrite (lookup_get_leaf _ _ _ Hlk).
    cbn [SubModel.n_ts s_noti snd fst]. rewrite s_noti_eqb. cbn [fst snd].
    destruct (ts <? ts0) eqn:Hlt.
    { inversion Hw; subst. split; [assumption|]. split; [auto|]. auto. }
    rewrite (Z.eqb_sym ts0 ts), (Z.eqb_sym v0 v), andb_assoc, andb_diag.
    destruct ((ts =? ts0) && (v =? v0)) eqn:Heq.
    { inversion Hw; subst. split; [assumption|]. split; [auto|]. auto. }
    destruct (get_leaf_add tr p _ (s_noti name p (v, ts)) (lookup_get_leaf _ _ _ Hlk)) as [tr' Hadd].
    rewrite Hadd. cbn [SubModel.first_val s_noti SubModel.n_upds SubModel.n_atomic negb andb fst snd].
    inversion Hw; subst; clear Hw.
    pose proof (content_set_existing st l (name :: p) (v, ts)
                  (if StreamLts.h_ed h && (v =? v0) then [] else [StreamLts.ILeaf l]) w G Hl) as Hcs.
    rewrite (Z.eqb_sym v0 v).
    assert (Hleaf : nth_error (StreamLts.upd_nth l (fun pc => (fst pc, (v, ts))) (StreamLts.st_leaves st)) l
                    = Some (name :: p, (v, ts))).
    { rewrite StreamProofs.nth_error_upd_nth_eq.
      pose proof (StreamProofs.tlookup_leaf st _ l G Hl) as Hp. unfold StreamLts.leaf_path in Hp.
      destruct (nth_error (StreamLts.st_leaves st) l) as [[a b]|]; [|discriminate].
      cbn in Hp. inversion Hp; subst. reflexivity. }
    destruct (StreamLts.h_ed h && (v =? v0)).
    + split; [eapply Rs_after_set; eauto|]. split; [intros; eapply Rs_frame; eauto|].
      split; [reflexivity|]. exists []. split; reflexivity.
    + split; [eapply Rs_after_set; eauto|]. split; [intros; eapply Rs_frame; eauto|].
      split; [reflexivity|]. exists [StreamLts.ILeaf l]. split; [reflexivity|].
      cbn [map item_noti StreamLts.st_leaves]. now rewrite Hleaf.
  - (* no leaf there *)
    cbn [option_map] in Hlk.
    pose proof (conflicts_iff st name tr p G HRs) as Hcf.
    destruct (StreamLts.conflicts st (name :: p)) eqn:Hcon.
    + inversion Hw; subst; clear Hw.
      assert (Hno : CTreeModel.add tr p (s_noti name p (v, ts)) = None).
      { destruct (CTreeModel.add tr p (s_noti name p (v, ts))) eqn:Ha; [|reflexivity]. exfalso.
        assert (conflict_free tr p) by (apply (add_ok_iff tr p (s_noti name p (v, ts)) Hwf); congruence).
        apply Hcf in H. discriminate. }
      destruct (CTreeModel.get tr p) as [[old|cs]|] eqn:Hg.
      * apply get_leaf_lookup in Hg. congruence.
      * split; [assumption|]. split; [auto|]. auto.
      * rewrite Hno. split; [assumption|]. split; [auto|]. auto.
    + assert (Hok : conflict_free tr p) by now apply Hcf.
      apply (add_ok_iff tr p (s_noti name p (v, ts)) Hwf) in Hok.
      destruct (CTreeModel.add tr p (s_noti name p (v, ts))) as [tr'|] eqn:Hadd; [|congruence].
      destruct (CTreeModel.get tr p) as [[old|cs]|] eqn:Hg.
      * apply get_leaf_lookup in Hg. congruence.
      * rewrite (get_branch_add tr p cs _ Hg) in Hadd. discriminate.
      * inversion Hw; subst; clear Hw.
        pose proof (content_set_new st (name :: p) (v, ts)
                      [StreamLts.ILeaf (List.length (StreamLts.st_leaves st))] w G Hl) as Hcs.
        split; [eapply Rs_after_set; eauto|]. split; [intros; eapply Rs_frame; eauto|].
        split; [reflexivity|]. eexists. split; [reflexivity|].
        cbn [map item_noti StreamLts.st_leaves]. rewrite nth_error_app2 by lia. rewrite Nat.sub_diag.
        reflexivity.
Qed.

(** the composition with the authoritative cache model: the tree write of
    [WUpd] is CacheModel.gnmi_update1 on the canonical notification, for both
    settings of the event-driven switch *)
Theorem stream_write_upd_cache h st w name k rest v ts st' res tr t now :
  StreamProofs.GInv st -> Rs st name tr -> tsim_ed (StreamLts.h_ed h) tr t ->
  name <> "" -> k <> "meta" ->
  StreamLts.write h st w (StreamLts.WUpd (name :: k :: rest) v ts) = Some (st', res) ->
  let n := s_noti name (k :: rest) (v, ts) in
  let r := gnmi_update1 t now (sub_notif n) in
  exists tr',
    Rs st' name tr' /\ tsim_ed (StreamLts.h_ed h) tr' (fst r) /\
    (forall name' tr0, name' <> name -> Rs st name' tr0 -> Rs st' name' tr0) /\
    match res with
    | StreamLts.WOk =>
        exists f feed, StreamLts.st_feeds st' = StreamLts.set_feed st w f /\
                       map (item_noti st') f = map Some feed /\
                       match snd r with
                       | Ok (Some nd) => feed = [n] /\ nd = sub_notif n
                       | Ok None => feed = []
                       | _ => False
                       end
    | _ => st' = st /\ exists e, snd r = Err e
    end.
Proof.
  intros G HRs Hsim Hname Hk Hw n r.
  pose proof (stream_write_upd_sim h st w name k rest v ts st' res tr G HRs Hname Hk Hw) as H1.
  pose proof (gen_update1_sim (StreamLts.h_ed h) tr n t now (Rs_Inv _ _ _ HRs) Hsim (s_noti_wf _ _ _)) as H2.
  fold n in H1. fold r in H2.
  destruct (gen_update1 (StreamLts.h_ed h) tr n) as [tr' feed err| |]; try contradiction.
  cbv zeta in H2. destruct H1 as (HRs' & Hframe & Hres). destruct H2 as (_ & Hsim' & Hres2).
  exists tr'. split; [assumption|]. split; [assumption|]. split; [assumption|].
  destruct res.
  - destruct Hres as (-> & f & Hf & Hmap). exists f, feed. split; [assumption|]. split; [assumption|].
    destruct (snd r) as [[nd|]|e|w0].
    + destruct Hres2 as (_ & -> & ->). auto.
    + destruct Hres2 as (_ & ->). reflexivity.
    + destruct Hres2 as (Hx & _). discriminate.
    + contradiction.
  - destruct Hres as (-> & -> & ->). split; [reflexivity|].
    destruct (snd r) as [[nd|]|e|w0]; try (destruct Hres2 as (Hx & _); discriminate); [eauto|contradiction].
  - destruct Hres as (-> & -> & ->). split; [reflexivity|].
    destruct (snd r) as [[nd|]|e|w0]; try (destruct Hres2 as (Hx & _); discriminate); [eauto|contradiction].
Qed.

(** * The bare target path: agreement (formerly a difference)

    Until StreamLts commit 79ffd2d [write] accepted [WUpd [name] v ts] and
    attached a leaf at the path consisting of the target name alone; in the
    code that is an update whose index path is empty, which Target.gnmiUpdate
    rejects ("invalid path", 30e1165).  This file recorded the difference as
    [stream_bare_target_differ]; StreamLts's owner has since added the guard,
    and the three models now agree on every such input: StreamLts refuses the
    operation, SubModel and CacheModel return the error and change nothing. *)
Theorem stream_bare_target_agree h st w name v ts tr t now :
  name <> "" ->
  StreamLts.write h st w (StreamLts.WUpd [name] v ts) = None /\
  SubModel.gnmi_update1 tr (s_noti name [] (v, ts)) = SubModel.URes tr [] true /\
  gnmi_update1 t now (sub_notif (s_noti name [] (v, ts))) = (t, Err err_invalid_path).
Proof.
  intros Hname. split; [|split].
  - unfold StreamLts.write. cbn [List.length Nat.eqb negb]. now rewrite andb_false_r.
  - unfold SubModel.gnmi_update1. cbn [s_noti SubModel.n_upds SubModel.n_prefix SubModel.n_atomic].
    now rewrite (join_names name [] Hname).
  - unfold gnmi_update1.
    assert (Hu : n_upd (sub_notif (s_noti name [] (v, ts))) = [sub_upd (names_gp [], v)]) by reflexivity.
    rewrite Hu.
    pose proof (sub_unit_index (s_noti name [] (v, ts)) (names_gp []) v [] eq_refl (s_noti_wf _ _ _)) as Hi.
    cbn [s_noti SubModel.n_prefix SubModel.n_atomic] in Hi. rewrite (join_names name [] Hname) in Hi.
    destruct (unit_index (sub_notif (s_noti name [] (v, ts)))) as [p|e|x]; try discriminate.
    cbn in Hi. inversion Hi; subst p. reflexivity.
Qed.

(** under "meta" the cache interprets the update (here: meta/sync wants a
    boolean); StreamLts treats it as data.  Outside StreamLts's stated scope,
    kept as a witness that the hypothesis [k <> "meta"] is needed. *)
Example stream_meta_differ :
  let h := StreamLts.mkHyps false true in
  let st0 := StreamLts.init 1 [] in
  (exists st', StreamLts.write h st0 0%nat (StreamLts.WUpd ["dev"; "meta"; "sync"] 7 1)
               = Some (st', StreamLts.WOk)) /\
  snd (target_gnmi_update (new_target "dev" (Cfg 0 true [])) 0
         (sub_notif (s_noti "dev" ["meta"; "sync"] (7, 1)))) = GErr err_meta_type.
Proof. cbv zeta. split; [eexists|]; vm_compute; reflexivity. Qed.

(** * WDel: Target.gnmiRemove *)

(** StreamLts.covers is CTreeModel.qmatch (also GlueMatch.stream_covers_eq;
    restated here because GlueMatch's imports clash with this file's) *)
Lemma GlueMatchless_covers_eq d p : StreamLts.covers d p = qmatch d p.
Proof.
  revert p; induction d as [|x d IH]; intros p; [reflexivity|].
  cbn [StreamLts.covers qmatch]. change (StreamLts.is_star x) with (is_glob x).
  destruct p as [|y p].
  - destruct (is_glob x), d; reflexivity.
  - rewrite IH. destruct (is_glob x) eqn:Gx; cbn [orb andb].
    + destruct d; reflexivity.
    + reflexivity.
Qed.

(** the delete request a writer sends for [WDel (name :: d) ts _] *)
Definition s_del (name : string) (d : path) (ts : Z) : SubModel.noti :=
  SubModel.NT ts (name_pre name) [] [names_gp d] false.

(** the delete notification announced for the removed leaf at [name :: q] *)
Definition del_noti (name : string) (q : path) (ts : Z) : SubModel.noti :=
  SubModel.NT ts (name_pre name) [] [names_gp q] false.

Lemma to_delete_s_noti name q c ts :
  SubModel.to_delete_noti ts (s_noti name q c) = Some (del_noti name q ts).
Proof. reflexivity. Qed.

Lemma dedup_In x l : In x (StreamLts.dedup l) <-> In x l.
Proof.
  induction l as [|y l IH]; cbn; [tauto|].
  destruct (existsb (path_eqb y) l) eqn:E.
  - rewrite IH. split; [auto|]. intros [<-|H]; [|assumption].
    apply existsb_exists in E as (z & Hz & Hyz). apply path_eqb_eq in Hyz. now subst.
  - cbn. now rewrite IH.
Qed.

Lemma In_reorder_iff order v x : In x (StreamLts.reorder order v) <-> In x v.
Proof.
  split; [apply StreamProofs.In_reorder|]. intros Hx. unfold StreamLts.reorder. apply in_app_iff.
  destruct (existsb (path_eqb (fst x)) order) eqn:E.
  - left. apply existsb_exists in E as (p & Hp & Hxp). apply path_eqb_eq in Hxp.
    apply in_flat_map. exists p. split; [now apply dedup_In|].
    apply filter_In. split; [assumption|]. rewrite Hxp. apply path_eqb_refl.
  - right. apply filter_In. split; [assumption|]. now rewrite E.
Qed.

Section Del.
Variables (st : StreamLts.state) (name : string) (d : path) (cond : Z * Z -> bool)
          (vs : list (path * nat)).
Hypothesis G : StreamProofs.GInv st.
Hypothesis Hstar : StreamLts.is_star name = false.
Hypothesis Hvs : forall x, In x vs <-> In x (StreamLts.victims st (name :: d) cond).

Lemma in_vs P l :
  In (P, l) vs <->
  In (P, l) (StreamLts.st_tree st) /\ StreamLts.covers (name :: d) P = true /\
  exists c, StreamLts.leaf_cont st l = Some c /\ cond c = true.
Proof.
  rewrite Hvs. unfold StreamLts.victims. rewrite filter_In. cbn [fst snd].
  rewrite andb_true_iff. split.
  - intros (H1 & H2 & H3). split; [assumption|]. split; [assumption|].
    destruct (StreamLts.leaf_cont st l) as [c|]; [eauto|discriminate].
  - intros (H1 & H2 & c & Hc & H3). rewrite Hc. auto.
Qed.

Lemma vs_path_hit P :
  existsb (fun x => path_eqb (fst x) P) vs =
  match StreamLts.tlookup P (StreamLts.st_tree st) with
  | Some l => StreamLts.covers (name :: d) P &&
              match StreamLts.leaf_cont st l with Some c => cond c | None => false end
  | None => false
  end.
Proof.
  apply eq_true_iff_eq. rewrite existsb_exists. split.
  - intros ([P' l] & Hin & HP). cbn [fst] in HP. apply path_eqb_eq in HP. subst P'.
    apply in_vs in Hin as (Ht & Hc & c & Hlc & Hts).
    rewrite (StreamProofs.In_tlookup _ _ _ (StreamProofs.g_nodup _ G) Ht), Hc, Hlc. exact Hts.
  - destruct (StreamLts.tlookup P (StreamLts.st_tree st)) as [l|] eqn:Hl; [|discriminate].
    intros H. apply andb_true_iff in H as [Hc H].
    destruct (StreamLts.leaf_cont st l) as [c|] eqn:Hlc; [|discriminate].
    exists (P, l). split; [|apply path_eqb_refl].
    apply in_vs. split; [now apply StreamProofs.tlookup_In|]. eauto.
Qed.

(** the content after the victims have been detached *)
Lemma content_after_remove dels' feeds' P :
  StreamLts.cache_at
    (StreamLts.mkState (StreamLts.st_leaves st) dels'
       (StreamLts.remove_paths vs (StreamLts.st_tree st)) feeds'
       (StreamLts.st_subs st) (StreamLts.st_locks st)) P =
  match StreamLts.cache_at st P with
  | Some c => if StreamLts.covers (name :: d) P && cond c then None else Some c
  | None => None
  end.
Proof.
  unfold StreamLts.cache_at. cbn [StreamLts.st_tree].
  rewrite StreamProofs.tlookup_remove_paths, vs_path_hit.
  destruct (StreamLts.tlookup P (StreamLts.st_tree st)) as [l|] eqn:Hlk; [|reflexivity].
  unfold StreamLts.leaf_cont. cbn [StreamLts.st_leaves].
  destruct (option_map snd (nth_error (StreamLts.st_leaves st) l)) as [c|] eqn:Hlc.
  - destruct (StreamLts.covers (name :: d) P && cond c); [reflexivity|exact Hlc].
  - rewrite andb_false_r. exact Hlc.
Qed.

Lemma covers_same_target q : StreamLts.covers (name :: d) (name :: q) = qmatch d q.
Proof.
  cbn [StreamLts.covers]. rewrite String.eqb_refl, orb_true_r. cbn [andb].
  apply GlueMatchless_covers_eq.
Qed.

Lemma covers_other_target name' q : name' <> name -> StreamLts.covers (name :: d) (name' :: q) = false.
Proof.
  intros Hne. cbn [StreamLts.covers]. rewrite Hstar. cbn [orb].
  destruct (String.eqb_spec name name'); [congruence|reflexivity].
Qed.
End Del.

Lemma join_names_any name d : name <> "" ->
  SubModel.join_prefix_path (name_pre name) (Some (names_gp d)) = Some d.
Proof. apply join_names. Qed.

Theorem stream_write_del_sim h st w name d ts order st' res tr :
  StreamProofs.GInv st -> Rs st name tr -> name <> "" ->
  match d with k :: _ => k <> "meta" | [] => True end ->
  StreamLts.write h st w (StreamLts.WDel (name :: d) ts order) = Some (st', res) ->
  match SubModel.gnmi_remove1 tr (s_del name d ts) with
  | SubModel.URes tr' feed err =>
      res = StreamLts.WOk /\ err = false /\ Rs st' name tr' /\
      (forall name' tr0, name' <> name -> Rs st name' tr0 -> Rs st' name' tr0) /\
      exists nd,
        StreamLts.st_dels st' = StreamLts.st_dels st ++ nd /\
        StreamLts.st_feeds st' =
          StreamLts.set_feed st w (map StreamLts.IDel (seq (List.length (StreamLts.st_dels st)) (List.length nd))) /\
        (forall dn, In dn feed <-> exists q, In (name :: q, ts) nd /\ dn = del_noti name q ts)
  | _ => False
  end.
Proof.
  intros G HRs Hname Hmeta Hw. pose proof HRs as [Hwf HR].
  unfold StreamLts.write in Hw.
  destruct (StreamLts.target_ok (name :: d)) eqn:Hok; cbn [negb] in Hw; [|discriminate].
  destruct (StreamLts.tree_locked st (StreamLts.target_of (name :: d))); [discriminate|].
  assert (Hstar : StreamLts.is_star name = false).
  { cbn in Hok. now apply negb_true_iff in Hok. }
  set (vs := StreamLts.reorder order (StreamLts.victims st (name :: d) (fun c => snd c <? ts))) in *.
  inversion Hw; subst st' res; clear Hw.
  unfold SubModel.gnmi_remove1. cbn [s_del SubModel.n_dels SubModel.n_prefix SubModel.n_ts].
  rewrite (join_names name d Hname).
  assert (Hm : match d with k :: _ => (k =? "meta")%string | [] => false end = false).
  { destruct d as [|k r]; [reflexivity|]. now apply String.eqb_neq. }
  rewrite Hm.
  set (cond := fun old : SubModel.noti => SubModel.n_ts old <? ts).
  destruct (delete_spec tr d cond Hwf) as (Hwf' & Hl & Hr & _).
  rewrite (all_some_total (fun pv => SubModel.to_delete_noti ts (snd pv)) dummy_noti).
  2:{ intros [s v0] Hin. apply Hr in Hin as (Hs & _). rewrite HR in Hs.
      destruct (StreamLts.cache_at st (name :: s)); [|discriminate]. inversion Hs; subst.
      cbn [snd]. rewrite to_delete_s_noti. discriminate. }
  assert (Hvs : forall x, In x vs <-> In x (StreamLts.victims st (name :: d) (fun c => snd c <? ts)))
    by (intros x; apply In_reorder_iff).
  pose proof (fun dels' feeds' P => content_after_remove st name d (fun c => snd c <? ts) vs G Hvs dels' feeds' P)
    as Hcont.
  split; [reflexivity|]. split; [reflexivity|]. split; [|split].
  - (* same target *)
    split; [exact Hwf'|]. intros q. rewrite Hl, HR, Hcont. unfold sel.
    rewrite (covers_same_target name d q).
    destruct (StreamLts.cache_at st (name :: q)) as [c|]; [|reflexivity]. cbn [option_map].
    unfold cond. cbn [SubModel.n_ts s_noti].
    destruct (qmatch d q && (snd c <? ts)); reflexivity.
  - (* other targets *)
    intros name' tr0 Hne [Hwf0 HR0]. split; [assumption|]. intros q. rewrite Hcont, HR0.
    rewrite (covers_other_target name d Hstar name' q Hne).
    destruct (StreamLts.cache_at st (name' :: q)); reflexivity.
  - (* the announcements *)
    exists (map (fun pl => (fst pl, ts)) vs). split; [reflexivity|]. split.
    { cbn [StreamLts.st_feeds]. now rewrite map_length. }
    intros dn. rewrite in_map_iff. split.
    + intros ([s v0] & <- & Hin). apply Hr in Hin as (Hs & Hq & Hc). rewrite HR in Hs.
      unfold StreamLts.cache_at in Hs.
      destruct (StreamLts.tlookup (name :: s) (StreamLts.st_tree st)) as [l|] eqn:Hlk; [|discriminate].
      destruct (StreamLts.leaf_cont st l) as [c|] eqn:Hlc; [|discriminate]. inversion Hs; subst v0.
      exists s. split.
      * apply in_map_iff. exists (name :: s, l). split; [reflexivity|].
        apply (in_vs st name d (fun c => snd c <? ts) vs Hvs). split; [now apply StreamProofs.tlookup_In|].
        split; [now rewrite covers_same_target|]. exists c. split; [assumption|exact Hc].
      * cbn [snd]. rewrite to_delete_s_noti. reflexivity.
    + intros (q & Hin & ->). apply in_map_iff in Hin as ([P l] & HP & Hin). cbn [fst] in HP.
      inversion HP; subst P. apply (in_vs st name d (fun c => snd c <? ts) vs Hvs) in Hin as (Ht & Hc & c & Hlc & Hts).
      exists (q, s_noti name q c). split; [cbn [snd]; now rewrite to_delete_s_noti|].
      apply Hr. split; [|split].
      * rewrite HR. unfold StreamLts.cache_at.
        rewrite (StreamProofs.In_tlookup _ _ _ (StreamProofs.g_nodup _ G) Ht), Hlc. reflexivity.
      * now rewrite <- (covers_same_target name d q).
      * exact Hts.
Qed.

Lemma s_del_wf name d ts : noti_wf (s_del name d ts).
Proof.
  split; [apply name_pre_wf|]. split; [constructor|]. constructor; [apply names_wf|constructor].
Qed.

(** the composition with CacheModel.gnmi_remove: same tree afterwards, the
    rendered delete notifications are (as a set; the order is Go's map order)
    those StreamLts appends to [st_dels] *)
Theorem stream_write_del_cache h st w name d ts order st' res tr ed t :
  StreamProofs.GInv st -> Rs st name tr -> tsim_ed ed tr t -> name <> "" ->
  match d with k :: _ => k <> "meta" | [] => True end ->
  StreamLts.write h st w (StreamLts.WDel (name :: d) ts order) = Some (st', res) ->
  let r := gnmi_remove t (sub_notif (s_del name d ts)) in
  exists tr' removed nd,
    res = StreamLts.WOk /\ Rs st' name tr' /\ tsim_ed ed tr' (fst r) /\ snd r = Ok removed /\
    (forall name' tr0, name' <> name -> Rs st name' tr0 -> Rs st' name' tr0) /\
    StreamLts.st_dels st' = StreamLts.st_dels st ++ nd /\
    StreamLts.st_feeds st' =
      StreamLts.set_feed st w (map StreamLts.IDel (seq (List.length (StreamLts.st_dels st)) (List.length nd))) /\
    (forall x, In x (render_deletes removed ts) <->
               exists q, In (name :: q, ts) nd /\ x = sub_notif (del_noti name q ts)).
Proof.
  intros G HRs Hsim Hname Hmeta Hw r.
  pose proof (stream_write_del_sim h st w name d ts order st' res tr G HRs Hname Hmeta Hw) as H1.
  pose proof (gen_remove1_sim ed tr (s_del name d ts) t (Rs_Inv _ _ _ HRs) Hsim (s_del_wf _ _ _)) as H2.
  fold r in H2.
  destruct (SubModel.gnmi_remove1 tr (s_del name d ts)) as [tr' feed err| |]; try contradiction.
  cbv zeta in H2. destruct H1 as (-> & -> & HRs' & Hframe & nd & Hd & Hf & Hfeed).
  destruct H2 as (_ & Hsim' & _ & removed & Hrm & Hren). cbn [SubModel.n_ts s_del] in Hren.
  exists tr', removed, nd. repeat (split; [assumption || reflexivity|]).
  intros x. rewrite Hren, in_map_iff. split.
  - intros (dn & <- & Hin). apply Hfeed in Hin as (q & Hq & ->). eauto.
  - intros (q & Hq & ->). exists (del_noti name q ts). split; [reflexivity|]. apply Hfeed. eauto.
Qed.

(** * WDelSub: the subtree delete of Target.Reset *)

Theorem stream_write_delsub_sim h st w name d st' res tr :
  StreamProofs.GInv st -> Rs st name tr ->
  StreamLts.write h st w (StreamLts.WDelSub (name :: d)) = Some (st', res) ->
  res = StreamLts.WOk /\
  Rs st' name (fst (CTreeModel.delete tr d)) /\
  (forall name' tr0, name' <> name -> Rs st name' tr0 -> Rs st' name' tr0) /\
  StreamLts.st_dels st' = StreamLts.st_dels st ++ [((name :: d) ++ [StreamLts.star], 0)] /\
  StreamLts.st_feeds st' = StreamLts.set_feed st w [StreamLts.IDel (List.length (StreamLts.st_dels st))].
Proof.
  intros G [Hwf HR] Hw. unfold StreamLts.write in Hw.
  destruct (StreamLts.target_ok (name :: d) && StreamLts.star_free (name :: d)) eqn:Hok;
    cbn [negb] in Hw; [|discriminate].
  destruct (StreamLts.tree_locked st (StreamLts.target_of (name :: d))); [discriminate|].
  apply andb_true_iff in Hok as [Hok _].
  assert (Hstar : StreamLts.is_star name = false) by (cbn in Hok; now apply negb_true_iff in Hok).
  inversion Hw; subst st' res; clear Hw.
  set (vs := StreamLts.victims st (name :: d) (fun _ => true)).
  pose proof (fun dels' feeds' P =>
                content_after_remove st name d (fun _ => true) vs G (fun x => iff_refl _) dels' feeds' P) as Hcont.
  unfold CTreeModel.delete.
  destruct (delete_spec tr d (fun _ => true) Hwf) as (Hwf' & Hl & _).
  split; [reflexivity|]. split; [|split; [|split; reflexivity]].
  - split; [exact Hwf'|]. intros q. rewrite Hl, HR, Hcont. unfold sel.
    rewrite (covers_same_target name d q).
    destruct (StreamLts.cache_at st (name :: q)) as [c|]; [|reflexivity]. cbn [option_map].
    destruct (qmatch d q && true); reflexivity.
  - intros name' tr0 Hne [Hwf0 HR0]. split; [assumption|]. intros q. rewrite Hcont, HR0.
    rewrite (covers_other_target name d Hstar name' q Hne).
    destruct (StreamLts.cache_at st (name' :: q)); reflexivity.
Qed.

(** the pattern StreamLts announces for [WDelSub [name; r]] is the index of
    the delete notification Target.Reset builds (CacheModel.delete_noti: the
    root child's name travels in the ORIGIN field of the prefix) *)
Lemma reset_pattern name r now :
  name <> "" -> r <> "" ->
  match n_prefix (delete_noti name r now ["*"]), n_del (delete_noti name r now ["*"]) with
  | Some pr, [dp] => to_strings true pr ++ to_strings false dp
  | _, _ => []
  end = [name; r] ++ [StreamLts.star].
Proof.
  intros Hn Hr. cbn [delete_noti n_prefix n_del]. unfold to_strings, nonempty.
  cbn [gp_target gp_origin gp_elems gp_element gp_of_names map].
  destruct (String.eqb_spec name ""); [contradiction|].
  destruct (String.eqb_spec r ""); [contradiction|]. reflexivity.
Qed.

(** * Non-vacuity: a reachable state, an accepted write, a suppressed one, a
      delete *)

Definition ex_h : StreamLts.hyps := StreamLts.mkHyps false true.

Example ex_stream_run :
  exists st1 st2 st3,
    StreamLts.write ex_h (StreamLts.init 1 []) 0%nat (StreamLts.WUpd ["dev"; "a"; "b"] 5 1)
      = Some (st1, StreamLts.WOk) /\
    StreamLts.write ex_h (StreamLts.set_feeds st1 [[]]) 0%nat (StreamLts.WUpd ["dev"; "a"; "b"] 5 2)
      = Some (st2, StreamLts.WOk) /\
    StreamLts.feed_of st2 0%nat = [] /\
    StreamLts.write ex_h st2 0%nat (StreamLts.WDel ["dev"; "a"] 3 [])
      = Some (st3, StreamLts.WOk) /\
    StreamLts.cache_at st3 ["dev"; "a"; "b"] = None.
Proof. do 3 eexists. repeat split; vm_compute; reflexivity. Qed.

(** Glue: SubModel's "cache as the content it holds" (C05, C07) against the
    authoritative cache model Cache/CacheModel.v (C02, C03, C14, C15).

    SubModel stores [SubModel.noti] values (integer-valued updates, paths
    without the deprecated element encoding) in the same tree model
    (CTreeModel) as CacheModel stores [CacheModel.notif] values.  The
    abstraction function [sub_notif] embeds the former in the latter; trees
    are related by mapping the leaves ([GlueTree.tmap sub_notif]).

    Proved (for ALL inputs of the stated domain, not a sweep):

      [sub_update1_sim], [sub_remove1_sim]   Target.gnmiUpdate / gnmiRemove
      [sub_tgt_update_sim]                   Target.GnmiUpdate (atomic, single,
                                             multi; errors, panics, feed)
      [sub_cache_op_sim], [sub_script_sim]   Cache.GnmiUpdate / Remove / Add over
                                             any script, any number of targets
      [sub_query_sim]                        Cache.Query (what the snapshot walk
                                             of the responder reads)

    Domain (all explicit hypotheses): CacheModel's target has future threshold
    <= 0 and event-driven emulation on (SubModel's stated defaults); key maps
    are maps; the index path is not under "meta" (SubModel answers [UMeta]
    there and the theorems claim nothing).

    History: up to /verif commit 2370af4 SubModel.gnmi_update1 suppressed a
    non-atomic update whose value equals the first value of a stored ATOMIC
    container; CacheModel and the Go code (since 4775c12) require
    [!old.Atomic].  The first version of this file needed a hypothesis
    excluding that case; SubModel has since been given the guard (working
    tree, 2026-09-29) and the simulation holds without it. *)
From Gnmi Require Import Base.Prelude CTree.CTreeModel CTree.CTreeProofs CTree.CTreeTheorems
  Path.PathModel Path.PathProofs Value.ValueModel Cache.CacheModel.
From Gnmi Require Subscribe.SubModel.
From Gnmi Require Import Glue.GluePath Glue.GlueTree.
From Coq Require Import Sorting.Sorted.
Open Scope string_scope.
Open Scope list_scope.
Open Scope Z_scope.

(** * proto.Equal: the two ways of comparing key maps agree on maps *)

Lemma sub_list_eqb_eq {A} (e : A -> A -> bool) :
  (forall x y, e x y = true <-> x = y) ->
  forall a b, SubModel.list_eqb e a b = true <-> a = b.
Proof.
  intros He. induction a as [|x a IH]; intros [|y b]; cbn; try (split; [discriminate|congruence]); try tauto.
  rewrite andb_true_iff, He, IH. split; [intros [-> ->]; reflexivity|intros E; inversion E; auto].
Qed.

Lemma kv_eqb_eq x y : SubModel.kv_eqb x y = true <-> x = y.
Proof.
  destruct x as [a b], y as [c d]. unfold SubModel.kv_eqb. cbn.
  rewrite andb_true_iff, !String.eqb_eq. split; [intros [-> ->]; reflexivity|intros E; inversion E; auto].
Qed.

Lemma key_lt_sorted_unique l1 : forall l2,
  StronglySorted key_lt l1 -> StronglySorted key_lt l2 -> Permutation l1 l2 -> l1 = l2.
Proof.
  induction l1 as [|a l1 IH]; intros l2 H1 H2 Hp.
  - apply Permutation_nil in Hp. now subst.
  - destruct l2 as [|b l2]; [apply Permutation_sym, Permutation_nil in Hp; discriminate|].
    inversion H1 as [|? ? H1' Ha]; subst. inversion H2 as [|? ? H2' Hb]; subst.
    rewrite Forall_forall in Ha, Hb.
    assert (a = b).
    { assert (Hin1 : In a (b :: l2)) by (eapply Permutation_in; [exact Hp|now left]).
      assert (Hin2 : In b (a :: l1)) by (eapply Permutation_in; [exact (Permutation_sym Hp)|now left]).
      destruct Hin1 as [-> |Hin1]; [reflexivity|]. destruct Hin2 as [-> |Hin2]; [reflexivity|].
      pose proof (Ha _ Hin2) as L1. pose proof (Hb _ Hin1) as L2. unfold key_lt in *.
      pose proof (string_ltb_trans _ _ _ L1 L2) as L. rewrite string_ltb_irrefl in L. discriminate. }
    subst b. f_equal. apply IH; auto. eapply Permutation_cons_inv; eauto.
Qed.

Lemma isort_perm_eq a b :
  NoDup (keys a) -> NoDup (keys b) -> (isort kv_leb a = isort kv_leb b <-> Permutation a b).
Proof.
  intros Ha Hb. destruct (sorted_arrangement_exists a Ha) as [Pa Sa].
  destruct (sorted_arrangement_exists b Hb) as [Pb Sb]. split.
  - intros E. rewrite <- Pa, E. exact Pb.
  - intros Hp. apply key_lt_sorted_unique; try assumption.
    rewrite Pa, Hp. now symmetry.
Qed.

Lemma keymap_eqb_perm a b :
  NoDup (keys a) -> NoDup (keys b) -> (keymap_eqb a b = true <-> Permutation a b).
Proof.
  intros Ha Hb. unfold keymap_eqb. rewrite andb_true_iff, Nat.eqb_eq, forallb_forall. split.
  - intros [Hl Hall]. apply NoDup_Permutation_bis.
    + eapply NoDup_map_inv; eauto.
    + lia.
    + intros [k v] Hin. specialize (Hall _ Hin). cbn in Hall.
      destruct (assoc k b) as [v'|] eqn:E; [|discriminate]. apply String.eqb_eq in Hall. subst v'.
      now apply assoc_In.
  - intros Hp. split; [now apply Permutation_length|].
    intros [k v] Hin. cbn. rewrite (In_assoc k v b Hb); [apply String.eqb_refl|].
    eapply Permutation_in; eauto.
Qed.

Lemma keymap_eqb_sorted a b :
  NoDup (keys a) -> NoDup (keys b) ->
  keymap_eqb a b = SubModel.list_eqb SubModel.kv_eqb (isort SubModel.kv_leb a) (isort SubModel.kv_leb b).
Proof.
  intros Ha Hb. apply eq_true_iff_eq.
  rewrite (keymap_eqb_perm a b Ha Hb), (sub_list_eqb_eq _ kv_eqb_eq).
  symmetry. exact (isort_perm_eq a b Ha Hb).
Qed.

(** pointwise agreement of two element comparisons lifts to lists *)
Lemma list_eqb_agree {A B} (g : A -> B) (e : A -> A -> bool) (e' : B -> B -> bool) (P : A -> Prop) :
  (forall x y, P x -> P y -> e' (g x) (g y) = e x y) ->
  forall a b, Forall P a -> Forall P b ->
  CacheModel.list_eqb e' (map g a) (map g b) = SubModel.list_eqb e a b.
Proof.
  intros H. induction a as [|x a IH]; intros [|y b] Ha Hb; try reflexivity.
  inversion Ha; subst. inversion Hb; subst. cbn. now rewrite H, IH.
Qed.

Lemma pelem_eqb_agree x y :
  pelem_wf x -> pelem_wf y -> CacheModel.pelem_eqb x y = SubModel.pelem_eqb x y.
Proof.
  intros Hx Hy. unfold CacheModel.pelem_eqb, SubModel.pelem_eqb. now rewrite keymap_eqb_sorted.
Qed.

Lemma gpath_eqb_agree a b :
  sub_wf a -> sub_wf b -> CacheModel.gpath_eqb (sub_gp a) (sub_gp b) = SubModel.gpath_eqb a b.
Proof.
  intros Ha Hb. unfold CacheModel.gpath_eqb, SubModel.gpath_eqb, sub_gp.
  cbn [gp_target gp_origin gp_elems gp_element CacheModel.list_eqb]. rewrite andb_true_r. f_equal.
  rewrite <- (map_id (SubModel.g_elems a)), <- (map_id (SubModel.g_elems b)) at 1.
  apply (list_eqb_agree (fun x => x) _ _ pelem_wf); [apply pelem_eqb_agree|exact Ha|exact Hb].
Qed.

(** * The embedding *)

Definition sub_upd (u : SubModel.gpath * Z) : update :=
  Upd (Some (sub_gp (fst u))) (Some (TVInt (snd u))) 0.

Definition sub_notif (n : SubModel.noti) : notif :=
  Notif (SubModel.n_ts n) (Some (sub_gp (SubModel.n_prefix n))) None
        (map sub_upd (SubModel.n_upds n)) (map sub_gp (SubModel.n_dels n)) (SubModel.n_atomic n).

(** key maps are maps, everywhere in the notification *)
Definition noti_wf (n : SubModel.noti) : Prop :=
  sub_wf (SubModel.n_prefix n) /\
  Forall (fun u => sub_wf (fst u)) (SubModel.n_upds n) /\
  Forall sub_wf (SubModel.n_dels n).

Lemma upd_eqb_agree x y :
  sub_wf (fst x) -> sub_wf (fst y) -> update_eqb (sub_upd x) (sub_upd y) = SubModel.upd_eqb x y.
Proof.
  intros Hx Hy. unfold update_eqb, SubModel.upd_eqb, sub_upd. cbn [u_path u_val u_dup ogpath_eqb otv_eqb tv_eqb].
  rewrite gpath_eqb_agree by assumption. cbn. now rewrite andb_true_r.
Qed.

Lemma notif_eqb_agree a b :
  noti_wf a -> noti_wf b -> notif_eqb (sub_notif a) (sub_notif b) = SubModel.noti_eqb a b.
Proof.
  intros (Ha1 & Ha2 & Ha3) (Hb1 & Hb2 & Hb3). unfold notif_eqb, SubModel.noti_eqb, sub_notif.
  cbn [n_ts n_prefix n_upd n_del n_atomic ogpath_eqb].
  rewrite gpath_eqb_agree by assumption.
  rewrite (list_eqb_agree sub_upd SubModel.upd_eqb update_eqb (fun u => sub_wf (fst u))) by
    (try assumption; apply upd_eqb_agree).
  rewrite (list_eqb_agree sub_gp SubModel.gpath_eqb CacheModel.gpath_eqb sub_wf) by
    (try assumption; apply gpath_eqb_agree).
  reflexivity.
Qed.

(** * Targets: what is related, what is ignored

    CacheModel's target also carries metadata counters, the sync flag, the
    latency samples and the latest timestamp.  None of them influences the
    tree or the feed outside "meta" paths; they are left unconstrained. *)

(** [ed]: whether event-driven emulation is on.  SubModel hardwires [true];
    the generalisation is used for StreamLts, whose switch [h_ed] is free. *)
Definition cfg_ok_ed (ed : bool) (c : config) : Prop :=
  cfg_future_threshold c <= 0 /\ cfg_event_driven c = ed.
Definition cfg_ok (c : config) : Prop := cfg_ok_ed true c.

Definition tsim_ed (ed : bool) (tr : tree SubModel.noti) (t : target) : Prop :=
  t_tree t = tmap sub_notif tr /\ cfg_ok_ed ed (t_cfg t).
Definition tsim (tr : tree SubModel.noti) (t : target) : Prop := tsim_ed true tr t.

(** every stored notification is well formed and has an update (everything
    gnmiUpdate stores has one) *)
Definition Inv (tr : tree SubModel.noti) : Prop :=
  wf_tree tr /\ forall p v, lookup tr p = Some v -> noti_wf v /\ SubModel.n_upds v <> [].

Lemma Inv_empty : Inv None.
Proof. split; [exact I|]. intros p v H. discriminate. Qed.

(** the setters that do not touch tree or configuration *)
Lemma tree_add_int t k i : t_tree (add_int t k i) = t_tree t. Proof. reflexivity. Qed.
Lemma cfg_add_int t k i : t_cfg (add_int t k i) = t_cfg t. Proof. reflexivity. Qed.
Lemma tree_lat t r ts : t_tree (lat_compute t r ts) = t_tree t.
Proof. unfold lat_compute. destruct (t_sync t && r); reflexivity. Qed.
Lemma cfg_lat t r ts : t_cfg (lat_compute t r ts) = t_cfg t.
Proof. unfold lat_compute. destruct (t_sync t && r); reflexivity. Qed.
Lemma tree_check_ts t ts : t_tree (check_timestamp t ts) = t_tree t.
Proof. unfold check_timestamp. destruct (t_ts t) as [z|]; [destruct (z <? ts)|]; reflexivity. Qed.
Lemma cfg_check_ts t ts : t_cfg (check_timestamp t ts) = t_cfg t.
Proof. unfold check_timestamp. destruct (t_ts t) as [z|]; [destruct (z <? ts)|]; reflexivity. Qed.
Lemma tree_finish n b t : t_tree (finish_ts n b t) = t_tree t.
Proof. unfold finish_ts. destruct (tracks_ts n && b); [apply tree_check_ts|reflexivity]. Qed.
Lemma cfg_finish n b t : t_cfg (finish_ts n b t) = t_cfg t.
Proof. unfold finish_ts. destruct (tracks_ts n && b); [apply cfg_check_ts|reflexivity]. Qed.

Lemma tsim_ed_add_int ed tr t k i : tsim_ed ed tr t -> tsim_ed ed tr (add_int t k i).
Proof. intros H. exact H. Qed.
Lemma tsim_ed_lat ed tr t r ts : tsim_ed ed tr t -> tsim_ed ed tr (lat_compute t r ts).
Proof. unfold tsim_ed. now rewrite tree_lat, cfg_lat. Qed.
Lemma tsim_ed_finish ed tr t n b : tsim_ed ed tr t -> tsim_ed ed tr (finish_ts n b t).
Proof. unfold tsim_ed. now rewrite tree_finish, cfg_finish. Qed.

Lemma tsim_add_int tr t k i : tsim tr t -> tsim tr (add_int t k i).
Proof. apply tsim_ed_add_int. Qed.
Lemma tsim_lat tr t r ts : tsim tr t -> tsim tr (lat_compute t r ts).
Proof. apply tsim_ed_lat. Qed.
Lemma tsim_finish tr t n b : tsim tr t -> tsim tr (finish_ts n b t).
Proof. apply tsim_ed_finish. Qed.
Lemma tsim_set_tree tr tr' t : tsim tr t -> tsim tr' (set_tree t (tmap sub_notif tr')).
Proof. intros [_ H]. split; [reflexivity|exact H]. Qed.

Lemma future_rejected_off ed t now ts : cfg_ok_ed ed (t_cfg t) -> future_rejected t now ts = false.
Proof.
  intros [H _]. unfold future_rejected.
  assert (E : (0 <? cfg_future_threshold (t_cfg t)) = false) by (apply Z.ltb_ge; exact H).
  now rewrite E.
Qed.

Lemma join_path_not_err pr ph e : join_path pr ph <> Err e.
Proof.
  unfold join_path, join_prefix_and_path.
  destruct (to_strings true (gp_of_opt pr) ++ to_strings false (gp_of_opt ph)); discriminate.
Qed.

(** * Target.gnmiUpdate *)

(** the index path SubModel computes for a notification stored as one unit *)
Definition sub_index (n : SubModel.noti) : option path :=
  match SubModel.n_upds n with
  | [] => None
  | (p0, _) :: _ =>
      SubModel.join_prefix_path (SubModel.n_prefix n)
                                (if SubModel.n_atomic n then None else Some p0)
  end.

Lemma Inv_add tr p n tr' :
  Inv tr -> noti_wf n -> SubModel.n_upds n <> [] -> CTreeModel.add tr p n = Some tr' -> Inv tr'.
Proof.
  intros [Hwf Hall] Hn Hu Ha. destruct (add_spec tr tr' p n Hwf Ha) as [Hwf' Hl].
  split; [assumption|]. intros q v. rewrite Hl. destruct (path_eqb q p).
  - intros [= <-]. auto.
  - apply Hall.
Qed.

Lemma sub_unit_index n p0 v0 us :
  SubModel.n_upds n = (p0, v0) :: us -> noti_wf n ->
  SubModel.join_prefix_path (SubModel.n_prefix n) (if SubModel.n_atomic n then None else Some p0)
  = ok_to_option (unit_index (sub_notif n)).
Proof.
  intros Hu (Hp & Hus & _). rewrite sub_join_cache_eq.
  - unfold unit_index, sub_notif. cbn [n_upd n_prefix n_atomic]. rewrite Hu. cbn [map sub_upd u_path fst].
    destruct (SubModel.n_atomic n); reflexivity.
  - exact Hp.
  - destruct (SubModel.n_atomic n); [apply sub_owf_none|].
    rewrite Hu in Hus. inversion Hus; subst. assumption.
Qed.

(** Target.gnmiUpdate as SubModel states it, with the event-driven switch as
    a parameter; [gen_update1 true] IS SubModel.gnmi_update1 ([gen_update1_true]). *)
Definition gen_update1 (ed : bool) (tr : tree SubModel.noti) (n : SubModel.noti) : SubModel.ures :=
  match SubModel.n_upds n with
  | [] => SubModel.UPanic
  | (p0, v0) :: _ =>
      match SubModel.join_prefix_path (SubModel.n_prefix n)
                                      (if SubModel.n_atomic n then None else Some p0) with
      | None => SubModel.UPanic
      | Some [] => SubModel.URes tr [] true
      | Some ((k :: rest) as p) =>
          if String.eqb k "meta" then
            match rest with [] => SubModel.URes tr [] true | _ :: _ => SubModel.UMeta end
          else
          match CTreeModel.get tr p with
          | Some (Leaf old) =>
              if Z.ltb (SubModel.n_ts n) (SubModel.n_ts old) then SubModel.URes tr [] true
              else if Z.eqb (SubModel.n_ts n) (SubModel.n_ts old) && SubModel.noti_eqb old n
                   then SubModel.URes tr [] true
              else
                match CTreeModel.add tr p n with
                | None => SubModel.UPanic
                | Some tr' =>
                    match SubModel.first_val old with
                    | None => SubModel.UPanic
                    | Some ov =>
                        if ed && (negb (SubModel.n_atomic n) && negb (SubModel.n_atomic old) && Z.eqb ov v0)
                        then SubModel.URes tr' [] false
                        else SubModel.URes tr' [n] false
                    end
                end
          | Some (Branch _) => SubModel.URes tr [] true
          | None =>
              match CTreeModel.add tr p n with
              | Some tr' => SubModel.URes tr' [n] false
              | None => SubModel.URes tr [] true
              end
          end
      end
  end.

Lemma gen_update1_true tr n : gen_update1 true tr n = SubModel.gnmi_update1 tr n.
Proof. reflexivity. Qed.

Theorem gen_update1_sim ed tr n t now :
  Inv tr -> tsim_ed ed tr t -> noti_wf n ->
  match gen_update1 ed tr n with
  | SubModel.URes tr' feed err =>
      let r := gnmi_update1 t now (sub_notif n) in
      Inv tr' /\ tsim_ed ed tr' (fst r) /\
      match snd r with
      | Ok (Some nd) => err = false /\ feed = [n] /\ nd = sub_notif n
      | Ok None => err = false /\ feed = []
      | Err _ => err = true /\ feed = [] /\ tr' = tr
      | Panic _ => False
      end
  | SubModel.UPanic => exists w, snd (gnmi_update1 t now (sub_notif n)) = Panic w
  | SubModel.UMeta => True
  end.
Proof.
  intros HInv Hsim Hn.
  unfold gen_update1, gnmi_update1.
  destruct (SubModel.n_upds n) as [|[p0 v0] us] eqn:Hu.
  { (* no update *)
    unfold sub_notif. cbn [n_upd]. rewrite Hu. cbn. eauto. }
  assert (Hupd : n_upd (sub_notif n) = sub_upd (p0, v0) :: map sub_upd us).
  { unfold sub_notif. cbn [n_upd]. now rewrite Hu. }
  rewrite Hupd.
  rewrite (sub_unit_index n p0 v0 us Hu Hn).
  assert (Hidx : sub_index n = ok_to_option (unit_index (sub_notif n))).
  { unfold sub_index. rewrite Hu. apply (sub_unit_index n p0 v0 us Hu Hn). }
  destruct (unit_index (sub_notif n)) as [p|e|w] eqn:Hui.
  2:{ exfalso. unfold unit_index in Hui. rewrite Hupd in Hui. eapply join_path_not_err; eauto. }
  2:{ cbn. eauto. }
  cbn [ok_to_option] in *.
  destruct p as [|k rest].
  { (* empty index path *) cbn. auto. }
  unfold update_pre.
  change md_root with "meta"%string.
  destruct (String.eqb k "meta") eqn:Hk.
  { (* under "meta" *) cbn [negb]. destruct rest as [|k2 rest]; [cbn; auto|exact I]. }
  cbn [negb]. cbv iota. cbn [fst snd].
  unfold update_leaf.
  pose proof HInv as HInv0. pose proof Hsim as Hsim0.
  destruct Hsim as [Htree Hcfg]. destruct HInv as [Hwf Hall].
  rewrite Htree, get_map.
  destruct (CTreeModel.get tr (k :: rest)) as [[old|cs]|] eqn:Hget; cbn [option_map nmap].
  - (* existing leaf *)
    pose proof (get_leaf_lookup _ _ _ Hget) as Hlk.
    destruct (Hall _ _ Hlk) as [Hold Holdu].
    unfold leaf_verdict. cbn [n_ts sub_notif].
    destruct (SubModel.n_ts n <? SubModel.n_ts old) eqn:Hlt.
    { cbn [N.eqb err_stale]. cbn. split; [exact HInv0|]. split; [exact Hsim0|]. auto. }
    rewrite (future_rejected_off _ _ _ _ Hcfg), andb_false_r.
    change (Notif (SubModel.n_ts old) _ _ _ _ _) with (sub_notif old).
    change (Notif (SubModel.n_ts n) _ _ _ _ _) with (sub_notif n).
    rewrite (notif_eqb_agree old n Hold Hn).
    destruct ((SubModel.n_ts n =? SubModel.n_ts old) && SubModel.noti_eqb old n) eqn:Heq.
    { cbn. split; [exact HInv0|]. split; [exact Hsim0|]. auto. }
    destruct (get_leaf_add tr (k :: rest) old n Hget) as [tr' Hadd].
    rewrite Hadd.
    assert (HInv' : Inv tr').
    { apply (Inv_add tr (k :: rest) n tr'); [split; assumption|assumption|congruence|assumption]. }
    unfold tree_set. rewrite add_map, Hadd. cbn [option_map].
    destruct (SubModel.n_upds old) as [|[po ov] uso] eqn:Huo; [congruence|].
    unfold SubModel.first_val. rewrite Huo.
    destruct (SubModel.n_atomic n) eqn:Hat; cbn [negb andb n_atomic sub_notif].
    + rewrite Hat, andb_false_r. cbn [fst snd]. split; [assumption|]. split.
      * apply tsim_ed_lat. split; [reflexivity|exact Hcfg].
      * auto.
    + rewrite Hat.
      assert (Hupo : n_upd (sub_notif old) = sub_upd (po, ov) :: map sub_upd uso)
        by (unfold sub_notif; cbn [n_upd]; now rewrite Huo).
      rewrite Hupo. cbn [sub_upd u_val fst snd].
      change (n_atomic (sub_notif old)) with (SubModel.n_atomic old).
      change defect_c03_2_atomic_suppress with false. cbn [orb].
      unfold value_equal, ValueModel.equal. cbn [equal_gen].
      destruct Hcfg as [Hthr Hed]. cbn [t_cfg set_tree]. rewrite Hed.
      destruct ed, (SubModel.n_atomic old), (ov =? v0); cbn [negb andb fst snd];
        (split; [assumption|]); (split; [|auto]);
        try apply tsim_ed_lat; (split; [reflexivity|split; assumption]).
  - (* a branch is in the way *)
    cbn. split; [exact HInv0|]. split; [exact Hsim0|]. auto.
  - (* new leaf *)
    rewrite add_map. destruct (CTreeModel.add tr (k :: rest) n) as [tr'|] eqn:Hadd; cbn [option_map].
    + assert (HInv' : Inv tr').
      { apply (Inv_add tr (k :: rest) n tr'); [split; assumption|assumption|congruence|assumption]. }
      unfold is_real. change md_root with "meta"%string. rewrite Hk. cbn [negb fst snd].
      split; [assumption|]. split; [|auto]. apply tsim_ed_lat. split; [reflexivity|exact Hcfg].
    + cbn. split; [exact HInv0|]. split; [exact Hsim0|]. auto.
Qed.

(** SubModel's own function: the instance [ed = true] *)
Theorem sub_update1_sim tr n t now :
  Inv tr -> tsim tr t -> noti_wf n ->
  match SubModel.gnmi_update1 tr n with
  | SubModel.URes tr' feed err =>
      let r := gnmi_update1 t now (sub_notif n) in
      Inv tr' /\ tsim tr' (fst r) /\
      match snd r with
      | Ok (Some nd) => err = false /\ feed = [n] /\ nd = sub_notif n
      | Ok None => err = false /\ feed = []
      | Err _ => err = true /\ feed = [] /\ tr' = tr
      | Panic _ => False
      end
  | SubModel.UPanic => exists w, snd (gnmi_update1 t now (sub_notif n)) = Panic w
  | SubModel.UMeta => True
  end.
Proof. exact (gen_update1_sim true tr n t now). Qed.

(** * Target.gnmiRemove and toDeleteNotification *)

Lemma render_deletes_map l ts : render_deletes l ts = map (fun d => mk_delete d ts (del_path d)) l.
Proof.
  induction l as [|d l IH]; [reflexivity|]. cbn [render_deletes map].
  change defect_c03_1_alias with false. cbv iota. now rewrite IH.
Qed.

Lemma all_some_total {X Y} (h : X -> option Y) (dflt : Y) l :
  (forall x, In x l -> h x <> None) ->
  SubModel.all_some (map h l) = Some (map (fun x => match h x with Some y => y | None => dflt end) l).
Proof.
  induction l as [|x l IH]; intros H; [reflexivity|]. cbn [map SubModel.all_some].
  destruct (h x) as [y|] eqn:E; [|exfalso; apply (H x); [now left|assumption]].
  rewrite IH by (intros; apply H; now right). reflexivity.
Qed.

Definition dummy_noti : SubModel.noti := SubModel.NT 0 (SubModel.GP "" "" []) [] [] false.

Lemma to_delete_agree ts old :
  SubModel.n_upds old <> [] ->
  exists dn, SubModel.to_delete_noti ts old = Some dn /\
             sub_notif dn = mk_delete (sub_notif old) ts (del_path (sub_notif old)).
Proof.
  intros Hu. unfold SubModel.to_delete_noti.
  destruct (SubModel.n_upds old) as [|[p0 v0] us] eqn:E; [congruence|].
  eexists. split; [reflexivity|].
  set (pf := SubModel.n_prefix old).
  assert (Hupo : n_upd (sub_notif old) = sub_upd (p0, v0) :: map sub_upd us)
    by (unfold sub_notif; cbn [n_upd]; now rewrite E).
  assert (E1 : del_prefix (sub_notif old) =
               sub_gp (SubModel.GP (SubModel.g_target pf)
                         (if (SubModel.g_origin pf =? "")%string && negb (SubModel.g_origin p0 =? "")%string
                          then SubModel.g_origin p0 else SubModel.g_origin pf) [])).
  { unfold del_prefix. rewrite Hupo. reflexivity. }
  assert (E2 : del_path (sub_notif old) =
               sub_gp (SubModel.GP "" "" (if SubModel.n_atomic old then SubModel.g_elems pf
                                          else SubModel.g_elems pf ++ SubModel.g_elems p0))).
  { unfold del_path. rewrite Hupo.
    change (n_atomic (sub_notif old)) with (SubModel.n_atomic old).
    destruct (SubModel.n_atomic old); [reflexivity|].
    subst pf. unfold sub_notif, sub_upd, sub_gp, path_elems.
    cbn [n_prefix gp_of_opt u_path fst gp_elems gp_element map].
    destruct (SubModel.g_elems (SubModel.n_prefix old)) as [|e es];
      destruct (SubModel.g_elems p0) as [|e' es'];
      cbn [app SubModel.g_elems SubModel.g_target SubModel.g_origin]; rewrite ?app_nil_r; reflexivity. }
  unfold mk_delete. rewrite E1, E2. reflexivity.
Qed.

Lemma Inv_delete tr q c : Inv tr -> Inv (fst (delete_cond tr q c)).
Proof.
  intros [Hwf Hall]. destruct (delete_spec tr q c Hwf) as (Hwf' & Hl & _).
  split; [assumption|]. intros p v. rewrite Hl. unfold sel.
  destruct (lookup tr p) as [v'|] eqn:E; [|discriminate].
  destruct (qmatch q p && c v'); [discriminate|]. intros [= <-]. now apply (Hall p).
Qed.

Lemma removed_stored tr q c pv :
  Inv tr -> In pv (snd (delete_cond tr q c)) -> noti_wf (snd pv) /\ SubModel.n_upds (snd pv) <> [].
Proof.
  intros [Hwf Hall] Hin. destruct (delete_spec tr q c Hwf) as (_ & _ & Hr & _).
  destruct pv as [s v]. apply Hr in Hin as (Hl & _). now apply Hall in Hl.
Qed.

Theorem gen_remove1_sim ed tr n t :
  Inv tr -> tsim_ed ed tr t -> noti_wf n ->
  match SubModel.gnmi_remove1 tr n with
  | SubModel.URes tr' feed err =>
      let r := gnmi_remove t (sub_notif n) in
      Inv tr' /\ tsim_ed ed tr' (fst r) /\ err = false /\
      exists removed, snd r = Ok removed /\
                      render_deletes removed (SubModel.n_ts n) = map sub_notif feed
  | SubModel.UPanic => exists w, snd (gnmi_remove t (sub_notif n)) = Panic w
  | SubModel.UMeta => True
  end.
Proof.
  intros HInv Hsim (Hp & _ & Hds).
  unfold SubModel.gnmi_remove1, gnmi_remove.
  assert (Hdel : n_del (sub_notif n) = map sub_gp (SubModel.n_dels n)) by reflexivity.
  rewrite Hdel.
  destruct (SubModel.n_dels n) as [|d ds] eqn:Hd; cbn [map].
  { cbn. eauto. }
  inversion Hds as [|? ? Hdwf _]; subst.
  rewrite (sub_join_cache_eq (SubModel.n_prefix n) (Some d) Hp Hdwf). cbn [option_map].
  change (n_prefix (sub_notif n)) with (Some (sub_gp (SubModel.n_prefix n))).
  destruct (join_path (Some (sub_gp (SubModel.n_prefix n))) (Some (sub_gp d))) as [p|e|w] eqn:Hj.
  2:{ exfalso. eapply join_path_not_err; eauto. }
  2:{ cbn. eauto. }
  cbn [ok_to_option].
  destruct (match p with k :: _ => (k =? "meta")%string | [] => false end) eqn:Hm; [exact I|].
  assert (Ht1 : match p with
                | p0 :: k :: _ => if (p0 =? md_root)%string then set_meta t (md_reset_entry (t_meta t) k) else t
                | _ => t
                end = t).
  { destruct p as [|p0 [|k r]]; try reflexivity. change md_root with "meta"%string. now rewrite Hm. }
  rewrite Ht1. destruct Hsim as [Htree Hcfg]. rewrite Htree.
  rewrite (delete_cond_map sub_notif (fun old => SubModel.n_ts old <? SubModel.n_ts n)
                           (fun v => n_ts v <? n_ts (sub_notif n)) (fun v => eq_refl) tr p).
  cbn [fst snd].
  set (r0 := delete_cond tr p (fun old => SubModel.n_ts old <? SubModel.n_ts n)).
  rewrite (all_some_total (fun pv => SubModel.to_delete_noti (SubModel.n_ts n) (snd pv)) dummy_noti).
  2:{ intros pv Hin. destruct (removed_stored tr p _ pv HInv Hin) as [_ Hu].
      destruct (to_delete_agree (SubModel.n_ts n) (snd pv) Hu) as (dn & -> & _). discriminate. }
  assert (HInv' : Inv (fst r0)) by (apply Inv_delete; assumption).
  assert (Hrm : map snd (pmap sub_notif (snd r0)) = map sub_notif (map snd (snd r0))).
  { unfold pmap. rewrite !map_map. reflexivity. }
  rewrite Hrm.
  assert (Hren : render_deletes (map sub_notif (map snd (snd r0))) (SubModel.n_ts n) =
                 map sub_notif
                   (map (fun pv => match SubModel.to_delete_noti (SubModel.n_ts n) (snd pv) with
                                   | Some y => y | None => dummy_noti end) (snd r0))).
  { rewrite render_deletes_map, !map_map. apply map_ext_in. intros pv Hin.
    destruct (removed_stored tr p _ pv HInv Hin) as [_ Hu].
    destruct (to_delete_agree (SubModel.n_ts n) (snd pv) Hu) as (dn & -> & E). now rewrite E. }
  split; [exact HInv'|].
  destruct (map sub_notif (map snd (snd r0))) as [|x xs] eqn:Hrem; cbn [fst snd].
  - split; [split; [reflexivity|exact Hcfg]|]. split; [reflexivity|].
    exists []. split; [reflexivity|]. rewrite <- Hren. reflexivity.
  - split; [split; [reflexivity|exact Hcfg]|]. split; [reflexivity|].
    exists (x :: xs). split; [reflexivity|]. exact Hren.
Qed.

Theorem sub_remove1_sim tr n t :
  Inv tr -> tsim tr t -> noti_wf n ->
  match SubModel.gnmi_remove1 tr n with
  | SubModel.URes tr' feed err =>
      let r := gnmi_remove t (sub_notif n) in
      Inv tr' /\ tsim tr' (fst r) /\ err = false /\
      exists removed, snd r = Ok removed /\
                      render_deletes removed (SubModel.n_ts n) = map sub_notif feed
  | SubModel.UPanic => exists w, snd (gnmi_remove t (sub_notif n)) = Panic w
  | SubModel.UMeta => True
  end.
Proof. exact (gen_remove1_sim true tr n t). Qed.

(** * Target.GnmiUpdate *)

Lemma render_feed_app a b : render_feed (a ++ b) = render_feed a ++ render_feed b.
Proof. unfold render_feed. apply flat_map_app. Qed.

Lemma multi_update_panicked now n a us :
  a_panic a <> None -> a_panic (fold_left (multi_update_step now n) us a) <> None.
Proof.
  revert a. induction us as [|u us IH]; intros a H; [exact H|]. cbn [fold_left]. apply IH.
  unfold multi_update_step. destruct (a_panic a) eqn:E; [rewrite E; discriminate|congruence].
Qed.

Lemma multi_delete_panicked n a ds :
  a_panic a <> None -> a_panic (fold_left (multi_delete_step n) ds a) <> None.
Proof.
  revert a. induction ds as [|d ds IH]; intros a H; [exact H|]. cbn [fold_left]. apply IH.
  unfold multi_delete_step. destruct (a_panic a) eqn:E; [rewrite E; discriminate|congruence].
Qed.

Lemma clone_update_single n u :
  SubModel.n_atomic n = false ->
  clone_with_update (sub_notif n) (sub_upd u) = sub_notif (SubModel.single_upd n u).
Proof. intros H. unfold clone_with_update, sub_notif, SubModel.single_upd. cbn. now rewrite H. Qed.

Lemma clone_delete_single n d :
  SubModel.n_atomic n = false ->
  clone_with_delete (sub_notif n) (sub_gp d) = sub_notif (SubModel.single_del n d).
Proof. intros H. unfold clone_with_delete, sub_notif, SubModel.single_del. cbn. now rewrite H. Qed.

(** relation between SubModel's (feed, error flag) and CacheModel's accumulator *)
Definition acc_rel (tr : tree SubModel.noti) (feed : list SubModel.noti) (err : bool) (a : acc) : Prop :=
  Inv tr /\ tsim tr (a_t a) /\ a_panic a = None /\
  render_feed (a_feed a) = map sub_notif feed /\ (a_errs a = [] <-> err = false).

Lemma multi_updates_sim now n us : forall tr a feed err,
  SubModel.n_atomic n = false -> sub_wf (SubModel.n_prefix n) ->
  Forall (fun u => sub_wf (fst u)) us ->
  acc_rel tr feed err a ->
  match SubModel.apply_parts SubModel.gnmi_update1 tr (map (SubModel.single_upd n) us) feed err with
  | SubModel.URes tr' feed' err' =>
      acc_rel tr' feed' err' (fold_left (multi_update_step now (sub_notif n)) (map sub_upd us) a)
  | SubModel.UPanic =>
      a_panic (fold_left (multi_update_step now (sub_notif n)) (map sub_upd us) a) <> None
  | SubModel.UMeta => True
  end.
Proof.
  induction us as [|u us IH]; intros tr a feed err Hat Hpf Hus Hrel.
  { exact Hrel. }
  inversion Hus as [|? ? Hu Hus']; subst.
  destruct Hrel as (HInv & Hsim & Hnp & Hfeed & Herr).
  cbn [map SubModel.apply_parts fold_left].
  assert (Hm : noti_wf (SubModel.single_upd n u)).
  { split; [exact Hpf|]. split; [constructor; [exact Hu|constructor]|constructor]. }
  pose proof (sub_update1_sim tr (SubModel.single_upd n u) (a_t a) now HInv Hsim Hm) as Hs.
  assert (Hstep : multi_update_step now (sub_notif n) a (sub_upd u) =
                  match gnmi_update1 (a_t a) now (sub_notif (SubModel.single_upd n u)) with
                  | (t', Panic w) => Acc t' (a_feed a) (a_errs a) (a_ok a) (Some w)
                  | (t', Err e) => Acc t' (a_feed a) (a_errs a ++ [e]) (a_ok a) None
                  | (t', Ok None) => Acc t' (a_feed a) (a_errs a) true None
                  | (t', Ok (Some nd)) =>
                      Acc (add_int t' md_update_count 1) (a_feed a ++ [FUpd nd]) (a_errs a) true None
                  end).
  { unfold multi_update_step. now rewrite Hnp, (clone_update_single n u Hat). }
  rewrite Hstep. clear Hstep.
  destruct (SubModel.gnmi_update1 tr (SubModel.single_upd n u)) as [tr1 fd e| |].
  - cbv zeta in Hs.
    destruct (gnmi_update1 (a_t a) now (sub_notif (SubModel.single_upd n u))) as [t' [[nd|]|ec|w]];
      cbn [fst snd] in Hs; destruct Hs as (HInv1 & Hsim1 & Hres).
    + destruct Hres as (-> & -> & ->). apply IH; try assumption.
      split; [assumption|]. split; [exact Hsim1|]. split; [reflexivity|]. cbn [a_feed a_errs]. split.
      * rewrite render_feed_app, Hfeed, map_app. reflexivity.
      * now rewrite orb_false_r.
    + destruct Hres as (-> & ->). apply IH; try assumption.
      split; [assumption|]. split; [exact Hsim1|]. split; [reflexivity|]. cbn [a_feed a_errs]. split.
      * now rewrite app_nil_r.
      * now rewrite orb_false_r.
    + destruct Hres as (-> & -> & ->). apply IH; try assumption.
      split; [assumption|]. split; [exact Hsim1|]. split; [reflexivity|]. cbn [a_feed a_errs]. split.
      * now rewrite app_nil_r.
      * rewrite orb_true_r. split; [|discriminate]. intros H. now apply app_eq_nil in H as [_ H].
    + contradiction.
  - destruct Hs as [w Hw].
    destruct (gnmi_update1 (a_t a) now (sub_notif (SubModel.single_upd n u))) as [t' o]. cbn in Hw. subst o.
    apply multi_update_panicked. cbn. discriminate.
  - exact I.
Qed.

Lemma multi_deletes_sim n ds : forall tr a feed err,
  SubModel.n_atomic n = false -> sub_wf (SubModel.n_prefix n) ->
  Forall sub_wf ds ->
  acc_rel tr feed err a ->
  match SubModel.apply_parts SubModel.gnmi_remove1 tr (map (SubModel.single_del n) ds) feed err with
  | SubModel.URes tr' feed' err' =>
      acc_rel tr' feed' err' (fold_left (multi_delete_step (sub_notif n)) (map sub_gp ds) a)
  | SubModel.UPanic =>
      a_panic (fold_left (multi_delete_step (sub_notif n)) (map sub_gp ds) a) <> None
  | SubModel.UMeta => True
  end.
Proof.
  induction ds as [|d ds IH]; intros tr a feed err Hat Hpf Hds Hrel.
  { exact Hrel. }
  inversion Hds as [|? ? Hd Hds']; subst.
  destruct Hrel as (HInv & Hsim & Hnp & Hfeed & Herr).
  cbn [map SubModel.apply_parts fold_left].
  assert (Hm : noti_wf (SubModel.single_del n d)).
  { split; [exact Hpf|]. split; [constructor|constructor; [exact Hd|constructor]]. }
  pose proof (sub_remove1_sim tr (SubModel.single_del n d) (add_int (a_t a) md_update_count 1)
                HInv (tsim_add_int _ _ _ _ Hsim) Hm) as Hs.
  assert (Hstep : multi_delete_step (sub_notif n) a (sub_gp d) =
                  match gnmi_remove (add_int (a_t a) md_update_count 1) (sub_notif (SubModel.single_del n d)) with
                  | (t', Panic w) => Acc t' (a_feed a) (a_errs a) (a_ok a) (Some w)
                  | (t', Err e) => Acc t' (a_feed a) (a_errs a ++ [e]) (a_ok a) None
                  | (t', Ok removed) =>
                      Acc t' (a_feed a ++ [FDel removed (SubModel.n_ts n)]) (a_errs a) (a_ok a) None
                  end).
  { unfold multi_delete_step. now rewrite Hnp, (clone_delete_single n d Hat). }
  rewrite Hstep. clear Hstep.
  destruct (SubModel.gnmi_remove1 tr (SubModel.single_del n d)) as [tr1 fd e| |].
  - cbv zeta in Hs. destruct Hs as (HInv1 & Hsim1 & -> & removed & Hrm & Hren).
    destruct (gnmi_remove (add_int (a_t a) md_update_count 1) (sub_notif (SubModel.single_del n d)))
      as [t' o]. cbn [fst snd] in *. subst o.
    apply IH; try assumption.
    split; [assumption|]. split; [exact Hsim1|]. split; [reflexivity|]. cbn [a_feed a_errs]. split.
    + rewrite render_feed_app, Hfeed, map_app. cbn [render_feed flat_map render_group].
      rewrite app_nil_r. f_equal. exact Hren.
    + now rewrite orb_false_r.
  - destruct Hs as [w Hw].
    destruct (gnmi_remove (add_int (a_t a) md_update_count 1) (sub_notif (SubModel.single_del n d)))
      as [t' o]. cbn in Hw. subst o.
    apply multi_delete_panicked. cbn. discriminate.
  - exact I.
Qed.

Lemma not_none_some {X} (o : option X) : o <> None -> exists w, o = Some w.
Proof. destruct o; [eauto|congruence]. Qed.

(** what is compared of the result of Target.GnmiUpdate: no error / some error *)
Definition gres_err (r : gres) : option bool :=
  match r with GOk => Some false | GErr _ | GErrs _ => Some true | GPanic _ => None end.

Definition tgt_rel (tr : tree SubModel.noti) (t : target) (now : Z) (n : SubModel.noti)
  (res : SubModel.ures) : Prop :=
  let R := target_gnmi_update t now (sub_notif n) in
  match res with
  | SubModel.URes tr' feed err =>
      Inv tr' /\ tsim tr' (fst (fst R)) /\
      render_feed (snd (fst R)) = map sub_notif feed /\ gres_err (snd R) = Some err
  | SubModel.UPanic => exists w, snd R = GPanic w
  | SubModel.UMeta => True
  end.

Lemma tgt_multi_sim tr n t now :
  Inv tr -> tsim tr t -> noti_wf n -> SubModel.n_atomic n = false ->
  let a2 := fold_left (multi_delete_step (sub_notif n)) (map sub_gp (SubModel.n_dels n))
              (fold_left (multi_update_step now (sub_notif n)) (map sub_upd (SubModel.n_upds n))
                         (Acc t [] [] false None)) in
  match (match SubModel.apply_parts SubModel.gnmi_update1 tr
                 (map (SubModel.single_upd n) (SubModel.n_upds n)) [] false with
         | SubModel.URes tr1 fd1 e1 =>
             SubModel.apply_parts SubModel.gnmi_remove1 tr1
               (map (SubModel.single_del n) (SubModel.n_dels n)) fd1 e1
         | r => r
         end) with
  | SubModel.URes tr' feed err =>
      Inv tr' /\ tsim tr' (finish_ts (sub_notif n) (a_ok a2) (a_t a2)) /\
      render_feed (a_feed a2) = map sub_notif feed /\
      gres_err (match a_panic a2 with
                | Some w => GPanic w
                | None => match a_errs a2 with [] => GOk | es => GErrs es end
                end) = Some err
  | SubModel.UPanic => exists w, a_panic a2 = Some w
  | SubModel.UMeta => True
  end.
Proof.
  intros HInv Hsim (Hpf & Hus & Hds) Hat a2. subst a2.
  assert (H0 : acc_rel tr [] false (Acc t [] [] false None)).
  { split; [assumption|]. split; [exact Hsim|]. repeat split; auto. }
  pose proof (multi_updates_sim now n (SubModel.n_upds n) tr _ [] false Hat Hpf Hus H0) as H1.
  destruct (SubModel.apply_parts SubModel.gnmi_update1 tr
              (map (SubModel.single_upd n) (SubModel.n_upds n)) [] false) as [tr1 fd1 e1| |].
  - pose proof (multi_deletes_sim n (SubModel.n_dels n) tr1 _ fd1 e1 Hat Hpf Hds H1) as H2.
    destruct (SubModel.apply_parts SubModel.gnmi_remove1 tr1
                (map (SubModel.single_del n) (SubModel.n_dels n)) fd1 e1) as [tr2 fd2 e2| |].
    + destruct H2 as (HInv2 & Hsim2 & Hnp & Hfeed & Herr).
      split; [assumption|]. split; [now apply tsim_finish|]. split; [assumption|].
      rewrite Hnp. destruct (a_errs _) as [|x xs]; destruct e2; cbn; try reflexivity.
      * destruct Herr as [Herr _]. specialize (Herr eq_refl). discriminate.
      * destruct Herr as [_ Herr]. specialize (Herr eq_refl). discriminate.
    + apply not_none_some. exact H2.
    + exact I.
  - pose proof (multi_delete_panicked (sub_notif n) _ (map sub_gp (SubModel.n_dels n)) H1) as H2.
    apply not_none_some. exact H2.
  - exact I.
Qed.

Lemma tgt_multi_rel tr n t now :
  Inv tr -> tsim tr t -> noti_wf n -> SubModel.n_atomic n = false ->
  let a2 := fold_left (multi_delete_step (sub_notif n)) (map sub_gp (SubModel.n_dels n))
              (fold_left (multi_update_step now (sub_notif n)) (map sub_upd (SubModel.n_upds n))
                         (Acc t [] [] false None)) in
  let R := (finish_ts (sub_notif n) (a_ok a2) (a_t a2), a_feed a2,
            match a_panic a2 with
            | Some w => GPanic w
            | None => match a_errs a2 with [] => GOk | es => GErrs es end
            end) in
  match (match SubModel.apply_parts SubModel.gnmi_update1 tr
                 (map (SubModel.single_upd n) (SubModel.n_upds n)) [] false with
         | SubModel.URes tr1 fd1 e1 =>
             SubModel.apply_parts SubModel.gnmi_remove1 tr1
               (map (SubModel.single_del n) (SubModel.n_dels n)) fd1 e1
         | r => r
         end) with
  | SubModel.URes tr' feed err =>
      Inv tr' /\ tsim tr' (fst (fst R)) /\
      render_feed (snd (fst R)) = map sub_notif feed /\ gres_err (snd R) = Some err
  | SubModel.UPanic => exists w, snd R = GPanic w
  | SubModel.UMeta => True
  end.
Proof.
  intros HInv Hsim Hn Hat a2 R. pose proof (tgt_multi_sim tr n t now HInv Hsim Hn Hat) as H.
  cbv zeta in H. fold a2 in H.
  destruct (match SubModel.apply_parts SubModel.gnmi_update1 tr
                 (map (SubModel.single_upd n) (SubModel.n_upds n)) [] false with
         | SubModel.URes tr1 fd1 e1 =>
             SubModel.apply_parts SubModel.gnmi_remove1 tr1
               (map (SubModel.single_del n) (SubModel.n_dels n)) fd1 e1
         | r => r
         end) as [tr' feed err| |].
  - exact H.
  - destruct H as [w Hw]. exists w. subst R. cbn [snd]. now rewrite Hw.
  - exact I.
Qed.

(** Target.GnmiUpdate: the dispatch (atomic / empty / one update / one delete /
    several), errors, panics, the tree and the feed. *)
Theorem sub_tgt_update_sim tr n t now :
  Inv tr -> tsim tr t -> noti_wf n ->
  tgt_rel tr t now n (SubModel.tgt_update tr n).
Proof.
  intros HInv Hsim Hn. unfold tgt_rel, SubModel.tgt_update, target_gnmi_update.
  change (n_atomic (sub_notif n)) with (SubModel.n_atomic n).
  change (n_del (sub_notif n)) with (map sub_gp (SubModel.n_dels n)).
  change (n_upd (sub_notif n)) with (map sub_upd (SubModel.n_upds n)).
  (* the single-update branch, shared by the atomic and the non-atomic case *)
  assert (Hsingle : forall k,
    match SubModel.gnmi_update1 tr n with
    | SubModel.URes tr' feed err =>
        Inv tr' /\
        tsim tr' (fst (fst (match gnmi_update1 t now (sub_notif n) with
                            | (t', Panic w) => (finish_ts (sub_notif n) false t', [], GPanic w)
                            | (t', Err e) => (finish_ts (sub_notif n) false t', [], GErr e)
                            | (t', Ok None) => (finish_ts (sub_notif n) true t', [], GOk)
                            | (t', Ok (Some nd)) =>
                                (finish_ts (sub_notif n) true (add_int t' md_update_count k), [FUpd nd], GOk)
                            end))) /\
        render_feed (snd (fst (match gnmi_update1 t now (sub_notif n) with
                            | (t', Panic w) => (finish_ts (sub_notif n) false t', [], GPanic w)
                            | (t', Err e) => (finish_ts (sub_notif n) false t', [], GErr e)
                            | (t', Ok None) => (finish_ts (sub_notif n) true t', [], GOk)
                            | (t', Ok (Some nd)) =>
                                (finish_ts (sub_notif n) true (add_int t' md_update_count k), [FUpd nd], GOk)
                            end))) = map sub_notif feed /\
        gres_err (snd (match gnmi_update1 t now (sub_notif n) with
                            | (t', Panic w) => (finish_ts (sub_notif n) false t', [], GPanic w)
                            | (t', Err e) => (finish_ts (sub_notif n) false t', [], GErr e)
                            | (t', Ok None) => (finish_ts (sub_notif n) true t', [], GOk)
                            | (t', Ok (Some nd)) =>
                                (finish_ts (sub_notif n) true (add_int t' md_update_count k), [FUpd nd], GOk)
                            end)) = Some err
    | SubModel.UPanic =>
        exists w, snd (match gnmi_update1 t now (sub_notif n) with
                            | (t', Panic w) => (finish_ts (sub_notif n) false t', [], GPanic w)
                            | (t', Err e) => (finish_ts (sub_notif n) false t', [], GErr e)
                            | (t', Ok None) => (finish_ts (sub_notif n) true t', [], GOk)
                            | (t', Ok (Some nd)) =>
                                (finish_ts (sub_notif n) true (add_int t' md_update_count k), [FUpd nd], GOk)
                            end) = GPanic w
    | SubModel.UMeta => True
    end).
  { intros k. pose proof (sub_update1_sim tr n t now HInv Hsim Hn) as Hs.
    destruct (SubModel.gnmi_update1 tr n) as [tr' feed err| |].
    - cbv zeta in Hs. destruct (gnmi_update1 t now (sub_notif n)) as [t' [[nd|]|e|w]];
        cbn [fst snd] in *; destruct Hs as (HInv' & Hsim' & Hres).
      + destruct Hres as (-> & -> & ->). split; [assumption|]. split; [apply tsim_finish; exact Hsim'|].
        split; reflexivity.
      + destruct Hres as (-> & ->). split; [assumption|]. split; [apply tsim_finish; exact Hsim'|].
        split; reflexivity.
      + destruct Hres as (-> & -> & ->). split; [assumption|]. split; [apply tsim_finish; exact Hsim'|].
        split; reflexivity.
      + contradiction.
    - destruct Hs as [w Hw]. destruct (gnmi_update1 t now (sub_notif n)) as [t' o]. cbn in Hw. subst o.
      cbn. eauto.
    - exact I. }
  destruct (SubModel.n_atomic n) eqn:Hat.
  - (* atomic *)
    destruct (SubModel.n_dels n) as [|d ds] eqn:Hd; cbn [map].
    + destruct (SubModel.n_upds n) as [|u us] eqn:Hu; cbn [map].
      * cbn. split; [assumption|]. split; [exact Hsim|]. split; reflexivity.
      * cbn [length]. apply Hsingle.
    + cbn. split; [assumption|]. split; [exact Hsim|]. split; reflexivity.
  - (* not atomic *)
    pose proof (tgt_multi_rel tr n t now HInv Hsim Hn Hat) as Hmulti. cbv zeta in Hmulti.
    destruct (SubModel.n_upds n) as [|u [|u2 us]] eqn:Hu;
      destruct (SubModel.n_dels n) as [|d [|d2 ds]] eqn:Hd.
    + cbn. split; [assumption|]. split; [exact Hsim|]. split; reflexivity.
    + (* one delete *)
      pose proof (sub_remove1_sim tr n (add_int t md_update_count 1) HInv (tsim_add_int _ _ _ _ Hsim) Hn) as Hs.
      cbn [map length Nat.add Nat.ltb Nat.leb].
      destruct (SubModel.gnmi_remove1 tr n) as [tr' feed err| |].
      * cbv zeta in Hs. destruct Hs as (HInv' & Hsim' & -> & removed & Hrm & Hren).
        destruct (gnmi_remove (add_int t md_update_count 1) (sub_notif n)) as [t' o].
        cbn [fst snd] in *. subst o. cbn [fst snd].
        split; [assumption|]. split; [assumption|]. split; [|reflexivity].
        cbn [render_feed flat_map render_group]. rewrite app_nil_r. exact Hren.
      * destruct Hs as [w Hw]. destruct (gnmi_remove (add_int t md_update_count 1) (sub_notif n)) as [t' o].
        cbn in Hw. subst o. cbn. eauto.
      * exact I.
    + exact Hmulti.
    + (* one update *)
      cbn [map length Nat.add Nat.ltb Nat.leb]. apply Hsingle.
    + exact Hmulti.
    + exact Hmulti.
    + exact Hmulti.
    + exact Hmulti.
    + exact Hmulti.
Qed.

(** * The cache: any number of targets *)

Section Assoc2.
Context {A B : Type} (R : A -> B -> Prop).

Definition kR (ka : string * A) (kb : string * B) : Prop := fst ka = fst kb /\ R (snd ka) (snd kb).

Lemma Forall2_assoc k l l' :
  Forall2 kR l l' ->
  match assoc k l, assoc k l' with
  | Some a, Some b => R a b
  | None, None => True
  | _, _ => False
  end.
Proof.
  induction 1 as [|[k1 a] [k2 b] l l' [Hk Hr] _ IH]; cbn; [exact I|]. cbn in Hk, Hr. subst k2.
  destruct (String.eqb k k1); [exact Hr|exact IH].
Qed.

Lemma Forall2_aset k a b l l' :
  R a b -> Forall2 kR l l' -> Forall2 kR (aset k a l) (aset k b l').
Proof.
  intros Hr. induction 1 as [|[k1 a1] [k2 b1] l l' [Hk Hr1] Hl IH]; cbn.
  - constructor; [split; [reflexivity|exact Hr]|constructor].
  - cbn in Hk, Hr1. subst k2. destruct (String.eqb k k1); cbn.
    + constructor; [split; [reflexivity|exact Hr]|exact Hl].
    + constructor; [split; [reflexivity|exact Hr1]|exact IH].
Qed.

Lemma Forall2_adel k l l' : Forall2 kR l l' -> Forall2 kR (adel k l) (adel k l').
Proof.
  induction 1 as [|[k1 a1] [k2 b1] l l' [Hk Hr1] Hl IH]; cbn; [constructor|].
  cbn in Hk. subst k2. destruct (String.eqb k k1); [exact Hl|].
  constructor; [split; [reflexivity|exact Hr1]|exact IH].
Qed.
End Assoc2.

Definition trel (tr : tree SubModel.noti) (t : target) : Prop := Inv tr /\ tsim tr t.

Definition csim (c : SubModel.cache) (C : cache) : Prop :=
  cfg_ok (c_cfg C) /\ Forall2 (kR trel) c (c_targets C).

Lemma csim_empty cfg : cfg_ok cfg -> csim [] (Cache cfg []).
Proof. intros H. split; [exact H|constructor]. Qed.

Lemma trel_new name cfg : cfg_ok cfg -> trel None (new_target name cfg).
Proof. intros H. split; [apply Inv_empty|]. split; [reflexivity|exact H]. Qed.

(** the CacheModel call that corresponds to an operation of SubModel's
    harness.  [now] is the reading of cache.Now for the calls whose SubModel
    operation does not carry one (irrelevant with the future check disabled).
    The feed of a churn (Remove; Add) is not modelled by SubModel and is
    projected away here as well. *)
Definition cache_do (C : cache) (now : Z) (o : SubModel.cop) : cache * list notif * option gres :=
  match o with
  | SubModel.CUpdate n =>
      let R := cache_gnmi_update C now (sub_notif n) in (fst (fst R), render_feed (snd (fst R)), Some (snd R))
  | SubModel.CRemove t now' => let R := cache_remove C now' t in (fst R, snd R, None)
  | SubModel.CAdd t => (cache_add C t, [], None)
  | SubModel.CChurn t => (cache_add (fst (cache_remove C now t)) t, [], None)
  end.

Definition cop_wf (o : SubModel.cop) : Prop :=
  match o with SubModel.CUpdate n => noti_wf n | _ => True end.

Definition cres_rel (cr : SubModel.cres) (g : option gres) : Prop :=
  match g with
  | None => cr = SubModel.COk
  | Some r =>
      match cr with
      | SubModel.COk => gres_err r = Some false
      | SubModel.CErr => gres_err r = Some true
      | SubModel.CPanic => exists w, r = GPanic w
      | SubModel.CMeta => True
      end
  end.

Definition clean (cr : SubModel.cres) : Prop := cr = SubModel.COk \/ cr = SubModel.CErr.

Theorem sub_cache_op_sim c C now o :
  csim c C -> cop_wf o ->
  let S := SubModel.cache_op c o in
  let D := cache_do C now o in
  cres_rel (snd S) (snd D) /\
  (clean (snd S) -> csim (fst (fst S)) (fst (fst D)) /\ snd (fst D) = map sub_notif (snd (fst S))).
Proof.
  intros [Hcfg Hts] Hwf. destruct o as [n|tn now'|tn|tn]; cbn [SubModel.cache_op cache_do cop_wf] in *.
  - (* Cache.GnmiUpdate *)
    unfold cache_gnmi_update. change (n_prefix (sub_notif n)) with (Some (sub_gp (SubModel.n_prefix n))).
    cbv iota. change (gp_target (sub_gp (SubModel.n_prefix n))) with (SubModel.g_target (SubModel.n_prefix n)).
    pose proof (Forall2_assoc trel (SubModel.g_target (SubModel.n_prefix n)) _ _ Hts) as Ha.
    destruct (assoc (SubModel.g_target (SubModel.n_prefix n)) c) as [tr|];
      destruct (assoc (SubModel.g_target (SubModel.n_prefix n)) (c_targets C)) as [t|]; try contradiction.
    + destruct Ha as [HInv Hsim].
      pose proof (sub_tgt_update_sim tr n t now HInv Hsim Hwf) as Hs. unfold tgt_rel in Hs. cbv zeta in Hs.
      destruct (target_gnmi_update t now (sub_notif n)) as [[t' fg] r]. cbn [fst snd] in *.
      destruct (SubModel.tgt_update tr n) as [tr' feed err| |]; cbn [fst snd].
      * destruct Hs as (HInv' & Hsim' & Hfeed & Hres). split.
        -- destruct err; exact Hres.
        -- intros _. split; [|exact Hfeed]. split; [exact Hcfg|]. cbn [c_cfg c_targets set_target].
           apply Forall2_aset; [split; assumption|exact Hts].
      * destruct Hs as [w ->]. split; [cbn; eauto|]. intros [H|H]; discriminate.
      * split; [exact I|]. intros [H|H]; discriminate.
    + cbn. split; [reflexivity|]. intros _. split; [split; assumption|reflexivity].
  - (* Cache.Remove *)
    cbn. split; [reflexivity|]. intros _. split; [|reflexivity].
    split; [exact Hcfg|]. cbn. now apply Forall2_adel.
  - (* Cache.Add *)
    cbn. split; [reflexivity|]. intros _. split; [|reflexivity].
    split; [exact Hcfg|]. cbn. apply Forall2_aset; [now apply trel_new|exact Hts].
  - (* Remove; Add *)
    cbn. split; [reflexivity|]. intros _. split; [|reflexivity].
    split; [exact Hcfg|]. cbn. apply Forall2_aset; [now apply trel_new|]. now apply Forall2_adel.
Qed.

(** ** scripts *)

(** SubModel's cache after a script, the feed of every step, and whether
    every step stayed inside the modelled fragment *)
Fixpoint sub_script (c : SubModel.cache) (ops : list SubModel.cop)
  : SubModel.cache * list (list SubModel.noti) * bool :=
  match ops with
  | [] => (c, [], true)
  | o :: r =>
      let S := SubModel.cache_op c o in
      match snd S with
      | SubModel.COk | SubModel.CErr =>
          let rest := sub_script (fst (fst S)) r in
          (fst (fst rest), snd (fst S) :: snd (fst rest), snd rest)
      | _ => (fst (fst S), [], false)
      end
  end.

(** the same script on CacheModel; [clock k] is the reading of cache.Now
    during the k-th call *)
Fixpoint cache_script (C : cache) (clock : nat -> Z) (k : nat) (ops : list SubModel.cop)
  : cache * list (list notif) :=
  match ops with
  | [] => (C, [])
  | o :: r =>
      let D := cache_do C (clock k) o in
      let rest := cache_script (fst (fst D)) clock (S k) r in
      (fst rest, snd (fst D) :: snd rest)
  end.

Theorem sub_script_sim ops : forall c C clock k,
  csim c C -> Forall cop_wf ops ->
  snd (sub_script c ops) = true ->
  csim (fst (fst (sub_script c ops))) (fst (cache_script C clock k ops)) /\
  snd (cache_script C clock k ops) = map (map sub_notif) (snd (fst (sub_script c ops))).
Proof.
  induction ops as [|o ops IH]; intros c C clock k Hsim Hwf Hclean.
  - cbn. auto.
  - inversion Hwf as [|? ? Ho Hops]; subst.
    destruct (sub_cache_op_sim c C (clock k) o Hsim Ho) as [Hres Hstep]. cbv zeta in Hres, Hstep.
    cbn [sub_script cache_script] in *.
    destruct (snd (SubModel.cache_op c o)) eqn:Hcr; try discriminate;
      (destruct Hstep as [Hsim' Hfeed]; [unfold clean; auto|]);
      cbn [fst snd] in *;
      destruct (IH _ _ clock (S k) Hsim' Hops Hclean) as [H1 H2];
      (split; [exact H1|]); cbn [map]; now rewrite Hfeed, H2.
Qed.

(** * Cache.Query: what the snapshot walk reads *)

Lemma query_tsim tr t q :
  tsim tr t -> map snd (CTreeModel.query (t_tree t) q) = map sub_notif (map snd (CTreeModel.query tr q)).
Proof.
  intros [Htree _]. rewrite Htree, query_map. unfold pmap. rewrite !map_map. reflexivity.
Qed.

Theorem sub_query_sim c C tn q :
  csim c C -> tn <> ""%string ->
  match cache_query C tn q with Some l => map snd l | None => [] end =
  map sub_notif (flat_map (fun tr => map snd (CTreeModel.query tr q)) (SubModel.sel_trees c tn)).
Proof.
  intros [_ Hts] Hne. unfold cache_query, SubModel.sel_trees.
  destruct (String.eqb_spec tn "") as [->|_]; [congruence|].
  destruct (String.eqb tn "*").
  - induction Hts as [|[k1 tr] [k2 t] l l' [Hk [_ Hsim]] _ IH]; [reflexivity|].
    cbn [map flat_map fst snd] in *. rewrite !map_app, IH. f_equal.
    rewrite map_map. cbn [snd]. apply (query_tsim tr t q Hsim).
  - pose proof (Forall2_assoc trel tn _ _ Hts) as Ha.
    destruct (assoc tn c) as [tr|]; destruct (assoc tn (c_targets C)) as [t|]; try contradiction.
    + destruct Ha as [_ Hsim]. cbn [flat_map]. rewrite app_nil_r, map_map. cbn [snd].
      apply (query_tsim tr t q Hsim).
    + reflexivity.
Qed.

(** the leaf content: what is stored where *)
Theorem sub_lookup_sim c C tn p :
  csim c C ->
  match assoc tn c, assoc tn (c_targets C) with
  | Some tr, Some t => lookup (t_tree t) p = option_map sub_notif (lookup tr p)
  | None, None => True
  | _, _ => False
  end.
Proof.
  intros [_ Hts]. pose proof (Forall2_assoc trel tn _ _ Hts) as Ha.
  destruct (assoc tn c) as [tr|]; destruct (assoc tn (c_targets C)) as [t|]; try contradiction; [|exact I].
  destruct Ha as [_ [Htree _]]. rewrite Htree. apply lookup_map.
Qed.

(** * Non-vacuity: a script with an atomic container, an overwrite by a
      non-atomic update with the same value, a multi notification and a delete *)

Definition ex_cfg : config := Cfg 0 true [].
Definition ex_p (names : list string) : SubModel.gpath :=
  SubModel.GP "" "" (map (fun s => (s, [])) names).
Definition ex_pre : SubModel.gpath := SubModel.GP "dev" "" [("a", [])].
Definition ex_pre2 : SubModel.gpath := SubModel.GP "dev" "" [("r", [])].

Definition ex_ops : list SubModel.cop :=
  [ SubModel.CAdd "dev";
    SubModel.CUpdate (SubModel.NT 1 ex_pre [(ex_p ["x"], 5); (ex_p ["y"], 6)] [] true);
    SubModel.CUpdate (SubModel.NT 2 ex_pre [(ex_p [], 5)] [] false);
    SubModel.CUpdate (SubModel.NT 3 ex_pre2 [(ex_p ["b"], 7); (ex_p ["c"], 8)] [ex_p ["zz"]] false);
    SubModel.CUpdate (SubModel.NT 4 ex_pre2 [] [ex_p ["b"]] false) ].

Example ex_ops_clean : snd (sub_script [] ex_ops) = true.
Proof. vm_compute. reflexivity. Qed.

Example ex_ops_wf : Forall cop_wf ex_ops.
Proof. repeat constructor. Qed.

(** the atomic container overwritten by a same-valued scalar IS announced
    (second update: one feed entry), in both models *)
Example ex_ops_feed_lengths :
  map (@List.length _) (snd (fst (sub_script [] ex_ops))) = [0; 1; 1; 2; 1]%nat /\
  map (@List.length _) (snd (cache_script (Cache ex_cfg []) (fun _ => 0) 0 ex_ops)) = [0; 1; 1; 2; 1]%nat.
Proof. split; vm_compute; reflexivity. Qed.

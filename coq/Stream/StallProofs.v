(** C08 -- a stalled subscriber cannot stall the collector or other
    subscribers.  Proofs over the transition system of Stream/StreamLts.v: a
    stall is the environment not taking the stalled sender's [LSent] step; the
    send timer is the [LTimeout] step, enabled only while a response built
    from a leaf or a delete is inside Send. *)
From Gnmi Require Import Base.Prelude Stream.StreamLts Stream.StreamProofs.
Open Scope Z_scope.

(** ** Writers never wait for subscribers *)

(** what a writer's tree write can depend on: the cache (leaf store, delete
    store, tree, pending lists, write mutexes held by writers), the read locks held by walks, and the
    registered subscription paths (only for the [h_agree] side condition) *)
Definition writer_view (st : state) :=
  (st_leaves st, st_dels st, st_tree st, st_feeds st, st_locks st, map walk_target (st_subs st), map s_qs (st_subs st)).

Lemma tree_locked_view st st' t :
  map walk_target (st_subs st) = map walk_target (st_subs st') -> tree_locked st t = tree_locked st' t.
Proof.
  unfold tree_locked. generalize (st_subs st) (st_subs st').
  induction l as [|s l IH]; intros [|s' l'] H; cbn in *; try discriminate; auto.
  inversion H. rewrite H1. f_equal. auto.
Qed.

Lemma may_lock_view st st' w t : st_locks st = st_locks st' -> may_lock st w t = may_lock st' w t.
Proof. intros A. unfold may_lock, held_by_other, lock_of. rewrite A. reflexivity. Qed.

(** Enabledness of a writer's tree write is a function of the writer view:
    queues, in-flight responses, sent streams, stalls and timeouts of
    subscribers cannot disable (or enable) it. *)
Theorem writer_never_blocked h st st' w o :
  writer_view st = writer_view st' ->
  (step h st (LWrite w o) = None <-> step h st' (LWrite w o) = None).
Proof.
  unfold writer_view. intros H. inversion H as [[A B C D K E F]].
  assert (AG : forall p, agree_on st p = agree_on st' p) by (intros p; apply agree_on_ext; exact F).
  assert (TL : forall t, tree_locked st t = tree_locked st' t) by (intros t; apply tree_locked_view; exact E).
  unfold step. cbn. rewrite D. destruct (nth_error (st_feeds st') w) as [[|]|]; try tauto.
  rewrite (may_lock_view st st' w _ K).
  destruct (may_lock st' w (wop_target o)); [|tauto].
  assert (OM : forall (a b : option (state * wres)) (f g : state * wres -> state), (a = None <-> b = None) ->
             (option_map f a = None <-> option_map g b = None)).
  { intros [x|] [y|] f g; cbn; intros [P Q]; split; intros X; try discriminate; auto; try (specialize (P eq_refl); discriminate); try (specialize (Q eq_refl); discriminate). }
  apply OM.
  destruct o as [p v ts|d ts order|d]; cbn.
  - destruct (negb _); [tauto|]. rewrite AG. destruct (h_agree h && negb _); [tauto|].
    rewrite C. destruct (tlookup p (st_tree st')) as [l|].
    + unfold leaf_cont. rewrite A. destruct (option_map snd (nth_error (st_leaves st') l)) as [[v0 ts0]|]; [|tauto].
      destruct (ts <? ts0); cbn; [split; discriminate|].
      destruct ((ts =? ts0) && (v =? v0)); cbn; split; discriminate.
    + unfold conflicts. rewrite C. destruct (existsb _ _); cbn; split; discriminate.
  - destruct (negb _); [tauto|]. rewrite TL. destruct (tree_locked st' (target_of d)); cbn; [tauto|split; discriminate].
  - destruct (negb _); [tauto|]. rewrite TL. destruct (tree_locked st' (target_of d)); cbn; [tauto|split; discriminate].
Qed.

(** the feed callback is enabled whenever there is something to announce *)
Theorem feed_never_blocked h st w :
  step h st (LFeed w) <> None <-> exists it rest, nth_error (st_feeds st) w = Some (it :: rest).
Proof.
  cbn. destruct (nth_error (st_feeds st) w) as [[|it rest]|]; split.
  - intros H; exfalso; apply H; reflexivity.
  - intros (? & ? & ?); discriminate.
  - intros _. eauto.
  - intros _. discriminate.
  - intros H; exfalso; apply H; reflexivity.
  - intros (? & ? & ?); discriminate.
Qed.

(** a subscriber that ended (timed out) or is stalled does not change what a
    write does to the cache *)
Theorem write_ignores_subscribers h st st' w o :
  writer_view st = writer_view st' ->
  forall s1 s1', step h st (LWrite w o) = Some s1 -> step h st' (LWrite w o) = Some s1' ->
    st_leaves s1 = st_leaves s1' /\ st_dels s1 = st_dels s1' /\ st_tree s1 = st_tree s1' /\ st_feeds s1 = st_feeds s1'.
Proof.
  unfold writer_view. intros H. inversion H as [[A B C D K E F]].
  assert (AG : forall p, agree_on st p = agree_on st' p) by (intros p; apply agree_on_ext; exact F).
  assert (TL : forall t, tree_locked st t = tree_locked st' t) by (intros t; apply tree_locked_view; exact E).
  unfold step. cbn. rewrite D. destruct (nth_error (st_feeds st') w) as [[|]|]; try discriminate.
  rewrite (may_lock_view st st' w _ K).
  destruct (may_lock st' w (wop_target o)); [|discriminate].
  assert (OM : forall (a b : option (state * wres)) t,
             (forall x y, a = Some x -> b = Some y ->
                st_leaves (fst x) = st_leaves (fst y) /\ st_dels (fst x) = st_dels (fst y) /\
                st_tree (fst x) = st_tree (fst y) /\ st_feeds (fst x) = st_feeds (fst y)) ->
             forall s1 s1', option_map (fun sr => set_lock (fst sr) w t) a = Some s1 ->
                            option_map (fun sr => set_lock (fst sr) w t) b = Some s1' ->
             st_leaves s1 = st_leaves s1' /\ st_dels s1 = st_dels s1' /\ st_tree s1 = st_tree s1' /\ st_feeds s1 = st_feeds s1').
  { intros [x|] [y|] t P s1 s1'; cbn; try discriminate. intros [= <-] [= <-]. cbn. apply P; reflexivity. }
  apply OM. clear OM.
  destruct o as [p v ts|d ts order|d]; cbn.
  - destruct (negb _); [discriminate|]. rewrite AG. destruct (h_agree h && negb _); [discriminate|].
    rewrite C. destruct (tlookup p (st_tree st')) as [l|].
    + unfold leaf_cont. rewrite A. destruct (option_map snd (nth_error (st_leaves st') l)) as [[v0 ts0]|]; [|discriminate].
      destruct (ts <? ts0); cbn; [intros ? ? [= <-] [= <-]; auto|].
      destruct ((ts =? ts0) && (v =? v0)); cbn; intros ? ? [= <-] [= <-]; cbn; auto.
      unfold set_feed. try rewrite A; try rewrite B; try rewrite C; try rewrite D; auto.
    + unfold conflicts. rewrite C. destruct (existsb _ _); cbn; intros ? ? [= <-] [= <-]; cbn; auto.
      unfold set_feed. try rewrite A; try rewrite B; try rewrite C; try rewrite D; auto.
  - destruct (negb _); [discriminate|]. rewrite TL. destruct (tree_locked st' (target_of d)); cbn; [discriminate|].
    intros ? ? [= <-] [= <-]. cbn. unfold victims, leaf_cont, set_feed. try rewrite A; try rewrite B; try rewrite C; try rewrite D; auto.
  - destruct (negb _); [discriminate|]. rewrite TL. destruct (tree_locked st' (target_of d)); cbn; [discriminate|].
    intros ? ? [= <-] [= <-]. cbn. unfold victims, leaf_cont, set_feed. try rewrite A; try rewrite B; try rewrite C; try rewrite D; auto.
Qed.

(** ** Other subscribers keep going *)

(** the subscriber a label belongs to *)
Definition sub_label (lb : label) : option nat :=
  match lb with
  | LWrite _ _ | LFeed _ | LUnlock _ => None
  | LReg s | LRegDone s | LWalkBegin s | LVisit s _ | LWalkEnd s | LSync s
  | LDeq s | LRead s | LSent s | LTimeout s | LCancel s | LUnreg s => Some s
  end.

Lemma with_sub_other st s f st' s' :
  with_sub st s f = Some st' -> s' <> s ->
  nth_error (st_subs st') s' = nth_error (st_subs st) s' /\
  st_leaves st' = st_leaves st /\ st_dels st' = st_dels st /\ st_tree st' = st_tree st /\ st_feeds st' = st_feeds st.
Proof.
  intros H Hne. apply with_sub_inv in H as (sb & sb' & _ & _ & ->). cbn.
  rewrite nth_error_upd_nth_neq by auto. auto.
Qed.

(** A step of subscriber [s] (its Subscribe goroutine, its walk, its sender,
    its timer) touches nothing but [s]'s own record: the cache, the writers'
    pending announcements and every other subscriber are unchanged. *)
Theorem others_untouched h st lb s st' :
  sub_label lb = Some s -> step h st lb = Some st' ->
  (forall s', s' <> s -> nth_error (st_subs st') s' = nth_error (st_subs st) s') /\
  st_leaves st' = st_leaves st /\ st_dels st' = st_dels st /\ st_tree st' = st_tree st /\ st_feeds st' = st_feeds st.
Proof.
  intros Hl Hs. destruct lb; cbn in Hl; try discriminate; inversion Hl; subst; cbn in Hs;
    (split; [intros s' Hne; eapply with_sub_other; eauto | eapply (with_sub_other _ _ _ _ (S s)); eauto]).
Qed.

Lemma with_sub_ext st st2 s f g :
  nth_error (st_subs st) s = nth_error (st_subs st2) s ->
  (forall sb, f sb = g sb) ->
  (with_sub st s f = None <-> with_sub st2 s g = None).
Proof.
  unfold with_sub. intros E H. rewrite E. destruct (nth_error (st_subs st2) s) as [sb|]; [|tauto].
  rewrite H. destruct (g sb); split; discriminate || tauto.
Qed.

(** Whether a step of subscriber [s'] is enabled, and what it does to [s'],
    depends on the cache and on [s']'s own record only: whatever state another
    subscriber [s] is in -- stalled inside Send for ever, timed out, with any
    backlog -- [s'] registers, walks, dequeues, sends and times out exactly as
    it would otherwise. *)
Theorem others_progress h st st2 lb s' :
  sub_label lb = Some s' ->
  st_leaves st = st_leaves st2 -> st_dels st = st_dels st2 -> st_tree st = st_tree st2 ->
  nth_error (st_subs st) s' = nth_error (st_subs st2) s' ->
  (step h st lb = None <-> step h st2 lb = None) /\
  (forall st' st2', step h st lb = Some st' -> step h st2 lb = Some st2' ->
      nth_error (st_subs st') s' = nth_error (st_subs st2') s').
Proof.
  intros Hl A B C E.
  assert (K : forall f g, (forall sb, f sb = g sb) ->
     (with_sub st s' f = None <-> with_sub st2 s' g = None) /\
     (forall st' st2', with_sub st s' f = Some st' -> with_sub st2 s' g = Some st2' ->
        nth_error (st_subs st') s' = nth_error (st_subs st2') s')).
  { intros f g H. split; [apply with_sub_ext; auto|].
    intros st' st2' H1 H2. apply with_sub_inv in H1 as (sb & sb' & Hsb & Hf & ->).
    apply with_sub_inv in H2 as (sb2 & sb2' & Hsb2 & Hg & ->). cbn.
    rewrite !nth_error_upd_nth_eq, Hsb, Hsb2. cbn. rewrite E, Hsb2 in Hsb. inversion Hsb; subst.
    rewrite H in Hf. congruence. }
  destruct lb; cbn in Hl; try discriminate; inversion Hl; subst; cbn; apply K; intros sb; auto.
  - (* LWalkBegin reads the tree *) rewrite C. reflexivity.
  - (* LVisit reads the tree *) rewrite C. reflexivity.
  - (* LRead reads the leaf and delete stores *)
    destruct (s_end sb); auto. destruct (s_infl sb) as [[it d]|]; auto.
    assert (build st it d = build st2 it d) as ->; [|reflexivity].
    destruct it; cbn; rewrite ?A, ?B; reflexivity.
Qed.

(** A subscription that ends -- the client goes away ([LCancel]), its send
    times out ([LTimeout]) -- and is then removed from the match trie path by
    path ([LUnreg]) leaves the registrations of every OTHER subscriber exactly
    as they were, and with them what every later announcement delivers to
    them: whichever of the paths are siblings, deeper or shallower. *)
Theorem others_registered_unaffected h st lb s st' :
  sub_label lb = Some s -> step h st lb = Some st' ->
  forall s' sb', s' <> s -> nth_error (st_subs st') s' = Some sb' ->
    nth_error (st_subs st) s' = Some sb' /\
    (forall pat, mult sb' pat = match nth_error (st_subs st) s' with Some sb0 => mult sb0 pat | None => O end) /\
    (forall it, deliver st' it sb' = deliver st it sb').
Proof.
  intros Hl Hs s' sb' Hne Hn. destruct (others_untouched _ _ _ _ _ Hl Hs) as (A & B & C & D & E).
  rewrite (A _ Hne) in Hn. split; [exact Hn|]. split.
  - intros pat. rewrite Hn. reflexivity.
  - intros it. unfold deliver, item_pat, leaf_path. rewrite B, C. reflexivity.
Qed.

Lemma In_firstn {A} k (l : list A) x : In x (firstn k l) -> In x l.
Proof. revert k; induction l as [|a l IH]; intros [|k]; cbn; auto; try tauto. intros [H|H]; eauto. Qed.

(** the paths of an ended subscription leave the trie one at a time *)
Theorem unreg_shrinks h st s st' sb :
  nth_error (st_subs st) s = Some sb -> step h st (LUnreg s) = Some st' ->
  exists sb', nth_error (st_subs st') s = Some sb' /\ s_end sb' = true /\
              (forall q, In q (regq sb') -> In q (regq sb)).
Proof.
  unfold step. cbn. intros Hsb H. apply with_sub_inv in H as (sb0 & sb' & Hsb0 & Hf & ->). rewrite Hsb in Hsb0. inversion Hsb0; subst sb0.
  destruct (s_end sb) eqn:He; [|discriminate]. exists sb'. cbn. rewrite nth_error_upd_nth_eq, Hsb. split; [reflexivity|].
  unfold regq. destruct (s_pc sb) as [[|k]| | |] eqn:Hpc; try discriminate.
  - inversion Hf; subst sb'. cbn. split; auto. intros q Hq. apply firstn_S_In. exact Hq.
  - destruct (List.length (s_qs sb)) as [|k] eqn:Hn; [discriminate|]. inversion Hf; subst sb'. cbn. split; auto.
    intros q Hq. eapply In_firstn; eauto.
Qed.
(** ** The backlog of a subscriber *)

Lemma NoDup_qitems_insert it q : NoDup (qitems q) -> NoDup (qitems (q_insert it q)).
Proof.
  intros H. rewrite qitems_insert. destruct (in_dec _ _ _); auto. apply NoDup_app_intro_single; auto.
Qed.

Lemma NoDup_qitems_insert_n n it q : NoDup (qitems q) -> NoDup (qitems (q_insert_n n it q)).
Proof. revert q; induction n; intros q H; cbn; auto. apply IHn. apply NoDup_qitems_insert. exact H. Qed.

Definition queues_nodup (st : state) : Prop := forall sb, In sb (st_subs st) -> NoDup (qitems (s_queue sb)).

Lemma NoDup_tail {A} (x : A) l : NoDup (x :: l) -> NoDup l.
Proof. intros H. inversion H; auto. Qed.

Lemma step_queues_nodup h st lb st' : step h st lb = Some st' -> queues_nodup st -> queues_nodup st'.
Proof.
  intros Hs Q.
  assert (SUB : forall s f, with_sub st s f = Some st' ->
            (forall sb sb', f sb = Some sb' -> NoDup (qitems (s_queue sb)) -> NoDup (qitems (s_queue sb'))) ->
            queues_nodup st').
  { intros s f H Hf sbx Hin. apply with_sub_inv in H as (sb & sb' & Hsb & Hfs & ->). cbn in Hin.
    apply In_upd_nth in Hin as [Hin|(x & Hx & ->)]; auto. rewrite Hsb in Hx. inversion Hx; subst.
    eapply Hf; eauto. apply Q. eapply nth_error_In; eauto. }
  destruct lb as [w o|w|s|s|s|s p0|s|s|s|s|s|s|w|s|s]; unfold step in Hs; cbn in Hs.
  - destruct (nth_error (st_feeds st) w) as [[|]|]; try discriminate.
    destruct (may_lock st w (wop_target o)); [|discriminate].
    destruct (write h st w o) as [[st1 r]|] eqn:Hw; [|discriminate]. cbn in Hs. inversion Hs; subst.
    intros sb Hin. cbn in Hin. rewrite (write_subs _ _ _ _ _ _ Hw) in Hin. auto.
  - destruct (nth_error (st_feeds st) w) as [[|it rest]|]; try discriminate. inversion Hs; subst.
    intros sb Hin. cbn in Hin. apply in_map_iff in Hin as (sb0 & <- & Hin).
    unfold deliver. destruct (item_pat st it); [|auto]. destruct (s_end sb0); [auto|]. cbn.
    apply NoDup_qitems_insert_n. auto.
  - eapply SUB; eauto. intros sb sb'; cbn beta. destruct (s_pc sb); try discriminate.
    match goal with |- (if ?c then _ else _) = _ -> _ => destruct c; [|discriminate] end. intros [= <-]; auto.
  - eapply SUB; eauto. intros sb sb'; cbn beta. destruct (s_pc sb); try discriminate.
    destruct (_ =? _)%nat; [|discriminate]. intros [= <-]; auto.
  - eapply SUB; eauto. intros sb sb'; cbn beta. destruct (s_pc sb); try discriminate.
    destruct (nth_error _ _); [|discriminate]. intros [= <-]; auto.
  - eapply SUB; eauto. intros sb sb'; cbn beta. destruct (s_pc sb); try discriminate.
    destruct (nth_error _ _); [|discriminate]. destruct (tlookup _ _); [|discriminate].
    destruct (covers _ _); [|discriminate]. intros [= <-] H. cbn.
    destruct (s_end sb); auto. apply NoDup_qitems_insert. auto.
  - eapply SUB; eauto. intros sb sb'; cbn beta. destruct (s_pc sb) as [| | ? [|]|]; try discriminate. intros [= <-]; auto.
  - eapply SUB; eauto. intros sb sb'; cbn beta. destruct (s_pc sb); try discriminate.
    destruct (_ =? _)%nat; [|discriminate]. intros [= <-] H. cbn.
    destruct (s_end sb); auto. apply NoDup_qitems_insert. auto.
  - eapply SUB; eauto. intros sb sb'; cbn beta. destruct (_ && _); [|discriminate].
    destruct (s_infl sb); [discriminate|]. destruct (s_out sb); [discriminate|].
    destruct (s_queue sb) as [|x q] eqn:Hq; [discriminate|]. intros [= <-] H. cbn.
    unfold qitems in H. cbn in H. eapply NoDup_tail; eauto.
  - eapply SUB; eauto. intros sb sb'; cbn beta. destruct (s_end sb); [discriminate|].
    destruct (s_infl sb) as [[]|]; [|discriminate]. destruct (build _ _ _); [|discriminate]. intros [= <-]; auto.
  - eapply SUB; eauto. intros sb sb'; cbn beta. destruct (s_end sb); [discriminate|].
    destruct (s_out sb); [|discriminate]. intros [= <-]; auto.
  - eapply SUB; eauto. intros sb sb'; cbn beta. destruct (s_end sb); [discriminate|].
    destruct (s_out sb) as [[]|]; try discriminate; intros [= <-]; auto.
  - destruct (nth_error (st_feeds st) w) as [[|]|]; try discriminate.
    destruct (lock_of st w); [|discriminate]. inversion Hs; subst. exact Q.
  - eapply SUB; eauto. intros sb sb'; cbn beta. destruct (_ && _); [|discriminate]. intros [= <-]; auto.
  - eapply SUB; eauto. intros sb sb'; cbn beta. destruct (s_end sb); [|discriminate].
    destruct (s_pc sb) as [[|k]| | |]; try discriminate; [intros [= <-]; auto|].
    destruct (List.length (s_qs sb)); [discriminate|]. intros [= <-]; auto.
Qed.

(** In every reachable state (ANY hypotheses, any stall pattern) a queue holds
    an item at most once: one entry per distinct pending leaf, one per delete
    notification, at most one sync marker. *)
Theorem backlog_distinct h nw subs st :
  reachable h nw subs st -> queues_nodup st.
Proof.
  intros [sch Hr]. revert Hr.
  assert (Q0 : queues_nodup (init nw subs)).
  { intros sb Hin. cbn in Hin. apply in_map_iff in Hin as ([qs uo] & <- & _). cbn.
    destruct uo; cbn; repeat constructor. intros []. }
  revert Q0. generalize (init nw subs). unfold run. induction sch as [|lb sch IH]; intros s0 Q Hr; cbn in Hr.
  - inversion Hr; subst; auto.
  - fold (step h s0 lb) in Hr. destruct (step h s0 lb) as [s1|] eqn:E; [|discriminate]. apply (IH s1); auto. eapply step_queues_nodup; eauto.
Qed.

Definition n_leaf (l : list item) : nat := List.length (filter (fun it => match it with ILeaf _ => true | _ => false end) l).
Definition n_del (l : list item) : nat := List.length (filter is_del l).
Definition n_sync_items (l : list item) : nat := List.length (filter (fun it => match it with ISync => true | _ => false end) l).

Lemma length_split_items l : List.length l = (n_leaf l + n_del l + n_sync_items l)%nat.
Proof.
  unfold n_leaf, n_del, n_sync_items. induction l as [|[]]; cbn; auto; lia.
Qed.

Lemma nodup_sync_le1 l : NoDup l -> (n_sync_items l <= 1)%nat.
Proof.
  unfold n_sync_items. induction l as [|x l IH]; cbn; intros H; [lia|]. inversion H; subst.
  destruct x; cbn; auto. specialize (IH H3).
  destruct (filter _ l) as [|y r] eqn:E; cbn; [lia|]. exfalso.
  assert (In y (filter (fun it => match it with ISync => true | _ => false end) l)) by (rewrite E; left; reflexivity).
  apply filter_In in H0 as [H0 H1]. destruct y; try discriminate. contradiction.
Qed.

(** The bound of the property: queue length <= #distinct pending leaves +
    #pending deletes + 1 (the entries ARE distinct leaves / deletes, plus at
    most one sync marker). *)
Theorem backlog_bound h nw subs st :
  reachable h nw subs st ->
  forall sb, In sb (st_subs st) ->
    NoDup (qitems (s_queue sb)) /\
    (List.length (s_queue sb) <= n_leaf (qitems (s_queue sb)) + n_del (qitems (s_queue sb)) + 1)%nat.
Proof.
  intros Hr sb Hin. assert (N := backlog_distinct _ _ _ _ Hr sb Hin). split; auto.
  replace (List.length (s_queue sb)) with (List.length (qitems (s_queue sb))) by apply map_length.
  rewrite length_split_items. assert (X := nodup_sync_le1 _ N). lia.
Qed.

(** ** Duplicate counts are exact *)

Fixpoint qcount (it : item) (q : queue) : nat :=
  match q with
  | [] => 0
  | (x, d) :: q' => if item_eqb x it then S d else qcount it q'
  end.

Lemma qcount_insert_same it q : qcount it (q_insert it q) = S (qcount it q).
Proof.
  induction q as [|[x d] q IH]; cbn; [rewrite item_eqb_refl; reflexivity|].
  destruct (item_eqb x it) eqn:E; cbn; rewrite E; auto.
Qed.

Lemma qcount_insert_other it x q : x <> it -> qcount x (q_insert it q) = qcount x q.
Proof.
  intros Hne. induction q as [|[y d] q IH]; cbn.
  - destruct (item_eqb it x) eqn:E; [apply item_eqb_eq in E; congruence|reflexivity].
  - destruct (item_eqb y it) eqn:E; cbn.
    + apply item_eqb_eq in E. subst y. destruct (item_eqb it x) eqn:E2; [apply item_eqb_eq in E2; congruence|reflexivity].
    + destruct (item_eqb y x); auto.
Qed.

Lemma qcount_In it d q : NoDup (qitems q) -> In (it, d) q -> qcount it q = S d.
Proof.
  induction q as [|[x e] q IH]; cbn; [tauto|]. intros Hn [H|H].
  - inversion H; subst. rewrite item_eqb_refl. reflexivity.
  - inversion Hn; subst. destruct (item_eqb x it) eqn:E; [|auto].
    apply item_eqb_eq in E. subst. exfalso. apply H2. unfold qitems. apply in_map_iff. exists (it, d). auto.
Qed.

(** For EVERY sequence of offers made to an empty queue (whatever mixture of
    leaves, whatever order): each item is queued once, in first-offer order,
    with a count one less than the number of times it was offered. *)
Theorem dup_exact (ins : list item) :
  let q := fold_left (fun q it => q_insert it q) ins [] in
  NoDup (qitems q) /\
  (forall it d, In (it, d) q -> S d = count_occ item_eq_dec ins it) /\
  (forall it, ~ In it (qitems q) -> count_occ item_eq_dec ins it = 0%nat).
Proof.
  assert (G : forall ins q0, NoDup (qitems q0) ->
            let q := fold_left (fun q it => q_insert it q) ins q0 in
            NoDup (qitems q) /\
            (forall it, qcount it q = (qcount it q0 + count_occ item_eq_dec ins it)%nat) /\
            (forall it, In it (qitems q0) -> In it (qitems q))).
  { induction ins0 as [|x ins0 IH]; intros q0 H0; cbn.
    - split; [exact H0|]. split; [intros it; lia|auto].
    - destruct (IH (q_insert x q0) (NoDup_qitems_insert _ _ H0)) as (A & B & C). split; [exact A|]. split.
      + intros it. rewrite B. destruct (item_eq_dec x it) as [->|Hne].
        * rewrite qcount_insert_same. lia.
        * rewrite qcount_insert_other by congruence. lia.
      + intros it Hin. apply C. apply In_qitems_insert. auto. }
  destruct (G ins [] (NoDup_nil _)) as (A & B & _). cbn. split; auto. split.
  - intros it d Hin. rewrite <- (qcount_In _ _ _ A Hin). rewrite B. reflexivity.
  - intros it Hn. specialize (B it). cbn in B. rewrite <- B.
    clear - Hn. generalize dependent (fold_left (fun (q : queue) (it0 : item) => q_insert it0 q) ins []).
    intros q Hn. induction q as [|[x d] q IH]; cbn in *; auto.
    destruct (item_eqb x it) eqn:E; [apply item_eqb_eq in E; subst; tauto|]. apply IH. tauto.
Qed.

(** the count travels with the item into the response *)
Theorem dup_reported h st s st' sb it d :
  nth_error (st_subs st) s = Some sb -> s_infl sb = Some (ILeaf it, d) ->
  step h st (LRead s) = Some st' ->
  exists sb' p v ts, nth_error (st_subs st') s = Some sb' /\ s_out sb' = Some (RUpd p v ts d) /\
                     leaf_path st it = Some p /\ leaf_cont st it = Some (v, ts).
Proof.
  cbn. intros Hsb Hi H. apply with_sub_inv in H as (sb0 & sb' & Hsb0 & Hf & ->). rewrite Hsb in Hsb0. inversion Hsb0; subst sb0.
  destruct (s_end sb); [discriminate|]. rewrite Hi in Hf. cbn in Hf.
  destruct (nth_error (st_leaves st) it) as [[p [v ts]]|] eqn:X; [|discriminate]. inversion Hf; subst sb'.
  exists (mkSub (s_qs sb) (s_uo sb) (s_pc sb) (s_queue sb) None (Some (RUpd p v ts d)) (s_sent sb) (s_snap sb) false), p, v, ts.
  cbn. rewrite nth_error_upd_nth_eq, Hsb. unfold leaf_path, leaf_cont. rewrite X. auto.
Qed.

(** ** The send timer *)

(** The timer can fire exactly while a leaf / delete response is inside Send
    (never while the sender waits for data, never on the sync marker). *)
Theorem timeout_only_while_sending h st s :
  step h st (LTimeout s) <> None <->
  exists sb r, nth_error (st_subs st) s = Some sb /\ s_end sb = false /\ s_out sb = Some r /\ r <> RSync.
Proof.
  cbn. unfold with_sub. destruct (nth_error (st_subs st) s) as [sb|]; [|split; [intros H; exfalso; apply H; reflexivity|intros (? & ? & ? & _); discriminate]].
  destruct (s_end sb) eqn:He.
  - split; [intros H; exfalso; apply H; reflexivity|]. intros (sb0 & r & [= <-] & He' & _). congruence.
  - destruct (s_out sb) as [[]|] eqn:Ho.
    + split; [|discriminate]. intros _. exists sb. eexists. repeat split; eauto. discriminate.
    + split; [|discriminate]. intros _. exists sb. eexists. repeat split; eauto. discriminate.
    + split; [intros H; exfalso; apply H; reflexivity|]. intros (sb0 & r & [= <-] & _ & Hr & Hn). congruence.
    + split; [intros H; exfalso; apply H; reflexivity|]. intros (sb0 & r & [= <-] & _ & Hr & _). congruence.
Qed.

(** When it fires, that subscription is over (with an error) and stays over:
    none of its sender's steps is enabled any more, announcements skip it;
    nothing else changes. *)
Theorem timeout_terminates h st s st' :
  step h st (LTimeout s) = Some st' ->
  (exists sb', nth_error (st_subs st') s = Some sb' /\ s_end sb' = true) /\
  step h st' (LDeq s) = None /\ step h st' (LRead s) = None /\
  step h st' (LSent s) = None /\ step h st' (LTimeout s) = None /\
  (forall s', s' <> s -> nth_error (st_subs st') s' = nth_error (st_subs st) s') /\
  st_leaves st' = st_leaves st /\ st_dels st' = st_dels st /\ st_tree st' = st_tree st /\ st_feeds st' = st_feeds st.
Proof.
  intros H. assert (H0 := H). cbn in H. apply with_sub_inv in H as (sb & sb' & Hsb & Hf & ->).
  destruct (s_end sb); [discriminate|].
  assert (Hend : s_end sb' = true) by (destruct (s_out sb) as [[]|]; try discriminate; inversion Hf; reflexivity).
  assert (Hn : nth_error (st_subs (set_subs st (upd_nth s (fun _ => sb') (st_subs st)))) s = Some sb').
  { cbn. rewrite nth_error_upd_nth_eq, Hsb. reflexivity. }
  split; [eauto|].
  repeat split; try (cbn; unfold with_sub; cbn; rewrite nth_error_upd_nth_eq, Hsb; cbn; rewrite Hend; try rewrite andb_false_r; reflexivity).
  intros s' Hne. cbn. apply nth_error_upd_nth_neq. auto.
Qed.

Lemma deliver_skips_ended st it sb : s_end sb = true -> deliver st it sb = sb.
Proof. intros H. unfold deliver. destruct (item_pat st it); auto. rewrite H. reflexivity. Qed.

(** ended stays ended *)
Theorem ended_is_final h st lb st' s sb :
  step h st lb = Some st' -> nth_error (st_subs st) s = Some sb -> s_end sb = true ->
  exists sb', nth_error (st_subs st') s = Some sb' /\ s_end sb' = true /\ s_sent sb' = s_sent sb.
Proof.
  intros Hs Hsb He.
  assert (SUB : forall s0 f, with_sub st s0 f = Some st' ->
            (forall x y, f x = Some y -> s_end x = true -> s_end y = true /\ s_sent y = s_sent x) ->
            exists sb', nth_error (st_subs st') s = Some sb' /\ s_end sb' = true /\ s_sent sb' = s_sent sb).
  { intros s0 f H Hf. apply with_sub_inv in H as (x & y & Hx & Hfx & ->). cbn.
    destruct (Nat.eq_dec s0 s) as [->|Hne].
    - rewrite nth_error_upd_nth_eq, Hx. cbn. rewrite Hsb in Hx. inversion Hx; subst x.
      destruct (Hf _ _ Hfx He). eauto.
    - rewrite nth_error_upd_nth_neq by auto. eauto. }
  destruct lb as [w o|w|s0|s0|s0|s0 p0|s0|s0|s0|s0|s0|s0|w|s0|s0]; unfold step in Hs; cbn in Hs.
  - destruct (nth_error (st_feeds st) w) as [[|]|]; try discriminate.
    destruct (may_lock st w (wop_target o)); [|discriminate].
    destruct (write h st w o) as [[st1 r]|] eqn:Hw; [|discriminate]. cbn in Hs. inversion Hs; subst. cbn.
    rewrite (write_subs _ _ _ _ _ _ Hw). eauto.
  - destruct (nth_error (st_feeds st) w) as [[|it rest]|]; try discriminate. inversion Hs; subst. cbn.
    rewrite nth_error_map, Hsb. cbn. rewrite (deliver_skips_ended _ _ _ He). eauto.
  - eapply SUB; eauto. intros x y; cbn beta. destruct (s_pc x); try discriminate.
    match goal with |- (if ?c then _ else _) = _ -> _ => destruct c; [|discriminate] end. intros [= <-]; auto.
  - eapply SUB; eauto. intros x y; cbn beta. destruct (s_pc x); try discriminate.
    destruct (_ =? _)%nat; [|discriminate]. intros [= <-]; auto.
  - eapply SUB; eauto. intros x y; cbn beta. destruct (s_pc x); try discriminate.
    destruct (nth_error (s_qs x) _); [|discriminate]. intros [= <-]; auto.
  - eapply SUB; eauto. intros x y; cbn beta. destruct (s_pc x); try discriminate.
    destruct (nth_error (s_qs x) _); [|discriminate]. destruct (tlookup _ _); [|discriminate].
    destruct (covers _ _); [|discriminate]. intros [= <-]; auto.
  - eapply SUB; eauto. intros x y; cbn beta. destruct (s_pc x) as [| | ? [|]|]; try discriminate. intros [= <-]; auto.
  - eapply SUB; eauto. intros x y; cbn beta. destruct (s_pc x); try discriminate.
    destruct (_ =? _)%nat; [|discriminate]. intros [= <-]; auto.
  - eapply SUB; eauto. intros x y; cbn beta. intros H E. rewrite E, andb_false_r in H. discriminate.
  - eapply SUB; eauto. intros x y; cbn beta. intros H E. rewrite E in H. discriminate.
  - eapply SUB; eauto. intros x y; cbn beta. intros H E. rewrite E in H. discriminate.
  - eapply SUB; eauto. intros x y; cbn beta. intros H E. rewrite E in H. discriminate.
  - destruct (nth_error (st_feeds st) w) as [[|]|]; try discriminate.
    destruct (lock_of st w); [|discriminate]. inversion Hs; subst. cbn. eauto.
  - eapply SUB; eauto. intros x y; cbn beta. intros H E. rewrite E, andb_false_r in H. discriminate.
  - eapply SUB; eauto. intros x y; cbn beta. destruct (s_end x) eqn:Ex; [|discriminate].
    destruct (s_pc x) as [[|k]| | |]; try discriminate; [intros [= <-] _; cbn; auto|].
    destruct (List.length (s_qs x)); [discriminate|]. intros [= <-] _; cbn; auto.
Qed.

(** ** A scenario: one subscriber stalled for ever, one live; the writer and
    the live subscriber go on, the backlog of the stalled one stays at one
    entry per leaf, and the timer ends it. *)
Definition st_path2 : path := ["t1"; "c"]%string.
Definition stall_schedule : list label :=
  [LReg 0; LRegDone 0; LWalkBegin 0; LWalkEnd 0; LSync 0; LDeq 0; LRead 0; LSent 0;
   LReg 1; LRegDone 1; LWalkBegin 1; LWalkEnd 1; LSync 1; LDeq 1; LRead 1; LSent 1;
   LWrite 0 (WUpd kf_path 1 1); LFeed 0; LUnlock 0;
   LDeq 0; LRead 0;                              (* subscriber 0 is now inside Send: stalled *)
   LDeq 1; LRead 1; LSent 1;                     (* subscriber 1 goes on *)
   LWrite 0 (WUpd kf_path 2 2); LFeed 0; LUnlock 0; LWrite 0 (WUpd st_path2 1 3); LFeed 0; LUnlock 0;
   LWrite 0 (WUpd kf_path 3 4); LFeed 0; LUnlock 0; LWrite 0 (WUpd kf_path 4 5); LFeed 0; LUnlock 0;
   LDeq 1; LRead 1; LSent 1; LDeq 1; LRead 1; LSent 1;
   LTimeout 0].
Definition stall_subs : list (list path * bool) := [([["t1"]%string], false); ([["t1"]%string], false)].
Definition stall_state : state :=
  match run (mkHyps true false) (init 1 stall_subs) stall_schedule with Some s => s | None => init 1 stall_subs end.

Example stall_example :
  reachable (mkHyps true false) 1 stall_subs stall_state /\
  exists sb0 sb1, nth_error (st_subs stall_state) 0 = Some sb0 /\ nth_error (st_subs stall_state) 1 = Some sb1 /\
    s_end sb0 = true /\ s_sent sb0 = [RSync] /\
    s_queue sb0 = [(ILeaf 0, 2%nat); (ILeaf 1, 0%nat)] /\
    s_end sb1 = false /\ s_sent sb1 = [RSync; RUpd kf_path 1 1 0; RUpd kf_path 4 5 2; RUpd st_path2 1 3 0].
Proof.
  split; [exists stall_schedule; vm_compute; reflexivity|].
  eexists. eexists. split; [vm_compute; reflexivity|]. split; [vm_compute; reflexivity|].
  split; [vm_compute; reflexivity|]. split; [vm_compute; reflexivity|]. split; [vm_compute; reflexivity|].
  split; vm_compute; reflexivity.
Qed.

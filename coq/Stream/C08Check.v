(** Correspondence evaluator and executable specification K_P for C08.

    One case = one run of the real collector: the cache is pre-populated,
    the subscribers start one after the other and drain their snapshots, then
    the stalls are armed (a stalled subscriber's next Send blocks: transiently
    -- released after the last write -- or for ever) and a writer performs the
    phase-2 operations one by one; after each the harness waits until every
    sender is parked (in Next, or inside the blocked Send), so the run is a
    single known schedule of the transition system of StreamLts.v, which the
    model side builds itself and replays:

      tag 1  a stream, an ended flag, the (duplicates, queue length) reported
             at a dequeue, the result class of a write or the final cache
             differs from the model's.

    K_P, on the implementation's own observations:
      2  a GnmiUpdate did not return (5 s) while a Send was blocked; hang; panic
      3  a queue length reported at a dequeue exceeds
         #distinct leaf handles that can exist (paths written, plus one per
         possible deletion and re-creation) + #leaf deletions possible + 1
      4  duplicates: for a live subscriber and a path, the sum of
         (1 + duplicates) over its phase-2 updates of that path is not the
         number of accepted phase-2 updates of that path (every accepted update
         is offered once: event-driven suppression is off in these runs);
         or ClientStats.CoalesceCount is not the sum of the duplicates
      5  a permanently stalled subscription did not end with an error, or
         another one did: a stream may end with the timeout error only if one of
         ITS Sends stayed blocked (in particular not after an early return of
         the send routine -- ACL-denied response, sync marker -- followed by a
         quiet period of several timeouts: family acl-quiet)
         or a subscriber that starts after everything is over (its snapshot
         comes straight from the cache) sees a duplicate count
      6  a live subscriber did not converge: replaying its responses does not
         give the cache's content on the paths it selects, or an update does
         not carry the newest value. *)
From Gnmi Require Import Base.Prelude Stream.StreamLts Stream.C04Check.
Open Scope Z_scope.

Record case := mkCase8 {
  k_subs : list (list path * bool);
  k_stall : list nat;                       (* per subscriber: 0 never, 1 transient, 2 ended (blocked for ever / failed Send / client gone), 3 blocked from its first Send to the end of the run *)
  k_pre : list wop;
  k_ops : list (wop * wres);
  k_steps : list (cstep * sobs);            (* the run, one atomic step after the other, as logged *)
  k_streams : list (list resp);
  k_ended : list bool;
  k_dump : list (path * (Z * Z));
  k_deq : list (list (nat * nat));          (* per subscriber: (duplicates, queue length) at every dequeue of phase 2 *)
  k_coal : list nat;                        (* ClientStats.CoalesceCount at the end (live subscribers) *)
  k_returned : bool;                        (* every write returned within 5 s *)
  k_bad : bool;
  k_late : bool;                            (* the last subscriber starts after everything else is over *)
  k_hidden : list string;                   (* targets the RPC's ACL hides (family acl-quiet; empty otherwise) *)
}.

(** ** Model side: the run as the harness logged it, replayed *)

Definition hy : hyps := mkHyps false false.

(** ACL-denied responses (sendSubscribeResponse's early return) are not in the
    transition system (C07 covers the ACL): the cases of family acl-quiet come
    without a log and are judged by K_P only. *)
Definition model_side (c : case) : list (nat * N) :=
  match k_steps c with [] => [] | _ =>
  match validate hy (init 1 (k_subs c)) 0 (k_steps c) with
  | inr i => [(i, 1%N)]
  | inl st =>
      if list_eqb (list_eqb resp_eqb) (map s_sent (st_subs st)) (k_streams c)
         && list_eqb Bool.eqb (map s_end (st_subs st)) (k_ended c)
         && forallb (fun pc => ocont_eqb (cache_at st (fst pc)) (Some (snd pc))) (k_dump c)
         && Nat.eqb (List.length (k_dump c)) (List.length (st_tree st))
      then [] else [(List.length (k_steps c), 1%N)]
  end end.

(** ** Specification side K_P *)

Definition upd_path (o : wop) : list path := match o with WUpd p _ _ => [p] | _ => [] end.
Definition n_dels (ops : list wop) : nat :=
  List.length (filter (fun o => match o with WUpd _ _ _ => false | _ => true end) ops).

Definition all_wops (c : case) : list wop := k_pre c ++ map fst (k_ops c).

(** entries are distinct leaf HANDLES, delete notifications and one sync
    marker: a path has one handle, plus one more for every time it was deleted
    and written again; a delete operation removes at most every path once *)
Definition bound (c : case) : nat :=
  let ps := dedup (flat_map upd_path (all_wops c)) in
  (List.length ps + 2 * (n_dels (all_wops c) * List.length ps) + 1)%nat.

Fixpoint after_sync (rs : list resp) : list resp :=
  match rs with
  | [] => []
  | RSync :: rs' => rs'
  | _ :: rs' => after_sync rs'
  end.

Definition offers (c : case) (qs : list path) (p : path) : nat :=
  if existsb (fun q => compat q p) qs
  then List.length (filter (fun ow => match ow with
                                      | (WUpd p' _ _, WOk) => path_eqb p' p
                                      | _ => false end) (k_ops c))
  else 0%nat.

Definition sum_dups (p : path) (rs : list resp) : nat :=
  fold_right (fun r acc => match r with
                           | RUpd p' _ _ d => if path_eqb p' p then (S d + acc)%nat else acc
                           | _ => acc end) 0%nat rs.

Definition total_dups (rs : list resp) : nat :=
  fold_right (fun r acc => match r with RUpd _ _ _ d => (d + acc)%nat | _ => acc end) 0%nat rs.

Definition has_delete (c : case) : bool := negb (Nat.eqb (n_dels (map fst (k_ops c))) 0).

Definition hidden (c : case) (p : path) : bool := existsb (String.eqb (target_of p)) (k_hidden c).

Definition spec_sub (c : case) (i : nat) (qu : list path * bool) : list (nat * N) :=
  let rs := nth i (k_streams c) [] in
  let ended := nth i (k_ended c) false in
  let stall := nth i (k_stall c) 0%nat in
  let deqs := nth i (k_deq c) [] in
  (if existsb (fun dq => (bound c <? snd dq)%nat) deqs then [(i, 3%N)] else [])
  ++ (if Bool.eqb ended (Nat.eqb stall 2) then [] else [(i, 5%N)])
  ++ (if ended || Nat.eqb stall 3 then [] else   (* 3: still inside a blocked Send when the run ends: not quiescent *)
       let ph2 := if snd qu then after_sync rs else after_sync rs in
       let paths := dedup (flat_map upd_path (map fst (k_ops c)) ++ upd_paths ph2) in
       (* deletes re-create leaves: the walk-free count only holds without them *)
       (if has_delete c || (k_late c && Nat.eqb (S i) (List.length (k_subs c))) then []
        else if forallb (fun p => hidden c p || Nat.eqb (sum_dups p ph2) (offers c (fst qu) p)) paths
             then [] else [(i, 4%N)])
       ++ (if Nat.eqb (total_dups rs) (nth i (k_coal c) 0%nat) then [] else [(i, 4%N)])
       ++ (if k_late c && Nat.eqb (S i) (List.length (k_subs c)) && negb (Nat.eqb (total_dups rs) 0)
           then [(i, 4%N)] else [])
       ++ (if forallb (fun p =>
                 let m := existsb (fun q => covers q p) (fst qu) in
                 (* a hidden target never shows in the stream *)
                 if hidden c p then negb (touched p rs) else
                 negb m
                 || (snd qu && negb (touched p rs))
                 || ocont_eqb (replay_path p None rs) (dlookup p (k_dump c)))
               (map fst (k_dump c) ++ upd_paths rs)
           then [] else [(i, 6%N)])).

(* a run that hung (a write that did not return, senders that never settled -- after the
   harness re-ran it twice) is reported as that and as nothing else: the rest of what was
   observed is incomplete and is not judged *)
Definition spec_side (c : case) : list (nat * N) :=
  if k_bad c || negb (k_returned c) then [(0%nat, 2%N)] else
  flat_map (fun iq => spec_sub c (fst iq) (snd iq))
              (combine (seq 0 (List.length (k_subs c))) (k_subs c)).

Definition check_case (c : case) : list (nat * N) := model_side c ++ spec_side c.

Definition check_all (cs : list case) : list (nat * nat * N) :=
  flat_map (fun ic => map (fun r => (fst ic, fst r, snd r)) (check_case (snd ic)))
           (combine (seq 0 (List.length cs)) cs).

(** Correspondence evaluator and executable specification K_P for C08.

    One case = one run of the real collector: the cache is pre-populated,
    the subscribers start one after the other and drain their snapshots, then
    the stalls are armed (a stalled subscriber's next Send blocks: transiently
    -- released after the last write -- or for ever) and a writer performs the
    phase-2 operations one by one; after each the harness waits until every
    sender is parked (in Next, or inside the blocked Send), so the run is a
    single known schedule of the transition system of StreamLts.v, which the
    model side builds itself and replays:

      tag 1  a stream, an ended flag, the (duplicates, queue length) reported
             at a dequeue, the result class of a write or the final cache
             differs from the model's.

    K_P, on the implementation's own observations:
      2  a GnmiUpdate did not return (5 s) while a Send was blocked; hang; panic
      3  a queue length reported at a dequeue exceeds
         #distinct leaf handles that can exist (paths written, plus one per
         possible deletion and re-creation) + #leaf deletions possible + 1
      4  duplicates: for a live subscriber and a path, the sum of
         (1 + duplicates) over its phase-2 updates of that path is not the
         number of accepted phase-2 updates of that path (every accepted update
         is offered once: event-driven suppression is off in these runs);
         or ClientStats.CoalesceCount is not the sum of the duplicates
      5  a permanently stalled subscription did not end with an error, or
         another one did
         or a subscriber that starts after everything is over (its snapshot
         comes straight from the cache) sees a duplicate count
      6  a live subscriber did not converge: replaying its responses does not
         give the cache's content on the paths it selects, or an update does
         not carry the newest value. *)
From Gnmi Require Import Base.Prelude Stream.StreamLts Stream.C04Check.
Open Scope Z_scope.

Record case := mkCase8 {
  k_subs : list (list path * bool);
  k_stall : list nat;                       (* per subscriber: 0 never, 1 transient, 2 permanent *)
  k_pre : list wop;
  k_ops : list (wop * wres);
  k_orders : list (list path);              (* per subscriber: updated paths in stream order (walk order hint) *)
  k_streams : list (list resp);
  k_ended : list bool;
  k_dump : list (path * (Z * Z));
  k_deq : list (list (nat * nat));          (* per subscriber: (duplicates, queue length) at every dequeue of phase 2 *)
  k_coal : list nat;                        (* ClientStats.CoalesceCount at the end (live subscribers) *)
  k_returned : bool;                        (* every write returned within 5 s *)
  k_bad : bool;
  k_late : bool;                            (* the last subscriber starts after everything else is over *)
}.

(** ** Model side: the schedule of the scenario *)

Definition hy : hyps := mkHyps true false false.

Definition ostep (st : option state) (lb : label) : option state :=
  match st with Some s => step hy s lb | None => None end.

Fixpoint feed_all (fuel : nat) (st : state) (after : state -> option state) : option state :=
  match fuel with
  | O => Some st
  | S f => match step hy st (LFeed 0) with
           | Some st1 => match after st1 with Some st2 => feed_all f st2 after | None => None end
           | None => Some st
           end
  end.

(** what the dequeues of subscriber [i] reported, newest last *)
Definition deqlog := list (list (nat * nat)).

Definition log_deq (lg : deqlog) (i : nat) (st : state) : deqlog :=
  match nth_error (st_subs st) i with
  | Some sb => match s_infl sb with
               | Some (_, d) => upd_nth i (fun l => l ++ [(d, List.length (s_queue sb))]) lg
               | None => lg
               end
  | None => lg
  end.

(** sender of [i] runs until its queue is empty *)
Fixpoint drain (fuel : nat) (i : nat) (st : state) (lg : deqlog) : option (state * deqlog) :=
  match fuel with
  | O => Some (st, lg)
  | S f =>
      match step hy st (LDeq i) with
      | None => Some (st, lg)
      | Some st1 =>
          let lg1 := log_deq lg i st1 in
          match step hy st1 (LRead i) with
          | None => None
          | Some st2 => match step hy st2 (LSent i) with
                        | None => None
                        | Some st3 => drain f i st3 lg1
                        end
          end
      end
  end.

(** sender of a stalled subscriber: one dequeue, then inside Send *)
Definition stick (i : nat) (st : state) (lg : deqlog) : option (state * deqlog) :=
  match step hy st (LDeq i) with
  | None => Some (st, lg)
  | Some st1 => match step hy st1 (LRead i) with
                | None => None
                | Some st2 => Some (st2, log_deq lg i st1)
                end
  end.

Definition is_stuck (st : state) (i : nat) : bool :=
  match nth_error (st_subs st) i with
  | Some sb => match s_out sb with Some _ => true | None => false end
  | None => false
  end.

(** all senders react to what was just announced *)
Fixpoint senders (stall : list nat) (i : nat) (st : state) (lg : deqlog) : option (state * deqlog) :=
  match stall with
  | [] => Some (st, lg)
  | k :: stall' =>
      let r := if Nat.eqb k 0 then drain 50 i st lg
               else if is_stuck st i then Some (st, lg) else stick i st lg in
      match r with
      | Some (st', lg') => senders stall' (S i) st' lg'
      | None => None
      end
  end.

Fixpoint feed_senders (fuel : nat) (stall : list nat) (st : state) (lg : deqlog) : option (state * deqlog) :=
  match fuel with
  | O => Some (st, lg)
  | S f => match step hy st (LFeed 0) with
           | None => Some (st, lg)
           | Some st1 => match senders stall 0 st1 lg with
                         | Some (st2, lg2) => feed_senders f stall st2 lg2
                         | None => None
                         end
           end
  end.

Fixpoint pre_writes (st : state) (ops : list wop) : option state :=
  match ops with
  | [] => Some st
  | o :: ops' => match step hy st (LWrite 0 o) with
                 | Some st1 => match feed_all 50 st1 (fun s => Some s) with
                               | Some st2 => pre_writes st2 ops'
                               | None => None
                               end
                 | None => None
                 end
  end.

Fixpoint subscribe_all (c : case) (i n : nat) (st : state) (lg : deqlog) : option (state * deqlog) :=
  match n with
  | O => Some (st, lg)
  | S n' =>
      match cstep_run hy st (CRegAll i) with
      | Some (st1, _) =>
          let uo := match nth_error (k_subs c) i with Some (_, b) => b | None => false end in
          let st3 := if uo then Some st1
                     else match cstep_run hy st1 (CWalk i (nth i (k_orders c) [])) with
                          | Some (st2, _) => step hy st2 (LSync i)
                          | None => None
                          end in
          match st3 with
          | Some st3 => match drain 50 i st3 lg with
                        | Some (st4, lg4) => subscribe_all c (S i) n' st4 lg4
                        | None => None
                        end
          | None => None
          end
      | None => None
      end
  end.

(** phase 2; the index of the first write whose result class differs *)
Fixpoint phase2 (c : case) (k : nat) (ops : list (wop * wres)) (st : state) (lg : deqlog)
  : (state * deqlog) + nat :=
  match ops with
  | [] => inl (st, lg)
  | (o, r) :: ops' =>
      match step hy st (LWrite 0 o), write hy st 0 o with
      | Some st1, Some (_, r') =>
          if wres_eqb r r' then
            match feed_senders 50 (k_stall c) st1 lg with
            | Some (st2, lg2) => phase2 c (S k) ops' st2 lg2
            | None => inr k
            end
          else inr k
      | _, _ => inr k
      end
  end.

Fixpoint finish (stall : list nat) (i : nat) (st : state) (lg : deqlog) : option (state * deqlog) :=
  match stall with
  | [] => Some (st, lg)
  | k :: stall' =>
      let r :=
        if is_stuck st i then
          if Nat.eqb k 1 then
            match step hy st (LSent i) with Some st1 => drain 50 i st1 lg | None => None end
          else match step hy st (LTimeout i) with Some st1 => Some (st1, lg) | None => None end
        else Some (st, lg) in
      match r with
      | Some (st', lg') => finish stall' (S i) st' lg'
      | None => None
      end
  end.

Definition pair_eqb (a b : nat * nat) : bool := Nat.eqb (fst a) (fst b) && Nat.eqb (snd a) (snd b).

Definition model_side (c : case) : list (nat * N) :=
  let nall := List.length (k_subs c) in
  let n := if k_late c then Nat.pred nall else nall in
  match pre_writes (init 1 (k_subs c)) (k_pre c) with
  | None => [(0%nat, 1%N)]
  | Some st0 =>
      match subscribe_all c 0 n st0 (repeat [] nall) with
      | None => [(1%nat, 1%N)]
      | Some (st1, lg1) =>
          (* the dequeue log starts with phase 2 (the only part that is a known schedule) *)
          match phase2 c 0 (k_ops c) st1 (repeat [] nall) with
          | inr k => [((10 + k)%nat, 1%N)]
          | inl (st2, lg2) =>
              match match finish (k_stall c) 0 st2 lg2 with
                    | Some (st3, lg3) =>
                        if k_late c
                        then match subscribe_all c n 1 st3 lg3 with
                             | Some (st4, _) => Some (st4, lg3)   (* its dequeues are not logged *)
                             | None => None
                             end
                        else Some (st3, lg3)
                    | None => None
                    end with
              | None => [(2%nat, 1%N)]
              | Some (st3, lg3) =>
                  if list_eqb (list_eqb resp_eqb) (map s_sent (st_subs st3)) (k_streams c)
                     && list_eqb Bool.eqb (map s_end (st_subs st3)) (k_ended c)
                     && forallb (fun pc => ocont_eqb (cache_at st3 (fst pc)) (Some (snd pc))) (k_dump c)
                     && Nat.eqb (List.length (k_dump c)) (List.length (st_tree st3))
                  then if list_eqb (list_eqb pair_eqb) lg3 (k_deq c) then [] else [(4%nat, 1%N)]
                  else [(3%nat, 1%N)]
              end
          end
      end
  end.

(** ** Specification side K_P *)

Definition upd_path (o : wop) : list path := match o with WUpd p _ _ => [p] | _ => [] end.
Definition n_dels (ops : list wop) : nat :=
  List.length (filter (fun o => match o with WUpd _ _ _ => false | _ => true end) ops).

Definition all_wops (c : case) : list wop := k_pre c ++ map fst (k_ops c).

(** entries are distinct leaf HANDLES, delete notifications and one sync
    marker: a path has one handle, plus one more for every time it was deleted
    and written again; a delete operation removes at most every path once *)
Definition bound (c : case) : nat :=
  let ps := dedup (flat_map upd_path (all_wops c)) in
  (List.length ps + 2 * (n_dels (all_wops c) * List.length ps) + 1)%nat.

Fixpoint after_sync (rs : list resp) : list resp :=
  match rs with
  | [] => []
  | RSync :: rs' => rs'
  | _ :: rs' => after_sync rs'
  end.

Definition offers (c : case) (qs : list path) (p : path) : nat :=
  if existsb (fun q => compat q p) qs
  then List.length (filter (fun ow => match ow with
                                      | (WUpd p' _ _, WOk) => path_eqb p' p
                                      | _ => false end) (k_ops c))
  else 0%nat.

Definition sum_dups (p : path) (rs : list resp) : nat :=
  fold_right (fun r acc => match r with
                           | RUpd p' _ _ d => if path_eqb p' p then (S d + acc)%nat else acc
                           | _ => acc end) 0%nat rs.

Definition total_dups (rs : list resp) : nat :=
  fold_right (fun r acc => match r with RUpd _ _ _ d => (d + acc)%nat | _ => acc end) 0%nat rs.

Definition has_delete (c : case) : bool := negb (Nat.eqb (n_dels (map fst (k_ops c))) 0).

Definition spec_sub (c : case) (i : nat) (qu : list path * bool) : list (nat * N) :=
  let rs := nth i (k_streams c) [] in
  let ended := nth i (k_ended c) false in
  let stall := nth i (k_stall c) 0%nat in
  let deqs := nth i (k_deq c) [] in
  (if existsb (fun dq => (bound c <? snd dq)%nat) deqs then [(i, 3%N)] else [])
  ++ (if Bool.eqb ended (Nat.eqb stall 2) then [] else [(i, 5%N)])
  ++ (if ended then [] else
       let ph2 := if snd qu then after_sync rs else after_sync rs in
       let paths := dedup (flat_map upd_path (map fst (k_ops c)) ++ upd_paths ph2) in
       (* deletes re-create leaves: the walk-free count only holds without them *)
       (if has_delete c || (k_late c && Nat.eqb (S i) (List.length (k_subs c))) then []
        else if forallb (fun p => Nat.eqb (sum_dups p ph2) (offers c (fst qu) p)) paths
             then [] else [(i, 4%N)])
       ++ (if Nat.eqb (total_dups rs) (nth i (k_coal c) 0%nat) then [] else [(i, 4%N)])
       ++ (if k_late c && Nat.eqb (S i) (List.length (k_subs c)) && negb (Nat.eqb (total_dups rs) 0)
           then [(i, 4%N)] else [])
       ++ (if forallb (fun p =>
                 let m := existsb (fun q => covers q p) (fst qu) in
                 negb m
                 || (snd qu && negb (touched p rs))
                 || ocont_eqb (replay_path p None rs) (dlookup p (k_dump c)))
               (map fst (k_dump c) ++ upd_paths rs)
           then [] else [(i, 6%N)])).

Definition spec_side (c : case) : list (nat * N) :=
  (if k_bad c || negb (k_returned c) then [(0%nat, 2%N)] else [])
  ++ flat_map (fun iq => spec_sub c (fst iq) (snd iq))
              (combine (seq 0 (List.length (k_subs c))) (k_subs c)).

Definition check_case (c : case) : list (nat * N) := model_side c ++ spec_side c.

Definition check_all (cs : list case) : list (nat * nat * N) :=
  flat_map (fun ic => map (fun r => (fst ic, fst r, snd r)) (check_case (snd ic)))
           (combine (seq 0 (List.length cs)) cs).

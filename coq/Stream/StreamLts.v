(** Transition system of a gNMI collector with STREAM subscribers (C04, C08).

    Threads: WRITERS (goroutines calling cache.Target.GnmiUpdate / Reset),
    SUBSCRIBERS (the goroutine running subscribe.Server.Subscribe followed by
    its processSubscription goroutine) and SENDERS (sendStreamingResults, one
    per subscriber).  One label = one atomic step = one critical section of
    the Go code:

      LWrite w op   cache.gnmiUpdate / gnmiRemove / Tree.Delete: the TREE write
                    of one operation (ctree operations are atomic: C10).  The
                    leaves to announce are left in the writer's pending list
                    (the Go code calls t.client(leaf) afterwards, one by one).
      LFeed w       one call of the feed callback (subscribe.Server.Update):
                    under the match read lock the leaf HANDLE is inserted into
                    the coalescing queue of every subscriber with a registered
                    compatible query (once per subscriber: UpdateNotification
                    keeps an "updated" set per notification).
      LReg s        match.AddQuery of the subscriber's next path.
      LRegDone s    Subscribe passes "subscribe:registered" and starts its
                    goroutines.
      LWalkBegin s / LVisit s p / LWalkEnd s
                    one cache.Query of processSubscription: the root read lock
                    of the target's tree is held from begin to end (deletes on
                    that target are disabled), every leaf attached at the
                    beginning MUST be visited (todo list), any attached matching
                    leaf MAY be visited (a leaf added meanwhile); a visit
                    inserts the leaf handle into the queue.
      LSync s       processSubscription inserts the sync marker.
      LDeq s        coalesce.Queue.Next returns (item, dup).
      LRead s       sendSubscribeResponse reads the leaf's LATEST value
                    (r.n.Value()) and builds the response; the send timer is
                    armed here (not for the sync marker).
      LSent s       stream.Send returned: the response is on the wire.
      LTimeout s    the send timer fired while Send had not returned: the RPC
                    ends with an error (queue closed, registrations removed).

    Leaf handles have identity (index in [st_leaves]) and keep their last
    content after being detached from the tree, exactly as *ctree.Leaf does.
    Delete notifications are fresh detached leaves (index in [st_dels]).

      LCancel s     the client goes away (cancel / EOF): Next or Send returns the
                    context's error, the RPC ends.  Like [LTimeout] it sets the
                    ended flag: announcements skip the subscriber from then on.
      LUnreg s      one step of the deferred remove() of an ended RPC: one more
                    of its paths leaves the match trie ([regq] shrinks by one;
                    the program counter of an ended subscriber is reused to
                    count the paths still registered; enabled once its walk
                    goroutine is through).  Registration is per subscriber in
                    this model, so other subscribers' paths cannot be affected
                    (StallProofs.others_registered_unaffected): a removeQuery
                    that prunes a branch others still use breaks the
                    correspondence.
      LUnlock w     GnmiUpdate / Reset / updateMeta returns: the target's write
                    mutex (Target.wmu, commit b865e5c) is released.  [LWrite]
                    takes it (or goes on holding it: Reset and the metadata
                    refresh make several tree writes under one hold), so two
                    writers of one target never overlap between tree write and
                    feed callback.  [step_gen false] is the variant WITHOUT the
                    mutex (the code before b865e5c), kept for the regression
                    witness [stream_converges_refuted].

    The one hypothesis of the C04 theorems is a switch of the step function
    ([hyps]): [h_agree] = no registered query is longer than a leaf path it is
    compatible with (then the walk relation and the feed relation agree on
    that leaf).  [h_ed] = event-driven emulation on.

    Definitions only; proofs are in StreamProofs.v. *)
From Gnmi Require Import Base.Prelude.
Open Scope Z_scope.

(** ** Paths, patterns, the three relations of the Go code *)

Definition star : string := "*"%string.
Definition is_star (x : string) : bool := String.eqb x star.

(** match.branch.update: a registered query [q] is reached by an update (or
    delete) path [d]; globs on either side; when either runs out the other is
    accepted ("implicit recursion for intermediate deletes"). *)
Fixpoint compat (q d : path) : bool :=
  match q, d with
  | x :: q', y :: d' => (is_star x || is_star y || String.eqb x y) && compat q' d'
  | _, _ => true
  end.

(** ctree.Tree.Query and ctree.Tree.internalDelete (after fix 39ad4d0 they are
    the same relation): pattern [d] selects the leaf at path [p]. *)
Fixpoint covers (d p : path) : bool :=
  match d with
  | [] => true
  | x :: d' =>
      match p with
      | [] => is_star x && match d' with [] => true | _ => false end
      | y :: p' => (is_star x || String.eqb x y) && covers d' p'
      end
  end.

Definition target_of (p : path) : string := hd ""%string p.

(** ** Items, responses *)

Inductive item := ILeaf (l : nat) | IDel (k : nat) | ISync.

Definition item_eqb (a b : item) : bool :=
  match a, b with
  | ILeaf x, ILeaf y => Nat.eqb x y
  | IDel x, IDel y => Nat.eqb x y
  | ISync, ISync => true
  | _, _ => false
  end.

Inductive resp :=
| RUpd (p : path) (v ts : Z) (dup : nat)
| RDel (d : path) (ts : Z)
| RSync.

(** ** Coalescing queue (coalesce.Queue.insert / next, abstractly: C11) *)

Definition queue := list (item * nat).

Fixpoint q_insert (it : item) (q : queue) : queue :=
  match q with
  | [] => [(it, 0%nat)]
  | (x, d) :: q' => if item_eqb x it then (x, S d) :: q' else (x, d) :: q_insert it q'
  end.

Fixpoint q_insert_n (n : nat) (it : item) (q : queue) : queue :=
  match n with O => q | S n' => q_insert_n n' it (q_insert it q) end.

(** ** State *)

Inductive spc :=
| SReg (k : nat)                    (* k paths registered, Subscribe not past registration *)
| SGap (k : nat)                    (* processSubscription: k paths walked *)
| SWalk (k : nat) (todo : list nat) (* inside Query of path k *)
| SDone.                            (* sync marker inserted (or updates_only) *)

Record sub := mkSub {
  s_qs : list path;                 (* subscription paths, target first *)
  s_uo : bool;                      (* updates_only *)
  s_pc : spc;
  s_queue : queue;
  s_infl : option (item * nat);     (* dequeued, value not yet read *)
  s_out : option resp;              (* response built, Send not returned *)
  s_sent : list resp;
  s_snap : list nat;                (* ghost: leaves seen attached at the start of a walk *)
  s_end : bool;                     (* RPC ended with an error *)
}.

Record state := mkState {
  st_leaves : list (path * (Z * Z));   (* every leaf handle ever made: path, (value, timestamp) *)
  st_dels : list (path * Z);           (* every delete notification ever made: pattern, timestamp *)
  st_tree : list (path * nat);         (* attached leaves *)
  st_feeds : list (list item);         (* per writer: written, not yet announced *)
  st_subs : list sub;
  st_locks : list (option string);     (* per writer: the target whose write mutex it holds *)
}.

Record hyps := mkHyps { h_agree : bool; h_ed : bool (* event-driven emulation on *) }.

Inductive wop :=
| WUpd (p : path) (v ts : Z)
| WDel (d : path) (ts : Z) (order : list path)  (* order = Go's map iteration order of the victims *)
| WDelSub (d : path).                            (* Target.Reset: Tree.Delete([root]) *)

Inductive label :=
| LWrite (w : nat) (o : wop) | LFeed (w : nat)
| LReg (s : nat) | LRegDone (s : nat)
| LWalkBegin (s : nat) | LVisit (s : nat) (p : path) | LWalkEnd (s : nat) | LSync (s : nat)
| LDeq (s : nat) | LRead (s : nat) | LSent (s : nat) | LTimeout (s : nat)
| LUnlock (w : nat)
| LCancel (s : nat) | LUnreg (s : nat).

(** ** Helpers *)

Fixpoint upd_nth {A} (n : nat) (f : A -> A) (l : list A) : list A :=
  match l, n with
  | [], _ => []
  | x :: l', O => f x :: l'
  | x :: l', S n' => x :: upd_nth n' f l'
  end.

Fixpoint tlookup (p : path) (t : list (path * nat)) : option nat :=
  match t with
  | [] => None
  | (p', l) :: t' => if path_eqb p' p then Some l else tlookup p t'
  end.

Definition leaf_path (st : state) (l : nat) : option path :=
  option_map fst (nth_error (st_leaves st) l).
Definition leaf_cont (st : state) (l : nat) : option (Z * Z) :=
  option_map snd (nth_error (st_leaves st) l).

(** path / pattern under which an item is matched against registered queries *)
Definition item_pat (st : state) (it : item) : option path :=
  match it with
  | ILeaf l => leaf_path st l
  | IDel k => option_map fst (nth_error (st_dels st) k)
  | ISync => None
  end.

Definition item_target (st : state) (it : item) : option string :=
  option_map target_of (item_pat st it).

Definition regq (s : sub) : list path :=
  match s_pc s with SReg k => firstn k (s_qs s) | _ => s_qs s end.

Fixpoint dedup (l : list path) : list path :=
  match l with
  | [] => []
  | x :: l' => if existsb (path_eqb x) l' then dedup l' else x :: dedup l'
  end.

(** number of client.Update calls one announcement makes on this subscriber:
    UpdateNotification threads one "updated" set through the trie walk, so a
    subscriber is offered the leaf once however many of its paths match *)
Definition mult (s : sub) (pat : path) : nat :=
  if existsb (fun q => compat q pat) (regq s) then 1%nat else 0%nat.

Definition deliver (st : state) (it : item) (s : sub) : sub :=
  match item_pat st it with
  | None => s
  | Some pat =>
      if s_end s then s
      else mkSub (s_qs s) (s_uo s) (s_pc s) (q_insert_n (mult s pat) it (s_queue s))
                 (s_infl s) (s_out s) (s_sent s) (s_snap s) (s_end s)
  end.

Definition set_subs (st : state) (ss : list sub) : state :=
  mkState (st_leaves st) (st_dels st) (st_tree st) (st_feeds st) ss (st_locks st).
Definition set_feeds (st : state) (fs : list (list item)) : state :=
  mkState (st_leaves st) (st_dels st) (st_tree st) fs (st_subs st) (st_locks st).

Definition with_sub (st : state) (s : nat) (f : sub -> option sub) : option state :=
  match nth_error (st_subs st) s with
  | None => None
  | Some sb => match f sb with
               | None => None
               | Some sb' => Some (set_subs st (upd_nth s (fun _ => sb') (st_subs st)))
               end
  end.

Definition set_pc (s : sub) (pc : spc) : sub :=
  mkSub (s_qs s) (s_uo s) pc (s_queue s) (s_infl s) (s_out s) (s_sent s) (s_snap s) (s_end s).
Definition set_queue (s : sub) (q : queue) : sub :=
  mkSub (s_qs s) (s_uo s) (s_pc s) q (s_infl s) (s_out s) (s_sent s) (s_snap s) (s_end s).

(** the target whose tree a subscriber holds read-locked *)
Definition walk_target (s : sub) : option string :=
  match s_pc s with
  | SWalk k _ => option_map target_of (nth_error (s_qs s) k)
  | _ => None
  end.

Definition tree_locked (st : state) (t : string) : bool :=
  existsb (fun s => match walk_target s with Some t' => String.eqb t t' | None => false end) (st_subs st).

Definition feed_of (st : state) (w : nat) : list item := nth w (st_feeds st) [].

Definition lock_of (st : state) (w : nat) : option string := nth w (st_locks st) None.

(** another writer holds the write mutex of target [t] *)
Definition held_by_other (st : state) (w : nat) (t : string) : bool :=
  existsb (fun w' => negb (Nat.eqb w' w) &&
                     match lock_of st w' with Some t' => String.eqb t t' | None => false end)
          (seq 0 (List.length (st_locks st))).

(** writer [w] may write target [t]: it holds that mutex already, or holds
    none and nobody else holds it (then it takes it) *)
Definition may_lock (st : state) (w : nat) (t : string) : bool :=
  match lock_of st w with
  | Some t' => String.eqb t t'
  | None => negb (held_by_other st w t)
  end.

Definition set_lock (st : state) (w : nat) (l : option string) : state :=
  mkState (st_leaves st) (st_dels st) (st_tree st) (st_feeds st) (st_subs st)
          (upd_nth w (fun _ => l) (st_locks st)).

(** every registered or future query of every subscriber agrees on [p] *)
Definition agree_on (st : state) (p : path) : bool :=
  forallb (fun s => forallb (fun q => Bool.eqb (compat q p) (covers q p)) (s_qs s)) (st_subs st).

Definition is_registered (s : sub) : bool :=
  match s_pc s with SReg _ => false | _ => true end.

(** ** Writer steps *)

Inductive wres := WOk | WErr | WStale.

(** ctree.Add / GetLeaf conflicts: a leaf on the way to [p], or [p] is a branch *)
Definition conflicts (st : state) (p : path) : bool :=
  existsb (fun pl => strict_prefix (fst pl) p || strict_prefix p (fst pl)) (st_tree st).

Definition victims (st : state) (d : path) (cond : Z * Z -> bool) : list (path * nat) :=
  filter (fun pl => covers d (fst pl) &&
                    match leaf_cont st (snd pl) with Some c => cond c | None => false end)
         (st_tree st).

Definition reorder (order : list path) (v : list (path * nat)) : list (path * nat) :=
  flat_map (fun p => filter (fun pl => path_eqb (fst pl) p) v) (dedup order)
  ++ filter (fun pl => negb (existsb (path_eqb (fst pl)) order)) v.

Definition remove_paths (v : list (path * nat)) (t : list (path * nat)) : list (path * nat) :=
  filter (fun pl => negb (existsb (fun x => path_eqb (fst x) (fst pl)) v)) t.

Definition set_feed (st : state) (w : nat) (f : list item) : list (list item) :=
  upd_nth w (fun _ => f) (st_feeds st).

(** (new state, result class) of the tree-write part of an operation *)
Definition target_ok (p : path) : bool :=
  match p with t :: _ => negb (is_star t) | [] => false end.
Definition star_free (p : path) : bool := forallb (fun x => negb (is_star x)) p.

Definition write (h : hyps) (st : state) (w : nat) (o : wop) : option (state * wres) :=
  match o with
  | WUpd p v ts =>
      (* outside the model: no target, a path element named "*", or the BARE target path
         (cache.gnmiUpdate rejects an empty index path since 30e1165: no leaf can sit at
         [target]; paths under meta are written by the cache itself and are outside the
         generator's scope) *)
      if negb (target_ok p && star_free p && negb (Nat.eqb (List.length p) 1)) then None else
      if h_agree h && negb (agree_on st p) then None else
      match tlookup p (st_tree st) with
      | Some l =>
          match leaf_cont st l with
          | None => None
          | Some (v0, ts0) =>
              if ts <? ts0 then Some (st, WStale)
              else if (ts =? ts0) && (v =? v0) then Some (st, WStale)
              else
                let leaves' := upd_nth l (fun pc => (fst pc, (v, ts))) (st_leaves st) in
                (* event-driven emulation: same value, nothing announced *)
                let f := if h_ed h && (v =? v0) then [] else [ILeaf l] in
                Some (mkState leaves' (st_dels st) (st_tree st) (set_feed st w f) (st_subs st) (st_locks st), WOk)
          end
      | None =>
          if conflicts st p then Some (st, WErr)
          else
            let l := List.length (st_leaves st) in
            Some (mkState (st_leaves st ++ [(p, (v, ts))]) (st_dels st)
                          (st_tree st ++ [(p, l)]) (set_feed st w [ILeaf l]) (st_subs st) (st_locks st), WOk)
      end
  | WDel d ts order =>
      if negb (target_ok d) then None else
      if tree_locked st (target_of d) then None else
      let vs := reorder order (victims st d (fun c => snd c <? ts)) in
      let k0 := List.length (st_dels st) in
      Some (mkState (st_leaves st) (st_dels st ++ map (fun pl => (fst pl, ts)) vs)
                    (remove_paths vs (st_tree st))
                    (set_feed st w (map IDel (seq k0 (List.length vs)))) (st_subs st) (st_locks st), WOk)
  | WDelSub d =>
      if negb (target_ok d && star_free d) then None else
      if tree_locked st (target_of d) then None else
      let vs := victims st d (fun _ => true) in
      let k0 := List.length (st_dels st) in
      Some (mkState (st_leaves st) (st_dels st ++ [(d ++ [star], 0)])
                    (remove_paths vs (st_tree st))
                    (set_feed st w [IDel k0]) (st_subs st) (st_locks st), WOk)
  end.

Definition wop_target (o : wop) : string :=
  match o with WUpd p _ _ => target_of p | WDel d _ _ => target_of d | WDelSub d => target_of d end.

(** ** Response built from an item (value read NOW) *)

Definition build (st : state) (it : item) (dup : nat) : option resp :=
  match it with
  | ILeaf l => match nth_error (st_leaves st) l with
               | Some (p, (v, ts)) => Some (RUpd p v ts dup)
               | None => None
               end
  | IDel k => match nth_error (st_dels st) k with
              | Some (d, ts) => Some (RDel d ts)
              | None => None
              end
  | ISync => Some RSync
  end.

(** ** The step function *)

Definition step_gen (mutex : bool) (h : hyps) (st : state) (lb : label) : option state :=
  match lb with
  | LWrite w o =>
      match nth_error (st_feeds st) w with
      | Some [] =>
          if mutex then
            if may_lock st w (wop_target o)
            then option_map (fun sr => set_lock (fst sr) w (Some (wop_target o))) (write h st w o)
            else None
          else option_map fst (write h st w o)
      | _ => None
      end
  | LCancel s =>
      with_sub st s (fun sb =>
        if is_registered sb && negb (s_end sb)
        then Some (mkSub (s_qs sb) (s_uo sb) (s_pc sb) (s_queue sb) (s_infl sb) (s_out sb)
                         (s_sent sb) (s_snap sb) true)
        else None)
  | LUnreg s =>
      with_sub st s (fun sb =>
        if s_end sb then
          match s_pc sb with
          | SDone => match List.length (s_qs sb) with
                     | O => None
                     | S k => Some (set_pc sb (SReg k))
                     end
          | SReg (S k) => Some (set_pc sb (SReg k))
          | _ => None
          end
        else None)
  | LUnlock w =>
      match nth_error (st_feeds st) w, lock_of st w with
      | Some [], Some _ => Some (set_lock st w None)
      | _, _ => None
      end
  | LFeed w =>
      match nth_error (st_feeds st) w with
      | Some (it :: rest) =>
          Some (mkState (st_leaves st) (st_dels st) (st_tree st)
                        (set_feed st w rest) (map (deliver st it) (st_subs st)) (st_locks st))
      | _ => None
      end
  | LReg s =>
      with_sub st s (fun sb =>
        match s_pc sb with
        | SReg k => if (k <? List.length (s_qs sb))%nat then Some (set_pc sb (SReg (S k))) else None
        | _ => None
        end)
  | LRegDone s =>
      with_sub st s (fun sb =>
        match s_pc sb with
        | SReg k => if (k =? List.length (s_qs sb))%nat
                    then Some (set_pc sb (if s_uo sb then SDone else SGap 0)) else None
        | _ => None
        end)
  | LWalkBegin s =>
      with_sub st s (fun sb =>
        match s_pc sb with
        | SGap k =>
            match nth_error (s_qs sb) k with
            | Some q =>
                let todo := map snd (filter (fun pl => covers q (fst pl)) (st_tree st)) in
                Some (mkSub (s_qs sb) (s_uo sb) (SWalk k todo) (s_queue sb) (s_infl sb) (s_out sb)
                            (s_sent sb) (s_snap sb ++ todo) (s_end sb))
            | None => None
            end
        | _ => None
        end)
  | LVisit s p =>
      with_sub st s (fun sb =>
        match s_pc sb with
        | SWalk k todo =>
            match nth_error (s_qs sb) k, tlookup p (st_tree st) with
            | Some q, Some l =>
                if covers q p
                then Some (set_queue (set_pc sb (SWalk k (filter (fun x => negb (Nat.eqb x l)) todo)))
                                     (if s_end sb then s_queue sb else q_insert (ILeaf l) (s_queue sb)))
                else None
            | _, _ => None
            end
        | _ => None
        end)
  | LWalkEnd s =>
      with_sub st s (fun sb =>
        match s_pc sb with
        | SWalk k [] => Some (set_pc sb (SGap (S k)))
        | _ => None
        end)
  | LSync s =>
      with_sub st s (fun sb =>
        match s_pc sb with
        | SGap k => if (k =? List.length (s_qs sb))%nat
                    then Some (set_queue (set_pc sb SDone)
                                         (if s_end sb then s_queue sb else q_insert ISync (s_queue sb)))
                    else None
        | _ => None
        end)
  | LDeq s =>
      with_sub st s (fun sb =>
        if is_registered sb && negb (s_end sb) then
          match s_infl sb, s_out sb, s_queue sb with
          | None, None, x :: q' =>
              Some (mkSub (s_qs sb) (s_uo sb) (s_pc sb) q' (Some x) None (s_sent sb) (s_snap sb) false)
          | _, _, _ => None
          end
        else None)
  | LRead s =>
      with_sub st s (fun sb =>
        if s_end sb then None else
        match s_infl sb with
        | Some (it, d) =>
            match build st it d with
            | Some r => Some (mkSub (s_qs sb) (s_uo sb) (s_pc sb) (s_queue sb) None (Some r)
                                    (s_sent sb) (s_snap sb) false)
            | None => None
            end
        | None => None
        end)
  | LSent s =>
      with_sub st s (fun sb =>
        if s_end sb then None else
        match s_out sb with
        | Some r => Some (mkSub (s_qs sb) (s_uo sb) (s_pc sb) (s_queue sb) None None
                                (s_sent sb ++ [r]) (s_snap sb) false)
        | None => None
        end)
  | LTimeout s =>
      with_sub st s (fun sb =>
        if s_end sb then None else
        match s_out sb with
        | Some RSync => None      (* the sync marker is sent without the timer *)
        | Some _ => Some (mkSub (s_qs sb) (s_uo sb) (s_pc sb) (s_queue sb) (s_infl sb) (s_out sb)
                                (s_sent sb) (s_snap sb) true)
        | None => None
        end)
  end.

(** the code as it is: with the per-target write mutex *)
Definition step : hyps -> state -> label -> option state := step_gen true.

Fixpoint run_gen (mutex : bool) (h : hyps) (st : state) (sch : list label) : option state :=
  match sch with
  | [] => Some st
  | lb :: sch' => match step_gen mutex h st lb with Some st' => run_gen mutex h st' sch' | None => None end
  end.

Definition run : hyps -> state -> list label -> option state := run_gen true.

(** ** Initial states: any number of writers, any subscriptions *)

Definition init_sub (qs : list path) (uo : bool) : sub :=
  mkSub qs uo (SReg 0) (if uo then [(ISync, 0%nat)] else []) None None [] [] false.

Definition init (nw : nat) (subs : list (list path * bool)) : state :=
  mkState [] [] [] (repeat [] nw) (map (fun qu => init_sub (fst qu) (snd qu)) subs) (repeat None nw).

Definition reachable (h : hyps) (nw : nat) (subs : list (list path * bool)) (st : state) : Prop :=
  exists sch, run h (init nw subs) sch = Some st.

(** the variant without the mutex (before commit b865e5c) *)
Definition reachable_unlocked (h : hyps) (nw : nat) (subs : list (list path * bool)) (st : state) : Prop :=
  exists sch, run_gen false h (init nw subs) sch = Some st.

(** ** Observation functions used by the statements *)

(** what a client that applies the responses in order holds for path [p] *)
Fixpoint replay_path (p : path) (acc : option (Z * Z)) (rs : list resp) : option (Z * Z) :=
  match rs with
  | [] => acc
  | RUpd p' v ts _ :: rs' => replay_path p (if path_eqb p' p then Some (v, ts) else acc) rs'
  | RDel d _ :: rs' => replay_path p (if covers d p then None else acc) rs'
  | RSync :: rs' => replay_path p acc rs'
  end.

Definition cache_at (st : state) (p : path) : option (Z * Z) :=
  match tlookup p (st_tree st) with
  | Some l => leaf_cont st l
  | None => None
  end.

(** the projection compared: with event-driven emulation a same-value update
    refreshes the cached timestamp without an announcement *)
Definition proj (h : hyps) (c : Z * Z) : Z * Z := if h_ed h then (fst c, 0) else c.

(** items still to come for subscriber [s], as they would be sent NOW *)
Definition pending_feed (st : state) (s : sub) : list item :=
  flat_map (fun f => filter (fun it => match item_pat st it with
                                       | Some pat => (0 <? mult s pat)%nat
                                       | None => false end) f)
           (st_feeds st).

Definition tail_items (st : state) (s : sub) : list item :=
  match s_infl s with Some (it, _) => [it] | None => [] end
  ++ map fst (s_queue s) ++ pending_feed st s.

Definition materialize (st : state) (its : list item) : list resp :=
  flat_map (fun it => match build st it 0 with Some r => [r] | None => [] end) its.

Definition out_list (s : sub) : list resp :=
  match s_out s with Some r => [r] | None => [] end.

Definition full_stream (st : state) (s : sub) : list resp :=
  s_sent s ++ out_list s ++ materialize st (tail_items st s).

Definition sub_matches (s : sub) (p : path) : bool := existsb (fun q => covers q p) (s_qs s).

Definition walk_done (s : sub) : bool := match s_pc s with SDone => true | _ => false end.

Definition quiescent (st : state) : Prop :=
  (forall f, In f (st_feeds st) -> f = []) /\
  (forall s, In s (st_subs st) -> s_end s = false ->
             s_pc s = SDone /\ s_queue s = [] /\ s_infl s = None /\ s_out s = None).

(** Correspondence evaluator and executable specification K_P for C04.

    One case = one run of the real collector (cache + subscribe.Server +
    in-memory streams) with N writer goroutines and M STREAM subscribers.

    Mode S ([c_steps] non-empty): the run was forced through the verif hook
    points under a barrier scheduler; [c_steps] is the sequence of atomic steps
    in the order they happened, each with what the harness observed (result
    class of a write, the response handed to Send).  The model side replays the
    same labels through [StreamLts.step] (all hypotheses off: every behaviour
    of the code is a behaviour of the model) and requires every label to be
    enabled, every observation to be the model's, and at the end the streams
    and the cache dump to be the model's -- tag 1.

    Mode A ([c_steps] empty): free-running goroutines with seeded delays; only
    K_P applies.

    K_P (independent of the model, applied to the implementation's own
    responses and Query dump, taken at quiescence):
      2  convergence: for a subscriber that did not end, replaying its
         responses in order gives, for every path selected by one of its
         queries, exactly the cache's content (value; timestamp too when
         event-driven suppression is off); a path compatible with none of its
         queries never appears.  For updates_only only paths the stream
         mentions are compared.
      3  not exactly one sync_response
      4  updates_only: the sync is not first; otherwise: a leaf present when
         the walk started (mode S) / present throughout the run (mode A) has no
         update before the sync
      5  hang or panic.
    (Until commit b865e5c a tag 11 marked convergence failures of a path updated
    by one writer and deleted by another writer of the same target, KF-C04-1;
    with the per-target write mutex an overtaking announcement is a plain
    violation again.) *)
From Gnmi Require Import Base.Prelude Stream.StreamLts.
Open Scope Z_scope.

Inductive sobs := ONone | OW (r : wres) | OResp (r : resp)
| ODeq (dup qlen : nat).   (* C08: what updateClientStats was given at a dequeue *)

Inductive cstep :=
| CL (lb : label)
| CRegAll (s : nat)                       (* addSubscription: every path, then "subscribe:registered" *)
| CWalk (s : nat) (order : list path).    (* all Queries of processSubscription; order = hint for map order *)

Record case := mkCase {
  c_ed : bool;
  c_nw : nat;
  c_subs : list (list path * bool);
  c_steps : list (cstep * sobs);
  c_streams : list (list resp);
  c_ended : list bool;
  c_dump : list (path * (Z * Z));
  c_snaps : list (list path);
  c_bad : bool;                           (* hang / panic *)
}.

(** ** decidable equalities *)

Definition resp_eqb (a b : resp) : bool :=
  match a, b with
  | RUpd p v t d, RUpd p' v' t' d' => path_eqb p p' && (v =? v') && (t =? t') && Nat.eqb d d'
  | RDel p t, RDel p' t' => path_eqb p p' && (t =? t')
  | RSync, RSync => true
  | _, _ => false
  end.

Definition wres_eqb (a b : wres) : bool :=
  match a, b with WOk, WOk | WErr, WErr | WStale, WStale => true | _, _ => false end.

Fixpoint list_eqb {A} (e : A -> A -> bool) (a b : list A) : bool :=
  match a, b with
  | [], [] => true
  | x :: a', y :: b' => e x y && list_eqb e a' b'
  | _, _ => false
  end.

Definition ocont_eqb (a b : option (Z * Z)) : bool :=
  match a, b with
  | Some (v, t), Some (v', t') => (v =? v') && (t =? t')
  | None, None => true
  | _, _ => false
  end.

(** ** Model side *)

(* The model side runs the code as it is at HEAD: with the per-target write mutex
   (StreamLts.step = step_gen true; commit b865e5c fixed KF-C04-1), with no hypothesis on
   the subscription paths ([h_agree = false]: every behaviour of the code must be a
   behaviour of the model). *)
Definition free (ed : bool) : hyps := mkHyps false ed.

Fixpoint run_labels (h : hyps) (st : state) (ls : list label) : option state :=
  match ls with
  | [] => Some st
  | l :: ls' => match step h st l with Some st' => run_labels h st' ls' | None => None end
  end.

(** visits of one Query: the must-visit leaves, those the hint names first in
    the hint's order, the others after *)
Definition visit_paths (st : state) (q : path) (order : list path) : list path :=
  let todo := map fst (filter (fun pl => covers q (fst pl)) (st_tree st)) in
  filter (fun p => existsb (path_eqb p) todo) (dedup order)
  ++ filter (fun p => negb (existsb (path_eqb p) order)) todo.

Fixpoint walk_all (h : hyps) (st : state) (s : nat) (qs : list path) (order : list path) : option state :=
  match qs with
  | [] => Some st
  | q :: qs' =>
      match step h st (LWalkBegin s) with
      | None => None
      | Some st1 =>
          match run_labels h st1 (map (LVisit s) (visit_paths st q order)) with
          | None => None
          | Some st2 =>
              match step h st2 (LWalkEnd s) with
              | None => None
              | Some st3 => walk_all h st3 s qs' order
              end
          end
      end
  end.

Definition sub_qs (st : state) (s : nat) : list path :=
  match nth_error (st_subs st) s with Some sb => s_qs sb | None => [] end.

(** one checker step: new state and the model's observation *)
Definition cstep_run (h : hyps) (st : state) (c : cstep) : option (state * sobs) :=
  match c with
  | CL (LWrite w o) =>
      match step h st (LWrite w o), write h st w o with
      | Some st', Some (_, r) => Some (st', OW r)
      | _, _ => None
      end
  | CL (LRead s) =>
      match step h st (LRead s) with
      | Some st' =>
          match nth_error (st_subs st') s with
          | Some sb => match s_out sb with Some r => Some (st', OResp r) | None => None end
          | None => None
          end
      | None => None
      end
  | CL (LDeq s) =>
      match step h st (LDeq s) with
      | Some st' =>
          match nth_error (st_subs st') s with
          | Some sb => match s_infl sb with
                       | Some (_, d) => Some (st', ODeq d (List.length (s_queue sb)))
                       | None => None
                       end
          | None => None
          end
      | None => None
      end
  | CL lb => option_map (fun st' => (st', ONone)) (step h st lb)
  | CRegAll s =>
      option_map (fun st' => (st', ONone))
        (run_labels h st (repeat (LReg s) (List.length (sub_qs st s)) ++ [LRegDone s]))
  | CWalk s order =>
      option_map (fun st' => (st', ONone)) (walk_all h st s (sub_qs st s) order)
  end.

Definition sobs_eqb (a b : sobs) : bool :=
  match a, b with
  | ONone, ONone => true
  | OW x, OW y => wres_eqb x y
  | OResp x, OResp y => resp_eqb x y
  | ODeq d q, ODeq d' q' => Nat.eqb d d' && Nat.eqb q q'
  | ONone, ODeq _ _ => true      (* the pair was not observed (C04 runs; start of a subscription) *)
  | _, _ => false
  end.

(** index of the first step the model cannot follow, or the final state *)
Fixpoint validate (h : hyps) (st : state) (i : nat) (l : list (cstep * sobs)) : state + nat :=
  match l with
  | [] => inl st
  | (c, o) :: l' =>
      match cstep_run h st c with
      | Some (st', o') => if sobs_eqb o o' then validate h st' (S i) l' else inr i
      | None => inr i
      end
  end.

Definition final_agrees (c : case) (st : state) : bool :=
  list_eqb (list_eqb resp_eqb) (map s_sent (st_subs st)) (c_streams c)
  && list_eqb Bool.eqb (map s_end (st_subs st)) (c_ended c)
  && forallb (fun pc => ocont_eqb (cache_at st (fst pc)) (Some (snd pc))) (c_dump c)
  && Nat.eqb (List.length (c_dump c)) (List.length (st_tree st)).

Definition model_side (c : case) : list (nat * N) :=
  match c_steps c with
  | [] => []
  | steps =>
      match validate (free (c_ed c)) (init (c_nw c) (c_subs c)) 0 steps with
      | inr i => [(i, 1%N)]
      | inl st => if final_agrees c st then [] else [(List.length steps, 1%N)]
      end
  end.

(** ** Specification side K_P *)

Fixpoint dlookup (p : path) (d : list (path * (Z * Z))) : option (Z * Z) :=
  match d with
  | [] => None
  | (p', c) :: d' => if path_eqb p' p then Some c else dlookup p d'
  end.

Definition touched (p : path) (rs : list resp) : bool :=
  existsb (fun r => match r with
                    | RUpd p' _ _ _ => path_eqb p' p
                    | RDel d _ => covers d p
                    | RSync => false end) rs.

Definition upd_paths (rs : list resp) : list path :=
  flat_map (fun r => match r with RUpd p _ _ _ => [p] | _ => [] end) rs.

Definition pcont (ed : bool) (c : option (Z * Z)) : option (Z * Z) :=
  match c with Some (v, t) => Some (if ed then (v, 0) else (v, t)) | None => None end.

Definition n_sync (rs : list resp) : nat :=
  List.length (filter (fun r => match r with RSync => true | _ => false end) rs).

Fixpoint before_sync (rs : list resp) : list resp :=
  match rs with
  | [] => []
  | RSync :: _ => []
  | r :: rs' => r :: before_sync rs'
  end.

Definition conv_path (c : case) (qs : list path) (uo : bool) (rs : list resp) (p : path) : N :=
  let m := existsb (fun q => covers q p) qs in
  let cp := existsb (fun q => compat q p) qs in
  let bad :=
    if m then
      if uo && negb (touched p rs) then false
      else negb (ocont_eqb (pcont (c_ed c) (replay_path p None rs)) (pcont (c_ed c) (dlookup p (c_dump c))))
    else if cp then false
    else existsb (path_eqb p) (upd_paths rs) in
  if bad then 2%N else 0%N.

Definition spec_sub (c : case) (i : nat) (qu : list path * bool) : list (nat * N) :=
  let rs := nth i (c_streams c) [] in
  let ended := nth i (c_ended c) false in
  let snap := nth i (c_snaps c) [] in
  if ended then (if (1 <? n_sync rs)%nat then [(i, 3%N)] else [])
  else
    let conv := filter (fun t => negb (N.eqb t 0))
                  (map (conv_path c (fst qu) (snd qu) rs) (map fst (c_dump c) ++ upd_paths rs)) in
    (match conv with [] => [] | t :: _ => [(i, if existsb (N.eqb 2) conv then 2%N else t)] end)
    ++ (if Nat.eqb (n_sync rs) 1 then [] else [(i, 3%N)])
    ++ (if snd qu
        then match rs with RSync :: _ => [] | [] => [] | _ => [(i, 4%N)] end
        else if forallb (fun p => negb (existsb (fun q => covers q p) (fst qu))
                                  || existsb (path_eqb p) (upd_paths (before_sync rs))) snap
             then [] else [(i, 4%N)]).

(* a run that hung (after the harness re-ran it twice) is reported as a hang and as nothing
   else: what was observed of it is incomplete and is not judged *)
Definition spec_side (c : case) : list (nat * N) :=
  if c_bad c then [(0%nat, 5%N)] else
  flat_map (fun iq => spec_sub c (fst iq) (snd iq))
              (combine (seq 0 (List.length (c_subs c))) (c_subs c)).

Definition check_case (c : case) : list (nat * N) := model_side c ++ spec_side c.

Definition check_all (cs : list case) : list (nat * nat * N) :=
  flat_map (fun ic => map (fun r => (fst ic, fst r, snd r)) (check_case (snd ic)))
           (combine (seq 0 (List.length cs)) cs).

(** Proofs about the transition system of Stream/StreamLts.v (C04, C08). *)
From Gnmi Require Import Base.Prelude Stream.StreamLts.
Open Scope Z_scope.

(** ** Relations *)

(** ctree.Query's relation is contained in the match trie's relation. *)
Lemma covers_compat q p : covers q p = true -> compat q p = true.
Proof.
  revert p; induction q as [|x q IH]; intros p H; [destruct p; reflexivity|].
  destruct p as [|y p]; [reflexivity|].
  cbn in *. apply andb_true_iff in H as [H1 H2].
  rewrite (IH _ H2), andb_true_r.
  apply orb_true_iff in H1 as [H1|H1]; rewrite H1; cbn; auto using orb_true_r.
Qed.

Lemma is_star_eqb x y : is_star x = false -> String.eqb x y = true -> is_star y = false.
Proof. intros H E. apply String.eqb_eq in E. subst. exact H. Qed.

(** A delete pattern that covers a leaf reaches every query the leaf reaches. *)
Lemma compat_covers q d p : covers d p = true -> compat q p = true -> compat q d = true.
Proof.
  revert d p; induction q as [|x q IH]; intros d p Hc Hq; [reflexivity|].
  destruct d as [|y d]; [reflexivity|].
  destruct p as [|z p].
  - cbn in Hc. apply andb_true_iff in Hc as [Hy Hd]. destruct d; [|discriminate].
    cbn. rewrite Hy. rewrite orb_true_r. cbn. destruct q; reflexivity.
  - cbn in Hc, Hq |- *. apply andb_true_iff in Hc as [H1 H2]. apply andb_true_iff in Hq as [H3 H4].
    rewrite (IH _ _ H2 H4), andb_true_r.
    destruct (is_star x) eqn:Ex; [reflexivity|]. destruct (is_star y) eqn:Ey; [reflexivity|].
    cbn in *. apply String.eqb_eq in H1. subst z.
    destruct (is_star y) eqn:Ey'; [discriminate|]. cbn in H3.
    apply String.eqb_eq in H3. subst. apply String.eqb_refl.
Qed.

(** On a star-free pattern [covers] is the prefix relation. *)
Lemma covers_star_free d p : star_free d = true -> covers d p = is_prefix d p.
Proof.
  revert p; induction d as [|x d IH]; intros p H; [reflexivity|].
  cbn in H. apply andb_true_iff in H as [Hx Hd]. apply negb_true_iff in Hx.
  destruct p as [|y p]; cbn; rewrite Hx; [reflexivity|]. cbn. rewrite IH by assumption. reflexivity.
Qed.

Lemma covers_target d p : target_ok d = true -> covers d p = true -> target_of d = target_of p.
Proof.
  destruct d as [|x d]; [discriminate|]. cbn. intros Hx H. apply negb_true_iff in Hx.
  destruct p as [|y p]; cbn in H; rewrite Hx in H; [discriminate|].
  cbn in H. apply andb_true_iff in H as [H _]. apply String.eqb_eq in H. exact H.
Qed.

(** ** Lists *)

Lemma nth_error_upd_nth_eq {A} n (f : A -> A) l :
  nth_error (upd_nth n f l) n = option_map f (nth_error l n).
Proof. revert n; induction l as [|x l IH]; intros [|n]; cbn; auto. Qed.

Lemma nth_error_upd_nth_neq {A} n m (f : A -> A) l :
  n <> m -> nth_error (upd_nth n f l) m = nth_error l m.
Proof. revert n m; induction l as [|x l IH]; intros [|n] [|m] H; cbn; auto; congruence. Qed.

Lemma length_upd_nth {A} n (f : A -> A) l : List.length (upd_nth n f l) = List.length l.
Proof. revert n; induction l as [|x l IH]; intros [|n]; cbn; auto. Qed.

Lemma nth_error_upd_nth_inv {A} n m (f : A -> A) l y :
  nth_error (upd_nth n f l) m = Some y ->
  (n = m /\ exists x, nth_error l m = Some x /\ y = f x) \/ (n <> m /\ nth_error l m = Some y).
Proof.
  destruct (Nat.eq_dec n m) as [->|Hn]; intros H.
  - rewrite nth_error_upd_nth_eq in H. destruct (nth_error l m) eqn:E; [|discriminate].
    left. split; auto. exists a. inversion H; auto.
  - rewrite nth_error_upd_nth_neq in H by assumption. auto.
Qed.

Lemma In_upd_nth {A} n (f : A -> A) l y :
  In y (upd_nth n f l) -> In y l \/ exists x, nth_error l n = Some x /\ y = f x.
Proof.
  revert n; induction l as [|x l IH]; intros [|n]; cbn; auto.
  - intros [<-|H]; eauto.
  - intros [<-|H]; auto. destruct (IH _ H) as [?|?]; auto.
Qed.

Lemma nth_error_app_l {A} (l l' : list A) n x : nth_error l n = Some x -> nth_error (l ++ l') n = Some x.
Proof. intros H. rewrite nth_error_app1; auto. apply nth_error_Some. congruence. Qed.

Lemma item_eqb_eq a b : item_eqb a b = true <-> a = b.
Proof.
  destruct a, b; cbn; split; intros H; try discriminate; try reflexivity;
    try (apply Nat.eqb_eq in H; subst; reflexivity); inversion H; apply Nat.eqb_refl.
Qed.

Lemma item_eqb_refl a : item_eqb a a = true.
Proof. apply item_eqb_eq. reflexivity. Qed.

Lemma item_eq_dec (a b : item) : {a = b} + {a <> b}.
Proof. decide equality; apply Nat.eq_dec. Qed.

(** ** The coalescing queue *)

Definition qitems (q : queue) : list item := map fst q.

Lemma qitems_insert_in it q : In it (qitems q) -> qitems (q_insert it q) = qitems q.
Proof.
  unfold qitems. induction q as [|[x d] q IH]; cbn; [tauto|]. intros [->|H].
  - rewrite item_eqb_refl. reflexivity.
  - destruct (item_eqb x it); cbn; [reflexivity|]. rewrite IH; auto.
Qed.

Lemma qitems_insert_notin it q : ~ In it (qitems q) -> qitems (q_insert it q) = qitems q ++ [it].
Proof.
  unfold qitems. induction q as [|[x d] q IH]; cbn; [reflexivity|]. intros H.
  destruct (item_eqb x it) eqn:E; [apply item_eqb_eq in E; tauto|]. cbn. rewrite IH; tauto.
Qed.

Lemma qitems_insert it q :
  qitems (q_insert it q) = if in_dec item_eq_dec it (qitems q) then qitems q else qitems q ++ [it].
Proof. destruct (in_dec _ _ _); [apply qitems_insert_in|apply qitems_insert_notin]; assumption. Qed.

Lemma In_qitems_insert it x q : In x (qitems (q_insert it q)) <-> x = it \/ In x (qitems q).
Proof.
  rewrite qitems_insert. destruct (in_dec _ _ _) as [H|H]; [|rewrite in_app_iff; cbn]; intuition (subst; auto).
Qed.

(** ** Tree lookups *)

Lemma tlookup_In p l t : tlookup p t = Some l -> In (p, l) t.
Proof.
  induction t as [|[p' l'] t IH]; cbn; [discriminate|].
  destruct (path_eqb p' p) eqn:E; [apply path_eqb_eq in E; intros [= ->]; subst; auto|auto].
Qed.

Lemma tlookup_None p t : tlookup p t = None <-> ~ In p (map fst t).
Proof.
  induction t as [|[p' l'] t IH]; cbn; [tauto|].
  destruct (path_eqb p' p) eqn:E.
  - apply path_eqb_eq in E. split; [discriminate|tauto].
  - apply path_eqb_neq in E. rewrite IH. tauto.
Qed.

Lemma In_tlookup p l t : NoDup (map fst t) -> In (p, l) t -> tlookup p t = Some l.
Proof.
  induction t as [|[p' l'] t IH]; cbn; [tauto|]. intros Hn [H|H].
  - inversion H; subst. rewrite path_eqb_refl. reflexivity.
  - inversion Hn; subst. destruct (path_eqb p' p) eqn:E; [|auto].
    apply path_eqb_eq in E. subst. exfalso. apply H2. apply in_map_iff. exists (p, l). auto.
Qed.

Lemma tlookup_app p t t' :
  tlookup p (t ++ t') = match tlookup p t with Some l => Some l | None => tlookup p t' end.
Proof. induction t as [|[p' l'] t IH]; cbn; [reflexivity|]. destruct (path_eqb p' p); auto. Qed.

Lemma tlookup_filter_fst (P : path -> bool) p t :
  tlookup p (filter (fun pl => P (fst pl)) t) = if P p then tlookup p t else None.
Proof.
  induction t as [|[p' l'] t IH]; cbn; [destruct (P p); reflexivity|].
  destruct (P p') eqn:E; cbn; destruct (path_eqb p' p) eqn:E2.
  - apply path_eqb_eq in E2. subst. rewrite E. reflexivity.
  - exact IH.
  - apply path_eqb_eq in E2. subst. rewrite E in *. exact IH.
  - exact IH.
Qed.

Lemma NoDup_map_fst_filter {A B} (f : A * B -> bool) (t : list (A * B)) :
  NoDup (map fst t) -> NoDup (map fst (filter f t)).
Proof.
  induction t as [|x t IH]; cbn; [auto|]. intros H. inversion H; subst.
  destruct (f x); cbn; auto. constructor; auto.
  intros Hin. apply H2. apply in_map_iff in Hin as (y & Hy & Hin). apply filter_In in Hin as [Hin _].
  apply in_map_iff. eauto.
Qed.

(** ** Replay *)

Lemma replay_path_app p acc a b :
  replay_path p acc (a ++ b) = replay_path p (replay_path p acc a) b.
Proof.
  revert acc; induction a as [|r a IH]; intros acc; cbn; [reflexivity|]. destruct r; apply IH.
Qed.

Lemma replay_path_no_upd p rs :
  (forall p' v ts d, In (RUpd p' v ts d) rs -> p' <> p) -> replay_path p None rs = None.
Proof.
  induction rs as [|r rs IH]; intros H; cbn; [reflexivity|].
  destruct r as [p' v ts d|d ts|].
  - destruct (path_eqb p' p) eqn:E.
    + apply path_eqb_eq in E. exfalso. eapply H; [left; reflexivity|exact E].
    + apply IH. intros. eapply H. right. eassumption.
  - destruct (covers d p); apply IH; intros; eapply H; right; eassumption.
  - apply IH; intros; eapply H; right; eassumption.
Qed.

(** ** Strict hypotheses and the global invariant *)

Definition strict (h : hyps) : Prop := h_agree h = true.

Definition touches (st : state) (p : path) (it : item) : bool :=
  match it, item_pat st it with
  | ILeaf _, Some d => path_eqb d p
  | IDel _, Some d => covers d p
  | _, _ => false
  end.


Definition allfeed (st : state) : list item := List.concat (st_feeds st).

Record GInv (st : state) : Prop := {
  g_nodup : NoDup (map fst (st_tree st));
  g_leaf : forall p l, In (p, l) (st_tree st) -> leaf_path st l = Some p;
  g_ok : forall p l, In (p, l) (st_tree st) ->
           target_ok p = true /\ star_free p = true /\ agree_on st p = true;
  g_pfree : forall p1 l1 p2 l2, In (p1, l1) (st_tree st) -> In (p2, l2) (st_tree st) ->
              strict_prefix p1 p2 = false;
  g_feed_wf : forall f it, In f (st_feeds st) -> In it f ->
              it <> ISync /\ exists d, item_pat st it = Some d /\ target_ok d = true;
  g_feed_leaf : forall f l, In f (st_feeds st) -> In (ILeaf l) f ->
              exists p, leaf_path st l = Some p /\ tlookup p (st_tree st) = Some l;
  g_feed_del : forall f k d, In f (st_feeds st) -> In (IDel k) f -> item_pat st (IDel k) = Some d ->
              forall p l, In (p, l) (st_tree st) -> covers d p = false;
  g_feed_tgt : forall w w' it it', w <> w' ->
              In it (feed_of st w) -> In it' (feed_of st w') -> item_target st it <> item_target st it';
  g_feed_nodup : NoDup (allfeed st);
}.

Lemma agree_on_ext st st' p :
  map s_qs (st_subs st) = map s_qs (st_subs st') -> agree_on st p = agree_on st' p.
Proof.
  unfold agree_on. generalize (st_subs st) (st_subs st'). induction l as [|s l IH]; intros [|s' l']; cbn; try discriminate; auto.
  intros H. inversion H. rewrite H1. f_equal. auto.
Qed.

Lemma GInv_set_subs st ss :
  map s_qs ss = map s_qs (st_subs st) -> GInv st -> GInv (set_subs st ss).
Proof.
  intros Hq [a b c d e f g i j]. constructor; auto.
  intros p l H. destruct (c p l H) as (c1 & c2 & c3). repeat split; auto.
  rewrite <- c3. apply agree_on_ext. exact Hq.
Qed.

Lemma GInv_init nw subs : GInv (init nw subs).
Proof.
  assert (E : forall f (it : item), In f (repeat (@nil item) nw) -> In it f -> False).
  { intros f it Hf. apply repeat_spec in Hf. subst. auto. }
  constructor; cbn; try (intros; contradiction); try constructor.
  - intros; exfalso; eauto.
  - intros; exfalso; eauto.
  - intros; exfalso; eauto.
  - intros w w' it it' _ H. exfalso. unfold feed_of in H. cbn in H.
    destruct (nth_in_or_default w (repeat (@nil item) nw) []) as [Hin|Hd].
    + eauto.
    + rewrite Hd in H. contradiction.
  - unfold allfeed. cbn. clear E. induction nw; cbn; auto. constructor.
Qed.

(** ** Stability of the stores *)

Lemma leaf_path_upd lv l c l' :
  option_map fst (nth_error (upd_nth l (fun pc : path * (Z * Z) => (fst pc, c)) lv) l')
  = option_map fst (nth_error lv l').
Proof.
  destruct (Nat.eq_dec l l') as [->|Hn].
  - rewrite nth_error_upd_nth_eq. destruct (nth_error lv l'); reflexivity.
  - rewrite nth_error_upd_nth_neq by assumption. reflexivity.
Qed.

Lemma option_map_nth_app {A B} (f : A -> B) (l l' : list A) n y :
  option_map f (nth_error l n) = Some y -> option_map f (nth_error (l ++ l') n) = Some y.
Proof.
  destruct (nth_error l n) eqn:E; [|discriminate]. intros H.
  rewrite (nth_error_app_l _ _ _ _ E). exact H.
Qed.

Lemma covers_app_star d p : covers (d ++ [star]) p = true -> covers d p = true.
Proof.
  revert p; induction d as [|x d IH]; intros p H; [reflexivity|].
  destruct p as [|y p]; cbn in *.
  - apply andb_true_iff in H as [_ H]. destruct d; discriminate.
  - apply andb_true_iff in H as [H1 H2]. rewrite H1. cbn. auto.
Qed.

Lemma target_ok_app d x : target_ok d = true -> target_ok (d ++ x) = true.
Proof. destruct d; [discriminate|auto]. Qed.

Lemma target_of_app d x : target_ok d = true -> target_of (d ++ x) = target_of d.
Proof. destruct d; [discriminate|auto]. Qed.

Lemma In_reorder order v x : In x (reorder order v) -> In x v.
Proof.
  unfold reorder. rewrite in_app_iff, in_flat_map. intros [(p & _ & H)|H]; apply filter_In in H; tauto.
Qed.

Lemma In_set_feed st w f f0 : In f0 (set_feed st w f) -> In f0 (st_feeds st) \/ f0 = f.
Proof.
  unfold set_feed. intros H. apply In_upd_nth in H as [H|(x & _ & H)]; auto.
Qed.

Lemma feed_of_set_feed_eq st w f lv dl tr ss lk :
  (w < List.length (st_feeds st))%nat ->
  feed_of (mkState lv dl tr (set_feed st w f) ss lk) w = f.
Proof.
  intros H. unfold feed_of, set_feed. cbn.
  apply nth_error_nth. rewrite nth_error_upd_nth_eq.
  destruct (nth_error (st_feeds st) w) eqn:E; [reflexivity|]. apply nth_error_None in E. lia.
Qed.

Lemma feed_of_set_feed_neq st w w' f lv dl tr ss lk :
  w <> w' -> feed_of (mkState lv dl tr (set_feed st w f) ss lk) w' = feed_of st w'.
Proof.
  intros H. unfold feed_of, set_feed. cbn.
  destruct (nth_error (st_feeds st) w') eqn:E.
  - rewrite (nth_error_nth _ _ _ E). apply nth_error_nth. rewrite nth_error_upd_nth_neq; auto.
  - rewrite !nth_overflow; auto.
    + apply nth_error_None. exact E.
    + rewrite length_upd_nth. apply nth_error_None. exact E.
Qed.

Lemma feed_of_In st w it : In it (feed_of st w) -> In (feed_of st w) (st_feeds st).
Proof.
  unfold feed_of. intros H. destruct (nth_in_or_default w (st_feeds st) []) as [Hin|Hd]; auto.
  rewrite Hd in H. contradiction.
Qed.

Lemma In_feed_of st f : In f (st_feeds st) -> exists w, feed_of st w = f /\ (w < List.length (st_feeds st))%nat.
Proof.
  intros H. apply In_nth_error in H as [w H]. exists w. split.
  - unfold feed_of. apply nth_error_nth. exact H.
  - apply nth_error_Some. congruence.
Qed.



(** *** replacing one writer's pending list *)
Lemma concat_upd_nth {A} (fs : list (list A)) w f0 :
  nth_error fs w = Some f0 ->
  exists a b : list A, List.concat fs = (a ++ f0 ++ b)%list /\
              forall f, List.concat (upd_nth w (fun _ => f) fs) = (a ++ f ++ b)%list.
Proof.
  revert w; induction fs as [|g fs IH]; intros [|w] H; cbn in H; try discriminate.
  - inversion H; subst. exists [], (List.concat fs). split; [reflexivity|]. intros f. reflexivity.
  - destruct (IH _ H) as (a & b & E1 & E2). exists (g ++ a), b. split.
    + cbn. rewrite E1. rewrite app_assoc. reflexivity.
    + intros f. cbn. rewrite E2. rewrite app_assoc. reflexivity.
Qed.

Lemma feed_of_nth_error st w : (w < List.length (st_feeds st))%nat -> nth_error (st_feeds st) w = Some (feed_of st w).
Proof.
  intros H. unfold feed_of. destruct (nth_error (st_feeds st) w) eqn:E.
  - rewrite (nth_error_nth _ _ _ E). reflexivity.
  - apply nth_error_None in E. lia.
Qed.

Lemma In_concat_feed st it : In it (allfeed st) <-> exists w, In it (feed_of st w).
Proof.
  unfold allfeed. rewrite in_concat. split.
  - intros (f & Hf & Hit). destruct (In_feed_of _ _ Hf) as (w & <- & _). eauto.
  - intros (w & Hw). exists (feed_of st w). split; auto. eapply feed_of_In; eauto.
Qed.

Lemma NoDup_insert {A} (a f b : list A) :
  NoDup (a ++ b) -> NoDup f -> (forall x, In x f -> ~ In x (a ++ b)) -> NoDup (a ++ f ++ b).
Proof.
  intros H1 H2 H3.
  apply (Permutation_NoDup (l := f ++ (a ++ b))).
  - rewrite !app_assoc. apply Permutation_app_tail. apply Permutation_app_comm.
  - apply NoDup_app_intro; auto.
Qed.

Lemma NoDup_remove_mid {A} (a f b : list A) : NoDup (a ++ f ++ b) -> NoDup (a ++ b).
Proof.
  intros H. apply (Permutation_NoDup (l' := f ++ (a ++ b))) in H.
  - induction f; cbn in *; auto. inversion H; auto.
  - rewrite !app_assoc. apply Permutation_app_tail. apply Permutation_app_comm.
Qed.

Definition ext (st st' : state) : Prop :=
  forall it d, item_pat st it = Some d -> item_pat st' it = Some d.

Lemma ext_target st st' it d : ext st st' -> item_pat st it = Some d -> item_target st' it = item_target st it.
Proof. intros E H. unfold item_target. rewrite H, (E _ _ H). reflexivity. Qed.

Lemma feed_of_lt st w it : In it (feed_of st w) -> (w < List.length (st_feeds st))%nat.
Proof.
  unfold feed_of. intros Hin. destruct (Nat.lt_ge_cases w (List.length (st_feeds st))); auto.
  rewrite nth_overflow in Hin by assumption. contradiction.
Qed.

(** the target bookkeeping of a write by writer [w] on target [t] *)
Lemma feed_tgt_set st lv dl tr ss lk w f t :
  let st' := mkState lv dl tr (set_feed st w f) ss lk in
  ext st st' ->
  (forall f0 it, In f0 (st_feeds st) -> In it f0 -> exists d, item_pat st it = Some d) ->
  (forall it, In it f -> item_target st' it = Some t) ->
  (forall w' it, w' <> w -> In it (feed_of st w') -> item_target st it <> Some t) ->
  (forall w1 w2 it it', w1 <> w2 -> In it (feed_of st w1) -> In it' (feed_of st w2) ->
      item_target st it <> item_target st it') ->
  forall w1 w2 it it', w1 <> w2 -> In it (feed_of st' w1) -> In it' (feed_of st' w2) ->
      item_target st' it <> item_target st' it'.
Proof.
  intros st' E Hwf Hf Hother Hold w1 w2 it it' Hne H1 H2.
  assert (K : forall w' it, w' <> w -> In it (feed_of st' w') ->
              In it (feed_of st w') /\ item_target st' it = item_target st it).
  { intros w' x Hw Hx. unfold st' in Hx. rewrite feed_of_set_feed_neq in Hx by auto. split; auto.
    destruct (Hwf _ _ (feed_of_In _ _ _ Hx) Hx) as [d Hd]. eapply ext_target; eauto. }
  assert (L : forall it, In it (feed_of st' w) -> item_target st' it = Some t).
  { intros x Hx. apply Hf. unfold st' in Hx.
    destruct (Nat.lt_ge_cases w (List.length (st_feeds st))).
    - rewrite feed_of_set_feed_eq in Hx; auto.
    - unfold feed_of in Hx. cbn in Hx. rewrite nth_overflow in Hx; [contradiction|].
      unfold set_feed. rewrite length_upd_nth. assumption. }
  destruct (Nat.eq_dec w1 w) as [->|N1]; destruct (Nat.eq_dec w2 w) as [->|N2]; try congruence.
  - rewrite (L _ H1). destruct (K _ _ N2 H2) as [K1 K2]. rewrite K2. intros X.
    apply (Hother w2 it' N2 K1). symmetry. exact X.
  - rewrite (L _ H2). destruct (K _ _ N1 H1) as [K1 K2]. rewrite K2. apply (Hother w1 it N1 K1).
  - destruct (K _ _ N1 H1) as [K1 K2]. destruct (K _ _ N2 H2) as [K3 K4]. rewrite K2, K4.
    apply (Hold w1 w2); auto.
Qed.


Lemma nth_error_feed_of st w f : nth_error (st_feeds st) w = Some f -> feed_of st w = f.
Proof. intros H. unfold feed_of. apply nth_error_nth. exact H. Qed.

(** the pending lists after writer [w] (whose list was empty) got [f] *)
Lemma allfeed_set_feed st w f :
  nth_error (st_feeds st) w = Some [] ->
  exists a b, allfeed st = a ++ b /\ List.concat (set_feed st w f) = a ++ f ++ b.
Proof.
  intros H. destruct (concat_upd_nth _ _ _ H) as (a & b & E1 & E2). exists a, b. split; [exact E1|].
  unfold set_feed. apply E2.
Qed.

Lemma NoDup_set_feed st w f :
  nth_error (st_feeds st) w = Some [] -> NoDup (allfeed st) -> NoDup f ->
  (forall x, In x f -> ~ In x (allfeed st)) ->
  NoDup (List.concat (set_feed st w f)).
Proof.
  intros H N1 N2 N3. destruct (allfeed_set_feed st w f H) as (a & b & E1 & E2).
  rewrite E2. apply NoDup_insert; try rewrite <- E1; auto.
Qed.

Lemma wf_exists st : GInv st -> forall f0 it, In f0 (st_feeds st) -> In it f0 -> exists d, item_pat st it = Some d.
Proof. intros G f0 it H1 H2. destruct (g_feed_wf _ G _ _ H1 H2) as (_ & d & Hd & _). eauto. Qed.

Lemma tlookup_leaf st p l : GInv st -> tlookup p (st_tree st) = Some l -> leaf_path st l = Some p.
Proof. intros G H. apply (g_leaf _ G). apply tlookup_In. exact H. Qed.

(** *** update of an existing leaf *)
Lemma GInv_upd_existing st w p l c f :
  GInv st -> nth_error (st_feeds st) w = Some [] -> tlookup p (st_tree st) = Some l ->
  (f = [] \/ f = [ILeaf l]) ->
  (forall w' it, w' <> w -> In it (feed_of st w') -> item_target st it <> Some (target_of p)) ->
  GInv (mkState (upd_nth l (fun pc => (fst pc, c)) (st_leaves st)) (st_dels st) (st_tree st)
                (set_feed st w f) (st_subs st) (st_locks st)).
Proof.
  intros G Hnth Hl Hf Hother.
  set (st' := mkState _ _ _ _ _ _).
  assert (LP : forall l', leaf_path st' l' = leaf_path st l').
  { intros l'. unfold leaf_path, st'. cbn. apply leaf_path_upd. }
  assert (IP : forall it, item_pat st' it = item_pat st it).
  { intros [l'|k|]; cbn; auto. }
  assert (E : ext st st') by (intros it d; rewrite IP; auto).
  assert (Hpl : leaf_path st l = Some p) by (eapply tlookup_leaf; eauto).
  assert (Hin : In (p, l) (st_tree st)) by (apply tlookup_In; auto).
  constructor; cbn.
  - apply (g_nodup _ G).
  - intros p0 l0 H. rewrite LP. apply (g_leaf _ G); auto.
  - intros p0 l0 H. destruct (g_ok _ G _ _ H) as (a & b & c0). repeat split; auto.
  - apply (g_pfree _ G).
  - intros f0 it H1 H2. rewrite IP. apply In_set_feed in H1 as [H1| ->].
    + eapply (g_feed_wf _ G); eauto.
    + destruct Hf as [->| ->]; [contradiction|]. destruct H2 as [<-|[]]. split; [discriminate|].
      exists p. split; [exact Hpl|]. apply (g_ok _ G _ _ Hin).
  - intros f0 l0 H1 H2. rewrite LP. apply In_set_feed in H1 as [H1| ->].
    + eapply (g_feed_leaf _ G); eauto.
    + destruct Hf as [->| ->]; [contradiction|]. destruct H2 as [[= <-]|[]]. eauto.
  - intros f0 k d H1 H2. try rewrite IP. apply In_set_feed in H1 as [H1| ->].
    + eapply (g_feed_del _ G); eauto.
    + destruct Hf as [->| ->]; [contradiction|]. destruct H2 as [?|[]]. discriminate.
  - apply (feed_tgt_set st _ _ _ _ _ w f (target_of p)); auto.
    + apply wf_exists; auto.
    + intros it Hit. destruct Hf as [->| ->]; [contradiction|]. destruct Hit as [<-|[]].
      unfold item_target. rewrite IP. cbn. rewrite Hpl. reflexivity.
    + apply (g_feed_tgt _ G).
  - unfold allfeed; cbn. apply NoDup_set_feed; auto; [apply (g_feed_nodup _ G)| |].
    + destruct Hf as [->| ->]; repeat constructor; auto.
    + intros x Hx Hin'. destruct Hf as [->| ->]; [contradiction|]. destruct Hx as [<-|[]].
      apply In_concat_feed in Hin' as (w' & Hw').
      assert (w' <> w) by (intros ->; rewrite (nth_error_feed_of _ _ _ Hnth) in Hw'; contradiction).
      apply (Hother w' (ILeaf l)); auto. unfold item_target. cbn. rewrite Hpl. reflexivity.
Qed.

(** *** a new leaf *)
Lemma GInv_new_leaf st w p c :
  GInv st -> nth_error (st_feeds st) w = Some [] -> tlookup p (st_tree st) = None -> conflicts st p = false ->
  target_ok p = true -> star_free p = true -> agree_on st p = true ->
  (forall w' it, w' <> w -> In it (feed_of st w') -> item_target st it <> Some (target_of p)) ->
  GInv (mkState (st_leaves st ++ [(p, c)]) (st_dels st) (st_tree st ++ [(p, List.length (st_leaves st))])
                (set_feed st w [ILeaf (List.length (st_leaves st))]) (st_subs st) (st_locks st)).
Proof.
  intros G Hnth Hl Hc Ht Hs Ha Hother.
  assert (Hempty := nth_error_feed_of _ _ _ Hnth).
  set (l := List.length (st_leaves st)). set (st' := mkState _ _ _ _ _ _).
  assert (LPn : leaf_path st' l = Some p).
  { unfold leaf_path, st', l. cbn. rewrite nth_error_app2 by lia. rewrite Nat.sub_diag. reflexivity. }
  assert (E : ext st st').
  { intros [l'|k|] d; cbn; auto. unfold leaf_path. cbn. apply option_map_nth_app. }
  constructor; cbn.
  - rewrite map_app. cbn. apply NoDup_app_intro_single; [apply (g_nodup _ G)|].
    apply tlookup_None. exact Hl.
  - intros p0 l0 H. apply in_app_iff in H as [H|[[= <- <-]|[]]]; [|exact LPn].
    apply (E (ILeaf l0)). cbn. apply (g_leaf _ G); auto.
  - intros p0 l0 H. apply in_app_iff in H as [H|[[= <- <-]|[]]]; [apply (g_ok _ G _ _ H)|auto].
  - intros p1 l1 p2 l2 H1 H2.
    unfold conflicts in Hc.
    assert (Hc' : forall pl, In pl (st_tree st) -> strict_prefix (fst pl) p = false /\ strict_prefix p (fst pl) = false).
    { intros pl Hin. destruct (strict_prefix (fst pl) p || strict_prefix p (fst pl)) eqn:X.
      - exfalso. assert (existsb (fun pl => strict_prefix (fst pl) p || strict_prefix p (fst pl)) (st_tree st) = true)
          by (apply existsb_exists; eauto). congruence.
      - apply orb_false_iff in X. exact X. }
    apply in_app_iff in H1 as [H1|[[= <- <-]|[]]]; apply in_app_iff in H2 as [H2|[[= <- <-]|[]]].
    + eapply (g_pfree _ G); eauto.
    + apply (Hc' _ H1).
    + apply (Hc' _ H2).
    + unfold strict_prefix. rewrite path_eqb_refl, andb_false_r. reflexivity.
  - intros f0 it H1 H2. apply In_set_feed in H1 as [H1| ->].
    + destruct (g_feed_wf _ G _ _ H1 H2) as (a & d & Hd & b). split; auto. exists d. split; auto.
    + destruct H2 as [<-|[]]. split; [discriminate|]. exists p. split; auto.
  - intros f0 l0 H1 H2. apply In_set_feed in H1 as [H1| ->].
    + destruct (g_feed_leaf _ G _ _ H1 H2) as (p0 & Hp0 & Ht0). exists p0. split.
      * apply (E (ILeaf l0)). exact Hp0.
      * rewrite tlookup_app, Ht0. reflexivity.
    + destruct H2 as [[= <-]|[]]. exists p. split; [exact LPn|]. rewrite tlookup_app, Hl. cbn.
      rewrite path_eqb_refl. reflexivity.
  - intros f0 k d H1 H2 Hd p0 l0 H0. apply In_set_feed in H1 as [H1| ->]; [|destruct H2 as [?|[]]; discriminate].
    apply in_app_iff in H0 as [H0|[[= <- <-]|[]]]; [eapply (g_feed_del _ G); eauto|].
    destruct (covers d p) eqn:X; [|reflexivity]. exfalso.
    destruct (g_feed_wf _ G _ _ H1 H2) as (_ & d' & Hd' & Hok). cbn in Hd, Hd'. rewrite Hd in Hd'. inversion Hd'; subst d'.
    destruct (In_feed_of _ _ H1) as (w' & Hw' & _).
    assert (w' <> w).
    { intros ->. rewrite Hempty in Hw'. subst f0. contradiction. }
    eapply (Hother w' (IDel k)); auto.
    + rewrite Hw'. exact H2.
    + unfold item_target. cbn. cbn in Hd. rewrite Hd. cbn. f_equal. apply covers_target; auto.
  - apply (feed_tgt_set st _ _ _ _ _ w _ (target_of p)); auto.
    + apply wf_exists; auto.
    + intros it [<-|[]]. unfold item_target. cbn. fold l. change (leaf_path st' l) with (leaf_path st' l).
      unfold st' in LPn. rewrite LPn. reflexivity.
    + apply (g_feed_tgt _ G).
  - unfold allfeed; cbn. apply NoDup_set_feed; auto; [apply (g_feed_nodup _ G)|repeat constructor; auto|].
    intros x [<-|[]] Hin. unfold allfeed in Hin. apply in_concat in Hin as (f0 & Hf0 & Hin).
    destruct (g_feed_leaf _ G _ _ Hf0 Hin) as (p0 & Hp0 & _).
    unfold leaf_path in Hp0. destruct (nth_error (st_leaves st) l) eqn:X; [|discriminate].
    assert (l < List.length (st_leaves st))%nat by (apply nth_error_Some; congruence). unfold l in *. lia.
Qed.

(** *** deletes *)
Lemma In_remove_paths vs t x : In x (remove_paths vs t) ->
  In x t /\ forall y, In y vs -> fst y <> fst x.
Proof.
  unfold remove_paths. intros H. apply filter_In in H as [H1 H2]. split; auto.
  intros y Hy E. apply negb_true_iff in H2.
  assert (existsb (fun x0 => path_eqb (fst x0) (fst x)) vs = true).
  { apply existsb_exists. exists y. split; auto. apply path_eqb_eq. exact E. }
  congruence.
Qed.

Lemma tlookup_remove_paths vs t p :
  tlookup p (remove_paths vs t) = if existsb (fun x => path_eqb (fst x) p) vs then None else tlookup p t.
Proof.
  unfold remove_paths.
  rewrite (tlookup_filter_fst (fun q => negb (existsb (fun x => path_eqb (fst x) q) vs))).
  destruct (existsb _ vs); reflexivity.
Qed.

Lemma In_map_IDel_seq k k0 n : In (IDel k) (map IDel (seq k0 n)) -> (k0 <= k < k0 + n)%nat.
Proof. intros H. apply in_map_iff in H as (x & [= ->] & H). apply in_seq in H. exact H. Qed.

Lemma GInv_delete st w vs nd t :
  GInv st -> nth_error (st_feeds st) w = Some [] ->
  (forall x, In x vs -> In x (st_tree st) /\ target_of (fst x) = t) ->
  (forall d ts, In (d, ts) nd -> target_ok d = true /\ target_of d = t /\
      forall p l, In (p, l) (remove_paths vs (st_tree st)) -> covers d p = false) ->
  (forall w' it, w' <> w -> In it (feed_of st w') -> item_target st it <> Some t) ->
  GInv (mkState (st_leaves st) (st_dels st ++ nd) (remove_paths vs (st_tree st))
                (set_feed st w (map IDel (seq (List.length (st_dels st)) (List.length nd)))) (st_subs st) (st_locks st)).
Proof.
  intros G Hnth Hvs Hnd Hother.
  assert (Hempty := nth_error_feed_of _ _ _ Hnth).
  set (st' := mkState _ _ _ _ _ _).
  assert (E : ext st st').
  { intros [l'|k|] d; cbn; auto. apply option_map_nth_app. }
  assert (NEW : forall k, In (IDel k) (map IDel (seq (List.length (st_dels st)) (List.length nd))) ->
            exists d ts, In (d, ts) nd /\ item_pat st' (IDel k) = Some d).
  { intros k Hk. apply In_map_IDel_seq in Hk. cbn.
    rewrite nth_error_app2 by lia.
    destruct (nth_error nd (k - List.length (st_dels st))) as [[d ts]|] eqn:X.
    - exists d, ts. split; [eapply nth_error_In; eauto|reflexivity].
    - apply nth_error_None in X. lia. }
  assert (OLDW : forall f0 it, In f0 (st_feeds st) -> In it f0 -> exists w', w' <> w /\ feed_of st w' = f0).
  { intros f0 it H1 H2. destruct (In_feed_of _ _ H1) as (w' & Hw' & _). exists w'. split; auto.
    intros ->. rewrite Hempty in Hw'. subst. contradiction. }
  constructor; cbn.
  - apply NoDup_map_fst_filter. apply (g_nodup _ G).
  - intros p l H. apply In_remove_paths in H as [H _]. apply (g_leaf _ G); auto.
  - intros p l H. apply In_remove_paths in H as [H _]. apply (g_ok _ G _ _ H).
  - intros p1 l1 p2 l2 H1 H2. apply In_remove_paths in H1 as [H1 _]. apply In_remove_paths in H2 as [H2 _].
    eapply (g_pfree _ G); eauto.
  - intros f0 it H1 H2. apply In_set_feed in H1 as [H1| ->].
    + destruct (g_feed_wf _ G _ _ H1 H2) as (a & d & Hd & b). split; auto. exists d. split; auto.
    + split; [intros ->; apply in_map_iff in H2 as (? & ? & _); discriminate|].
      destruct it as [l|k|]; try (apply in_map_iff in H2 as (? & ? & _); discriminate).
      destruct (NEW _ H2) as (d & ts & Hin & Hp). exists d. split; auto. apply (Hnd _ _ Hin).
  - intros f0 l0 H1 H2. apply In_set_feed in H1 as [H1| ->];
      [|apply in_map_iff in H2 as (? & ? & _); discriminate].
    destruct (g_feed_leaf _ G _ _ H1 H2) as (p0 & Hp0 & Ht0). exists p0. split; [exact Hp0|].
    rewrite tlookup_remove_paths.
    destruct (existsb (fun x => path_eqb (fst x) p0) vs) eqn:X; [|exact Ht0]. exfalso.
    apply existsb_exists in X as (x & Hx & Hxe). apply path_eqb_eq in Hxe.
    destruct (OLDW _ _ H1 H2) as (w' & Hw' & Hf0).
    apply (Hother w' (ILeaf l0) Hw'); [rewrite Hf0; exact H2|].
    unfold item_target. cbn. rewrite Hp0. cbn. f_equal. rewrite <- Hxe. apply (Hvs _ Hx).
  - intros f0 k d H1 H2 Hd p l H0. apply In_set_feed in H1 as [H1| ->].
    + apply In_remove_paths in H0 as [H0 _].
      destruct (g_feed_wf _ G _ _ H1 H2) as (_ & d' & Hd' & _).
      assert (Hd'' := E _ _ Hd'). cbn in Hd, Hd''. rewrite Hd in Hd''. inversion Hd''; subst d'.
      eapply (g_feed_del _ G); eauto.
    + destruct (NEW _ H2) as (d' & ts & Hin & Hp). cbn in Hd, Hp. rewrite Hd in Hp. inversion Hp; subst d'.
      eapply (Hnd _ _ Hin); eauto.
  - apply (feed_tgt_set st _ _ _ _ _ w _ t); auto.
    + apply wf_exists; auto.
    + intros it Hit. destruct it as [l|k|]; try (apply in_map_iff in Hit as (? & ? & _); discriminate).
      destruct (NEW _ Hit) as (d & ts & Hin & Hp). unfold item_target. fold st'. rewrite Hp. cbn. f_equal.
      apply (Hnd _ _ Hin).
    + apply (g_feed_tgt _ G).
  - unfold allfeed; cbn. apply NoDup_set_feed; auto; [apply (g_feed_nodup _ G)| |].
    + apply FinFun.Injective_map_NoDup; [intros x y [= ->]; reflexivity|apply seq_NoDup].
    + intros x Hx Hin. destruct x as [l|k|]; try (apply in_map_iff in Hx as (? & ? & _); discriminate).
      apply In_map_IDel_seq in Hx. unfold allfeed in Hin. apply in_concat in Hin as (f0 & Hf0 & Hin).
      destruct (g_feed_wf _ G _ _ Hf0 Hin) as (_ & d & Hd & _). cbn in Hd.
      destruct (nth_error (st_dels st) k) eqn:X; [|discriminate].
      assert (k < List.length (st_dels st))%nat by (apply nth_error_Some; congruence). lia.
Qed.

Lemma leaf_cont_of_path st l p : leaf_path st l = Some p -> exists c, leaf_cont st l = Some c.
Proof. unfold leaf_path, leaf_cont. destruct (nth_error (st_leaves st) l) as [[a b]|]; cbn; [eauto|discriminate]. Qed.

Lemma In_victims st d cond x :
  In x (victims st d cond) -> In x (st_tree st) /\ covers d (fst x) = true.
Proof. unfold victims. intros H. apply filter_In in H as [H1 H2]. apply andb_true_iff in H2 as [H2 _]. auto. Qed.

Lemma is_prefix_cases p q : is_prefix p q = true -> p = q \/ strict_prefix p q = true.
Proof.
  intros H. unfold strict_prefix. rewrite H. cbn. destruct (path_eqb p q) eqn:E; [left; apply path_eqb_eq; auto|right; reflexivity].
Qed.

Lemma write_GInv h st w o st' r :
  strict h -> GInv st -> nth_error (st_feeds st) w = Some [] ->
  (forall w' it, w' <> w -> In it (feed_of st w') -> item_target st it <> Some (wop_target o)) ->
  write h st w o = Some (st', r) -> GInv st'.
Proof.
  intros Hag G Hempty Hother Hw. unfold strict in Hag.
  destruct o as [p v ts|d ts order|d]; cbn in Hw, Hother.
  - destruct (target_ok p && star_free p) eqn:Hok; cbn in Hw; [|discriminate].
    apply andb_true_iff in Hok as [Hok1 Hok2].
    destruct (Nat.eqb (List.length p) 1); cbn in Hw; [discriminate|].
    rewrite Hag in Hw. cbn in Hw.
    destruct (agree_on st p) eqn:Hagp; cbn in Hw; [|discriminate].
    destruct (tlookup p (st_tree st)) as [l|] eqn:Hl.
    + destruct (leaf_cont st l) as [[v0 ts0]|]; [|discriminate].
      destruct (ts <? ts0); [inversion Hw; subst; exact G|].
      destruct ((ts =? ts0) && (v =? v0)); [inversion Hw; subst; exact G|].
      inversion Hw; subst. apply (GInv_upd_existing st w p l (v, ts)); auto.
      destruct (h_ed h && (v =? v0)); auto.
    + destruct (conflicts st p) eqn:Hc; [inversion Hw; subst; exact G|].
      inversion Hw; subst. apply GInv_new_leaf; auto.
  - destruct (target_ok d) eqn:Hok; cbn in Hw; [|discriminate].
    destruct (tree_locked st (target_of d)); [discriminate|].
    inversion Hw; subst. clear Hw.
    set (vs := reorder order (victims st d (fun c => snd c <? ts))).
    replace (List.length vs) with (List.length (map (fun pl : path * nat => (fst pl, ts)) vs)) by apply map_length.
    assert (Hvs : forall x, In x vs -> In x (st_tree st) /\ covers d (fst x) = true).
    { intros x Hx. apply In_reorder in Hx. eapply In_victims; eauto. }
    apply (GInv_delete st w vs _ (target_of d)); auto.
    + intros x Hx. destruct (Hvs _ Hx) as [H1 H2]. split; auto. symmetry. apply covers_target; auto.
    + intros d0 ts0 Hin. apply in_map_iff in Hin as ([pv lv] & [= <- <-] & Hin). cbn.
      destruct (Hvs _ Hin) as [H1 H2]. cbn in H2.
      destruct (g_ok _ G _ _ H1) as (a & b & _). split; auto. split; [symmetry; apply covers_target; auto|].
      intros p l Hpl. apply In_remove_paths in Hpl as [Hpl Hne].
      rewrite covers_star_free by assumption.
      destruct (is_prefix pv p) eqn:X; [|reflexivity]. exfalso.
      apply is_prefix_cases in X as [->|X].
      * apply (Hne _ Hin). reflexivity.
      * rewrite (g_pfree _ G _ _ _ _ H1 Hpl) in X. discriminate.
  - destruct (target_ok d && star_free d) eqn:Hok; cbn in Hw; [|discriminate].
    apply andb_true_iff in Hok as [Hok Hsf].
    destruct (tree_locked st (target_of d)); [discriminate|].
    inversion Hw; subst. clear Hw.
    set (vs := victims st d (fun _ => true)).
    apply (GInv_delete st w vs [(d ++ [star], 0)] (target_of d)); auto.
    + intros x Hx. apply In_victims in Hx as [H1 H2]. split; auto. symmetry. apply covers_target; auto.
    + intros d0 ts0 [[= <- <-]|[]]. split; [apply target_ok_app; auto|]. split; [apply target_of_app; auto|].
      intros p l Hpl. apply In_remove_paths in Hpl as [Hpl Hne].
      destruct (covers (d ++ [star]) p) eqn:X; [|reflexivity]. exfalso.
      apply covers_app_star in X.
      apply (Hne (p, l)); [|reflexivity].
      unfold vs, victims. apply filter_In. split; auto. cbn. rewrite X. cbn.
      destruct (leaf_cont_of_path _ _ _ (g_leaf _ G _ _ Hpl)) as [c ->]. reflexivity.
Qed.

(** ** The per-subscriber invariant *)

Definition infl_list (sb : sub) : list item := match s_infl sb with Some (it, _) => [it] | None => [] end.
Definition iq (sb : sub) : list item := infl_list sb ++ qitems (s_queue sb).
Definition so (sb : sub) : list resp := s_sent sb ++ out_list sb.
Definition reg_match (sb : sub) (p : path) : bool := existsb (fun q => compat q p) (regq sb).
Definition is_del (it : item) : bool := match it with IDel _ => true | _ => false end.

Definition walk_pending (sb : sub) (p : path) (l : nat) : Prop :=
  s_uo sb = false /\
  match s_pc sb with
  | SReg _ => True
  | SGap k => exists j q, (k <= j)%nat /\ nth_error (s_qs sb) j = Some q /\ covers q p = true
  | SWalk k todo =>
      (exists j q, (k < j)%nat /\ nth_error (s_qs sb) j = Some q /\ covers q p = true)
      \/ (exists q, nth_error (s_qs sb) k = Some q /\ covers q p = true /\ In l todo)
  | SDone => False
  end.

Definition conv (h : hyps) (st : state) (sb : sub) (p : path) : Prop :=
  let IQp := filter (touches st p) (iq sb) in
  let FP := filter (touches st p) (allfeed st) in
  match tlookup p (st_tree st) with
  | Some l =>
      In (ILeaf l) (iq sb ++ allfeed st)
      \/ (IQp = [] /\ FP = [] /\ exists c c', leaf_cont st l = Some c /\
            replay_path p None (so sb) = Some c' /\ proj h c' = proj h c)
      \/ walk_pending sb p l
      \/ (s_uo sb = true /\ forallb is_del IQp = true /\ FP = [] /\ replay_path p None (so sb) = None)
  | None =>
      (FP <> [] \/ exists Y k, IQp = Y ++ [IDel k])
      \/ (IQp = [] /\ FP = [] /\ replay_path p None (so sb) = None)
  end.

Record SInv (h : hyps) (st : state) (sb : sub) : Prop := {
  s_excl : s_infl sb <> None -> s_out sb = None;
  s_wf : forall it, In it (iq sb) -> it = ISync \/ exists d, item_pat st it = Some d;
  s_regm1 : forall l p, In (ILeaf l) (iq sb) -> leaf_path st l = Some p -> reg_match sb p = true;
  s_regm2 : forall p v ts d, In (RUpd p v ts d) (so sb) -> reg_match sb p = true;
  s_fresh : forall k, In (IDel k) (iq sb) -> ~ In (IDel k) (allfeed st);
  s_ord : forall p l, tlookup p (st_tree st) = Some l ->
            exists X m, filter (touches st p) (iq sb) = X ++ repeat (ILeaf l) m /\ ~ In (ILeaf l) X;
  s_conv : forall p, reg_match sb p = true -> conv h st sb p;
}.

Definition Inv (h : hyps) (st : state) : Prop :=
  GInv st /\ forall i sb, nth_error (st_subs st) i = Some sb -> s_end sb = false -> SInv h st sb.

(** *** facts about the pending lists *)

Lemma touches_pat st p it : touches st p it = true -> exists d, item_pat st it = Some d.
Proof. unfold touches. destruct it; destruct (item_pat st _); eauto; discriminate. Qed.

Lemma feed_touch_attached st p l it :
  GInv st -> tlookup p (st_tree st) = Some l -> In it (allfeed st) -> touches st p it = true -> it = ILeaf l.
Proof.
  intros G Hl Hin Ht. unfold allfeed in Hin. apply in_concat in Hin as (f & Hf & Hin).
  destruct it as [l'|k|]; [| |discriminate].
  - destruct (g_feed_leaf _ G _ _ Hf Hin) as (p' & Hp' & Ht').
    unfold touches in Ht. cbn in Ht. rewrite Hp' in Ht. apply path_eqb_eq in Ht. subst. congruence.
  - exfalso. unfold touches in Ht. destruct (item_pat st (IDel k)) eqn:X; [|discriminate].
    rewrite (g_feed_del _ G _ _ _ Hf Hin X _ _ (tlookup_In _ _ _ Hl)) in Ht. discriminate.
Qed.

Lemma feed_touch_absent st p it :
  GInv st -> tlookup p (st_tree st) = None -> In it (allfeed st) -> touches st p it = true -> is_del it = true.
Proof.
  intros G Hl Hin Ht. unfold allfeed in Hin. apply in_concat in Hin as (f & Hf & Hin).
  destruct it as [l'|k|]; [|reflexivity|discriminate].
  destruct (g_feed_leaf _ G _ _ Hf Hin) as (p' & Hp' & Ht').
  unfold touches in Ht. cbn in Ht. rewrite Hp' in Ht. apply path_eqb_eq in Ht. subst. congruence.
Qed.

(** an announcement that touches a path a subscriber is registered for is
    delivered to that subscriber *)
Lemma touch_delivered st sb p it d :
  reg_match sb p = true -> item_pat st it = Some d -> touches st p it = true -> mult sb d = 1%nat.
Proof.
  unfold reg_match, mult. intros Hr Hd Ht.
  apply existsb_exists in Hr as (q & Hq & Hc).
  assert (existsb (fun q => compat q d) (regq sb) = true) as ->; [|reflexivity].
  apply existsb_exists. exists q. split; auto.
  destruct it; unfold touches in Ht; try discriminate; rewrite Hd in Ht.
  - apply path_eqb_eq in Ht. subst. exact Hc.
  - eapply compat_covers; eauto.
Qed.

Lemma pending_touch st sb p :
  reg_match sb p = true ->
  filter (touches st p) (pending_feed st sb) = filter (touches st p) (allfeed st).
Proof.
  intros Hr. unfold pending_feed, allfeed. induction (st_feeds st) as [|f fs IH]; cbn [flat_map List.concat]; [reflexivity|].
  rewrite !filter_app, IH. f_equal.
  induction f as [|it f IHf]; cbn [filter]; [reflexivity|].
  destruct (touches st p it) eqn:Ht.
  - destruct (touches_pat _ _ _ Ht) as [d Hd]. rewrite Hd. rewrite (touch_delivered _ _ _ _ _ Hr Hd Ht).
    cbn [Nat.ltb Nat.leb filter]. rewrite Ht. f_equal. exact IHf.
  - destruct (item_pat st it) as [d|]; [|exact IHf]. destruct (0 <? mult sb d)%nat; cbn [filter]; [rewrite Ht|]; exact IHf.
Qed.

(** *** replaying materialised items *)

Lemma replay_mat_filter st p its acc :
  replay_path p acc (materialize st its) = replay_path p acc (materialize st (filter (touches st p) its)).
Proof.
  revert acc; induction its as [|it its IH]; intros acc; [reflexivity|].
  unfold materialize in *. cbn [flat_map filter].
  destruct (touches st p it) eqn:Ht.
  - cbn [flat_map]. rewrite !replay_path_app. rewrite IH. reflexivity.
  - rewrite replay_path_app, IH. f_equal.
    unfold touches in Ht. destruct it as [l|k|]; cbn.
    + unfold item_pat, leaf_path in Ht. destruct (nth_error (st_leaves st) l) as [[p' [v ts]]|]; cbn in *; [|reflexivity].
      rewrite Ht. reflexivity.
    + cbn in Ht. destruct (nth_error (st_dels st) k) as [[d ts]|]; cbn in *; [|reflexivity]. rewrite Ht. reflexivity.
    + reflexivity.
Qed.

Lemma materialize_app st a b : materialize st (a ++ b) = materialize st a ++ materialize st b.
Proof. unfold materialize. apply flat_map_app. Qed.

Lemma replay_last_leaf st p l c its acc :
  leaf_path st l = Some p -> leaf_cont st l = Some c ->
  replay_path p acc (materialize st (its ++ [ILeaf l])) = Some c.
Proof.
  intros Hp Hc. rewrite materialize_app, replay_path_app. cbn.
  unfold leaf_path, leaf_cont in *. destruct (nth_error (st_leaves st) l) as [[p' [v ts]]|]; cbn in *; [|discriminate].
  inversion Hp; inversion Hc; subst. rewrite path_eqb_refl. reflexivity.
Qed.

Lemma replay_last_del st p k its acc :
  touches st p (IDel k) = true ->
  replay_path p acc (materialize st (its ++ [IDel k])) = None.
Proof.
  intros Ht. rewrite materialize_app, replay_path_app. cbn.
  unfold touches in Ht. cbn in Ht. destruct (nth_error (st_dels st) k) as [[d ts]|]; cbn in *; [|discriminate].
  rewrite Ht. reflexivity.
Qed.

Lemma all_del_last (L : list item) :
  L <> [] -> (forall it, In it L -> is_del it = true) -> exists Y k, L = Y ++ [IDel k].
Proof.
  intros Hne H. destruct (exists_last Hne) as (Y & x & ->). exists Y.
  assert (Hx : is_del x = true) by (apply H; apply in_app_iff; right; left; reflexivity).
  destruct x; try discriminate. eauto.
Qed.

(** ** The invariant gives the statement *)

Lemma tail_items_iq st sb : tail_items st sb = iq sb ++ pending_feed st sb.
Proof. unfold tail_items, iq, infl_list, qitems. destruct (s_infl sb) as [[it d]|]; cbn; reflexivity. Qed.

Lemma repeat_snoc {A} (x : A) n : repeat x (S n) = repeat x n ++ [x].
Proof. induction n; cbn in *; [reflexivity|]. f_equal. exact IHn. Qed.

Lemma sub_matches_reg sb p : s_pc sb = SDone -> sub_matches sb p = true -> reg_match sb p = true.
Proof.
  unfold sub_matches, reg_match, regq. intros -> H. apply existsb_exists in H as (q & Hq & Hc).
  apply existsb_exists. exists q. split; auto. apply covers_compat. exact Hc.
Qed.

Lemma converged h st sb p :
  GInv st -> SInv h st sb -> reg_match sb p = true ->
  (match tlookup p (st_tree st) with Some l => ~ walk_pending sb p l | None => True end) ->
  option_map (proj h) (replay_path p None (full_stream st sb)) = option_map (proj h) (cache_at st p)
  \/ (s_uo sb = true /\ cache_at st p <> None /\ replay_path p None (full_stream st sb) = None).
Proof.
  intros G S Hr Hnw.
  unfold full_stream. rewrite app_assoc. fold (so sb). rewrite replay_path_app, replay_mat_filter.
  rewrite tail_items_iq, filter_app, (pending_touch _ _ _ Hr).
  assert (C := s_conv _ _ _ S _ Hr). unfold conv in C. unfold cache_at.
  destruct (tlookup p (st_tree st)) as [l|] eqn:Hl.
  - assert (Hlp : leaf_path st l = Some p) by (eapply tlookup_leaf; eauto).
    destruct (leaf_cont_of_path _ _ _ Hlp) as [c Hc]. rewrite Hc.
    destruct (s_ord _ _ _ S _ _ Hl) as (X & m & HX & HnX).
    assert (FPl : forall it, In it (filter (touches st p) (allfeed st)) -> it = ILeaf l).
    { intros it Hit. apply filter_In in Hit as [H1 H2]. eapply feed_touch_attached; eauto. }
    destruct C as [C|[C|[C|C]]].
    + (* the leaf is still to come: it is the last item touching p *)
      left.
      assert (exists L0, filter (touches st p) (iq sb) ++ filter (touches st p) (allfeed st) = L0 ++ [ILeaf l])
        as [L0 ->].
      { destruct (filter (touches st p) (allfeed st)) as [|x F] eqn:EF.
        - rewrite app_nil_r, HX. destruct m as [|m].
          + exfalso. apply in_app_iff in C as [C|C].
            * assert (In (ILeaf l) (filter (touches st p) (iq sb))).
              { apply filter_In. split; auto. unfold touches. cbn. rewrite Hlp. apply path_eqb_refl. }
              rewrite HX in H. cbn in H. rewrite app_nil_r in H. contradiction.
            * assert (In (ILeaf l) (filter (touches st p) (allfeed st))).
              { apply filter_In. split; auto. unfold touches. cbn. rewrite Hlp. apply path_eqb_refl. }
              rewrite EF in H. contradiction.
          + rewrite repeat_snoc, app_assoc. eauto.
        - destruct (exists_last (l := x :: F)) as (F0 & y & EF'); [discriminate|].
          rewrite EF'. assert (y = ILeaf l) as ->.
          { apply FPl. rewrite EF'. apply in_app_iff. right. left. reflexivity. }
          rewrite app_assoc. eauto. }
      rewrite (replay_last_leaf _ _ _ _ _ _ Hlp Hc). reflexivity.
    + left. destruct C as (E1 & E2 & c0 & c' & Hc0 & Hrep & Hpr). rewrite E1, E2. cbn.
      rewrite Hrep. cbn. rewrite Hc in Hc0. inversion Hc0; subst. rewrite Hpr. reflexivity.
    + contradiction.
    + right. destruct C as (C1 & C2 & C3 & C4). split; auto. split; [discriminate|].
      rewrite C3, app_nil_r.
      destruct (filter (touches st p) (iq sb)) as [|y Q] eqn:EQ; [cbn; exact C4|].
      destruct (all_del_last (y :: Q)) as (Y & k & EY); [discriminate| |].
      * intros it Hit. rewrite forallb_forall in C2. apply C2. exact Hit.
      * rewrite EY. apply replay_last_del.
        assert (In (IDel k) (filter (touches st p) (iq sb))) by (rewrite EQ, EY; apply in_app_iff; right; left; reflexivity).
        apply filter_In in H. tauto.
  - left. destruct C as [[C|C]|C].
    + assert (exists Y k, filter (touches st p) (iq sb) ++ filter (touches st p) (allfeed st) = Y ++ [IDel k]
                          /\ touches st p (IDel k) = true) as (Y & k & -> & Hk).
      { destruct (all_del_last (filter (touches st p) (allfeed st)) C) as (Y & k & EY).
        - intros it Hit. apply filter_In in Hit as [H1 H2]. eapply feed_touch_absent; eauto.
        - exists (filter (touches st p) (iq sb) ++ Y), k. rewrite EY, app_assoc. split; auto.
          assert (In (IDel k) (filter (touches st p) (allfeed st))) by (rewrite EY; apply in_app_iff; right; left; reflexivity).
          apply filter_In in H. tauto. }
      rewrite (replay_last_del _ _ _ _ _ Hk). reflexivity.
    + destruct C as (Y & k & EY).
      destruct (filter (touches st p) (allfeed st)) as [|x F] eqn:EF.
      * rewrite app_nil_r, EY.
        assert (Hk : touches st p (IDel k) = true).
        { assert (In (IDel k) (filter (touches st p) (iq sb))) by (rewrite EY; apply in_app_iff; right; left; reflexivity).
          apply filter_In in H. tauto. }
        rewrite (replay_last_del _ _ _ _ _ Hk). reflexivity.
      * assert (exists Y' k', filter (touches st p) (iq sb) ++ x :: F = Y' ++ [IDel k']
                          /\ touches st p (IDel k') = true) as (Y' & k' & -> & Hk).
        { destruct (all_del_last (x :: F)) as (Y' & k' & EY'); [discriminate| |].
          - intros it Hit. rewrite <- EF in Hit. apply filter_In in Hit as [H1 H2]. eapply feed_touch_absent; eauto.
          - exists (filter (touches st p) (iq sb) ++ Y'), k'. rewrite EY', app_assoc. split; auto.
            assert (In (IDel k') (filter (touches st p) (allfeed st))) by (rewrite EF, EY'; apply in_app_iff; right; left; reflexivity).
            apply filter_In in H. tauto. }
        rewrite (replay_last_del _ _ _ _ _ Hk). reflexivity.
    + destruct C as (E1 & E2 & Hrep). rewrite E1, E2. cbn. rewrite Hrep. reflexivity.
Qed.

(** ** Preservation: framing *)

Lemma SInv_frame h st st' sb :
  st_leaves st' = st_leaves st -> st_dels st' = st_dels st -> st_tree st' = st_tree st ->
  st_feeds st' = st_feeds st -> SInv h st sb -> SInv h st' sb.
Proof.
  destruct st as [a b c d e f0], st' as [a' b' c' d' e' f0']. cbn. intros -> -> -> -> H.
  destruct H as [H1 H2 H3 H4 H5 H6 H7]. constructor; assumption.
Qed.

Lemma map_upd_nth_same {A B} (f : A -> B) s x y (l : list A) :
  nth_error l s = Some x -> f y = f x -> map f (upd_nth s (fun _ => y) l) = map f l.
Proof.
  revert s; induction l as [|a l IH]; intros [|s] H E; cbn in *; try discriminate.
  - inversion H; subst. rewrite E. reflexivity.
  - f_equal. auto.
Qed.

Lemma Inv_sub_step h st s sb sb' :
  Inv h st -> nth_error (st_subs st) s = Some sb -> s_qs sb' = s_qs sb ->
  (s_end sb' = false -> s_end sb = false) ->
  (SInv h st sb -> s_end sb' = false -> SInv h st sb') ->
  Inv h (set_subs st (upd_nth s (fun _ => sb') (st_subs st))).
Proof.
  intros [G S] Hs Hq He Hstep. split.
  - apply GInv_set_subs; auto. apply (map_upd_nth_same s_qs _ _ _ _ Hs Hq).
  - cbn. intros i sbi Hi Hend.
    apply nth_error_upd_nth_inv in Hi as [(-> & x & Hx & ->)|(Hne & Hi)].
    + apply (SInv_frame h st); auto. apply Hstep; auto. eapply S; eauto.
    + apply (SInv_frame h st); auto. eapply S; eauto.
Qed.

(** *** a change of the subscriber's program counter only *)
Lemma SInv_repc h st sb pc' snap' :
  let sb' := mkSub (s_qs sb) (s_uo sb) pc' (s_queue sb) (s_infl sb) (s_out sb) (s_sent sb) snap' (s_end sb) in
  regq sb' = regq sb ->
  (forall p l, tlookup p (st_tree st) = Some l -> reg_match sb p = true -> walk_pending sb p l ->
      walk_pending sb' p l \/ In (ILeaf l) (iq sb ++ allfeed st)) ->
  SInv h st sb -> SInv h st sb'.
Proof.
  intros sb' Hreg Hwp [H1 H2 H3 H4 H5 H6 H7].
  assert (RM : forall p, reg_match sb' p = reg_match sb p) by (intros p; unfold reg_match; rewrite Hreg; reflexivity).
  constructor; auto.
  - intros l p. rewrite RM. apply H3.
  - intros p v ts d. rewrite RM. apply H4.
  - intros p Hp. rewrite RM in Hp. specialize (H7 p Hp). unfold conv in *.
    change (iq sb') with (iq sb). change (so sb') with (so sb). change (s_uo sb') with (s_uo sb).
    destruct (tlookup p (st_tree st)) as [l|] eqn:Hl; [|exact H7].
    destruct H7 as [C|[C|[C|C]]]; auto.
    destruct (Hwp _ _ Hl Hp C); auto.
Qed.

Lemma iq_set_queue sb q :
  iq (set_queue sb q) = infl_list sb ++ qitems q.
Proof. reflexivity. Qed.

Lemma iq_insert sb it :
  iq (set_queue sb (q_insert it (s_queue sb)))
  = if in_dec item_eq_dec it (qitems (s_queue sb)) then iq sb else iq sb ++ [it].
Proof.
  rewrite iq_set_queue, qitems_insert. unfold iq. destruct (in_dec _ _ _); [reflexivity|apply app_assoc].
Qed.

Lemma In_iq_insert sb it x :
  In x (iq (set_queue sb (q_insert it (s_queue sb)))) <-> In x (iq sb) \/ (x = it).
Proof.
  rewrite iq_set_queue. unfold iq. rewrite !in_app_iff, In_qitems_insert. tauto.
Qed.

(** *** inserting the sync marker or an attached leaf into the queue *)
Lemma SInv_insert h st sb it :
  GInv st -> SInv h st sb ->
  (it = ISync \/ exists l p, it = ILeaf l /\ tlookup p (st_tree st) = Some l /\ reg_match sb p = true) ->
  SInv h st (set_queue sb (q_insert it (s_queue sb))).
Proof.
  intros G [H1 H2 H3 H4 H5 H6 H7] Hit.
  set (sb' := set_queue sb (q_insert it (s_queue sb))).
  assert (RM : forall p, reg_match sb' p = reg_match sb p) by reflexivity.
  (* the items touching p after the insertion *)
  assert (FI : forall p, filter (touches st p) (iq sb') = filter (touches st p) (iq sb)
                \/ (touches st p it = true /\ ~ In it (qitems (s_queue sb)) /\
                    filter (touches st p) (iq sb') = filter (touches st p) (iq sb) ++ [it])).
  { intros p. unfold sb'. rewrite iq_insert. destruct (in_dec _ _ _) as [Hi|Hi]; [left; reflexivity|].
    rewrite filter_app. cbn. destruct (touches st p it) eqn:Ht; [right; auto|left; apply app_nil_r]. }
  assert (TI : forall p, touches st p it = true -> exists l, it = ILeaf l /\ tlookup p (st_tree st) = Some l).
  { intros p Ht. destruct Hit as [->|(l & p0 & -> & Hl & _)]; [discriminate|].
    exists l. split; auto. unfold touches in Ht. cbn in Ht. rewrite (tlookup_leaf _ _ _ G Hl) in Ht.
    apply path_eqb_eq in Ht. subst. exact Hl. }
  constructor; auto.
  - intros x Hx. apply In_iq_insert in Hx as [Hx| ->]; auto.
    destruct Hit as [->|(l & p & -> & Hl & _)]; auto. right. exists p. cbn. eapply tlookup_leaf; eauto.
  - intros l p Hx Hp. rewrite RM. apply In_iq_insert in Hx as [Hx|Hx]; eauto.
    destruct Hit as [->|(l0 & p0 & -> & Hl & Hr)]; [discriminate|]. inversion Hx; subst.
    rewrite (tlookup_leaf _ _ _ G Hl) in Hp. inversion Hp; subst. exact Hr.
  - intros k Hx. apply In_iq_insert in Hx as [Hx|Hx]; auto.
    destruct Hit as [->|(l0 & p0 & -> & _)]; discriminate.
  - intros p l Hl. destruct (H6 _ _ Hl) as (X & m & HX & HnX).
    destruct (FI p) as [->|(Ht & _ & ->)]; eauto.
    destruct (TI _ Ht) as (l' & -> & Hl'). assert (l' = l) by congruence. subst l'.
    exists X, (S m). split; auto. rewrite HX, <- app_assoc, <- repeat_snoc. reflexivity.
  - intros p Hp. rewrite RM in Hp. specialize (H7 p Hp). unfold conv in *.
    change (so sb') with (so sb). change (s_uo sb') with (s_uo sb).
    destruct (tlookup p (st_tree st)) as [l|] eqn:Hl.
    + destruct (FI p) as [E|(Ht & Hni & E)].
      * rewrite E. destruct H7 as [C|[C|[C|C]]]; auto.
        left. apply in_app_iff in C as [C|C]; apply in_app_iff; auto. left. apply In_iq_insert. auto.
      * left. destruct (TI _ Ht) as (l' & -> & Hl'). assert (l' = l) by congruence. subst.
        apply in_app_iff. left. apply In_iq_insert. auto.
    + destruct (FI p) as [E|(Ht & Hni & E)]; [rewrite E; exact H7|].
      destruct (TI _ Ht) as (l' & _ & Hl'). congruence.
Qed.

(** *** a path the subscriber has heard nothing about *)
Lemma conv_fresh h st sb p :
  GInv st ->
  (forall l, In (ILeaf l) (iq sb) -> leaf_path st l <> Some p) ->
  (forall v ts d, ~ In (RUpd p v ts d) (so sb)) ->
  (s_uo sb = false -> forall l, walk_pending sb p l) ->
  conv h st sb p.
Proof.
  intros G Hq Hs Hw. unfold conv.
  assert (IQdel : forall it, In it (filter (touches st p) (iq sb)) -> is_del it = true).
  { intros it Hit. apply filter_In in Hit as [H1 H2]. destruct it as [l|k|]; [|reflexivity|discriminate].
    exfalso. unfold touches in H2. cbn in H2. destruct (leaf_path st l) eqn:X; [|discriminate].
    apply path_eqb_eq in H2. subst. eapply Hq; eauto. }
  assert (Rep : replay_path p None (so sb) = None).
  { apply replay_path_no_upd. intros p' v ts d Hin ->. eapply Hs; eauto. }
  destruct (tlookup p (st_tree st)) as [l|] eqn:Hl.
  - destruct (s_uo sb) eqn:Huo; [|right; right; left; auto].
    destruct (filter (touches st p) (allfeed st)) as [|x F] eqn:EF.
    + right. right. right. split; auto. split; auto. apply forallb_forall. exact IQdel.
    + left. apply in_app_iff. right.
      assert (Hx : In x (filter (touches st p) (allfeed st))) by (rewrite EF; left; reflexivity).
      apply filter_In in Hx as [H1 H2]. rewrite (feed_touch_attached _ _ _ _ G Hl H1 H2) in H1. exact H1.
  - destruct (filter (touches st p) (allfeed st)) as [|x F] eqn:EF; [|left; left; discriminate].
    destruct (filter (touches st p) (iq sb)) as [|y Q] eqn:EQ; [right; auto|].
    left. right. apply all_del_last; [discriminate|exact IQdel].
Qed.

Lemma firstn_S_In {A} k (l : list A) x : In x (firstn k l) -> In x (firstn (S k) l).
Proof.
  revert k; induction l as [|a l IH]; intros [|k]; cbn; auto; try tauto. intros [H|H]; auto.
  right. apply IH. exact H.
Qed.

(** *** LReg *)
Lemma SInv_reg h st sb k :
  GInv st -> s_pc sb = SReg k -> SInv h st sb -> SInv h st (set_pc sb (SReg (S k))).
Proof.
  intros G Hpc [H1 H2 H3 H4 H5 H6 H7].
  set (sb' := set_pc sb (SReg (S k))).
  assert (RM : forall p, reg_match sb p = true -> reg_match sb' p = true).
  { intros p. unfold reg_match, regq, sb'. rewrite Hpc. cbn. intros H.
    apply existsb_exists in H as (q & Hq & Hc). apply existsb_exists. exists q. split; auto. apply firstn_S_In. exact Hq. }
  constructor; auto.
  - intros l p Hx Hp. apply RM. eauto.
  - intros p v ts d Hx. apply RM. eauto.
  - intros p Hp. destruct (reg_match sb p) eqn:Hold.
    + specialize (H7 p Hold). unfold conv in *.
      change (iq sb') with (iq sb). change (so sb') with (so sb). change (s_uo sb') with (s_uo sb).
      destruct (tlookup p (st_tree st)) as [l|]; auto.
      destruct H7 as [C|[C|[C|C]]]; auto. right. right. left. destruct C as [C _]. split; auto. exact I.
    + apply conv_fresh; auto.
      * intros l Hl Hlp. change (iq sb') with (iq sb) in Hl. rewrite (H3 _ _ Hl Hlp) in Hold. discriminate.
      * intros v ts d Hin. change (so sb') with (so sb) in Hin. rewrite (H4 _ _ _ _ Hin) in Hold. discriminate.
      * intros Huo l. split; auto. exact I.
Qed.

(** *** LDeq *)
Lemma SInv_deq h st sb x q' :
  s_infl sb = None -> s_out sb = None -> s_queue sb = x :: q' -> SInv h st sb ->
  SInv h st (mkSub (s_qs sb) (s_uo sb) (s_pc sb) q' (Some x) None (s_sent sb) (s_snap sb) false).
Proof.
  intros Hi Ho Hq [H1 H2 H3 H4 H5 H6 H7].
  set (sb' := mkSub _ _ _ _ _ _ _ _ _).
  assert (Eiq : iq sb' = iq sb).
  { unfold iq, infl_list, sb'. cbn. rewrite Hi, Hq. destruct x. reflexivity. }
  assert (Eso : so sb' = so sb).
  { unfold so, out_list, sb'. cbn. rewrite Ho. reflexivity. }
  constructor; try rewrite Eiq; try rewrite Eso; auto.
  intros p Hp. specialize (H7 p Hp). unfold conv in *. rewrite Eiq, Eso. exact H7.
Qed.

(** *** LSent *)
Lemma SInv_sent h st sb r :
  s_out sb = Some r -> SInv h st sb ->
  SInv h st (mkSub (s_qs sb) (s_uo sb) (s_pc sb) (s_queue sb) None None (s_sent sb ++ [r]) (s_snap sb) false).
Proof.
  intros Ho [H1 H2 H3 H4 H5 H6 H7].
  set (sb' := mkSub _ _ _ _ _ _ _ _ _).
  assert (Hi : s_infl sb = None).
  { destruct (s_infl sb) eqn:X; auto. assert (s_out sb = None) by (apply H1; congruence). congruence. }
  assert (Eiq : iq sb' = iq sb).
  { unfold iq, infl_list, sb'. cbn. rewrite Hi. reflexivity. }
  assert (Eso : so sb' = so sb).
  { unfold so, out_list, sb'. cbn. rewrite Ho, app_nil_r. reflexivity. }
  constructor; try rewrite Eiq; try rewrite Eso; auto.
  intros p Hp. specialize (H7 p Hp). unfold conv in *. rewrite Eiq, Eso. exact H7.
Qed.

(** *** LRead *)
Lemma build_untouched st p it d r acc rs :
  touches st p it = false -> build st it d = Some r ->
  replay_path p acc (rs ++ [r]) = replay_path p acc rs.
Proof.
  intros Ht Hb. rewrite replay_path_app. destruct it as [l|k|]; cbn in Hb.
  - unfold touches, item_pat, leaf_path in Ht.
    destruct (nth_error (st_leaves st) l) as [[p' [v ts]]|]; [|discriminate]. inversion Hb; subst. cbn in *. rewrite Ht. reflexivity.
  - unfold touches, item_pat in Ht.
    destruct (nth_error (st_dels st) k) as [[d' ts]|]; [|discriminate]. inversion Hb; subst. cbn in *. rewrite Ht. reflexivity.
  - inversion Hb; subst. reflexivity.
Qed.

Lemma build_leaf st p l d r acc rs c :
  leaf_path st l = Some p -> leaf_cont st l = Some c -> build st (ILeaf l) d = Some r ->
  replay_path p acc (rs ++ [r]) = Some c /\ exists v ts, r = RUpd p v ts d.
Proof.
  intros Hp Hc Hb. rewrite replay_path_app. cbn in Hb. unfold leaf_path, leaf_cont in *.
  destruct (nth_error (st_leaves st) l) as [[p' [v ts]]|]; [|discriminate]. cbn in *.
  inversion Hp; inversion Hc; inversion Hb; subst. cbn. rewrite path_eqb_refl. eauto.
Qed.

Lemma build_del st p k d r acc rs :
  touches st p (IDel k) = true -> build st (IDel k) d = Some r ->
  replay_path p acc (rs ++ [r]) = None.
Proof.
  intros Ht Hb. rewrite replay_path_app. cbn in Hb. unfold touches, item_pat in Ht.
  destruct (nth_error (st_dels st) k) as [[d' ts]|]; [|discriminate]. inversion Hb; subst. cbn in *. rewrite Ht. reflexivity.
Qed.

Lemma SInv_read h st sb it d r :
  GInv st -> s_infl sb = Some (it, d) -> build st it d = Some r -> SInv h st sb ->
  SInv h st (mkSub (s_qs sb) (s_uo sb) (s_pc sb) (s_queue sb) None (Some r) (s_sent sb) (s_snap sb) false).
Proof.
  intros G Hi Hb [H1 H2 H3 H4 H5 H6 H7].
  set (sb' := mkSub _ _ _ _ _ _ _ _ _).
  assert (Ho : s_out sb = None) by (apply H1; congruence).
  assert (Eiq : iq sb = it :: iq sb').
  { unfold iq, infl_list, sb'. cbn. rewrite Hi. reflexivity. }
  assert (Eso : so sb' = so sb ++ [r]).
  { unfold so, out_list, sb'. cbn. rewrite Ho, app_nil_r. reflexivity. }
  assert (RM : forall p, reg_match sb' p = reg_match sb p) by reflexivity.
  assert (Sub : forall x, In x (iq sb') -> In x (iq sb)) by (intros x Hx; rewrite Eiq; right; exact Hx).
  constructor; auto.
  - intros H; exfalso; apply H; reflexivity.
  - intros l p Hx. rewrite RM. apply H3. auto.
  - intros p v ts d0 Hx. rewrite RM. rewrite Eso in Hx. apply in_app_iff in Hx as [Hx|[Hx|[]]]; eauto.
    destruct it as [l|k|]; cbn in Hb.
    + destruct (nth_error (st_leaves st) l) as [[p' [v' ts']]|] eqn:X; [|discriminate].
      subst r. inversion Hb; subst. apply (H3 l); [rewrite Eiq; left; reflexivity|].
      unfold leaf_path. rewrite X. reflexivity.
    + destruct (nth_error (st_dels st) k) as [[d' ts']|]; [|discriminate]. subst r. discriminate.
    + subst r. discriminate.
  - intros p l Hl. destruct (H6 _ _ Hl) as (X & m & HX & HnX). rewrite Eiq in HX. cbn [filter] in HX.
    destruct (touches st p it) eqn:Ht; [|eauto].
    destruct X as [|x X].
    + destruct m as [|m]; [discriminate|]. cbn in HX. inversion HX. exists [], m. split; auto.
    + cbn in HX. inversion HX. exists X, m. split; auto. intros Hin. apply HnX. right. exact Hin.
  - intros p Hp. rewrite RM in Hp. specialize (H7 p Hp). unfold conv in *.
    change (s_uo sb') with (s_uo sb). rewrite Eso. rewrite Eiq in H7. cbn [filter] in H7.
    assert (WP : forall l, walk_pending sb' p l = walk_pending sb p l) by reflexivity.
    destruct (touches st p it) eqn:Ht.
    + (* the item read touches p *)
      destruct (tlookup p (st_tree st)) as [l|] eqn:Hl.
      * assert (Hlp : leaf_path st l = Some p) by (eapply tlookup_leaf; eauto).
        destruct (item_eq_dec it (ILeaf l)) as [->|Hne].
        -- (* it is the attached leaf itself *)
           destruct (in_dec item_eq_dec (ILeaf l) (iq sb' ++ allfeed st)) as [Hin|Hnin]; [left; exact Hin|].
           right. left.
           destruct (leaf_cont_of_path _ _ _ Hlp) as [c Hc].
           destruct (build_leaf _ _ _ _ _ None (so sb) _ Hlp Hc Hb) as [Hrep _].
           destruct (H6 _ _ Hl) as (X & m & HX & HnX). rewrite Eiq in HX. cbn [filter] in HX. rewrite Ht in HX.
           assert (X = []) as ->.
           { destruct X as [|x X]; auto. cbn in HX. inversion HX; subst. exfalso. apply HnX. left. reflexivity. }
           destruct m as [|m]; [discriminate|]. cbn in HX. inversion HX as [HX'].
           change (keys (s_queue sb)) with (iq sb') in HX'.
           assert (m = 0%nat) as ->.
           { destruct m as [|m]; auto. exfalso. apply Hnin. apply in_app_iff. left.
             assert (In (ILeaf l) (filter (touches st p) (iq sb'))) by (rewrite HX'; left; reflexivity).
             apply filter_In in H. tauto. }
           split; [exact HX'|]. split.
           ++ destruct (filter (touches st p) (allfeed st)) as [|x F] eqn:EF; auto. exfalso.
              assert (Hx : In x (filter (touches st p) (allfeed st))) by (rewrite EF; left; reflexivity).
              apply filter_In in Hx as [Hx1 Hx2]. rewrite (feed_touch_attached _ _ _ _ G Hl Hx1 Hx2) in Hx1.
              apply Hnin. apply in_app_iff. auto.
           ++ exists c, c. auto.
        -- (* another item touching p: a delete, or an older leaf of the same path *)
           destruct H7 as [C|[C|[C|C]]].
           ++ left. apply in_app_iff in C as [C|C]; apply in_app_iff; auto. destruct C as [C|C]; auto. congruence.
           ++ destruct C as [C _]. discriminate.
           ++ right. right. left. exact C.
           ++ destruct C as (C1 & C2 & C3 & C4). cbn in C2. apply andb_true_iff in C2 as [C2 C2'].
              destruct it as [l'|k|]; try discriminate.
              right. right. right. split; auto. split; auto. split; auto. eapply build_del; eauto.
      * destruct H7 as [[C|C]|C].
        -- left. left. exact C.
        -- destruct C as (Y & k & EY).
           destruct (filter (touches st p) (iq sb')) as [|y Q] eqn:EQ.
           ++ destruct Y as [|y' Y]; [|destruct Y; discriminate]. cbn in EY. inversion EY; subst.
              destruct (filter (touches st p) (allfeed st)) eqn:EF; [|left; left; discriminate].
              right. split; auto. split; auto. eapply build_del; eauto.
           ++ left. right. destruct Y as [|y' Y]; [discriminate|]. cbn in EY. inversion EY. eauto.
        -- destruct C as [C _]. discriminate.
    + (* it does not touch p *)
      rewrite (build_untouched _ _ _ _ _ _ _ Ht Hb).
      destruct (tlookup p (st_tree st)) as [l|] eqn:Hl; [|exact H7].
      destruct H7 as [C|[C|[C|C]]]; auto.
      left. apply in_app_iff in C as [C|C]; apply in_app_iff; auto. destruct C as [C|C]; auto.
      subst it. unfold touches in Ht. cbn in Ht. rewrite (tlookup_leaf _ _ _ G Hl), path_eqb_refl in Ht. discriminate.
Qed.

(** ** Preservation: the feed callback *)

Lemma q_insert_n_mult sb pat it q :
  q_insert_n (mult sb pat) it q = if existsb (fun q0 => compat q0 pat) (regq sb) then q_insert it q else q.
Proof. unfold mult. destruct (existsb _ _); reflexivity. Qed.

Lemma filter_remove_one {A} (g : A -> bool) (a rest b : list A) x :
  g x = false -> filter g (a ++ (x :: rest) ++ b) = filter g (a ++ rest ++ b).
Proof. intros H. rewrite !filter_app. cbn. rewrite H. reflexivity. Qed.

Lemma SInv_feed h st w it rest ss' sb :
  let st' := mkState (st_leaves st) (st_dels st) (st_tree st) (set_feed st w rest) ss' (st_locks st) in
  GInv st -> nth_error (st_feeds st) w = Some (it :: rest) ->
  SInv h st sb -> s_end sb = false -> SInv h st' (deliver st it sb).
Proof.
  intros st' G Hw [H1 H2 H3 H4 H5 H6 H7] Hend.
  destruct (concat_upd_nth _ _ _ Hw) as (a & b & E1 & E2).
  assert (AF : allfeed st = a ++ (it :: rest) ++ b) by exact E1.
  assert (AF' : allfeed st' = a ++ rest ++ b) by (unfold allfeed, st', set_feed; cbn; apply E2).
  assert (Hitf : In it (allfeed st)) by (rewrite AF; apply in_app_iff; right; left; reflexivity).
  assert (ND : NoDup (allfeed st)) by apply (g_feed_nodup _ G).
  assert (Hnit : ~ In it (allfeed st')).
  { rewrite AF'. rewrite AF in ND. apply NoDup_remove_2 in ND. exact ND. }
  assert (Sub : forall x, In x (allfeed st') -> In x (allfeed st)).
  { intros x. rewrite AF, AF', !in_app_iff. cbn. tauto. }
  assert (Sup : forall x, In x (allfeed st) -> x = it \/ In x (allfeed st')).
  { intros x. rewrite AF, AF', !in_app_iff. cbn. intuition. }
  assert (Hf : In (it :: rest) (st_feeds st)) by (eapply nth_error_In; eauto).
  destruct (g_feed_wf _ G _ _ Hf (or_introl eq_refl)) as (Hns & pat & Hpat & Hpok).
  unfold deliver. rewrite Hpat. rewrite Hend at 1. rewrite q_insert_n_mult.
  assert (T : forall p x, touches st' p x = touches st p x) by reflexivity.
  destruct (existsb (fun q0 => compat q0 pat) (regq sb)) eqn:Hm.
  - (* delivered *)
    fold (set_queue sb (q_insert it (s_queue sb))).
    set (sb' := set_queue sb (q_insert it (s_queue sb))).
    assert (RM : forall p, reg_match sb' p = reg_match sb p) by reflexivity.
    assert (FI : forall p, filter (touches st p) (iq sb') = filter (touches st p) (iq sb)
                \/ (touches st p it = true /\ ~ In it (qitems (s_queue sb)) /\
                    filter (touches st p) (iq sb') = filter (touches st p) (iq sb) ++ [it])).
    { intros p. unfold sb'. rewrite iq_insert. destruct (in_dec _ _ _) as [Hi|Hi]; [left; reflexivity|].
      rewrite filter_app. cbn. destruct (touches st p it) eqn:Ht; [right; auto|left; apply app_nil_r]. }
    constructor; auto.
    + intros x Hx. apply In_iq_insert in Hx as [Hx| ->]; [exact (H2 _ Hx)|]. right. exists pat. exact Hpat.
    + intros l p Hx Hp. rewrite RM. apply In_iq_insert in Hx as [Hx|Hx]; [eapply H3; eauto|].
      subst it. cbn in Hpat. change (leaf_path st' l) with (leaf_path st l) in Hp. rewrite Hp in Hpat. inversion Hpat; subst.
      exact Hm.
    + intros k Hx Hin. apply In_iq_insert in Hx as [Hx|Hx].
      * apply (H5 _ Hx). apply Sub. exact Hin.
      * rewrite Hx in Hin. contradiction.
    + intros p l Hl. change (tlookup p (st_tree st) = Some l) in Hl.
      destruct (H6 _ _ Hl) as (X & m & HX & HnX).
      change (filter (touches st' p) (iq sb')) with (filter (touches st p) (iq sb')).
      destruct (FI p) as [->|(Ht & _ & ->)]; eauto.
      rewrite (feed_touch_attached _ _ _ _ G Hl Hitf Ht).
      exists X, (S m). split; auto. rewrite HX, <- app_assoc, <- repeat_snoc. reflexivity.
    + intros p Hp. rewrite RM in Hp. specialize (H7 p Hp). unfold conv in *.
      change (so sb') with (so sb). change (s_uo sb') with (s_uo sb).
      change (tlookup p (st_tree st')) with (tlookup p (st_tree st)).
      change (filter (touches st' p) (iq sb')) with (filter (touches st p) (iq sb')).
      change (filter (touches st' p) (allfeed st')) with (filter (touches st p) (allfeed st')).
      assert (WP : forall l, walk_pending sb' p l = walk_pending sb p l) by reflexivity.
      destruct (touches st p it) eqn:Ht.
      * destruct (tlookup p (st_tree st)) as [l|] eqn:Hl.
        -- left. assert (Eit := feed_touch_attached _ _ _ _ G Hl Hitf Ht).
           apply in_app_iff. left. apply In_iq_insert. right. symmetry. exact Eit.
        -- left. right.
           assert (Hd := feed_touch_absent _ _ _ G Hl Hitf Ht). destruct it as [|k|]; try discriminate.
           destruct (FI p) as [E|(_ & _ & E)].
           ++ exfalso. unfold sb' in E. rewrite iq_insert in E.
              destruct (in_dec item_eq_dec (IDel k) (qitems (s_queue sb))) as [Hi|Hi].
              ** apply (H5 k); auto. unfold iq. apply in_app_iff. auto.
              ** rewrite filter_app in E. cbn [filter] in E. rewrite Ht in E.
                 apply (f_equal (@List.length item)) in E. rewrite app_length in E. cbn in E. lia.
           ++ rewrite E. eauto.
      * assert (EF : filter (touches st p) (allfeed st') = filter (touches st p) (allfeed st)).
        { rewrite AF, AF'. symmetry. apply filter_remove_one. exact Ht. }
        assert (EQ : filter (touches st p) (iq sb') = filter (touches st p) (iq sb)).
        { destruct (FI p) as [E|(Ht' & _)]; [exact E|congruence]. }
        rewrite EF, EQ.
        destruct (tlookup p (st_tree st)) as [l|] eqn:Hl; [|exact H7].
        destruct H7 as [C|[C|[C|C]]]; auto.
        left. apply in_app_iff in C as [C|C]; apply in_app_iff.
        -- left. apply In_iq_insert. auto.
        -- destruct (Sup _ C) as [Eit|C']; auto. rewrite <- Eit in Ht.
           unfold touches in Ht. cbn in Ht. rewrite (tlookup_leaf _ _ _ G Hl), path_eqb_refl in Ht. discriminate.
  - (* not addressed to this subscriber *)
    assert (Esb : mkSub (s_qs sb) (s_uo sb) (s_pc sb) (s_queue sb) (s_infl sb) (s_out sb) (s_sent sb) (s_snap sb) (s_end sb) = sb)
      by (destruct sb; reflexivity).
    rewrite Esb.
    assert (NT : forall p, reg_match sb p = true -> touches st p it = false).
    { intros p Hp. destruct (touches st p it) eqn:Ht; auto.
      assert (X := touch_delivered _ _ _ _ _ Hp Hpat Ht). unfold mult in X. rewrite Hm in X. discriminate. }
    constructor; auto.
    + intros k Hx Hin. apply (H5 _ Hx). apply Sub. exact Hin.
    + intros p Hp. specialize (H7 p Hp). unfold conv in *.
      change (tlookup p (st_tree st')) with (tlookup p (st_tree st)).
      change (filter (touches st' p) (iq sb)) with (filter (touches st p) (iq sb)).
      change (filter (touches st' p) (allfeed st')) with (filter (touches st p) (allfeed st')).
      assert (EF : filter (touches st p) (allfeed st') = filter (touches st p) (allfeed st)).
      { rewrite AF, AF'. symmetry. apply filter_remove_one. apply NT. exact Hp. }
      rewrite EF.
      destruct (tlookup p (st_tree st)) as [l|] eqn:Hl; [|exact H7].
      destruct H7 as [C|[C|[C|C]]]; auto.
      left. apply in_app_iff in C as [C|C]; apply in_app_iff; auto.
      destruct (Sup _ C) as [Eit|C']; auto.
      assert (Ht := NT _ Hp). rewrite <- Eit in Ht. unfold touches in Ht. cbn in Ht.
      rewrite (tlookup_leaf _ _ _ G Hl), path_eqb_refl in Ht. discriminate.
Qed.

(** ** Preservation: writes *)

Lemma touches_ext st st' p x :
  ext st st' -> (x = ISync \/ exists d, item_pat st x = Some d) -> touches st' p x = touches st p x.
Proof.
  intros E [->|[d Hd]]; [reflexivity|]. assert (Hd' := E _ _ Hd).
  destruct x; unfold touches; try reflexivity; rewrite Hd, Hd'; reflexivity.
Qed.

Lemma filter_touches_ext st st' p L :
  ext st st' -> (forall x, In x L -> x = ISync \/ exists d, item_pat st x = Some d) ->
  filter (touches st' p) L = filter (touches st p) L.
Proof.
  intros E H. apply filter_ext_in. intros x Hx. apply touches_ext; auto.
Qed.

Lemma allfeed_wf st : GInv st -> forall x, In x (allfeed st) -> x = ISync \/ exists d, item_pat st x = Some d.
Proof.
  intros G x Hx. unfold allfeed in Hx. apply in_concat in Hx as (f & Hf & Hx).
  destruct (g_feed_wf _ G _ _ Hf Hx) as (_ & d & Hd & _). eauto.
Qed.

Lemma filter_insert_none {A} (g : A -> bool) (a f b : list A) :
  (forall x, In x f -> g x = false) -> filter g (a ++ f ++ b) = filter g (a ++ b).
Proof.
  intros H. rewrite !filter_app. f_equal.
  assert (filter g f = []) as ->; [|reflexivity].
  induction f as [|x f IH]; cbn; auto. rewrite (H x) by (left; reflexivity). apply IH. intros; apply H; right; auto.
Qed.

Lemma proj_suppressed h v v0 ts ts0 : h_ed h && (v =? v0) = true -> proj h (v, ts) = proj h (v0, ts0).
Proof.
  intros H. apply andb_true_iff in H as [H1 H2]. apply Z.eqb_eq in H2. subst. unfold proj. rewrite H1. reflexivity.
Qed.

(** the generic shape of a write seen from one subscriber: the stores only
    grow, the subscriber's own items keep their meaning, the writer's pending
    list [f] is inserted among the others *)
Section WriteStep.
Variables (h : hyps) (st st' : state) (sb : sub) (a b f : list item).
Hypothesis G : GInv st.
Hypothesis G' : GInv st'.
Hypothesis E : ext st st'.
Hypothesis AF : allfeed st = a ++ b.
Hypothesis AF' : allfeed st' = a ++ f ++ b.
Hypothesis S : SInv h st sb.

Lemma ws_iq p : filter (touches st' p) (iq sb) = filter (touches st p) (iq sb).
Proof. apply filter_touches_ext; auto. apply (s_wf _ _ _ S). Qed.

Lemma ws_sub x : In x (allfeed st) -> In x (allfeed st').
Proof. rewrite AF, AF', !in_app_iff. tauto. Qed.

Lemma ws_fp p : (forall x, In x f -> touches st' p x = false) ->
  filter (touches st' p) (allfeed st') = filter (touches st p) (allfeed st).
Proof.
  intros H. rewrite AF', (filter_insert_none _ _ _ _ H), <- AF.
  apply filter_touches_ext; auto. apply allfeed_wf; auto.
Qed.

(** fields that do not depend on the case *)
Lemma ws_common :
  (forall k, In (IDel k) f -> ~ In (IDel k) (iq sb)) ->
  (s_infl sb <> None -> s_out sb = None) /\
  (forall it, In it (iq sb) -> it = ISync \/ exists d, item_pat st' it = Some d) /\
  (forall l p, In (ILeaf l) (iq sb) -> leaf_path st' l = Some p -> reg_match sb p = true) /\
  (forall k, In (IDel k) (iq sb) -> ~ In (IDel k) (allfeed st')).
Proof.
  intros Hfresh. destruct S as [H1 H2 H3 H4 H5 H6 H7]. repeat split; auto.
  - intros it Hit. destruct (H2 _ Hit) as [?|[d Hd]]; auto. right. exists d. apply E. exact Hd.
  - intros l p Hl Hp. destruct (H2 _ Hl) as [?|[d Hd]]; [discriminate|].
    assert (X := E _ _ Hd). cbn in X, Hd. rewrite Hp in X. inversion X; subst. eapply H3; eauto.
  - intros k Hk Hin. rewrite AF', !in_app_iff in Hin.
    assert (~ In (IDel k) (allfeed st)) by (apply H5; auto). rewrite AF, in_app_iff in H.
    destruct Hin as [?|[?|?]]; try tauto. eapply Hfresh; eauto.
Qed.

End WriteStep.

Lemma SInv_upd_existing h st w p0 l0 c f sb :
  let st' := mkState (upd_nth l0 (fun pc => (fst pc, c)) (st_leaves st)) (st_dels st) (st_tree st)
                     (set_feed st w f) (st_subs st) (st_locks st) in
  GInv st -> GInv st' -> nth_error (st_feeds st) w = Some [] -> tlookup p0 (st_tree st) = Some l0 ->
  (f = [ILeaf l0] \/ (f = [] /\ forall c0, leaf_cont st l0 = Some c0 -> proj h c = proj h c0)) ->
  SInv h st sb -> SInv h st' sb.
Proof.
  intros st' G G' Hw Hl0 Hf S.
  destruct (allfeed_set_feed st w f Hw) as (a & b & AF & AF0).
  assert (AF' : allfeed st' = a ++ f ++ b) by exact AF0.
  assert (IP : forall it, item_pat st' it = item_pat st it).
  { intros [l'|k|]; cbn; auto. unfold leaf_path. cbn. apply leaf_path_upd. }
  assert (E : ext st st') by (intros it d; rewrite IP; auto).
  assert (Hp0 : leaf_path st l0 = Some p0) by (eapply tlookup_leaf; eauto).
  assert (TF : forall p x, In x f -> touches st' p x = true -> p = p0 /\ f = [ILeaf l0]).
  { intros p x Hx Ht. destruct Hf as [->|[-> _]]; [|contradiction]. destruct Hx as [<-|[]].
    unfold touches in Ht. rewrite IP in Ht. cbn in Ht. rewrite Hp0 in Ht. apply path_eqb_eq in Ht. auto. }
  assert (Hfresh : forall k, In (IDel k) f -> ~ In (IDel k) (iq sb)).
  { intros k Hk. destruct Hf as [->|[-> _]]; [destruct Hk as [?|[]]; discriminate|contradiction]. }
  destruct (ws_common h st st' sb a b f E AF AF' S Hfresh) as (C1 & C2 & C3 & C4).
  assert (H6 := s_ord _ _ _ S). assert (H7 := s_conv _ _ _ S). assert (H4 := s_regm2 _ _ _ S).
  constructor; auto.
  - intros p l Hl. change (tlookup p (st_tree st) = Some l) in Hl.
    rewrite (ws_iq h st st' sb E S). eauto.
  - intros p Hp. specialize (H7 p Hp). unfold conv in *.
    change (tlookup p (st_tree st')) with (tlookup p (st_tree st)).
    rewrite (ws_iq h st st' sb E S).
    destruct (existsb (fun x => touches st' p x) f) eqn:Hex.
    + apply existsb_exists in Hex as (x & Hx & Ht). destruct (TF _ _ Hx Ht) as [-> ->].
      rewrite Hl0. left. apply in_app_iff. right. rewrite AF'. apply in_app_iff. right. left. reflexivity.
    + assert (NF : forall x, In x f -> touches st' p x = false).
      { intros x Hx. destruct (touches st' p x) eqn:Ht; auto.
        assert (existsb (fun x => touches st' p x) f = true) by (apply existsb_exists; eauto). congruence. }
      rewrite (ws_fp st st' a b f G E AF AF' p NF).
      destruct (tlookup p (st_tree st)) as [l|] eqn:Hl; [|exact H7].
      destruct H7 as [C|[C|[C|C]]]; auto.
      * left. apply in_app_iff in C as [C|C]; apply in_app_iff; auto. right. apply (ws_sub st st' a b f AF AF'). exact C.
      * right. left. destruct C as (Ca & Cb & c0 & c' & Hc0 & Hrep & Hpr). split; auto. split; auto.
        destruct (Nat.eq_dec l l0) as [->|Hne].
        -- exists c, c'. split.
           ++ unfold leaf_cont in *. cbn. rewrite nth_error_upd_nth_eq.
              destruct (nth_error (st_leaves st) l0); [reflexivity|discriminate].
           ++ split; auto. rewrite Hpr. symmetry.
              destruct Hf as [->|[_ Hf]]; [|eauto].
              exfalso. assert (p = p0).
              { assert (X := tlookup_leaf _ _ _ G Hl). congruence. } subst p.
              specialize (NF (ILeaf l0) (or_introl eq_refl)). unfold touches in NF. rewrite IP in NF. cbn in NF.
              rewrite Hp0, path_eqb_refl in NF. discriminate.
        -- exists c0, c'. split; auto. unfold leaf_cont in *. cbn. rewrite nth_error_upd_nth_neq; auto.
Qed.

Lemma SInv_new_leaf h st w p0 c sb :
  let l0 := List.length (st_leaves st) in
  let st' := mkState (st_leaves st ++ [(p0, c)]) (st_dels st) (st_tree st ++ [(p0, l0)])
                     (set_feed st w [ILeaf l0]) (st_subs st) (st_locks st) in
  GInv st -> GInv st' -> nth_error (st_feeds st) w = Some [] -> tlookup p0 (st_tree st) = None ->
  SInv h st sb -> SInv h st' sb.
Proof.
  intros l0 st' G G' Hw Hl0 S.
  destruct (allfeed_set_feed st w [ILeaf l0] Hw) as (a & b & AF & AF0).
  assert (AF' : allfeed st' = a ++ [ILeaf l0] ++ b) by exact AF0.
  assert (E : ext st st').
  { intros [l'|k|] d; cbn; auto. unfold leaf_path. cbn. apply option_map_nth_app. }
  assert (Hnew : leaf_path st' l0 = Some p0).
  { unfold leaf_path, st', l0. cbn. rewrite nth_error_app2 by lia. rewrite Nat.sub_diag. reflexivity. }
  assert (Hout : item_pat st (ILeaf l0) = None).
  { cbn. unfold leaf_path. assert (nth_error (st_leaves st) l0 = None) as -> by (apply nth_error_None; unfold l0; lia). reflexivity. }
  assert (Hniq : ~ In (ILeaf l0) (iq sb)).
  { intros Hin. destruct (s_wf _ _ _ S _ Hin) as [?|[d Hd]]; [discriminate|congruence]. }
  assert (Hfresh : forall k, In (IDel k) [ILeaf l0] -> ~ In (IDel k) (iq sb)).
  { intros k [?|[]]. discriminate. }
  destruct (ws_common h st st' sb a b _ E AF AF' S Hfresh) as (C1 & C2 & C3 & C4).
  assert (H6 := s_ord _ _ _ S). assert (H7 := s_conv _ _ _ S). assert (H4 := s_regm2 _ _ _ S).
  assert (TL : forall p, p <> p0 -> tlookup p (st_tree st') = tlookup p (st_tree st)).
  { intros p Hne. unfold st'. cbn. rewrite tlookup_app. destruct (tlookup p (st_tree st)); auto.
    cbn. destruct (path_eqb p0 p) eqn:X; auto. apply path_eqb_eq in X. congruence. }
  assert (TL0 : tlookup p0 (st_tree st') = Some l0).
  { unfold st'. cbn. rewrite tlookup_app, Hl0. cbn. rewrite path_eqb_refl. reflexivity. }
  constructor; auto.
  - intros p l Hl. rewrite (ws_iq h st st' sb E S).
    destruct (path_eqb_spec p p0) as [->|Hne].
    + rewrite TL0 in Hl. inversion Hl; subst l. exists (filter (touches st p0) (iq sb)), 0%nat.
      split; [cbn; rewrite app_nil_r; reflexivity|]. intros Hin. apply filter_In in Hin. tauto.
    + rewrite TL in Hl by assumption. eauto.
  - intros p Hp. specialize (H7 p Hp). unfold conv in *. rewrite (ws_iq h st st' sb E S).
    destruct (path_eqb_spec p p0) as [->|Hne].
    + rewrite TL0. left. apply in_app_iff. right. rewrite AF'. apply in_app_iff. right. left. reflexivity.
    + rewrite TL by assumption.
      assert (NF : forall x, In x [ILeaf l0] -> touches st' p x = false).
      { intros x [<-|[]]. unfold touches. cbn [item_pat]. rewrite Hnew. apply path_eqb_neq. congruence. }
      rewrite (ws_fp st st' a b _ G E AF AF' p NF).
      destruct (tlookup p (st_tree st)) as [l|] eqn:Hl; [|exact H7].
      destruct H7 as [C|[C|[C|C]]]; auto.
      * left. apply in_app_iff in C as [C|C]; apply in_app_iff; auto. right. apply (ws_sub st st' a b _ AF AF'). exact C.
      * right. left. destruct C as (Ca & Cb & c0 & c' & Hc0 & Hrep & Hpr). split; auto. split; auto.
        exists c0, c'. split; auto. unfold leaf_cont in *. cbn. apply option_map_nth_app. exact Hc0.
Qed.

Lemma SInv_delete h st w vs nd sb :
  let f := map IDel (seq (List.length (st_dels st)) (List.length nd)) in
  let st' := mkState (st_leaves st) (st_dels st ++ nd) (remove_paths vs (st_tree st)) (set_feed st w f) (st_subs st) (st_locks st) in
  GInv st -> GInv st' -> nth_error (st_feeds st) w = Some [] ->
  (forall x, In x vs -> exists it, In it f /\ touches st' (fst x) it = true) ->
  SInv h st sb -> SInv h st' sb.
Proof.
  intros f st' G G' Hw VT S.
  destruct (allfeed_set_feed st w f Hw) as (a & b & AF & AF0).
  assert (AF' : allfeed st' = a ++ f ++ b) by exact AF0.
  assert (E : ext st st').
  { intros [l'|k|] d; cbn; auto. apply option_map_nth_app. }
  assert (Hfresh : forall k, In (IDel k) f -> ~ In (IDel k) (iq sb)).
  { intros k Hk Hin. apply In_map_IDel_seq in Hk. destruct (s_wf _ _ _ S _ Hin) as [?|[d Hd]]; [discriminate|].
    cbn in Hd. destruct (nth_error (st_dels st) k) eqn:X; [|discriminate].
    assert (k < List.length (st_dels st))%nat by (apply nth_error_Some; congruence). lia. }
  destruct (ws_common h st st' sb a b _ E AF AF' S Hfresh) as (C1 & C2 & C3 & C4).
  assert (H6 := s_ord _ _ _ S). assert (H7 := s_conv _ _ _ S). assert (H4 := s_regm2 _ _ _ S).
  assert (Hff : forall x, In x f -> In x (allfeed st')).
  { intros x Hx. rewrite AF'. apply in_app_iff. right. apply in_app_iff. auto. }
  assert (TLs : forall p l, tlookup p (st_tree st') = Some l -> tlookup p (st_tree st) = Some l).
  { intros p l. unfold st'. cbn. rewrite tlookup_remove_paths. destruct (existsb _ vs); [discriminate|auto]. }
  (* a path still attached is touched by none of the new delete notifications *)
  assert (NFa : forall p l, tlookup p (st_tree st') = Some l -> forall x, In x f -> touches st' p x = false).
  { intros p l Hl x Hx. destruct (touches st' p x) eqn:Ht; auto.
    rewrite (feed_touch_attached _ _ _ _ G' Hl (Hff _ Hx) Ht) in Hx.
    apply in_map_iff in Hx as (? & ? & _). discriminate. }
  constructor; auto.
  - intros p l Hl. rewrite (ws_iq h st st' sb E S). apply H6. apply TLs. exact Hl.
  - intros p Hp. specialize (H7 p Hp). unfold conv in *. rewrite (ws_iq h st st' sb E S).
    destruct (tlookup p (st_tree st')) as [l|] eqn:Hl'.
    + rewrite (ws_fp st st' a b _ G E AF AF' p (NFa _ _ Hl')).
      rewrite (TLs _ _ Hl') in H7.
      destruct H7 as [C|[C|[C|C]]]; auto.
      left. apply in_app_iff in C as [C|C]; apply in_app_iff; auto. right. apply (ws_sub st st' a b _ AF AF'). exact C.
    + destruct (filter (touches st' p) (allfeed st')) as [|y F] eqn:EF; [|left; left; discriminate].
      assert (NF : forall x, In x f -> touches st' p x = false).
      { intros x Hx. destruct (touches st' p x) eqn:Ht; auto.
        assert (In x (filter (touches st' p) (allfeed st'))) by (apply filter_In; auto). rewrite EF in H. contradiction. }
      assert (EFP := ws_fp st st' a b _ G E AF AF' p NF). rewrite EF in EFP.
      destruct (tlookup p (st_tree st)) as [l|] eqn:Hl.
      * (* it was attached: it is a victim, and its delete touches it *)
        exfalso. unfold st' in Hl'. cbn in Hl'. rewrite tlookup_remove_paths, Hl in Hl'.
        destruct (existsb (fun x => path_eqb (fst x) p) vs) eqn:X; [|discriminate].
        apply existsb_exists in X as (x & Hx & Hxe). apply path_eqb_eq in Hxe. subst p.
        destruct (VT _ Hx) as (it & Hit & Ht). rewrite (NF _ Hit) in Ht. discriminate.
      * rewrite <- EFP in H7. exact H7.
Qed.

Lemma is_prefix_refl p : is_prefix p p = true.
Proof. apply is_prefix_spec. exists []. symmetry. apply app_nil_r. Qed.

Lemma covers_self p : star_free p = true -> covers p p = true.
Proof. intros H. rewrite covers_star_free by assumption. apply is_prefix_refl. Qed.

Lemma covers_prefix_star d p : star_free d = true -> covers d p = true -> covers (d ++ [star]) p = true.
Proof.
  revert p; induction d as [|x d IH]; intros p Hs H.
  - destruct p; reflexivity.
  - cbn in Hs. apply andb_true_iff in Hs as [Hx Hs]. apply negb_true_iff in Hx.
    destruct p as [|y p]; cbn in *; rewrite Hx in *; [discriminate|].
    cbn in *. apply andb_true_iff in H as [H1 H2]. rewrite H1. cbn. auto.
Qed.

Lemma write_subs h st w o st' r : write h st w o = Some (st', r) -> st_subs st' = st_subs st.
Proof.
  destruct o as [p v ts|d ts order|d]; cbn.
  - destruct (negb _); [discriminate|]. destruct (h_agree h && negb _); [discriminate|].
    destruct (tlookup p (st_tree st)).
    + destruct (leaf_cont st n) as [[v0 ts0]|]; [|discriminate].
      destruct (ts <? ts0); [intros [= <- _]; reflexivity|].
      destruct ((ts =? ts0) && (v =? v0)); intros [= <- _]; reflexivity.
    + destruct (conflicts st p); intros [= <- _]; reflexivity.
  - destruct (negb _); [discriminate|]. destruct (tree_locked _ _); [discriminate|]. intros [= <- _]; reflexivity.
  - destruct (negb _); [discriminate|]. destruct (tree_locked _ _); [discriminate|]. intros [= <- _]; reflexivity.
Qed.

Lemma write_SInv h st w o st' r sb :
  GInv st -> GInv st' -> nth_error (st_feeds st) w = Some [] ->
  write h st w o = Some (st', r) -> SInv h st sb -> SInv h st' sb.
Proof.
  intros G G' Hnth Hw S.
  destruct o as [p v ts|d ts order|d]; cbn in Hw.
  - destruct (negb _); [discriminate|]. destruct (h_agree h && negb _); [discriminate|].
    destruct (tlookup p (st_tree st)) as [l|] eqn:Hl.
    + destruct (leaf_cont st l) as [[v0 ts0]|] eqn:Hc; [|discriminate].
      destruct (ts <? ts0); [inversion Hw; subst; exact S|].
      destruct ((ts =? ts0) && (v =? v0)); [inversion Hw; subst; exact S|].
      inversion Hw; subst. clear Hw.
      apply (SInv_upd_existing h st w p l (v, ts)); auto.
      destruct (h_ed h && (v =? v0)) eqn:X; [right|left; reflexivity]. split; auto.
      intros c0 Hc0. rewrite Hc in Hc0. inversion Hc0; subst. apply proj_suppressed. exact X.
    + destruct (conflicts st p); [inversion Hw; subst; exact S|].
      inversion Hw; subst. apply SInv_new_leaf; auto.
  - destruct (target_ok d) eqn:Hok; cbn in Hw; [|discriminate].
    destruct (tree_locked st (target_of d)); [discriminate|].
    inversion Hw; subst. clear Hw.
    set (vs := reorder order (victims st d (fun c => snd c <? ts))) in *.
    replace (List.length vs) with (List.length (map (fun pl : path * nat => (fst pl, ts)) vs)) in * by apply map_length.
    apply SInv_delete; auto.
    intros x Hx. apply In_nth_error in Hx as [i Hi].
    exists (IDel (List.length (st_dels st) + i)). split.
    + apply in_map. apply in_seq. rewrite map_length. split; [lia|].
      assert (i < List.length vs)%nat by (apply nth_error_Some; congruence). lia.
    + unfold touches. cbn. rewrite nth_error_app2 by lia.
      replace (List.length (st_dels st) + i - List.length (st_dels st))%nat with i by lia.
      rewrite nth_error_map, Hi. cbn. apply covers_self.
      assert (In x vs) by (eapply nth_error_In; eauto). apply In_reorder in H. apply In_victims in H as [H _].
      destruct x as [px lx]. apply (g_ok _ G _ _ H).
  - destruct (target_ok d && star_free d) eqn:Hok; cbn in Hw; [|discriminate].
    apply andb_true_iff in Hok as [Hok Hsf].
    destruct (tree_locked st (target_of d)); [discriminate|].
    inversion Hw; subst. clear Hw.
    apply (SInv_delete h st w (victims st d (fun _ => true)) [(d ++ [star], 0)]); auto.
    intros x Hx. exists (IDel (List.length (st_dels st))). split; [left; reflexivity|].
    unfold touches. cbn. rewrite nth_error_app2 by lia. rewrite Nat.sub_diag. cbn.
    apply covers_prefix_star; auto. apply In_victims in Hx. tauto.
Qed.

(** ** Preservation: all steps *)

Lemma with_sub_inv st s f st' :
  with_sub st s f = Some st' ->
  exists sb sb', nth_error (st_subs st) s = Some sb /\ f sb = Some sb' /\
                 st' = set_subs st (upd_nth s (fun _ => sb') (st_subs st)).
Proof.
  unfold with_sub. destruct (nth_error (st_subs st) s) as [sb|]; [|discriminate].
  destruct (f sb) as [sb'|] eqn:E; [|discriminate]. intros [= <-]. eauto.
Qed.

Lemma deliver_qs st it sb : s_qs (deliver st it sb) = s_qs sb.
Proof. unfold deliver. destruct (item_pat st it); [|reflexivity]. destruct (s_end sb); reflexivity. Qed.

Lemma deliver_end st it sb : s_end (deliver st it sb) = s_end sb.
Proof. unfold deliver. destruct (item_pat st it); [|reflexivity]. destruct (s_end sb) eqn:E; cbn; auto. Qed.

Lemma GInv_feed st w it rest :
  GInv st -> nth_error (st_feeds st) w = Some (it :: rest) ->
  GInv (mkState (st_leaves st) (st_dels st) (st_tree st) (set_feed st w rest) (map (deliver st it) (st_subs st)) (st_locks st)).
Proof.
  intros G Hw. set (st' := mkState _ _ _ _ _ _).
  assert (Hold : In (it :: rest) (st_feeds st)) by (eapply nth_error_In; eauto).
  assert (Hsub : forall f0 x, In f0 (st_feeds st') -> In x f0 -> exists f1, In f1 (st_feeds st) /\ In x f1).
  { intros f0 x H1 H2. apply In_set_feed in H1 as [H1| ->]; eauto. exists (it :: rest). split; auto. right. exact H2. }
  assert (Hfo : forall w' x, In x (feed_of st' w') -> In x (feed_of st w')).
  { intros w' x Hx. destruct (Nat.eq_dec w w') as [<-|Hne].
    - unfold st' in Hx. rewrite feed_of_set_feed_eq in Hx.
      + rewrite (nth_error_feed_of _ _ _ Hw). right. exact Hx.
      + apply nth_error_Some. congruence.
    - unfold st' in Hx. rewrite feed_of_set_feed_neq in Hx; auto. }
  constructor.
  - apply (g_nodup _ G).
  - apply (g_leaf _ G).
  - intros p l H. change (In (p, l) (st_tree st)) in H. destruct (g_ok _ G _ _ H) as (x & y & z). repeat split; auto. rewrite <- z.
    apply agree_on_ext. cbn. rewrite map_map. apply map_ext. intros sb. apply deliver_qs.
  - apply (g_pfree _ G).
  - intros f0 x H1 H2. destruct (Hsub _ _ H1 H2) as (f1 & Hf1 & Hx). apply (g_feed_wf _ G _ _ Hf1 Hx).
  - intros f0 l H1 H2. destruct (Hsub _ _ H1 H2) as (f1 & Hf1 & Hx). apply (g_feed_leaf _ G _ _ Hf1 Hx).
  - intros f0 k d H1 H2. destruct (Hsub _ _ H1 H2) as (f1 & Hf1 & Hx). apply (g_feed_del _ G _ _ _ Hf1 Hx).
  - intros w1 w2 x y Hne H1 H2. apply (g_feed_tgt _ G w1 w2); auto.
  - destruct (concat_upd_nth _ _ _ Hw) as (a & b & E1 & E2). unfold allfeed, st', set_feed. cbn [st_feeds]. rewrite E2.
    assert (N := g_feed_nodup _ G). unfold allfeed in N. rewrite E1 in N.
    apply NoDup_remove_1 in N. exact N.
Qed.

Lemma agree_covers st sb q p :
  agree_on st p = true -> In sb (st_subs st) -> In q (s_qs sb) -> compat q p = true -> covers q p = true.
Proof.
  unfold agree_on. intros H Hs Hq Hc. rewrite forallb_forall in H. specialize (H _ Hs).
  rewrite forallb_forall in H. specialize (H _ Hq). rewrite Hc in H. destruct (covers q p); auto.
Qed.


(** ** The per-target write mutex *)

Record LInv (st : state) : Prop := {
  l_len : List.length (st_locks st) = List.length (st_feeds st);
  l_feed : forall w it, In it (feed_of st w) -> exists t, lock_of st w = Some t /\ item_target st it = Some t;
  l_excl : forall w w' t, w <> w' -> lock_of st w = Some t -> lock_of st w' = Some t -> False;
}.

Lemma feed_of_set_lock st w l x : feed_of (set_lock st w l) x = feed_of st x.
Proof. reflexivity. Qed.

Lemma GInv_set_lock st w l : GInv st -> GInv (set_lock st w l).
Proof. intros [a b c d e f g i j]. constructor; auto. Qed.

Lemma lock_of_set_lock_eq st w l : (w < List.length (st_locks st))%nat -> lock_of (set_lock st w l) w = l.
Proof.
  intros H. unfold lock_of, set_lock. cbn. apply nth_error_nth. rewrite nth_error_upd_nth_eq.
  destruct (nth_error (st_locks st) w) eqn:E; [reflexivity|]. apply nth_error_None in E. lia.
Qed.

Lemma lock_of_set_lock_neq st w w' l : w <> w' -> lock_of (set_lock st w l) w' = lock_of st w'.
Proof.
  intros H. unfold lock_of, set_lock. cbn.
  destruct (nth_error (st_locks st) w') eqn:E.
  - rewrite (nth_error_nth _ _ _ E). apply nth_error_nth. rewrite nth_error_upd_nth_neq; auto.
  - rewrite !nth_overflow; auto.
    + apply nth_error_None. exact E.
    + rewrite length_upd_nth. apply nth_error_None. exact E.
Qed.

(** who may take the mutex of [t] finds nobody else announcing on [t] *)
Lemma may_lock_others st w t :
  LInv st -> may_lock st w t = true ->
  forall w' it, w' <> w -> In it (feed_of st w') -> item_target st it <> Some t.
Proof.
  intros L Hm w' it Hne Hin Ht. destruct (l_feed _ L _ _ Hin) as (t' & Hl & Ht'). rewrite Ht in Ht'. inversion Ht'; subst t'.
  unfold may_lock in Hm. destruct (lock_of st w) as [t0|] eqn:Hw.
  - apply String.eqb_eq in Hm. subst t0. eapply (l_excl _ L w w'); eauto.
  - apply negb_true_iff in Hm. unfold held_by_other in Hm.
    assert (existsb (fun w'0 => negb (Nat.eqb w'0 w) &&
              match lock_of st w'0 with Some t' => String.eqb t t' | None => false end)
              (seq 0 (List.length (st_locks st))) = true); [|congruence].
    apply existsb_exists. exists w'. split.
    + apply in_seq. rewrite (l_len _ L). split; [lia|]. cbn. eapply feed_of_lt; eauto.
    + rewrite Hl, String.eqb_refl. apply andb_true_iff. split; auto. apply negb_true_iff, Nat.eqb_neq. exact Hne.
Qed.

Lemma may_lock_excl st w t :
  LInv st -> may_lock st w t = true -> forall w', w' <> w -> lock_of st w' <> Some t.
Proof.
  intros L Hm w' Hne Hl. unfold may_lock in Hm. destruct (lock_of st w) as [t0|] eqn:Hw.
  - apply String.eqb_eq in Hm. subst t0. eapply (l_excl _ L w w'); eauto.
  - apply negb_true_iff in Hm. unfold held_by_other in Hm.
    assert (existsb (fun w'0 => negb (Nat.eqb w'0 w) &&
              match lock_of st w'0 with Some t' => String.eqb t t' | None => false end)
              (seq 0 (List.length (st_locks st))) = true); [|congruence].
    apply existsb_exists. exists w'. split.
    + apply in_seq. split; [lia|]. cbn. unfold lock_of in Hl.
      destruct (Nat.lt_ge_cases w' (List.length (st_locks st))); auto. rewrite nth_overflow in Hl by assumption. discriminate.
    + rewrite Hl, String.eqb_refl. apply andb_true_iff. split; auto. apply negb_true_iff, Nat.eqb_neq. exact Hne.
Qed.

(** what a tree write does to the pending lists, seen from the locks *)
Lemma write_effect h st w o st' r :
  GInv st -> nth_error (st_feeds st) w = Some [] -> write h st w o = Some (st', r) ->
  st_locks st' = st_locks st /\
  List.length (st_feeds st') = List.length (st_feeds st) /\
  (forall it, In it (feed_of st' w) -> item_target st' it = Some (wop_target o)) /\
  (forall w' it, w' <> w -> In it (feed_of st' w') -> In it (feed_of st w') /\ item_target st' it = item_target st it).
Proof.
  intros G Hnth Hw.
  assert (Hlt : (w < List.length (st_feeds st))%nat) by (apply nth_error_Some; congruence).
  assert (Hempty := nth_error_feed_of _ _ _ Hnth).
  assert (SAME : st' = st ->
     st_locks st' = st_locks st /\ List.length (st_feeds st') = List.length (st_feeds st) /\
     (forall it, In it (feed_of st' w) -> item_target st' it = Some (wop_target o)) /\
     (forall w' it, w' <> w -> In it (feed_of st' w') -> In it (feed_of st w') /\ item_target st' it = item_target st it)).
  { intros ->. repeat split; auto. intros it Hin. rewrite Hempty in Hin. contradiction. }
  (* the generic shape: pending list of w replaced, stores extended *)
  assert (GEN : forall lv dl tr f,
     st' = mkState lv dl tr (set_feed st w f) (st_subs st) (st_locks st) ->
     ext st st' ->
     (forall it, In it f -> item_target st' it = Some (wop_target o)) ->
     st_locks st' = st_locks st /\ List.length (st_feeds st') = List.length (st_feeds st) /\
     (forall it, In it (feed_of st' w) -> item_target st' it = Some (wop_target o)) /\
     (forall w' it, w' <> w -> In it (feed_of st' w') -> In it (feed_of st w') /\ item_target st' it = item_target st it)).
  { intros lv dl tr f -> E Hf. split; [reflexivity|]. split; [cbn; unfold set_feed; apply length_upd_nth|]. split.
    - intros it Hin. rewrite feed_of_set_feed_eq in Hin by assumption. auto.
    - intros w' it Hne Hin. rewrite feed_of_set_feed_neq in Hin by auto. split; auto.
      destruct (wf_exists _ G _ _ (feed_of_In _ _ _ Hin) Hin) as [d Hd]. eapply ext_target; eauto. }
  destruct o as [p v ts|d ts order|d]; cbn in Hw.
  - destruct (negb _); [discriminate|]. destruct (h_agree h && negb _); [discriminate|].
    destruct (tlookup p (st_tree st)) as [l|] eqn:Hl.
    + destruct (leaf_cont st l) as [[v0 ts0]|] eqn:Hc; [|discriminate].
      destruct (ts <? ts0); [inversion Hw; subst; apply SAME; reflexivity|].
      destruct ((ts =? ts0) && (v =? v0)); [inversion Hw; subst; apply SAME; reflexivity|].
      inversion Hw; subst. clear Hw. eapply GEN; [reflexivity| |].
      * intros [l'|k|] d; cbn; auto. unfold leaf_path. cbn. rewrite leaf_path_upd. auto.
      * intros it Hin. destruct (h_ed h && (v =? v0)); [contradiction|]. destruct Hin as [<-|[]].
        unfold item_target. cbn. unfold leaf_path. cbn. rewrite leaf_path_upd.
        fold (leaf_path st l). rewrite (tlookup_leaf _ _ _ G Hl). reflexivity.
    + destruct (conflicts st p); [inversion Hw; subst; apply SAME; reflexivity|].
      inversion Hw; subst. clear Hw. eapply GEN; [reflexivity| |].
      * intros [l'|k|] d; cbn; auto. unfold leaf_path. cbn. apply option_map_nth_app.
      * intros it [<-|[]]. unfold item_target. cbn. unfold leaf_path. cbn.
        rewrite nth_error_app2 by lia. rewrite Nat.sub_diag. reflexivity.
  - destruct (target_ok d) eqn:Hok; cbn in Hw; [|discriminate].
    destruct (tree_locked st (target_of d)); [discriminate|].
    inversion Hw; subst. clear Hw. eapply GEN; [reflexivity| |].
    + intros [l'|k|] d0; cbn; auto. apply option_map_nth_app.
    + intros it Hin. apply in_map_iff in Hin as (k & <- & Hk). apply in_seq in Hk.
      unfold item_target. cbn. rewrite nth_error_app2 by lia.
      destruct (nth_error (map (fun pl : path * nat => (fst pl, ts)) (reorder order (victims st d (fun c => snd c <? ts))))
                          (k - List.length (st_dels st))) as [[pv tv]|] eqn:X.
      * cbn. f_equal. apply nth_error_In in X. apply in_map_iff in X as ([pv' lv'] & [= <- <-] & Hin).
        apply In_reorder in Hin. apply In_victims in Hin as [_ Hc]. symmetry. apply covers_target; auto.
      * apply nth_error_None in X. rewrite map_length in X. lia.
  - destruct (target_ok d && star_free d) eqn:Hok; cbn in Hw; [|discriminate].
    apply andb_true_iff in Hok as [Hok Hsf].
    destruct (tree_locked st (target_of d)); [discriminate|].
    inversion Hw; subst. clear Hw. eapply GEN; [reflexivity| |].
    + intros [l'|k|] d0; cbn; auto. apply option_map_nth_app.
    + intros it [<-|[]]. unfold item_target. cbn. rewrite nth_error_app2 by lia. rewrite Nat.sub_diag. cbn.
      f_equal. apply target_of_app. exact Hok.
Qed.

Lemma LInv_frame st st' :
  st_leaves st' = st_leaves st -> st_dels st' = st_dels st -> st_feeds st' = st_feeds st ->
  st_locks st' = st_locks st -> LInv st -> LInv st'.
Proof.
  destruct st as [a b c d e f0], st' as [a' b' c' d' e' f0']. cbn. intros -> -> -> -> [A B C].
  constructor; auto.
Qed.

Lemma step_LInv h st lb st' : GInv st -> LInv st -> step h st lb = Some st' -> LInv st'.
Proof.
  intros G L Hstep.
  assert (SUB : forall s f, with_sub st s f = Some st' -> LInv st').
  { intros s f H. apply with_sub_inv in H as (sb & sb' & _ & _ & ->). apply (LInv_frame st); auto. }
  destruct lb as [w o|w|s|s|s|s p0|s|s|s|s|s|s|w|s|s]; unfold step in Hstep; cbn in Hstep; try (eapply SUB; eauto; fail).
  - (* LWrite *)
    destruct (nth_error (st_feeds st) w) as [[|]|] eqn:Hw; try discriminate.
    destruct (may_lock st w (wop_target o)) eqn:Hm; [|discriminate].
    destruct (write h st w o) as [[st1 r]|] eqn:Hwr; [|discriminate]. cbn in Hstep. inversion Hstep; subst st'. clear Hstep.
    destruct (write_effect _ _ _ _ _ _ G Hw Hwr) as (E1 & E2 & E3 & E4).
    assert (Hlt : (w < List.length (st_locks st1))%nat).
    { rewrite E1, (l_len _ L). apply nth_error_Some. congruence. }
    assert (FO : forall x, feed_of (set_lock st1 w (Some (wop_target o))) x = feed_of st1 x) by reflexivity.
    assert (IT : forall it, item_target (set_lock st1 w (Some (wop_target o))) it = item_target st1 it) by reflexivity.
    constructor.
    + cbn. rewrite length_upd_nth, E1, E2. apply (l_len _ L).
    + intros x it Hin. rewrite FO in Hin. rewrite IT. destruct (Nat.eq_dec x w) as [->|Hne].
      * rewrite lock_of_set_lock_eq by assumption. exists (wop_target o). split; auto.
      * rewrite lock_of_set_lock_neq by auto. destruct (E4 _ _ Hne Hin) as [Hin' Hit]. rewrite Hit.
        unfold lock_of. rewrite E1. apply (l_feed _ L _ _ Hin').
    + intros x y t Hne Hx Hy.
      assert (LO : forall z, z <> w -> lock_of (set_lock st1 w (Some (wop_target o))) z = lock_of st z).
      { intros z Hz. rewrite lock_of_set_lock_neq by auto. unfold lock_of. rewrite E1. reflexivity. }
      destruct (Nat.eq_dec x w) as [->|Hxw]; destruct (Nat.eq_dec y w) as [->|Hyw]; try congruence.
      * rewrite lock_of_set_lock_eq in Hx by assumption. inversion Hx; subst t. rewrite LO in Hy by auto.
        eapply (may_lock_excl _ _ _ L Hm y); eauto.
      * rewrite lock_of_set_lock_eq in Hy by assumption. inversion Hy; subst t. rewrite LO in Hx by auto.
        eapply (may_lock_excl _ _ _ L Hm x); eauto.
      * rewrite LO in Hx, Hy by auto. eapply (l_excl _ L x y); eauto.
  - (* LFeed *)
    destruct (nth_error (st_feeds st) w) as [[|it rest]|] eqn:Hw; try discriminate. inversion Hstep; subst st'. clear Hstep.
    assert (Hlt : (w < List.length (st_feeds st))%nat) by (apply nth_error_Some; congruence).
    constructor.
    + cbn. unfold set_feed. rewrite length_upd_nth. apply (l_len _ L).
    + intros x y Hin. change (lock_of _ x) with (lock_of st x).
      assert (Hin' : In y (feed_of st x)).
      { destruct (Nat.eq_dec w x) as [<-|Hne].
        - rewrite feed_of_set_feed_eq in Hin by assumption. rewrite (nth_error_feed_of _ _ _ Hw). right. exact Hin.
        - rewrite feed_of_set_feed_neq in Hin by auto. exact Hin. }
      apply (l_feed _ L _ _ Hin').
    + apply (l_excl _ L).
  - (* LUnlock *)
    destruct (nth_error (st_feeds st) w) as [[|]|] eqn:Hw; try discriminate.
    destruct (lock_of st w) eqn:Hl; [|discriminate]. inversion Hstep; subst st'. clear Hstep.
    assert (Hlt : (w < List.length (st_locks st))%nat).
    { rewrite (l_len _ L). apply nth_error_Some. congruence. }
    constructor.
    + cbn. rewrite length_upd_nth. apply (l_len _ L).
    + intros x it Hin. change (feed_of _ x) with (feed_of st x) in Hin. change (item_target _ it) with (item_target st it).
      destruct (Nat.eq_dec x w) as [->|Hne].
      * rewrite (nth_error_feed_of _ _ _ Hw) in Hin. contradiction.
      * rewrite lock_of_set_lock_neq by auto. apply (l_feed _ L _ _ Hin).
    + intros x y t Hne Hx Hy.
      destruct (Nat.eq_dec x w) as [->|Hxw]; [rewrite lock_of_set_lock_eq in Hx by assumption; discriminate|].
      destruct (Nat.eq_dec y w) as [->|Hyw]; [rewrite lock_of_set_lock_eq in Hy by assumption; discriminate|].
      rewrite lock_of_set_lock_neq in Hx, Hy by auto. eapply (l_excl _ L x y); eauto.
Qed.

Lemma LInv_init nw subs : LInv (init nw subs).
Proof.
  constructor; cbn.
  - rewrite !repeat_length. reflexivity.
  - intros w it Hin. exfalso. unfold feed_of in Hin. cbn in Hin.
    destruct (nth_in_or_default w (repeat (@nil item) nw) []) as [H|H].
    + apply repeat_spec in H. rewrite H in Hin. contradiction.
    + rewrite H in Hin. contradiction.
  - intros w w' t _ Hw. exfalso. unfold lock_of in Hw. cbn in Hw.
    destruct (nth_in_or_default w (repeat (@None string) nw) None) as [H|H].
    + apply repeat_spec in H. rewrite H in Hw. discriminate.
    + rewrite H in Hw. discriminate.
Qed.

Lemma step_Inv h st lb st' : strict h -> LInv st -> Inv h st -> step h st lb = Some st' -> Inv h st'.
Proof.
  intros Hs L I Hstep. assert (G := proj1 I). destruct lb as [w o|w|s|s|s|s p0|s|s|s|s|s|s|w|s|s]; unfold step in Hstep; cbn in Hstep.
  - (* LWrite *)
    destruct (nth_error (st_feeds st) w) as [[|]|] eqn:Hw; try discriminate.
    destruct (may_lock st w (wop_target o)) eqn:Hm; [|discriminate].
    destruct (write h st w o) as [[st1 r]|] eqn:Hwr; [|discriminate]. cbn in Hstep. inversion Hstep; subst st'.
    assert (G' : GInv st1) by (eapply write_GInv; eauto; apply may_lock_others; auto).
    split; [apply GInv_set_lock; auto|]. cbn. rewrite (write_subs _ _ _ _ _ _ Hwr). intros i sb Hi He.
    apply (SInv_frame h st1); auto.
    apply (write_SInv h st w o st1 r sb G G' Hw Hwr). apply (proj2 I _ _ Hi He).
  - (* LFeed *)
    destruct (nth_error (st_feeds st) w) as [[|it rest]|] eqn:Hw; try discriminate.
    inversion Hstep; subst st'. split; [apply GInv_feed; auto|].
    cbn. intros i sb' Hi He. rewrite nth_error_map in Hi.
    destruct (nth_error (st_subs st) i) as [sb|] eqn:Hsb; [|discriminate]. inversion Hi; subst sb'.
    rewrite deliver_end in He. apply SInv_feed; auto. apply (proj2 I _ _ Hsb He).
  - (* LReg *)
    apply with_sub_inv in Hstep as (sb & sb' & Hsb & Hf & ->).
    destruct (s_pc sb) as [k| | |] eqn:Hpc; try discriminate.
    match type of Hf with (if ?c then _ else _) = _ => destruct c; [|discriminate] end. inversion Hf; subst sb'.
    eapply Inv_sub_step; eauto. intros S _. apply SInv_reg; auto.
  - (* LRegDone *)
    apply with_sub_inv in Hstep as (sb & sb' & Hsb & Hf & ->).
    destruct (s_pc sb) as [k| | |] eqn:Hpc; try discriminate.
    destruct (k =? List.length (s_qs sb))%nat eqn:Hk; [|discriminate]. apply Nat.eqb_eq in Hk.
    inversion Hf; subst sb'. eapply Inv_sub_step; eauto. intros S _.
    apply (SInv_repc h st sb _ (s_snap sb)); auto.
    + unfold regq. cbn. rewrite Hpc. subst k. rewrite firstn_all. destruct (s_uo sb); reflexivity.
    + intros p l Hl Hp [Huo _]. left. split; auto. cbn. rewrite Huo.
      unfold reg_match, regq in Hp. rewrite Hpc in Hp. subst k. rewrite firstn_all in Hp.
      apply existsb_exists in Hp as (q & Hq & Hc).
      apply In_nth_error in Hq as Hq'. destruct Hq' as [j Hj]. exists j, q. split; [lia|]. split; auto.
      eapply agree_covers; eauto.
      * apply (g_ok _ G _ _ (tlookup_In _ _ _ Hl)).
      * eapply nth_error_In; eauto.
  - (* LWalkBegin *)
    apply with_sub_inv in Hstep as (sb & sb' & Hsb & Hf & ->).
    destruct (s_pc sb) as [|k| |] eqn:Hpc; try discriminate.
    destruct (nth_error (s_qs sb) k) as [q|] eqn:Hq; [|discriminate]. inversion Hf; subst sb'.
    eapply Inv_sub_step; eauto. intros S _.
    apply (SInv_repc h st sb); auto.
    + unfold regq. cbn. rewrite Hpc. reflexivity.
    + intros p l Hl Hp [Huo Hwp]. left. split; auto. rewrite Hpc in Hwp. cbn.
      destruct Hwp as (j & q' & Hj & Hq' & Hc). destruct (Nat.eq_dec j k) as [->|Hne].
      * right. exists q'. split; auto. split; auto. rewrite Hq in Hq'. inversion Hq'; subst q'.
        apply in_map_iff. exists (p, l). split; auto. apply filter_In. split; [apply tlookup_In; auto|exact Hc].
      * left. exists j, q'. split; [lia|auto].
  - (* LVisit *)
    apply with_sub_inv in Hstep as (sb & sb' & Hsb & Hf & ->).
    destruct (s_pc sb) as [| |k todo|] eqn:Hpc; try discriminate.
    destruct (nth_error (s_qs sb) k) as [q|] eqn:Hq; [|discriminate].
    destruct (tlookup p0 (st_tree st)) as [l0|] eqn:Hl0; [|discriminate].
    destruct (covers q p0) eqn:Hc0; [|discriminate]. inversion Hf; subst sb'.
    eapply Inv_sub_step; eauto. cbn. intros S He. rewrite He.
    assert (Hrm : reg_match sb p0 = true).
    { unfold reg_match, regq. rewrite Hpc. apply existsb_exists. exists q. split; [eapply nth_error_In; eauto|].
      apply covers_compat. exact Hc0. }
    assert (S1 := SInv_insert h st sb (ILeaf l0) G S (or_intror (ex_intro _ l0 (ex_intro _ p0 (conj eq_refl (conj Hl0 Hrm)))))).
    apply (SInv_repc h st (set_queue sb (q_insert (ILeaf l0) (s_queue sb)))
             (SWalk k (filter (fun x => negb (Nat.eqb x l0)) todo)) (s_snap sb)); auto.
    + unfold regq. cbn. rewrite Hpc. reflexivity.
    + intros p l Hl Hp [Huo Hwp]. cbn in Hwp. rewrite Hpc in Hwp.
      destruct Hwp as [Hwp|(q' & Hq' & Hc & Hin)].
      * left. split; auto. cbn. left. exact Hwp.
      * destruct (Nat.eq_dec l l0) as [->|Hne].
        -- right. apply in_app_iff. left. apply In_iq_insert. auto.
        -- left. split; auto. cbn. right. exists q'. split; auto. split; auto.
           apply filter_In. split; auto. apply negb_true_iff. apply Nat.eqb_neq. exact Hne.
  - (* LWalkEnd *)
    apply with_sub_inv in Hstep as (sb & sb' & Hsb & Hf & ->).
    destruct (s_pc sb) as [| |k [|]|] eqn:Hpc; try discriminate. inversion Hf; subst sb'.
    eapply Inv_sub_step; eauto. intros S _.
    apply (SInv_repc h st sb _ (s_snap sb)); auto.
    + unfold regq. cbn. rewrite Hpc. reflexivity.
    + intros p l Hl Hp [Huo Hwp]. rewrite Hpc in Hwp. left. split; auto. cbn.
      destruct Hwp as [(j & q & Hj & Hq & Hc)|(q & _ & _ & [])]. exists j, q. split; [lia|auto].
  - (* LSync *)
    apply with_sub_inv in Hstep as (sb & sb' & Hsb & Hf & ->).
    destruct (s_pc sb) as [|k| |] eqn:Hpc; try discriminate.
    destruct (k =? List.length (s_qs sb))%nat eqn:Hk; [|discriminate]. apply Nat.eqb_eq in Hk.
    inversion Hf; subst sb'. eapply Inv_sub_step; eauto. cbn. intros S He. rewrite He.
    assert (S1 := SInv_insert h st sb ISync G S (or_introl eq_refl)).
    apply (SInv_repc h st (set_queue sb (q_insert ISync (s_queue sb))) SDone (s_snap sb)); auto.
    + unfold regq. cbn. rewrite Hpc. reflexivity.
    + intros p l Hl Hp [Huo Hwp]. cbn in Hwp. rewrite Hpc in Hwp.
      destruct Hwp as (j & q & Hj & Hq & _). exfalso.
      assert (j < List.length (s_qs sb))%nat by (apply nth_error_Some; congruence). lia.
  - (* LDeq *)
    apply with_sub_inv in Hstep as (sb & sb' & Hsb & Hf & ->).
    destruct (is_registered sb && negb (s_end sb)) eqn:Hg; [|discriminate].
    apply andb_true_iff in Hg as [_ Hg]. apply negb_true_iff in Hg.
    destruct (s_infl sb) eqn:Hi; [discriminate|]. destruct (s_out sb) eqn:Ho; [discriminate|].
    destruct (s_queue sb) as [|x q'] eqn:Hq; [discriminate|]. inversion Hf; subst sb'.
    eapply Inv_sub_step; eauto. intros S _. apply SInv_deq; auto.
  - (* LRead *)
    apply with_sub_inv in Hstep as (sb & sb' & Hsb & Hf & ->).
    destruct (s_end sb) eqn:He; [discriminate|].
    destruct (s_infl sb) as [[it d]|] eqn:Hi; [|discriminate].
    destruct (build st it d) as [r|] eqn:Hb; [|discriminate]. inversion Hf; subst sb'.
    eapply Inv_sub_step; eauto. intros S _. eapply SInv_read; eauto.
  - (* LSent *)
    apply with_sub_inv in Hstep as (sb & sb' & Hsb & Hf & ->).
    destruct (s_end sb) eqn:He; [discriminate|].
    destruct (s_out sb) as [r|] eqn:Ho; [|discriminate]. inversion Hf; subst sb'.
    eapply Inv_sub_step; eauto. intros S _. eapply SInv_sent; eauto.
  - (* LTimeout *)
    apply with_sub_inv in Hstep as (sb & sb' & Hsb & Hf & ->).
    destruct (s_end sb) eqn:He; [discriminate|].
    destruct (s_out sb) as [[]|] eqn:Ho; try discriminate; inversion Hf; subst sb';
      (eapply Inv_sub_step; eauto; cbn; discriminate).
  - (* LUnlock *)
    destruct (nth_error (st_feeds st) w) as [[|]|]; try discriminate.
    destruct (lock_of st w); [|discriminate]. inversion Hstep; subst st'.
    split; [apply GInv_set_lock; auto|]. cbn. intros i sb Hi He. apply (SInv_frame h st); auto. apply (proj2 I _ _ Hi He).
  - (* LCancel: the subscriber is ended from now on *)
    apply with_sub_inv in Hstep as (sb & sb' & Hsb & Hf & ->).
    destruct (is_registered sb && negb (s_end sb)); [|discriminate]. inversion Hf; subst sb'.
    eapply Inv_sub_step; eauto; cbn; discriminate.
  - (* LUnreg: only ended subscribers *)
    apply with_sub_inv in Hstep as (sb & sb' & Hsb & Hf & ->).
    destruct (s_end sb) eqn:He; [|discriminate].
    assert (He' : s_end sb' = true).
    { destruct (s_pc sb) as [[|k]| | |]; try discriminate.
      - inversion Hf; subst; exact He.
      - destruct (List.length (s_qs sb)); [discriminate|]. inversion Hf; subst; exact He. }
    assert (Hq : s_qs sb' = s_qs sb).
    { destruct (s_pc sb) as [[|k]| | |]; try discriminate; [inversion Hf; reflexivity|].
      destruct (List.length (s_qs sb)); [discriminate|]. inversion Hf; reflexivity. }
    eapply Inv_sub_step; eauto; congruence.
Qed.

(** ** The theorems of C04 *)

Lemma Inv_init h nw subs : Inv h (init nw subs).
Proof.
  split; [apply GInv_init|]. cbn. intros i sb Hi _. rewrite nth_error_map in Hi.
  destruct (nth_error subs i) as [[qs uo]|]; [|discriminate]. inversion Hi; subst sb. cbn.
  constructor; cbn.
  - intros H. exfalso. apply H. reflexivity.
  - unfold iq, infl_list. cbn. destruct uo; cbn; intros it H; [destruct H as [<-|[]]; auto|contradiction].
  - unfold iq, infl_list. cbn. destruct uo; cbn; intros l p H; [destruct H as [?|[]]; discriminate|contradiction].
  - unfold so. cbn. intros p v ts d [].
  - unfold iq, infl_list. cbn. destruct uo; cbn; intros k H; [destruct H as [?|[]]; discriminate|contradiction].
  - intros p l H. discriminate.
  - unfold reg_match, regq. cbn. intros p H. discriminate.
Qed.

Lemma reachable_Inv_L h nw subs st : strict h -> reachable h nw subs st -> Inv h st /\ LInv st.
Proof.
  intros Hs [sch Hr]. revert Hr. generalize (Inv_init h nw subs) (LInv_init nw subs). generalize (init nw subs).
  unfold run. induction sch as [|lb sch IH]; intros s0 I L Hr; cbn in Hr.
  - inversion Hr; subst. auto.
  - fold (step h s0 lb) in Hr. destruct (step h s0 lb) as [s1|] eqn:E; [|discriminate]. apply (IH s1); auto.
    + eapply step_Inv; eauto.
    + eapply step_LInv; eauto. apply I.
Qed.

Theorem writers_exclusive h nw subs st :
  strict h -> reachable h nw subs st ->
  (forall w it, In it (feed_of st w) -> exists t, lock_of st w = Some t /\ item_target st it = Some t) /\
  (forall w w' t, w <> w' -> lock_of st w = Some t -> lock_of st w' = Some t -> False).
Proof.
  intros Hs Hr. destruct (reachable_Inv_L _ _ _ _ Hs Hr) as [_ L]. split; [apply (l_feed _ L)|apply (l_excl _ L)].
Qed.

Lemma reachable_Inv h nw subs st : strict h -> reachable h nw subs st -> Inv h st.
Proof. intros Hs Hr. apply (reachable_Inv_L _ _ _ _ Hs Hr). Qed.

Theorem stream_invariant h nw subs st :
  strict h -> reachable h nw subs st ->
  forall i sb, nth_error (st_subs st) i = Some sb -> s_end sb = false ->
    walk_done sb = true -> s_uo sb = false ->
    forall p, sub_matches sb p = true ->
      option_map (proj h) (replay_path p None (full_stream st sb)) = option_map (proj h) (cache_at st p).
Proof.
  intros Hs Hr i sb Hi He Hw Huo p Hp.
  destruct (reachable_Inv _ _ _ _ Hs Hr) as [G S]. specialize (S _ _ Hi He).
  assert (Hpc : s_pc sb = SDone) by (unfold walk_done in Hw; destruct (s_pc sb); congruence).
  destruct (converged h st sb p G S (sub_matches_reg _ _ Hpc Hp)) as [H|(H & _)]; auto; [|congruence].
  destruct (tlookup p (st_tree st)); auto. intros [_ W]. rewrite Hpc in W. exact W.
Qed.

Lemma quiescent_stream st sb :
  quiescent st -> In sb (st_subs st) -> s_end sb = false -> full_stream st sb = s_sent sb.
Proof.
  intros [Q1 Q2] Hin He. destruct (Q2 _ Hin He) as (_ & Hq & Hi & Ho).
  unfold full_stream, out_list, tail_items. rewrite Hq, Hi, Ho. cbn.
  assert (pending_feed st sb = []) as ->.
  { unfold pending_feed. induction (st_feeds st) as [|f fs IH]; cbn; auto.
    rewrite (Q1 f) by (left; reflexivity). cbn. apply IH. intros f' Hf'. apply Q1. right. exact Hf'. }
  cbn. apply app_nil_r.
Qed.

Theorem stream_converges h nw subs st :
  strict h -> reachable h nw subs st -> quiescent st ->
  forall i sb, nth_error (st_subs st) i = Some sb -> s_end sb = false -> s_uo sb = false ->
    forall p, sub_matches sb p = true ->
      option_map (proj h) (replay_path p None (s_sent sb)) = option_map (proj h) (cache_at st p).
Proof.
  intros Hs Hr Q i sb Hi He Huo p Hp.
  rewrite <- (quiescent_stream st sb Q (nth_error_In _ _ Hi) He).
  eapply stream_invariant; eauto.
  destruct Q as [_ Q2]. destruct (Q2 _ (nth_error_In _ _ Hi) He) as (Hpc & _). unfold walk_done. rewrite Hpc. reflexivity.
Qed.

(** An updates_only subscriber never holds a wrong value: for every path one
    of its registered queries is compatible with, replaying its stream gives
    the cache's content, or nothing (it was not told about a leaf that existed
    before it subscribed and has not changed since). *)
Theorem updates_only_never_wrong h nw subs st :
  strict h -> reachable h nw subs st ->
  forall i sb, nth_error (st_subs st) i = Some sb -> s_end sb = false -> s_uo sb = true ->
    forall p, reg_match sb p = true ->
      option_map (proj h) (replay_path p None (full_stream st sb)) = option_map (proj h) (cache_at st p)
      \/ (cache_at st p <> None /\ replay_path p None (full_stream st sb) = None).
Proof.
  intros Hs Hr i sb Hi He Huo p Hp.
  destruct (reachable_Inv _ _ _ _ Hs Hr) as [G S]. specialize (S _ _ Hi He).
  destruct (converged h st sb p G S Hp) as [H|(_ & H)]; auto.
  destruct (tlookup p (st_tree st)); auto. intros [W _]. congruence.
Qed.

(** No lost update: as soon as the tree write of an accepted change to a leaf
    has happened, the leaf's handle is on its way to every live subscriber
    with a registered compatible query (in the writer's pending list, the
    queue, or the sender's hand), and it stays there until the sender reads
    the leaf's then-current value ([stream_invariant] is what "stays" means). *)
Theorem no_lost_update h nw subs st w p v ts st' :
  strict h -> reachable h nw subs st ->
  step h st (LWrite w (WUpd p v ts)) = Some st' ->
  forall l, In (ILeaf l) (feed_of st' w) ->
    leaf_path st' l = Some p /\ leaf_cont st' l = Some (v, ts) /\ tlookup p (st_tree st') = Some l /\
    forall sb, In sb (st_subs st') -> reg_match sb p = true -> In (ILeaf l) (pending_feed st' sb).
Proof.
  intros Hs Hr. destruct (reachable_Inv _ _ _ _ Hs Hr) as [G _]. revert G.
  unfold step. cbn. destruct (nth_error (st_feeds st) w) as [[|]|] eqn:Hw; try discriminate.
  destruct (may_lock st w (target_of p)); [|discriminate].
  destruct (negb _); [discriminate|].
  destruct (h_agree h && negb (agree_on st p)); [discriminate|].
  assert (Hlt : (w < List.length (st_feeds st))%nat) by (apply nth_error_Some; congruence).
  assert (PF : forall st1 l sb, In (ILeaf l) (feed_of st1 w) -> leaf_path st1 l = Some p ->
               reg_match sb p = true -> In (ILeaf l) (pending_feed st1 sb)).
  { intros st1 l sb Hin Hlp Hr'. unfold pending_feed. apply in_flat_map. exists (feed_of st1 w).
    split; [eapply feed_of_In; eauto|]. apply filter_In. split; auto. cbn. rewrite Hlp.
    unfold mult. unfold reg_match in Hr'. rewrite Hr'. reflexivity. }
  intros G. destruct (tlookup p (st_tree st)) as [l0|] eqn:Hl.
  - destruct (leaf_cont st l0) as [[v0 ts0]|] eqn:Hc; [|discriminate].
    destruct (ts <? ts0); [cbn; intros [= <-] l Hin; change (In (ILeaf l) (feed_of st w)) in Hin; rewrite (nth_error_feed_of _ _ _ Hw) in Hin; contradiction|].
    destruct ((ts =? ts0) && (v =? v0)); [cbn; intros [= <-] l Hin; change (In (ILeaf l) (feed_of st w)) in Hin; rewrite (nth_error_feed_of _ _ _ Hw) in Hin; contradiction|].
    cbn. intros [= <-] l Hin. rewrite feed_of_set_lock in Hin. assert (Hin' := Hin). rewrite feed_of_set_feed_eq in Hin by assumption.
    destruct (h_ed h && (v =? v0)); [contradiction|]. destruct Hin as [[= <-]|[]].
    assert (Hlp := tlookup_leaf _ _ _ G Hl). unfold leaf_path in Hlp.
    destruct (nth_error (st_leaves st) l0) as [[p' c0]|] eqn:X; [|discriminate]. cbn in Hlp. inversion Hlp; subst p'.
    assert (L1 : leaf_path (mkState (upd_nth l0 (fun pc => (fst pc, (v, ts))) (st_leaves st)) (st_dels st) (st_tree st)
                              (set_feed st w [ILeaf l0]) (st_subs st) (upd_nth w (fun _ => Some (target_of p)) (st_locks st))) l0 = Some p).
    { unfold leaf_path. cbn. rewrite nth_error_upd_nth_eq, X. reflexivity. }
    split; [exact L1|]. split; [unfold leaf_cont; cbn; rewrite nth_error_upd_nth_eq, X; reflexivity|].
    split; [exact Hl|]. intros sb _ Hrm. apply PF; auto.
  - destruct (conflicts st p); [cbn; intros [= <-] l Hin; change (In (ILeaf l) (feed_of st w)) in Hin; rewrite (nth_error_feed_of _ _ _ Hw) in Hin; contradiction|].
    cbn. intros [= <-] l Hin. rewrite feed_of_set_lock in Hin. assert (Hin' := Hin). rewrite feed_of_set_feed_eq in Hin by assumption. destruct Hin as [[= <-]|[]].
    assert (L1 : leaf_path (mkState (st_leaves st ++ [(p, (v, ts))]) (st_dels st) (st_tree st ++ [(p, List.length (st_leaves st))])
                              (set_feed st w [ILeaf (List.length (st_leaves st))]) (st_subs st) (upd_nth w (fun _ => Some (target_of p)) (st_locks st))) (List.length (st_leaves st)) = Some p).
    { unfold leaf_path. cbn. rewrite nth_error_app2 by lia. rewrite Nat.sub_diag. reflexivity. }
    split; [exact L1|]. split; [unfold leaf_cont; cbn; rewrite nth_error_app2 by lia; rewrite Nat.sub_diag; reflexivity|].
    split; [cbn; rewrite tlookup_app, Hl; cbn; rewrite path_eqb_refl; reflexivity|].
    intros sb _ Hrm. apply PF; auto.
Qed.

(** ** Without the one-write-in-flight hypothesis the statement is false *)

Definition quiescentb (st : state) : bool :=
  forallb (fun f : list item => match f with [] => true | _ => false end) (st_feeds st)
  && forallb (fun s => s_end s || (match s_pc s with SDone => true | _ => false end
                                   && match s_queue s with [] => true | _ => false end
                                   && match s_infl s with None => true | _ => false end
                                   && match s_out s with None => true | _ => false end)) (st_subs st).

Lemma quiescentb_sound st : quiescentb st = true -> quiescent st.
Proof.
  unfold quiescentb, quiescent. intros H. apply andb_true_iff in H as [H1 H2]. split.
  - intros f Hf. rewrite forallb_forall in H1. specialize (H1 _ Hf). destruct f; [reflexivity|discriminate].
  - intros s Hs He. rewrite forallb_forall in H2. specialize (H2 _ Hs). rewrite He in H2. cbn in H2.
    destruct (s_pc s); try discriminate. destruct (s_queue s); try discriminate.
    destruct (s_infl s); try discriminate. destruct (s_out s); try discriminate. auto.
Qed.

Definition kf_path : path := ["t1"; "b"]%string.
Definition kf_hyps : hyps := mkHyps true false.
Definition kf_schedule : list label :=
  [LWrite 0 (WUpd kf_path 1 1); LFeed 0;
   LReg 0; LRegDone 0; LWalkBegin 0; LVisit 0 kf_path; LWalkEnd 0; LSync 0;
   LDeq 0; LRead 0; LSent 0; LDeq 0; LRead 0; LSent 0;
   LWrite 0 (WUpd kf_path 5 5);              (* writer 0: tree write, announcement pending *)
   LWrite 1 (WDel kf_path 10 []); LFeed 1;   (* writer 1: delete, announced *)
   LFeed 0;                                  (* writer 0's announcement overtaken *)
   LDeq 0; LRead 0; LSent 0; LDeq 0; LRead 0; LSent 0].
Definition kf_subs : list (list path * bool) := [([["t1"]%string], false)].
Definition kf_state : state :=
  match run_gen false kf_hyps (init 2 kf_subs) kf_schedule with Some s => s | None => init 2 kf_subs end.

Lemma stream_converges_refuted :
  exists h nw subs st,
    h_agree h = true /\
    reachable_unlocked h nw subs st /\ quiescent st /\
    exists sb p, nth_error (st_subs st) 0 = Some sb /\ s_end sb = false /\ s_uo sb = false /\
      sub_matches sb p = true /\
      s_sent sb = [RUpd p 1 1 0; RSync; RDel p 10; RUpd p 5 5 0] /\
      cache_at st p = None /\
      option_map (proj h) (replay_path p None (s_sent sb)) <> option_map (proj h) (cache_at st p).
Proof.
  exists kf_hyps, 2%nat, kf_subs, kf_state. split; [reflexivity|].
  split; [exists kf_schedule; vm_compute; reflexivity|].
  split; [apply quiescentb_sound; vm_compute; reflexivity|].
  eexists. exists kf_path. split; [vm_compute; reflexivity|].
  split; [vm_compute; reflexivity|]. split; [vm_compute; reflexivity|]. split; [vm_compute; reflexivity|].
  split; [vm_compute; reflexivity|]. split; [vm_compute; reflexivity|]. vm_compute. discriminate.
Qed.

(** Non-vacuity of [stream_invariant] / [stream_converges]: a reachable,
    quiescent state of the strict system with a live subscriber whose walk is
    done, a matching cached leaf, and a stream that delivered it. *)
Definition ex_hyps : hyps := mkHyps true true.
Definition ex_schedule : list label :=
  [LWrite 0 (WUpd kf_path 1 1); LFeed 0; LUnlock 0;
   LReg 0; LRegDone 0;
   LWrite 0 (WUpd kf_path 2 2);               (* lands between registration and walk *)
   LWalkBegin 0; LVisit 0 kf_path; LWalkEnd 0; LSync 0; LFeed 0; LUnlock 0;
   LDeq 0; LRead 0; LSent 0; LDeq 0; LRead 0; LSent 0].
Definition ex_state : state :=
  match run ex_hyps (init 1 kf_subs) ex_schedule with Some s => s | None => init 1 kf_subs end.

Example stream_converges_example :
  strict ex_hyps /\ reachable ex_hyps 1 kf_subs ex_state /\ quiescent ex_state /\
  exists sb, nth_error (st_subs ex_state) 0 = Some sb /\ s_end sb = false /\ s_uo sb = false /\
    walk_done sb = true /\ sub_matches sb kf_path = true /\
    s_sent sb = [RUpd kf_path 2 2 1; RSync] /\ cache_at ex_state kf_path = Some (2, 2).
Proof.
  split; [reflexivity|]. split; [exists ex_schedule; vm_compute; reflexivity|].
  split; [apply quiescentb_sound; vm_compute; reflexivity|].
  eexists. split; [vm_compute; reflexivity|].
  split; [vm_compute; reflexivity|]. split; [vm_compute; reflexivity|]. split; [vm_compute; reflexivity|].
  split; [vm_compute; reflexivity|]. split; vm_compute; reflexivity.
Qed.

(** ** The sync marker: exactly one, after the snapshot (first for updates_only) *)

Inductive tag := TUpd (p : path) | TSync | TOther.

Definition tag_resp (r : resp) : tag :=
  match r with RUpd p _ _ _ => TUpd p | RSync => TSync | RDel _ _ => TOther end.
Definition tag_item (st : state) (it : item) : tag :=
  match it with
  | ILeaf l => match leaf_path st l with Some p => TUpd p | None => TOther end
  | ISync => TSync
  | IDel _ => TOther
  end.

(** what the subscriber has been or will be sent, in order: responses on the
    wire, the response in Send, the item in the sender's hand, the queue *)
Definition trace (st : state) (sb : sub) : list tag :=
  map tag_resp (so sb) ++ map (tag_item st) (iq sb).

Definition snap_in (st : state) (sb : sub) (tr : list tag) (l : nat) : Prop :=
  exists p, leaf_path st l = Some p /\ In (TUpd p) tr.

Record YInv (st : state) (sb : sub) : Prop := {
  y_excl : s_infl sb <> None -> s_out sb = None;
  y_wf : forall l, In (ILeaf l) (iq sb) -> leaf_path st l <> None;
  y_uo : s_uo sb = true ->
         (match s_pc sb with SReg _ | SDone => True | _ => False end) /\
         exists post, trace st sb = TSync :: post /\ ~ In TSync post;
  y_snap : s_uo sb = false ->
         match s_pc sb with
         | SDone => exists pre post, trace st sb = pre ++ TSync :: post /\ ~ In TSync pre /\ ~ In TSync post /\
                      forall l, In l (s_snap sb) -> snap_in st sb pre l
         | SWalk _ todo => ~ In TSync (trace st sb) /\
                      forall l, In l (s_snap sb) -> In l todo \/ snap_in st sb (trace st sb) l
         | _ => ~ In TSync (trace st sb) /\ forall l, In l (s_snap sb) -> snap_in st sb (trace st sb) l
         end;
}.

(** a step that leaves program counter and snapshot alone and appends [e]
    (no sync marker in it) to the trace *)
Lemma YInv_append st st' sb sb' e :
  s_uo sb' = s_uo sb -> s_pc sb' = s_pc sb -> s_snap sb' = s_snap sb ->
  trace st' sb' = trace st sb ++ e -> ~ In TSync e ->
  (forall l p, leaf_path st l = Some p -> leaf_path st' l = Some p) ->
  (forall l, In (ILeaf l) (iq sb') -> leaf_path st' l <> None) ->
  (s_infl sb' <> None -> s_out sb' = None) ->
  YInv st sb -> YInv st' sb'.
Proof.
  intros Eu Ep Es Et He Hext Hwf Hex [Y0 Y1 Y2 Y3].
  assert (SI : forall tr l, snap_in st sb tr l -> snap_in st' sb' (tr ++ e) l).
  { intros tr l (p & Hp & Hin). exists p. split; auto. apply in_app_iff. auto. }
  assert (SI' : forall tr l, snap_in st sb tr l -> snap_in st' sb' tr l).
  { intros tr l (p & Hp & Hin). exists p. split; auto. }
  constructor; auto.
  - rewrite Eu, Ep, Et. intros H. destruct (Y2 H) as (A & post & B & C). split; auto.
    exists (post ++ e). rewrite B. split; auto. rewrite in_app_iff. tauto.
  - rewrite Eu, Ep, Es, Et. intros H. specialize (Y3 H). destruct (s_pc sb).
    + destruct Y3 as [A B]. split; [rewrite in_app_iff; tauto|]. intros l Hl. apply SI. auto.
    + destruct Y3 as [A B]. split; [rewrite in_app_iff; tauto|]. intros l Hl. apply SI. auto.
    + destruct Y3 as [A B]. split; [rewrite in_app_iff; tauto|]. intros l Hl. destruct (B l Hl); auto.
    + destruct Y3 as (pre & post & A & B & C & D). exists pre, (post ++ e). rewrite A, <- app_assoc. cbn.
      split; auto. split; auto. split; [rewrite in_app_iff; tauto|]. intros l Hl. apply SI'. auto.
Qed.

Lemma trace_insert st sb it :
  exists e, trace st (set_queue sb (q_insert it (s_queue sb))) = trace st sb ++ e /\
            (e = [] /\ In it (iq sb) \/ e = [tag_item st it]).
Proof.
  unfold trace. change (so (set_queue sb (q_insert it (s_queue sb)))) with (so sb). rewrite iq_insert.
  destruct (in_dec item_eq_dec it (qitems (s_queue sb))) as [H|H].
  - exists []. rewrite app_nil_r. split; auto. left. split; auto. unfold iq. apply in_app_iff. auto.
  - exists [tag_item st it]. rewrite map_app, app_assoc. split; auto.
Qed.

Lemma In_tag_item st it l : In it l -> In (tag_item st it) (map (tag_item st) l).
Proof. apply in_map. Qed.

Definition YAll (st : state) : Prop :=
  forall i sb, nth_error (st_subs st) i = Some sb -> s_end sb = false -> YInv st sb.

Lemma YAll_sub_step st s sb sb' :
  YAll st -> nth_error (st_subs st) s = Some sb ->
  (s_end sb' = false -> s_end sb = false) ->
  (YInv st sb -> s_end sb' = false -> YInv st sb') ->
  YAll (set_subs st (upd_nth s (fun _ => sb') (st_subs st))).
Proof.
  intros Y Hs He Hstep i sbi Hi Hend. cbn in Hi.
  assert (F : forall x, YInv st x -> YInv (set_subs st (upd_nth s (fun _ => sb') (st_subs st))) x).
  { intros x [A0 A B C]. constructor; auto. }
  apply nth_error_upd_nth_inv in Hi as [(-> & x & Hx & ->)|(Hne & Hi)].
  - apply F. apply Hstep; auto. eapply Y; eauto.
  - apply F. eapply Y; eauto.
Qed.

Lemma trace_ext st st' sb :
  (forall l p, leaf_path st l = Some p -> leaf_path st' l = Some p) ->
  (forall l, In (ILeaf l) (iq sb) -> leaf_path st l <> None) ->
  trace st' sb = trace st sb.
Proof.
  intros E W. unfold trace. f_equal. apply map_ext_in. intros [l|k|] Hin; cbn; auto.
  destruct (leaf_path st l) as [p|] eqn:X; [rewrite (E _ _ X); reflexivity|]. exfalso. eapply W; eauto.
Qed.

Lemma step_YAll h st lb st' : GInv st -> step h st lb = Some st' -> YAll st -> YAll st'.
Proof.
  intros G Hstep Y. destruct lb as [w o|w|s|s|s|s p0|s|s|s|s|s|s|w|s|s]; unfold step in Hstep; cbn in Hstep.
  - (* LWrite: the stores only grow *)
    destruct (nth_error (st_feeds st) w) as [[|]|] eqn:Hw; try discriminate.
    destruct (may_lock st w (wop_target o)); [|discriminate].
    destruct (write h st w o) as [[st1 r]|] eqn:Hwr; [|discriminate]. cbn in Hstep.
    assert (YL : YAll st1 -> YAll st').
    { inversion Hstep; subst st'. intros Y1 i sb Hi He. destruct (Y1 i sb Hi He) as [A0 A B C]. constructor; auto. }
    apply YL. clear YL Hstep st'. rename st1 into st'.
    assert (E : forall l p, leaf_path st l = Some p -> leaf_path st' l = Some p).
    { intros l p Hp. revert Hwr. destruct o as [p1 v ts|d ts order|d]; cbn.
      - destruct (negb _); [discriminate|]. destruct (h_agree h && negb _); [discriminate|].
        destruct (tlookup p1 (st_tree st)) as [l1|].
        + destruct (leaf_cont st l1) as [[v0 ts0]|]; [|discriminate].
          destruct (ts <? ts0); [intros [= <- _]; auto|].
          destruct ((ts =? ts0) && (v =? v0)); intros [= <- _]; auto.
          unfold leaf_path. cbn. rewrite leaf_path_upd. exact Hp.
        + destruct (conflicts st p1); intros [= <- _]; auto.
          unfold leaf_path. cbn. apply option_map_nth_app. exact Hp.
      - destruct (negb _); [discriminate|]. destruct (tree_locked _ _); [discriminate|]. intros [= <- _]; auto.
      - destruct (negb _); [discriminate|]. destruct (tree_locked _ _); [discriminate|]. intros [= <- _]; auto. }
    intros i sb Hi He. rewrite (write_subs _ _ _ _ _ _ Hwr) in Hi. specialize (Y _ _ Hi He).
    apply (YInv_append st st' sb sb []); auto.
    + rewrite app_nil_r. apply trace_ext; auto. apply (y_wf _ _ Y).
    + intros l Hl X. destruct (leaf_path st l) eqn:Z; [rewrite (E _ _ Z) in X; discriminate|]. eapply (y_wf _ _ Y); eauto.
    + apply (y_excl _ _ Y).
  - (* LFeed *)
    destruct (nth_error (st_feeds st) w) as [[|it rest]|] eqn:Hw; try discriminate.
    inversion Hstep; subst st'. clear Hstep. intros i sb' Hi He. cbn in Hi. rewrite nth_error_map in Hi.
    destruct (nth_error (st_subs st) i) as [sb|] eqn:Hsb; [|discriminate]. inversion Hi; subst sb'.
    rewrite deliver_end in He. specialize (Y _ _ Hsb He).
    assert (Hf : In (it :: rest) (st_feeds st)) by (eapply nth_error_In; eauto).
    destruct (g_feed_wf _ G _ _ Hf (or_introl eq_refl)) as (Hns & pat & Hpat & _).
    set (st' := mkState _ _ _ _ _ _).
    assert (TR : forall x, trace st' x = trace st x) by reflexivity.
    unfold deliver. rewrite Hpat. rewrite He at 1. rewrite q_insert_n_mult.
    destruct (existsb _ (regq sb)).
    + fold (set_queue sb (q_insert it (s_queue sb))).
      destruct (trace_insert st sb it) as (e & Et & He').
      apply (YInv_append st st' sb _ e); auto.
      * destruct He' as [[-> _]| ->]; [intros []|]. intros [H|[]]. destruct it; cbn in H; try discriminate; try congruence.
        destruct (leaf_path st l); discriminate.
      * intros l Hl. apply In_iq_insert in Hl as [Hl|Hl]; [apply (y_wf _ _ Y); auto|].
        subst it. cbn in Hpat. change (leaf_path st' l) with (leaf_path st l). congruence.
      * apply (y_excl _ _ Y).
    + assert (Esb : mkSub (s_qs sb) (s_uo sb) (s_pc sb) (s_queue sb) (s_infl sb) (s_out sb) (s_sent sb) (s_snap sb) (s_end sb) = sb)
        by (destruct sb; reflexivity).
      rewrite Esb. apply (YInv_append st st' sb sb []); auto.
      * rewrite app_nil_r. reflexivity.
      * apply (y_wf _ _ Y).
      * apply (y_excl _ _ Y).
  - (* LReg *)
    apply with_sub_inv in Hstep as (sb & sb' & Hsb & Hf & ->).
    destruct (s_pc sb) as [k| | |] eqn:Hpc; try discriminate.
    match type of Hf with (if ?c then _ else _) = _ => destruct c; [|discriminate] end. inversion Hf; subst sb'.
    eapply YAll_sub_step; eauto. intros [Y0 Y1 Y2 Y3] _. constructor; auto; cbn; rewrite Hpc in *; auto.
  - (* LRegDone *)
    apply with_sub_inv in Hstep as (sb & sb' & Hsb & Hf & ->).
    destruct (s_pc sb) as [k| | |] eqn:Hpc; try discriminate.
    destruct (k =? List.length (s_qs sb))%nat; [|discriminate]. inversion Hf; subst sb'.
    eapply YAll_sub_step; eauto. intros [Y0 Y1 Y2 Y3] _. constructor; auto; cbn; rewrite Hpc in *.
    + intros Hu. rewrite Hu. destruct (Y2 Hu) as [_ B]. split; auto.
    + intros Hu. rewrite Hu. apply (Y3 Hu).
  - (* LWalkBegin *)
    apply with_sub_inv in Hstep as (sb & sb' & Hsb & Hf & ->).
    destruct (s_pc sb) as [|k| |] eqn:Hpc; try discriminate.
    destruct (nth_error (s_qs sb) k) as [q|] eqn:Hq; [|discriminate]. inversion Hf; subst sb'.
    eapply YAll_sub_step; eauto. intros [Y0 Y1 Y2 Y3] _. constructor; auto; cbn; rewrite Hpc in *.
    + intros Hu. destruct (Y2 Hu) as [[] _].
    + intros Hu. destruct (Y3 Hu) as [A B]. split; [exact A|]. intros l Hl. apply in_app_iff in Hl as [Hl|Hl]; [right; exact (B l Hl)|left; exact Hl].
  - (* LVisit *)
    apply with_sub_inv in Hstep as (sb & sb' & Hsb & Hf & ->).
    destruct (s_pc sb) as [| |k todo|] eqn:Hpc; try discriminate.
    destruct (nth_error (s_qs sb) k) as [q|] eqn:Hq; [|discriminate].
    destruct (tlookup p0 (st_tree st)) as [l0|] eqn:Hl0; [|discriminate].
    destruct (covers q p0) eqn:Hc0; [|discriminate]. inversion Hf; subst sb'.
    eapply YAll_sub_step; eauto. cbn. intros [Y0 Y1 Y2 Y3] He. rewrite He.
    assert (Hp0 := tlookup_leaf _ _ _ G Hl0).
    destruct (trace_insert st sb (ILeaf l0)) as (e & Et & He').
    set (sb1 := set_queue sb (q_insert (ILeaf l0) (s_queue sb))).
    assert (Hin0 : In (TUpd p0) (trace st sb1)).
    { unfold sb1. rewrite Et. apply in_app_iff. destruct He' as [[-> Hin]| ->].
      - left. unfold trace. apply in_app_iff. right.
        replace (TUpd p0) with (tag_item st (ILeaf l0)) by (cbn; rewrite Hp0; reflexivity). apply in_map. exact Hin.
      - right. left. cbn. rewrite Hp0. reflexivity. }
    constructor.
    + exact Y0.
    + intros l Hl. change (In (ILeaf l) (iq sb1)) in Hl. apply In_iq_insert in Hl as [Hl|[= ->]]; auto. congruence.
    + cbn. intros Hu. rewrite Hpc in Y2. destruct (Y2 Hu) as [[] _].
    + cbn [s_pc s_uo s_snap set_queue set_pc]. intros Hu. rewrite Hpc in Y3. destruct (Y3 Hu) as [A B].
      change (trace st (set_queue _ _)) with (trace st sb1). unfold sb1 at 1. rewrite Et. split.
      * rewrite in_app_iff. intros [H|H]; auto. destruct He' as [[-> _]| ->]; [contradiction|].
        destruct H as [H|[]]. cbn in H. rewrite Hp0 in H. discriminate.
      * intros l Hl. destruct (Nat.eq_dec l l0) as [->|Hne].
        -- right. exists p0. split; [exact Hp0|exact Hin0].
        -- destruct (B l Hl) as [Hin|(p & Hp & Hin)].
           ++ left. apply filter_In. split; auto. apply negb_true_iff, Nat.eqb_neq. exact Hne.
           ++ right. exists p. split; auto. unfold sb1. rewrite Et. apply in_app_iff. auto.
  - (* LWalkEnd *)
    apply with_sub_inv in Hstep as (sb & sb' & Hsb & Hf & ->).
    destruct (s_pc sb) as [| |k [|]|] eqn:Hpc; try discriminate. inversion Hf; subst sb'.
    eapply YAll_sub_step; eauto. intros [Y0 Y1 Y2 Y3] _. constructor; auto; cbn; rewrite Hpc in *.
    + intros Hu. destruct (Y2 Hu) as [[] _].
    + intros Hu. destruct (Y3 Hu) as [A B]. split; auto. intros l Hl. destruct (B l Hl) as [[]|]; auto.
  - (* LSync *)
    apply with_sub_inv in Hstep as (sb & sb' & Hsb & Hf & ->).
    destruct (s_pc sb) as [|k| |] eqn:Hpc; try discriminate.
    destruct (k =? List.length (s_qs sb))%nat; [|discriminate]. inversion Hf; subst sb'.
    eapply YAll_sub_step; eauto. cbn. intros [Y0 Y1 Y2 Y3] He. rewrite He.
    destruct (trace_insert st sb ISync) as (e & Et & He').
    set (sb1 := set_queue sb (q_insert ISync (s_queue sb))).
    constructor.
    + exact Y0.
    + intros l Hl. change (In (ILeaf l) (iq sb1)) in Hl. apply In_iq_insert in Hl as [Hl|Hl]; auto. discriminate.
    + cbn. intros Hu. rewrite Hpc in Y2. destruct (Y2 Hu) as [[] _].
    + cbn [s_pc s_uo s_snap set_queue set_pc]. intros Hu. rewrite Hpc in Y3. destruct (Y3 Hu) as [A B].
      change (trace st (set_queue _ _)) with (trace st sb1). unfold sb1. rewrite Et.
      destruct He' as [[-> Hin]| ->].
      * exfalso. apply A. unfold trace. apply in_app_iff. right. apply (In_tag_item st ISync). exact Hin.
      * exists (trace st sb), []. split; [reflexivity|]. split; [exact A|]. split; [intros []|].
        intros l Hl. destruct (B l Hl) as (p & Hp & Hin). exists p. split; auto.
  - (* LDeq *)
    apply with_sub_inv in Hstep as (sb & sb' & Hsb & Hf & ->).
    destruct (is_registered sb && negb (s_end sb)) eqn:Hg; [|discriminate].
    apply andb_true_iff in Hg as [_ Hg]. apply negb_true_iff in Hg.
    destruct (s_infl sb) eqn:Hi; [discriminate|]. destruct (s_out sb) eqn:Ho; [discriminate|].
    destruct (s_queue sb) as [|x q'] eqn:Hq; [discriminate|]. inversion Hf; subst sb'.
    eapply YAll_sub_step; eauto. intros Y0 _.
    set (sb' := mkSub _ _ _ _ _ _ _ _ _).
    assert (Eiq : iq sb' = iq sb) by (unfold iq, infl_list, sb'; cbn; rewrite Hi, Hq; destruct x; reflexivity).
    assert (Eso : so sb' = so sb) by (unfold so, out_list, sb'; cbn; rewrite Ho; reflexivity).
    apply (YInv_append st st sb sb' []); auto.
    + unfold trace. rewrite Eiq, Eso, app_nil_r. reflexivity.
    + rewrite Eiq. apply (y_wf _ _ Y0).
  - (* LRead *)
    apply with_sub_inv in Hstep as (sb & sb' & Hsb & Hf & ->).
    destruct (s_end sb) eqn:He; [discriminate|].
    destruct (s_infl sb) as [[it d]|] eqn:Hi; [|discriminate].
    destruct (build st it d) as [r|] eqn:Hb; [|discriminate]. inversion Hf; subst sb'.
    eapply YAll_sub_step; eauto. intros Y0 _.
    set (sb' := mkSub _ _ _ _ _ _ _ _ _).
    assert (Eiq : iq sb = it :: iq sb') by (unfold iq, infl_list, sb'; cbn; rewrite Hi; reflexivity).
    assert (Etag : tag_resp r = tag_item st it).
    { destruct it as [l|k|]; cbn in Hb.
      - unfold tag_item, leaf_path. destruct (nth_error (st_leaves st) l) as [[p [v ts]]|]; [|discriminate]. inversion Hb; reflexivity.
      - destruct (nth_error (st_dels st) k) as [[d' ts]|]; [|discriminate]. inversion Hb; reflexivity.
      - inversion Hb; reflexivity. }
    apply (YInv_append st st sb sb' []); auto.
    + rewrite app_nil_r. unfold trace. rewrite Eiq.
      assert (Ho : s_out sb = None) by (apply (y_excl _ _ Y0); congruence).
      unfold so, out_list. cbn. rewrite Ho, app_nil_r, map_app. cbn. rewrite Etag, <- app_assoc. reflexivity.
    + intros l Hl. apply (y_wf _ _ Y0). rewrite Eiq. right. exact Hl.
    + intros H. exfalso. apply H. reflexivity.
  - (* LSent *)
    apply with_sub_inv in Hstep as (sb & sb' & Hsb & Hf & ->).
    destruct (s_end sb) eqn:He; [discriminate|].
    destruct (s_out sb) as [r|] eqn:Ho; [|discriminate]. inversion Hf; subst sb'.
    eapply YAll_sub_step; eauto. intros Y0 _.
    set (sb' := mkSub _ _ _ _ _ _ _ _ _).
    assert (Hi : s_infl sb = None).
    { destruct (s_infl sb) eqn:X; auto. assert (s_out sb = None) by (apply (y_excl _ _ Y0); congruence). congruence. }
    assert (Eiq : iq sb' = iq sb) by (unfold iq, infl_list, sb'; cbn; rewrite Hi; reflexivity).
    assert (Eso : so sb' = so sb) by (unfold so, out_list, sb'; cbn; rewrite Ho, app_nil_r; reflexivity).
    apply (YInv_append st st sb sb' []); auto.
    + unfold trace. rewrite Eiq, Eso, app_nil_r. reflexivity.
    + rewrite Eiq. apply (y_wf _ _ Y0).
  - (* LTimeout *)
    apply with_sub_inv in Hstep as (sb & sb' & Hsb & Hf & ->).
    destruct (s_end sb) eqn:He; [discriminate|].
    destruct (s_out sb) as [[]|] eqn:Ho; try discriminate; inversion Hf; subst sb';
      (eapply YAll_sub_step; eauto; cbn; discriminate).
  - (* LUnlock *)
    destruct (nth_error (st_feeds st) w) as [[|]|]; try discriminate.
    destruct (lock_of st w); [|discriminate]. inversion Hstep; subst st'.
    intros i sb Hi He. destruct (Y i sb Hi He) as [A0 A B C]. constructor; auto.
  - apply with_sub_inv in Hstep as (sb & sb' & Hsb & Hf & ->).
    destruct (is_registered sb && negb (s_end sb)); [|discriminate]. inversion Hf; subst sb'.
    eapply YAll_sub_step; eauto; cbn; discriminate.
  - apply with_sub_inv in Hstep as (sb & sb' & Hsb & Hf & ->).
    destruct (s_end sb) eqn:He; [|discriminate].
    assert (He' : s_end sb' = true).
    { destruct (s_pc sb) as [[|k]| | |]; try discriminate.
      - inversion Hf; subst; exact He.
      - destruct (List.length (s_qs sb)); [discriminate|]. inversion Hf; subst; exact He. }
    eapply YAll_sub_step; eauto; congruence.
Qed.

Lemma YAll_init nw subs : YAll (init nw subs).
Proof.
  intros i sb Hi _. cbn in Hi. rewrite nth_error_map in Hi.
  destruct (nth_error subs i) as [[qs uo]|]; [|discriminate]. inversion Hi; subst sb. cbn.
  constructor; cbn.
  - intros H. exfalso. apply H. reflexivity.
  - unfold iq, infl_list. cbn. destruct uo; cbn; intros l H; [destruct H as [?|[]]; discriminate|contradiction].
  - intros ->. split; auto. exists []. split; auto.
  - intros ->. split; [intros []|]. intros l [].
Qed.

Lemma reachable_YAll h nw subs st : strict h -> reachable h nw subs st -> YAll st.
Proof.
  intros Hs [sch Hr]. revert Hr. generalize (Inv_init h nw subs) (LInv_init nw subs) (YAll_init nw subs). generalize (init nw subs).
  unfold run. induction sch as [|lb sch IH]; intros s0 I L Y Hr; cbn in Hr.
  - inversion Hr; subst. exact Y.
  - fold (step h s0 lb) in Hr. destruct (step h s0 lb) as [s1|] eqn:E; [|discriminate]. apply (IH s1); auto.
    + eapply step_Inv; eauto.
    + eapply step_LInv; eauto. apply I.
    + eapply step_YAll; eauto. apply I.
Qed.

(** Exactly one sync marker, and every leaf that was attached and selected
    when one of the subscriber's walks started is sent (or queued) before it. *)
Theorem snapshot_before_single_sync h nw subs st :
  strict h -> reachable h nw subs st ->
  forall i sb, nth_error (st_subs st) i = Some sb -> s_end sb = false ->
    s_uo sb = false -> walk_done sb = true ->
    exists pre post, trace st sb = pre ++ TSync :: post /\ ~ In TSync pre /\ ~ In TSync post /\
      forall l, In l (s_snap sb) -> exists p, leaf_path st l = Some p /\ In (TUpd p) pre.
Proof.
  intros Hs Hr i sb Hi He Hu Hw. assert (Y := reachable_YAll _ _ _ _ Hs Hr _ _ Hi He).
  assert (Y3 := y_snap _ _ Y Hu). unfold walk_done in Hw. destruct (s_pc sb); try discriminate. exact Y3.
Qed.

(** before the walk is over no sync marker is anywhere in the stream *)
Theorem no_sync_before_walk_done h nw subs st :
  strict h -> reachable h nw subs st ->
  forall i sb, nth_error (st_subs st) i = Some sb -> s_end sb = false ->
    s_uo sb = false -> walk_done sb = false -> ~ In TSync (trace st sb).
Proof.
  intros Hs Hr i sb Hi He Hu Hw. assert (Y := reachable_YAll _ _ _ _ Hs Hr _ _ Hi He).
  assert (Y3 := y_snap _ _ Y Hu). unfold walk_done in Hw. destruct (s_pc sb); try discriminate; tauto.
Qed.

(** updates_only: the sync marker is the first thing in the stream, and the only one *)
Theorem updates_only_sync_first h nw subs st :
  strict h -> reachable h nw subs st ->
  forall i sb, nth_error (st_subs st) i = Some sb -> s_end sb = false -> s_uo sb = true ->
    exists post, trace st sb = TSync :: post /\ ~ In TSync post.
Proof.
  intros Hs Hr i sb Hi He Hu. assert (Y := reachable_YAll _ _ _ _ Hs Hr _ _ Hi He).
  apply (y_uo _ _ Y Hu).
Qed.

(** at quiescence the trace is the stream on the wire *)
Lemma trace_quiescent st sb :
  s_queue sb = [] -> s_infl sb = None -> s_out sb = None -> trace st sb = map tag_resp (s_sent sb).
Proof.
  intros Hq Hi Ho. unfold trace, so, out_list, iq, infl_list. rewrite Hq, Hi, Ho. cbn. rewrite !app_nil_r. reflexivity.
Qed.

(** every leaf attached and selected at the start of a walk is in the snapshot set *)
Lemma walk_begin_snapshot h st s st' :
  step h st (LWalkBegin s) = Some st' ->
  forall sb sb' k q, nth_error (st_subs st) s = Some sb -> nth_error (st_subs st') s = Some sb' ->
    s_pc sb = SGap k -> nth_error (s_qs sb) k = Some q ->
    forall p l, tlookup p (st_tree st) = Some l -> covers q p = true -> In l (s_snap sb').
Proof.
  cbn. intros Hstep sb sb' k q Hsb Hsb' Hpc Hq p l Hl Hc.
  apply with_sub_inv in Hstep as (sb0 & sb1 & Hsb0 & Hf & ->). rewrite Hsb in Hsb0. inversion Hsb0; subst sb0.
  rewrite Hpc, Hq in Hf. inversion Hf; subst sb1. cbn in Hsb'. rewrite nth_error_upd_nth_eq, Hsb in Hsb'.
  inversion Hsb'; subst sb'. cbn. apply in_app_iff. right. apply in_map_iff. exists (p, l). split; auto.
  apply filter_In. split; [apply tlookup_In; auto|exact Hc].
Qed.

(** Proofs about the transition system of Stream/StreamLts.v (C04, C08). *)
From Gnmi Require Import Base.Prelude Stream.StreamLts.
Open Scope Z_scope.

(** ** Relations *)

(** ctree.Query's relation is contained in the match trie's relation. *)
Lemma covers_compat q p : covers q p = true -> compat q p = true.
Proof.
  revert p; induction q as [|x q IH]; intros p H; [destruct p; reflexivity|].
  destruct p as [|y p]; [reflexivity|].
  cbn in *. apply andb_true_iff in H as [H1 H2].
  rewrite (IH _ H2), andb_true_r.
  apply orb_true_iff in H1 as [H1|H1]; rewrite H1; cbn; auto using orb_true_r.
Qed.

Lemma is_star_eqb x y : is_star x = false -> String.eqb x y = true -> is_star y = false.
Proof. intros H E. apply String.eqb_eq in E. subst. exact H. Qed.

(** A delete pattern that covers a leaf reaches every query the leaf reaches. *)
Lemma compat_covers q d p : covers d p = true -> compat q p = true -> compat q d = true.
Proof.
  revert d p; induction q as [|x q IH]; intros d p Hc Hq; [reflexivity|].
  destruct d as [|y d]; [reflexivity|].
  destruct p as [|z p].
  - cbn in Hc. apply andb_true_iff in Hc as [Hy Hd]. destruct d; [|discriminate].
    cbn. rewrite Hy. rewrite orb_true_r. cbn. destruct q; reflexivity.
  - cbn in Hc, Hq |- *. apply andb_true_iff in Hc as [H1 H2]. apply andb_true_iff in Hq as [H3 H4].
    rewrite (IH _ _ H2 H4), andb_true_r.
    destruct (is_star x) eqn:Ex; [reflexivity|]. destruct (is_star y) eqn:Ey; [reflexivity|].
    cbn in *. apply String.eqb_eq in H1. subst z.
    destruct (is_star y) eqn:Ey'; [discriminate|]. cbn in H3.
    apply String.eqb_eq in H3. subst. apply String.eqb_refl.
Qed.

(** On a star-free pattern [covers] is the prefix relation. *)
Lemma covers_star_free d p : star_free d = true -> covers d p = is_prefix d p.
Proof.
  revert p; induction d as [|x d IH]; intros p H; [reflexivity|].
  cbn in H. apply andb_true_iff in H as [Hx Hd]. apply negb_true_iff in Hx.
  destruct p as [|y p]; cbn; rewrite Hx; [reflexivity|]. cbn. rewrite IH by assumption. reflexivity.
Qed.

Lemma covers_target d p : target_ok d = true -> covers d p = true -> target_of d = target_of p.
Proof.
  destruct d as [|x d]; [discriminate|]. cbn. intros Hx H. apply negb_true_iff in Hx.
  destruct p as [|y p]; cbn in H; rewrite Hx in H; [discriminate|].
  cbn in H. apply andb_true_iff in H as [H _]. apply String.eqb_eq in H. exact H.
Qed.

(** ** Lists *)

Lemma nth_error_upd_nth_eq {A} n (f : A -> A) l :
  nth_error (upd_nth n f l) n = option_map f (nth_error l n).
Proof. revert n; induction l as [|x l IH]; intros [|n]; cbn; auto. Qed.

Lemma nth_error_upd_nth_neq {A} n m (f : A -> A) l :
  n <> m -> nth_error (upd_nth n f l) m = nth_error l m.
Proof. revert n m; induction l as [|x l IH]; intros [|n] [|m] H; cbn; auto; congruence. Qed.

Lemma length_upd_nth {A} n (f : A -> A) l : List.length (upd_nth n f l) = List.length l.
Proof. revert n; induction l as [|x l IH]; intros [|n]; cbn; auto. Qed.

Lemma nth_error_upd_nth_inv {A} n m (f : A -> A) l y :
  nth_error (upd_nth n f l) m = Some y ->
  (n = m /\ exists x, nth_error l m = Some x /\ y = f x) \/ (n <> m /\ nth_error l m = Some y).
Proof.
  destruct (Nat.eq_dec n m) as [->|Hn]; intros H.
  - rewrite nth_error_upd_nth_eq in H. destruct (nth_error l m) eqn:E; [|discriminate].
    left. split; auto. exists a. inversion H; auto.
  - rewrite nth_error_upd_nth_neq in H by assumption. auto.
Qed.

Lemma In_upd_nth {A} n (f : A -> A) l y :
  In y (upd_nth n f l) -> In y l \/ exists x, nth_error l n = Some x /\ y = f x.
Proof.
  revert n; induction l as [|x l IH]; intros [|n]; cbn; auto.
  - intros [<-|H]; eauto.
  - intros [<-|H]; auto. destruct (IH _ H) as [?|?]; auto.
Qed.

Lemma nth_error_app_l {A} (l l' : list A) n x : nth_error l n = Some x -> nth_error (l ++ l') n = Some x.
Proof. intros H. rewrite nth_error_app1; auto. apply nth_error_Some. congruence. Qed.

Lemma item_eqb_eq a b : item_eqb a b = true <-> a = b.
Proof.
  destruct a, b; cbn; split; intros H; try discriminate; try reflexivity;
    try (apply Nat.eqb_eq in H; subst; reflexivity); inversion H; apply Nat.eqb_refl.
Qed.

Lemma item_eqb_refl a : item_eqb a a = true.
Proof. apply item_eqb_eq. reflexivity. Qed.

Lemma item_eq_dec (a b : item) : {a = b} + {a <> b}.
Proof. decide equality; apply Nat.eq_dec. Qed.

(** ** The coalescing queue *)

Definition qitems (q : queue) : list item := map fst q.

Lemma qitems_insert_in it q : In it (qitems q) -> qitems (q_insert it q) = qitems q.
Proof.
  unfold qitems. induction q as [|[x d] q IH]; cbn; [tauto|]. intros [->|H].
  - rewrite item_eqb_refl. reflexivity.
  - destruct (item_eqb x it); cbn; [reflexivity|]. rewrite IH; auto.
Qed.

Lemma qitems_insert_notin it q : ~ In it (qitems q) -> qitems (q_insert it q) = qitems q ++ [it].
Proof.
  unfold qitems. induction q as [|[x d] q IH]; cbn; [reflexivity|]. intros H.
  destruct (item_eqb x it) eqn:E; [apply item_eqb_eq in E; tauto|]. cbn. rewrite IH; tauto.
Qed.

Lemma qitems_insert it q :
  qitems (q_insert it q) = if in_dec item_eq_dec it (qitems q) then qitems q else qitems q ++ [it].
Proof. destruct (in_dec _ _ _); [apply qitems_insert_in|apply qitems_insert_notin]; assumption. Qed.

Lemma In_qitems_insert it x q : In x (qitems (q_insert it q)) <-> x = it \/ In x (qitems q).
Proof.
  rewrite qitems_insert. destruct (in_dec _ _ _) as [H|H]; [|rewrite in_app_iff; cbn]; intuition (subst; auto).
Qed.

(** ** Tree lookups *)

Lemma tlookup_In p l t : tlookup p t = Some l -> In (p, l) t.
Proof.
  induction t as [|[p' l'] t IH]; cbn; [discriminate|].
  destruct (path_eqb p' p) eqn:E; [apply path_eqb_eq in E; intros [= ->]; subst; auto|auto].
Qed.

Lemma tlookup_None p t : tlookup p t = None <-> ~ In p (map fst t).
Proof.
  induction t as [|[p' l'] t IH]; cbn; [tauto|].
  destruct (path_eqb p' p) eqn:E.
  - apply path_eqb_eq in E. split; [discriminate|tauto].
  - apply path_eqb_neq in E. rewrite IH. tauto.
Qed.

Lemma In_tlookup p l t : NoDup (map fst t) -> In (p, l) t -> tlookup p t = Some l.
Proof.
  induction t as [|[p' l'] t IH]; cbn; [tauto|]. intros Hn [H|H].
  - inversion H; subst. rewrite path_eqb_refl. reflexivity.
  - inversion Hn; subst. destruct (path_eqb p' p) eqn:E; [|auto].
    apply path_eqb_eq in E. subst. exfalso. apply H2. apply in_map_iff. exists (p, l). auto.
Qed.

Lemma tlookup_app p t t' :
  tlookup p (t ++ t') = match tlookup p t with Some l => Some l | None => tlookup p t' end.
Proof. induction t as [|[p' l'] t IH]; cbn; [reflexivity|]. destruct (path_eqb p' p); auto. Qed.

Lemma tlookup_filter_fst (P : path -> bool) p t :
  tlookup p (filter (fun pl => P (fst pl)) t) = if P p then tlookup p t else None.
Proof.
  induction t as [|[p' l'] t IH]; cbn; [destruct (P p); reflexivity|].
  destruct (P p') eqn:E; cbn; destruct (path_eqb p' p) eqn:E2.
  - apply path_eqb_eq in E2. subst. rewrite E. reflexivity.
  - exact IH.
  - apply path_eqb_eq in E2. subst. rewrite E in *. exact IH.
  - exact IH.
Qed.

Lemma NoDup_map_fst_filter {A B} (f : A * B -> bool) (t : list (A * B)) :
  NoDup (map fst t) -> NoDup (map fst (filter f t)).
Proof.
  induction t as [|x t IH]; cbn; [auto|]. intros H. inversion H; subst.
  destruct (f x); cbn; auto. constructor; auto.
  intros Hin. apply H2. apply in_map_iff in Hin as (y & Hy & Hin). apply filter_In in Hin as [Hin _].
  apply in_map_iff. eauto.
Qed.

(** ** Replay *)

Lemma replay_path_app p acc a b :
  replay_path p acc (a ++ b) = replay_path p (replay_path p acc a) b.
Proof.
  revert acc; induction a as [|r a IH]; intros acc; cbn; [reflexivity|]. destruct r; apply IH.
Qed.

Lemma replay_path_no_upd p rs :
  (forall p' v ts d, In (RUpd p' v ts d) rs -> p' <> p) -> replay_path p None rs = None.
Proof.
  induction rs as [|r rs IH]; intros H; cbn; [reflexivity|].
  destruct r as [p' v ts d|d ts|].
  - destruct (path_eqb p' p) eqn:E.
    + apply path_eqb_eq in E. exfalso. eapply H; [left; reflexivity|exact E].
    + apply IH. intros. eapply H. right. eassumption.
  - destruct (covers d p); apply IH; intros; eapply H; right; eassumption.
  - apply IH; intros; eapply H; right; eassumption.
Qed.

(** ** Strict hypotheses and the global invariant *)

Definition strict (h : hyps) : Prop := h_owt h = true /\ h_agree h = true.

Definition touches (st : state) (p : path) (it : item) : bool :=
  match it, item_pat st it with
  | ILeaf _, Some d => path_eqb d p
  | IDel _, Some d => covers d p
  | _, _ => false
  end.


Record GInv (st : state) : Prop := {
  g_nodup : NoDup (map fst (st_tree st));
  g_leaf : forall p l, In (p, l) (st_tree st) -> leaf_path st l = Some p;
  g_ok : forall p l, In (p, l) (st_tree st) ->
           target_ok p = true /\ star_free p = true /\ agree_on st p = true;
  g_pfree : forall p1 l1 p2 l2, In (p1, l1) (st_tree st) -> In (p2, l2) (st_tree st) ->
              strict_prefix p1 p2 = false;
  g_feed_wf : forall f it, In f (st_feeds st) -> In it f ->
              it <> ISync /\ exists d, item_pat st it = Some d /\ target_ok d = true;
  g_feed_leaf : forall f l, In f (st_feeds st) -> In (ILeaf l) f ->
              exists p, leaf_path st l = Some p /\ tlookup p (st_tree st) = Some l;
  g_feed_del : forall f k d, In f (st_feeds st) -> In (IDel k) f -> item_pat st (IDel k) = Some d ->
              forall p l, In (p, l) (st_tree st) -> covers d p = false;
  g_feed_tgt : forall w w' it it', w <> w' ->
              In it (feed_of st w) -> In it' (feed_of st w') -> item_target st it <> item_target st it';
}.

Lemma agree_on_ext st st' p :
  map s_qs (st_subs st) = map s_qs (st_subs st') -> agree_on st p = agree_on st' p.
Proof.
  unfold agree_on. generalize (st_subs st) (st_subs st'). induction l as [|s l IH]; intros [|s' l']; cbn; try discriminate; auto.
  intros H. inversion H. rewrite H1. f_equal. auto.
Qed.

Lemma GInv_set_subs st ss :
  map s_qs ss = map s_qs (st_subs st) -> GInv st -> GInv (set_subs st ss).
Proof.
  intros Hq [a b c d e f g i]. constructor; auto.
  intros p l H. destruct (c p l H) as (c1 & c2 & c3). repeat split; auto.
  rewrite <- c3. apply agree_on_ext. exact Hq.
Qed.

Lemma GInv_init nw subs : GInv (init nw subs).
Proof.
  assert (E : forall f (it : item), In f (repeat (@nil item) nw) -> In it f -> False).
  { intros f it Hf. apply repeat_spec in Hf. subst. auto. }
  constructor; cbn; try (intros; contradiction); try constructor.
  - intros; exfalso; eauto.
  - intros; exfalso; eauto.
  - intros; exfalso; eauto.
  - intros w w' it it' _ H. exfalso. unfold feed_of in H. cbn in H.
    destruct (nth_in_or_default w (repeat (@nil item) nw) []) as [Hin|Hd].
    + eauto.
    + rewrite Hd in H. contradiction.
Qed.

(** ** Stability of the stores *)

Lemma leaf_path_upd lv l c l' :
  option_map fst (nth_error (upd_nth l (fun pc : path * (Z * Z) => (fst pc, c)) lv) l')
  = option_map fst (nth_error lv l').
Proof.
  destruct (Nat.eq_dec l l') as [->|Hn].
  - rewrite nth_error_upd_nth_eq. destruct (nth_error lv l'); reflexivity.
  - rewrite nth_error_upd_nth_neq by assumption. reflexivity.
Qed.

Lemma option_map_nth_app {A B} (f : A -> B) (l l' : list A) n y :
  option_map f (nth_error l n) = Some y -> option_map f (nth_error (l ++ l') n) = Some y.
Proof.
  destruct (nth_error l n) eqn:E; [|discriminate]. intros H.
  rewrite (nth_error_app_l _ _ _ _ E). exact H.
Qed.

Lemma covers_app_star d p : covers (d ++ [star]) p = true -> covers d p = true.
Proof.
  revert p; induction d as [|x d IH]; intros p H; [reflexivity|].
  destruct p as [|y p]; cbn in *.
  - apply andb_true_iff in H as [_ H]. destruct d; discriminate.
  - apply andb_true_iff in H as [H1 H2]. rewrite H1. cbn. auto.
Qed.

Lemma target_ok_app d x : target_ok d = true -> target_ok (d ++ x) = true.
Proof. destruct d; [discriminate|auto]. Qed.

Lemma target_of_app d x : target_ok d = true -> target_of (d ++ x) = target_of d.
Proof. destruct d; [discriminate|auto]. Qed.

Lemma In_reorder order v x : In x (reorder order v) -> In x v.
Proof.
  unfold reorder. rewrite in_app_iff, in_flat_map. intros [(p & _ & H)|H]; apply filter_In in H; tauto.
Qed.

Lemma In_set_feed st w f f0 : In f0 (set_feed st w f) -> In f0 (st_feeds st) \/ f0 = f.
Proof.
  unfold set_feed. intros H. apply In_upd_nth in H as [H|(x & _ & H)]; auto.
Qed.

Lemma feed_of_set_feed_eq st w f lv dl tr ss :
  (w < List.length (st_feeds st))%nat ->
  feed_of (mkState lv dl tr (set_feed st w f) ss) w = f.
Proof.
  intros H. unfold feed_of, set_feed. cbn.
  apply nth_error_nth. rewrite nth_error_upd_nth_eq.
  destruct (nth_error (st_feeds st) w) eqn:E; [reflexivity|]. apply nth_error_None in E. lia.
Qed.

Lemma feed_of_set_feed_neq st w w' f lv dl tr ss :
  w <> w' -> feed_of (mkState lv dl tr (set_feed st w f) ss) w' = feed_of st w'.
Proof.
  intros H. unfold feed_of, set_feed. cbn.
  destruct (nth_error (st_feeds st) w') eqn:E.
  - rewrite (nth_error_nth _ _ _ E). apply nth_error_nth. rewrite nth_error_upd_nth_neq; auto.
  - rewrite !nth_overflow; auto.
    + apply nth_error_None. exact E.
    + rewrite length_upd_nth. apply nth_error_None. exact E.
Qed.

Lemma feed_of_In st w it : In it (feed_of st w) -> In (feed_of st w) (st_feeds st).
Proof.
  unfold feed_of. intros H. destruct (nth_in_or_default w (st_feeds st) []) as [Hin|Hd]; auto.
  rewrite Hd in H. contradiction.
Qed.

Lemma In_feed_of st f : In f (st_feeds st) -> exists w, feed_of st w = f /\ (w < List.length (st_feeds st))%nat.
Proof.
  intros H. apply In_nth_error in H as [w H]. exists w. split.
  - unfold feed_of. apply nth_error_nth. exact H.
  - apply nth_error_Some. congruence.
Qed.

Lemma in_flight_other_false st w t :
  in_flight_other st w t = false ->
  forall w' it, w' <> w -> In it (feed_of st w') -> item_target st it <> Some t.
Proof.
  unfold in_flight_other. intros H w' it Hw Hin Ht.
  assert (Hlt : (w' < List.length (st_feeds st))%nat).
  { unfold feed_of in Hin. destruct (Nat.lt_ge_cases w' (List.length (st_feeds st))); auto.
    rewrite nth_overflow in Hin by assumption. contradiction. }
  assert (E : existsb (fun w' => negb (Nat.eqb w' w) &&
                     existsb (fun it => match item_target st it with
                                        | Some t' => String.eqb t t' | None => false end)
                             (feed_of st w')) (seq 0 (List.length (st_feeds st))) = true).
  { apply existsb_exists. exists w'. split; [apply in_seq; lia|].
    apply andb_true_iff. split; [apply negb_true_iff, Nat.eqb_neq; exact Hw|].
    apply existsb_exists. exists it. split; auto. rewrite Ht. apply String.eqb_refl. }
  congruence.
Qed.

Definition ext (st st' : state) : Prop :=
  forall it d, item_pat st it = Some d -> item_pat st' it = Some d.

Lemma ext_target st st' it d : ext st st' -> item_pat st it = Some d -> item_target st' it = item_target st it.
Proof. intros E H. unfold item_target. rewrite H, (E _ _ H). reflexivity. Qed.

Lemma feed_of_lt st w it : In it (feed_of st w) -> (w < List.length (st_feeds st))%nat.
Proof.
  unfold feed_of. intros Hin. destruct (Nat.lt_ge_cases w (List.length (st_feeds st))); auto.
  rewrite nth_overflow in Hin by assumption. contradiction.
Qed.

(** the target bookkeeping of a write by writer [w] on target [t] *)
Lemma feed_tgt_set st lv dl tr ss w f t :
  let st' := mkState lv dl tr (set_feed st w f) ss in
  ext st st' ->
  (forall f0 it, In f0 (st_feeds st) -> In it f0 -> exists d, item_pat st it = Some d) ->
  (forall it, In it f -> item_target st' it = Some t) ->
  (forall w' it, w' <> w -> In it (feed_of st w') -> item_target st it <> Some t) ->
  (forall w1 w2 it it', w1 <> w2 -> In it (feed_of st w1) -> In it' (feed_of st w2) ->
      item_target st it <> item_target st it') ->
  forall w1 w2 it it', w1 <> w2 -> In it (feed_of st' w1) -> In it' (feed_of st' w2) ->
      item_target st' it <> item_target st' it'.
Proof.
  intros st' E Hwf Hf Hother Hold w1 w2 it it' Hne H1 H2.
  assert (K : forall w' it, w' <> w -> In it (feed_of st' w') ->
              In it (feed_of st w') /\ item_target st' it = item_target st it).
  { intros w' x Hw Hx. unfold st' in Hx. rewrite feed_of_set_feed_neq in Hx by auto. split; auto.
    destruct (Hwf _ _ (feed_of_In _ _ _ Hx) Hx) as [d Hd]. eapply ext_target; eauto. }
  assert (L : forall it, In it (feed_of st' w) -> item_target st' it = Some t).
  { intros x Hx. apply Hf. unfold st' in Hx.
    destruct (Nat.lt_ge_cases w (List.length (st_feeds st))).
    - rewrite feed_of_set_feed_eq in Hx; auto.
    - unfold feed_of in Hx. cbn in Hx. rewrite nth_overflow in Hx; [contradiction|].
      unfold set_feed. rewrite length_upd_nth. assumption. }
  destruct (Nat.eq_dec w1 w) as [->|N1]; destruct (Nat.eq_dec w2 w) as [->|N2]; try congruence.
  - rewrite (L _ H1). destruct (K _ _ N2 H2) as [K1 K2]. rewrite K2. intros X.
    apply (Hother w2 it' N2 K1). symmetry. exact X.
  - rewrite (L _ H2). destruct (K _ _ N1 H1) as [K1 K2]. rewrite K2. apply (Hother w1 it N1 K1).
  - destruct (K _ _ N1 H1) as [K1 K2]. destruct (K _ _ N2 H2) as [K3 K4]. rewrite K2, K4.
    apply (Hold w1 w2); auto.
Qed.

Lemma wf_exists st : GInv st -> forall f0 it, In f0 (st_feeds st) -> In it f0 -> exists d, item_pat st it = Some d.
Proof. intros G f0 it H1 H2. destruct (g_feed_wf _ G _ _ H1 H2) as (_ & d & Hd & _). eauto. Qed.

Lemma tlookup_leaf st p l : GInv st -> tlookup p (st_tree st) = Some l -> leaf_path st l = Some p.
Proof. intros G H. apply (g_leaf _ G). apply tlookup_In. exact H. Qed.

(** *** update of an existing leaf *)
Lemma GInv_upd_existing st w p l c f :
  GInv st -> tlookup p (st_tree st) = Some l ->
  (f = [] \/ f = [ILeaf l]) ->
  (forall w' it, w' <> w -> In it (feed_of st w') -> item_target st it <> Some (target_of p)) ->
  GInv (mkState (upd_nth l (fun pc => (fst pc, c)) (st_leaves st)) (st_dels st) (st_tree st)
                (set_feed st w f) (st_subs st)).
Proof.
  intros G Hl Hf Hother.
  set (st' := mkState _ _ _ _ _).
  assert (LP : forall l', leaf_path st' l' = leaf_path st l').
  { intros l'. unfold leaf_path, st'. cbn. apply leaf_path_upd. }
  assert (IP : forall it, item_pat st' it = item_pat st it).
  { intros [l'|k|]; cbn; auto. }
  assert (E : ext st st') by (intros it d; rewrite IP; auto).
  assert (Hpl : leaf_path st l = Some p) by (eapply tlookup_leaf; eauto).
  assert (Hin : In (p, l) (st_tree st)) by (apply tlookup_In; auto).
  constructor; cbn.
  - apply (g_nodup _ G).
  - intros p0 l0 H. rewrite LP. apply (g_leaf _ G); auto.
  - intros p0 l0 H. destruct (g_ok _ G _ _ H) as (a & b & c0). repeat split; auto.
  - apply (g_pfree _ G).
  - intros f0 it H1 H2. rewrite IP. apply In_set_feed in H1 as [H1| ->].
    + eapply (g_feed_wf _ G); eauto.
    + destruct Hf as [->| ->]; [contradiction|]. destruct H2 as [<-|[]]. split; [discriminate|].
      exists p. split; [exact Hpl|]. apply (g_ok _ G _ _ Hin).
  - intros f0 l0 H1 H2. rewrite LP. apply In_set_feed in H1 as [H1| ->].
    + eapply (g_feed_leaf _ G); eauto.
    + destruct Hf as [->| ->]; [contradiction|]. destruct H2 as [[= <-]|[]]. eauto.
  - intros f0 k d H1 H2. try rewrite IP. apply In_set_feed in H1 as [H1| ->].
    + eapply (g_feed_del _ G); eauto.
    + destruct Hf as [->| ->]; [contradiction|]. destruct H2 as [?|[]]. discriminate.
  - apply (feed_tgt_set st _ _ _ _ w f (target_of p)); auto.
    + apply wf_exists; auto.
    + intros it Hit. destruct Hf as [->| ->]; [contradiction|]. destruct Hit as [<-|[]].
      unfold item_target. rewrite IP. cbn. rewrite Hpl. reflexivity.
    + apply (g_feed_tgt _ G).
Qed.

(** *** a new leaf *)
Lemma GInv_new_leaf st w p c :
  GInv st -> feed_of st w = [] -> tlookup p (st_tree st) = None -> conflicts st p = false ->
  target_ok p = true -> star_free p = true -> agree_on st p = true ->
  (forall w' it, w' <> w -> In it (feed_of st w') -> item_target st it <> Some (target_of p)) ->
  GInv (mkState (st_leaves st ++ [(p, c)]) (st_dels st) (st_tree st ++ [(p, List.length (st_leaves st))])
                (set_feed st w [ILeaf (List.length (st_leaves st))]) (st_subs st)).
Proof.
  intros G Hempty Hl Hc Ht Hs Ha Hother.
  set (l := List.length (st_leaves st)). set (st' := mkState _ _ _ _ _).
  assert (LPn : leaf_path st' l = Some p).
  { unfold leaf_path, st', l. cbn. rewrite nth_error_app2 by lia. rewrite Nat.sub_diag. reflexivity. }
  assert (E : ext st st').
  { intros [l'|k|] d; cbn; auto. unfold leaf_path. cbn. apply option_map_nth_app. }
  constructor; cbn.
  - rewrite map_app. cbn. apply NoDup_app_intro_single; [apply (g_nodup _ G)|].
    apply tlookup_None. exact Hl.
  - intros p0 l0 H. apply in_app_iff in H as [H|[[= <- <-]|[]]]; [|exact LPn].
    apply (E (ILeaf l0)). cbn. apply (g_leaf _ G); auto.
  - intros p0 l0 H. apply in_app_iff in H as [H|[[= <- <-]|[]]]; [apply (g_ok _ G _ _ H)|auto].
  - intros p1 l1 p2 l2 H1 H2.
    unfold conflicts in Hc.
    assert (Hc' : forall pl, In pl (st_tree st) -> strict_prefix (fst pl) p = false /\ strict_prefix p (fst pl) = false).
    { intros pl Hin. destruct (strict_prefix (fst pl) p || strict_prefix p (fst pl)) eqn:X.
      - exfalso. assert (existsb (fun pl => strict_prefix (fst pl) p || strict_prefix p (fst pl)) (st_tree st) = true)
          by (apply existsb_exists; eauto). congruence.
      - apply orb_false_iff in X. exact X. }
    apply in_app_iff in H1 as [H1|[[= <- <-]|[]]]; apply in_app_iff in H2 as [H2|[[= <- <-]|[]]].
    + eapply (g_pfree _ G); eauto.
    + apply (Hc' _ H1).
    + apply (Hc' _ H2).
    + unfold strict_prefix. rewrite path_eqb_refl, andb_false_r. reflexivity.
  - intros f0 it H1 H2. apply In_set_feed in H1 as [H1| ->].
    + destruct (g_feed_wf _ G _ _ H1 H2) as (a & d & Hd & b). split; auto. exists d. split; auto.
    + destruct H2 as [<-|[]]. split; [discriminate|]. exists p. split; auto.
  - intros f0 l0 H1 H2. apply In_set_feed in H1 as [H1| ->].
    + destruct (g_feed_leaf _ G _ _ H1 H2) as (p0 & Hp0 & Ht0). exists p0. split.
      * apply (E (ILeaf l0)). exact Hp0.
      * rewrite tlookup_app, Ht0. reflexivity.
    + destruct H2 as [[= <-]|[]]. exists p. split; [exact LPn|]. rewrite tlookup_app, Hl. cbn.
      rewrite path_eqb_refl. reflexivity.
  - intros f0 k d H1 H2 Hd p0 l0 H0. apply In_set_feed in H1 as [H1| ->]; [|destruct H2 as [?|[]]; discriminate].
    apply in_app_iff in H0 as [H0|[[= <- <-]|[]]]; [eapply (g_feed_del _ G); eauto|].
    destruct (covers d p) eqn:X; [|reflexivity]. exfalso.
    destruct (g_feed_wf _ G _ _ H1 H2) as (_ & d' & Hd' & Hok). cbn in Hd, Hd'. rewrite Hd in Hd'. inversion Hd'; subst d'.
    destruct (In_feed_of _ _ H1) as (w' & Hw' & _).
    assert (w' <> w).
    { intros ->. rewrite Hempty in Hw'. subst f0. contradiction. }
    eapply (Hother w' (IDel k)); auto.
    + rewrite Hw'. exact H2.
    + unfold item_target. cbn. cbn in Hd. rewrite Hd. cbn. f_equal. apply covers_target; auto.
  - apply (feed_tgt_set st _ _ _ _ w _ (target_of p)); auto.
    + apply wf_exists; auto.
    + intros it [<-|[]]. unfold item_target. cbn. fold l. change (leaf_path st' l) with (leaf_path st' l).
      unfold st' in LPn. rewrite LPn. reflexivity.
    + apply (g_feed_tgt _ G).
Qed.

(** Soundness of the convergence clause of K_P (C04Check.conv_path): when the
    checker accepts a path for a subscriber that is not updates_only and one of
    whose queries selects the path, then replaying the subscriber's responses
    in order gives exactly the dumped cache content (under the projection of
    the run: value only when event-driven suppression is on). *)
From Gnmi Require Import Base.Prelude Stream.StreamLts Stream.C04Check.
Open Scope Z_scope.

Lemma ocont_eqb_eq a b : ocont_eqb a b = true -> a = b.
Proof.
  destruct a as [[v t]|], b as [[v' t']|]; cbn; try discriminate; auto.
  intros H. apply andb_true_iff in H as [H1 H2]. apply Z.eqb_eq in H1, H2. subst. reflexivity.
Qed.

Theorem conv_path_sound c qs rs p :
  conv_path c qs false rs p = 0%N ->
  existsb (fun q => covers q p) qs = true ->
  pcont (c_ed c) (replay_path p None rs) = pcont (c_ed c) (dlookup p (c_dump c)).
Proof.
  unfold conv_path. intros H Hm. rewrite Hm in H. cbn in H.
  destruct (ocont_eqb (pcont (c_ed c) (replay_path p None rs)) (pcont (c_ed c) (dlookup p (c_dump c)))) eqn:E.
  - apply ocont_eqb_eq. exact E.
  - cbn in H. discriminate.
Qed.

(** ... and a path compatible with none of the queries is never updated. *)
Theorem conv_path_sound_foreign c qs uo rs p :
  conv_path c qs uo rs p = 0%N ->
  existsb (fun q => compat q p) qs = false -> existsb (fun q => covers q p) qs = false ->
  ~ In p (upd_paths rs).
Proof.
  unfold conv_path. intros H Hc Hm Hin. rewrite Hm, Hc in H.
  assert (existsb (path_eqb p) (upd_paths rs) = true) as E.
  { apply existsb_exists. exists p. split; auto. apply path_eqb_refl. }
  rewrite E in H. discriminate.
Qed.

(** Proofs about the relay model (C01). *)
From Gnmi Require Import Base.Prelude CTree.CTreeModel CTree.CTreeProofs CTree.CTreeTheorems
  Pipeline.PipelineModel.
Open Scope Z_scope.

(** * Collector glue *)

(** the collector's Update closure always names the configured target and a
    non-empty origin *)
Lemma stamp_prefix name n :
  exists pre, n_prefix (stamp name n) = Some pre /\ g_target pre = name /\ g_origin pre <> "".
Proof.
  unfold stamp. destruct (n_prefix n) as [p|]; cbn.
  - eexists; split; [reflexivity|]. cbn. split; [reflexivity|].
    unfold str_nonempty. destruct (String.eqb_spec (g_origin p) ""); cbn; [discriminate|assumption].
  - eexists; split; [reflexivity|]. cbn. split; [reflexivity|discriminate].
Qed.

Lemma validate_In c name t :
  validate c = true -> In (name, t) (cf_targets c) ->
  name <> "" /\ t_addresses t <> [] /\ exists r, assoc (t_request t) (cf_requests c) = Some r.
Proof.
  unfold validate. rewrite forallb_forall. intros H Hin. specialize (H _ Hin). cbn in H.
  rewrite !andb_true_iff in H. destruct H as [[[H1 H2] _] H4].
  split; [|split].
  - unfold str_nonempty in H1. destruct (String.eqb_spec name ""); cbn in H1; congruence.
  - destruct (t_addresses t); cbn in H2; congruence.
  - destruct (assoc (t_request t) (cf_requests c)) as [r|]; [eauto|discriminate].
Qed.

(** collector_start registers every configured target, with the target
    manager (carrying its own request, customised with its name) and with the
    cache; an invalid configuration serves nothing *)
Lemma collector_start_spec c :
  match collector_start c with
  | Some (managed, cached) =>
      validate c = true /\
      keys managed = keys (cf_targets c) /\ cached = keys (cf_targets c) /\
      forall name t, In (name, t) (cf_targets c) ->
        exists r, assoc (t_request t) (cf_requests c) = Some r /\ In (name, customize name r) managed
  | None => validate c = false
  end.
Proof.
  unfold collector_start. destruct (validate c) eqn:Hv; [|reflexivity].
  unfold defect_C01_1. cbn [negb].
  assert (Hk : forall l, (forall name t, In (name, t) l -> In (name, t) (cf_targets c)) ->
    keys (flat_map (fun nt => match assoc (t_request (snd nt)) (cf_requests c) with
                              | Some r => [(fst nt, customize (fst nt) r)] | None => [] end) l) = keys l).
  { induction l as [|[n t] l IH]; cbn; intros Hl; [reflexivity|].
    destruct (validate_In c n t Hv (Hl n t (or_introl eq_refl))) as (_ & _ & r & Hr).
    rewrite Hr. cbn. f_equal. apply IH. intros; apply Hl; now right. }
  split; [reflexivity|]. rewrite Hk by auto. split; [reflexivity|]. split; [reflexivity|].
  intros name t Hin. destruct (validate_In c name t Hv Hin) as (_ & _ & r & Hr).
  exists r. split; [assumption|]. apply in_flat_map. exists (name, t). split; [assumption|].
  cbn. rewrite Hr. now left.
Qed.

(** * gnmi_cli: the three invocation styles build the same request *)

Section CliEquiv.
Variable parse : string -> option cli_req.
Variable files : string -> option string.

Lemma str_nonempty_true s : s <> "" -> str_nonempty s = true.
Proof. unfold str_nonempty. destruct (String.eqb_spec s ""); cbn; congruence. Qed.

Lemma cli_equivalent tgt qs qt m txt fname r :
  query_type qt = Some m -> qs <> [] -> existsb has_bracket qs = false ->
  r = {| cr_mode := m; cr_target := tgt;
         cr_paths := map (fun s => query_to_path (parse_query s)) qs |} ->
  txt <> "" -> fname <> "" -> parse txt = Some r -> files fname = Some txt ->
  cli_request parse files
    {| a_target := tgt; a_queries := qs; a_qtype := qt; a_proto := ""; a_proto_file := "" |} = CliReq r
  /\ cli_request parse files
    {| a_target := ""; a_queries := []; a_qtype := qt; a_proto := txt; a_proto_file := "" |} = CliReq r
  /\ cli_request parse files
    {| a_target := ""; a_queries := []; a_qtype := qt; a_proto := ""; a_proto_file := fname |} = CliReq r.
Proof.
  intros Hqt Hqs Hb -> Htxt Hf Hp Hfile. unfold cli_request, proto_request_from_flags, defect_C01_2. cbn.
  rewrite Hqt. split; [|split].
  - destruct qs as [|q0 qs']; [congruence|]. cbn in Hb |- *. rewrite Hb. reflexivity.
  - rewrite (str_nonempty_true txt Htxt). now rewrite Hp.
  - rewrite (str_nonempty_true fname Hf). rewrite Hfile. rewrite (str_nonempty_true txt Htxt). now rewrite Hp.
Qed.
End CliEquiv.

Example cli_equivalent_example :
  let r := {| cr_mode := MOnce; cr_target := "dev1"; cr_paths := [["a"; "b"]] |} in
  let parse := fun s => if String.eqb s "subscribe:{...}" then Some r else None in
  let files := fun f => if String.eqb f "req.txt" then Some "subscribe:{...}" else None in
  cli_request parse files
    {| a_target := "dev1"; a_queries := ["/a/b"]; a_qtype := "once"; a_proto := ""; a_proto_file := "" |} = CliReq r
  /\ cli_request parse files
    {| a_target := ""; a_queries := []; a_qtype := "once"; a_proto := ""; a_proto_file := "req.txt" |} = CliReq r.
Proof. vm_compute. split; reflexivity. Qed.

(** * Pure facts used by the relay proof *)

Lemma qmatch_glob_free d : glob_free d = true -> forall k, qmatch d k = is_prefix d k.
Proof.
  induction d as [|a d IH]; intros Hg k; [reflexivity|].
  cbn in Hg. apply andb_true_iff in Hg as [Ha Hd]. apply negb_true_iff in Ha.
  cbn [qmatch is_prefix]. rewrite Ha. destruct k as [|b k]; [reflexivity|]. now rewrite IH.
Qed.

Lemma is_prefix_refl p : is_prefix p p = true.
Proof. induction p; cbn; [reflexivity|]. now rewrite String.eqb_refl. Qed.

Lemma is_prefix_strict_or_eq p q :
  is_prefix p q = true -> p = q \/ strict_prefix p q = true.
Proof.
  intros H. unfold strict_prefix. rewrite H. destruct (path_eqb_spec p q); [now left|now right].
Qed.

Lemma mmatch_prefix q p : is_prefix q p = true -> mmatch q p = true.
Proof.
  revert p; induction q as [|a q IH]; intros [|b p]; cbn; try reflexivity; try discriminate.
  intros H. apply andb_true_iff in H as [H1 H2]. rewrite H1, (IH _ H2). now rewrite !orb_true_r.
Qed.

Lemma mmatch_glob_free q p :
  glob_free q = true -> glob_free p = true -> mmatch q p = true ->
  is_prefix q p = true \/ is_prefix p q = true.
Proof.
  revert p; induction q as [|a q IH]; intros [|b p] Hq Hp; cbn; auto.
  cbn in Hq, Hp. apply andb_true_iff in Hq as [Ha Hq]. apply andb_true_iff in Hp as [Hb Hp].
  apply negb_true_iff in Ha. apply negb_true_iff in Hb. rewrite Ha, Hb. cbn.
  intros H. apply andb_true_iff in H as [H1 H2]. rewrite H1. cbn.
  apply String.eqb_eq in H1. subst. rewrite String.eqb_refl. cbn. now apply IH.
Qed.

Lemma mmatch_other_head a q b p :
  is_glob a = false -> is_glob b = false -> a <> b -> mmatch (a :: q) (b :: p) = false.
Proof.
  intros Ha Hb Hn. cbn. rewrite Ha, Hb. cbn. destruct (String.eqb_spec a b); [contradiction|reflexivity].
Qed.

(** structural equality of values *)
Lemma tv_ind' (P : tv -> Prop) :
  (forall s, P (TVString s)) -> (forall z, P (TVInt z)) -> (forall z, P (TVUint z)) ->
  (forall b, P (TVBool b)) -> (forall s, P (TVBytes s)) -> (forall b, P (TVFloat b)) ->
  (forall b, P (TVDouble b)) -> (forall d p, P (TVDecimal d p)) ->
  (forall l, Forall P l -> P (TVLeaflist l)) ->
  (forall s, P (TVJson s)) -> (forall s, P (TVJsonIetf s)) -> (forall s, P (TVAny s)) ->
  (forall s, P (TVAscii s)) -> (forall s, P (TVProto s)) -> forall v, P v.
Proof.
  intros H0 H1 H2 H3 H4 H5 H6 H7 H8 H9 H10 H11 H12 H13. fix IH 1.
  intros [s|z|z|b|s|b|b|d p|l|s|s|s|s|s];
    [apply H0|apply H1|apply H2|apply H3|apply H4|apply H5|apply H6|apply H7| |apply H9|apply H10
    |apply H11|apply H12|apply H13].
  apply H8. induction l as [|x l IHl]; constructor; [apply IH|apply IHl].
Qed.

Lemma tv_eqb_eq a : forall b, tv_eqb a b = true -> a = b.
Proof.
  induction a using tv_ind'; intros [ ] Hb; cbn in Hb; try discriminate;
    try (apply String.eqb_eq in Hb; congruence);
    try (apply Z.eqb_eq in Hb; congruence);
    try (apply Bool.eqb_prop in Hb; congruence).
  - apply andb_true_iff in Hb as [H1 H2]. apply Z.eqb_eq in H1, H2. congruence.
  - f_equal. revert l0 Hb. induction H as [|x l Hx Hl IH]; intros [|y l'] Hb; try discriminate; [reflexivity|].
    apply andb_true_iff in Hb as [H1 H2]. f_equal; [now apply Hx|now apply IH].
Qed.

Lemma leafrec_eqb_val a b : leafrec_eqb a b = true -> lr_ts a = lr_ts b /\ lr_val a = lr_val b.
Proof.
  unfold leafrec_eqb. rewrite !andb_true_iff. intros [[[H1 _] _] H4].
  apply Z.eqb_eq in H1. split; [assumption|now apply tv_eqb_eq].
Qed.

(** Proofs about the relay model (C01). *)
From Gnmi Require Import Base.Prelude CTree.CTreeModel CTree.CTreeProofs CTree.CTreeTheorems
  Pipeline.PipelineModel Pipeline.PipelineCheck.
Open Scope Z_scope.

(** * Collector glue *)

(** the collector's Update closure always names the configured target and a
    non-empty origin *)
Lemma stamp_prefix name n :
  exists pre, n_prefix (stamp name n) = Some pre /\ g_target pre = name /\ g_origin pre <> "".
Proof.
  unfold stamp. destruct (n_prefix n) as [p|]; cbn.
  - eexists; split; [reflexivity|]. cbn. split; [reflexivity|].
    unfold str_nonempty. destruct (String.eqb_spec (g_origin p) ""); cbn; [discriminate|assumption].
  - eexists; split; [reflexivity|]. cbn. split; [reflexivity|discriminate].
Qed.

Lemma validate_In c name t :
  validate c = true -> In (name, t) (cf_targets c) ->
  name <> "" /\ t_addresses t <> [] /\ exists r, assoc (t_request t) (cf_requests c) = Some r.
Proof.
  unfold validate. rewrite forallb_forall. intros H Hin. specialize (H _ Hin). cbn in H.
  rewrite !andb_true_iff in H. destruct H as [[[H1 H2] _] H4].
  split; [|split].
  - unfold str_nonempty in H1. destruct (String.eqb_spec name ""); cbn in H1; congruence.
  - destruct (t_addresses t); cbn in H2; congruence.
  - destruct (assoc (t_request t) (cf_requests c)) as [r|]; [eauto|discriminate].
Qed.

(** collector_start registers every configured target, with the target
    manager (carrying its own request, customised with its name) and with the
    cache; an invalid configuration serves nothing *)
Lemma collector_start_spec c :
  match collector_start c with
  | Some (managed, cached) =>
      validate c = true /\
      keys managed = keys (cf_targets c) /\ cached = keys (cf_targets c) /\
      forall name t, In (name, t) (cf_targets c) ->
        exists r, assoc (t_request t) (cf_requests c) = Some r /\ In (name, customize name r) managed
  | None => validate c = false
  end.
Proof.
  unfold collector_start. destruct (validate c) eqn:Hv; [|reflexivity].
  unfold defect_C01_1. cbn [negb].
  assert (Hk : forall l, (forall name t, In (name, t) l -> In (name, t) (cf_targets c)) ->
    keys (flat_map (fun nt => match assoc (t_request (snd nt)) (cf_requests c) with
                              | Some r => [(fst nt, customize (fst nt) r)] | None => [] end) l) = keys l).
  { induction l as [|[n t] l IH]; cbn; intros Hl; [reflexivity|].
    destruct (validate_In c n t Hv (Hl n t (or_introl eq_refl))) as (_ & _ & r & Hr).
    rewrite Hr. cbn. f_equal. apply IH. intros; apply Hl; now right. }
  split; [reflexivity|]. rewrite Hk by auto. split; [reflexivity|]. split; [reflexivity|].
  intros name t Hin. destruct (validate_In c name t Hv Hin) as (_ & _ & r & Hr).
  exists r. split; [assumption|]. apply in_flat_map. exists (name, t). split; [assumption|].
  cbn. rewrite Hr. now left.
Qed.

(** * gnmi_cli: the three invocation styles build the same request *)

Section CliEquiv.
Variable parse : string -> option cli_req.
Variable files : string -> option string.

Lemma str_nonempty_true s : s <> "" -> str_nonempty s = true.
Proof. unfold str_nonempty. destruct (String.eqb_spec s ""); cbn; congruence. Qed.

Lemma cli_equivalent tgt qs qt m txt fname r :
  query_type qt = Some m -> qs <> [] -> existsb has_bracket qs = false ->
  r = {| cr_mode := m; cr_target := tgt;
         cr_paths := map (fun s => query_to_path (parse_query s)) qs |} ->
  txt <> "" -> fname <> "" -> parse txt = Some r -> files fname = Some txt ->
  cli_request parse files
    {| a_target := tgt; a_queries := qs; a_qtype := qt; a_proto := ""; a_proto_file := "" |} = CliReq r
  /\ cli_request parse files
    {| a_target := ""; a_queries := []; a_qtype := qt; a_proto := txt; a_proto_file := "" |} = CliReq r
  /\ cli_request parse files
    {| a_target := ""; a_queries := []; a_qtype := qt; a_proto := ""; a_proto_file := fname |} = CliReq r.
Proof.
  intros Hqt Hqs Hb -> Htxt Hf Hp Hfile. unfold cli_request, proto_request_from_flags, defect_C01_2. cbn.
  rewrite Hqt. split; [|split].
  - destruct qs as [|q0 qs']; [congruence|]. cbn in Hb |- *. rewrite Hb. reflexivity.
  - rewrite (str_nonempty_true txt Htxt). now rewrite Hp.
  - rewrite (str_nonempty_true fname Hf). rewrite Hfile. rewrite (str_nonempty_true txt Htxt). now rewrite Hp.
Qed.
End CliEquiv.

Example cli_equivalent_example :
  let r := {| cr_mode := MOnce; cr_target := "dev1"; cr_paths := [["a"; "b"]] |} in
  let parse := fun s => if String.eqb s "subscribe:{...}" then Some r else None in
  let files := fun f => if String.eqb f "req.txt" then Some "subscribe:{...}" else None in
  cli_request parse files
    {| a_target := "dev1"; a_queries := ["/a/b"]; a_qtype := "once"; a_proto := ""; a_proto_file := "" |} = CliReq r
  /\ cli_request parse files
    {| a_target := ""; a_queries := []; a_qtype := "once"; a_proto := ""; a_proto_file := "req.txt" |} = CliReq r.
Proof. vm_compute. split; reflexivity. Qed.

(** * Request encodings: the spellings of one logical query that only a proto
    invocation can carry (element strings, prefix origin, elem/element mixes)
    resolve to the same registration path, the same snapshot path and hence
    the same ONCE view as the spelling the flag style builds *)

Lemma flat_names q :
  flat_map (fun e => e_name e :: key_vals (e_keys e)) (names_elem q) = q.
Proof. induction q as [|n q IH]; cbn in *; [reflexivity | now f_equal]. Qed.

Lemma to_strings_names o t q :
  to_strings_gp (mk_gpath o t (names_elem q) []) false = q.
Proof.
  unfold to_strings_gp, mk_gpath. cbn [g_elem g_element app].
  destruct q as [|n q]; [reflexivity|]. exact (flat_names (n :: q)).
Qed.

Lemma to_strings_element o t el :
  to_strings_gp (mk_gpath o t [] el) false = el.
Proof. reflexivity. Qed.

Lemma to_strings_pre p :
  to_strings_gp p true =
  (if str_nonempty (g_target p) then [g_target p] else [])
  ++ (if str_nonempty (g_origin p) then [g_origin p] else []) ++ to_strings_gp p false.
Proof. unfold to_strings_gp. cbn [app]. now rewrite app_assoc. Qed.

Definition names_ok (ql : path) : Prop := Forall (fun s => s <> "") ql.

Lemma encode_request_resolves e tgt ql :
  tgt <> "" -> names_ok ql ->
  let r := encode_request e tgt ql in
  g_target (cq_prefix r) = tgt /\ cq_more r = []
  /\ sub_query r = tgt :: ql
  /\ complete_path (cq_prefix r) (cq_path r) = Some ql.
Proof.
  intros Ht Hq.
  assert (H0 : match ql with [] => True | q0 :: _ => str_nonempty q0 = true end).
  { destruct Hq; [exact I | now apply str_nonempty_true]. }
  pose proof (str_nonempty_true tgt Ht) as Htn.
  destruct e, ql as [|q0 q]; cbn [encode_request]; cbv zeta;
    (split; [reflexivity | split; [reflexivity|]]);
    unfold sub_query, complete_path; rewrite !to_strings_pre;
    cbn [cq_prefix cq_path];
    rewrite ?to_strings_names, ?to_strings_element;
    cbn [mk_gpath g_origin g_target]; rewrite ?Htn, ?H0; cbn; rewrite ?H0, ?andb_false_r, ?andb_true_r; cbn; rewrite ?andb_false_r; cbn; split; reflexivity.
Qed.

Lemma encode_request_once st e tgt ql :
  tgt <> "" -> names_ok ql ->
  once_view st (encode_request e tgt ql) = once_view st (encode_request EncElem tgt ql).
Proof.
  intros Ht Hq.
  pose proof (encode_request_resolves e tgt ql Ht Hq) as H1.
  pose proof (encode_request_resolves EncElem tgt ql Ht Hq) as H2.
  cbv zeta in H1, H2.
  destruct H1 as (T1 & M1 & _ & C1). destruct H2 as (T2 & M2 & _ & C2).
  unfold once_view, snapshot, cq_paths. cbv zeta.
  rewrite T1, T2, M1, M2. cbn [snapshot_entries]. rewrite C1, C2. reflexivity.
Qed.

Theorem cli_request_encodings_equivalent e tgt ql :
  tgt <> "" -> names_ok ql ->
  let r := encode_request e tgt ql in
  sub_queries r = [tgt :: ql]
  /\ complete_path (cq_prefix r) (cq_path r) = Some ql
  /\ forall cfg ss, pipeline_once cfg ss r = pipeline_once cfg ss (encode_request EncElem tgt ql).
Proof.
  intros Ht Hq. pose proof (encode_request_resolves e tgt ql Ht Hq) as H1. cbv zeta in H1 |- *.
  destruct H1 as (T1 & M1 & S1 & C1). split; [|split].
  - unfold sub_queries. now rewrite M1, S1.
  - exact C1.
  - intros cfg ss. unfold pipeline_once. destruct (collector_start cfg) as [[managed cached]|]; [|reflexivity].
    now apply encode_request_once.
Qed.

(** * Pure facts used by the relay proof *)

Lemma qmatch_glob_free d : glob_free d = true -> forall k, qmatch d k = is_prefix d k.
Proof.
  induction d as [|a d IH]; intros Hg k; [reflexivity|].
  cbn in Hg. apply andb_true_iff in Hg as [Ha Hd]. apply negb_true_iff in Ha.
  cbn [qmatch is_prefix]. rewrite Ha. destruct k as [|b k]; [reflexivity|]. now rewrite IH.
Qed.

Lemma is_prefix_refl p : is_prefix p p = true.
Proof. induction p; cbn; [reflexivity|]. now rewrite String.eqb_refl. Qed.

Lemma is_prefix_strict_or_eq p q :
  is_prefix p q = true -> p = q \/ strict_prefix p q = true.
Proof.
  intros H. unfold strict_prefix. rewrite H. destruct (path_eqb_spec p q); [now left|now right].
Qed.

Lemma mmatch_prefix q p : is_prefix q p = true -> mmatch q p = true.
Proof.
  revert p; induction q as [|a q IH]; intros [|b p]; cbn; try reflexivity; try discriminate.
  intros H. apply andb_true_iff in H as [H1 H2]. rewrite H1, (IH _ H2). now rewrite !orb_true_r.
Qed.

Lemma mmatch_glob_free q p :
  glob_free q = true -> glob_free p = true -> mmatch q p = true ->
  is_prefix q p = true \/ is_prefix p q = true.
Proof.
  revert p; induction q as [|a q IH]; intros [|b p] Hq Hp; cbn; auto.
  cbn in Hq, Hp. apply andb_true_iff in Hq as [Ha Hq]. apply andb_true_iff in Hp as [Hb Hp].
  apply negb_true_iff in Ha. apply negb_true_iff in Hb. rewrite Ha, Hb. cbn.
  intros H. apply andb_true_iff in H as [H1 H2]. rewrite H1. cbn.
  apply String.eqb_eq in H1. subst. rewrite String.eqb_refl. cbn. now apply IH.
Qed.

Lemma mmatch_other_head a q b p :
  is_glob a = false -> is_glob b = false -> a <> b -> mmatch (a :: q) (b :: p) = false.
Proof.
  intros Ha Hb Hn. cbn. rewrite Ha, Hb. cbn. destruct (String.eqb_spec a b); [contradiction|reflexivity].
Qed.

(** structural equality of values *)
Lemma tv_ind' (P : tv -> Prop) :
  (forall s, P (TVString s)) -> (forall z, P (TVInt z)) -> (forall z, P (TVUint z)) ->
  (forall b, P (TVBool b)) -> (forall s, P (TVBytes s)) -> (forall b, P (TVFloat b)) ->
  (forall b, P (TVDouble b)) -> (forall d p, P (TVDecimal d p)) ->
  (forall l, Forall P l -> P (TVLeaflist l)) ->
  (forall s, P (TVJson s)) -> (forall s, P (TVJsonIetf s)) -> (forall s, P (TVAny s)) ->
  (forall s, P (TVAscii s)) -> (forall s, P (TVProto s)) -> forall v, P v.
Proof.
  intros H0 H1 H2 H3 H4 H5 H6 H7 H8 H9 H10 H11 H12 H13. fix IH 1.
  intros [s|z|z|b|s|b|b|d p|l|s|s|s|s|s];
    [apply H0|apply H1|apply H2|apply H3|apply H4|apply H5|apply H6|apply H7| |apply H9|apply H10
    |apply H11|apply H12|apply H13].
  apply H8. induction l as [|x l IHl]; constructor; [apply IH|apply IHl].
Qed.

Lemma leafrec_eqb_val a b :
  leafrec_eqb a b = true -> lr_ts a = lr_ts b /\ tv_eqb (lr_val a) (lr_val b) = true.
Proof.
  unfold leafrec_eqb. rewrite !andb_true_iff. intros [[[H1 _] _] H4].
  apply Z.eqb_eq in H1. split; assumption.
Qed.

(** * The relay invariant *)

(** the specification state in the order the cache works in (updates, then
    deletes of older leaves), with timestamps; a function, used pointwise *)
Definition tfun := path -> option (Z * tv).

Definition tfset (f : tfun) (k : path) (ts : Z) (v : tv) : tfun :=
  fun k' => if path_eqb k' k then Some (ts, v) else f k'.

Definition tfupd (f : tfun) (k : path) (ts : Z) (v : tv) : tfun :=
  fun k' => if path_eqb k' k then newer (f k') ts v else f k'.

Lemma tfupd_set f k ts v :
  match f k with Some (t0, _) => (ts <? t0) = false | None => True end ->
  forall k', tfupd f k ts v k' = tfset f k ts v k'.
Proof.
  intros H k'. unfold tfupd, tfset. destruct (path_eqb_spec k' k) as [->|_]; [|reflexivity].
  unfold newer. destruct (f k) as [[t0 v0]|]; [now rewrite H|reflexivity].
Qed.

Lemma tfupd_older f k ts v t0 v0 :
  f k = Some (t0, v0) -> (ts <? t0) = true -> forall k', tfupd f k ts v k' = f k'.
Proof.
  intros H Hlt k'. unfold tfupd. destruct (path_eqb_spec k' k) as [->|_]; [|reflexivity].
  unfold newer. now rewrite H, Hlt.
Qed.

Definition tfdel (f : tfun) (d : path) (ts : Z) : tfun :=
  fun k' => match f k' with
            | Some (t0, v) => if qmatch d k' && (t0 <? ts) then None else Some (t0, v)
            | None => None
            end.

Definition decode (o : option (Z * tv)) : option scalar :=
  match o with Some (_, v) => to_scalar v | None => None end.

Definition strs_of (g : gpath) : path := to_strings_gp g false.

(** index path of a stored record below its target *)
Definition idx (r : leafrec) : path :=
  g_origin (lr_prefix r) :: strs_of (lr_prefix r) ++ strs_of (lr_path r).

Definition del_full (d : delrec) : path :=
  (if str_nonempty (d_target d) then [d_target d] else [])
  ++ (if str_nonempty (d_origin d) then [d_origin d] else [])
  ++ to_strings_gp (d_path d) false.

(** which paths a delete removes at the client: a glob-free delete path names one
    leaf (the cache announces deletes leaf by leaf), a path with a glob -- the
    <root>/* deletes of a reset -- everything it matches *)
Definition dmatch (d p : path) : bool :=
  if forallb (fun e => negb (is_glob e)) d then path_eqb d p else qmatch d p.

Definition concerns (H : heap) (p : path) (i : qitem) : bool :=
  match i with
  | QLeaf g => match hget H g with Some r => path_eqb (full_path r) p | None => false end
  | QDel d => dmatch (del_full d) p
  | QSync => false
  end.

Fixpoint last_conc (H : heap) (p : path) (q : list qitem) : option qitem :=
  match q with
  | [] => None
  | i :: q' =>
      match last_conc H p q' with
      | Some j => Some j
      | None => if concerns H p i then Some i else None
      end
  end.

(** what the client will hold at [p] once the queue is delivered *)
Definition final (H : heap) (c : tree scalar) (q : list qitem) (p : path) : option scalar :=
  match last_conc H p q with
  | Some (QLeaf g) => match hget H g with Some r => to_scalar (lr_val r) | None => None end
  | Some _ => None
  | None => lookup c p
  end.

Lemma last_conc_app H p q1 q2 :
  last_conc H p (q1 ++ q2) =
  match last_conc H p q2 with Some j => Some j | None => last_conc H p q1 end.
Proof.
  induction q1 as [|i q1 IH]; cbn; [now destruct (last_conc H p q2)|].
  rewrite IH. destruct (last_conc H p q2); reflexivity.
Qed.

Lemma last_conc_In H p q i : last_conc H p q = Some i -> In i q /\ concerns H p i = true.
Proof.
  induction q as [|j q IH]; cbn; [discriminate|].
  destruct (last_conc H p q) as [x|].
  - intros E; inversion E; subst. destruct (IH eq_refl); auto.
  - destruct (concerns H p j) eqn:Hc; [|discriminate]. intros E; inversion E; subst; auto.
Qed.

Lemma last_conc_None H p q : last_conc H p q = None <-> forall i, In i q -> concerns H p i = false.
Proof.
  induction q as [|j q IH]; cbn; [tauto|].
  destruct (last_conc H p q) as [x|] eqn:E.
  - split; [discriminate|]. intros Hall. apply last_conc_In in E as [Hin Hc].
    rewrite Hall in Hc by auto. discriminate.
  - destruct (concerns H p j) eqn:Hc.
    + split; [discriminate|]. intros Hall. rewrite Hall in Hc by auto. discriminate.
    + split; [|reflexivity]. intros _ i [<-|Hin]; [assumption|]. now apply IH.
Qed.

Lemma last_conc_ext H H' p q :
  (forall i, In i q -> concerns H' p i = concerns H p i) -> last_conc H' p q = last_conc H p q.
Proof.
  induction q as [|j q IH]; cbn; intros Hc; [reflexivity|].
  rewrite IH by (intros; apply Hc; auto). rewrite Hc by auto. reflexivity.
Qed.

Lemma path_eqb_sym_b p q : path_eqb p q = path_eqb q p.
Proof.
  destruct (path_eqb_spec p q) as [->|Hn]; [now rewrite path_eqb_refl|].
  destruct (path_eqb_spec q p); congruence.
Qed.

(** ** what the queue will do to the set of paths the client holds *)

(** a queue entry as an event on the client's tree: add or delete of a path *)
Definition ev (H : heap) (i : qitem) : option (bool * path) :=
  match i with
  | QLeaf g => match hget H g with Some r => Some (true, full_path r) | None => None end
  | QDel d => Some (false, del_full d)
  | QSync => None
  end.

Definition conflict (a b : path) : bool := strict_prefix a b || strict_prefix b a.

Definition condD (dom : path -> bool) (e : option (bool * path)) : Prop :=
  match e with
  | None => True
  | Some (true, p) => forall s, dom s = true -> conflict s p = false      (* the Add succeeds *)
  | Some (false, p) =>
      (* a leaf delete removes one leaf at most; a wildcard delete may remove many *)
      forallb (fun e => negb (is_glob e)) p = true -> forall s, dom s = true -> strict_prefix p s = false
  end.

Definition stepD (dom : path -> bool) (e : option (bool * path)) : path -> bool :=
  match e with
  | None => dom
  | Some (true, p) => fun s => path_eqb s p || dom s
  | Some (false, p) => fun s => negb (dmatch p s) && dom s
  end.

(** every event of the queue finds the tree in a state in which it acts on
    exactly its own path *)
Fixpoint safeD (dom : path -> bool) (q : list (option (bool * path))) : Prop :=
  match q with
  | [] => True
  | e :: q' => condD dom e /\ safeD (stepD dom e) q'
  end.

Fixpoint finalD (dom : path -> bool) (q : list (option (bool * path))) (p : path) : bool :=
  match q with
  | [] => dom p
  | e :: q' => finalD (stepD dom e) q' p
  end.

Lemma condD_ext d1 d2 e : (forall s, d1 s = d2 s) -> condD d1 e -> condD d2 e.
Proof.
  intros He. destruct e as [[[|] p]|]; cbn; auto.
  - intros Hc s Hs; apply Hc; now rewrite He.
  - intros Hc Hg s Hs; apply Hc; auto; now rewrite He.
Qed.

Lemma stepD_ext d1 d2 e : (forall s, d1 s = d2 s) -> forall s, stepD d1 e s = stepD d2 e s.
Proof. intros He s. destruct e as [[[|] p]|]; cbn; now rewrite ?He. Qed.

Lemma safeD_ext q : forall d1 d2, (forall s, d1 s = d2 s) -> safeD d1 q -> safeD d2 q.
Proof.
  induction q as [|e q IH]; cbn; intros d1 d2 He; [auto|]. intros [Hc Hs]. split.
  - eapply condD_ext; eauto.
  - eapply IH; [|exact Hs]. now apply stepD_ext.
Qed.

Lemma finalD_ext q : forall d1 d2 p, (forall s, d1 s = d2 s) -> finalD d1 q p = finalD d2 q p.
Proof.
  induction q as [|e q IH]; cbn; intros d1 d2 p He; [apply He|]. apply IH. now apply stepD_ext.
Qed.

Lemma safeD_app q1 : forall dom q2,
  safeD dom (q1 ++ q2) <-> safeD dom q1 /\ safeD (fun s => finalD dom q1 s) q2.
Proof.
  induction q1 as [|e q1 IH]; cbn; intros dom q2.
  - split; [intros H; split; [exact I|]|intros [_ H]]; eapply safeD_ext; try exact H; reflexivity.
  - rewrite IH. tauto.
Qed.

(** the last event of [q] about [p] *)
Fixpoint last_ev (p : path) (q : list (option (bool * path))) : option bool :=
  match q with
  | [] => None
  | e :: q' =>
      match last_ev p q' with
      | Some b => Some b
      | None => match e with
                | Some (b, p') => if (if b then path_eqb p' p else dmatch p' p) then Some b else None
                | None => None
                end
      end
  end.

Lemma finalD_last q : forall dom p,
  finalD dom q p = match last_ev p q with Some b => b | None => dom p end.
Proof.
  induction q as [|e q IH]; cbn; intros dom p; [reflexivity|]. rewrite IH.
  destruct (last_ev p q) as [b|]; [reflexivity|].
  destruct e as [[[|] p']|]; cbn [stepD]; rewrite ?(path_eqb_sym_b p p');
    [destruct (path_eqb p' p)|destruct (dmatch p' p)|]; reflexivity.
Qed.

Lemma last_ev_conc H p q :
  last_ev p (map (ev H) q) =
  match last_conc H p q with
  | Some i => match ev H i with Some (b, _) => Some b | None => None end
  | None => None
  end.
Proof.
  induction q as [|i q IH]; cbn [map last_ev last_conc]; [reflexivity|]. rewrite IH.
  destruct (last_conc H p q) as [j|] eqn:El.
  - apply last_conc_In in El as [_ Hc]. destruct j as [g|d|]; cbn [ev concerns] in *; try discriminate.
    + destruct (hget H g); [reflexivity|discriminate].
    + reflexivity.
  - destruct i as [g|d|]; cbn [ev concerns]; try reflexivity.
    + destruct (hget H g) as [r|] eqn:Hr; [|reflexivity].
      destruct (path_eqb (full_path r) p); cbn [ev]; rewrite ?Hr; reflexivity.
    + destruct (dmatch (del_full d) p); reflexivity.
Qed.

Lemma ev_ext H H' q :
  (forall i, In i q -> ev H' i = ev H i) -> map (ev H') q = map (ev H) q.
Proof. intros He. apply map_ext_in. exact He. Qed.

Definition dom_of (t : tree scalar) : path -> bool :=
  fun s => match lookup t s with Some _ => true | None => false end.

Definition sub_none (o : option subscriber) : bool := match o with None => true | Some _ => false end.

Lemma feed_leaf_none o g p : sub_none (feed_leaf o g p) = sub_none o.
Proof. destruct o as [sb|]; cbn [feed_leaf]; [|reflexivity]. now destruct (sub_matches sb p). Qed.

Lemma feed_del_none o d : sub_none (feed_del o d) = sub_none o.
Proof. destruct o as [sb|]; cbn [feed_del]; [|reflexivity]. now destruct (sub_matches sb _). Qed.

Lemma cache_update_one_none w r : sub_none (w_sub (cache_update_one w r)) = sub_none (w_sub w).
Proof.
  unfold cache_update_one. destruct (w_fault w); [reflexivity|].
  destruct (join_prefix_and_path _ _) as [[|h tl]|]; try reflexivity.
  destruct (String.eqb h meta_root); [reflexivity|].
  destruct (get (w_tree w) (h :: tl)) as [[g|cs]|]; try reflexivity.
  - destruct (hget (w_heap w) g) as [old|]; [|reflexivity].
    destruct (lr_ts r <? lr_ts old); [reflexivity|].
    destruct ((lr_ts r =? lr_ts old) && leafrec_eqb old r); [reflexivity|].
    destruct (tv_equal (lr_val old) (lr_val r)); cbn [w_sub]; [reflexivity|apply feed_leaf_none].
  - destruct (add (w_tree w) (h :: tl) (w_gen w)); cbn [w_sub]; [apply feed_leaf_none|reflexivity].
Qed.

Lemma cache_delete_one_none ts pre w d : sub_none (w_sub (cache_delete_one ts pre w d)) = sub_none (w_sub w).
Proof.
  unfold cache_delete_one. destruct (w_fault w); [reflexivity|].
  destruct (join_prefix_and_path _ _) as [idx0|]; try reflexivity.
  destruct (match idx0 with [] => false | h :: _ => String.eqb h meta_root end); [reflexivity|]. cbn [w_sub].
  generalize (snd (delete_cond (w_tree w) idx0
     (fun g => match hget (w_heap w) g with Some r => lr_ts r <? ts | None => false end))).
  intros l. generalize (w_sub w). induction l as [|pg l IH]; intros o; cbn [fold_left]; [reflexivity|].
  rewrite IH. destruct (hget (w_heap w) (snd pg)); [apply feed_del_none|reflexivity].
Qed.

Lemma ingest_sub_none st n it : sub_none (ps_sub (ingest st n it)) = sub_none (ps_sub st).
Proof.
  unfold ingest. destruct (ps_fault st); [reflexivity|]. destruct it as [|nt|]; [reflexivity| |].
  2:{ unfold cache_reset. destruct (assoc n (ps_cache st)) as [t|]; [|reflexivity]. cbn [ps_sub].
      generalize (ps_sub st). generalize (match children_at t [] with
         | Some ks => filter (fun k => negb (String.eqb k meta_root)) ks | None => [] end).
      induction l as [|r0 l IH]; intros o; cbn [fold_left]; [reflexivity|]. now rewrite IH, feed_del_none. }
  destruct (n_prefix (stamp n nt)) as [pre|]; [|reflexivity].
  destruct (assoc n (ps_cache st)) as [t|]; [|reflexivity]. cbn [ps_sub].
  unfold target_gnmi_update.
  set (w0 := {| w_tree := t; w_heap := ps_heap st; w_gen := ps_gen st; w_sub := ps_sub st; w_fault := None |}).
  change (ps_sub st) with (w_sub w0). generalize w0. clear w0. intros w0.
  assert (Hu : forall us w, sub_none (w_sub (fold_left (fun w u => cache_update_one w
                 {| lr_ts := n_ts (stamp n nt); lr_prefix := pre; lr_path := fst u; lr_val := snd u |}) us w)) = sub_none (w_sub w)).
  { induction us as [|u us IH]; intros w; cbn [fold_left]; [reflexivity|]. now rewrite IH, cache_update_one_none. }
  assert (Hd : forall ds w, sub_none (w_sub (fold_left (cache_delete_one (n_ts (stamp n nt)) pre) ds w)) = sub_none (w_sub w)).
  { induction ds as [|d ds IH]; intros w; cbn [fold_left]; [reflexivity|]. now rewrite IH, cache_delete_one_none. }
  now rewrite Hd, Hu.
Qed.

Section Relay.
Variable name : string.
Variable Keys : path -> Prop.          (* the target's schema: origin :: path strings *)
Variable Vals : tv -> Prop.            (* the values the target sends *)
Variable Qrs : list path.               (* the registered queries, without the target name *)
Hypothesis Keys_gf : forall a, Keys a -> glob_free a = true.
Hypothesis Vals_dec : forall v, Vals v -> to_scalar v <> None.
Hypothesis Vals_canon : forall a b, Vals a -> Vals b -> tv_equal a b = true -> to_scalar a = to_scalar b.
Hypothesis Vals_peq : forall a b, Vals a -> Vals b -> tv_eqb a b = true -> a = b.
Hypothesis Q_gf : forall Qr, In Qr Qrs -> glob_free Qr = true.
Hypothesis Q_above : forall Qr k, In Qr Qrs -> Keys k -> strict_prefix k Qr = false.
Hypothesis name_ne : name <> "".
Hypothesis name_ng : is_glob name = false.

(** the paths the subscriber is registered under *)
Definition Qs : list path := map (cons name) Qrs.

(** a key the subscription selects: below one of its entries *)
Definition under (k : path) : bool := existsb (fun Qr => is_prefix Qr k) Qrs.

Record rec_ok (r : leafrec) : Prop := {
  ro_target : g_target (lr_prefix r) = name;
  ro_origin : g_origin (lr_prefix r) <> "";
  ro_meta : g_origin (lr_prefix r) <> meta_root;
  ro_key : Keys (idx r);
  ro_val : Vals (lr_val r)
}.

Lemma full_path_ok r : rec_ok r -> full_path r = name :: idx r.
Proof.
  intros [Ht Ho _ _ _]. unfold full_path, idx, strs_of. unfold to_strings_gp at 1.
  rewrite Ht, (str_nonempty_true _ name_ne), (str_nonempty_true _ Ho). cbn.
  reflexivity.
Qed.

Lemma join_ok r : rec_ok r -> join_prefix_and_path (lr_prefix r) (lr_path r) = Some (idx r).
Proof.
  intros Hr. unfold join_prefix_and_path. change (to_strings_gp (lr_prefix r) true ++ to_strings_gp (lr_path r) false)
    with (full_path r). now rewrite (full_path_ok r Hr).
Qed.

Lemma mmatch_under1 Qr k : In Qr Qrs -> Keys k -> mmatch (name :: Qr) (name :: k) = is_prefix Qr k.
Proof.
  intros Hq Hk. cbn [mmatch]. rewrite name_ng, String.eqb_refl. cbn [orb andb].
  destruct (is_prefix Qr k) eqn:E; [now apply mmatch_prefix|].
  destruct (mmatch Qr k) eqn:Hm; [|reflexivity].
  apply mmatch_glob_free in Hm; [|now apply Q_gf|now apply Keys_gf].
  destruct Hm as [Hm|Hm]; [congruence|].
  apply is_prefix_strict_or_eq in Hm as [Hm|Hm].
  - rewrite <- Hm, is_prefix_refl in E. discriminate.
  - rewrite (Q_above Qr k Hq Hk) in Hm. discriminate.
Qed.

Lemma sub_matches_all sb full : sub_matches sb full = existsb (fun Q => mmatch Q full) (sb_queries sb).
Proof. reflexivity. Qed.

Lemma mmatch_under sb k : sb_queries sb = Qs -> Keys k -> sub_matches sb (name :: k) = under k.
Proof.
  intros Hs Hk. rewrite sub_matches_all, Hs. unfold Qs, under.
  assert (G : forall l, (forall Qr, In Qr l -> In Qr Qrs) ->
            existsb (fun Q => mmatch Q (name :: k)) (map (cons name) l) = existsb (fun Qr => is_prefix Qr k) l).
  { induction l as [|Qr l IH]; intros Hl; cbn [map existsb]; [reflexivity|].
    rewrite (mmatch_under1 Qr k) by (auto; apply Hl; now left). rewrite IH; [reflexivity|].
    intros; apply Hl; now right. }
  apply G. auto.
Qed.

Definition item_ok (H : heap) (i : qitem) : Prop :=
  match i with
  | QLeaf g => exists r, hget H g = Some r /\ rec_ok r /\ under (idx r) = true
  | QDel d =>
      (exists k, del_full d = name :: k /\ Keys k /\ under k = true)           (* one leaf *)
      \/ (exists root, del_full d = [name; root; "*"] /\ is_glob root = false)  (* a reset: <root>/* *)
  | QSync => True
  end.

Record sub_inv (T : tree nat) (H : heap) (TF : tfun) (sb : subscriber) : Prop := {
  si_query : sb_queries sb = Qs;
  si_err : cl_err (sb_client sb) = false;
  si_wf : wf_tree (cl_tree (sb_client sb));
  si_stored : forall p s, lookup (cl_tree (sb_client sb)) p = Some s -> exists k, p = name :: k /\ Keys k;
  si_items : forall i, In i (sb_queue sb) -> item_ok H i;
  si_final : forall k, Keys k ->
      final H (cl_tree (sb_client sb)) (sb_queue sb) (name :: k) = if under k then decode (TF k) else None;
  si_live : forall k g, lookup T k = Some g -> under k = true ->
      match last_conc H (name :: k) (sb_queue sb) with None => True | Some i => i = QLeaf g end;
  si_safe : safeD (dom_of (cl_tree (sb_client sb))) (map (ev H) (sb_queue sb))
}.

Record ninv (T : tree nat) (H : heap) (gen : nat) (sub : option subscriber) (TF : tfun) : Prop := {
  ni_wf : wf_tree T;
  ni_tree : forall k g, lookup T k = Some g ->
      (g < gen)%nat /\ exists r, hget H g = Some r /\ rec_ok r /\ idx r = k /\ TF k = Some (lr_ts r, lr_val r);
  ni_spec : forall k x, TF k = Some x -> exists g, lookup T k = Some g;
  ni_heap : forall g r, hget H g = Some r -> (g < gen)%nat;
  ni_pf : forall a b x y, TF a = Some x -> TF b = Some y -> strict_prefix a b = false;
  ni_sub : match sub with None => True | Some sb => sub_inv T H TF sb end
}.

Lemma ninv_ext T H gen sub TF TF' :
  (forall k, TF' k = TF k) -> ninv T H gen sub TF -> ninv T H gen sub TF'.
Proof.
  intros He [H1 H2 H3 H4 Hpf H5]. constructor; auto.
  - intros k g Hl. destruct (H2 k g Hl) as (? & r & ? & ? & ? & ?). split; [assumption|].
    exists r. rewrite He. auto.
  - intros k x. rewrite He. apply H3.
  - intros a b x y. rewrite !He. apply Hpf.
  - destruct sub as [sb|]; [|exact I]. destruct H5. constructor; auto.
    intros k Hk. rewrite He. auto.
Qed.

Lemma hget_hset H g r g' : hget (hset H g r) g' = if Nat.eqb g' g then Some r else hget H g'.
Proof. reflexivity. Qed.

Lemma concerns_hset H g r old p i :
  hget H g = Some old -> full_path old = full_path r ->
  concerns (hset H g r) p i = concerns H p i.
Proof.
  intros Ho Hp. destruct i as [g'|d|]; cbn [concerns]; try reflexivity.
  rewrite hget_hset. destruct (Nat.eqb_spec g' g) as [->|Hn]; [|reflexivity]. now rewrite Ho, Hp.
Qed.

Lemma concerns_hset_fresh H g r p i :
  hget H g = None -> (forall g', i = QLeaf g' -> hget H g' <> None) ->
  concerns (hset H g r) p i = concerns H p i.
Proof.
  intros Ho Hi. destruct i as [g'|d|]; cbn [concerns]; try reflexivity.
  rewrite hget_hset. destruct (Nat.eqb_spec g' g) as [->|Hn]; [|reflexivity]. exfalso. now apply (Hi g eq_refl).
Qed.

Lemma final_QLeaf_Some H c q k g :
  last_conc H (name :: k) q = Some (QLeaf g) -> (forall i, In i q -> item_ok H i) ->
  exists r, hget H g = Some r /\ rec_ok r /\ idx r = k /\
            final H c q (name :: k) = to_scalar (lr_val r) /\ to_scalar (lr_val r) <> None.
Proof.
  intros Hl Hit. destruct (last_conc_In _ _ _ _ Hl) as [Hin Hc].
  destruct (Hit _ Hin) as (r & Hr & Hok & _). exists r. cbn [concerns] in Hc. rewrite Hr in Hc.
  apply path_eqb_eq in Hc. rewrite (full_path_ok r Hok) in Hc. inversion Hc as [Hk]. clear Hc. subst k.
  unfold final. rewrite Hl, Hr. split; [reflexivity|]. split; [assumption|]. split; [reflexivity|].
  split; [reflexivity|]. apply Vals_dec, Hok.
Qed.


Lemma dmatch_exact k p : Keys k -> dmatch (name :: k) p = path_eqb (name :: k) p.
Proof.
  intros Hk. unfold dmatch. cbn [forallb]. rewrite name_ng. cbn [negb andb].
  change (forallb (fun e => negb (is_glob e)) k) with (glob_free k). now rewrite (Keys_gf k Hk).
Qed.

Lemma dmatch_root root p : dmatch [name; root; "*"] p = qmatch [name; root; "*"] p.
Proof. unfold dmatch. cbn [forallb]. now rewrite !andb_false_r || (cbn; now rewrite !andb_false_r). Qed.

Lemma qmatch_root root k :
  is_glob root = false ->
  qmatch [name; root; "*"] (name :: k) = match k with r0 :: _ => String.eqb root r0 | [] => false end.
Proof.
  intros Hr. cbn [qmatch]. rewrite name_ng, String.eqb_refl. cbn [andb]. rewrite Hr.
  destruct k as [|r0 k']; [reflexivity|]. cbn. now rewrite andb_true_r.
Qed.

Lemma conflict_cons a k1 k2 : conflict (a :: k1) (a :: k2) = conflict k1 k2.
Proof. unfold conflict. now rewrite !strict_prefix_cons, String.eqb_refl. Qed.

(** whatever the client will hold once the queue is delivered is a live key of
    the specification state *)
Lemma finalD_TF T H TF sb s :
  sub_inv T H TF sb ->
  finalD (dom_of (cl_tree (sb_client sb))) (map (ev H) (sb_queue sb)) s = true ->
  exists k, s = name :: k /\ Keys k /\ TF k <> None.
Proof.
  intros [S1 S2 S3 S4 S5 S6 S7 S8] Hf. rewrite finalD_last, last_ev_conc in Hf.
  destruct (last_conc H s (sb_queue sb)) as [i|] eqn:El.
  - destruct (last_conc_In _ _ _ _ El) as [Hi Hc]. specialize (S5 i Hi).
    destruct i as [g|d|]; cbn [ev item_ok concerns] in *; [|discriminate|discriminate].
    destruct S5 as (r & Hr & Hok & Hu). rewrite Hr in Hf, Hc. apply path_eqb_eq in Hc.
    rewrite (full_path_ok r Hok) in Hc. subst s. exists (idx r). split; [reflexivity|]. split; [apply Hok|].
    specialize (S6 _ (ro_key r Hok)). unfold final in S6. rewrite El, Hr, Hu in S6.
    intros E. rewrite E in S6. cbn in S6. apply (Vals_dec _ (ro_val r Hok)). exact S6.
  - unfold dom_of in Hf. destruct (lookup (cl_tree (sb_client sb)) s) as [v|] eqn:Hl; [|discriminate].
    destruct (S4 _ _ Hl) as (k & -> & Hk). exists k. split; [reflexivity|]. split; [assumption|].
    specialize (S6 k Hk). unfold final in S6. rewrite El, Hl in S6. destruct (under k); [|discriminate].
    intros E. rewrite E in S6. discriminate.
Qed.

(** ** an update of a leaf the cache already holds *)
Lemma sub_upd_existing T H TF sb g old r q' :
  sub_inv T H TF sb ->
  lookup T (idx r) = Some g -> hget H g = Some old -> rec_ok old -> idx old = idx r -> rec_ok r ->
  TF (idx r) = Some (lr_ts old, lr_val old) ->
  (forall k', TF k' <> None -> conflict k' (idx r) = false) ->
  (q' = sb_queue sb /\ (existsb (qitem_is_leaf g) (sb_queue sb) = true
                        \/ to_scalar (lr_val old) = to_scalar (lr_val r)
                        \/ under (idx r) = false))
  \/ (q' = sb_queue sb ++ [QLeaf g] /\ under (idx r) = true) ->
  sub_inv T (hset H g r) (tfset TF (idx r) (lr_ts r) (lr_val r))
    {| sb_target := sb_target sb; sb_query := sb_query sb; sb_more := sb_more sb; sb_queue := q'; sb_client := sb_client sb |}.
Proof.
  intros Hsi Hlk Hold Hoko Hidx Hr Htf Hpf Hq'. pose proof Hsi as [S1 S2 S3 S4 S5 S6 S7 S8].
  assert (Hfp : full_path old = full_path r)
    by (rewrite (full_path_ok old Hoko), (full_path_ok r Hr); congruence).
  assert (Hconc : forall p i, concerns (hset H g r) p i = concerns H p i)
    by (intros; eapply concerns_hset; eauto).
  assert (Hlast : forall p q, last_conc (hset H g r) p q = last_conc H p q)
    by (intros; apply last_conc_ext; intros; apply Hconc).
  assert (Hcg : forall p, concerns H p (QLeaf g) = path_eqb (name :: idx r) p).
  { intros p. cbn [concerns]. rewrite Hold, Hfp, (full_path_ok r Hr). reflexivity. }
  assert (Hq'in : forall i, In i q' -> In i (sb_queue sb) \/ (i = QLeaf g /\ under (idx r) = true)).
  { intros i Hi. destruct Hq' as [[-> _]|[-> Hu]]; [auto|]. apply in_app_iff in Hi as [Hi|[<-|[]]]; auto. }
  assert (Hlast' : forall k, k <> idx r -> last_conc H (name :: k) q' = last_conc H (name :: k) (sb_queue sb)).
  { intros k Hk. destruct Hq' as [[-> _]|[-> _]]; [reflexivity|].
    rewrite last_conc_app. cbn [last_conc]. rewrite Hcg.
    destruct (path_eqb_spec (name :: idx r) (name :: k)) as [E|_]; [inversion E; congruence|reflexivity]. }
  constructor; cbn [sb_queries sb_query sb_more sb_queue sb_client]; auto.
  - (* items *)
    intros i Hi. destruct (Hq'in i Hi) as [Hi0|[-> Hu]].
    + specialize (S5 i Hi0). destruct i as [g1|d|]; cbn [item_ok] in *; auto.
      rewrite hget_hset. destruct (Nat.eqb_spec g1 g) as [->|_]; [|assumption].
      destruct S5 as (r0 & Hr0 & _ & Hu0). rewrite Hold in Hr0. inversion Hr0; subst r0.
      exists r. rewrite <- Hidx. auto.
    + cbn [item_ok]. rewrite hget_hset, Nat.eqb_refl. eauto.
  - (* final *)
    intros k Hk. unfold final. rewrite Hlast. unfold tfset.
    destruct (path_eqb_spec k (idx r)) as [->|Hne].
    + cbn [decode]. specialize (S6 (idx r) Hk). rewrite Htf in S6. cbn [decode] in S6.
      unfold final in S6. destruct (under (idx r)) eqn:Hu.
      * specialize (S7 _ _ Hlk Hu).
        destruct Hq' as [[-> Hc]|[-> _]].
        -- destruct (last_conc H (name :: idx r) (sb_queue sb)) as [i|] eqn:El.
           ++ subst i. rewrite Hold in S6. now rewrite hget_hset, Nat.eqb_refl.
           ++ destruct Hc as [Hc|[Hc|Hc]]; [| |discriminate].
              ** exfalso. apply existsb_exists in Hc as (i & Hi & Hig).
                 destruct i as [g1|d|]; cbn in Hig; try discriminate. apply Nat.eqb_eq in Hig. subst g1.
                 apply (proj1 (last_conc_None _ _ _) El) in Hi. rewrite Hcg, path_eqb_refl in Hi. discriminate.
              ** rewrite S6. now rewrite Hc.
        -- rewrite last_conc_app. cbn [last_conc]. rewrite Hcg, path_eqb_refl.
           now rewrite hget_hset, Nat.eqb_refl.
      * (* not selected by the subscription: nothing about it is ever queued as a leaf *)
        assert (Hq : q' = sb_queue sb) by (destruct Hq' as [[-> _]|[_ E]]; [reflexivity|congruence]).
        rewrite Hq. destruct (last_conc H (name :: idx r) (sb_queue sb)) as [[g1|d|]|] eqn:El; try assumption.
        exfalso. apply last_conc_In in El as [Hi _]. destruct (S5 _ Hi) as (r1 & Hr1 & Hok1 & _).
        rewrite Hr1 in S6. now apply (Vals_dec _ (ro_val r1 Hok1)).
    + rewrite (Hlast' k Hne). specialize (S6 k Hk). unfold final in S6.
      destruct (last_conc H (name :: k) (sb_queue sb)) as [[g1|d|]|] eqn:El; try assumption.
      rewrite hget_hset. destruct (Nat.eqb_spec g1 g) as [->|_]; [|assumption].
      exfalso. apply last_conc_In in El as [_ Hc]. rewrite Hcg in Hc. apply path_eqb_eq in Hc.
      inversion Hc; congruence.
  - (* live *)
    intros k g' Hl' Hu'. rewrite Hlast. destruct (path_eqb_spec k (idx r)) as [->|Hne].
    + assert (g' = g) by congruence. subst g'. specialize (S7 _ _ Hlk Hu').
      destruct Hq' as [[-> _]|[-> _]]; [assumption|].
      rewrite last_conc_app. cbn [last_conc]. now rewrite Hcg, path_eqb_refl.
    + rewrite (Hlast' k Hne). now apply S7.
  - (* safe *)
    assert (Hev : forall i, ev (hset H g r) i = ev H i).
    { intros i. destruct i as [g1|d|]; cbn [ev]; try reflexivity. rewrite hget_hset.
      destruct (Nat.eqb_spec g1 g) as [->|_]; [|reflexivity]. now rewrite Hold, Hfp. }
    rewrite (ev_ext H (hset H g r) q') by (intros; apply Hev).
    destruct Hq' as [[-> _]|[-> Hu]]; [assumption|].
    rewrite map_app. apply safeD_app. split; [assumption|]. cbn [map safeD ev]. rewrite Hold. split; [|exact I].
    cbn [condD]. intros s Hs. destruct (finalD_TF _ _ _ _ s Hsi Hs) as (k' & -> & _ & Hk').
    rewrite (full_path_ok old Hoko), Hidx, conflict_cons. now apply Hpf.
Qed.


(** ** a leaf the cache did not hold *)
Lemma sub_upd_new T T' H gen TF sb r q' :
  sub_inv T H TF sb ->
  (forall g0 r0, hget H g0 = Some r0 -> (g0 < gen)%nat) ->
  (forall k, lookup T' k = if path_eqb k (idx r) then Some gen else lookup T k) ->
  lookup T (idx r) = None -> TF (idx r) = None -> rec_ok r ->
  (forall k', TF k' <> None -> conflict k' (idx r) = false) ->
  q' = (if under (idx r) then sb_queue sb ++ [QLeaf gen] else sb_queue sb) ->
  sub_inv T' (hset H gen r) (tfset TF (idx r) (lr_ts r) (lr_val r))
    {| sb_target := sb_target sb; sb_query := sb_query sb; sb_more := sb_more sb; sb_queue := q'; sb_client := sb_client sb |}.
Proof.
  intros Hsi Hheap HT' Hnone Htf Hr Hpf ->. pose proof Hsi as [S1 S2 S3 S4 S5 S6 S7 S8].
  assert (Hfresh : hget H gen = None).
  { destruct (hget H gen) as [r0|] eqn:E; [|reflexivity]. apply Hheap in E. lia. }
  assert (Hconc : forall p i, In i (sb_queue sb) -> concerns (hset H gen r) p i = concerns H p i).
  { intros p i Hi. apply concerns_hset_fresh; [assumption|]. intros g' ->.
    destruct (S5 _ Hi) as (r0 & Hr0 & _). congruence. }
  assert (Hlast : forall p, last_conc (hset H gen r) p (sb_queue sb) = last_conc H p (sb_queue sb))
    by (intros; apply last_conc_ext; intros; now apply Hconc).
  assert (Hcg : forall p, concerns (hset H gen r) p (QLeaf gen) = path_eqb (name :: idx r) p).
  { intros p. cbn [concerns]. rewrite hget_hset, Nat.eqb_refl, (full_path_ok r Hr). reflexivity. }
  assert (Hget : forall g1, In (QLeaf g1) (sb_queue sb) -> hget (hset H gen r) g1 = hget H g1).
  { intros g1 Hi. rewrite hget_hset. destruct (Nat.eqb_spec g1 gen) as [->|_]; [|reflexivity].
    destruct (S5 _ Hi) as (r0 & Hr0 & _). congruence. }
  assert (Hlq : forall k, last_conc (hset H gen r) (name :: k)
                  (if under (idx r) then sb_queue sb ++ [QLeaf gen] else sb_queue sb) =
                if under (idx r) && path_eqb k (idx r) then Some (QLeaf gen)
                else last_conc H (name :: k) (sb_queue sb)).
  { intros k. destruct (under (idx r)); cbn [andb]; [|apply Hlast].
    rewrite last_conc_app. cbn [last_conc]. rewrite Hcg, Hlast.
    destruct (path_eqb_spec k (idx r)) as [->|Hne].
    - now rewrite path_eqb_refl.
    - destruct (path_eqb_spec (name :: idx r) (name :: k)) as [E|_]; [inversion E; congruence|].
      now destruct (last_conc H (name :: k) (sb_queue sb)). }
  constructor; cbn [sb_queries sb_query sb_more sb_queue sb_client]; auto.
  - intros i Hi.
    assert (Hi' : In i (sb_queue sb) \/ (i = QLeaf gen /\ under (idx r) = true)).
    { destruct (under (idx r)); [|auto]. apply in_app_iff in Hi as [Hi|[<-|[]]]; auto. }
    destruct Hi' as [Hi0|[-> Hu]].
    + specialize (S5 i Hi0). destruct i as [g1|d|]; cbn [item_ok] in *; auto.
      now rewrite (Hget g1 Hi0).
    + cbn [item_ok]. rewrite hget_hset, Nat.eqb_refl. eauto.
  - intros k Hk. unfold final. rewrite Hlq. unfold tfset.
    destruct (path_eqb_spec k (idx r)) as [->|Hne].
    + rewrite andb_true_r. cbn [decode]. destruct (under (idx r)) eqn:Hu.
      * now rewrite hget_hset, Nat.eqb_refl.
      * specialize (S6 _ Hk). rewrite Hu in S6. unfold final in S6.
        destruct (last_conc H (name :: idx r) (sb_queue sb)) as [[g1|d|]|] eqn:El; try assumption.
        apply last_conc_In in El as [Hi _]. now rewrite (Hget g1 Hi).
    + rewrite andb_false_r. specialize (S6 k Hk). unfold final in S6.
      destruct (last_conc H (name :: k) (sb_queue sb)) as [[g1|d|]|] eqn:El; try assumption.
      apply last_conc_In in El as [Hi _]. now rewrite (Hget g1 Hi).
  - intros k g' Hl' Hu'. rewrite Hlq. rewrite HT' in Hl'.
    destruct (path_eqb_spec k (idx r)) as [->|Hne].
    + inversion Hl'; subst g'. now rewrite andb_true_r, Hu'.
    + rewrite andb_false_r. now apply S7.
  - (* safe *)
    assert (Hev : map (ev (hset H gen r)) (sb_queue sb) = map (ev H) (sb_queue sb)).
    { apply ev_ext. intros i Hi. destruct i as [g1|d|]; cbn [ev]; try reflexivity. now rewrite (Hget g1 Hi). }
    destruct (under (idx r)); [|now rewrite Hev].
    rewrite map_app, Hev. apply safeD_app. split; [assumption|]. cbn [map safeD ev].
    rewrite hget_hset, Nat.eqb_refl. split; [|exact I]. cbn [condD]. intros s Hs.
    destruct (finalD_TF _ _ _ _ s Hsi Hs) as (k' & -> & _ & Hk').
    rewrite (full_path_ok r Hr), conflict_cons. now apply Hpf.
Qed.

Lemma get_branch_lookup (T : tree nat) k cs :
  wf_tree T -> get T k = Some (Branch cs) -> exists s v, s <> [] /\ lookup T (k ++ s) = Some v.
Proof.
  intros Hwf Hg. apply (is_branch_exact T k Hwf). unfold is_branch_at. now rewrite Hg.
Qed.

(** ** Target.gnmiUpdate for one update of the subscribed target *)
Lemma update_step T H gen sub TF r :
  ninv T H gen sub TF -> rec_ok r ->
  (forall k', TF k' <> None -> conflict k' (idx r) = false) ->
  let w := cache_update_one {| w_tree := T; w_heap := H; w_gen := gen; w_sub := sub; w_fault := None |} r in
  w_fault w = None /\
  ninv (w_tree w) (w_heap w) (w_gen w) (w_sub w) (tfupd TF (idx r) (lr_ts r) (lr_val r)).
Proof.
  intros Hinv Hr Hnc. unfold cache_update_one. cbn [w_fault w_tree w_heap w_gen w_sub].
  rewrite (join_ok r Hr).
  assert (Hcons : exists tl, idx r = g_origin (lr_prefix r) :: tl) by (eexists; reflexivity).
  destruct Hcons as (tl & Hcons). rewrite Hcons. cbv beta iota. rewrite <- Hcons.
  destruct (String.eqb_spec (g_origin (lr_prefix r)) meta_root) as [E|_]; [now apply (ro_meta r Hr) in E|].
  destruct Hinv as [N1 N2 N3 N4 Npf N5].
  assert (Hpf' : forall a b x y, tfset TF (idx r) (lr_ts r) (lr_val r) a = Some x ->
                   tfset TF (idx r) (lr_ts r) (lr_val r) b = Some y -> strict_prefix a b = false).
  { intros a b x y. unfold tfset.
    destruct (path_eqb_spec a (idx r)) as [->|Ha]; destruct (path_eqb_spec b (idx r)) as [->|Hb]; intros Ea Eb.
    - unfold strict_prefix. now rewrite path_eqb_refl, andb_false_r.
    - assert (Hc : conflict b (idx r) = false) by (apply Hnc; congruence).
      unfold conflict in Hc. now apply orb_false_iff in Hc as [_ Hc].
    - assert (Hc : conflict a (idx r) = false) by (apply Hnc; congruence).
      unfold conflict in Hc. now apply orb_false_iff in Hc as [Hc _].
    - eapply Npf; eauto. }
  destruct (get T (idx r)) as [[g|cs]|] eqn:Hget.
  - (* existing leaf *)
    apply get_leaf_exact in Hget. destruct (N2 _ _ Hget) as (Hlt & old & Hold & Hoko & Hidx & Htf).
    rewrite Hold. destruct (lr_ts r <? lr_ts old) eqn:E1.
    { (* older than the stored value: ErrStale, nothing changes *)
      split; [reflexivity|]. cbn [w_tree w_heap w_gen w_sub].
      apply ninv_ext with (TF := TF); [|constructor; assumption].
      intros k. now apply (tfupd_older TF (idx r) (lr_ts r) (lr_val r) _ _ Htf E1). }
    destruct ((lr_ts r =? lr_ts old) && leafrec_eqb old r) eqn:E2.
    { split; [reflexivity|]. cbn [w_tree w_heap w_gen w_sub].
      apply ninv_ext with (TF := TF); [|constructor; assumption].
      intros k. rewrite (tfupd_set TF (idx r)) by (now rewrite Htf). unfold tfset.
      destruct (path_eqb_spec k (idx r)) as [->|]; [|reflexivity].
      rewrite Htf. apply andb_true_iff in E2 as [_ E2]. destruct (leafrec_eqb_val _ _ E2) as [-> E3].
      now rewrite (Vals_peq _ _ (ro_val old Hoko) (ro_val r Hr) E3). }
    assert (Htree : forall k g0, lookup T k = Some g0 ->
       (g0 < gen)%nat /\ exists r0, hget (hset H g r) g0 = Some r0 /\ rec_ok r0 /\ idx r0 = k /\
          tfset TF (idx r) (lr_ts r) (lr_val r) k = Some (lr_ts r0, lr_val r0)).
    { intros k g0 Hl. destruct (N2 _ _ Hl) as (Hlt0 & r0 & Hr0 & Hok0 & Hidx0 & Htf0).
      split; [assumption|]. rewrite hget_hset. unfold tfset.
      destruct (Nat.eqb_spec g0 g) as [->|Hng].
      - rewrite Hold in Hr0. inversion Hr0; subst r0. exists r. rewrite <- Hidx0, Hidx, path_eqb_refl. auto.
      - exists r0. destruct (path_eqb_spec k (idx r)) as [->|_]; [congruence|auto]. }
    assert (Hspec : forall k x, tfset TF (idx r) (lr_ts r) (lr_val r) k = Some x -> exists g0, lookup T k = Some g0).
    { intros k x. unfold tfset. destruct (path_eqb_spec k (idx r)) as [->|_]; [eauto|apply N3]. }
    assert (Hheap : forall g0 r0, hget (hset H g r) g0 = Some r0 -> (g0 < gen)%nat).
    { intros g0 r0. rewrite hget_hset. destruct (Nat.eqb_spec g0 g) as [->|_]; [auto|apply N4]. }
    destruct (tv_equal (lr_val old) (lr_val r)) eqn:Eeq; cbn [w_fault w_tree w_heap w_gen w_sub];
      (split; [reflexivity|]);
      (apply ninv_ext with (TF := tfset TF (idx r) (lr_ts r) (lr_val r));
       [intros k0; apply tfupd_set; now rewrite Htf|]);
      constructor; auto; try exact Hpf'.
    + destruct sub as [sb|]; [|exact I].
      replace sb with {| sb_target := sb_target sb; sb_query := sb_query sb; sb_more := sb_more sb; sb_queue := sb_queue sb;
                         sb_client := sb_client sb |} by (destruct sb; reflexivity).
      eapply sub_upd_existing; eauto. left. split; [reflexivity|]. right. left.
      apply Vals_canon; [apply Hoko|apply Hr|assumption].
    + destruct sub as [sb|]; cbn [feed_leaf]; [|exact I].
      rewrite (full_path_ok r Hr).
      replace (sub_matches sb (name :: idx r)) with (under (idx r))
        by (symmetry; apply (mmatch_under sb _ (si_query _ _ _ _ N5)), Hr).
      destruct (under (idx r)) eqn:Hu.
      * eapply sub_upd_existing; eauto. unfold q_insert_leaf.
        destruct (existsb (qitem_is_leaf g) (sb_queue sb)) eqn:Ex; [left|right]; auto.
      * replace sb with {| sb_target := sb_target sb; sb_query := sb_query sb; sb_more := sb_more sb; sb_queue := sb_queue sb;
                           sb_client := sb_client sb |} by (destruct sb; reflexivity).
        eapply sub_upd_existing; eauto.
  - (* a branch where a leaf is written: impossible in a prefix-free schema *)
    exfalso. destruct (get_branch_lookup T _ _ N1 Hget) as (s & v & Hs & Hl).
    destruct (N2 _ _ Hl) as (_ & r0 & _ & Hok0 & Hidx0 & Htf0).
    assert (Hc : conflict (idx r ++ s) (idx r) = false) by (apply Hnc; congruence).
    unfold conflict in Hc. apply orb_false_iff in Hc as [_ Hc].
    destruct s as [|a s]; [congruence|].
    assert (strict_prefix (idx r) (idx r ++ a :: s) = true) by (apply strict_prefix_spec; eauto). congruence.
  - (* new leaf *)
    assert (Hnone : lookup T (idx r) = None).
    { destruct (lookup T (idx r)) as [g|] eqn:El; [|reflexivity].
      apply get_leaf_exact in El. congruence. }
    assert (Htfn : TF (idx r) = None).
    { destruct (TF (idx r)) as [x|] eqn:E; [|reflexivity]. destruct (N3 _ _ E) as (g & Hg). congruence. }
    assert (Hcf : conflict_free T (idx r)).
    { intros q0 w Hq0. destruct (N2 _ _ Hq0) as (_ & r0 & _ & _ & _ & Htf0).
      assert (Hc : conflict q0 (idx r) = false) by (apply Hnc; congruence).
      unfold conflict in Hc. now apply orb_false_iff in Hc. }
    destruct (add T (idx r) gen) as [T'|] eqn:Hadd.
    2:{ exfalso. apply (add_ok_iff T (idx r) gen N1) in Hcf. congruence. }
    destruct (add_spec T T' (idx r) gen N1 Hadd) as [Hwf' HT'].
    cbn [w_fault w_tree w_heap w_gen w_sub]. split; [reflexivity|].
    apply ninv_ext with (TF := tfset TF (idx r) (lr_ts r) (lr_val r));
      [intros k0; apply tfupd_set; now rewrite Htfn|].
    constructor; auto; try exact Hpf'.
    + intros k g0. rewrite HT'. rewrite hget_hset. unfold tfset.
      destruct (path_eqb_spec k (idx r)) as [->|Hne].
      * intros E; inversion E; subst g0. split; [lia|]. rewrite Nat.eqb_refl. exists r. auto.
      * intros Hl. destruct (N2 _ _ Hl) as (Hlt0 & r0 & Hr0 & Hrest). split; [lia|].
        destruct (Nat.eqb_spec g0 gen) as [->|_]; [lia|]. eauto.
    + intros k x. unfold tfset. rewrite HT'. destruct (path_eqb_spec k (idx r)); [eauto|apply N3].
    + intros g0 r0. rewrite hget_hset. destruct (Nat.eqb_spec g0 gen) as [->|_]; [lia|].
      intros E. apply N4 in E. lia.
    + destruct sub as [sb|]; cbn [feed_leaf]; [|exact I].
      rewrite (full_path_ok r Hr).
      replace (sub_matches sb (name :: idx r)) with (under (idx r))
        by (symmetry; apply (mmatch_under sb _ (si_query _ _ _ _ N5)), Hr).
      assert (Hnp : existsb (qitem_is_leaf gen) (sb_queue sb) = false).
      { destruct (existsb (qitem_is_leaf gen) (sb_queue sb)) eqn:Ex; [|reflexivity].
        apply existsb_exists in Ex as (i & Hi & Hig). destruct i as [g1|d|]; cbn in Hig; try discriminate.
        apply Nat.eqb_eq in Hig. subst g1. destruct (si_items _ _ _ _ N5 _ Hi) as (r0 & Hr0 & _).
        apply N4 in Hr0. lia. }
      destruct (under (idx r)) eqn:Hu.
      * unfold q_insert_leaf. rewrite Hnp. eapply sub_upd_new; eauto. now rewrite Hu.
      * replace sb with {| sb_target := sb_target sb; sb_query := sb_query sb; sb_more := sb_more sb; sb_queue := sb_queue sb;
                           sb_client := sb_client sb |} by (destruct sb; reflexivity).
        eapply sub_upd_new; eauto. now rewrite Hu.
Qed.


(** ** deletes *)

Lemma flat_map_names (l : list string) :
  flat_map (fun e => e_name e :: key_vals (e_keys e)) (map (fun n => {| e_name := n; e_keys := [] |}) l) = l.
Proof. induction l as [|a l IH]; cbn; [reflexivity|]. now rewrite IH. Qed.

Lemma del_full_to_delete old ts : rec_ok old -> del_full (to_delete old ts) = name :: idx old.
Proof.
  intros [Ht Ho _ _ _]. unfold del_full, to_delete, defect_C01_3, to_delete_gen. cbn [d_target d_origin d_path].
  rewrite Ht, (str_nonempty_true _ name_ne).
  destruct (String.eqb_spec (g_origin (lr_prefix old)) "") as [E|_]; [contradiction|]. cbn [andb].
  rewrite (str_nonempty_true _ Ho). cbn [app]. unfold idx, strs_of, to_strings_gp, path_elems. f_equal. f_equal.
  destruct (g_elem (lr_prefix old)) as [|e1 es1] eqn:E1; destruct (g_elem (lr_path old)) as [|e2 es2] eqn:E2;
    cbn [g_elem g_element app].
  - reflexivity.
  - destruct (g_element (lr_prefix old)) as [|a l] eqn:E3; [reflexivity|].
    change (map (fun n => {| e_name := n; e_keys := [] |}) (a :: l) ++ e2 :: es2)
      with (map (fun n => {| e_name := n; e_keys := [] |}) (a :: l) ++ (e2 :: es2)).
    rewrite <- E3. destruct (map _ (g_element (lr_prefix old)) ++ e2 :: es2) eqn:E4.
    + apply app_eq_nil in E4 as [_ E4]. discriminate.
    + rewrite <- E4, flat_map_app, flat_map_names. reflexivity.
  - destruct (g_element (lr_path old)) as [|a l] eqn:E3; [now rewrite !app_nil_r|].
    rewrite <- E3. change (e1 :: es1 ++ map (fun n => {| e_name := n; e_keys := [] |}) (g_element (lr_path old)))
      with ((e1 :: es1) ++ map (fun n => {| e_name := n; e_keys := [] |}) (g_element (lr_path old))).
    now rewrite flat_map_app, flat_map_names.
  - change (e1 :: es1 ++ e2 :: es2) with ((e1 :: es1) ++ e2 :: es2). now rewrite flat_map_app.
Qed.

Definition mem (k : path) (D : list path) : bool := existsb (path_eqb k) D.

Definition tf_minus (TF : tfun) (D : list path) : tfun :=
  fun k => if mem k D then None else TF k.

Lemma sub_inv_ext T H TF TF' sb :
  (forall k, TF' k = TF k) -> sub_inv T H TF sb -> sub_inv T H TF' sb.
Proof. intros He []. constructor; auto. intros k Hk. rewrite He. auto. Qed.

Lemma sub_del_one T' H TF sb D k old ts :
  sub_inv T' H (tf_minus TF D) sb -> rec_ok old -> idx old = k -> lookup T' k = None ->
  (forall k', TF k' <> None -> strict_prefix k k' = false) ->
  match feed_del (Some sb) (to_delete old ts) with
  | Some sb' => sub_inv T' H (tf_minus TF (k :: D)) sb'
  | None => False
  end.
Proof.
  intros Hsi Hok Hidx Hdead Hpfk. pose proof Hsi as [S1 S2 S3 S4 S5 S6 S7 S8]. cbn [feed_del].
  change ((if str_nonempty (d_target (to_delete old ts)) then [d_target (to_delete old ts)] else []) ++
          (if str_nonempty (d_origin (to_delete old ts)) then [d_origin (to_delete old ts)] else []) ++
          to_strings_gp (d_path (to_delete old ts)) false) with (del_full (to_delete old ts)).
  rewrite (del_full_to_delete old ts Hok), Hidx, (mmatch_under sb k S1) by (rewrite <- Hidx; apply Hok).
  assert (Hk : Keys k) by (rewrite <- Hidx; apply Hok).
  assert (Htm : forall k1, tf_minus TF (k :: D) k1 = if path_eqb k1 k then None else tf_minus TF D k1).
  { intros k1. unfold tf_minus, mem. cbn [existsb]. now destruct (path_eqb k1 k). }
  destruct (under k) eqn:Hu.
  - assert (Hcd : forall p, concerns H p (QDel (to_delete old ts)) = path_eqb (name :: k) p).
    { intros p. cbn [concerns]. now rewrite (del_full_to_delete old ts Hok), Hidx, (dmatch_exact k p Hk). }
    constructor; cbn [sb_queries sb_query sb_more sb_queue sb_client]; auto.
    + intros i Hi. apply in_app_iff in Hi as [Hi|[<-|[]]]; [auto|].
      cbn [item_ok]. left. exists k. rewrite (del_full_to_delete old ts Hok), Hidx. auto.
    + intros k1 Hk1. rewrite Htm. unfold final. rewrite last_conc_app. cbn [last_conc]. rewrite Hcd.
      destruct (path_eqb_spec k1 k) as [->|Hne].
      * rewrite path_eqb_refl. now destruct (under k).
      * destruct (path_eqb_spec (name :: k) (name :: k1)) as [E|_]; [inversion E; congruence|].
        specialize (S6 k1 Hk1). unfold final in S6.
        now destruct (last_conc H (name :: k1) (sb_queue sb)).
    + intros k1 g1 Hl1 Hu1. rewrite last_conc_app. cbn [last_conc]. rewrite Hcd.
      destruct (path_eqb_spec (name :: k) (name :: k1)) as [E|_]; [inversion E; congruence|].
      specialize (S7 _ _ Hl1 Hu1). now destruct (last_conc H (name :: k1) (sb_queue sb)).
    + rewrite map_app. apply safeD_app. split; [assumption|]. cbn [map safeD ev condD]. split; [|exact I].
      intros _ s Hs. destruct (finalD_TF _ _ _ _ s Hsi Hs) as (k' & -> & _ & Hk').
      rewrite (del_full_to_delete old ts Hok), Hidx, strict_prefix_cons, String.eqb_refl. cbn [andb].
      apply Hpfk. unfold tf_minus in Hk'. destruct (mem k' D); [congruence|assumption].
  - constructor; auto. intros k1 Hk1. rewrite Htm. destruct (path_eqb_spec k1 k) as [->|_]; [|auto].
    specialize (S6 k Hk). rewrite Hu in S6. now rewrite Hu.
Qed.

Lemma join_pre (pre p : gpath) :
  g_target pre = name -> g_origin pre <> "" ->
  join_prefix_and_path pre p = Some (g_origin pre :: strs_of pre ++ strs_of p).
Proof.
  intros Ht Ho. unfold join_prefix_and_path. unfold to_strings_gp at 1.
  rewrite Ht, (str_nonempty_true _ name_ne), (str_nonempty_true _ Ho). reflexivity.
Qed.

(** Target.gnmiRemove for one delete of the subscribed target *)
Lemma delete_step T H gen sub TF (pre d : gpath) ts :
  ninv T H gen sub TF ->
  g_target pre = name -> g_origin pre <> "" -> g_origin pre <> meta_root ->
  let w := cache_delete_one ts pre {| w_tree := T; w_heap := H; w_gen := gen; w_sub := sub; w_fault := None |} d in
  w_fault w = None /\
  ninv (w_tree w) (w_heap w) (w_gen w) (w_sub w) (tfdel TF (g_origin pre :: strs_of pre ++ strs_of d) ts).
Proof.
  intros [N1 N2 N3 N4 Npf N5] Ht Ho Hm. unfold cache_delete_one. cbn [w_fault w_tree w_heap w_gen w_sub].
  rewrite (join_pre pre d Ht Ho). cbv beta iota.
  destruct (String.eqb_spec (g_origin pre) meta_root) as [E|_]; [contradiction|].
  set (dk := g_origin pre :: strs_of pre ++ strs_of d).
  set (cond := fun g : nat => match hget H g with Some r => lr_ts r <? ts | None => false end).
  destruct (delete_spec T dk cond N1) as (Hwf' & Hlk' & Hrem & Hnd).
  set (T' := fst (delete_cond T dk cond)) in *. set (rl := snd (delete_cond T dk cond)) in *.
  cbn [w_fault w_tree w_heap w_gen w_sub]. split; [reflexivity|].
  assert (Hsub : forall k g, lookup T' k = Some g -> lookup T k = Some g /\ (qmatch dk k && cond g) = false).
  { intros k g. rewrite Hlk'. unfold sel. destruct (lookup T k) as [g0|]; [|discriminate].
    destruct (qmatch dk k && cond g0) eqn:E; [discriminate|]. intros E'; inversion E'; subst. auto. }
  assert (Hcond : forall k g r, lookup T k = Some g -> hget H g = Some r -> cond g = (lr_ts r <? ts)).
  { intros k g r _ Hr. unfold cond. now rewrite Hr. }
  assert (Hpf' : forall a b x y, tfdel TF dk ts a = Some x -> tfdel TF dk ts b = Some y -> strict_prefix a b = false).
  { intros a b x y. unfold tfdel. destruct (TF a) as [[ta va]|] eqn:Ea; [|discriminate].
    destruct (TF b) as [[tb vb]|] eqn:Eb; [|discriminate]. intros _ _. eapply Npf; eauto. }
  constructor; auto; try exact Hpf'.
  - intros k g Hl. destruct (Hsub _ _ Hl) as [Hl0 Hc]. destruct (N2 _ _ Hl0) as (Hlt & r & Hr & Hok & Hidx & Htf).
    split; [assumption|]. exists r. repeat (split; [assumption|]). unfold tfdel. rewrite Htf.
    rewrite (Hcond _ _ _ Hl0 Hr) in Hc. now rewrite Hc.
  - intros k x. unfold tfdel. destruct (TF k) as [[t0 v]|] eqn:Htf; [|discriminate].
    destruct (qmatch dk k && (t0 <? ts)) eqn:Hc; [discriminate|]. intros _.
    destruct (N3 _ _ Htf) as (g & Hg). destruct (N2 _ _ Hg) as (_ & r & Hr & _ & _ & Htf').
    rewrite Htf in Htf'. inversion Htf'; subst. exists g. rewrite Hlk', Hg. unfold sel.
    now rewrite (Hcond _ _ _ Hg Hr), Hc.
  - destruct sub as [sb|].
    2:{ assert (Hn : forall l, fold_left (fun (s : option subscriber) (pg : path * nat) =>
                      match hget H (snd pg) with
                      | Some old => feed_del s (to_delete old ts)
                      | None => s end) l None = None).
        { induction l as [|pg l IH]; cbn [fold_left]; [reflexivity|].
          destruct (hget H (snd pg)); cbn [feed_del]; apply IH. }
        now rewrite Hn. }
    (* generalise over the removed leaves processed so far *)
    assert (Hgen : forall l D (s : subscriber),
      (forall k g, In (k, g) l -> lookup T k = Some g /\ lookup T' k = None) ->
      sub_inv T' H (tf_minus TF D) s ->
      match fold_left (fun s pg => match hget H (snd pg) with
                                   | Some old => feed_del s (to_delete old ts)
                                   | None => s end) l (Some s) with
      | Some s' => sub_inv T' H (tf_minus TF (map fst l ++ D)) s'
      | None => False
      end).
    { induction l as [|[k g] l IH]; intros D s Hl Hs; cbn [fold_left map app]; [assumption|].
      destruct (Hl k g (or_introl eq_refl)) as [Hlk Hdead].
      destruct (N2 _ _ Hlk) as (_ & old & Hold & Hoko & Hidx & Htfk). cbn [snd]. rewrite Hold.
      assert (Hpfk : forall k', TF k' <> None -> strict_prefix k k' = false).
      { intros k' Hk'. destruct (TF k') as [y|] eqn:Ey; [|congruence]. eapply Npf; eauto. }
      pose proof (sub_del_one T' H TF s D k old ts Hs Hoko Hidx Hdead Hpfk) as Hone.
      destruct (feed_del (Some s) (to_delete old ts)) as [s1|]; [|contradiction].
      specialize (IH (k :: D) s1 (fun k0 g0 Hin => Hl k0 g0 (or_intror Hin)) Hone).
      destruct (fold_left _ l (Some s1)) as [s2|]; [|contradiction].
      eapply sub_inv_ext; [|exact IH]. intros k1. unfold tf_minus, mem.
      cbn [fst existsb]. rewrite !existsb_app. cbn [existsb].
      destruct (path_eqb k1 k), (existsb (path_eqb k1) (keys l)), (existsb (path_eqb k1) D); reflexivity. }
    assert (Hrl : forall k g, In (k, g) rl -> lookup T k = Some g /\ lookup T' k = None).
    { intros k g Hin. apply Hrem in Hin as (Hl & Hq & Hc). split; [assumption|].
      rewrite Hlk', Hl. unfold sel. now rewrite Hq, Hc. }
    assert (Hstart : sub_inv T' H (tf_minus TF []) sb).
    { destruct N5 as [S1 S2 S3 S4 S5 S6 S7 S8]. constructor; auto.
      intros k g Hl. destruct (Hsub _ _ Hl) as [Hl0 _]. now apply S7. }
    specialize (Hgen rl [] sb Hrl Hstart).
    destruct (fold_left _ rl (Some sb)) as [s'|]; [|contradiction].
    eapply sub_inv_ext; [|exact Hgen]. intros k. unfold tf_minus, tfdel. rewrite app_nil_r.
    destruct (mem k (map fst rl)) eqn:Hmem.
    + apply existsb_exists in Hmem as (k0 & Hin & E). apply path_eqb_eq in E. subst k0.
      apply in_map_iff in Hin as ([k0 g] & E & Hin). cbn in E. subst k0.
      apply Hrem in Hin as (Hl & Hq & Hc). destruct (N2 _ _ Hl) as (_ & r & Hr & _ & _ & Htf).
      rewrite Htf, Hq. rewrite (Hcond _ _ _ Hl Hr) in Hc. now rewrite Hc.
    + destruct (TF k) as [[t0 v]|] eqn:Htf; [|reflexivity].
      destruct (qmatch dk k && (t0 <? ts)) eqn:Hc; [|reflexivity]. exfalso.
      destruct (N3 _ _ Htf) as (g & Hg). destruct (N2 _ _ Hg) as (_ & r & Hr & _ & _ & Htf').
      rewrite Htf in Htf'. inversion Htf'; subst. apply andb_true_iff in Hc as [Hq Hc].
      assert (Hin : In (k, g) rl) by (apply Hrem; rewrite (Hcond _ _ _ Hg Hr); auto).
      assert (mem k (map fst rl) = true); [|congruence].
      apply existsb_exists. exists k. split; [|apply path_eqb_refl].
      apply in_map_iff. exists (k, g). auto.
Qed.


(** ** one notification of the subscribed target *)

Definition skey (pre p : gpath) : path := g_origin pre :: strs_of pre ++ strs_of p.

Definition tf_updates (TF : tfun) (pre : gpath) (ts : Z) (us : list (gpath * tv)) : tfun :=
  fold_left (fun f u => tfupd f (skey pre (fst u)) ts (snd u)) us TF.

Definition tf_deletes (TF : tfun) (pre : gpath) (ts : Z) (ds : list gpath) : tfun :=
  fold_left (fun f d => tfdel f (skey pre d) ts) ds TF.

Definition winv (w : wstate) (TF : tfun) : Prop :=
  w_fault w = None /\ ninv (w_tree w) (w_heap w) (w_gen w) (w_sub w) TF.

(** each update finds no stored path that is a proper prefix or extension of its own *)
Fixpoint pf_upds (TF : tfun) (pre : gpath) (ts : Z) (us : list (gpath * tv)) : Prop :=
  match us with
  | [] => True
  | u :: us' =>
      (forall k', TF k' <> None -> conflict k' (skey pre (fst u)) = false)
      /\ pf_upds (tfupd TF (skey pre (fst u)) ts (snd u)) pre ts us'
  end.

(** every update in order (accepted or rejected as stale), then every delete *)
Lemma noti_step w TF pre ts us ds :
  winv w TF ->
  g_target pre = name -> g_origin pre <> "" -> g_origin pre <> meta_root ->
  (forall u, In u us -> rec_ok {| lr_ts := ts; lr_prefix := pre; lr_path := fst u; lr_val := snd u |}) ->
  pf_upds TF pre ts us ->
  let n := {| n_ts := ts; n_prefix := Some pre; n_updates := us; n_deletes := ds |} in
  winv (target_gnmi_update w n pre) (tf_deletes (tf_updates TF pre ts us) pre ts ds).
Proof.
  intros Hw Ht Ho Hm Hus Hpfu. cbn zeta. unfold target_gnmi_update. cbn [n_ts n_updates n_deletes].
  assert (Hu : forall us0 w TF, winv w TF ->
    (forall u, In u us0 -> rec_ok {| lr_ts := ts; lr_prefix := pre; lr_path := fst u; lr_val := snd u |}) ->
    pf_upds TF pre ts us0 ->
    winv (fold_left (fun w u => cache_update_one w {| lr_ts := ts; lr_prefix := pre; lr_path := fst u; lr_val := snd u |}) us0 w)
         (tf_updates TF pre ts us0)).
  { clear Hw Hus Hpfu w TF. induction us0 as [|u us0 IH]; intros w TF Hw Hus Hpfu;
      cbn [fold_left tf_updates]; [auto|].
    destruct Hpfu as [Hnc Hpfu]. apply IH.
    - destruct w as [T H gen sub flt]. destruct Hw as [Hf Hn]. cbn in Hf, Hn. subst flt.
      apply (update_step T H gen sub TF _ Hn (Hus u (or_introl eq_refl))). exact Hnc.
    - intros; apply Hus; now right.
    - exact Hpfu. }
  assert (Hd : forall ds0 w TF, winv w TF ->
    winv (fold_left (cache_delete_one ts pre) ds0 w) (tf_deletes TF pre ts ds0)).
  { clear Hu Hus Hpfu Hw w TF. induction ds0 as [|d ds0 IH]; intros w TF Hw; cbn [fold_left tf_deletes]; [auto|].
    apply IH. destruct w as [T H gen sub flt]. destruct Hw as [Hf Hn]. cbn in Hf, Hn. subst flt.
    apply (delete_step T H gen sub TF pre d ts Hn Ht Ho Hm). }
  apply Hd. now apply Hu.
Qed.

(** ** the sender forwards one queue entry *)

Lemma client_add_lookup (t : tree scalar) k s0 :
  wf_tree t -> (forall s, dom_of t s = true -> conflict s (name :: k) = false) ->
  exists t', add t (name :: k) s0 = Some t' /\ wf_tree t' /\
             forall p, lookup t' p = if path_eqb p (name :: k) then Some s0 else lookup t p.
Proof.
  intros Hwf Hc.
  assert (Hcf : conflict_free t (name :: k)).
  { intros p w Hp. assert (Hd : dom_of t p = true) by (unfold dom_of; now rewrite Hp).
    specialize (Hc _ Hd). unfold conflict in Hc. now apply orb_false_iff in Hc. }
  destruct (add t (name :: k) s0) as [t'|] eqn:Ha.
  - exists t'. destruct (add_spec t t' _ _ Hwf Ha). auto.
  - exfalso. apply (add_ok_iff t (name :: k) s0 Hwf) in Hcf. congruence.
Qed.

Lemma client_delete_lookup (t : tree scalar) k :
  wf_tree t -> Keys k -> (forall s, dom_of t s = true -> strict_prefix (name :: k) s = false) ->
  wf_tree (fst (delete t (name :: k))) /\
  forall p, lookup (fst (delete t (name :: k))) p = if path_eqb p (name :: k) then None else lookup t p.
Proof.
  intros Hwf Hk Hc. unfold delete. destruct (delete_spec t (name :: k) (fun _ => true) Hwf) as (Hwf' & Hl & _).
  split; [assumption|]. intros p. rewrite Hl. unfold sel.
  destruct (lookup t p) as [v|] eqn:Hp; [|now destruct (path_eqb p (name :: k))].
  rewrite andb_true_r.
  rewrite qmatch_glob_free by (cbn; rewrite name_ng; cbn; now apply Keys_gf).
  destruct (path_eqb_spec p (name :: k)) as [->|Hne]; [now rewrite is_prefix_refl|].
  destruct (is_prefix (name :: k) p) eqn:Hpre; [|reflexivity].
  apply is_prefix_strict_or_eq in Hpre as [E|Hs]; [congruence|].
  rewrite Hc in Hs; [discriminate|]. unfold dom_of. now rewrite Hp.
Qed.

Lemma send_step T H TF sb i q' :
  sub_inv T H TF sb -> sb_queue sb = i :: q' ->
  sub_inv T H TF {| sb_target := sb_target sb; sb_query := sb_query sb; sb_more := sb_more sb; sb_queue := q';
                    sb_client := deliver H (sb_client sb) i |}.
Proof.
  intros [S1 S2 S3 S4 S5 S6 S7 S8] Hq. rewrite Hq in *.
  assert (Hit : item_ok H i) by (apply S5; now left).
  cbn [map safeD] in S8. destruct S8 as [Hcond Hsafe].
  assert (Hlive : forall k g, lookup T k = Some g -> under k = true ->
            match last_conc H (name :: k) q' with None => True | Some j => j = QLeaf g end).
  { intros k g Hl Hu. specialize (S7 _ _ Hl Hu). cbn [last_conc] in S7.
    now destruct (last_conc H (name :: k) q'). }
  (* the effect of delivering [i] on the client's tree *)
  assert (Heff : exists c', deliver H (sb_client sb) i = c' /\ cl_err c' = false /\ wf_tree (cl_tree c') /\
     (forall p s, lookup (cl_tree c') p = Some s -> exists k, p = name :: k /\ Keys k) /\
     (forall s, dom_of (cl_tree c') s = stepD (dom_of (cl_tree (sb_client sb))) (ev H i) s) /\
     forall k, Keys k -> lookup (cl_tree c') (name :: k) =
        if concerns H (name :: k) i
        then match i with
             | QLeaf g => match hget H g with Some r => to_scalar (lr_val r) | None => None end
             | _ => None
             end
        else lookup (cl_tree (sb_client sb)) (name :: k)).
  { destruct i as [g|d|]; cbn [deliver item_ok concerns ev] in *.
    - destruct Hit as (r & Hr & Hok & Hu). rewrite Hr in *. unfold client_recv. rewrite S2.
      unfold resp_of_leaf. cbn [rs_prefix rs_updates rs_deletes client_updates].
      destruct (to_scalar (lr_val r)) as [s0|] eqn:Hs; [|exfalso; now apply (Vals_dec _ (ro_val r Hok))].
      change (to_strings_gp (lr_prefix r) true ++ to_strings_gp (lr_path r) false) with (full_path r).
      rewrite (full_path_ok r Hok) in *. cbn [condD] in Hcond.
      destruct (client_add_lookup _ (idx r) s0 S3 Hcond) as (t' & Ha & Hwf' & Hl').
      rewrite Ha. cbn [client_updates client_deletes fold_left]. eexists. split; [reflexivity|].
      cbn [cl_err cl_tree]. split; [reflexivity|]. split; [assumption|]. split; [|split].
      + intros p s. rewrite Hl'. destruct (path_eqb_spec p (name :: idx r)) as [->|_]; [|apply S4].
        intros _. exists (idx r). split; [reflexivity|apply Hok].
      + intros s. cbn [stepD]. unfold dom_of. rewrite Hl'. now destruct (path_eqb s (name :: idx r)).
      + intros k Hk. rewrite Hl'. rewrite (path_eqb_sym_b (name :: k)). reflexivity.
    - assert (Hdf : to_strings_gp {| g_origin := d_origin d; g_target := d_target d; g_elem := []; g_element := [] |} true
                    ++ to_strings_gp (d_path d) false = del_full d).
      { unfold del_full, to_strings_gp. cbn [g_target g_origin g_elem g_element]. now rewrite app_nil_r, <- app_assoc. }
      unfold client_recv. rewrite S2.
      unfold resp_of_del. cbn [rs_prefix rs_updates rs_deletes client_updates client_deletes fold_left].
      rewrite Hdf. destruct Hit as [(k0 & Hd & Hk0 & Hu)|(root & Hd & Hroot)]; rewrite Hd in *.
      + (* the delete of one leaf *)
        assert (Hgf : forallb (fun e => negb (is_glob e)) (name :: k0) = true).
        { cbn [forallb]. rewrite name_ng. cbn [negb andb]. exact (Keys_gf k0 Hk0). }
        cbn [condD] in Hcond. specialize (Hcond Hgf).
        destruct (client_delete_lookup _ k0 S3 Hk0 Hcond) as [Hwf' Hl'].
        eexists. split; [reflexivity|]. cbn [cl_err cl_tree]. split; [reflexivity|]. split; [assumption|].
        split; [|split].
        * intros p s. rewrite Hl'. destruct (path_eqb p (name :: k0)); [discriminate|apply S4].
        * intros s. cbn [stepD]. unfold dom_of. rewrite Hl', (dmatch_exact k0 s Hk0), (path_eqb_sym_b (name :: k0)).
          now destruct (path_eqb s (name :: k0)).
        * intros k Hk. rewrite Hl', (dmatch_exact k0 _ Hk0). rewrite (path_eqb_sym_b (name :: k)). reflexivity.
      + (* the <root>/* delete of a reset: everything under the root goes *)
        unfold delete. destruct (delete_spec (cl_tree (sb_client sb)) [name; root; "*"] (fun _ => true) S3)
          as (Hwf' & Hl' & _).
        assert (Hlk : forall p, lookup (fst (delete_cond (cl_tree (sb_client sb)) [name; root; "*"] (fun _ => true))) p
                       = if qmatch [name; root; "*"] p then None else lookup (cl_tree (sb_client sb)) p).
        { intros p. rewrite Hl'. unfold sel. destruct (lookup (cl_tree (sb_client sb)) p); [|now destruct (qmatch _ p)].
          now rewrite andb_true_r. }
        eexists. split; [reflexivity|]. cbn [cl_err cl_tree]. split; [reflexivity|]. split; [assumption|].
        split; [|split].
        * intros p s. rewrite Hlk. destruct (qmatch [name; root; "*"] p); [discriminate|apply S4].
        * intros s. cbn [stepD]. unfold dom_of. rewrite Hlk, dmatch_root. now destruct (qmatch [name; root; "*"] s).
        * intros k Hk. now rewrite Hlk, dmatch_root.
    - unfold client_sync. rewrite S2. eexists. split; [reflexivity|]. cbn [cl_err cl_tree stepD]. auto. }
  destruct Heff as (c' & -> & E1 & E2 & E3 & E5 & E4).
  constructor; cbn [sb_queries sb_query sb_more sb_queue sb_client]; auto.
  - intros j Hj. apply S5. now right.
  - intros k Hk. specialize (S6 k Hk). unfold final in *. cbn [last_conc] in S6.
    destruct (last_conc H (name :: k) q') as [j|]; [assumption|].
    rewrite (E4 k Hk). destruct (concerns H (name :: k) i); [|assumption].
    destruct i; assumption.
  - eapply safeD_ext; [|exact Hsafe]. intros s. symmetry. apply E5.
Qed.

Lemma drain_steps T H TF : forall q sb,
  sub_inv T H TF sb -> sb_queue sb = q ->
  sub_inv T H TF {| sb_target := sb_target sb; sb_query := sb_query sb; sb_more := sb_more sb; sb_queue := [];
                    sb_client := drain_queue H (sb_client sb) q |}.
Proof.
  induction q as [|i q IH]; intros sb Hs Hq; cbn [drain_queue].
  - destruct sb; cbn in *; subst; assumption.
  - pose proof (send_step T H TF sb i q Hs Hq) as H1.
    specialize (IH _ H1 eq_refl). exact IH.
Qed.

(** ** the client's Subscribe arrives *)

Lemma sub_query_complete (q : cquery) fp :
  complete_path (cq_prefix q) (cq_path q) = Some fp -> g_target (cq_prefix q) <> "" ->
  sub_query q = g_target (cq_prefix q) :: fp.
Proof.
  unfold complete_path, sub_query. intros Hc Ht. unfold to_strings_gp at 1.
  rewrite (str_nonempty_true _ Ht). cbn [app].
  destruct (str_nonempty (g_origin (cq_prefix q))) eqn:Eo.
  - destruct (str_nonempty (g_origin (cq_path q))) eqn:Ep; cbn [andb] in Hc; [discriminate|].
    inversion Hc; subst fp. unfold str_nonempty in Eo. apply negb_true_iff in Eo. rewrite Eo. cbn [andb app].
    reflexivity.
  - cbn [andb] in Hc. unfold str_nonempty in Eo. apply negb_false_iff in Eo. rewrite Eo. cbn [andb app].
    destruct (str_nonempty (g_origin (cq_path q))) eqn:Ep.
    + destruct (to_strings_gp (cq_prefix q) false) eqn:Ei; [|discriminate]. inversion Hc; subst fp.
      change (match g_elem (cq_prefix q) with
              | [] => g_element (cq_prefix q)
              | p0 :: l => flat_map (fun e : pelem => e_name e :: key_vals (e_keys e)) (p0 :: l)
              end) with (to_strings_gp (cq_prefix q) false). now rewrite Ei.
    + inversion Hc; subst fp. reflexivity.
Qed.

Lemma entry_query_complete pre p fp :
  complete_path pre p = Some fp -> g_target pre <> "" -> entry_query pre p = g_target pre :: fp.
Proof.
  intros Hc Ht. unfold entry_query.
  apply (sub_query_complete {| cq_prefix := pre; cq_path := p; cq_more := [] |} fp Hc Ht).
Qed.

Lemma dedup_nat_In l g : In g (dedup_nat l) <-> In g l.
Proof.
  induction l as [|x l IH]; cbn; [tauto|]. rewrite filter_In, IH, negb_true_iff, Nat.eqb_neq.
  destruct (Nat.eq_dec g x) as [->|Hn]; [tauto|]. split; [intros [E|[Hi _]]; auto|intros [E|Hi]; [congruence|auto]].
Qed.

(** a subscriber whose queue is a snapshot: every selected live leaf, once *)
Lemma subscribe_step T H gen TF q0 more gs :
  ninv T H gen None TF -> q0 :: more = Qs ->
  (forall g, In g gs -> exists k, lookup T k = Some g /\ under k = true) ->
  (forall k g, lookup T k = Some g -> under k = true -> In g gs) ->
  sub_inv T H TF {| sb_target := name; sb_query := q0; sb_more := more;
                    sb_queue := map QLeaf gs ++ [QSync]; sb_client := client0 |}.
Proof.
  intros [N1 N2 N3 N4 Npf _] HQ Hsel Hall.
  assert (Hin : forall i, In i (map QLeaf gs ++ [QSync]) ->
            i = QSync \/ exists k g, i = QLeaf g /\ lookup T k = Some g /\ under k = true).
  { intros i Hi. apply in_app_iff in Hi as [Hi|[<-|[]]]; [|now left]. right.
    apply in_map_iff in Hi as (g & <- & Hg). destruct (Hsel g Hg) as (k & Hl & Hu). eauto. }
  assert (Hconc : forall k i, In i (map QLeaf gs ++ [QSync]) ->
            concerns H (name :: k) i = true -> exists g, i = QLeaf g /\ lookup T k = Some g).
  { intros k i Hi Hc. destruct (Hin i Hi) as [->|(k' & g & -> & Hl & Hu)]; [discriminate|].
    destruct (N2 _ _ Hl) as (_ & r & Hr & Hok & Hidx & _). cbn [concerns] in Hc. rewrite Hr in Hc.
    apply path_eqb_eq in Hc. rewrite (full_path_ok r Hok) in Hc. inversion Hc. exists g. split; congruence. }
  constructor; cbn [sb_queries sb_query sb_more sb_queue sb_client client0 cl_err cl_tree]; auto.
  - exact I.
  - intros p s. cbn. discriminate.
  - intros i Hi. destruct (Hin i Hi) as [->|(k & g & -> & Hl & Hu)]; [exact I|].
    destruct (N2 _ _ Hl) as (_ & r & Hr & Hok & Hidx & _). exists r. rewrite Hidx. auto.
  - intros k Hk. unfold final.
    destruct (last_conc H (name :: k) (map QLeaf gs ++ [QSync])) as [i|] eqn:El.
    + apply last_conc_In in El as [Hi Hc]. destruct (Hconc k i Hi Hc) as (g & -> & Hl).
      destruct (Hin _ Hi) as [E|(k' & g' & E & Hl' & Hu)]; [discriminate|]. inversion E; subst g'.
      destruct (N2 _ _ Hl) as (_ & r & Hr & Hok & Hidx & Htf). rewrite Hr, Htf. cbn [decode].
      destruct (N2 _ _ Hl') as (_ & r' & Hr' & _ & Hidx' & _). rewrite Hr in Hr'. inversion Hr'; subst r'.
      assert (Hkk : k' = k) by congruence. rewrite Hkk in Hu. now rewrite Hu.
    + cbn. destruct (under k) eqn:Hu; [|reflexivity].
      destruct (TF k) as [x|] eqn:Htf; [|reflexivity]. exfalso.
      destruct (N3 _ _ Htf) as (g & Hl). destruct (N2 _ _ Hl) as (_ & r & Hr & Hok & Hidx & _).
      assert (Hi : In (QLeaf g) (map QLeaf gs ++ [QSync])).
      { apply in_app_iff. left. apply in_map. now apply (Hall k g). }
      apply (proj1 (last_conc_None _ _ _) El) in Hi. cbn [concerns] in Hi.
      rewrite Hr, (full_path_ok r Hok), Hidx, path_eqb_refl in Hi. discriminate.
  - intros k g Hl _.
    destruct (last_conc H (name :: k) (map QLeaf gs ++ [QSync])) as [i|] eqn:El; [|exact I].
    apply last_conc_In in El as [Hi Hc]. destruct (Hconc k i Hi Hc) as (g' & -> & Hl'). congruence.
  - (* safe: the snapshot leaves are pairwise conflict-free *)
    rewrite map_app. apply safeD_app. split; [|cbn; auto].
    assert (G : forall l dom,
       (forall g, In g l -> exists k, lookup T k = Some g) ->
       (forall s, dom s = true -> exists k', s = name :: k' /\ TF k' <> None) ->
       safeD dom (map (ev H) (map QLeaf l))).
    { induction l as [|g l IH]; intros dom Hl Hdom; cbn [map safeD ev]; [exact I|].
      destruct (Hl g (or_introl eq_refl)) as (k & Hk).
      destruct (N2 _ _ Hk) as (_ & r & Hr & Hok & Hidx & Htf).
      rewrite Hr, (full_path_ok r Hok), Hidx. cbn [condD stepD]. split.
      - intros s Hs. destruct (Hdom s Hs) as (k' & -> & Hk'). rewrite conflict_cons. unfold conflict.
        destruct (TF k') as [y|] eqn:Ey; [|congruence].
        now rewrite (Npf _ _ _ _ Ey Htf), (Npf _ _ _ _ Htf Ey).
      - apply IH; [intros; apply Hl; now right|]. intros s Hs. apply orb_true_iff in Hs as [Hs|Hs]; [|auto].
        apply path_eqb_eq in Hs. exists k. split; [assumption|congruence]. }
    apply G.
    + intros g Hg. destruct (Hsel g Hg) as (k & Hl & _). eauto.
    + intros s Hs. unfold dom_of in Hs. cbn in Hs. discriminate.
Qed.

(** what the snapshot walk over all entries collects *)
Lemma snapshot_entries_spec T pre : forall ps frs gs,
  wf_tree T -> map (complete_path pre) ps = map Some frs -> snapshot_entries T pre ps = Some gs ->
  (forall g, In g gs <-> exists k fr, In fr frs /\ lookup T k = Some g /\ qmatch fr k = true).
Proof.
  induction ps as [|p ps IH]; intros [|fr frs] gs Hwf Hm Hs; cbn in Hm, Hs; try discriminate.
  - inversion Hs; subst. intros g. split; [intros []|intros (k & fr & [] & _)].
  - inversion Hm as [[Hc Hm']]. rewrite Hc in Hs.
    destruct (snapshot_entries T pre ps) as [gs'|] eqn:Es; [|discriminate]. inversion Hs; subst gs.
    intros g. rewrite in_app_iff, (IH frs gs' Hwf Hm' eq_refl g). split.
    + intros [Hg|(k & fr0 & Hin & Hl & Hq)].
      * apply in_map_iff in Hg as ([k g'] & E & Hkg). cbn in E. subst g'.
        apply (query_exact T fr k g Hwf) in Hkg as [Hl Hq]. exists k, fr. cbn. auto.
      * exists k, fr0. cbn. auto.
    + intros (k & fr0 & [<-|Hin] & Hl & Hq).
      * left. apply in_map_iff. exists (k, g). split; [reflexivity|]. now apply (query_exact T fr k g Hwf).
      * right. eauto.
Qed.

(** ** whole runs *)

(** the prefix a notification carries after the collector's Update closure *)
Definition spre (n : notification) : gpath :=
  match n_prefix n with
  | None => {| g_origin := openconfig; g_target := name; g_elem := []; g_element := [] |}
  | Some p =>
      {| g_origin := if str_nonempty (g_origin p) then g_origin p else openconfig;
         g_target := name; g_elem := g_elem p; g_element := g_element p |}
  end.

Lemma stamp_spre n :
  stamp name n = {| n_ts := n_ts n; n_prefix := Some (spre n); n_updates := n_updates n; n_deletes := n_deletes n |}.
Proof. reflexivity. Qed.

Lemma spre_target n : g_target (spre n) = name.
Proof. unfold spre. now destruct (n_prefix n). Qed.

Lemma spre_origin n : g_origin (spre n) <> "".
Proof.
  unfold spre. destruct (n_prefix n) as [p|]; cbn; [|discriminate].
  unfold str_nonempty. destruct (String.eqb_spec (g_origin p) ""); cbn; [discriminate|assumption].
Qed.

Definition item_good (it : item) : Prop :=
  match it with
  | ISync => True
  | IReset => True           (* a stream failure: the manager resets the target, a new session follows *)
  | IUpd n =>
      g_origin (spre n) <> meta_root /\
      forall u, In u (n_updates n) ->
        rec_ok {| lr_ts := n_ts n; lr_prefix := spre n; lr_path := fst u; lr_val := snd u |}
  end.

Definition tf_item (TF : tfun) (it : item) : tfun :=
  match it with
  | ISync => TF
  | IReset => fun _ => None          (* Cache.Reset drops every leaf of the target *)
  | IUpd n => tf_deletes (tf_updates TF (spre n) (n_ts n) (n_updates n)) (spre n) (n_ts n) (n_deletes n)
  end.

Definition pf_item (TF : tfun) (it : item) : Prop :=
  match it with
  | ISync | IReset => True
  | IUpd n => pf_upds TF (spre n) (n_ts n) (n_updates n)
  end.

(** no update of the history meets a stored path that is a proper prefix or
    extension of its own (prefix-freeness at each instant) *)
Fixpoint pf_items (TF : tfun) (its : list item) : Prop :=
  match its with
  | [] => True
  | it :: rest => pf_item TF it /\ pf_items (tf_item TF it) rest
  end.

Definition tf0 : tfun := fun _ => None.
Definition tf_run (c : list item) : tfun := fold_left tf_item c tf0.

Definition pinv (st : pstate) (TF : tfun) : Prop :=
  ps_fault st = None /\
  exists T, assoc name (ps_cache st) = Some T /\ ninv T (ps_heap st) (ps_gen st) (ps_sub st) TF.

(** ** a stream failure: Cache.Reset of the subscribed target *)

Lemma root_del_full r : r <> "" -> del_full (root_delete name r) = [name; r; "*"].
Proof.
  intros Hr. unfold del_full, root_delete. cbn [d_target d_origin d_path].
  now rewrite (str_nonempty_true _ name_ne), (str_nonempty_true _ Hr).
Qed.

Lemma fold_root_deletes sb : forall roots q,
  (forall r, In r roots -> r <> "") ->
  fold_left (fun s r => feed_del s (root_delete name r)) roots
    (Some {| sb_target := sb_target sb; sb_query := sb_query sb; sb_more := sb_more sb; sb_queue := q;
             sb_client := sb_client sb |}) =
  Some {| sb_target := sb_target sb; sb_query := sb_query sb; sb_more := sb_more sb;
          sb_queue := q ++ map (fun r => QDel (root_delete name r))
                             (filter (fun r => sub_matches sb [name; r; "*"]) roots);
          sb_client := sb_client sb |}.
Proof.
  induction roots as [|r roots IH]; intros q Hne; cbn [fold_left filter map]; [now rewrite app_nil_r|].
  cbn [feed_del].
  change ((if str_nonempty (d_target (root_delete name r)) then [d_target (root_delete name r)] else []) ++
          (if str_nonempty (d_origin (root_delete name r)) then [d_origin (root_delete name r)] else []) ++
          to_strings_gp (d_path (root_delete name r)) false) with (del_full (root_delete name r)).
  rewrite (root_del_full r) by (apply Hne; now left).
  change (sub_matches {| sb_target := sb_target sb; sb_query := sb_query sb; sb_more := sb_more sb;
                         sb_queue := q; sb_client := sb_client sb |} [name; r; "*"])
    with (sub_matches sb [name; r; "*"]).
  destruct (sub_matches sb [name; r; "*"]); cbn [sb_target sb_query sb_more sb_queue sb_client map].
  - rewrite IH by (intros; apply Hne; now right). now rewrite <- app_assoc.
  - apply IH. intros; apply Hne; now right.
Qed.

Lemma fold_delete_roots : forall roots (t : tree nat),
  wf_tree t ->
  wf_tree (fold_left (fun t r => fst (delete t [r])) roots t) /\
  forall s, lookup (fold_left (fun t r => fst (delete t [r])) roots t) s =
            if existsb (fun r => qmatch [r] s) roots then None else lookup t s.
Proof.
  induction roots as [|r roots IH]; intros t Hwf; cbn [fold_left existsb]; [auto|].
  unfold delete at 1 3. destruct (delete_spec t [r] (fun _ => true) Hwf) as (Hwf' & Hl & _).
  destruct (IH _ Hwf') as [Hw2 Hl2]. split; [exact Hw2|]. intros s. rewrite Hl2, Hl. unfold sel.
  destruct (lookup t s); [rewrite andb_true_r|]; destruct (qmatch [r] s), (existsb (fun r0 => qmatch [r0] s) roots); reflexivity.
Qed.

Lemma under_root_match sb r0 rest :
  sb_queries sb = Qs -> under (r0 :: rest) = true -> is_glob r0 = false -> sub_matches sb [name; r0; "*"] = true.
Proof.
  intros Hs Hu Hr. rewrite sub_matches_all, Hs. unfold under in Hu. apply existsb_exists in Hu as (Qr & Hin & Hp).
  apply existsb_exists. exists (name :: Qr). split; [unfold Qs; now apply in_map|].
  cbn [mmatch]. rewrite String.eqb_refl, orb_true_r. cbn [andb].
  destruct Qr as [|a Qr']; [reflexivity|]. cbn [is_prefix] in Hp. apply andb_true_iff in Hp as [Ha _].
  cbn [mmatch]. rewrite Ha, orb_true_r. cbn [andb]. destruct Qr' as [|b Qr'']; [reflexivity|].
  cbn [mmatch]. replace (is_glob "*") with true by reflexivity. rewrite orb_true_r. cbn [orb andb]. now destruct Qr''.
Qed.

Lemma safeD_clears dom : forall l,
  (forall e, In e l -> exists p, e = Some (false, p) /\ forallb (fun x => negb (is_glob x)) p = false) ->
  safeD dom l.
Proof.
  intros l. revert dom. induction l as [|e l IH]; intros dom Hl; cbn [safeD]; [exact I|]. split.
  - destruct (Hl e (or_introl eq_refl)) as (p & -> & Hp). cbn [condD]. intros Hg. congruence.
  - apply IH. intros; apply Hl; now right.
Qed.

Lemma reset_own st TF : pinv st TF -> pinv (cache_reset st name) (fun _ => None).
Proof.
  intros [Hf (T & HT & Hn)]. unfold cache_reset. rewrite HT.
  destruct Hn as [N1 N2 N3 N4 Npf N5].
  set (roots := match children_at T [] with
                | Some ks => filter (fun k => negb (String.eqb k meta_root)) ks
                | None => [] end).
  (* every live key starts with one of the roots; every root is the origin of a live key *)
  assert (Hroots_live : forall r0 rest g, lookup T (r0 :: rest) = Some g -> In r0 roots).
  { intros r0 rest g Hl. unfold roots.
    assert (Hc : exists ks, children_at T [] = Some ks).
    { destruct T as [[v|cs]|]; cbn in Hl |- *; try discriminate; eauto. }
    destruct Hc as (ks & Hks). rewrite Hks. apply filter_In. split.
    - apply (proj2 (children_exact T [] ks N1 Hks)). exists rest, g. exact Hl.
    - destruct (N2 _ _ Hl) as (_ & r & _ & Hok & Hidx & _). unfold idx in Hidx. inversion Hidx as [[E1 E2]].
      apply negb_true_iff. apply String.eqb_neq. apply (ro_meta r Hok). }
  assert (Hroots_ok : forall r0, In r0 roots -> r0 <> "" /\ is_glob r0 = false).
  { intros r0 Hin. unfold roots in Hin. destruct (children_at T []) as [ks|] eqn:Hks; [|contradiction].
    apply filter_In in Hin as [Hin _]. apply (proj2 (children_exact T [] ks N1 Hks)) in Hin as (rest & g & Hl).
    cbn [app] in Hl. destruct (N2 _ _ Hl) as (_ & r & _ & Hok & Hidx & _). unfold idx in Hidx. inversion Hidx as [[E1 E2]].
    split; [apply (ro_origin r Hok)|].
    pose proof (Keys_gf _ (ro_key r Hok)) as Hg. unfold idx in Hg. cbn [glob_free forallb] in Hg.
    apply andb_true_iff in Hg as [Hg _]. now apply negb_true_iff in Hg. }
  destruct (fold_delete_roots roots T N1) as [Hwf' Hl'].
  assert (Hdead : forall k, lookup (fold_left (fun t r => fst (delete t [r])) roots T) k = None).
  { intros k. rewrite Hl'. destruct (lookup T k) as [g|] eqn:El; [|now destruct (existsb _ roots)].
    destruct (N2 _ _ El) as (_ & r & _ & _ & Hidx & _). unfold idx in Hidx. destruct k as [|r0 rest]; [discriminate|].
    assert (Hex : existsb (fun r1 => qmatch [r1] (r0 :: rest)) roots = true); [|now rewrite Hex].
    apply existsb_exists. exists r0. split; [eapply Hroots_live; eauto|].
    cbn [qmatch]. destruct (Hroots_ok r0 (Hroots_live _ _ _ El)) as [_ Hg]. now rewrite Hg, String.eqb_refl. }
  split; [assumption|]. eexists. cbn [ps_cache ps_heap ps_gen ps_sub]. split; [now rewrite assoc_aset, String.eqb_refl|].
  constructor; auto; try (intros; discriminate).
  - intros k g. now rewrite Hdead.
  - destruct (ps_sub st) as [sb|] eqn:Esb.
    2:{ assert (Hn : forall l, fold_left (fun s r => feed_del s (root_delete name r)) l None = None)
          by (induction l as [|r l IH]; cbn [fold_left feed_del]; auto).
        now rewrite Hn. }
    replace (Some sb) with (Some {| sb_target := sb_target sb; sb_query := sb_query sb; sb_more := sb_more sb;
                                    sb_queue := sb_queue sb; sb_client := sb_client sb |})
      by (destruct sb; reflexivity).
    rewrite (fold_root_deletes sb roots (sb_queue sb)) by (intros r Hr; apply (Hroots_ok r Hr)).
    pose proof N5 as [S1 S2 S3 S4 S5 S6 S7 S8].
    set (dels := map (fun r => QDel (root_delete name r)) (filter (fun r => sub_matches sb [name; r; "*"]) roots)).
    assert (Hdels : forall i, In i dels -> exists r, In r roots /\ sub_matches sb [name; r; "*"] = true /\
                      i = QDel (root_delete name r) /\ del_full (root_delete name r) = [name; r; "*"]).
    { intros i Hi. apply in_map_iff in Hi as (r & <- & Hr). apply filter_In in Hr as [Hr Hm].
      exists r. repeat split; auto. apply root_del_full, (Hroots_ok r Hr). }
    constructor; cbn [sb_queries sb_query sb_more sb_queue sb_client]; auto.
    + intros i Hi. apply in_app_iff in Hi as [Hi|Hi]; [auto|].
      destruct (Hdels i Hi) as (r & Hr & _ & -> & Hd). cbn [item_ok]. right. exists r. split; [exact Hd|apply (Hroots_ok r Hr)].
    + intros k Hk. unfold final. rewrite last_conc_app.
      destruct (last_conc (ps_heap st) (name :: k) dels) as [j|] eqn:El.
      * apply last_conc_In in El as [Hj _]. destruct (Hdels j Hj) as (r & _ & _ & -> & _). now destruct (under k).
      * specialize (S6 k Hk). unfold final in S6. rewrite S6. destruct (under k) eqn:Hu; [|reflexivity].
        destruct (TF k) as [x|] eqn:Etf; [|reflexivity]. exfalso.
        destruct (N3 _ _ Etf) as (g & Hg). destruct k as [|r0 rest].
        { destruct (N2 _ _ Hg) as (_ & r & _ & _ & Hidx & _). discriminate. }
        pose proof (Hroots_live _ _ _ Hg) as Hin. destruct (Hroots_ok r0 Hin) as [Hne Hgl].
        assert (Hi : In (QDel (root_delete name r0)) dels).
        { apply (in_map (fun r => QDel (root_delete name r))). apply filter_In. split; [assumption|].
          now apply (under_root_match sb r0 rest S1 Hu Hgl). }
        apply (proj1 (last_conc_None _ _ _) El) in Hi. cbn [concerns] in Hi.
        rewrite (root_del_full r0 Hne), dmatch_root, (qmatch_root r0 (r0 :: rest) Hgl), String.eqb_refl in Hi. discriminate.
    + intros k g. now rewrite Hdead.
    + rewrite map_app. apply safeD_app. split; [assumption|]. apply safeD_clears.
      intros e He. apply in_map_iff in He as (i & <- & Hi). destruct (Hdels i Hi) as (r & _ & _ & -> & Hd).
      cbn [ev]. rewrite Hd. eexists. split; [reflexivity|]. cbn [forallb]. now rewrite !andb_false_r.
Qed.

Lemma ingest_own st TF it :
  pinv st TF -> item_good it -> pf_item TF it ->
  pinv (ingest st name it) (tf_item TF it).
Proof.
  intros [Hf (T & HT & Hn)] Hg Hpfi. unfold ingest. rewrite Hf.
  destruct it as [|n|]; [split; eauto| |apply (reset_own st TF); split; eauto].
  rewrite stamp_spre. cbn [n_prefix]. rewrite HT. destruct Hg as [Hm Hus].
  pose proof (noti_step {| w_tree := T; w_heap := ps_heap st; w_gen := ps_gen st; w_sub := ps_sub st; w_fault := None |}
                TF (spre n) (n_ts n) (n_updates n) (n_deletes n)
                (conj eq_refl Hn) (spre_target n) (spre_origin n) Hm Hus Hpfi) as [Hwf Hwn].
  cbn zeta in Hwf, Hwn. split; [exact Hwf|].
  cbn [ps_cache ps_heap ps_gen ps_sub]. eexists. split; [|exact Hwn].
  rewrite assoc_aset. now rewrite String.eqb_refl.
Qed.

Lemma ingest_all : forall rem st TF,
  pinv st TF -> Forall item_good rem -> pf_items TF rem ->
  pinv (fold_left (fun st it => ingest st name it) rem st) (fold_left tf_item rem TF).
Proof.
  induction rem as [|it rem IH]; intros st TF Hp Hg Hpf; cbn [fold_left]; [assumption|].
  inversion Hg as [|? ? Hg1 Hg2]; subst. destruct Hpf as [Hpf1 Hpf2].
  eapply IH; eauto. now apply ingest_own.
Qed.

Variable cq : cquery.
Hypothesis cq_target : g_target (cq_prefix cq) = name.
(** every entry's path completes (path.CompletePath) to one of the registered queries, in order *)
Hypothesis cq_complete : map (complete_path (cq_prefix cq)) (cq_paths cq) = map Some Qrs.

Lemma cq_queries : sub_queries cq = Qs.
Proof.
  change (sub_queries cq) with (map (entry_query (cq_prefix cq)) (cq_paths cq)). unfold Qs.
  revert cq_complete. generalize (cq_paths cq) Qrs.
  induction l as [|p ps IH]; intros [|fr frs] Hm; cbn [map] in Hm |- *; try discriminate; [reflexivity|].
  inversion Hm as [[Hc Hm']]. rewrite (entry_query_complete _ _ _ Hc) by (rewrite cq_target; exact name_ne).
  now rewrite cq_target, (IH frs Hm').
Qed.

Lemma snapshot_entries_some T pre : forall ps frs,
  map (complete_path pre) ps = map Some frs -> exists gs, snapshot_entries T pre ps = Some gs.
Proof.
  induction ps as [|p ps IH]; intros [|fr frs] Hm; cbn in Hm |- *; try discriminate; [eauto|].
  inversion Hm as [[Hc Hm']]. rewrite Hc. destruct (IH frs Hm') as (gs & ->). eauto.
Qed.

Lemma under_qmatch k : under k = true <-> exists fr, In fr Qrs /\ qmatch fr k = true.
Proof.
  unfold under. rewrite existsb_exists. split; intros (fr & Hin & Hq); exists fr; split; auto.
  - now rewrite qmatch_glob_free by (now apply Q_gf).
  - now rewrite <- qmatch_glob_free by (now apply Q_gf).
Qed.

Lemma subscribe_pinv st TF :
  pinv st TF -> ps_sub st = None ->
  exists st', subscribe_stream st cq = (st', SubOk) /\ pinv st' TF /\ ps_sub st' <> None.
Proof.
  intros [Hf (T & HT & Hn)] Hs. unfold subscribe_stream. rewrite cq_target.
  destruct (String.eqb_spec name "") as [E|_]; [contradiction|]. rewrite HT.
  unfold snapshot. destruct (snapshot_entries_some T _ _ _ cq_complete) as (gs & Hgs). rewrite Hgs.
  eexists. split; [reflexivity|]. split; [|discriminate].
  split; [assumption|]. exists T. cbn [ps_cache ps_heap ps_gen ps_sub]. split; [assumption|].
  rewrite Hs in Hn. pose proof Hn as [N1 N2 N3 N4 Npf N5]. constructor; auto.
  pose proof (snapshot_entries_spec T _ _ _ _ N1 cq_complete Hgs) as Hspec.
  apply (subscribe_step T (ps_heap st) (ps_gen st) TF); auto.
  - exact cq_queries.
  - intros g Hg. apply dedup_nat_In, Hspec in Hg as (k & fr & Hin & Hl & Hq).
    exists k. split; [assumption|]. apply under_qmatch. eauto.
  - intros k g Hl Hu. apply dedup_nat_In, Hspec. apply under_qmatch in Hu as (fr & Hin & Hq). eauto.
Qed.

Lemma send_pinv st TF : pinv st TF -> pinv (send_one st) TF.
Proof.
  intros [Hf (T & HT & Hn)]. unfold send_one. destruct (ps_sub st) as [sb|] eqn:Hs; [|split; eauto; exists T; now rewrite Hs].
  destruct (sb_queue sb) as [|i q'] eqn:Hq; [split; eauto; exists T; now rewrite Hs|].
  split; [assumption|]. exists T. cbn [ps_cache ps_heap ps_gen ps_sub]. split; [assumption|].
  destruct Hn as [N1 N2 N3 N4 N5]. constructor; auto. now apply send_step.
Qed.

Lemma drain_pinv st TF sb :
  pinv st TF -> ps_sub st = Some sb ->
  exists sb', ps_sub (drain st) = Some sb' /\ sb_queue sb' = [] /\ ps_fault (drain st) = None /\
              exists T, sub_inv T (ps_heap st) TF sb' /\ ninv T (ps_heap st) (ps_gen st) (Some sb) TF.
Proof.
  intros [Hf (T & HT & Hn)] Hs. unfold drain. rewrite Hs. eexists. split; [reflexivity|].
  split; [reflexivity|]. split; [assumption|]. exists T. rewrite Hs in Hn. split; [|assumption].
  destruct Hn as [_ _ _ _ N5]. now apply drain_steps.
Qed.


(** from a quiescent collector to the client's leaves: the subscription (if it
    has not happened yet), the drained queue, the resulting view *)
Lemma finish_view st1 subres TF :
  pinv st1 TF ->
  (subres = None /\ ps_sub st1 = None) \/ (subres = Some SubOk /\ ps_sub st1 <> None) ->
  let rs2 := do_subscribe {| rn_st := st1; rn_streams := []; rn_subres := subres |} cq in
  exists l, final_view {| rn_st := drain (rn_st rs2); rn_streams := []; rn_subres := rn_subres rs2 |} = VLeaves l /\
    NoDup (map fst l) /\
    forall p sc, In (p, sc) l <->
      exists k, p = name :: k /\ under k = true /\ decode (TF k) = Some sc.
Proof.
  intros Hp H7. cbn zeta.
  (* the subscription, if it did not happen yet *)
  assert (Hsub : exists st2, rn_st (do_subscribe {| rn_st := st1; rn_streams := []; rn_subres := subres |} cq) = st2 /\
            rn_subres (do_subscribe {| rn_st := st1; rn_streams := []; rn_subres := subres |} cq) = Some SubOk /\
            pinv st2 (TF) /\ ps_sub st2 <> None).
  { unfold do_subscribe. cbn [rn_subres rn_st]. destruct H7 as [[Hr Hs]|[Hr Hs]]; rewrite Hr.
    - pose proof Hs as Hs1.
      destruct (subscribe_pinv _ _ Hp Hs1) as (st' & E & Hp' & Hne). rewrite E. cbn [rn_st rn_subres]. eauto.
    - exists st1. cbn [rn_st rn_subres]. split; [reflexivity|]. split; [reflexivity|]. split; [assumption|].
      exact Hs. }
  destruct Hsub as (st2 & E2 & Er & Hp2 & Hne). rewrite E2, Er.
  destruct (ps_sub st2) as [sb|] eqn:Hsb; [|congruence].
  destruct (drain_pinv st2 _ sb Hp2 Hsb) as (sb' & Hd1 & Hd2 & Hd3 & T & Hsi & Hni).
  unfold final_view. cbn [rn_st rn_subres]. rewrite Hd3, Hd1. destruct Hsi as [S1 S2 S3 S4 S5 S6 S7].
  rewrite S2. eexists. split; [reflexivity|].
  assert (Hlk : forall p sc, lookup (cl_tree (sb_client sb')) p = Some sc <->
              exists k, p = name :: k /\ under k = true /\ decode (TF k) = Some sc).
  { intros p sc. split.
    - intros Hl. destruct (S4 _ _ Hl) as (k & -> & Hk). exists k. split; [reflexivity|].
      specialize (S6 k Hk). unfold final in S6. rewrite Hd2 in S6. cbn [last_conc] in S6.
      rewrite Hl in S6. destruct (under k); [auto|discriminate].
    - intros (k & -> & Hu & Hdec). destruct (TF k) as [[t0 v]|] eqn:Htfk; [|discriminate].
      destruct Hni as [_ N2 N3 _ _]. destruct (N3 _ _ Htfk) as (g & Hg).
      destruct (N2 _ _ Hg) as (_ & r & _ & Hok & Hidx & _).
      assert (Hk : Keys k) by (rewrite <- Hidx; apply Hok).
      specialize (S6 k Hk). unfold final in S6. rewrite Hd2 in S6. cbn [last_conc] in S6.
      rewrite Hu, Htfk in S6. rewrite S6. exact Hdec. }
  assert (Hnm : forall p sc, lookup (cl_tree (sb_client sb')) p = Some sc -> is_meta_leaf p = false).
  { intros p sc Hl. apply Hlk in Hl as (k & -> & _ & Hdec).
    destruct (TF k) as [[t0 v]|] eqn:Htfk; [|discriminate].
    destruct Hni as [_ N2 N3 _ _]. destruct (N3 _ _ Htfk) as (g & Hg).
    destruct (N2 _ _ Hg) as (_ & r & _ & Hok & Hidx & _). rewrite <- Hidx. unfold idx. cbn.
    destruct (String.eqb_spec (g_origin (lr_prefix r)) meta_root) as [E|_]; [|reflexivity].
    now apply (ro_meta r Hok) in E. }
  unfold data_leaves. split.
  - pose proof (walk_once (cl_tree (sb_client sb')) S3) as Hnd.
    clear -Hnd. induction (walk (cl_tree (sb_client sb'))) as [|x l IH]; cbn; [constructor|].
    inversion Hnd as [|? ? Hni Hnd']; subst. destruct (negb (is_meta_leaf (fst x))); cbn; [|auto].
    constructor; [|auto]. intros Hin. apply Hni. apply in_map_iff in Hin as (y & E & Hy).
    apply filter_In in Hy as [Hy _]. apply in_map_iff. eauto.
  - intros p sc. rewrite filter_In, (walk_exact _ p sc S3). cbn [fst]. split.
    + intros [Hl _]. now apply Hlk.
    + intros Hx. apply Hlk in Hx. split; [assumption|]. now rewrite (Hnm _ _ Hx).
Qed.


Variable s : list item.                    (* the subscribed target's stream *)
Hypothesis s_good : Forall item_good s.
Hypothesis s_pf : pf_items tf0 s.

Inductive rinv (rs : run_state) : Prop :=
| Build_rinv (ri_c ri_rem : list item)
    (ri_split : s = ri_c ++ ri_rem)
    (ri_streams : rn_streams rs = [(name, ri_rem)])
    (ri_pinv : pinv (rn_st rs) (tf_run ri_c))
    (ri_good : Forall item_good ri_rem)
    (ri_pf : pf_items (tf_run ri_c) ri_rem)
    (ri_sub : (rn_subres rs = None /\ ps_sub (rn_st rs) = None)
              \/ (rn_subres rs = Some SubOk /\ ps_sub (rn_st rs) <> None)).

Lemma sub_none_iff o : sub_none o = true <-> o = None.
Proof. destruct o; cbn; split; congruence. Qed.

Lemma do_subscribe_rinv rs : rinv rs -> rinv (do_subscribe rs cq).
Proof.
  intros [c rem H1 H2 H3 H6 Hpf H7]. unfold do_subscribe.
  destruct H7 as [[Hr Hs]|[Hr Hs]]; rewrite Hr.
  - destruct (subscribe_pinv _ _ H3 Hs) as (st' & E & Hp & Hne). rewrite E.
    econstructor; cbn [rn_st rn_streams rn_subres]; eauto.
  - econstructor; eauto.
Qed.

Lemma do_action_rinv rs a : rinv rs -> rinv (do_action cq rs a).
Proof.
  intros Hrs. destruct a as [n'| |]; cbn [do_action].
  - destruct Hrs as [c rem H1 H2 H3 H6 Hpf H7]. rewrite H2. cbn [assoc fst snd].
    destruct (String.eqb_spec n' name) as [->|Hn]; [|econstructor; eauto].
    destruct rem as [|it rest]; [econstructor; eauto|].
    inversion H6 as [|? ? Hg1 Hg2]; subst. destruct Hpf as [Hpf1 Hpf2].
    pose proof (ingest_own _ _ it H3 Hg1 Hpf1) as Hp'.
    apply (Build_rinv _ (c ++ [it]) rest); cbn [rn_st rn_streams rn_subres].
    + now rewrite <- app_assoc.
    + cbn. now rewrite String.eqb_refl.
    + unfold tf_run. rewrite fold_left_app. exact Hp'.
    + assumption.
    + unfold tf_run. rewrite fold_left_app. exact Hpf2.
    + destruct H7 as [[Hr Hs]|[Hr Hs]]; [left|right]; (split; [assumption|]).
      * apply sub_none_iff. rewrite ingest_sub_none. now apply sub_none_iff.
      * intros E. apply sub_none_iff in E. rewrite ingest_sub_none in E. apply sub_none_iff in E. contradiction.
  - destruct Hrs as [c rem H1 H2 H3 H6 Hpf H7].
    econstructor; cbn [rn_st rn_streams rn_subres]; eauto using send_pinv.
    assert (Hsn : sub_none (ps_sub (send_one (rn_st rs))) = sub_none (ps_sub (rn_st rs))).
    { unfold send_one. destruct (ps_sub (rn_st rs)) as [sb|] eqn:Hs; [|now rewrite Hs].
      destruct (sb_queue sb); [now rewrite Hs|reflexivity]. }
    destruct H7 as [[Hr Hs]|[Hr Hs]]; [left|right]; (split; [assumption|]).
    + apply sub_none_iff. rewrite Hsn. now apply sub_none_iff.
    + intros E. apply sub_none_iff in E. rewrite Hsn in E. apply sub_none_iff in E. contradiction.
  - now apply do_subscribe_rinv.
Qed.

(** the client's leaves at quiescence, in terms of the cache-order replay *)
Lemma relay_tf cfg sched :
  validate cfg = true -> In name (keys (cf_targets cfg)) ->
  exists l, pipeline cfg [(name, s)] cq sched = VLeaves l /\
    NoDup (map fst l) /\
    forall p sc, In (p, sc) l <->
      exists k, p = name :: k /\ under k = true /\ decode (tf_run s k) = Some sc.
Proof.
  intros Hv Hin. unfold pipeline. pose proof (collector_start_spec cfg) as Hcs.
  destruct (collector_start cfg) as [[managed cached]|]; [|congruence].
  destruct Hcs as (_ & Hkm & Hc & _). subst cached.
  set (rs0 := {| rn_st := initial (keys (cf_targets cfg));
                 rn_streams := managed_streams (keys managed) [(name, s)]; rn_subres := None |}).
  assert (H0 : rinv rs0).
  { apply (Build_rinv _ [] s); unfold rs0; cbn [rn_st rn_streams rn_subres]; auto.
    - unfold managed_streams. cbn [filter fst]. rewrite Hkm.
      assert (E : existsb (String.eqb name) (keys (cf_targets cfg)) = true).
      { apply existsb_exists. exists name. split; [assumption|apply String.eqb_refl]. }
      now rewrite E.
    - split; [reflexivity|]. exists None. cbn [initial ps_cache ps_heap ps_gen ps_sub]. split.
      + clear -Hin. induction (keys (cf_targets cfg)) as [|a l IH]; [contradiction|]. cbn.
        destruct (String.eqb_spec name a); [reflexivity|]. destruct Hin; [congruence|auto].
      + constructor; cbn; auto; try discriminate. }
  assert (Hall : forall acts rs, rinv rs -> rinv (fold_left (do_action cq) acts rs)).
  { induction acts as [|a acts IH]; intros rs Hrs; cbn [fold_left]; [assumption|].
    apply IH. now apply do_action_rinv. }
  specialize (Hall sched rs0 H0). set (rs1 := fold_left (do_action cq) sched rs0) in *.
  destruct Hall as [c rem H1 H2 H3 H6 Hpf H7].
  (* quiescence *)
  unfold quiesce. rewrite H2. unfold ingest_rest. cbn [fold_left fst snd].
  pose proof (ingest_all rem _ _ H3 H6 Hpf) as Hp.
  assert (Htf : fold_left tf_item rem (tf_run c) = tf_run s) by (unfold tf_run; now rewrite H1, fold_left_app).
  rewrite Htf in Hp.
  set (st1 := fold_left (fun st it => ingest st name it) rem (rn_st rs1)) in *.
  assert (Hsn : sub_none (ps_sub st1) = sub_none (ps_sub (rn_st rs1))).
  { unfold st1. clear. generalize (rn_st rs1). induction rem as [|it rem0 IH]; intros st; cbn [fold_left]; [reflexivity|].
    now rewrite IH, ingest_sub_none. }
  apply (finish_view st1 (rn_subres rs1) (tf_run s) Hp).
  destruct H7 as [[Hr Hs]|[Hr Hs]]; [left|right]; (split; [assumption|]).
  - apply sub_none_iff. rewrite Hsn. now apply sub_none_iff.
  - intros E. apply (proj2 (sub_none_iff _)) in E. rewrite Hsn in E. apply sub_none_iff in E. contradiction.
Qed.

End Relay.

(** * The cache-order replay is the gNMI replay *)

Lemma tlook_In f k x : NoDup (keys f) -> (tlook f k = Some x <-> In (k, x) f).
Proof.
  induction f as [|[k' x'] f IH]; cbn; intros Hnd; [split; [discriminate|tauto]|].
  inversion Hnd as [|? ? Hni Hnd']; subst. destruct (path_eqb_spec k k') as [->|Hn].
  - split; [intros E; inversion E; now left|]. intros [E|Hin]; [now inversion E|].
    exfalso. apply Hni. change k' with (fst (k', x)). now apply in_map.
  - rewrite IH by assumption. split; [now right|]. intros [E|Hin]; [inversion E; congruence|assumption].
Qed.

Lemma tlook_notin f k : ~ In k (keys f) -> tlook f k = None.
Proof.
  induction f as [|[k' x'] f IH]; cbn; intros Hn; [reflexivity|].
  destruct (path_eqb_spec k k') as [->|_]; [tauto|]. apply IH. tauto.
Qed.

Lemma keys_filter_incl {A} (h : path * A -> bool) l x : In x (keys (filter h l)) -> In x (keys l).
Proof.
  intros Hin. apply in_map_iff in Hin as (y & <- & Hy). apply filter_In in Hy as [Hy _]. now apply in_map.
Qed.

Lemma NoDup_keys_filter {A} (h : path * A -> bool) l : NoDup (keys l) -> NoDup (keys (filter h l)).
Proof.
  induction l as [|x l IH]; cbn; intros Hnd; [constructor|]. inversion Hnd as [|? ? Hni Hnd']; subst.
  destruct (h x); cbn; [|auto]. constructor; [|auto]. intros Hin. apply Hni. eapply keys_filter_incl; eauto.
Qed.

(** filtering on a predicate of key and value *)
Lemma tlook_filter f (h : path * (Z * tv) -> bool) k :
  NoDup (keys f) ->
  tlook (filter h f) k = match tlook f k with Some x => if h (k, x) then Some x else None | None => None end.
Proof.
  induction f as [|[k' x'] f IH]; cbn; intros Hnd; [reflexivity|].
  inversion Hnd as [|? ? Hni Hnd']; subst.
  destruct (path_eqb_spec k k') as [->|Hn].
  - destruct (h (k', x')) eqn:Hh; cbn; [now rewrite path_eqb_refl|].
    apply tlook_notin. intros Hin. apply Hni. eapply keys_filter_incl; eauto.
  - destruct (h (k', x')); cbn; [destruct (path_eqb_spec k k'); [contradiction|]|]; now apply IH.
Qed.

Lemma NoDup_tset f k ts v : NoDup (keys f) -> NoDup (keys (tset f k ts v)).
Proof.
  intros Hnd. unfold tset. cbn. constructor; [|now apply NoDup_keys_filter].
  intros Hin. apply in_map_iff in Hin as ([k0 v0] & E & Hy). cbn in E. subst k0.
  apply filter_In in Hy as [_ Hy]. cbn in Hy. now rewrite path_eqb_refl in Hy.
Qed.

Lemma NoDup_tupd f k ts v : NoDup (keys f) -> NoDup (keys (tupd f k ts v)).
Proof.
  intros Hnd. unfold tupd. destruct (tlook f k) as [[t0 v0]|]; [destruct (ts <? t0); [assumption|]|];
    now apply NoDup_tset.
Qed.

Lemma tlook_tset f k' ts v k :
  NoDup (keys f) -> tlook (tset f k' ts v) k = if path_eqb k k' then Some (ts, v) else tlook f k.
Proof.
  intros Hnd. unfold tset. cbn. destruct (path_eqb_spec k k') as [->|Hn]; [reflexivity|].
  rewrite tlook_filter by assumption. destruct (tlook f k) as [x|]; [|reflexivity]. cbn.
  destruct (path_eqb_spec k k'); [contradiction|reflexivity].
Qed.

Lemma tlook_tupd f k' ts v k :
  NoDup (keys f) -> tlook (tupd f k' ts v) k = if path_eqb k k' then newer (tlook f k) ts v else tlook f k.
Proof.
  intros Hnd. unfold tupd, newer. destruct (path_eqb_spec k k') as [->|Hn].
  - destruct (tlook f k') as [[t0 v0]|] eqn:E.
    + destruct (ts <? t0); [assumption|]. now rewrite tlook_tset, path_eqb_refl.
    + now rewrite tlook_tset, path_eqb_refl.
  - destruct (tlook f k') as [[t0 v0]|]; [destruct (ts <? t0); [reflexivity|]|];
      rewrite tlook_tset by assumption; destruct (path_eqb_spec k k'); congruence.
Qed.

Lemma tlook_tdel f d ts k :
  NoDup (keys f) ->
  tlook (tdel f d ts) k =
  match tlook f k with Some (t0, v) => if qmatch d k && (t0 <? ts) then None else Some (t0, v) | None => None end.
Proof.
  intros Hnd. unfold tdel. rewrite tlook_filter by assumption.
  destruct (tlook f k) as [[t0 v]|]; [|reflexivity]. cbn. now destruct (qmatch d k && (t0 <? ts)).
Qed.

Lemma NoDup_replay_step f it : NoDup (keys f) -> NoDup (keys (replay_step f it)).
Proof.
  destruct it as [|n|]; cbn [replay_step]; [auto| |intros _; constructor]. intros Hnd.
  assert (H1 : forall ds f, NoDup (keys f) ->
     NoDup (keys (fold_left (fun f d => tdel f (tkey (n_prefix n) d) (n_ts n)) ds f))).
  { induction ds as [|d ds IH]; cbn; intros f0 H0; [assumption|]. apply IH. now apply NoDup_keys_filter. }
  assert (H2 : forall us f, NoDup (keys f) ->
     NoDup (keys (fold_left (fun f (u : gpath * tv) => tupd f (tkey (n_prefix n) (fst u)) (n_ts n) (snd u)) us f))).
  { induction us as [|u us IH]; cbn; intros f0 H0; [assumption|]. apply IH. now apply NoDup_tupd. }
  apply H2, H1, Hnd.
Qed.

Lemma NoDup_replay_from s : forall f, NoDup (keys f) -> NoDup (keys (fold_left replay_step s f)).
Proof. induction s as [|it s IH]; cbn; intros f Hf; [assumption|]. apply IH. now apply NoDup_replay_step. Qed.

Lemma NoDup_replay s : NoDup (keys (replay s)).
Proof. apply NoDup_replay_from. constructor. Qed.

Section Equiv.
Variable name : string.

Definition no_porigin (it : item) : Prop :=
  match it with
  | ISync => True
  | IReset => True
  | IUpd n =>
      item_prefix_origin it = "" ->
      (forall u, In u (n_updates n) -> g_origin (fst u) = "") /\
      (forall d, In d (n_deletes n) -> g_origin d = "")
  end.

Lemma skey_tkey n p :
  (item_prefix_origin (IUpd n) = "" -> g_origin p = "") ->
  skey (spre name n) p = tkey (n_prefix n) p.
Proof.
  unfold skey, tkey, spre, eff_origin, item_prefix_origin, strs_of. intros Hp.
  destruct (n_prefix n) as [g|]; cbn [to_strings g_origin].
  - destruct (str_nonempty (g_origin g)) eqn:E; [reflexivity|].
    unfold str_nonempty in E. apply negb_false_iff, String.eqb_eq in E. rewrite (Hp E). reflexivity.
  - rewrite (Hp eq_refl). reflexivity.
Qed.

(** closed forms of the folds, pointwise *)
Fixpoint upd_of (key : gpath -> path) (ts : Z) (us : list (gpath * tv)) (k : path) (o : option (Z * tv))
  : option (Z * tv) :=
  match us with
  | [] => o
  | u :: us' => upd_of key ts us' k (if path_eqb k (key (fst u)) then newer o ts (snd u) else o)
  end.

Definition del_of (anyd : bool) (ts : Z) (o : option (Z * tv)) : option (Z * tv) :=
  match o with
  | Some (t0, v) => if anyd && (t0 <? ts) then None else Some (t0, v)
  | None => None
  end.

Lemma tlook_fold_tupd (key : gpath -> path) ts : forall us f k, NoDup (keys f) ->
  tlook (fold_left (fun f (u : gpath * tv) => tupd f (key (fst u)) ts (snd u)) us f) k =
  upd_of key ts us k (tlook f k).
Proof.
  induction us as [|u us IH]; intros f k Hnd; cbn [fold_left upd_of]; [reflexivity|].
  rewrite IH by (now apply NoDup_tupd). now rewrite tlook_tupd.
Qed.

Lemma tlook_fold_tdel (key : gpath -> path) ts : forall ds f k, NoDup (keys f) ->
  tlook (fold_left (fun f d => tdel f (key d) ts) ds f) k =
  del_of (existsb (fun d => qmatch (key d) k) ds) ts (tlook f k).
Proof.
  induction ds as [|d ds IH]; intros f k Hnd; cbn [fold_left existsb].
  - unfold del_of. destruct (tlook f k) as [[t0 v]|]; reflexivity.
  - rewrite IH by (now apply NoDup_keys_filter). rewrite tlook_tdel by assumption. unfold del_of.
    destruct (tlook f k) as [[t0 v]|]; [|reflexivity].
    destruct (qmatch (key d) k); destruct (t0 <? ts) eqn:E; cbn [andb orb]; rewrite ?E;
      destruct (existsb (fun d0 => qmatch (key d0) k) ds); reflexivity.
Qed.

Lemma tf_updates_closed pre ts : forall us TF k,
  tf_updates TF pre ts us k = upd_of (skey pre) ts us k (TF k).
Proof.
  induction us as [|u us IH]; intros TF k; cbn [tf_updates fold_left upd_of]; [reflexivity|].
  unfold tf_updates in IH. rewrite IH. unfold tfupd. reflexivity.
Qed.

Lemma tf_deletes_closed pre ts : forall ds TF k,
  tf_deletes TF pre ts ds k = del_of (existsb (fun d => qmatch (skey pre d) k) ds) ts (TF k).
Proof.
  induction ds as [|d ds IH]; intros TF k; cbn [tf_deletes fold_left existsb].
  - unfold del_of. destruct (TF k) as [[t0 v]|]; reflexivity.
  - unfold tf_deletes in IH. rewrite IH. unfold tfdel, del_of. destruct (TF k) as [[t0 v]|]; [|reflexivity].
    destruct (qmatch (skey pre d) k); destruct (t0 <? ts) eqn:E; cbn [andb orb]; rewrite ?E;
      destruct (existsb (fun d0 => qmatch (skey pre d0) k) ds); reflexivity.
Qed.

(** deleting what is older and then applying an update, or the other way round *)
Lemma del_newer anyd ts o v : del_of anyd ts (newer o ts v) = newer (del_of anyd ts o) ts v.
Proof.
  unfold del_of, newer. destruct o as [[t0 v0]|].
  - destruct (ts <? t0) eqn:E1.
    + assert (E2 : (t0 <? ts) = false) by (apply Z.ltb_ge; apply Z.ltb_lt in E1; lia).
      rewrite E2, andb_false_r. now rewrite E1.
    + rewrite Z.ltb_irrefl, andb_false_r. destruct (anyd && (t0 <? ts)); [reflexivity|now rewrite E1].
  - now rewrite Z.ltb_irrefl, andb_false_r.
Qed.

Lemma del_upd_of (key : gpath -> path) anyd ts : forall us k o,
  del_of anyd ts (upd_of key ts us k o) = upd_of key ts us k (del_of anyd ts o).
Proof.
  induction us as [|u us IH]; intros k o; cbn [upd_of]; [reflexivity|]. rewrite IH.
  destruct (path_eqb k (key (fst u))); [now rewrite del_newer|reflexivity].
Qed.

Lemma upd_of_ext (key1 key2 : gpath -> path) ts : forall us k o,
  (forall u, In u us -> key1 (fst u) = key2 (fst u)) -> upd_of key1 ts us k o = upd_of key2 ts us k o.
Proof.
  induction us as [|u us IH]; intros k o He; cbn [upd_of]; [reflexivity|].
  rewrite (He u (or_introl eq_refl)). apply IH. intros; apply He; now right.
Qed.

Lemma item_equiv TF F n :
  NoDup (keys F) -> (forall k, TF k = tlook F k) -> no_porigin (IUpd n) ->
  forall k, tf_item name TF (IUpd n) k = tlook (replay_step F (IUpd n)) k.
Proof.
  intros Hnd HR Hno k. cbn [tf_item replay_step].
  rewrite tlook_fold_tupd.
  2:{ clear -Hnd. revert F Hnd. induction (n_deletes n) as [|d ds IH]; cbn; intros F Hnd; [assumption|].
      apply IH. now apply NoDup_keys_filter. }
  rewrite tlook_fold_tdel by assumption.
  rewrite tf_deletes_closed, tf_updates_closed, del_upd_of, HR.
  assert (Hkd : existsb (fun d => qmatch (skey (spre name n) d) k) (n_deletes n)
                = existsb (fun d => qmatch (tkey (n_prefix n) d) k) (n_deletes n)).
  { assert (Hd : forall d, In d (n_deletes n) -> skey (spre name n) d = tkey (n_prefix n) d).
    { intros d Hd. apply skey_tkey. intros E. now apply (proj2 (Hno E)). }
    induction (n_deletes n) as [|d ds IH]; cbn [existsb]; [reflexivity|].
    rewrite Hd by now left. rewrite IH; [reflexivity|]. intros; apply Hd; now right. }
  rewrite Hkd. apply upd_of_ext. intros u Hu. apply skey_tkey. intros E. now apply (proj1 (Hno E)).
Qed.

Lemma run_equiv : forall rem c F,
  NoDup (keys F) -> (forall k, tf_run name c k = tlook F k) -> Forall no_porigin rem ->
  forall k, tf_run name (c ++ rem) k = tlook (fold_left replay_step rem F) k.
Proof.
  induction rem as [|it rem IH]; intros c F Hnd HR Hno k; cbn [fold_left].
  - now rewrite app_nil_r.
  - change (c ++ it :: rem) with (c ++ [it] ++ rem). rewrite app_assoc.
    apply Forall_cons_iff in Hno as [Hn1 Hn2].
    apply (IH (c ++ [it]) (replay_step F it)); auto.
    + now apply NoDup_replay_step.
    + intros k0. unfold tf_run. rewrite fold_left_app. cbn [fold_left]. fold (tf_run name c).
      destruct it as [|n|]; [apply HR| |reflexivity]. now apply item_equiv.
Qed.

(** the executable check of PipelineCheck ([prefix_free_from]) implies the
    instant-level prefix-freeness the relay proof uses *)
Lemma pf_upds_of_check n : forall us TF f,
  (forall k, TF k <> None -> In k (keys f)) ->
  (forall u, In u us -> skey (spre name n) (fst u) = tkey (n_prefix n) (fst u)) ->
  pf_keys f (map (fun u => tkey (n_prefix n) (fst u)) us) = true ->
  pf_upds TF (spre name n) (n_ts n) us.
Proof.
  induction us as [|u us IH]; intros TF f Hdom Hk Hpf; cbn [pf_upds map pf_keys] in *; [exact I|].
  apply andb_true_iff in Hpf as [Hc Hpf]. apply negb_true_iff in Hc.
  rewrite (Hk u (or_introl eq_refl)). split.
  - intros k' Hk'. unfold conflicts in Hc. unfold conflict.
    destruct (strict_prefix k' (tkey (n_prefix n) (fst u)) || strict_prefix (tkey (n_prefix n) (fst u)) k') eqn:E; [|reflexivity].
    exfalso. assert (Hex : existsb (fun kv => strict_prefix (fst kv) (tkey (n_prefix n) (fst u))
                                     || strict_prefix (tkey (n_prefix n) (fst u)) (fst kv)) f = true); [|congruence].
    apply existsb_exists. specialize (Hdom _ Hk'). apply in_map_iff in Hdom as ([k0 v0] & E0 & Hin). cbn in E0. subst k0.
    exists (k', v0). split; [assumption|exact E].
  - apply (IH _ ((tkey (n_prefix n) (fst u), (0, TVBool true)) :: f)); [|intros; apply Hk; now right|exact Hpf].
    intros k0. unfold tfupd. destruct (path_eqb_spec k0 (tkey (n_prefix n) (fst u))) as [->|_]; [intros _; now left|].
    intros H0. right. now apply Hdom.
Qed.

Lemma pf_items_of_check : forall rem c F,
  NoDup (keys F) -> (forall k, tf_run name c k = tlook F k) -> Forall no_porigin rem ->
  prefix_free_from F rem = true ->
  pf_items name (tf_run name c) rem.
Proof.
  induction rem as [|it rem IH]; intros c F Hnd HR Hno Hpf; cbn [pf_items]; [exact I|].
  apply Forall_cons_iff in Hno as [Hn1 Hn2]. cbn [prefix_free_from] in Hpf.
  apply andb_true_iff in Hpf as [Hpf1 Hpf2].
  assert (Hdom : forall k, tf_run name c k <> None -> In k (keys F)).
  { intros k Hk. rewrite HR in Hk. destruct (tlook F k) as [x|] eqn:E; [|congruence].
    apply (tlook_In _ _ _ Hnd) in E. change k with (fst (k, x)). now apply in_map. }
  assert (Hstep : tf_item name (tf_run name c) it = tf_run name (c ++ [it]))
    by (unfold tf_run; now rewrite fold_left_app).
  rewrite Hstep. split.
  - destruct it as [|n|]; [exact I| |exact I]. cbn [pf_item]. apply (pf_upds_of_check n _ _ F Hdom); [|exact Hpf1].
    intros u Hu. apply skey_tkey. intros E. now apply (proj1 (Hn1 E)).
  - apply (IH (c ++ [it]) (replay_step F it)); auto.
    + now apply NoDup_replay_step.
    + intros k0. rewrite <- Hstep. destruct it as [|n|]; [apply HR| |reflexivity]. now apply item_equiv.
Qed.
End Equiv.

(** * The relay theorem for one streaming target, every schedule *)

Lemma NoDup_of_keys {A B} (l : list (A * B)) : NoDup (keys l) -> NoDup l.
Proof.
  induction l as [|x l IH]; cbn; intros H; [constructor|]. inversion H as [|? ? Hni Hnd]; subst.
  constructor; [|auto]. intros Hin. apply Hni. now apply in_map.
Qed.

Lemma in_stamp_paths name f p sc :
  In (p, sc) (stamp_paths name f) <->
  exists k t v, In (k, (t, v)) f /\ to_scalar v = Some sc /\ p = name :: k.
Proof.
  unfold stamp_paths. rewrite in_flat_map. split.
  - intros ([k [t v]] & Hin & Hx). cbn in Hx. destruct (to_scalar v) as [s0|] eqn:E; [|contradiction].
    destruct Hx as [Hx|[]]. inversion Hx; subst. eauto 6.
  - intros (k & t & v & Hin & Hs & ->). exists (k, (t, v)). split; [assumption|]. cbn. rewrite Hs. now left.
Qed.

Lemma NoDup_stamp_paths name f : NoDup (keys f) -> NoDup (keys (stamp_paths name f)).
Proof.
  induction f as [|[k [t v]] f IH]; cbn; intros H; [constructor|]. inversion H as [|? ? Hni Hnd]; subst.
  destruct (to_scalar v) as [s0|]; cbn; [|auto]. constructor; [|auto].
  intros Hin. apply in_map_iff in Hin as ([p sc] & E & Hp). cbn in E. subst p.
  apply in_stamp_paths in Hp as (k' & t' & v' & Hin' & _ & E). inversion E; subst k'.
  apply Hni. change k with (fst (k, (t', v'))). now apply in_map.
Qed.

Lemma under_sel name (Qrs : list path) k :
  existsb (fun q => is_prefix q (name :: k)) (map (cons name) Qrs) = under Qrs k.
Proof.
  unfold under. induction Qrs as [|Qr l0 IH]; cbn [map existsb is_prefix]; [reflexivity|].
  now rewrite String.eqb_refl, IH.
Qed.

(** from the cache-order characterisation to the gNMI replay *)
Lemma leaves_of_tf name Qrs s l :
  Forall no_porigin s -> NoDup (keys l) ->
  (forall p sc, In (p, sc) l <->
     exists k, p = name :: k /\ under Qrs k = true /\ decode (tf_run name s k) = Some sc) ->
  Permutation l (selects_any (map (cons name) Qrs) (stamp_paths name (replay s))).
Proof.
  intros Hno Hnd Hl. pose proof (NoDup_replay s) as HndF.
  assert (Heq : forall k, tf_run name s k = tlook (replay s) k).
  { intros k. apply (run_equiv name s [] []); auto. constructor. }
  pose proof (under_sel name Qrs) as Hsel.
  apply NoDup_Permutation.
  - now apply NoDup_of_keys.
  - apply NoDup_of_keys. unfold selects_any. apply NoDup_keys_filter. now apply NoDup_stamp_paths.
  - intros [p sc]. rewrite Hl. unfold selects_any. rewrite filter_In. cbn [fst]. rewrite in_stamp_paths. split.
    + intros (k & -> & Hu & Hd). split; [|now rewrite Hsel]. rewrite Heq in Hd.
      destruct (tlook (replay s) k) as [[t0 v]|] eqn:E; [|discriminate]. cbn in Hd.
      exists k, t0, v. split; [apply tlook_In; auto|auto].
    + intros [(k & t & v & Hkv & Hs & ->) Hu]. exists k. split; [reflexivity|]. split; [now rewrite <- Hsel|].
      apply (tlook_In _ _ _ HndF) in Hkv. now rewrite Heq, Hkv.
Qed.

(** * Several targets: what one target's messages do to the others *)

Definition owner (r : leafrec) : string := g_target (lr_prefix r).

Definition tree_own (n : string) (T : tree nat) (H : heap) (gen : nat) : Prop :=
  forall k g, lookup T k = Some g -> (g < gen)%nat /\ exists r, hget H g = Some r /\ owner r = n.

Definition heap_bound (H : heap) (gen : nat) : Prop := forall g r, hget H g = Some r -> (g < gen)%nat.

(** [H'] differs from [H] only at objects that were unallocated or owned by
    [n], and what it holds there is owned by [n] *)
Definition heap_delta (n : string) (H H' : heap) : Prop :=
  forall g, hget H' g = hget H g \/
            ((hget H g = None \/ exists r0, hget H g = Some r0 /\ owner r0 = n) /\
             exists r1, hget H' g = Some r1 /\ owner r1 = n).

Lemma heap_delta_refl n H : heap_delta n H H.
Proof. intros g. now left. Qed.

Lemma heap_delta_trans n H1 H2 H3 : heap_delta n H1 H2 -> heap_delta n H2 H3 -> heap_delta n H1 H3.
Proof.
  intros A B g. destruct (B g) as [E|[Hold Hnew]].
  - rewrite E. apply A.
  - right. split; [|assumption]. destruct (A g) as [E|[Hold' (r1 & Hr1 & Ho1)]].
    + now rewrite <- E.
    + assumption.
Qed.

Lemma heap_delta_hset n H g r :
  owner r = n -> (hget H g = None \/ exists r0, hget H g = Some r0 /\ owner r0 = n) ->
  heap_delta n H (hset H g r).
Proof.
  intros Ho Hold g'. rewrite hget_hset. destruct (Nat.eqb_spec g' g) as [->|_]; [|now left].
  right. split; [assumption|eauto].
Qed.

Lemma tree_own_delta n n' T H H' gen gen' :
  tree_own n T H gen -> heap_delta n' H H' -> n <> n' -> (gen <= gen')%nat -> tree_own n T H' gen'.
Proof.
  intros Ht Hd Hn Hg k g Hl. destruct (Ht _ _ Hl) as (Hlt & r & Hr & Ho). split; [lia|].
  destruct (Hd g) as [E|[[Hnone|(r0 & Hr0 & Ho0)] _]].
  - exists r. now rewrite E.
  - congruence.
  - rewrite Hr in Hr0. inversion Hr0; subst. congruence.
Qed.

(** the generic effect of one update on the working state of target [n] *)
Record wgen (n : string) (w : wstate) : Prop := {
  wg_fault : w_fault w = None;
  wg_wf : wf_tree (w_tree w);
  wg_own : tree_own n (w_tree w) (w_heap w) (w_gen w);
  wg_bound : heap_bound (w_heap w) (w_gen w)
}.

Definition sub_frame (n : string) (s s' : option subscriber) : Prop :=
  forall sb, s = Some sb ->
    (forall p, sub_matches sb (n :: p) = false) -> s' = s.

Lemma sub_frame_refl n s : sub_frame n s s.
Proof. intros sb _ _. reflexivity. Qed.

Lemma sub_frame_trans n s1 s2 s3 : sub_frame n s1 s2 -> sub_frame n s2 s3 -> sub_frame n s1 s3.
Proof.
  intros A B sb Hs Hm. specialize (A sb Hs Hm). subst s2. now apply (B sb Hs Hm).
Qed.

Lemma full_path_owner r :
  owner r <> "" -> exists p, full_path r = owner r :: p.
Proof.
  intros Hn. unfold full_path, owner in *. unfold to_strings_gp at 1.
  rewrite (str_nonempty_true _ Hn). cbn. eauto.
Qed.

Lemma upd_generic n w r :
  wgen n w -> owner r = n -> n <> "" -> g_origin (lr_prefix r) <> "" -> g_origin (lr_prefix r) <> meta_root ->
  wgen n (cache_update_one w r) /\
  heap_delta n (w_heap w) (w_heap (cache_update_one w r)) /\
  (w_gen w <= w_gen (cache_update_one w r))%nat /\
  sub_frame n (w_sub w) (w_sub (cache_update_one w r)).
Proof.
  intros [Wf Wwf Wo Wb] Ho Hn Hor Hm. unfold cache_update_one. rewrite Wf.
  assert (Hj : exists tl, join_prefix_and_path (lr_prefix r) (lr_path r) = Some (g_origin (lr_prefix r) :: tl)).
  { unfold join_prefix_and_path. unfold to_strings_gp at 1. unfold owner in Ho. rewrite Ho.
    rewrite (str_nonempty_true _ Hn), (str_nonempty_true _ Hor). cbn. eauto. }
  destruct Hj as (tl & ->). destruct (String.eqb_spec (g_origin (lr_prefix r)) meta_root) as [E|_]; [contradiction|].
  set (k := g_origin (lr_prefix r) :: tl).
  assert (Hsame : wgen n w /\ heap_delta n (w_heap w) (w_heap w) /\ (w_gen w <= w_gen w)%nat /\ sub_frame n (w_sub w) (w_sub w)).
  { split; [constructor; assumption|]. split; [apply heap_delta_refl|]. split; [lia|apply sub_frame_refl]. }
  assert (Hfeed : forall g, sub_frame n (w_sub w) (feed_leaf (w_sub w) g (full_path r))).
  { intros g sb Hs Hmm. rewrite Hs. cbn [feed_leaf]. destruct (full_path_owner r) as (p & Hp); [congruence|].
    rewrite Hp, Ho, Hmm. reflexivity. }
  destruct (get (w_tree w) k) as [[g|cs]|] eqn:Hget; [| exact Hsame |].
  - apply get_leaf_exact in Hget. destruct (Wo _ _ Hget) as (Hlt & old & Hold & Hoo). rewrite Hold.
    destruct (lr_ts r <? lr_ts old); [exact Hsame|].
    destruct ((lr_ts r =? lr_ts old) && leafrec_eqb old r); [exact Hsame|].
    assert (Hd : heap_delta n (w_heap w) (hset (w_heap w) g r)) by (apply heap_delta_hset; eauto).
    assert (Hw : forall s', wgen n {| w_tree := w_tree w; w_heap := hset (w_heap w) g r; w_gen := w_gen w;
                                       w_sub := s'; w_fault := None |}).
    { intros s'. constructor; cbn [w_fault w_tree w_heap w_gen]; auto.
      - intros k0 g0 Hl. destruct (Wo _ _ Hl) as (Hlt0 & r0 & Hr0 & Ho0). split; [assumption|].
        rewrite hget_hset. destruct (Nat.eqb_spec g0 g); eauto.
      - intros g0 r0. rewrite hget_hset. destruct (Nat.eqb_spec g0 g) as [->|_]; [auto|apply Wb]. }
    destruct (tv_equal (lr_val old) (lr_val r)); cbn [w_heap w_gen w_sub];
      (split; [apply Hw|]); (split; [assumption|]); (split; [lia|]); [apply sub_frame_refl|apply Hfeed].
  - destruct (add (w_tree w) k (w_gen w)) as [t'|] eqn:Hadd; [|exact Hsame].
    destruct (add_spec _ _ _ _ Wwf Hadd) as [Hwf' Hl']. cbn [w_heap w_gen w_sub].
    assert (Hfresh : hget (w_heap w) (w_gen w) = None).
    { destruct (hget (w_heap w) (w_gen w)) as [r0|] eqn:E; [|reflexivity]. apply Wb in E. lia. }
    split; [|split; [apply heap_delta_hset; auto|split; [lia|apply Hfeed]]].
    constructor; cbn [w_fault w_tree w_heap w_gen]; auto.
    + intros k0 g0. rewrite Hl'. rewrite hget_hset. destruct (path_eqb k0 k).
      * intros E; inversion E; subst g0. split; [lia|]. rewrite Nat.eqb_refl. eauto.
      * intros Hl. destruct (Wo _ _ Hl) as (Hlt0 & r0 & Hr0 & Ho0). split; [lia|].
        destruct (Nat.eqb_spec g0 (w_gen w)) as [->|_]; [lia|eauto].
    + intros g0 r0. rewrite hget_hset. destruct (Nat.eqb_spec g0 (w_gen w)) as [->|_]; [lia|].
      intros E. apply Wb in E. lia.
Qed.

Lemma del_generic n w (pre d : gpath) ts :
  wgen n w -> g_target pre = n -> n <> "" -> g_origin pre <> "" -> g_origin pre <> meta_root ->
  wgen n (cache_delete_one ts pre w d) /\
  w_heap (cache_delete_one ts pre w d) = w_heap w /\
  w_gen (cache_delete_one ts pre w d) = w_gen w /\
  sub_frame n (w_sub w) (w_sub (cache_delete_one ts pre w d)).
Proof.
  intros [Wf Wwf Wo Wb] Ht Hn Hor Hm. unfold cache_delete_one. rewrite Wf.
  assert (Hj : exists tl, join_prefix_and_path pre d = Some (g_origin pre :: tl)).
  { unfold join_prefix_and_path. unfold to_strings_gp at 1. rewrite Ht.
    rewrite (str_nonempty_true _ Hn), (str_nonempty_true _ Hor). cbn. eauto. }
  destruct Hj as (tl & ->). destruct (String.eqb_spec (g_origin pre) meta_root) as [E|_]; [contradiction|].
  set (k := g_origin pre :: tl).
  set (cond := fun g : nat => match hget (w_heap w) g with Some r => lr_ts r <? ts | None => false end).
  destruct (delete_spec (w_tree w) k cond Wwf) as (Hwf' & Hl' & Hrem & _).
  cbn [w_heap w_gen w_sub]. split; [|split; [reflexivity|split; [reflexivity|]]].
  - constructor; cbn [w_fault w_tree w_heap w_gen]; auto.
    intros k0 g0. rewrite Hl'. unfold sel. destruct (lookup (w_tree w) k0) as [g1|] eqn:E; [|discriminate].
    destruct (qmatch k k0 && cond g1); [discriminate|]. intros E'; inversion E' as [E2]. rewrite <- E2. exact (Wo _ _ E).
  - intros sb Hs Hmm. rewrite Hs.
    assert (G : forall l, (forall kg, In kg l -> lookup (w_tree w) (fst kg) = Some (snd kg)) ->
       fold_left (fun s pg => match hget (w_heap w) (snd pg) with
                              | Some old => feed_del s (to_delete old ts)
                              | None => s end) l (Some sb) = Some sb).
    { induction l as [|[k0 g0] l IH]; intros Hl; cbn [fold_left]; [reflexivity|].
      destruct (Wo _ _ (Hl (k0, g0) (or_introl eq_refl))) as (_ & old & Hold & Hoo). cbn [snd fst] in *. rewrite Hold.
      assert (E : feed_del (Some sb) (to_delete old ts) = Some sb).
      { cbn [feed_del]. unfold to_delete, to_delete_gen. cbn [d_target d_origin d_path].
        unfold owner in Hoo. rewrite Hoo, (str_nonempty_true _ Hn). cbn [app]. now rewrite Hmm. }
      rewrite E. apply IH. intros; apply Hl; now right. }
    apply G. intros [k0 g0] Hin. apply Hrem in Hin. cbn. apply Hin.
Qed.

Lemma noti_generic n w nt pre :
  wgen n w -> g_target pre = n -> n <> "" -> g_origin pre <> "" -> g_origin pre <> meta_root ->
  wgen n (target_gnmi_update w nt pre) /\
  heap_delta n (w_heap w) (w_heap (target_gnmi_update w nt pre)) /\
  (w_gen w <= w_gen (target_gnmi_update w nt pre))%nat /\
  sub_frame n (w_sub w) (w_sub (target_gnmi_update w nt pre)).
Proof.
  intros Hw Ht Hn Ho Hm. unfold target_gnmi_update.
  assert (Hu : forall us w0, wgen n w0 ->
     let w1 := fold_left (fun w u => cache_update_one w {| lr_ts := n_ts nt; lr_prefix := pre; lr_path := fst u; lr_val := snd u |}) us w0 in
     wgen n w1 /\ heap_delta n (w_heap w0) (w_heap w1) /\ (w_gen w0 <= w_gen w1)%nat /\ sub_frame n (w_sub w0) (w_sub w1)).
  { induction us as [|u us IH]; intros w0 H0; cbn [fold_left].
    - split; [assumption|]. split; [apply heap_delta_refl|]. split; [lia|apply sub_frame_refl].
    - destruct (upd_generic n w0 {| lr_ts := n_ts nt; lr_prefix := pre; lr_path := fst u; lr_val := snd u |} H0 Ht Hn Ho Hm)
        as (A1 & A2 & A3 & A4).
      destruct (IH _ A1) as (B1 & B2 & B3 & B4). cbn zeta in *.
      split; [assumption|]. split; [eapply heap_delta_trans; eauto|]. split; [lia|eapply sub_frame_trans; eauto]. }
  assert (Hd : forall ds w0, wgen n w0 ->
     let w1 := fold_left (cache_delete_one (n_ts nt) pre) ds w0 in
     wgen n w1 /\ w_heap w1 = w_heap w0 /\ w_gen w1 = w_gen w0 /\ sub_frame n (w_sub w0) (w_sub w1)).
  { induction ds as [|d ds IH]; intros w0 H0; cbn [fold_left].
    - split; [assumption|]. split; [reflexivity|]. split; [reflexivity|apply sub_frame_refl].
    - destruct (del_generic n w0 pre d (n_ts nt) H0 Ht Hn Ho Hm) as (A1 & A2 & A3 & A4).
      destruct (IH _ A1) as (B1 & B2 & B3 & B4). cbn zeta in *.
      split; [assumption|]. split; [congruence|]. split; [congruence|eapply sub_frame_trans; eauto]. }
  destruct (Hu (n_updates nt) w Hw) as (A1 & A2 & A3 & A4). cbn zeta in *.
  destruct (Hd (n_deletes nt) _ A1) as (B1 & B2 & B3 & B4). cbn zeta in *.
  split; [assumption|]. rewrite B2, B3. split; [assumption|]. split; [assumption|eapply sub_frame_trans; eauto].
Qed.

Record ginv (st : pstate) : Prop := {
  gi_fault : ps_fault st = None;
  gi_keys : NoDup (keys (ps_cache st));
  gi_names : forall n, In n (keys (ps_cache st)) -> n <> "" /\ is_glob n = false;
  gi_trees : forall n T, assoc n (ps_cache st) = Some T -> wf_tree T /\ tree_own n T (ps_heap st) (ps_gen st);
  gi_bound : heap_bound (ps_heap st) (ps_gen st)
}.

Definition item_nometa (n : string) (it : item) : Prop :=
  match it with IUpd nt => g_origin (spre n nt) <> meta_root | ISync | IReset => True end.

Lemma ingest_ginv st n it :
  ginv st -> item_nometa n it ->
  ginv (ingest st n it) /\
  heap_delta n (ps_heap st) (ps_heap (ingest st n it)) /\
  (ps_gen st <= ps_gen (ingest st n it))%nat /\
  sub_frame n (ps_sub st) (ps_sub (ingest st n it)) /\
  forall n3, n3 <> n -> assoc n3 (ps_cache (ingest st n it)) = assoc n3 (ps_cache st).
Proof.
  intros [G1 G2 G3 G4 G5] Hm. unfold ingest. rewrite G1.
  assert (Hsame : ginv st /\ heap_delta n (ps_heap st) (ps_heap st) /\ (ps_gen st <= ps_gen st)%nat /\
                  sub_frame n (ps_sub st) (ps_sub st) /\
                  forall n3, n3 <> n -> assoc n3 (ps_cache st) = assoc n3 (ps_cache st)).
  { split; [constructor; assumption|]. split; [apply heap_delta_refl|]. split; [lia|].
    split; [apply sub_frame_refl|reflexivity]. }
  destruct it as [|nt|]; [exact Hsame| |].
  2:{ (* Cache.Reset of target n *)
      unfold cache_reset. destruct (assoc n (ps_cache st)) as [t|] eqn:Ht; [|exact Hsame].
      destruct (G3 n (assoc_Some_key _ _ _ Ht)) as [Hne Hng]. destruct (G4 _ _ Ht) as [Hwf Hown].
      set (roots := match children_at t [] with
                    | Some ks => filter (fun k => negb (String.eqb k meta_root)) ks | None => [] end).
      destruct (fold_delete_roots roots t Hwf) as [Hwf' Hl'].
      cbn [ps_cache ps_heap ps_gen ps_sub ps_fault].
      split; [|split; [apply heap_delta_refl|split; [lia|split]]].
      - constructor; cbn [ps_fault ps_cache ps_heap ps_gen]; auto.
        + rewrite keys_aset_in by (eapply assoc_Some_key; eauto). assumption.
        + intros n0. rewrite keys_aset_in by (eapply assoc_Some_key; eauto). apply G3.
        + intros n0 T0. rewrite assoc_aset. destruct (String.eqb_spec n0 n) as [->|Hn0]; [|apply G4].
          intros E; inversion E; subst T0. split; [assumption|].
          intros k g. rewrite Hl'. destruct (existsb _ roots); [discriminate|apply Hown].
      - intros sb Hs Hmm. rewrite Hs. clear -Hmm Hne. induction roots as [|r l IH]; cbn [fold_left]; [reflexivity|].
        assert (E : feed_del (Some sb) (root_delete n r) = Some sb).
        { cbn [feed_del root_delete d_target d_origin d_path]. rewrite (str_nonempty_true _ Hne). cbn [app].
          now rewrite Hmm. }
        rewrite E. exact IH.
      - intros n3 Hn3. rewrite assoc_aset. destruct (String.eqb_spec n3 n); [contradiction|reflexivity]. }
  rewrite (stamp_spre n nt). cbn [n_prefix].
  destruct (assoc n (ps_cache st)) as [t|] eqn:Ht; [|exact Hsame].
  destruct (G3 n (assoc_Some_key _ _ _ Ht)) as [Hne Hng]. destruct (G4 _ _ Ht) as [Hwf Hown].
  set (w0 := {| w_tree := t; w_heap := ps_heap st; w_gen := ps_gen st; w_sub := ps_sub st; w_fault := None |}).
  assert (Hw0 : wgen n w0) by (constructor; unfold w0; cbn; auto).
  destruct (noti_generic n w0
     {| n_ts := n_ts nt; n_prefix := Some (spre n nt); n_updates := n_updates nt; n_deletes := n_deletes nt |}
     (spre n nt) Hw0 (spre_target n nt) Hne (spre_origin n nt) Hm) as ([W1 W2 W3 W4] & Hd & Hg & Hs).
  cbn [ps_cache ps_heap ps_gen ps_sub]. cbn [w_heap w_gen w_sub] in Hd, Hg, Hs.
  split; [|split; [assumption|split; [assumption|split; [assumption|]]]].
  - constructor; cbn [ps_fault ps_cache ps_heap ps_gen]; auto.
    + rewrite keys_aset_in by (eapply assoc_Some_key; eauto). assumption.
    + intros n0. rewrite keys_aset_in by (eapply assoc_Some_key; eauto). apply G3.
    + intros n0 T0. rewrite assoc_aset. destruct (String.eqb_spec n0 n) as [->|Hn0].
      * intros E; inversion E; subst. auto.
      * intros E. destruct (G4 _ _ E) as [Hwf0 Hown0]. split; [assumption|].
        eapply tree_own_delta; eauto.
  - intros n3 Hn3. rewrite assoc_aset. destruct (String.eqb_spec n3 n); [contradiction|reflexivity].
Qed.

Lemma no_match_other name n' p (l : list path) :
  is_glob name = false -> is_glob n' = false -> name <> n' ->
  existsb (fun Q => mmatch Q (n' :: p)) (map (cons name) l) = false.
Proof.
  intros H1 H2 Hn. induction l as [|Qr l IH]; cbn [map existsb]; [reflexivity|].
  now rewrite mmatch_other_head, IH.
Qed.

Section Multi.
Variable name : string.
Variable Keys : path -> Prop.
Variable Vals : tv -> Prop.
Variable Qrs : list path.
Hypothesis Keys_gf : forall a, Keys a -> glob_free a = true.
Hypothesis Vals_dec : forall v, Vals v -> to_scalar v <> None.
Hypothesis Vals_canon : forall a b, Vals a -> Vals b -> tv_equal a b = true -> to_scalar a = to_scalar b.
Hypothesis Vals_peq : forall a b, Vals a -> Vals b -> tv_eqb a b = true -> a = b.
Hypothesis Q_gf : forall Qr, In Qr Qrs -> glob_free Qr = true.
Hypothesis Q_above : forall Qr k, In Qr Qrs -> Keys k -> strict_prefix k Qr = false.
Hypothesis name_ne : name <> "".
Hypothesis name_ng : is_glob name = false.
Variable cq : cquery.
Hypothesis cq_target : g_target (cq_prefix cq) = name.
Hypothesis cq_complete : map (complete_path (cq_prefix cq)) (cq_paths cq) = map Some Qrs.

Local Notation ninv' := (ninv name Keys Vals Qrs).
Local Notation pinv' := (pinv name Keys Vals Qrs).
Local Notation sub_inv' := (sub_inv name Keys Vals Qrs).

(** messages of another target leave the subscribed target's part of the state alone *)
Lemma ninv_frame n' T H H' gen gen' sub TF :
  ninv' T H gen sub TF -> heap_delta n' H H' -> n' <> name -> (gen <= gen')%nat -> heap_bound H' gen' ->
  ninv' T H' gen' sub TF.
Proof.
  intros [N1 N2 N3 N4 Npf N5] Hd Hn Hg Hb.
  assert (Hsame : forall g r, hget H g = Some r -> rec_ok name Keys Vals r -> hget H' g = Some r).
  { intros g r Hr Hok. destruct (Hd g) as [E|[[Hnone|(r0 & Hr0 & Ho0)] _]]; [congruence|congruence|].
    rewrite Hr in Hr0. inversion Hr0; subst r0. exfalso. apply Hn. rewrite <- Ho0. apply Hok. }
  constructor; auto.
  - intros k g Hl. destruct (N2 _ _ Hl) as (Hlt & r & Hr & Hok & Hrest). split; [lia|]. exists r. split; [|auto].
    now apply Hsame.
  - destruct sub as [sb|]; [|exact I]. destruct N5 as [S1 S2 S3 S4 S5 S6 S7 S8].
    assert (Hconc : forall p i, In i (sb_queue sb) -> concerns H' p i = concerns H p i).
    { intros p i Hi. specialize (S5 i Hi). destruct i as [g|d|]; cbn [concerns]; try reflexivity.
      destruct S5 as (r & Hr & Hok & _). now rewrite Hr, (Hsame _ _ Hr Hok). }
    assert (Hlast : forall p, last_conc H' p (sb_queue sb) = last_conc H p (sb_queue sb))
      by (intros; apply last_conc_ext; intros; now apply Hconc).
    constructor; auto.
    + intros i Hi. specialize (S5 i Hi). destruct i as [g|d|]; cbn [item_ok] in *; auto.
      destruct S5 as (r & Hr & Hok & Hu). exists r. split; [now apply Hsame|auto].
    + intros k Hk. specialize (S6 k Hk). unfold final in *. rewrite Hlast.
      destruct (last_conc H (name :: k) (sb_queue sb)) as [[g|d|]|] eqn:El; try assumption.
      apply last_conc_In in El as [Hi _]. destruct (S5 _ Hi) as (r & Hr & Hok & _).
      rewrite (Hsame _ _ Hr Hok). rewrite Hr in S6. exact S6.
    + intros k g Hl. rewrite Hlast. now apply S7.
    + rewrite (ev_ext H H' (sb_queue sb)); [assumption|].
      intros i Hi. specialize (S5 i Hi). destruct i as [g|d|]; cbn [ev item_ok] in *; try reflexivity.
      destruct S5 as (r & Hr & Hok & _). now rewrite Hr, (Hsame _ _ Hr Hok).
Qed.

Lemma ingest_not_target st n it : assoc n (ps_cache st) = None -> ingest st n it = st.
Proof.
  intros Hn. unfold ingest. destruct (ps_fault st); [reflexivity|].
  destruct it as [|nt|]; [reflexivity| |unfold cache_reset; now rewrite Hn].
  destruct (n_prefix (stamp n nt)); [|reflexivity]. now rewrite Hn.
Qed.

Lemma ingest_other_pinv st n' it TF :
  n' <> name -> ginv st -> pinv' st TF -> item_nometa n' it ->
  pinv' (ingest st n' it) TF.
Proof.
  intros Hn Hg Hp Hm.
  destruct (assoc n' (ps_cache st)) as [t|] eqn:Et; [|now rewrite (ingest_not_target st n' it Et)].
  destruct Hp as [Hf (T & HT & Hni)].
  destruct (ingest_ginv st n' it Hg Hm) as ([G1 G2 G3 G4 G5] & Hd & Hgen & Hs & Hc).
  split; [assumption|]. exists T. split; [rewrite Hc by congruence; assumption|].
  assert (Hsub : ps_sub (ingest st n' it) = ps_sub st).
  { destruct (ps_sub st) as [sb|] eqn:Esb.
    - apply (Hs sb eq_refl). intros p. destruct Hni as [_ _ _ _ _ N5].
      rewrite sub_matches_all, (si_query _ _ _ _ _ _ _ _ N5). unfold Qs.
      apply no_match_other; [exact name_ng| |congruence].
      apply (gi_names st Hg n' (assoc_Some_key _ _ _ Et)).
    - apply sub_none_iff. rewrite ingest_sub_none, Esb. reflexivity. }
  rewrite Hsub. eapply ninv_frame; eauto.
Qed.


Lemma ginv_same st st' :
  ps_cache st' = ps_cache st -> ps_heap st' = ps_heap st -> ps_gen st' = ps_gen st ->
  ps_fault st' = ps_fault st -> ginv st -> ginv st'.
Proof.
  intros E1 E2 E3 E4 [G1 G2 G3 G4 G5]. constructor; rewrite ?E1, ?E2, ?E3, ?E4; assumption.
Qed.

Lemma subscribe_ginv st q st' r : subscribe_stream st q = (st', r) -> ginv st -> ginv st'.
Proof.
  unfold subscribe_stream. destruct (String.eqb _ ""); [intros E; inversion E; subst; auto|].
  destruct (assoc _ _); [|intros E; inversion E; subst; auto].
  destruct (snapshot _ _); intros E; inversion E; subst; auto.
  apply ginv_same; reflexivity.
Qed.

Lemma send_ginv st : ginv st -> ginv (send_one st).
Proof.
  unfold send_one. destruct (ps_sub st) as [sb|]; [|auto]. destruct (sb_queue sb); [auto|].
  apply ginv_same; reflexivity.
Qed.

Variable s : list item.
Hypothesis s_good : Forall (item_good name Keys Vals) s.
Hypothesis s_pf : pf_items name tf0 s.

Definition streams_ok (ss : streams) : Prop :=
  forall n' l, In (n', l) ss -> Forall (item_nometa n') l.

Inductive minv (rs : run_state) : Prop :=
| Build_minv (c rem : list item)
    (m_split : s = c ++ rem)
    (m_stream : assoc name (rn_streams rs) = Some rem)
    (m_nodup : NoDup (keys (rn_streams rs)))
    (m_ok : streams_ok (rn_streams rs))
    (m_pinv : pinv' (rn_st rs) (tf_run name c))
    (m_ginv : ginv (rn_st rs))
    (m_good : Forall (item_good name Keys Vals) rem)
    (m_pf : pf_items name (tf_run name c) rem)
    (m_sub : (rn_subres rs = None /\ ps_sub (rn_st rs) = None)
             \/ (rn_subres rs = Some SubOk /\ ps_sub (rn_st rs) <> None)).

Lemma item_good_nometa it : item_good name Keys Vals it -> item_nometa name it.
Proof. destruct it as [|nt|]; cbn; [auto| |auto]. now intros [H _]. Qed.

Lemma sub_consistent_ingest st n it subres :
  (subres = None /\ ps_sub st = None) \/ (subres = Some SubOk /\ ps_sub st <> None) ->
  (subres = None /\ ps_sub (ingest st n it) = None) \/ (subres = Some SubOk /\ ps_sub (ingest st n it) <> None).
Proof.
  intros [[Hr Hs]|[Hr Hs]]; [left|right]; (split; [assumption|]).
  - apply sub_none_iff. rewrite ingest_sub_none. now apply sub_none_iff.
  - intros E. apply (proj2 (sub_none_iff _)) in E. rewrite ingest_sub_none in E. apply sub_none_iff in E. contradiction.
Qed.

Lemma streams_ok_aset ss n rest it :
  streams_ok ss -> assoc n ss = Some (it :: rest) -> streams_ok (aset n rest ss).
Proof.
  intros Hok Ha n' l Hin. apply In_aset_weak in Hin as [E|Hin]; [|now apply Hok].
  inversion E as [[E1 E2]]. apply assoc_In in Ha. specialize (Hok _ _ Ha). apply Forall_cons_iff in Hok as [_ Hok]. exact Hok.
Qed.

Lemma do_action_minv rs a : minv rs -> minv (do_action cq rs a).
Proof.
  intros [c rem H1 H2 Hnd Hok H3 Hg H6 Hpf H7]. destruct a as [n'| |]; cbn [do_action].
  - destruct (assoc n' (rn_streams rs)) as [[|it rest]|] eqn:Ea; try (econstructor; eauto; fail).
    assert (Hnm : item_nometa n' it).
    { apply assoc_In in Ea. specialize (Hok _ _ Ea). now apply Forall_cons_iff in Hok as [Hok _]. }
    destruct (ingest_ginv _ n' it Hg Hnm) as (Hg' & _).
    destruct (String.eqb_spec n' name) as [->|Hn].
    + rewrite H2 in Ea. inversion Ea; subst rem.
      apply Forall_cons_iff in H6 as [Hg1 Hg2]. destruct Hpf as [Hpf1 Hpf2].
      assert (Hp' : pinv' (ingest (rn_st rs) name it) (tf_item name (tf_run name c) it))
        by (eapply ingest_own; eauto).
      apply (Build_minv _ (c ++ [it]) rest); cbn [rn_st rn_streams rn_subres].
      * now rewrite <- app_assoc.
      * rewrite assoc_aset. now rewrite String.eqb_refl.
      * now apply NoDup_keys_aset.
      * eapply streams_ok_aset; eauto.
      * unfold tf_run. rewrite fold_left_app. exact Hp'.
      * assumption.
      * assumption.
      * unfold tf_run. rewrite fold_left_app. exact Hpf2.
      * now apply sub_consistent_ingest.
    + apply (Build_minv _ c rem); cbn [rn_st rn_streams rn_subres]; auto.
      * rewrite assoc_aset. destruct (String.eqb_spec name n'); [congruence|assumption].
      * now apply NoDup_keys_aset.
      * eapply streams_ok_aset; eauto.
      * now apply ingest_other_pinv.
      * now apply sub_consistent_ingest.
  - apply (Build_minv _ c rem); cbn [rn_st rn_streams rn_subres]; auto.
    + eapply send_pinv; eauto.
    + now apply send_ginv.
    + assert (Hsn : sub_none (ps_sub (send_one (rn_st rs))) = sub_none (ps_sub (rn_st rs))).
      { unfold send_one. destruct (ps_sub (rn_st rs)) as [sb|] eqn:Hs; [|now rewrite Hs].
        destruct (sb_queue sb); [now rewrite Hs|reflexivity]. }
      destruct H7 as [[Hr Hs]|[Hr Hs]]; [left|right]; (split; [assumption|]).
      * apply sub_none_iff. rewrite Hsn. now apply sub_none_iff.
      * intros E. apply (proj2 (sub_none_iff _)) in E. rewrite Hsn in E. apply sub_none_iff in E. contradiction.
  - unfold do_subscribe. destruct H7 as [[Hr Hs]|[Hr Hs]]; rewrite Hr.
    + edestruct (subscribe_pinv name Keys Vals Qrs) with (st := rn_st rs) (TF := tf_run name c)
        as (st' & E & Hp & Hne); eauto.
      rewrite E. apply (Build_minv _ c rem); cbn [rn_st rn_streams rn_subres]; auto.
      eapply subscribe_ginv; eauto.
    + apply (Build_minv _ c rem); auto.
Qed.

(** everything still in flight reaches the collector *)
Lemma ingest_rest_minv : forall l st TF rem,
  NoDup (keys l) -> streams_ok l ->
  pinv' st TF -> ginv st ->
  (match assoc name l with Some r => r = rem | None => rem = [] end) ->
  Forall (item_good name Keys Vals) rem -> pf_items name TF rem ->
  pinv' (ingest_rest st l) (fold_left (tf_item name) rem TF) /\
  sub_none (ps_sub (ingest_rest st l)) = sub_none (ps_sub st).
Proof.
  assert (Hothers : forall n' its st TF, n' <> name -> Forall (item_nometa n') its ->
            pinv' st TF -> ginv st ->
            pinv' (fold_left (fun st it => ingest st n' it) its st) TF /\
            ginv (fold_left (fun st it => ingest st n' it) its st) /\
            sub_none (ps_sub (fold_left (fun st it => ingest st n' it) its st)) = sub_none (ps_sub st)).
  { intros n' its. induction its as [|it its IH]; intros st TF Hn Hok Hp Hg; cbn [fold_left]; [auto|].
    apply Forall_cons_iff in Hok as [Ho1 Ho2].
    destruct (IH (ingest st n' it) TF Hn Ho2 (ingest_other_pinv _ _ _ _ Hn Hg Hp Ho1)
                 (proj1 (ingest_ginv _ _ _ Hg Ho1))) as (A & B & C).
    split; [assumption|]. split; [assumption|]. now rewrite C, ingest_sub_none. }
  assert (Hown : forall its st TF, Forall (item_good name Keys Vals) its -> pf_items name TF its ->
            pinv' st TF -> ginv st ->
            pinv' (fold_left (fun st it => ingest st name it) its st) (fold_left (tf_item name) its TF) /\
            ginv (fold_left (fun st it => ingest st name it) its st) /\
            sub_none (ps_sub (fold_left (fun st it => ingest st name it) its st)) = sub_none (ps_sub st)).
  { induction its as [|it its IH]; intros st TF Hgood Hpfi Hp Hg; cbn [fold_left]; [auto|].
    apply Forall_cons_iff in Hgood as [Hg1 Hg2]. destruct Hpfi as [Hpf1 Hpf2].
    assert (Hp' : pinv' (ingest st name it) (tf_item name TF it)) by (eapply ingest_own; eauto).
    destruct (IH _ _ Hg2 Hpf2 Hp' (proj1 (ingest_ginv _ _ _ Hg (item_good_nometa _ Hg1)))) as (A & B & C).
    split; [assumption|]. split; [assumption|]. now rewrite C, ingest_sub_none. }
  induction l as [|[n' its] l IH]; intros st TF rem Hnd Hok Hp Hg Hrem Hgood Hpfr;
    unfold ingest_rest in *; cbn [fold_left fst snd].
  - cbn in Hrem. subst rem. cbn. auto.
  - apply NoDup_cons_iff in Hnd as [Hni Hnd']. cbn [assoc fst snd] in Hrem.
    assert (Hok' : streams_ok l) by (intros n2 l2 Hin; apply Hok; now right).
    assert (Hits : Forall (item_nometa n') its) by (apply Hok; now left).
    destruct (String.eqb_spec name n') as [<-|Hn].
    + subst its. destruct (Hown rem st TF Hgood Hpfr Hp Hg) as (A & B & C).
      assert (Hnone : assoc name l = None) by (apply assoc_None; exact Hni).
      destruct (IH _ _ [] Hnd' Hok' A B) as (A' & C'); auto.
      * now rewrite Hnone.
      * exact I.
      * cbn in A'. split; [assumption|]. now rewrite C', C.
    + destruct (Hothers n' its st TF (not_eq_sym Hn) Hits Hp Hg) as (A & B & C).
      destruct (IH _ _ rem Hnd' Hok' A B Hrem Hgood Hpfr) as (A' & C').
      split; [assumption|]. now rewrite C', C.
Qed.

Lemma assoc_filter_keys {A} (h : string -> bool) (l : list (string * A)) n :
  assoc n (filter (fun ns => h (fst ns)) l) = if h n then assoc n l else None.
Proof.
  induction l as [|[k a] l IH]; cbn; [now destruct (h n)|].
  destruct (h k) eqn:Hk; cbn.
  - destruct (String.eqb_spec n k) as [->|_]; [now rewrite Hk|apply IH].
  - rewrite IH. destruct (String.eqb_spec n k) as [->|_]; [now rewrite Hk|reflexivity].
Qed.

Lemma NoDup_fst_filter {A B} (h : A * B -> bool) (l : list (A * B)) :
  NoDup (map fst l) -> NoDup (map fst (filter h l)).
Proof.
  induction l as [|x l IH]; cbn; intros Hnd; [constructor|]. apply NoDup_cons_iff in Hnd as [Hni Hnd].
  destruct (h x); cbn; [|auto]. constructor; [|auto]. intros Hin. apply Hni.
  apply in_map_iff in Hin as (y & E & Hy). apply filter_In in Hy as [Hy _]. apply in_map_iff. eauto.
Qed.

Lemma assoc_initial (l : list string) n :
  assoc n (ps_cache (initial l)) = if existsb (String.eqb n) l then Some None else None.
Proof.
  cbn [initial ps_cache]. induction l as [|a l IH]; cbn; [reflexivity|].
  destruct (String.eqb n a); [reflexivity|apply IH].
Qed.

(** the client's leaves at quiescence, any number of targets, any schedule *)
Lemma relay_multi_tf cfg ss sched :
  validate cfg = true -> NoDup (keys (cf_targets cfg)) ->
  (forall n, In n (keys (cf_targets cfg)) -> is_glob n = false) ->
  In name (keys (cf_targets cfg)) ->
  NoDup (keys ss) -> assoc name ss = Some s -> streams_ok ss ->
  exists l, pipeline cfg ss cq sched = VLeaves l /\
    NoDup (map fst l) /\
    forall p sc, In (p, sc) l <->
      exists k, p = name :: k /\ under Qrs k = true /\ decode (tf_run name s k) = Some sc.
Proof.
  intros Hv Hndt Hng Hin Hnds Hs Hok. unfold pipeline. pose proof (collector_start_spec cfg) as Hcs.
  destruct (collector_start cfg) as [[managed cached]|]; [|congruence].
  destruct Hcs as (_ & Hkm & Hc & _). subst cached.
  set (rs0 := {| rn_st := initial (keys (cf_targets cfg));
                 rn_streams := managed_streams (keys managed) ss; rn_subres := None |}).
  pose proof (assoc_initial (keys (cf_targets cfg))) as Hinit.
  assert (Hex : existsb (String.eqb name) (keys (cf_targets cfg)) = true).
  { apply existsb_exists. exists name. split; [assumption|apply String.eqb_refl]. }
  assert (H0 : minv rs0).
  { apply (Build_minv _ [] s); unfold rs0; cbn [rn_st rn_streams rn_subres]; auto.
    - unfold managed_streams. rewrite (assoc_filter_keys (fun n => existsb (String.eqb n) (keys managed))).
      now rewrite Hkm, Hex.
    - unfold managed_streams. now apply NoDup_fst_filter.
    - intros n' l Hl. apply filter_In in Hl as [Hl _]. now apply Hok.
    - split; [reflexivity|]. exists None. split; [now rewrite Hinit, Hex|].
      constructor; cbn; auto; try discriminate.
    - constructor; cbn [initial ps_fault ps_cache ps_heap ps_gen]; auto.
      + rewrite map_map. cbn. now rewrite map_id.
      + intros n Hn. rewrite map_map in Hn. cbn in Hn. rewrite map_id in Hn. split; [|now apply Hng].
        apply in_map_iff in Hn as ([n0 t] & E & Hnt). cbn in E. subst n0.
        now destruct (validate_In cfg n t Hv Hnt).
      + intros n T. fold (initial (keys (cf_targets cfg))). change (map (fun n0 : string => (n0, None)) (keys (cf_targets cfg)))
          with (ps_cache (initial (keys (cf_targets cfg)))). rewrite Hinit.
        destruct (existsb (String.eqb n) (keys (cf_targets cfg))); [|discriminate].
        intros E. injection E as <-. split; [exact I|].
        intros k g. cbn. discriminate.
      + intros g r. cbn. discriminate. }
  assert (Hall : forall acts rs, minv rs -> minv (fold_left (do_action cq) acts rs)).
  { induction acts as [|a acts IH]; intros rs Hrs; cbn [fold_left]; [assumption|].
    apply IH. now apply do_action_minv. }
  specialize (Hall sched rs0 H0). set (rs1 := fold_left (do_action cq) sched rs0) in *.
  destruct Hall as [c rem H1 H2 Hnd Hok1 H3 Hg H6 Hpf H7].
  unfold quiesce.
  destruct (ingest_rest_minv (rn_streams rs1) (rn_st rs1) (tf_run name c) rem Hnd Hok1 H3 Hg) as (Hp & Hsn); auto.
  { now rewrite H2. }
  assert (Htf : fold_left (tf_item name) rem (tf_run name c) = tf_run name s)
    by (unfold tf_run; now rewrite H1, fold_left_app).
  rewrite Htf in Hp.
  eapply (finish_view name Keys Vals Qrs) with (subres := rn_subres rs1); eauto.
  destruct H7 as [[Hr Hs']|[Hr Hs']]; [left|right]; (split; [assumption|]).
  - apply sub_none_iff. rewrite Hsn. now apply sub_none_iff.
  - intros E. apply (proj2 (sub_none_iff _)) in E. rewrite Hsn in E. apply sub_none_iff in E. contradiction.
Qed.

(** at any point of any run: if nothing more arrives, the client ends up with
    the replay of what the subscribed target has delivered SO FAR -- in
    particular, after a stream failure and part of the next session, with
    nothing the new session has not sent: no leaf of an earlier session
    survives a reconnect *)
Lemma relay_prefix_tf cfg ss sched :
  validate cfg = true -> NoDup (keys (cf_targets cfg)) ->
  (forall n, In n (keys (cf_targets cfg)) -> is_glob n = false) ->
  In name (keys (cf_targets cfg)) ->
  NoDup (keys ss) -> assoc name ss = Some s -> streams_ok ss ->
  exists rs c rem l,
    run_to cfg ss cq sched = Some rs /\ s = c ++ rem /\ assoc name (rn_streams rs) = Some rem /\
    pipeline_at cfg ss cq sched = VLeaves l /\ NoDup (map fst l) /\
    forall p sc, In (p, sc) l <->
      exists k, p = name :: k /\ under Qrs k = true /\ decode (tf_run name c k) = Some sc.
Proof.
  intros Hv Hndt Hng Hin Hnds Hs Hok. unfold pipeline_at, run_to. pose proof (collector_start_spec cfg) as Hcs.
  destruct (collector_start cfg) as [[managed cached]|]; [|congruence].
  destruct Hcs as (_ & Hkm & Hc & _). subst cached.
  set (rs0 := {| rn_st := initial (keys (cf_targets cfg));
                 rn_streams := managed_streams (keys managed) ss; rn_subres := None |}).
  pose proof (assoc_initial (keys (cf_targets cfg))) as Hinit.
  assert (Hex : existsb (String.eqb name) (keys (cf_targets cfg)) = true).
  { apply existsb_exists. exists name. split; [assumption|apply String.eqb_refl]. }
  assert (H0 : minv rs0).
  { apply (Build_minv _ [] s); unfold rs0; cbn [rn_st rn_streams rn_subres]; auto.
    - unfold managed_streams. rewrite (assoc_filter_keys (fun n => existsb (String.eqb n) (keys managed))).
      now rewrite Hkm, Hex.
    - unfold managed_streams. now apply NoDup_fst_filter.
    - intros n' l Hl. apply filter_In in Hl as [Hl _]. now apply Hok.
    - split; [reflexivity|]. exists None. split; [now rewrite Hinit, Hex|].
      constructor; cbn; auto; try discriminate.
    - constructor; cbn [initial ps_fault ps_cache ps_heap ps_gen]; auto.
      + rewrite map_map. cbn. now rewrite map_id.
      + intros n Hn. rewrite map_map in Hn. cbn in Hn. rewrite map_id in Hn. split; [|now apply Hng].
        apply in_map_iff in Hn as ([n0 t] & E & Hnt). cbn in E. subst n0.
        now destruct (validate_In cfg n t Hv Hnt).
      + intros n T. fold (initial (keys (cf_targets cfg))). change (map (fun n0 : string => (n0, None)) (keys (cf_targets cfg)))
          with (ps_cache (initial (keys (cf_targets cfg)))). rewrite Hinit.
        destruct (existsb (String.eqb n) (keys (cf_targets cfg))); [|discriminate].
        intros E. injection E as <-. split; [exact I|].
        intros k g. cbn. discriminate.
      + intros g r. cbn. discriminate. }
  assert (Hall : forall acts rs, minv rs -> minv (fold_left (do_action cq) acts rs)).
  { induction acts as [|a acts IH]; intros rs Hrs; cbn [fold_left]; [assumption|].
    apply IH. now apply do_action_minv. }
  specialize (Hall sched rs0 H0). set (rs1 := fold_left (do_action cq) sched rs0) in *.
  destruct Hall as [c rem H1 H2 Hnd Hok1 H3 Hg H6 Hpf H7].
  exists rs1, c, rem.
  edestruct (finish_view name Keys Vals Qrs) with (st1 := rn_st rs1) (subres := rn_subres rs1)
    (TF := tf_run name c) as (l & Hl & Hnd' & Hmem); eauto.
  exists l. repeat split; auto; apply Hmem.
Qed.

End Multi.

(** * relay_faithful, for any number of targets and every schedule *)

(** the stream conforms to a schema [Keys] and a value set [Vals] *)
Definition conforms (name : string) (Keys : path -> Prop) (Vals : tv -> Prop) (s : list item) : Prop :=
  Forall (item_good name Keys Vals) s /\ Forall no_porigin s /\ prefix_free_from [] s = true.

Theorem relay_multi (name : string) (Keys : path -> Prop) (Vals : tv -> Prop) (Qrs : list path)
    (cq : cquery) (s : list item) (cfg : config) (ss : streams) (sched : list action) :
  (forall a : path, Keys a -> glob_free a = true) ->
  (forall v : tv, Vals v -> to_scalar v <> None) ->
  (forall a b : tv, Vals a -> Vals b -> tv_equal a b = true -> to_scalar a = to_scalar b) ->
  (forall a b : tv, Vals a -> Vals b -> tv_eqb a b = true -> a = b) ->
  (forall Qr, In Qr Qrs -> glob_free Qr = true) ->
  (forall Qr k, In Qr Qrs -> Keys k -> strict_prefix k Qr = false) ->
  g_target (cq_prefix cq) = name ->
  map (complete_path (cq_prefix cq)) (cq_paths cq) = map Some Qrs ->
  conforms name Keys Vals s ->
  validate cfg = true -> NoDup (keys (cf_targets cfg)) ->
  (forall n, In n (keys (cf_targets cfg)) -> is_glob n = false) ->
  In name (keys (cf_targets cfg)) ->
  NoDup (keys ss) -> assoc name ss = Some s ->
  (forall n' l, In (n', l) ss -> Forall (item_nometa n') l) ->
  exists l, pipeline cfg ss cq sched = VLeaves l /\
            Permutation l (selects_any (sub_queries cq) (stamp_paths name (replay s))).
Proof.
  intros K2 V1 V2 V3 HQg HQa Ht Hc (Hgood & Hno & Hpfc) Hv Hndt Hng Hin Hnds Hs Hok.
  assert (Hne : name <> "").
  { apply in_map_iff in Hin as ([n0 t] & E & Hnt). cbn in E. subst n0. now destruct (validate_In cfg name t Hv Hnt). }
  assert (Hpf : pf_items name tf0 s).
  { apply (pf_items_of_check name s [] []); auto. constructor. }
  destruct (relay_multi_tf name Keys Vals Qrs K2 V1 V2 V3 HQg HQa Hne (Hng name Hin) cq Ht Hc s Hgood Hpf
              cfg ss sched Hv Hndt Hng Hin Hnds Hs Hok) as (l & Hp & Hnd & Hl).
  exists l. split; [assumption|].
  rewrite (cq_queries name Qrs Hne cq Ht Hc). now apply (leaves_of_tf name Qrs s l).
Qed.

(** the same without the auxiliary key set: every update path is glob-free and
    no entry of the subscription runs below it *)
Definition stream_ok (name : string) (Vals : tv -> Prop) (Qrs : list path) (s : list item) : Prop :=
  conforms name (fun k => glob_free k = true /\ forall Qr, In Qr Qrs -> strict_prefix k Qr = false) Vals s.

(** [Qrs]: what the entries' paths complete to (path.CompletePath), i.e. the
    registered queries without the target name; the subscription may have any
    number of entries, with the origin in the prefix or in each entry's path *)
Theorem relay_faithful_all (name : string) (Vals : tv -> Prop) (Qrs : list path)
    (cq : cquery) (s : list item) (cfg : config) (ss : streams) (sched : list action) :
  (forall v : tv, Vals v -> to_scalar v <> None) ->
  (forall a b : tv, Vals a -> Vals b -> tv_equal a b = true -> to_scalar a = to_scalar b) ->
  (forall a b : tv, Vals a -> Vals b -> tv_eqb a b = true -> a = b) ->
  (forall Qr, In Qr Qrs -> glob_free Qr = true) ->
  g_target (cq_prefix cq) = name ->
  map (complete_path (cq_prefix cq)) (cq_paths cq) = map Some Qrs ->
  stream_ok name Vals Qrs s ->
  validate cfg = true -> NoDup (keys (cf_targets cfg)) ->
  (forall n, In n (keys (cf_targets cfg)) -> is_glob n = false) ->
  In name (keys (cf_targets cfg)) ->
  NoDup (keys ss) -> assoc name ss = Some s ->
  (forall n' l, In (n', l) ss -> Forall (item_nometa n') l) ->
  exists l, pipeline cfg ss cq sched = VLeaves l /\
            Permutation l (selects_any (sub_queries cq) (stamp_paths name (replay s))).
Proof.
  intros V1 V2 V3 HQg Ht Hc Hs. intros.
  eapply (relay_multi name (fun k => glob_free k = true /\ forall Qr, In Qr Qrs -> strict_prefix k Qr = false)
            Vals Qrs); eauto.
  - cbn. tauto.
  - cbn. intros Qr k Hq [_ Hk]. now apply Hk.
Qed.

(** no stale leaf survives a reconnect: at ANY point of any run, if nothing more
    arrives, the client ends up with the replay of what the subscribed target
    has delivered so far ([c]); after a stream failure [replay c] holds only
    what the new session has sent *)
Theorem relay_no_stale_all (name : string) (Vals : tv -> Prop) (Qrs : list path)
    (cq : cquery) (s : list item) (cfg : config) (ss : streams) (sched : list action) :
  (forall v : tv, Vals v -> to_scalar v <> None) ->
  (forall a b : tv, Vals a -> Vals b -> tv_equal a b = true -> to_scalar a = to_scalar b) ->
  (forall a b : tv, Vals a -> Vals b -> tv_eqb a b = true -> a = b) ->
  (forall Qr, In Qr Qrs -> glob_free Qr = true) ->
  g_target (cq_prefix cq) = name ->
  map (complete_path (cq_prefix cq)) (cq_paths cq) = map Some Qrs ->
  stream_ok name Vals Qrs s ->
  validate cfg = true -> NoDup (keys (cf_targets cfg)) ->
  (forall n, In n (keys (cf_targets cfg)) -> is_glob n = false) ->
  In name (keys (cf_targets cfg)) ->
  NoDup (keys ss) -> assoc name ss = Some s ->
  (forall n' l, In (n', l) ss -> Forall (item_nometa n') l) ->
  exists rs c rem l,
    run_to cfg ss cq sched = Some rs /\ s = c ++ rem /\ assoc name (rn_streams rs) = Some rem /\
    pipeline_at cfg ss cq sched = VLeaves l /\
    Permutation l (selects_any (sub_queries cq) (stamp_paths name (replay c))).
Proof.
  intros V1 V2 V3 HQg Ht Hc (Hgood & Hno & Hpfc) Hv Hndt Hng Hin Hnds Hs Hok.
  assert (Hne : name <> "").
  { apply in_map_iff in Hin as ([n0 t] & E & Hnt). cbn in E. subst n0. now destruct (validate_In cfg name t Hv Hnt). }
  assert (Hpf : pf_items name tf0 s).
  { apply (pf_items_of_check name s [] []); auto. constructor. }
  set (Keys := fun k => glob_free k = true /\ forall Qr, In Qr Qrs -> strict_prefix k Qr = false).
  destruct (relay_prefix_tf name Keys Vals Qrs) with (cq := cq) (s := s) (cfg := cfg) (ss := ss) (sched := sched)
    as (rs & c & rem & l & Hr & Hsp & Hrem & Hp & Hnd & Hl); auto.
  - unfold Keys. tauto.
  - unfold Keys. intros Qr k Hq [_ Hk]. now apply Hk.
  - exists rs, c, rem, l. repeat (split; [assumption|]).
    rewrite (cq_queries name Qrs Hne cq Ht Hc). apply (leaves_of_tf name Qrs c l); auto.
    rewrite Hsp in Hno. now apply Forall_app in Hno as [Hno _].
Qed.

(** the same two statements read over sessions: only the last session counts *)
Lemma replay_reset a b : replay (a ++ IReset :: b) = replay b.
Proof. unfold replay. rewrite fold_left_app. reflexivity. Qed.

Lemma replay_join earlier last : replay (join_sessions earlier last) = replay last.
Proof. induction earlier as [|p r IH]; cbn [join_sessions]; [reflexivity|]. now rewrite replay_reset. Qed.

Theorem relay_sessions_all (name : string) (Vals : tv -> Prop) (Qrs : list path)
    (cq : cquery) (earlier : list (list item)) (last : list item)
    (cfg : config) (ss : streams) (sched : list action) :
  (forall v : tv, Vals v -> to_scalar v <> None) ->
  (forall a b : tv, Vals a -> Vals b -> tv_equal a b = true -> to_scalar a = to_scalar b) ->
  (forall a b : tv, Vals a -> Vals b -> tv_eqb a b = true -> a = b) ->
  (forall Qr, In Qr Qrs -> glob_free Qr = true) ->
  g_target (cq_prefix cq) = name ->
  map (complete_path (cq_prefix cq)) (cq_paths cq) = map Some Qrs ->
  stream_ok name Vals Qrs (join_sessions earlier last) ->
  validate cfg = true -> NoDup (keys (cf_targets cfg)) ->
  (forall n, In n (keys (cf_targets cfg)) -> is_glob n = false) ->
  In name (keys (cf_targets cfg)) ->
  NoDup (keys ss) -> assoc name ss = Some (join_sessions earlier last) ->
  (forall n' l, In (n', l) ss -> Forall (item_nometa n') l) ->
  exists l, pipeline cfg ss cq sched = VLeaves l /\
            Permutation l (selects_any (sub_queries cq) (stamp_paths name (replay last))).
Proof.
  intros. rewrite <- (replay_join earlier last). eapply relay_faithful_all; eauto.
Qed.

(** between the reset that ends the sessions [earlier] and anything later: if
    the run has consumed the earlier sessions, the reset and [sent] of the new
    one, the client holds nothing but the replay of [sent] *)
Corollary relay_no_stale_sessions (name : string) (Vals : tv -> Prop) (Qrs : list path)
    (cq : cquery) (s : list item) (cfg : config) (ss : streams) (sched : list action) :
  (forall v : tv, Vals v -> to_scalar v <> None) ->
  (forall a b : tv, Vals a -> Vals b -> tv_equal a b = true -> to_scalar a = to_scalar b) ->
  (forall a b : tv, Vals a -> Vals b -> tv_eqb a b = true -> a = b) ->
  (forall Qr, In Qr Qrs -> glob_free Qr = true) ->
  g_target (cq_prefix cq) = name ->
  map (complete_path (cq_prefix cq)) (cq_paths cq) = map Some Qrs ->
  stream_ok name Vals Qrs s ->
  validate cfg = true -> NoDup (keys (cf_targets cfg)) ->
  (forall n, In n (keys (cf_targets cfg)) -> is_glob n = false) ->
  In name (keys (cf_targets cfg)) ->
  NoDup (keys ss) -> assoc name ss = Some s ->
  (forall n' l, In (n', l) ss -> Forall (item_nometa n') l) ->
  forall rs rem earlier sent,
    run_to cfg ss cq sched = Some rs -> assoc name (rn_streams rs) = Some rem ->
    s = join_sessions earlier sent ++ rem ->
    exists l, pipeline_at cfg ss cq sched = VLeaves l /\
              Permutation l (selects_any (sub_queries cq) (stamp_paths name (replay sent))).
Proof.
  intros V1 V2 V3 HQg Ht Hc Hok Hv Hndt Hng Hin Hnds Hs Hnm rs rem earlier sent Hr Hrem Hsp.
  destruct (relay_no_stale_all name Vals Qrs cq s cfg ss sched) as (rs' & c & rem' & l & Hr' & Hsp' & Hrem' & Hp & Hperm); auto.
  rewrite Hr in Hr'. injection Hr' as <-. rewrite Hrem in Hrem'. injection Hrem' as <-.
  rewrite Hsp in Hsp'. apply app_inv_tail in Hsp'. subst c.
  exists l. split; [assumption|]. now rewrite replay_join in Hperm.
Qed.

(** both forms together *)
Theorem relay_no_stale :
  forall (name : string) (Vals : tv -> Prop) (Qrs : list path)
         (cq : cquery) (s : list item) (cfg : config) (ss : streams) (sched : list action),
    (forall v : tv, Vals v -> to_scalar v <> None) ->
    (forall a b : tv, Vals a -> Vals b -> tv_equal a b = true -> to_scalar a = to_scalar b) ->
    (forall a b : tv, Vals a -> Vals b -> tv_eqb a b = true -> a = b) ->
    (forall Qr, In Qr Qrs -> glob_free Qr = true) ->
    g_target (cq_prefix cq) = name ->
    map (complete_path (cq_prefix cq)) (cq_paths cq) = map Some Qrs ->
    stream_ok name Vals Qrs s ->
    validate cfg = true -> NoDup (keys (cf_targets cfg)) ->
    (forall n, In n (keys (cf_targets cfg)) -> is_glob n = false) ->
    In name (keys (cf_targets cfg)) ->
    NoDup (keys ss) -> assoc name ss = Some s ->
    (forall n' l, In (n', l) ss -> Forall (item_nometa n') l) ->
    (exists rs c rem l,
       run_to cfg ss cq sched = Some rs /\ s = c ++ rem /\ assoc name (rn_streams rs) = Some rem /\
       pipeline_at cfg ss cq sched = VLeaves l /\
       Permutation l (selects_any (sub_queries cq) (stamp_paths name (replay c)))) /\
    (forall rs rem earlier sent,
       run_to cfg ss cq sched = Some rs -> assoc name (rn_streams rs) = Some rem ->
       s = join_sessions earlier sent ++ rem ->
       exists l, pipeline_at cfg ss cq sched = VLeaves l /\
                 Permutation l (selects_any (sub_queries cq) (stamp_paths name (replay sent)))).
Proof.
  intros. split.
  - apply relay_no_stale_all with (Vals := Vals) (Qrs := Qrs); assumption.
  - apply relay_no_stale_sessions with (Vals := Vals) (Qrs := Qrs); assumption.
Qed.

(** ** the hypotheses are satisfiable (and the conclusion is about a non-empty view) *)
Module RelayExample.
Definition el (n : string) : pelem := {| e_name := n; e_keys := [] |}.
Definition gp (o : string) (es : list pelem) : gpath :=
  {| g_origin := o; g_target := ""; g_elem := es; g_element := [] |}.
Definition eth0 : pelem := {| e_name := "b"; e_keys := [("name", "eth0")] |}.
Definition s1 : list item :=
  [ IUpd {| n_ts := 100; n_prefix := None;
            n_updates := [(gp "" [el "a"; eth0; el "c"], TVInt 5); (gp "" [el "a"; el "d"], TVString "up")];
            n_deletes := [] |};
    ISync;
    IUpd {| n_ts := 200; n_prefix := Some (gp "foo" [el "x"]);
            n_updates := [(gp "" [el "y"], TVDecimal 15 1)]; n_deletes := [] |};
    (* older than the previous notification; the leaf a/d repeated: the second
       copy is rejected as stale; the delete still takes effect *)
    IUpd {| n_ts := 150; n_prefix := None;
            n_updates := [(gp "" [el "a"; el "d"], TVString "up"); (gp "" [el "a"; el "d"], TVString "up")];
            n_deletes := [gp "" [el "a"; eth0]] |};
    (* the stream fails; the collector resets the target; the second session
       re-sends its state from scratch, with timestamps of its own *)
    IReset;
    IUpd {| n_ts := 5; n_prefix := None;
            n_updates := [(gp "" [el "a"; el "d"], TVString "up")]; n_deletes := [] |};
    ISync;
    IUpd {| n_ts := 6; n_prefix := Some (gp "foo" [el "x"]);
            n_updates := [(gp "" [el "y"], TVDecimal 15 1)]; n_deletes := [] |} ].
Definition s2 : list item :=
  [ IUpd {| n_ts := 7; n_prefix := None; n_updates := [(gp "" [el "a"], TVAscii "x")]; n_deletes := [] |} ].
Definition cfg : config :=
  {| cf_requests := [("all", {| r_prefix := None; r_paths := [gp "" []] |})];
     cf_targets := [("dev1", {| t_addresses := ["h:1"]; t_request := "all" |});
                    ("dev2", {| t_addresses := ["h:2"]; t_request := "all" |})] |}.
Definition ss : streams := [("dev1", s1); ("dev2", s2)].
Definition q : cquery :=
  {| cq_prefix := {| g_origin := ""; g_target := "dev1"; g_elem := []; g_element := [] |}; cq_path := gp "" [];
     cq_more := [] |}.
(** one request, two entries, the origin in each entry's path (none in the prefix) *)
Definition q2 : cquery :=
  {| cq_prefix := {| g_origin := ""; g_target := "dev1"; g_elem := []; g_element := [] |};
     cq_path := gp "foo" []; cq_more := [gp "openconfig" [el "a"]] |}.
Definition sched : list action :=
  [AIngest "dev1"; ASubscribe; AIngest "dev2"; ASend; AIngest "dev1"; AIngest "dev1"; AIngest "dev1";
   ASend; AIngest "dev1" (* the failure *); AIngest "dev1"; ASend].
Definition valset : list tv := [TVInt 5; TVString "up"; TVDecimal 15 1].

Lemma example :
  exists l, pipeline cfg ss q2 sched = VLeaves l /\
            Permutation l (selects_any [["dev1"; "foo"]; ["dev1"; "openconfig"; "a"]]
                             (stamp_paths "dev1" (replay s1))) /\ List.length l = 2%nat.
Proof.
  destruct (relay_faithful_all "dev1" (fun v => In v valset) [["foo"]; ["openconfig"; "a"]] q2 s1 cfg ss sched)
    as (l & Hl & Hp).
  - intros v Hv. cbn in Hv. repeat (destruct Hv as [<-|Hv]; [discriminate|]). contradiction.
  - intros a b Ha Hb. cbn in Ha, Hb.
    repeat (destruct Ha as [<-|Ha]; [repeat (destruct Hb as [<-|Hb]; [cbn; congruence|]); contradiction|]). contradiction.
  - intros a b Ha Hb. cbn in Ha, Hb.
    repeat (destruct Ha as [<-|Ha]; [repeat (destruct Hb as [<-|Hb]; [cbn; congruence|]); contradiction|]). contradiction.
  - intros Qr HQ. cbn in HQ. repeat (destruct HQ as [<-|HQ]; [reflexivity|]). contradiction.
  - reflexivity.
  - reflexivity.
  - split; [|split; [|reflexivity]].
    + assert (Hi : forall nt, g_origin (spre "dev1" nt) <> meta_root ->
                (forall u, In u (n_updates nt) ->
                   rec_ok "dev1" (fun k => glob_free k = true /\
                                    forall Qr, In Qr [["foo"]; ["openconfig"; "a"]] -> strict_prefix k Qr = false)
                     (fun v => In v valset)
                     {| lr_ts := n_ts nt; lr_prefix := spre "dev1" nt; lr_path := fst u; lr_val := snd u |}) ->
                item_good "dev1" (fun k => glob_free k = true /\
                                    forall Qr, In Qr [["foo"]; ["openconfig"; "a"]] -> strict_prefix k Qr = false)
                  (fun v => In v valset) (IUpd nt))
        by (intros nt A B; split; assumption).
      unfold s1. repeat (apply Forall_cons; [|]); try apply Forall_nil; try exact I; apply Hi;
        try (cbn; discriminate); intros u Hu; cbn in Hu;
        repeat (destruct Hu as [<-|Hu];
                [constructor; [reflexivity|cbn; discriminate|cbn; discriminate
                              |cbn; split; [reflexivity|intros Qr HQ; repeat (destruct HQ as [<-|HQ]; [reflexivity|]); contradiction]
                              |cbn; auto 10]|]);
        contradiction.
    + unfold s1. repeat (apply Forall_cons; [|]); try apply Forall_nil; try exact I;
        cbn; try discriminate; intros _; split; intros x Hx; cbn in Hx;
        repeat (destruct Hx as [<-|Hx]; [reflexivity|]); contradiction.
  - reflexivity.
  - repeat constructor; cbn; intuition discriminate.
  - intros n Hn. cbn in Hn. repeat (destruct Hn as [<-|Hn]; [reflexivity|]). contradiction.
  - cbn. auto.
  - repeat constructor; cbn; intuition discriminate.
  - reflexivity.
  - intros n' l0 Hin. cbn in Hin. repeat (destruct Hin as [E|Hin]; [inversion E; subst; repeat constructor; cbn; discriminate|]).
    contradiction.
  - exists l. split; [assumption|]. split; [exact Hp|].
    apply Permutation_length in Hp. rewrite Hp. reflexivity.
Qed.
End RelayExample.

(** * What is false of the model (the open findings), on witnesses *)
Module Refuted.
Import RelayExample.
Definition cfg1 : config :=
  {| cf_requests := [("all", {| r_prefix := None; r_paths := [gp "" []] |})];
     cf_targets := [("dev1", {| t_addresses := ["h:1"]; t_request := "all" |})] |}.
Definition upd (ts : Z) (pre : option gpath) (p : gpath) (v : tv) : item :=
  IUpd {| n_ts := ts; n_prefix := pre; n_updates := [(p, v)]; n_deletes := [] |}.

(** an origin carried in the path: relabelled openconfig (corpus/C01/kf_7_21_path_origin.json) *)
Definition s_origin : list item := [upd 100 None (gp "foo" [el "a"; el "b"]) (TVInt 1)].

Lemma path_origin_refuted :
  exists l, pipeline cfg1 [("dev1", s_origin)] q [] = VLeaves l /\
            ~ Permutation l (selects ["dev1"] (stamp_paths "dev1" (replay s_origin))).
Proof.
  eexists. split; [vm_compute; reflexivity|]. vm_compute. intros Hp.
  apply Permutation_length_1 in Hp. discriminate.
Qed.

(** +0 then -0: suppressed as unchanged (corpus/C01/kf_negative_zero_suppressed.json) *)
Definition s_zero : list item :=
  [upd 100 None (gp "" [el "a"; el "f"]) (TVDouble 0); upd 200 None (gp "" [el "a"; el "f"]) (TVDouble (2 ^ 63))].

Lemma negative_zero_refuted :
  exists l, pipeline cfg1 [("dev1", s_zero)] q [AIngest "dev1"; ASubscribe; ASend; ASend] = VLeaves l /\
            ~ Permutation l (selects ["dev1"] (stamp_paths "dev1" (replay s_zero))).
Proof.
  eexists. split; [vm_compute; reflexivity|]. vm_compute. intros Hp.
  apply Permutation_length_1 in Hp. discriminate.
Qed.

(** outside the prefix-freeness hypothesis: one notification deletes the leaf
    [a] and writes [a/b].  gNMI applies the delete first; the cache applies the
    update first, refuses it ("already a leaf") and then deletes [a], so the
    subscriber ends with nothing ([prefix_free_from] rejects this stream, which
    is why relay_faithful does not cover it). *)
Definition s_replace : list item :=
  [upd 100 None (gp "" [el "a"]) (TVInt 1);
   IUpd {| n_ts := 200; n_prefix := None; n_updates := [(gp "" [el "a"; el "b"], TVInt 2)];
           n_deletes := [gp "" [el "a"]] |}].

Lemma leaf_to_subtree_refuted :
  PipelineCheck.prefix_free_from [] s_replace = false /\
  exists l, pipeline cfg1 [("dev1", s_replace)] q [ASubscribe] = VLeaves l /\
            ~ Permutation l (selects ["dev1"] (stamp_paths "dev1" (replay s_replace))).
Proof.
  split; [vm_compute; reflexivity|].
  eexists. split; [vm_compute; reflexivity|]. vm_compute. intros Hp.
  apply Permutation_nil in Hp. discriminate.
Qed.

(** a multi-operation notification one of whose updates the cache rejects: X at
    100, Y at 200, then ONE notification at 200 that repeats Y unchanged (stale)
    and deletes X.  The rejected update is a no-op, the delete applies: the
    subscriber is left with Y only, as the replay says. *)
Definition s_rejected : list item :=
  [upd 100 None (gp "" [el "a"; el "x"]) (TVInt 1);
   upd 200 None (gp "" [el "a"; el "y"]) (TVInt 2);
   IUpd {| n_ts := 200; n_prefix := None; n_updates := [(gp "" [el "a"; el "y"], TVInt 2)];
           n_deletes := [gp "" [el "a"; el "x"]] |}].

Lemma rejected_update_keeps_deletes :
  pipeline cfg1 [("dev1", s_rejected)] q [AIngest "dev1"; AIngest "dev1"; ASubscribe; ASend; ASend; ASend]
    = VLeaves [(["dev1"; "openconfig"; "a"; "y"], SInt 2)] /\
  selects ["dev1"] (stamp_paths "dev1" (replay s_rejected)) = [(["dev1"; "openconfig"; "a"; "y"], SInt 2)].
Proof. vm_compute. split; reflexivity. Qed.

(** a stream failure in the middle of the relay: the first session leaves x and
    y, the client is subscribed and has received them, the stream breaks (the
    collector resets the target), the second session re-sends only y, edited and
    with a SMALLER timestamp.  The client converges to the new session's state. *)
Definition s_sessions : list item :=
  [upd 100 None (gp "" [el "a"; el "x"]) (TVInt 1);
   upd 110 None (gp "" [el "a"; el "y"]) (TVInt 2);
   IReset;
   upd 50 None (gp "" [el "a"; el "y"]) (TVInt 7)].

Lemma reconnect_example :
  pipeline cfg1 [("dev1", s_sessions)] q
      [AIngest "dev1"; AIngest "dev1"; ASubscribe; ASend; ASend; ASend; AIngest "dev1"; ASend; AIngest "dev1"]
    = VLeaves [(["dev1"; "openconfig"; "a"; "y"], SInt 7)] /\
  selects ["dev1"] (stamp_paths "dev1" (replay s_sessions)) = [(["dev1"; "openconfig"; "a"; "y"], SInt 7)].
Proof. vm_compute. split; reflexivity. Qed.

(** the same run stopped right after the reset: the client holds nothing (the
    new session has sent nothing yet); with the reset skipped it still holds
    both leaves of the dead session *)
Lemma no_stale_example :
  pipeline_at cfg1 [("dev1", s_sessions)] q
      [AIngest "dev1"; AIngest "dev1"; ASubscribe; ASend; ASend; ASend; AIngest "dev1"] = VLeaves [] /\
  pipeline_at cfg1 [("dev1", filter (fun it => match it with IReset => false | _ => true end) s_sessions)] q
      [AIngest "dev1"; AIngest "dev1"; ASubscribe; ASend; ASend; ASend]
    = VLeaves [(["dev1"; "openconfig"; "a"; "x"], SInt 1); (["dev1"; "openconfig"; "a"; "y"], SInt 2)].
Proof. vm_compute. split; reflexivity. Qed.

(** the statement discriminates: a collector that SKIPS the reset when a session
    ends (what manager did on a clean EOF in round-5's seed) behaves like the
    pipeline fed the same messages without the failure marker; on the stream
    above it keeps x from the first session and rejects the second session's y
    as stale -- not what the target's last session holds *)
Definition s_sessions_skip : list item :=
  filter (fun it => match it with IReset => false | _ => true end) s_sessions.

Lemma skip_reset_refuted :
  exists l, pipeline cfg1 [("dev1", s_sessions_skip)] q
              [AIngest "dev1"; AIngest "dev1"; ASubscribe; ASend; ASend; ASend; AIngest "dev1"; ASend] = VLeaves l /\
            ~ Permutation l (selects ["dev1"] (stamp_paths "dev1" (replay s_sessions))).
Proof.
  eexists. split; [vm_compute; reflexivity|]. vm_compute. intros Hp.
  apply Permutation_length in Hp. discriminate.
Qed.

(** regression witness for DEFECT C01_3 (fixed by 6b65ac8): prefix in elem, path
    in the deprecated element encoding.  The delete notification of the code
    before the fix named only the prefix subtree; now it names the leaf
    (corpus/C01/fixed_mixed_encoding_delete.json). *)
Definition gel (l : list string) : gpath := {| g_origin := ""; g_target := ""; g_elem := []; g_element := l |}.
Definition r_mixed : leafrec :=
  {| lr_ts := 100;
     lr_prefix := {| g_origin := "openconfig"; g_target := "dev1"; g_elem := [el "a"]; g_element := [] |};
     lr_path := gel ["b"]; lr_val := TVInt 1 |}.

Lemma mixed_encoding_regression :
  full_path r_mixed = ["dev1"; "openconfig"; "a"; "b"] /\
  del_full (to_delete_gen true r_mixed 300) = ["dev1"; "openconfig"; "a"] /\
  del_full (to_delete r_mixed 300) = full_path r_mixed.
Proof. vm_compute. repeat split; reflexivity. Qed.
(** one request with two entries, the origin in the path of the FIRST entry (none
    in the prefix): each entry is registered from the same prefix strings, so a
    change streamed after the sync under the second entry arrives *)
Definition s_entries : list item :=
  [upd 100 (Some (gp "foo" [])) (gp "" [el "z"]) (TVInt 1);
   upd 110 None (gp "" [el "a"; el "x"]) (TVInt 2);
   upd 120 None (gp "" [el "a"; el "x"]) (TVInt 3);
   IUpd {| n_ts := 130; n_prefix := Some (gp "foo" []); n_updates := []; n_deletes := [gp "" [el "z"]] |}].

Lemma entries_example :
  sub_queries q2 = [["dev1"; "foo"]; ["dev1"; "openconfig"; "a"]] /\
  pipeline cfg1 [("dev1", s_entries)] q2
      [AIngest "dev1"; AIngest "dev1"; ASubscribe; ASend; ASend; ASend; AIngest "dev1"; ASend; AIngest "dev1"]
    = VLeaves [(["dev1"; "openconfig"; "a"; "x"], SInt 3)] /\
  selects_any (sub_queries q2) (stamp_paths "dev1" (replay s_entries))
    = [(["dev1"; "openconfig"; "a"; "x"], SInt 3)].
Proof. vm_compute. repeat split; reflexivity. Qed.
End Refuted.

(** * Soundness of the executable property checker K_P (PipelineCheck.kp_client) *)

Lemma scalar_ind' (P : scalar -> Prop) :
  (forall s, P (SStr s)) -> (forall z, P (SInt z)) -> (forall z, P (SUint z)) -> (forall b, P (SBool b)) ->
  (forall s, P (SBytes s)) -> (forall b, P (SF32 b)) -> (forall b, P (SF64 b)) ->
  (forall l, Forall P l -> P (SList l)) -> (forall s, P (SJson s)) -> (forall s, P (SJsonIetf s)) ->
  forall v, P v.
Proof.
  intros H0 H1 H2 H3 H4 H5 H6 H7 H8 H9. fix IH 1.
  intros [s|z|z|b|s|b|b|l|s|s];
    [apply H0|apply H1|apply H2|apply H3|apply H4|apply H5|apply H6| |apply H8|apply H9].
  apply H7. induction l as [|x l IHl]; constructor; [apply IH|apply IHl].
Qed.

Lemma scalar_eqb_eq a : forall b, scalar_eqb a b = true -> a = b.
Proof.
  induction a using scalar_ind'; intros [ ] Hb; cbn in Hb; try discriminate;
    try (apply String.eqb_eq in Hb; congruence);
    try (apply Z.eqb_eq in Hb; congruence);
    try (apply Bool.eqb_prop in Hb; congruence).
  f_equal. revert l0 Hb. induction H as [|x l Hx Hl IH]; intros [|y l'] Hb; try discriminate; [reflexivity|].
  apply andb_true_iff in Hb as [H1 H2]. f_equal; [now apply Hx|now apply IH].
Qed.

Lemma list_eqb_eq {A} (e : A -> A -> bool) :
  (forall x y, e x y = true -> x = y) -> forall a b, list_eqb e a b = true -> a = b.
Proof.
  intros He. induction a as [|x a IH]; intros [|y b] H; cbn in H; try discriminate; [reflexivity|].
  apply andb_true_iff in H as [H1 H2]. f_equal; auto.
Qed.

Lemma leaves_eqb_perm a b : leaves_eqb a b = true -> Permutation a b.
Proof.
  unfold leaves_eqb, sort_leaves. intros H.
  apply (list_eqb_eq leaf_eqb) in H.
  - rewrite (isort_perm pv_leb a), (isort_perm pv_leb b), H. reflexivity.
  - intros [p x] [p' y]. unfold leaf_eqb. cbn. intros E. apply andb_true_iff in E as [E1 E2].
    apply path_eqb_eq in E1. apply scalar_eqb_eq in E2. congruence.
Qed.

(** if K_P raises nothing about a client that reports leaves, and its guard
    holds, the client's data leaves are a permutation of the target's final
    state as the subscription selects it *)
Lemma kp_client_sound i c q l :
  let name := g_target (cq_prefix q) in
  configured c name = true -> hyp_stream (stream_of c name) = true ->
  hyp_queries name q (stream_of c name) = true ->
  kp_client i c q (OView (VLeaves l)) = [] ->
  Permutation (drop_meta l) (spec_view c name (sub_queries q)).
Proof.
  cbn zeta. intros H1 H2 H3. unfold kp_client. rewrite H1, H2, H3. cbn [andb].
  destruct (leaves_eqb _ _) eqn:E.
  - intros _. symmetry. now apply leaves_eqb_perm.
  - unfold tagged. destruct (stream_class _ _ _); discriminate.
Qed.

(** Proofs about the relay model (C01). *)
From Gnmi Require Import Base.Prelude CTree.CTreeModel Pipeline.PipelineModel.
Open Scope Z_scope.

(** the collector's Update closure always names the configured target and a
    non-empty origin *)
Lemma stamp_prefix name n :
  exists pre, n_prefix (stamp name n) = Some pre /\ g_target pre = name /\ g_origin pre <> "".
Proof.
  unfold stamp. destruct (n_prefix n) as [p|]; cbn.
  - eexists; split; [reflexivity|]. cbn. split; [reflexivity|].
    unfold str_nonempty. destruct (String.eqb_spec (g_origin p) ""); cbn; [discriminate|assumption].
  - eexists; split; [reflexivity|]. cbn. split; [reflexivity|discriminate].
Qed.

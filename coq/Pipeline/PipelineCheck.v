(** Correspondence evaluator and executable property checker for C01.

    One case = one end-to-end run on built binaries: a collector configuration,
    the scripted stream of every fake target, and what came out at the far end:
    the request each fake target received from the collector, the leaves of
    client.CacheClient instances subscribed (STREAM) through the collector, and
    the parsed output of gnmi_cli runs (query flags / -proto / -proto_file).

    (a) correspondence: the model of PipelineModel.v predicts each observation;
    (b) property (K_P): the observations are compared with the target's own
        final state ([stamp_paths (replay S)]), computed on a flat map without
        any of the pipeline machinery. *)
From Gnmi Require Import Base.Prelude CTree.CTreeModel Pipeline.PipelineModel.
Open Scope Z_scope.

(** ** short constructors used by the generated case files *)
Definition P (o t : string) (es : list pelem) (el : list string) : gpath :=
  {| g_origin := o; g_target := t; g_elem := es; g_element := el |}.
Definition E (n : string) (ks : list (string * string)) : pelem := {| e_name := n; e_keys := ks |}.
Definition Nt (ts : Z) (pre : option gpath) (us : list (gpath * tv)) (ds : list gpath) : item :=
  IUpd {| n_ts := ts; n_prefix := pre; n_updates := us; n_deletes := ds |}.
Definition Tc (addrs : list string) (req : string) : tcfg := {| t_addresses := addrs; t_request := req |}.
Definition Rq (pre : option gpath) (ps : list gpath) : sub_request := {| r_prefix := pre; r_paths := ps |}.
Definition Cf (rs : list (string * sub_request)) (ts : list (string * tcfg)) : config :=
  {| cf_requests := rs; cf_targets := ts |}.
Definition Cq (pre p : gpath) : cquery := {| cq_prefix := pre; cq_path := p; cq_more := [] |}.
(** a subscription with further entries *)
Definition Cqs (pre p : gpath) (more : list gpath) : cquery := {| cq_prefix := pre; cq_path := p; cq_more := more |}.
Definition Cr (m : qmode) (t : string) (ps : list path) : cli_req :=
  {| cr_mode := m; cr_target := t; cr_paths := ps |}.
Definition Ca (t : string) (qs : list string) (qt pr pf : string) : cli_args :=
  {| a_target := t; a_queries := qs; a_qtype := qt; a_proto := pr; a_proto_file := pf |}.

(** ** observations *)

(** a value as gnmi_cli prints it, parsed back by the harness *)
Inductive ctok :=
| CStr (s : string)                         (* a quoted string *)
| CNum (int : option Z) (f32 f64 : Z)       (* a numeric token: as integer, as float32 bits, as float64 bits *)
| CBool (b : bool)
| CSeq (comma : bool) (l : list ctok)       (* [a b c] or [a, b, c] *)
| CDeprecated (ietf : bool)                 (* {Deprecated TypedValue_Json[Ietf]Val ...} *)
| CRaw (s : string).

Inductive cli_result :=
| CTree (l : list (path * ctok))
| CFail.                                    (* non-zero exit status *)

Inductive obs :=
| OView (v : view)
| OHang.                                    (* the client never got its sync *)

Record cli_run := {
  cl_args : cli_args;
  cl_intended : cli_req;                    (* the request all three styles are meant to express *)
  cl_result : cli_result
}.
Definition Run (a : cli_args) (r : cli_req) (res : cli_result) : cli_run :=
  {| cl_args := a; cl_intended := r; cl_result := res |}.

Record case := {
  c_cfg : config;
  c_streams : streams;
  c_phase1 : list (string * nat);           (* messages each target sent before the clients subscribed *)
  c_seen : list (string * option sub_request);   (* the request each fake target received *)
  c_clients : list (cquery * obs);
  c_files : list (string * string);
  c_parse : list (string * cli_req);        (* the proto texts the harness rendered *)
  c_wire : list (string * cquery);          (* ... and the prefix/path each one spells, in its encoding *)
  c_cli : list cli_run
}.
Definition Case cfg ss p1 seen cls fs ps ws cli : case :=
  {| c_cfg := cfg; c_streams := ss; c_phase1 := p1; c_seen := seen; c_clients := cls;
     c_files := fs; c_parse := ps; c_wire := ws; c_cli := cli |}.

(** ** comparison *)

Fixpoint scalar_eqb (a b : scalar) : bool :=
  match a, b with
  | SStr x, SStr y => String.eqb x y
  | SInt x, SInt y => x =? y
  | SUint x, SUint y => x =? y
  | SBool x, SBool y => Bool.eqb x y
  | SBytes x, SBytes y => String.eqb x y
  | SF32 x, SF32 y => x =? y
  | SF64 x, SF64 y => x =? y
  | SList l, SList l' =>
      (fix go (l l' : list scalar) : bool :=
         match l, l' with
         | [], [] => true
         | x :: r, y :: r' => scalar_eqb x y && go r r'
         | _, _ => false
         end) l l'
  | SJson x, SJson y => String.eqb x y
  | SJsonIetf x, SJsonIetf y => String.eqb x y
  | _, _ => false
  end.

Definition pv_leb {A} (a b : path * A) : bool := path_leb (fst a) (fst b).
Definition sort_leaves {A} (l : list (path * A)) := isort pv_leb l.

Definition leaf_eqb (a b : path * scalar) : bool :=
  path_eqb (fst a) (fst b) && scalar_eqb (snd a) (snd b).

Definition leaves_eqb (a b : list (path * scalar)) : bool :=
  list_eqb leaf_eqb (sort_leaves a) (sort_leaves b).

Definition drop_meta {A} (l : list (path * A)) : list (path * A) :=
  filter (fun pv => negb (is_meta_leaf (fst pv))) l.

Definition sub_result_eqb (a b : sub_result) : bool :=
  match a, b with
  | SubOk, SubOk | SubInvalid, SubInvalid | SubNotFound, SubNotFound
  | SubQueryError, SubQueryError => true
  | _, _ => false
  end.

(** observed view (all leaves the client holds, meta included) against a
    predicted one.  When the target streams values the client cannot decode
    ([lax]), whether the client meets such a value depends on how much the
    subscriber queue coalesces: the prediction is made for the schedule with
    the most coalescing, under which the client fails only if every schedule
    makes it fail; a failure where none was predicted is then accepted. *)
Definition view_agrees (lax : bool) (predicted : view) (o : obs) : bool :=
  match predicted, o with
  | VLeaves l, OView (VLeaves l') => leaves_eqb l (drop_meta l')
  | VLeaves _, OView (VClientError _) => lax
  | VClientError _, OView (VClientError _) => true
  | VSubFailed r, OView (VSubFailed r') => sub_result_eqb r r'
  | VCollectorDown, OView VCollectorDown => true
  | _, _ => false
  end.

Definition bytes_of (s : string) : list Z :=
  map (fun c => Z.of_nat (nat_of_ascii c)) (list_ascii_of_string s).

(** does a printed token denote this scalar *)
Fixpoint cli_match (s : scalar) (t : ctok) : bool :=
  match s, t with
  | SStr x, CStr y => String.eqb x y
  | SInt x, CNum (Some y) _ _ => x =? y
  | SUint x, CNum (Some y) _ _ => x =? y
  | SBool x, CBool y => Bool.eqb x y
  | SF32 x, CNum _ y _ => x =? y
  | SF64 x, CNum _ _ y => x =? y
  | SBytes x, CSeq c l =>
      (negb c || (List.length l <=? 1)%nat)
      && (fix go (bs : list Z) (l : list ctok) : bool :=
            match bs, l with
            | [], [] => true
            | b :: bs', CNum (Some y) _ _ :: l' => (b =? y) && go bs' l'
            | _, _ => false
            end) (bytes_of x) l
  | SList xs, CSeq c l =>
      (c || (List.length l <=? 1)%nat)
      && (fix go (xs : list scalar) (l : list ctok) : bool :=
            match xs, l with
            | [], [] => true
            | x :: xs', tk :: l' => cli_match x tk && go xs' l'
            | _, _ => false
            end) xs l
  | SJson _, CDeprecated false => true
  | SJsonIetf _, CDeprecated true => true
  | _, _ => false
  end.

Fixpoint cli_leaves_match (a : list (path * scalar)) (b : list (path * ctok)) : bool :=
  match a, b with
  | [], [] => true
  | (p, s) :: a', (p', t) :: b' => path_eqb p p' && cli_match s t && cli_leaves_match a' b'
  | _, _ => false
  end.

Definition cli_agrees (predicted : view) (r : cli_result) : bool :=
  match predicted, r with
  | VLeaves l, CTree l' => cli_leaves_match (sort_leaves l) (sort_leaves (drop_meta l'))
  | VLeaves _, CFail => false
  | _, CFail => true
  | _, CTree _ => false
  end.

Definition opt_gpath_eqb (a b : option gpath) : bool :=
  match a, b with
  | None, None => true
  | Some x, Some y => gpath_eqb x y
  | _, _ => false
  end.

Definition sub_request_eqb (a b : sub_request) : bool :=
  opt_gpath_eqb (r_prefix a) (r_prefix b) && list_eqb gpath_eqb (r_paths a) (r_paths b).

(** ** the model side *)

(** the schedule the harness enforces: the first messages of every target, the
    subscription, the whole snapshot delivered (the harness waits for the
    client's sync), then everything else.  For streams within the hypotheses of
    [relay_faithful] the schedule does not matter. *)
Definition count_updates (ss : streams) : nat :=
  fold_left (fun k ns =>
               fold_left (fun k it => match it with
                                      | IUpd n => (k + List.length (n_updates n))%nat
                                      | ISync | IReset => k
                                      end) (snd ns) k) ss 0%nat.

Definition canonical_sched (ss : streams) (p1 : list (string * nat)) : list action :=
  flat_map (fun nk => repeat (AIngest (fst nk)) (snd nk)) p1
  ++ [ASubscribe] ++ repeat ASend (S (count_updates ss)).

Definition model_client (c : case) (q : cquery) : view :=
  pipeline (c_cfg c) (c_streams c) q (canonical_sched (c_streams c) (c_phase1 c)).

(** the same with every later message delivered to the client before the next
    one arrives (the fake targets pace their messages): the other extreme of
    queue coalescing.  Both schedules give the same view for streams within the
    hypotheses of [relay_faithful]; outside them (a value the client cannot
    decode, an update suppressed as unchanged) the view may depend on the
    schedule, and an observation is accepted when either predicts it. *)
Definition paced_sched (ss : streams) (p1 : list (string * nat)) : list action :=
  let k := S (count_updates ss) in
  flat_map (fun nk => repeat (AIngest (fst nk)) (snd nk)) p1
  ++ [ASubscribe] ++ repeat ASend k
  ++ flat_map (fun ns =>
                 let before := match assoc (fst ns) p1 with Some b => b | None => 0%nat end in
                 flat_map (fun _ => AIngest (fst ns) :: repeat ASend k)
                          (skipn before (snd ns))) ss.

Definition model_client_paced (c : case) (q : cquery) : view :=
  pipeline (c_cfg c) (c_streams c) q (paced_sched (c_streams c) (c_phase1 c)).

Definition model_seen (c : case) (name : string) : option sub_request :=
  match collector_start (c_cfg c) with
  | Some (managed, _) => assoc name managed
  | None => None
  end.

Definition cquery_of_req (r : cli_req) : option cquery :=
  match cr_paths r with
  | p :: ps => Some {| cq_prefix := P "" (cr_target r) [] [];
                       cq_path := P "" "" (map (fun n => E n []) p) [];
                       cq_more := map (fun p' => P "" "" (map (fun n => E n []) p') []) ps |}
  | [] => None
  end.

(** the text gnmi_cli parses (as [cli_request] picks it) *)
Definition cli_text (c : case) (a : cli_args) : string :=
  match proto_request_from_flags (fun f => assoc f (c_files c)) a with
  | inl (Some s) => if defect_C01_2 then a_proto a else s
  | _ => ""
  end.

(** the subscription the collector receives: for a proto style, prefix and
    path exactly as the text spells them (elem / element / prefix origin); the
    model resolves that encoding itself ([sub_query], [complete_path]) *)
Definition wire_query (c : case) (a : cli_args) (r : cli_req) : option cquery :=
  match assoc (cli_text c a) (c_wire c) with
  | Some q => Some q
  | None => cquery_of_req r
  end.

Definition model_cli (c : case) (a : cli_args) : option view :=
  match cli_request (fun s => assoc s (c_parse c)) (fun f => assoc f (c_files c)) a with
  | CliReq r =>
      match cr_mode r, wire_query c a r with
      | MOnce, Some q => Some (pipeline_once (c_cfg c) (c_streams c) q)
      | _, _ => None                       (* outside the model *)
      end
  | CliErr 99 => None
  | CliErr _ | CliExit _ => Some (VSubFailed SubInvalid)     (* any failing exit *)
  end.

(** ** the specification side (K_P) *)

Definition decodable (s : list item) : bool :=
  forallb (fun it => match it with
                     | ISync | IReset => true
                     | IUpd n => forallb (fun u => match to_scalar (snd u) with Some _ => true | None => false end)
                                         (n_updates n)
                     end) s.

Definition conflicts (f : tstate) (k : path) : bool :=
  existsb (fun kv => strict_prefix (fst kv) k || strict_prefix k (fst kv)) f.

(** the history never stores a path that is a proper prefix of another one.
    The cache applies the updates of a notification before its deletes, so the
    check does the same. *)
Fixpoint pf_keys (f : tstate) (ks : list path) : bool :=
  match ks with
  | [] => true
  | k :: ks' => negb (conflicts f k) && pf_keys ((k, (0, TVBool true)) :: f) ks'
  end.

Fixpoint prefix_free_from (f : tstate) (s : list item) : bool :=
  match s with
  | [] => true
  | it :: s' => pf_keys f (upd_keys it) && prefix_free_from (replay_step f it) s'
  end.

Definition hyp_stream (s : list item) : bool :=
  decodable s && prefix_free_from [] s
  && forallb (fun it => negb (String.eqb (item_prefix_origin it) meta_root)) s
  && forallb (fun it => forallb (fun k => forallb (fun e => negb (is_glob e)) k) (upd_keys it)) s.

(** the subscription is for a subtree: its path is glob-free and does not run
    below a leaf *)
Definition hyp_query (name : string) (q : path) (s : list item) : bool :=
  glob_free q
  && forallb (fun it => forallb (fun k => negb (strict_prefix (name :: k) q)) (upd_keys it)) s.

Definition stream_of (c : case) (name : string) : list item :=
  match assoc name (c_streams c) with Some s => s | None => [] end.

Definition configured (c : case) (name : string) : bool :=
  validate (c_cfg c) && existsb (fun nt => String.eqb name (fst nt)) (cf_targets (c_cfg c)).

Definition spec_view (c : case) (name : string) (qs : list path) : list (path * scalar) :=
  selects_any qs (stamp_paths name (replay (stream_of c name))).

(** every entry of the subscription is for a subtree and has a valid path *)
Definition hyp_queries (name : string) (q : cquery) (s : list item) : bool :=
  forallb (fun Q => hyp_query name Q s) (sub_queries q)
  && forallb (fun p => match complete_path (cq_prefix q) p with Some _ => true | None => false end) (cq_paths q).

(** known-finding classes (see /verif/known_findings.d/C01.json) *)
Definition has_path_origin (s : list item) : bool :=
  existsb (fun it => match it with
                     | ISync | IReset => false
                     | IUpd n =>
                         String.eqb (item_prefix_origin it) ""
                         && (existsb (fun u => str_nonempty (g_origin (fst u))) (n_updates n)
                             || existsb (fun d => str_nonempty (g_origin d)) (n_deletes n))
                     end) s.

Fixpoint tv_has_negzero (v : tv) : bool :=
  match v with
  | TVFloat b => b =? 2 ^ 31
  | TVDouble b => b =? 2 ^ 63
  | TVLeaflist l => existsb tv_has_negzero l
  | _ => false
  end.

Definition has_negzero (s : list item) : bool :=
  existsb (fun it => match it with
                     | ISync | IReset => false
                     | IUpd n => existsb (fun u => tv_has_negzero (snd u)) (n_updates n)
                     end) s.

(** class of a failed expectation about target [name]:
    1  the subscription is refused as NotFound / the CLI fails although the
       target is configured (gnmi_collector never registers targets with its cache)
    3  the stream carries an origin in a path (indexed without it)
    4  the stream carries a negative zero (an update between +0 and -0 is
       suppressed as unchanged)
    (class 2, -proto_file, is decided at the CLI step) *)
Definition stream_class (c : case) (name : string) (notfound : bool) : N :=
  if notfound then (if defect_C01_1 then 1%N else 0%N)
  else if has_path_origin (stream_of c name) then 3%N
  else if has_negzero (stream_of c name) then 4%N
  else 0%N.

Definition tagged (i : nat) (k : N) : list (nat * N) :=
  match k with 0%N => [(i, 2%N)] | _ => [(i, (10 + k)%N)] end.

(** K_P for a library client *)
Definition kp_client (i : nat) (c : case) (q : cquery) (o : obs) : list (nat * N) :=
  let name := g_target (cq_prefix q) in
  let s := stream_of c name in
  if configured c name && hyp_stream s && hyp_queries name q s
  then
    match o with
    | OView (VLeaves l) =>
        if leaves_eqb (spec_view c name (sub_queries q)) (drop_meta l) then []
        else tagged i (stream_class c name false)
    | OView (VSubFailed SubNotFound) => tagged i (stream_class c name true)
    | _ => [(i, 2%N)]
    end
  else [].

(** K_P for a CLI run: whatever the style, the output is the tree of the
    intended request *)
Definition kp_cli (i : nat) (c : case) (r : cli_run) : list (nat * N) :=
  match cquery_of_req (cl_intended r) with
  | None => []
  | Some q =>
      let name := cr_target (cl_intended r) in
      let s := stream_of c name in
      if configured c name && hyp_stream s && hyp_queries name q s
      then
        match cl_result r with
        | CTree l =>
            if cli_leaves_match (sort_leaves (spec_view c name (sub_queries q))) (sort_leaves (drop_meta l))
            then [] else tagged i (stream_class c name false)
        | CFail =>
            if defect_C01_1 then tagged i 1%N
            else if str_nonempty (a_proto_file (cl_args r)) then tagged i 2%N
            else [(i, 2%N)]
        end
      else []
  end.

(** K_P for the request a target received: a configured target is contacted
    with its own request, carrying its name *)
Definition kp_seen (i : nat) (c : case) (name : string) (o : option sub_request) : list (nat * N) :=
  if validate (c_cfg c) then
    match assoc name (cf_targets (c_cfg c)) with
    | Some t =>
        match assoc (t_request t) (cf_requests (c_cfg c)), o with
        | Some r, Some r' =>
            if match r_prefix r' with Some g => String.eqb (g_target g) name | None => false end
               && list_eqb gpath_eqb (r_paths r) (r_paths r')
            then [] else [(i, 3%N)]
        | _, _ => [(i, 3%N)]
        end
    | None => []
    end
  else [].

(** ** verdicts *)

Fixpoint check_clients (i : nat) (c : case) (l : list (cquery * obs)) : list (nat * N) :=
  match l with
  | [] => []
  | (q, o) :: l' =>
      (let lax := negb (decodable (stream_of c (g_target (cq_prefix q)))) in
       if view_agrees lax (model_client_paced c q) o || view_agrees lax (model_client c q) o
       then [] else [(i, 1%N)])
      ++ kp_client i c q o ++ check_clients (S i) c l'
  end.

Fixpoint check_cli (i : nat) (c : case) (l : list cli_run) : list (nat * N) :=
  match l with
  | [] => []
  | r :: l' =>
      (match model_cli c (cl_args r) with
       | Some v => if cli_agrees v (cl_result r) then [] else [(i, 1%N)]
       | None => [(i, 1%N)]
       end)
      ++ kp_cli i c r ++ check_cli (S i) c l'
  end.

Fixpoint check_seen (i : nat) (c : case) (l : list (string * option sub_request)) : list (nat * N) :=
  match l with
  | [] => []
  | (name, o) :: l' =>
      (match model_seen c name, o with
       | None, None => []
       | Some r, Some r' => if sub_request_eqb r r' then [] else [(i, 1%N)]
       | _, _ => [(i, 1%N)]
       end)
      ++ kp_seen i c name o ++ check_seen (S i) c l'
  end.

(** step numbering: clients from 0, CLI runs from 100, received requests from 200 *)
Definition check_case (c : case) : list (nat * N) :=
  check_clients 0 c (c_clients c) ++ check_cli 100 c (c_cli c) ++ check_seen 200 c (c_seen c).

Fixpoint check_all_from (i : nat) (cs : list case) : list (nat * nat * N) :=
  match cs with
  | [] => []
  | c :: cs' => map (fun sn => (i, fst sn, snd sn)) (check_case c) ++ check_all_from (S i) cs'
  end.

Definition check_all (cs : list case) : list (nat * nat * N) := check_all_from 0 cs.

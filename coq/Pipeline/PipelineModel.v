(** Executable model of the end-to-end relay (property C01):

      target stream  ->  manager.handleGNMIUpdate  ->  collector Update closure (stamp)
        ->  cache.GnmiUpdate (per-target ctree of *pb.Notification leaves)
        ->  change feed (cache client callback = subscribe.Server.Update, match trie)
        ->  per-subscriber coalescing queue of leaf pointers
        ->  Subscribe STREAM / ONCE responses
        ->  client/gnmi defaultRecv decode (prefix + path, value.ToScalar)
        ->  client.CacheClient tree,

    plus [collector_start] (which configured targets are registered with the
    target manager and with the cache) and [cli_request] (gnmi_cli: query flags,
    -proto, -proto_file -> the SubscribeRequest that is sent).

    Self-contained: the stages are modelled here at exactly the depth the relay
    needs (the component properties C02..C06, C09, C15, C19 own the deep
    models).  Only the stable ctree model is imported.

    Not modelled (stated as assumptions of the check): atomic notifications,
    the metadata subtree ("meta/..." leaves are the collector's own state and
    are projected away from every view), the deprecated Update.value field,
    target "*" subscriptions, POLL, updates_only, gRPC/TLS/process start-up.

    Definitions only; proofs are in PipelineProofs.v. *)
From Gnmi Require Import Base.Prelude CTree.CTreeModel.
Open Scope Z_scope.

(** * Switches for the defects that the patches in /verif/fixes repair (one line
      each; the third one, [defect_C01_3], is further down next to
      [to_delete_gen]).  All three patches are committed in /repo (3cf3caf,
      d054399, 6b65ac8), so the switches are off; setting one to [true] gives the
      model of the code before its fix (used on scratch copies to confirm that
      the witnesses in corpus/C01 fail there). *)

(* DEFECT C01_1 (fixes/C01_1_collector_registers_targets_in_cache.diff, fixed
   by 3cf3caf): gnmi_collector never called cache.Add for its configured
   targets.  [true] = the code before the fix (no target is registered with
   the cache); [false] = collector.add registers the target. *)
Definition defect_C01_1 : bool := false.

(* DEFECT C01_2 (fixes/C01_2_cli_proto_file_subscribe.diff, fixed by d054399):
   executeSubscribe parsed the -proto flag although the request text came from
   -proto_file.  [true] = the code before the fix. *)
Definition defect_C01_2 : bool := false.

(** * gNMI paths and values *)

Record pelem := { e_name : string; e_keys : list (string * string) }.

Record gpath := {
  g_origin : string;
  g_target : string;
  g_elem : list pelem;
  g_element : list string       (* deprecated encoding, used when g_elem = [] *)
}.

Definition gp_empty : gpath := {| g_origin := ""; g_target := ""; g_elem := []; g_element := [] |}.

Definition str_nonempty (s : string) : bool := negb (String.eqb s "").

(** path.sortedVals / the key handling of path.ToStrings: no key, nothing; one
    key, its value; several keys, the values in the order of the key names. *)
Definition key_vals (ks : list (string * string)) : list string :=
  match ks with
  | [] => []
  | [kv] => [snd kv]
  | _ => map snd (isort key_leb ks)
  end.

(** path.ToStrings; [None] is the nil path. *)
Definition to_strings_gp (p : gpath) (pre : bool) : path :=
  (if pre
   then (if str_nonempty (g_target p) then [g_target p] else [])
        ++ (if str_nonempty (g_origin p) then [g_origin p] else [])
   else [])
  ++ match g_elem p with
     | [] => g_element p
     | es => flat_map (fun e => e_name e :: key_vals (e_keys e)) es
     end.

Definition to_strings (p : option gpath) (pre : bool) : path :=
  match p with None => [] | Some g => to_strings_gp g pre end.

(** gnmi.TypedValue arms.  Floats are carried by their IEEE bit patterns
    (binary32 resp. binary64, as non-negative integers). *)
Inductive tv :=
| TVString (s : string)
| TVInt (z : Z)
| TVUint (z : Z)
| TVBool (b : bool)
| TVBytes (s : string)
| TVFloat (bits : Z)
| TVDouble (bits : Z)
| TVDecimal (digits : Z) (precision : Z)
| TVLeaflist (l : list tv)
| TVJson (s : string)        (* canonical JSON text *)
| TVJsonIetf (s : string)
| TVAny (s : string)
| TVAscii (s : string)
| TVProto (s : string).

(** what value.ToScalar hands to the client *)
Inductive scalar :=
| SStr (s : string)
| SInt (z : Z)
| SUint (z : Z)
| SBool (b : bool)
| SBytes (s : string)
| SF32 (bits : Z)
| SF64 (bits : Z)
| SList (l : list scalar)
| SJson (s : string)         (* value.DeprecatedScalar, JSON re-marshalled *)
| SJsonIetf (s : string).

(** value.decimalToFloat: float32(float64(digits) / 10^precision), computed
    here as the correctly rounded (nearest-even) binary32 of the rational
    digits / 10^precision.  The two agree when |digits| < 2^24 and
    precision <= 10 (both operands are then binary32 numbers, for which
    rounding a binary64 quotient again to binary32 is innocuous); the
    correspondence run only draws such decimals. *)
Definition f32_of_ratio (n d : Z) : Z :=
  if n =? 0 then 0 else
  let sgn := if n <? 0 then 2 ^ 31 else 0 in
  let a := Z.abs n in
  let l := Z.log2 a - Z.log2 d in
  (* k = floor (log2 (a / d)) *)
  let ge (k : Z) := if 0 <=? k then d * 2 ^ k <=? a else d <=? a * 2 ^ (- k) in
  let k := if ge l then l else l - 1 in
  let e := Z.max (k - 23) (-149) in
  let num := if e <? 0 then a * 2 ^ (- e) else a in
  let den := if e <? 0 then d else d * 2 ^ e in
  let q := num / den in
  let r := num mod den in
  let up := if 2 * r <? den then false
            else if den <? 2 * r then true
            else Z.odd q in
  let m := if up then q + 1 else q in
  let '(m, e) := if m =? 2 ^ 24 then (2 ^ 23, e + 1) else (m, e) in
  if 104 <? e then sgn + 255 * 2 ^ 23
  else if m <? 2 ^ 23 then sgn + m
  else sgn + (e + 150) * 2 ^ 23 + (m - 2 ^ 23).

Definition dec_to_f32 (digits precision : Z) : Z := f32_of_ratio digits (10 ^ precision).

(** value.ToScalar; [None] = "non-scalar type" error. *)
Fixpoint to_scalar (v : tv) : option scalar :=
  match v with
  | TVString s => Some (SStr s)
  | TVInt z => Some (SInt z)
  | TVUint z => Some (SUint z)
  | TVBool b => Some (SBool b)
  | TVBytes s => Some (SBytes s)
  | TVFloat b => Some (SF32 b)
  | TVDouble b => Some (SF64 b)
  | TVDecimal d p => Some (SF32 (dec_to_f32 d p))
  | TVLeaflist l =>
      match (fix go (l : list tv) : option (list scalar) :=
               match l with
               | [] => Some []
               | x :: r =>
                   match to_scalar x, go r with
                   | Some a, Some b => Some (a :: b)
                   | _, _ => None
                   end
               end) l with
      | Some ss => Some (SList ss)
      | None => None
      end
  | TVJson s => Some (SJson s)
  | TVJsonIetf s => Some (SJsonIetf s)
  | TVAny _ | TVAscii _ | TVProto _ => None
  end.

(** Go's == on float32 / float64 given bit patterns. *)
Definition f_eq (ebits mbits : Z) (a b : Z) : bool :=
  let is_nan x := ((x / 2 ^ mbits) mod 2 ^ ebits =? 2 ^ ebits - 1) && negb (x mod 2 ^ mbits =? 0) in
  let is_zero x := x mod 2 ^ (ebits + mbits) =? 0 in
  if is_nan a || is_nan b then false
  else (a =? b) || (is_zero a && is_zero b).

(** value.Equal (used by the cache to suppress unchanged values). *)
Fixpoint tv_equal (a b : tv) : bool :=
  match a, b with
  | TVString x, TVString y => String.eqb x y
  | TVInt x, TVInt y => x =? y
  | TVUint x, TVUint y => x =? y
  | TVBool x, TVBool y => Bool.eqb x y
  | TVBytes x, TVBytes y => String.eqb x y
  | TVDouble x, TVDouble y => f_eq 11 52 x y
  | TVFloat x, TVFloat y => f_eq 8 23 x y
  | TVDecimal d p, TVDecimal d' p' => (d =? d') && (p =? p')
  | TVLeaflist l, TVLeaflist l' =>
      (fix go (l l' : list tv) : bool :=
         match l, l' with
         | [], [] => true
         | x :: r, y :: r' => tv_equal x y && go r r'
         | _, _ => false
         end) l l'
  | _, _ => false
  end.

(** proto.Equal on float fields: Go's ==, and two NaNs are equal *)
Definition f_nan (ebits mbits : Z) (x : Z) : bool :=
  ((x / 2 ^ mbits) mod 2 ^ ebits =? 2 ^ ebits - 1) && negb (x mod 2 ^ mbits =? 0).

Definition f_peq (ebits mbits : Z) (a b : Z) : bool :=
  f_eq ebits mbits a b || (f_nan ebits mbits a && f_nan ebits mbits b).

(** proto.Equal on the stored notification's value *)
Fixpoint tv_eqb (a b : tv) : bool :=
  match a, b with
  | TVString x, TVString y => String.eqb x y
  | TVInt x, TVInt y => x =? y
  | TVUint x, TVUint y => x =? y
  | TVBool x, TVBool y => Bool.eqb x y
  | TVBytes x, TVBytes y => String.eqb x y
  | TVDouble x, TVDouble y => f_peq 11 52 x y
  | TVFloat x, TVFloat y => f_peq 8 23 x y
  | TVDecimal d p, TVDecimal d' p' => (d =? d') && (p =? p')
  | TVLeaflist l, TVLeaflist l' =>
      (fix go (l l' : list tv) : bool :=
         match l, l' with
         | [], [] => true
         | x :: r, y :: r' => tv_eqb x y && go r r'
         | _, _ => false
         end) l l'
  | TVJson x, TVJson y => String.eqb x y
  | TVJsonIetf x, TVJsonIetf y => String.eqb x y
  | TVAny x, TVAny y => String.eqb x y
  | TVAscii x, TVAscii y => String.eqb x y
  | TVProto x, TVProto y => String.eqb x y
  | _, _ => false
  end.

Fixpoint list_eqb {A} (e : A -> A -> bool) (a b : list A) : bool :=
  match a, b with
  | [], [] => true
  | x :: a', y :: b' => e x y && list_eqb e a' b'
  | _, _ => false
  end.

Definition kv_eqb (a b : string * string) : bool :=
  String.eqb (fst a) (fst b) && String.eqb (snd a) (snd b).

(* key maps are compared as sorted lists: proto.Equal compares maps as maps *)
Definition pelem_eqb (a b : pelem) : bool :=
  String.eqb (e_name a) (e_name b)
  && list_eqb kv_eqb (isort key_leb (e_keys a)) (isort key_leb (e_keys b)).

Definition gpath_eqb (a b : gpath) : bool :=
  String.eqb (g_origin a) (g_origin b) && String.eqb (g_target a) (g_target b)
  && list_eqb pelem_eqb (g_elem a) (g_elem b) && path_eqb (g_element a) (g_element b).

(** * Notifications and target streams *)

Record notification := {
  n_ts : Z;
  n_prefix : option gpath;
  n_updates : list (gpath * tv);
  n_deletes : list gpath
}.

(** what a target sends on its Subscribe stream *)
Inductive item :=
| ISync
| IUpd (n : notification)
| IReset.     (* the stream breaks (Recv error, EOF, receive timeout): the target
                 manager resets the target in the cache and opens a new session *)

(** * Collector glue *)

Definition openconfig : string := "openconfig".
Definition meta_root : string := "meta".

(** the Update closure of cmd/gnmi_collector: stamp the target, default the
    origin; the result always has a prefix. *)
Definition stamp (name : string) (n : notification) : notification :=
  let pre :=
    match n_prefix n with
    | None => {| g_origin := openconfig; g_target := name; g_elem := []; g_element := [] |}
    | Some p =>
        {| g_origin := if str_nonempty (g_origin p) then g_origin p else openconfig;
           g_target := name; g_elem := g_elem p; g_element := g_element p |}
    end in
  {| n_ts := n_ts n; n_prefix := Some pre; n_updates := n_updates n; n_deletes := n_deletes n |}.

(** collector configuration (proto/target Configuration) *)
Record tcfg := { t_addresses : list string; t_request : string }.

Record sub_request := {           (* the SubscribeRequest template of a target *)
  r_prefix : option gpath;
  r_paths : list gpath
}.

Record config := {
  cf_requests : list (string * sub_request);
  cf_targets : list (string * tcfg)
}.

(** target.Validate *)
Definition validate (c : config) : bool :=
  forallb (fun nt =>
             str_nonempty (fst nt)
             && negb (match t_addresses (snd nt) with [] => true | _ => false end)
             && str_nonempty (t_request (snd nt))
             && match assoc (t_request (snd nt)) (cf_requests c) with Some _ => true | None => false end)
          (cf_targets c).

(** manager.customizeRequest: the request a target receives *)
Definition customize (name : string) (r : sub_request) : sub_request :=
  {| r_prefix :=
       Some match r_prefix r with
            | Some p => {| g_origin := g_origin p; g_target := name; g_elem := g_elem p; g_element := g_element p |}
            | None => {| g_origin := ""; g_target := name; g_elem := []; g_element := [] |}
            end;
     r_paths := r_paths r |}.

(** runCollector + collector.start/add: the targets registered with the target
    manager (each with the request it will send) and the target names
    registered with the cache.  [None]: runCollector returns an error (invalid
    configuration) and serves nothing. *)
Definition collector_start (c : config) : option (list (string * sub_request) * list string) :=
  if validate c then
    let added :=
      flat_map (fun nt =>
                  match assoc (t_request (snd nt)) (cf_requests c) with
                  | Some r => [(fst nt, customize (fst nt) r)]
                  | None => []           (* "no request found": not added *)
                  end) (cf_targets c) in
    Some (added,
          (* DEFECT C01_1: cache.Add is never called; with the patch the
             branch is [keys added] *)
          if defect_C01_1 then [] else keys added)
  else None.

(** * The cache (per-target tree of leaf pointers) *)

(** a stored single-update notification (what a ctree leaf points to) *)
Record leafrec := {
  lr_ts : Z;
  lr_prefix : gpath;          (* stamped prefix *)
  lr_path : gpath;
  lr_val : tv
}.

Definition leafrec_eqb (a b : leafrec) : bool :=
  (lr_ts a =? lr_ts b) && gpath_eqb (lr_prefix a) (lr_prefix b)
  && gpath_eqb (lr_path a) (lr_path b) && tv_eqb (lr_val a) (lr_val b).

(** Leaf objects have identity: a subscriber's queue holds leaf *pointers* and
    reads the value when it sends.  The tree stores object ids, [heap] maps an
    id to the current contents (objects removed from the tree stay readable). *)
Definition heap := list (nat * leafrec).

Fixpoint hget (h : heap) (g : nat) : option leafrec :=
  match h with
  | [] => None
  | (g', r) :: h' => if Nat.eqb g g' then Some r else hget h' g
  end.

Definition hset (h : heap) (g : nat) (r : leafrec) : heap := (g, r) :: h.

(** delete notification produced by cache.toDeleteNotification *)
Record delrec := {
  d_ts : Z;
  d_target : string;
  d_origin : string;
  d_path : gpath
}.

(** queue entries of one subscriber *)
Inductive qitem :=
| QLeaf (g : nat)           (* pointer to a tree leaf *)
| QDel (d : delrec)         (* detached leaf holding a delete notification *)
| QSync.

(** one SubscribeResponse notification as seen by the client *)
Record resp := {
  rs_ts : Z;
  rs_prefix : gpath;
  rs_updates : list (gpath * tv);
  rs_deletes : list gpath
}.

(** * The client *)

(** client.CacheClient state: tree of decoded values; [cl_err] = Recv returned
    an error (the subscription is over). *)
Record cstate := {
  cl_tree : tree scalar;
  cl_synced : bool;
  cl_err : bool
}.

Definition client0 : cstate := {| cl_tree := None; cl_synced := false; cl_err := false |}.

(** client/gnmi defaultRecv on an update response + CacheClient.defaultHandler:
    updates in order, then deletes; the first undecodable value ends the
    stream (already applied updates stay). *)
Fixpoint client_updates (t : tree scalar) (pre : path) (us : list (gpath * tv))
  : tree scalar * bool :=
  match us with
  | [] => (t, false)
  | (p, v) :: us' =>
      match to_scalar v with
      | None => (t, true)
      | Some s =>
          let full := pre ++ to_strings_gp p false in
          (* CacheClient ignores the error of Tree.Add *)
          client_updates (match add t full s with Some t' => t' | None => t end) pre us'
      end
  end.

Definition client_deletes (t : tree scalar) (pre : path) (ds : list gpath) : tree scalar :=
  fold_left (fun t d => fst (delete t (pre ++ to_strings_gp d false))) ds t.

Definition client_recv (c : cstate) (r : resp) : cstate :=
  if cl_err c then c else
  let pre := to_strings_gp (rs_prefix r) true in
  let '(t1, err) := client_updates (cl_tree c) pre (rs_updates r) in
  if err then {| cl_tree := t1; cl_synced := cl_synced c; cl_err := true |}
  else {| cl_tree := client_deletes t1 pre (rs_deletes r); cl_synced := cl_synced c; cl_err := false |}.

Definition client_sync (c : cstate) : cstate :=
  if cl_err c then c else {| cl_tree := cl_tree c; cl_synced := true; cl_err := false |}.

(** * Subscribers *)

(** match.branch.update: a registered query matches an updated path when they
    agree (up to globs on either side) on their common length *)
Fixpoint mmatch (q p : path) : bool :=
  match q, p with
  | [], _ => true
  | _, [] => true
  | a :: q', b :: p' => (is_glob a || is_glob b || String.eqb a b) && mmatch q' p'
  end.

Record subscriber := {
  sb_target : string;
  sb_query : path;               (* as registered by subscribe.addSubscription: first entry *)
  sb_more : list path;           (* the registrations of the further subscription entries *)
  sb_queue : list qitem;
  sb_client : cstate
}.

(** every path the subscriber is registered under in the match trie *)
Definition sb_queries (sb : subscriber) : list path := sb_query sb :: sb_more sb.

(** does an updated path reach this subscriber (match.Update over all its
    registrations; the client is offered a notification at most once) *)
Definition sub_matches (sb : subscriber) (full : path) : bool :=
  mmatch (sb_query sb) full || existsb (fun Q => mmatch Q full) (sb_more sb).

(** coalesce.Queue.Insert: a pointer already pending is not queued again *)
Definition qitem_is_leaf (g : nat) (i : qitem) : bool :=
  match i with QLeaf g' => Nat.eqb g g' | _ => false end.

Definition q_insert_leaf (q : list qitem) (g : nat) : list qitem :=
  if existsb (qitem_is_leaf g) q then q else q ++ [QLeaf g].

(** * Pipeline state *)

(** faults: the collector process is gone, or the input left the modelled
    fragment *)
Inductive fault :=
| FPanic (why : N)
| FUnmodelled (why : N).

Record pstate := {
  ps_cache : list (string * tree nat);   (* registered targets *)
  ps_heap : heap;
  ps_gen : nat;                          (* next object id *)
  ps_sub : option subscriber;
  ps_fault : option fault
}.

Definition set_fault (st : pstate) (f : fault) : pstate :=
  {| ps_cache := ps_cache st; ps_heap := ps_heap st; ps_gen := ps_gen st;
     ps_sub := ps_sub st; ps_fault := match ps_fault st with Some f' => Some f' | None => Some f end |}.

(** subscribe.Server.Update -> UpdateNotification -> match -> matchClient.Update *)
Definition feed_leaf (s : option subscriber) (g : nat) (fullpath : path) : option subscriber :=
  match s with
  | None => None
  | Some sb =>
      if sub_matches sb fullpath
      then Some {| sb_target := sb_target sb; sb_query := sb_query sb; sb_more := sb_more sb;
                   sb_queue := q_insert_leaf (sb_queue sb) g; sb_client := sb_client sb |}
      else s
  end.

Definition feed_del (s : option subscriber) (d : delrec) : option subscriber :=
  match s with
  | None => None
  | Some sb =>
      let full := (if str_nonempty (d_target d) then [d_target d] else [])
                  ++ (if str_nonempty (d_origin d) then [d_origin d] else [])
                  ++ to_strings_gp (d_path d) false in
      if sub_matches sb full
      then Some {| sb_target := sb_target sb; sb_query := sb_query sb; sb_more := sb_more sb;
                   sb_queue := sb_queue sb ++ [QDel d]; sb_client := sb_client sb |}
      else s
  end.

(** cache.joinPrefixAndPath: index path without the target name.  [None] is
    the Go panic of [p[1:]] on an empty slice. *)
Definition join_prefix_and_path (pre p : gpath) : option path :=
  match to_strings_gp pre true ++ to_strings_gp p false with
  | [] => None
  | _ :: r => Some r
  end.

Definition full_path (r : leafrec) : path :=
  to_strings_gp (lr_prefix r) true ++ to_strings_gp (lr_path r) false.

(** working state of one Target.GnmiUpdate call *)
Record wstate := {
  w_tree : tree nat;
  w_heap : heap;
  w_gen : nat;
  w_sub : option subscriber;
  w_fault : option fault
}.

Definition w_fail (w : wstate) (f : fault) : wstate :=
  {| w_tree := w_tree w; w_heap := w_heap w; w_gen := w_gen w; w_sub := w_sub w;
     w_fault := match w_fault w with Some f' => Some f' | None => Some f end |}.

(** Target.gnmiUpdate for one update (future threshold is 0 in the collector,
    event-driven emulation is on) followed by t.client(leaf). *)
Definition cache_update_one (w : wstate) (r : leafrec) : wstate :=
  match w_fault w with Some _ => w | None =>
  match join_prefix_and_path (lr_prefix r) (lr_path r) with
  | None => w_fail w (FPanic 1)                       (* p[1:] of an empty slice *)
  | Some [] => w                                      (* "invalid path": error, dropped *)
  | Some ((h :: _) as idx) =>
      if String.eqb h meta_root then w_fail w (FUnmodelled 1)   (* metadata path *)
      else
      match get (w_tree w) idx with
      | Some (Leaf g) =>
          match hget (w_heap w) g with
          | None => w_fail w (FPanic 3)
          | Some old =>
              if lr_ts r <? lr_ts old then w                                  (* ErrStale *)
              else if (lr_ts r =? lr_ts old) && leafrec_eqb old r then w      (* ErrStale *)
              else
                let h' := hset (w_heap w) g r in                              (* oldval.Update(n) *)
                if tv_equal (lr_val old) (lr_val r)
                then {| w_tree := w_tree w; w_heap := h'; w_gen := w_gen w;
                        w_sub := w_sub w; w_fault := None |}                   (* suppressed *)
                else {| w_tree := w_tree w; w_heap := h'; w_gen := w_gen w;
                        w_sub := feed_leaf (w_sub w) g (full_path r); w_fault := None |}
          end
      | Some (Branch _) => w                 (* "corrupt schema with collision" *)
      | None =>
          match add (w_tree w) idx (w_gen w) with
          | None => w                        (* Add error: dropped *)
          | Some t' =>
              {| w_tree := t'; w_heap := hset (w_heap w) (w_gen w) r; w_gen := S (w_gen w);
                 w_sub := feed_leaf (w_sub w) (w_gen w) (full_path r); w_fault := None |}
          end
      end
  end end.

(* DEFECT C01_3 (fixes/C01_3_mixed_encoding_delete.diff, fixed by 6b65ac8): when
   prefix and path of a stored leaf used different encodings (one elem, the other
   the deprecated element), cache.toDeleteNotification built the delete path
   from the elem parts only and dropped the element part.  [true] = the code
   before the fix; [false] = the element side is converted to elems (see
   [path_elems]). *)
Definition defect_C01_3 : bool := false.

Definition path_elems (g : gpath) : list pelem :=
  match g_elem g with
  | [] => map (fun n => {| e_name := n; e_keys := [] |}) (g_element g)
  | es => es
  end.

(** cache.toDeleteNotification ([dropping] = the behaviour of DEFECT C01_3) *)
Definition to_delete_gen (dropping : bool) (old : leafrec) (ts : Z) : delrec :=
  let pre := lr_prefix old in
  let p := lr_path old in
  {| d_ts := ts;
     d_target := g_target pre;
     d_origin := if String.eqb (g_origin pre) "" && str_nonempty (g_origin p)
                 then g_origin p else g_origin pre;
     d_path :=
       match g_elem pre, g_elem p with
       | [], [] => {| g_origin := ""; g_target := ""; g_elem := [];
                      g_element := g_element pre ++ g_element p |}
       | _, _ => {| g_origin := ""; g_target := "";
                    g_elem := if dropping then g_elem pre ++ g_elem p
                              else path_elems pre ++ path_elems p;
                    g_element := [] |}
       end |}.

Definition to_delete : leafrec -> Z -> delrec := to_delete_gen defect_C01_3.

(** Target.gnmiRemove for one delete followed by t.client for every removed leaf *)
Definition cache_delete_one (ts : Z) (pre : gpath) (w : wstate) (d : gpath) : wstate :=
  match w_fault w with Some _ => w | None =>
  match join_prefix_and_path pre d with
  | None => w_fail w (FPanic 1)
  | Some idx =>
      (* an empty index path selects every leaf (older than the delete) *)
      if match idx with h :: _ => String.eqb h meta_root | [] => false end
      then w_fail w (FUnmodelled 2)
      else
        let cond (g : nat) := match hget (w_heap w) g with
                              | Some r => lr_ts r <? ts
                              | None => false
                              end in
        let res := delete_cond (w_tree w) idx cond in
        let sub' :=
          fold_left (fun s pg =>
                       match hget (w_heap w) (snd pg) with
                       | Some old => feed_del s (to_delete old ts)
                       | None => s
                       end) (snd res) (w_sub w) in
        {| w_tree := fst res; w_heap := w_heap w; w_gen := w_gen w; w_sub := sub'; w_fault := None |}
  end end.

(** Target.GnmiUpdate (non-atomic): every update in order, then every delete *)
Definition target_gnmi_update (w : wstate) (n : notification) (pre : gpath) : wstate :=
  let w1 := fold_left (fun w u =>
                         cache_update_one w {| lr_ts := n_ts n; lr_prefix := pre;
                                               lr_path := fst u; lr_val := snd u |})
                      (n_updates n) w in
  fold_left (cache_delete_one (n_ts n) pre) (n_deletes n) w1.

(** the delete cache.Reset announces for one root of the target's tree *)
Definition root_delete (name root : string) : delrec :=
  {| d_ts := 0; d_target := name; d_origin := root;
     d_path := {| g_origin := ""; g_target := ""; g_elem := [{| e_name := "*"; e_keys := [] |}]; g_element := [] |} |}.

(** Cache.Reset -> Target.Reset: every root other than "meta" is cut off the
    tree (no per-leaf delete notifications) and announced with one delete of
    <root>/* each; leaf objects still queued keep their last contents *)
Definition cache_reset (st : pstate) (name : string) : pstate :=
  match assoc name (ps_cache st) with
  | None => st
  | Some t =>
      let roots := match children_at t [] with
                   | Some ks => filter (fun k => negb (String.eqb k meta_root)) ks
                   | None => []
                   end in
      let t' := fold_left (fun t r => fst (delete t [r])) roots t in
      let sub' := fold_left (fun s r => feed_del s (root_delete name r)) roots (ps_sub st) in
      {| ps_cache := aset name t' (ps_cache st); ps_heap := ps_heap st; ps_gen := ps_gen st;
         ps_sub := sub'; ps_fault := ps_fault st |}
  end.

(** manager.handleGNMIUpdate -> Update closure -> Cache.GnmiUpdate *)
Definition ingest (st : pstate) (name : string) (it : item) : pstate :=
  match ps_fault st with Some _ => st | None =>
  match it with
  | ISync => st                                   (* cache.Sync: meta/sync only *)
  | IReset => cache_reset st name                 (* handleUpdates: Recv error -> m.reset *)
  | IUpd n =>
      let n' := stamp name n in
      match n_prefix n', assoc name (ps_cache st) with
      | Some pre, Some t =>
          let w := target_gnmi_update
                     {| w_tree := t; w_heap := ps_heap st; w_gen := ps_gen st;
                        w_sub := ps_sub st; w_fault := None |} n' pre in
          {| ps_cache := aset name (w_tree w) (ps_cache st); ps_heap := w_heap w;
             ps_gen := w_gen w; ps_sub := w_sub w; ps_fault := w_fault w |}
      | _, _ => st                                (* "target not found in cache": dropped *)
      end
  end end.

(** * Subscribe *)

(** a client subscription: SubscriptionList prefix + the paths of its
    Subscription entries (the first one, then the others) *)
Record cquery := { cq_prefix : gpath; cq_path : gpath; cq_more : list gpath }.

Definition cq_paths (q : cquery) : list gpath := cq_path q :: cq_more q.

(** path.CompletePath *)
Definition complete_path (pre p : gpath) : option path :=
  let ip := to_strings_gp pre false in
  if str_nonempty (g_origin pre) && str_nonempty (g_origin p) then None
  else if str_nonempty (g_origin pre) then Some (g_origin pre :: ip ++ to_strings_gp p false)
  else if str_nonempty (g_origin p)
       then match ip with [] => Some (g_origin p :: to_strings_gp p false) | _ => None end
  else Some (ip ++ to_strings_gp p false).

(** subscribe.addSubscription *)
Definition sub_query (q : cquery) : path :=
  to_strings_gp (cq_prefix q) true
  ++ (if String.eqb (g_origin (cq_prefix q)) "" && str_nonempty (g_origin (cq_path q))
      then [g_origin (cq_path q)] else [])
  ++ to_strings_gp (cq_path q) false.

(** the registration of one entry: addSubscription derives each entry's query
    from the SAME prefix strings (an origin taken from one entry's path does not
    carry over to the next entry) *)
Definition entry_query (pre p : gpath) : path :=
  sub_query {| cq_prefix := pre; cq_path := p; cq_more := [] |}.

Definition sub_queries (q : cquery) : list path :=
  sub_query q :: map (entry_query (cq_prefix q)) (cq_more q).

Inductive sub_result :=
| SubOk
| SubInvalid          (* InvalidArgument: missing target *)
| SubNotFound         (* NotFound: no such target *)
| SubQueryError.      (* CompletePath failed *)

(** a leaf reached through two overlapping entries is queued once (same pointer) *)
Fixpoint dedup_nat (l : list nat) : list nat :=
  match l with
  | [] => []
  | g :: l' => g :: filter (fun x => negb (Nat.eqb x g)) (dedup_nat l')
  end.

(** the snapshot walk of processSubscription: for every entry in turn, the
    leaves its completed path selects (cache.Query on the target's tree); a
    path.CompletePath error ends the subscription *)
Fixpoint snapshot_entries (t : tree nat) (pre : gpath) (ps : list gpath) : option (list nat) :=
  match ps with
  | [] => Some []
  | p :: ps' =>
      match complete_path pre p, snapshot_entries t pre ps' with
      | Some fp, Some gs => Some (map snd (query t fp) ++ gs)
      | _, _ => None
      end
  end.

Definition snapshot (t : tree nat) (q : cquery) : option (list nat) :=
  match snapshot_entries t (cq_prefix q) (cq_paths q) with
  | Some gs => Some (dedup_nat gs)
  | None => None
  end.

(** Subscribe (STREAM): registration in the match trie and the snapshot walk,
    taken here as one step (the overlap of the walk with concurrent updates is
    the subject of C04). *)
Definition subscribe_stream (st : pstate) (q : cquery) : pstate * sub_result :=
  let tgt := g_target (cq_prefix q) in
  if String.eqb tgt "" then (st, SubInvalid)
  else match assoc tgt (ps_cache st) with
       | None => (st, SubNotFound)
       | Some t =>
           match snapshot t q with
           | None => (st, SubQueryError)
           | Some gs =>
               ({| ps_cache := ps_cache st; ps_heap := ps_heap st; ps_gen := ps_gen st;
                   ps_sub := Some {| sb_target := tgt; sb_query := sub_query q;
                                     sb_more := map (entry_query (cq_prefix q)) (cq_more q);
                                     sb_queue := map QLeaf gs ++ [QSync];
                                     sb_client := client0 |};
                   ps_fault := ps_fault st |}, SubOk)
           end
       end.

Definition resp_of_leaf (r : leafrec) : resp :=
  {| rs_ts := lr_ts r; rs_prefix := lr_prefix r; rs_updates := [(lr_path r, lr_val r)]; rs_deletes := [] |}.

Definition resp_of_del (d : delrec) : resp :=
  {| rs_ts := d_ts d;
     rs_prefix := {| g_origin := d_origin d; g_target := d_target d; g_elem := []; g_element := [] |};
     rs_updates := []; rs_deletes := [d_path d] |}.

(** sendStreamingResults: one queue entry -> one response -> client *)
Definition deliver (h : heap) (c : cstate) (i : qitem) : cstate :=
  match i with
  | QSync => client_sync c
  | QLeaf g => match hget h g with Some r => client_recv c (resp_of_leaf r) | None => c end
  | QDel d => client_recv c (resp_of_del d)
  end.

Definition send_one (st : pstate) : pstate :=
  match ps_sub st with
  | Some sb =>
      match sb_queue sb with
      | i :: q' =>
          {| ps_cache := ps_cache st; ps_heap := ps_heap st; ps_gen := ps_gen st;
             ps_sub := Some {| sb_target := sb_target sb; sb_query := sb_query sb; sb_more := sb_more sb; sb_queue := q';
                               sb_client := deliver (ps_heap st) (sb_client sb) i |};
             ps_fault := ps_fault st |}
      | [] => st
      end
  | None => st
  end.

(** * Schedules *)

Inductive action :=
| AIngest (name : string)     (* the next message of that target's stream reaches the collector *)
| ASend                       (* the subscriber's sender goroutine forwards one queue entry *)
| ASubscribe.                 (* the client's Subscribe arrives *)

Definition streams := list (string * list item).

Record run_state := {
  rn_st : pstate;
  rn_streams : streams;         (* what each target has not yet delivered *)
  rn_subres : option sub_result
}.

Definition do_subscribe (rs : run_state) (q : cquery) : run_state :=
  match rn_subres rs with
  | Some _ => rs
  | None =>
      let '(st', r) := subscribe_stream (rn_st rs) q in
      {| rn_st := st'; rn_streams := rn_streams rs; rn_subres := Some r |}
  end.

Definition do_action (q : cquery) (rs : run_state) (a : action) : run_state :=
  match a with
  | AIngest name =>
      match assoc name (rn_streams rs) with
      | Some (it :: rest) =>
          {| rn_st := ingest (rn_st rs) name it;
             rn_streams := aset name rest (rn_streams rs); rn_subres := rn_subres rs |}
      | _ => rs
      end
  | ASend => {| rn_st := send_one (rn_st rs); rn_streams := rn_streams rs; rn_subres := rn_subres rs |}
  | ASubscribe => do_subscribe rs q
  end.

(** everything still in flight is delivered: remaining stream messages, the
    subscription if it has not happened yet, the whole queue *)
Definition ingest_rest (st : pstate) (ss : streams) : pstate :=
  fold_left (fun st ns => fold_left (fun st it => ingest st (fst ns) it) (snd ns) st) ss st.

Fixpoint drain_queue (h : heap) (c : cstate) (q : list qitem) : cstate :=
  match q with
  | [] => c
  | i :: q' => drain_queue h (deliver h c i) q'
  end.

Definition drain (st : pstate) : pstate :=
  match ps_sub st with
  | Some sb =>
      {| ps_cache := ps_cache st; ps_heap := ps_heap st; ps_gen := ps_gen st;
         ps_sub := Some {| sb_target := sb_target sb; sb_query := sb_query sb; sb_more := sb_more sb; sb_queue := [];
                           sb_client := drain_queue (ps_heap st) (sb_client sb) (sb_queue sb) |};
         ps_fault := ps_fault st |}
  | None => st
  end.

Definition initial (cache_targets : list string) : pstate :=
  {| ps_cache := map (fun n => (n, None)) cache_targets; ps_heap := []; ps_gen := 0%nat;
     ps_sub := None; ps_fault := None |}.

(** the streams the collector actually receives: those of the targets it
    registered with the target manager *)
Definition managed_streams (managed : list string) (ss : streams) : streams :=
  filter (fun ns => existsb (String.eqb (fst ns)) managed) ss.

Definition quiesce (q : cquery) (rs : run_state) : run_state :=
  let st1 := ingest_rest (rn_st rs) (rn_streams rs) in
  let rs1 := do_subscribe {| rn_st := st1; rn_streams := []; rn_subres := rn_subres rs |} q in
  {| rn_st := drain (rn_st rs1); rn_streams := []; rn_subres := rn_subres rs1 |}.

(** what a client ends up with *)
Inductive view :=
| VCollectorDown                    (* invalid configuration: nothing is served *)
| VFault (f : fault)
| VSubFailed (r : sub_result)
| VClientError (l : list (path * scalar))   (* Recv failed; the tree as it stood *)
| VLeaves (l : list (path * scalar)).

(** leaves of the collector's own "meta" subtree are not target state *)
Definition is_meta_leaf (p : path) : bool :=
  match p with _ :: m :: _ => String.eqb m meta_root | _ => false end.

Definition data_leaves (t : tree scalar) : list (path * scalar) :=
  filter (fun pv => negb (is_meta_leaf (fst pv))) (walk t).

Definition final_view (rs : run_state) : view :=
  match ps_fault (rn_st rs) with
  | Some f => VFault f
  | None =>
      match rn_subres rs, ps_sub (rn_st rs) with
      | Some SubOk, Some sb =>
          if cl_err (sb_client sb) then VClientError (data_leaves (cl_tree (sb_client sb)))
          else VLeaves (data_leaves (cl_tree (sb_client sb)))
      | Some r, _ => VSubFailed r
      | None, _ => VSubFailed SubInvalid
      end
  end.

(** The whole pipeline: collector start-up, then any interleaving [sched] of
    stream arrivals, sender steps and the client's subscription, then
    quiescence. *)
Definition pipeline (cfg : config) (ss : streams) (q : cquery) (sched : list action) : view :=
  match collector_start cfg with
  | None => VCollectorDown
  | Some (managed, cached) =>
      let rs0 := {| rn_st := initial cached; rn_streams := managed_streams (keys managed) ss;
                    rn_subres := None |} in
      final_view (quiesce q (fold_left (do_action q) sched rs0))
  end.

(** the same at an arbitrary point of a run: after [sched], nothing more arrives
    from the targets; the subscription is made if it has not been yet and
    everything queued is delivered.  [run_to] is the state reached (with what
    every target has not yet delivered), [pipeline_at] the client's view then. *)
Definition settle (q : cquery) (rs : run_state) : run_state :=
  let rs1 := do_subscribe {| rn_st := rn_st rs; rn_streams := []; rn_subres := rn_subres rs |} q in
  {| rn_st := drain (rn_st rs1); rn_streams := []; rn_subres := rn_subres rs1 |}.

Definition run_to (cfg : config) (ss : streams) (q : cquery) (sched : list action) : option run_state :=
  match collector_start cfg with
  | None => None
  | Some (managed, cached) =>
      Some (fold_left (do_action q) sched
              {| rn_st := initial cached; rn_streams := managed_streams (keys managed) ss; rn_subres := None |})
  end.

Definition pipeline_at (cfg : config) (ss : streams) (q : cquery) (sched : list action) : view :=
  match run_to cfg ss q sched with
  | None => VCollectorDown
  | Some rs => final_view (settle q rs)
  end.

(** ONCE subscription (what gnmi_cli -qt once shows): the snapshot, decoded *)
Definition once_view (st : pstate) (q : cquery) : view :=
  match ps_fault st with
  | Some f => VFault f
  | None =>
      let tgt := g_target (cq_prefix q) in
      if String.eqb tgt "" then VSubFailed SubInvalid
      else match assoc tgt (ps_cache st) with
           | None => VSubFailed SubNotFound
           | Some t =>
               match snapshot t q with
               | None => VSubFailed SubQueryError
               | Some gs =>
                   let c := drain_queue (ps_heap st) client0 (map QLeaf gs ++ [QSync]) in
                   if cl_err c then VClientError (data_leaves (cl_tree c))
                   else VLeaves (data_leaves (cl_tree c))
               end
           end
  end.

Definition pipeline_once (cfg : config) (ss : streams) (q : cquery) : view :=
  match collector_start cfg with
  | None => VCollectorDown
  | Some (managed, cached) =>
      once_view (ingest_rest (initial cached) (managed_streams (keys managed) ss)) q
  end.

(** * gnmi_cli request construction *)

(** what the CLI sends: mode, prefix target, subscription paths (element
    names; the CLI's own queries carry no keys here) *)
Inductive qmode := MOnce | MPoll | MStream.

Record cli_req := {
  cr_mode : qmode;
  cr_target : string;
  cr_paths : list path
}.

(** the command line *)
Record cli_args := {
  a_target : string;            (* -t *)
  a_queries : list string;      (* -q, already split at commas by flags.StringList *)
  a_qtype : string;             (* -qt *)
  a_proto : string;             (* -proto *)
  a_proto_file : string         (* -proto_file *)
}.

Inductive cli_outcome :=
| CliReq (r : cli_req)
| CliErr (cls : N)              (* executeSubscribe returned an error: exit status 1 *)
| CliExit (cls : N).            (* log.Exitf *)

(** cli.QueryType *)
Definition query_type (s : string) : option qmode :=
  if existsb (String.eqb s) ["o"; "once"; "ONCE"] then Some MOnce
  else if existsb (String.eqb s) ["p"; "polling"; "POLLING"] then Some MPoll
  else if existsb (String.eqb s) ["s"; "streaming"; "STREAMING"] then Some MStream
  else None.

(** gnmi_cli parseQuery with the default delimiter "/" on queries without
    brackets: trim the delimiter at both ends, split at it. *)
Fixpoint split_slash (acc : string) (s : string) : list string :=
  match s with
  | EmptyString => [acc]
  | String c s' =>
      if Ascii.eqb c "/"%char then acc :: split_slash "" s'
      else split_slash (acc ++ String c "") s'
  end.

Fixpoint ltrim_slash (s : string) : string :=
  match s with
  | String c s' => if Ascii.eqb c "/"%char then ltrim_slash s' else s
  | EmptyString => s
  end.

Fixpoint rev_string (acc s : string) : string :=
  match s with
  | EmptyString => acc
  | String c s' => rev_string (String c acc) s'
  end.

Definition trim_slash (s : string) : string :=
  rev_string "" (ltrim_slash (rev_string "" (ltrim_slash s))).

Fixpoint has_bracket (s : string) : bool :=
  match s with
  | EmptyString => false
  | String c s' => Ascii.eqb c "["%char || Ascii.eqb c "]"%char || Ascii.eqb c "\"%char || has_bracket s'
  end.

Definition parse_query (s : string) : path := split_slash "" (trim_slash s).

(** client/gnmi subscribe(): each query becomes a path through
    ygot.StringToPath(strings.Join(q, "/")); an empty element contributes no
    path element.  Queries with brackets or escapes are outside the model. *)
Definition query_to_path (q : path) : path := filter str_nonempty q.

Section Cli.
(** prototext.Unmarshal of a SubscribeRequest followed by client.NewQuery is
    not modelled: [parse txt] is the request it yields ([None]: the text is
    rejected, or is not a SubscribeRequest with a subscribe field and a
    prefix).  [files] is the file system. *)
Variable parse : string -> option cli_req.
Variable files : string -> option string.

(** protoRequestFromFlags *)
Definition proto_request_from_flags (a : cli_args) : option string + N :=
  if str_nonempty (a_proto_file a) then
    if str_nonempty (a_proto a) then inr 1%N
    else match files (a_proto_file a) with Some b => inl (Some b) | None => inr 2%N end
  else inl (Some (a_proto a)).

(** executeSubscribe up to the point where the request is sent *)
Definition cli_request (a : cli_args) : cli_outcome :=
  match proto_request_from_flags a with
  | inr cls => CliErr cls
  | inl None => CliErr 2
  | inl (Some s) =>
      if str_nonempty s then
        (* DEFECT C01_2: the text that is parsed is the -proto flag, not [s];
           with the patch the branch is [parse s] *)
        match parse (if defect_C01_2 then a_proto a else s) with
        | Some r => CliReq r
        | None => CliExit 1
        end
      else
        match query_type (a_qtype a) with
        | None => CliErr 3
        | Some m =>
            match a_queries a with
            | [] => CliErr 4
            | qs =>
                if existsb has_bracket qs then CliErr 99      (* outside the model *)
                else CliReq {| cr_mode := m; cr_target := a_target a;
                               cr_paths := map (fun s => query_to_path (parse_query s)) qs |}
            end
        end
  end.
End Cli.

(** * Request encodings (round 7)

    A request handed over as a proto ([-proto], [-proto_file], a library client
    with [Query.SubReq]) can spell the SAME logical query - target [tgt], index
    path [ql] below it - in ways the flag style cannot write literally: prefix
    and/or path in the deprecated [element] strings, the first name as
    [prefix.origin], an [elem] prefix with an [element] path.  [encode_request]
    is the SubscriptionList each spelling carries; the collector resolves it
    through [sub_query] (registration) and [complete_path] (snapshot). *)
Inductive req_enc :=
| EncElem               (* prefix {target}, path {elem ...}: what the flag style builds *)
| EncPathElement        (* prefix {target}, path {element ...} *)
| EncPrefixElement      (* prefix {target, element q0}, path {elem ...} *)
| EncBothElement        (* prefix {target, element q0}, path {element ...} *)
| EncPrefixOrigin       (* prefix {target, origin q0}, path {elem ...} *)
| EncMixed.             (* prefix {target, elem q0}, path {element ...} *)

Definition names_elem (q : path) : list pelem :=
  map (fun n => {| e_name := n; e_keys := [] |}) q.

Definition mk_gpath (o t : string) (es : list pelem) (el : list string) : gpath :=
  {| g_origin := o; g_target := t; g_elem := es; g_element := el |}.

Definition encode_request (e : req_enc) (tgt : string) (ql : path) : cquery :=
  let canon := {| cq_prefix := mk_gpath "" tgt [] [];
                  cq_path := mk_gpath "" "" (names_elem ql) []; cq_more := [] |} in
  match e, ql with
  | EncElem, _ => canon
  | EncPathElement, _ =>
      {| cq_prefix := mk_gpath "" tgt [] []; cq_path := mk_gpath "" "" [] ql; cq_more := [] |}
  | _, [] => canon
  | EncPrefixElement, q0 :: q =>
      {| cq_prefix := mk_gpath "" tgt [] [q0]; cq_path := mk_gpath "" "" (names_elem q) []; cq_more := [] |}
  | EncBothElement, q0 :: q =>
      {| cq_prefix := mk_gpath "" tgt [] [q0]; cq_path := mk_gpath "" "" [] q; cq_more := [] |}
  | EncPrefixOrigin, q0 :: q =>
      {| cq_prefix := mk_gpath q0 tgt [] []; cq_path := mk_gpath "" "" (names_elem q) []; cq_more := [] |}
  | EncMixed, q0 :: q =>
      {| cq_prefix := mk_gpath "" tgt (names_elem [q0]) []; cq_path := mk_gpath "" "" [] q; cq_more := [] |}
  end.

(** * Specification side: the target's own final state, as a flat map *)

(** the origin a leaf belongs to: the prefix's, else the path's, else the
    gNMI default *)
Definition eff_origin (pre : option gpath) (p : gpath) : string :=
  let po := match pre with Some g => g_origin g | None => "" end in
  if str_nonempty po then po
  else if str_nonempty (g_origin p) then g_origin p
  else openconfig.

(** key of a leaf in the target's state: origin, then the path strings of
    prefix and path *)
Definition tkey (pre : option gpath) (p : gpath) : path :=
  eff_origin pre p :: to_strings pre false ++ to_strings_gp p false.

(** the target's state: every leaf with the timestamp of the notification that
    wrote it (newest value per leaf) *)
Definition tstate := list (path * (Z * tv)).

Fixpoint tlook (f : tstate) (k : path) : option (Z * tv) :=
  match f with
  | [] => None
  | (k', x) :: f' => if path_eqb k k' then Some x else tlook f' k
  end.

Definition tset (f : tstate) (k : path) (ts : Z) (v : tv) : tstate :=
  (k, (ts, v)) :: filter (fun kv => negb (path_eqb (fst kv) k)) f.

(** an update older than what the leaf holds changes nothing; one that is
    not older (same timestamp included) replaces it *)
Definition newer (o : option (Z * tv)) (ts : Z) (v : tv) : option (Z * tv) :=
  match o with
  | Some (t0, v0) => if ts <? t0 then Some (t0, v0) else Some (ts, v)
  | None => Some (ts, v)
  end.

Definition tupd (f : tstate) (k : path) (ts : Z) (v : tv) : tstate :=
  match tlook f k with
  | Some (t0, _) => if ts <? t0 then f else tset f k ts v
  | None => tset f k ts v
  end.

(** a delete removes what is older than it *)
Definition tdel (f : tstate) (d : path) (ts : Z) : tstate :=
  filter (fun kv => negb (qmatch d (fst kv) && (fst (snd kv) <? ts))) f.

(** gNMI semantics of one notification: deletes first, then updates; an update
    the newest-value rule rejects is a no-op and does not keep the other
    operations of its notification from taking effect *)
Definition replay_step (f : tstate) (it : item) : tstate :=
  match it with
  | ISync => f
  | IReset => []              (* a new session starts from nothing *)
  | IUpd n =>
      let f1 := fold_left (fun f d => tdel f (tkey (n_prefix n) d) (n_ts n)) (n_deletes n) f in
      fold_left (fun f u => tupd f (tkey (n_prefix n) (fst u)) (n_ts n) (snd u)) (n_updates n) f1
  end.

Definition replay (s : list item) : tstate := fold_left replay_step s [].

(** a history of several sessions of one target, as the collector meets it:
    each earlier session ends at some point (error, EOF, timeout -- whatever it
    had sent by then is [p]), the manager resets the target, the next session
    starts *)
Fixpoint join_sessions (earlier : list (list item)) (last : list item) : list item :=
  match earlier with
  | [] => last
  | p :: r => p ++ IReset :: join_sessions r last
  end.

(** how the collector presents that state: under the configured target name,
    values as the client library decodes them *)
Definition stamp_paths (name : string) (f : tstate) : list (path * scalar) :=
  flat_map (fun kv => match to_scalar (snd (snd kv)) with
                      | Some s => [(name :: fst kv, s)]
                      | None => []
                      end) f.

(** the leaves a subscription selects *)
Definition selects (q : path) (l : list (path * scalar)) : list (path * scalar) :=
  filter (fun pv => is_prefix q (fst pv)) l.

(** ... a subscription with several entries: the leaves below any of them *)
Definition selects_any (qs : list path) (l : list (path * scalar)) : list (path * scalar) :=
  filter (fun pv => existsb (fun q => is_prefix q (fst pv)) qs) l.

Definition glob_free (p : path) : bool := forallb (fun e => negb (is_glob e)) p.

(** the state keys the updates of one stream message write *)
Definition upd_keys (it : item) : list path :=
  match it with ISync | IReset => [] | IUpd n => map (fun u => tkey (n_prefix n) (fst u)) (n_updates n) end.

Definition item_prefix_origin (it : item) : string :=
  match it with
  | IUpd n => match n_prefix n with Some g => g_origin g | None => "" end
  | ISync | IReset => ""
  end.

(** notification timestamps of a stream strictly increase *)
Fixpoint ts_increasing (last : option Z) (s : list item) : bool :=
  match s with
  | [] => true
  | ISync :: s' => ts_increasing last s'
  | IReset :: s' => ts_increasing None s'
  | IUpd n :: s' =>
      match last with Some l => l <? n_ts n | None => true end && ts_increasing (Some (n_ts n)) s'
  end.


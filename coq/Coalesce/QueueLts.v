(** The coalescing queue under concurrency: any number of producers, one
    consumer (the way subscribe.go uses it), [Close] and cancellation of the
    consumer's context as environment actions.

    Atomic steps are exactly the critical sections and channel operations of
    coalesce.go:

      Insert:  [closed check] ; [locked insert] ; [non-blocking token send, return]
      Next:    loop { [locked next] ; if empty: select { ctx.Done -> return
                                                       | token  -> loop
                                                       | closed -> [Len()] ==0 ? return closed : loop } }
      Close:   one step (lock; close(closed); unlock)
      Cancel:  one step (the context's Done channel is closed)

    Assumed atomic beyond what the mutex gives: a non-blocking receive from /
    send to a channel and the closing of a channel (Go channel operations are
    linearizable).

    The state carries a ghost history [l_hist] (newest event first) of calls,
    returns and critical sections; theorems are stated over it. *)
From Gnmi Require Import Base.Prelude Base.Lts Coalesce.QueueModel.
Open Scope N_scope.

(** producer: between calls / past the closed check / past the locked insert *)
Inductive ppc := PIdle | PChecked (i : item) | PInserted (i : item) (ok : bool).

(** consumer: between calls / about to run next() again / at the select /
    took the closed case, about to call Len() *)
Inductive cpc := CIdle | CTry | CWait | CLen.

Inductive ev :=
| ECallIns (n : nat) (i : item)
| EIns (n : nat) (i : item) (new : bool)      (* locked insert section *)
| ERetIns (n : nat) (i : item) (r : ires)
| ECallNext
| EPop (i : item) (d : N)                     (* locked next section that found an item *)
| ERetNext (r : nres)
| EClose
| ECancel.

Record lstate := mkL {
  l_q : qstate;
  l_pp : nat -> ppc;
  l_cp : cpc;
  l_cancelled : bool;
  l_hist : list ev }.

Definition l_init : lstate := mkL q_init (fun _ => PIdle) CIdle false [].

Inductive sel := SCtx | STok | SClosed.

Inductive label :=
| LCall (n : nat) (i : item)    (* producer n calls Insert(i): the closed check *)
| LP (n : nat)                  (* producer n: its next atomic step *)
| LC                            (* consumer: call Next / locked next / Len *)
| LSel (b : sel)                (* consumer at the select takes case b *)
| LClose
| LCancel.

Definition set_pp (f : nat -> ppc) (n : nat) (p : ppc) : nat -> ppc :=
  fun m => if Nat.eqb m n then p else f m.

(** the locked next of the consumer, from [CIdle] (a new call) or [CTry] *)
Definition cons_next (s : lstate) (h : list ev) : lstate :=
  match locked_next (l_q s) with
  | Some (i, d, q') => mkL q' (l_pp s) CIdle (l_cancelled s) (ERetNext (NItem i d) :: EPop i d :: h)
  | None => mkL (l_q s) (l_pp s) CWait (l_cancelled s) h
  end.

Definition lstep (s : lstate) (l : label) : option lstate :=
  match l with
  | LCall n i =>
      match l_pp s n with
      | PIdle =>
          if q_closed (l_q s)
          then Some (mkL (l_q s) (l_pp s) (l_cp s) (l_cancelled s)
                         (ERetIns n i IClosed :: ECallIns n i :: l_hist s))
          else Some (mkL (l_q s) (set_pp (l_pp s) n (PChecked i)) (l_cp s) (l_cancelled s)
                         (ECallIns n i :: l_hist s))
      | _ => None
      end
  | LP n =>
      match l_pp s n with
      | PIdle => None
      | PChecked i =>
          let '(q', ok) := locked_insert (l_q s) i in
          Some (mkL q' (set_pp (l_pp s) n (PInserted i ok)) (l_cp s) (l_cancelled s)
                    (EIns n i ok :: l_hist s))
      | PInserted i ok =>
          Some (mkL (if ok then send_token (l_q s) else l_q s) (set_pp (l_pp s) n PIdle) (l_cp s)
                    (l_cancelled s) (ERetIns n i (IOk ok) :: l_hist s))
      end
  | LC =>
      match l_cp s with
      | CIdle => Some (cons_next s (ECallNext :: l_hist s))
      | CTry => Some (cons_next s (l_hist s))
      | CWait => None
      | CLen =>
          if Nat.eqb (q_len (l_q s)) 0
          then Some (mkL (l_q s) (l_pp s) CIdle (l_cancelled s) (ERetNext NClosed :: l_hist s))
          else Some (mkL (l_q s) (l_pp s) CTry (l_cancelled s) (l_hist s))
      end
  | LSel b =>
      match l_cp s with
      | CWait =>
          match b with
          | SCtx => if l_cancelled s
                    then Some (mkL (l_q s) (l_pp s) CIdle (l_cancelled s) (ERetNext NCtx :: l_hist s))
                    else None
          | STok => if q_token (l_q s)
                    then Some (mkL (take_token (l_q s)) (l_pp s) CTry (l_cancelled s) (l_hist s))
                    else None
          | SClosed => if q_closed (l_q s)
                       then Some (mkL (l_q s) (l_pp s) CLen (l_cancelled s) (l_hist s))
                       else None
          end
      | _ => None
      end
  | LClose => Some (mkL (q_close (l_q s)) (l_pp s) (l_cp s) (l_cancelled s) (EClose :: l_hist s))
  | LCancel => Some (mkL (l_q s) (l_pp s) (l_cp s) true (ECancel :: l_hist s))
  end.

Definition lreach (s : lstate) : Prop := reachable_from lstep l_init s.

(** ** The linearisation: critical sections of the history, oldest last *)

Inductive lev := LIns (i : item) (new : bool) | LPop (i : item) (d : N).

Fixpoint lin (h : list ev) : list lev :=
  match h with
  | [] => []
  | EIns _ i new :: h' => LIns i new :: lin h'
  | EPop i d :: h' => LPop i d :: lin h'
  | _ :: h' => lin h'
  end.

(** replay of a linearisation (newest first) on the abstract coalescing
    queue; [None] if a recorded insert result or a recorded pop is not what the
    abstract queue gives *)
Fixpoint aq_replay (h : list lev) : option aq :=
  match h with
  | [] => Some []
  | LIns i new :: h' =>
      match aq_replay h' with
      | Some q => if Bool.eqb new (snd (aq_insert i q)) then Some (fst (aq_insert i q)) else None
      | None => None
      end
  | LPop i d :: h' =>
      match aq_replay h' with
      | Some ((j, c) :: q) => if N.eqb i j && N.eqb d c then Some q else None
      | _ => None
      end
  end.

Fixpoint count_ins (h : list lev) : N :=
  match h with
  | [] => 0
  | LIns _ _ :: h' => 1 + count_ins h'
  | LPop _ _ :: h' => count_ins h'
  end.

Fixpoint delivered (h : list lev) : list (item * N) :=
  match h with
  | [] => []
  | LIns _ _ :: h' => delivered h'
  | LPop i d :: h' => (i, d) :: delivered h'
  end.

(** ** The property in terms of the history alone

    [npend i h]: insertions of [i] since its last delivery.
    [fpos i h]: chronological position of the first of them. *)
Fixpoint npend (i : item) (h : list lev) : N :=
  match h with
  | [] => 0
  | LIns j _ :: h' => (if N.eqb i j then 1 else 0) + npend i h'
  | LPop j _ :: h' => if N.eqb i j then 0 else npend i h'
  end.

Fixpoint fpos (i : item) (h : list lev) : option nat :=
  match h with
  | [] => None
  | LIns j _ :: h' =>
      match fpos i h' with
      | Some k => Some k
      | None => if N.eqb i j then Some (List.length h') else None
      end
  | LPop j _ :: h' => if N.eqb i j then None else fpos i h'
  end.

Definition pos (h : list lev) (i : item) : nat :=
  match fpos i h with Some k => k | None => O end.

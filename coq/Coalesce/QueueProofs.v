(** Proofs about the coalescing queue model and its transition system. *)
From Gnmi Require Import Base.Prelude Base.Lts Coalesce.QueueModel Coalesce.QueueLts.
Open Scope N_scope.

Lemma insert_after_close_refused s n i s' :
  q_closed (l_q s) = true -> lstep s (LCall n i) = Some s' ->
  l_q s' = l_q s /\ l_pp s' n = PIdle /\
  l_hist s' = ERetIns n i IClosed :: ECallIns n i :: l_hist s.
Proof.
  intros Hc. cbn. destruct (l_pp s n) eqn:E; try discriminate.
  rewrite Hc. intros H; inversion H; subst; cbn. auto.
Qed.

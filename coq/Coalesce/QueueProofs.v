(** Proofs about the coalescing queue model and its transition system. *)
From Coq Require Import Sorting.Sorted.
From Gnmi Require Import Base.Prelude Base.Lts Coalesce.QueueModel Coalesce.QueueLts.
Open Scope N_scope.
Local Arguments N.add : simpl never.

(** * The [coalesced] map against the abstract queue *)

Lemma aq_mem_cget i m : aq_mem i m = true <-> cget i m <> None.
Proof.
  induction m as [|[k c] m IH]; cbn.
  - split; [discriminate|congruence].
  - destruct (N.eqb i k); cbn; [split; [discriminate|reflexivity]|exact IH].
Qed.

Lemma aq_mem_false_cget i m : aq_mem i m = false <-> cget i m = None.
Proof.
  induction m as [|[k c] m IH]; cbn.
  - split; reflexivity.
  - destruct (N.eqb i k); cbn; [split; discriminate|exact IH].
Qed.

Lemma aq_mem_In i m : aq_mem i m = true <-> In i (map fst m).
Proof.
  induction m as [|[k c] m IH]; cbn.
  - split; [discriminate|tauto].
  - rewrite orb_true_iff, IH, N.eqb_eq. split; intros [H|H]; auto.
Qed.

Lemma cset_bump i c m : cget i m = Some c -> cset i (c + 1) m = aq_bump i m.
Proof.
  induction m as [|[k c'] m IH]; cbn; [discriminate|].
  destruct (N.eqb i k); intros H.
  - inversion H; subst; reflexivity.
  - rewrite IH; auto.
Qed.

Lemma cset_append i v m : cget i m = None -> cset i v m = m ++ [(i, v)].
Proof.
  induction m as [|[k c'] m IH]; cbn; [reflexivity|].
  destruct (N.eqb i k); [discriminate|]. intros H. rewrite IH; auto.
Qed.

Lemma keys_bump i m : map fst (aq_bump i m) = map fst m.
Proof.
  induction m as [|[k c] m IH]; cbn; [reflexivity|].
  destruct (N.eqb i k); cbn; [reflexivity|]. now rewrite IH.
Qed.

(** * Well-formedness: the map's keys are the queue, without repetition.
    (Go's map has no order; the association list of the model happens to be
    kept in queue order, which makes the abstraction the list itself.) *)

Definition qwf (s : qstate) : Prop :=
  map fst (q_counts s) = q_queue s /\ NoDup (q_queue s).

Lemma qwf_init : qwf q_init.
Proof. split; [reflexivity|constructor]. Qed.

Lemma q_abs_counts s : qwf s -> q_abs s = q_counts s.
Proof.
  destruct s as [qu m t c]. unfold qwf, q_abs; cbn. intros [Hk Hn]. subst qu.
  induction m as [|[k v] m IH]; cbn; [reflexivity|].
  rewrite N.eqb_refl. f_equal.
  inversion Hn as [|? ? Hni Hn']; subst.
  rewrite <- IH at 2 by assumption.
  apply map_ext_in. intros a Ha.
  destruct (N.eqb_spec a k) as [->|]; [contradiction|reflexivity].
Qed.

Lemma locked_insert_spec s i :
  qwf s ->
  let r := locked_insert s i in
  qwf (fst r) /\
  q_counts (fst r) = fst (aq_insert i (q_counts s)) /\
  snd r = snd (aq_insert i (q_counts s)) /\
  q_token (fst r) = q_token s /\ q_closed (fst r) = q_closed s.
Proof.
  destruct s as [qu m t c]. unfold qwf, locked_insert, aq_insert; cbn. intros [Hk Hn]. subst qu.
  destruct (cget i m) as [v|] eqn:E; cbn.
  - assert (Hm : aq_mem i m = true) by (apply aq_mem_cget; congruence).
    rewrite Hm; cbn. rewrite (cset_bump _ _ _ E), keys_bump. auto.
  - assert (Hm : aq_mem i m = false) by (apply aq_mem_false_cget; assumption).
    rewrite Hm; cbn. rewrite (cset_append _ _ _ E), map_app; cbn.
    repeat split; auto.
    apply NoDup_app_intro_single; auto.
    intros Hin. apply aq_mem_In in Hin. congruence.
Qed.

Lemma locked_next_spec s :
  qwf s ->
  match locked_next s with
  | None => q_counts s = [] /\ q_queue s = []
  | Some (i, d, s') =>
      qwf s' /\ q_counts s = (i, d) :: q_counts s' /\
      q_token s' = q_token s /\ q_closed s' = q_closed s
  end.
Proof.
  destruct s as [qu m t c]. unfold qwf, locked_next; cbn. intros [Hk Hn]. subst qu.
  destruct m as [|[k v] m]; cbn; [auto|].
  rewrite N.eqb_refl.
  inversion Hn; subst.
  destruct m as [|kv m]; cbn; repeat split; auto; constructor.
Qed.

(** * The abstract queue against the history: order of first pending
    insertion, exact duplicate counts *)

Record hist_ok (h : list lev) (q : aq) : Prop := {
  ho_nodup : NoDup (map fst q);
  ho_mem : forall i, In i (map fst q) <-> fpos i h <> None;
  ho_cnt : forall i d, In (i, d) q -> npend i h = 1 + d;
  ho_zero : forall i, ~ In i (map fst q) -> npend i h = 0;
  ho_bound : forall i k, fpos i h = Some k -> (k < List.length h)%nat;
  ho_sorted : StronglySorted lt (map (pos h) (map fst q)) }.

Lemma StronglySorted_snoc (l : list nat) (a : nat) :
  StronglySorted lt l -> Forall (fun x => (x < a)%nat) l -> StronglySorted lt (l ++ [a]).
Proof.
  induction l as [|x l IH]; cbn; intros Hs Hf.
  - constructor; constructor.
  - inversion Hs; subst. inversion Hf; subst. constructor; auto.
    apply Forall_app; split; auto.
Qed.

Lemma In_bump i d j m :
  In (i, d) (aq_bump j m) -> NoDup (map fst m) ->
  (i <> j /\ In (i, d) m) \/ (i = j /\ exists d', d = d' + 1 /\ In (i, d') m).
Proof.
  induction m as [|[k c] m IH]; cbn; [tauto|].
  intros H Hn. inversion Hn as [|? ? Hni Hn']; subst.
  destruct (N.eqb_spec j k) as [->|Hne].
  - destruct H as [H|H].
    + inversion H; subst. right. split; auto. exists c. auto.
    + left. split; auto. intros ->. apply Hni. apply (in_map fst) in H. exact H.
  - destruct H as [H|H].
    + inversion H; subst. left. split; auto.
    + destruct (IH H Hn') as [[? ?]|[? (d' & ? & ?)]]; [left|right]; eauto.
Qed.

Lemma aq_replay_hist_ok h : forall q, aq_replay h = Some q -> hist_ok h q.
Proof.
  induction h as [|e h IH]; cbn; intros q Hq.
  - inversion Hq; subst.
    split; cbn; [constructor|intros i; split; [tauto|congruence]|tauto|reflexivity|discriminate|constructor].
  - destruct e as [j new|j d].
    + destruct (aq_replay h) as [q0|] eqn:E; [|discriminate].
      specialize (IH q0 eq_refl). destruct IH as [Hnd Hmem Hcnt Hz Hb Hs].
      destruct (Bool.eqb new (snd (aq_insert j q0))); [|discriminate].
      inversion Hq; subst q; clear Hq.
      unfold aq_insert. destruct (aq_mem j q0) eqn:Em; cbn.
      * (* coalesced *)
        assert (Hj : In j (map fst q0)) by (apply aq_mem_In; assumption).
        assert (Hfj : fpos j h <> None) by (apply Hmem; assumption).
        assert (Hkeep : forall i, In i (map fst q0) -> fpos i (LIns j new :: h) = fpos i h).
        { intros i Hi. cbn. apply Hmem in Hi. destruct (fpos i h); congruence. }
        split.
        -- rewrite keys_bump. assumption.
        -- intros i. rewrite keys_bump. cbn. rewrite Hmem.
           destruct (fpos i h) eqn:Ei; [split; congruence|].
           destruct (N.eqb_spec i j) as [->|]; [congruence|tauto].
        -- intros i d Hin. cbn.
           destruct (In_bump _ _ _ _ Hin Hnd) as [[Hne Hi]|[-> (d' & -> & Hi)]].
           ++ apply N.eqb_neq in Hne. rewrite Hne. rewrite (Hcnt _ _ Hi). lia.
           ++ rewrite N.eqb_refl. rewrite (Hcnt _ _ Hi). lia.
        -- intros i. rewrite keys_bump. intros Hni. cbn.
           destruct (N.eqb_spec i j) as [->|]; [contradiction|]. rewrite (Hz _ Hni). lia.
        -- intros i k. cbn. destruct (fpos i h) eqn:Ei.
           ++ intros H; inversion H; subst. apply Hb in Ei. lia.
           ++ destruct (N.eqb i j); [|discriminate]. intros H; inversion H; subst. lia.
        -- rewrite keys_bump.
           rewrite (map_ext_in (pos (LIns j new :: h)) (pos h)); [assumption|].
           intros i Hi. unfold pos. rewrite (Hkeep _ Hi). reflexivity.
      * (* a new item goes last *)
        assert (Hj : ~ In j (map fst q0)) by (rewrite <- aq_mem_In; congruence).
        assert (Hfj : fpos j h = None).
        { destruct (fpos j h) eqn:Ej; [|reflexivity]. exfalso. apply Hj, Hmem. congruence. }
        assert (Hkeep : forall i, In i (map fst q0) -> fpos i (LIns j new :: h) = fpos i h).
        { intros i Hi. cbn. apply Hmem in Hi. destruct (fpos i h); congruence. }
        split.
        -- rewrite map_app; cbn. apply NoDup_app_intro_single; assumption.
        -- intros i. rewrite map_app, in_app_iff; cbn. rewrite Hmem.
           destruct (fpos i h) eqn:Ei.
           ++ split; [congruence|]. intros _. left. congruence.
           ++ destruct (N.eqb_spec i j) as [->|].
              ** split; [congruence|]. intros _. right. auto.
              ** split; [|congruence]. intros [H|[H|[]]]; congruence.
        -- intros i d. rewrite in_app_iff; cbn. intros [Hi|[Hi|[]]].
           ++ assert (i <> j). { intros ->. apply Hj. apply (in_map fst) in Hi. exact Hi. }
              destruct (N.eqb_spec i j); [contradiction|]. rewrite (Hcnt _ _ Hi). lia.
           ++ inversion Hi; subst. rewrite N.eqb_refl. rewrite (Hz _ Hj). lia.
        -- intros i. rewrite map_app, in_app_iff; cbn. intros Hni.
           destruct (N.eqb_spec i j) as [->|]; [tauto|]. rewrite Hz; [lia|tauto].
        -- intros i k. cbn. destruct (fpos i h) eqn:Ei.
           ++ intros H; inversion H; subst. apply Hb in Ei. lia.
           ++ destruct (N.eqb i j); [|discriminate]. intros H; inversion H; subst. lia.
        -- rewrite map_app, map_app; cbn. apply StronglySorted_snoc.
           ++ rewrite (map_ext_in (pos (LIns j new :: h)) (pos h)); [assumption|].
              intros i Hi. unfold pos. rewrite (Hkeep _ Hi). reflexivity.
           ++ apply Forall_forall. intros x Hx. apply in_map_iff in Hx.
              destruct Hx as (i & <- & Hi).
              unfold pos at 2. cbn. rewrite Hfj, N.eqb_refl.
              unfold pos. rewrite (Hkeep _ Hi).
              apply Hmem in Hi. destruct (fpos i h) eqn:Ei; [|congruence].
              apply Hb in Ei. exact Ei.
    + destruct (aq_replay h) as [[|[j' c] q0]|] eqn:E; try discriminate.
      specialize (IH _ eq_refl). destruct IH as [Hnd Hmem Hcnt Hz Hb Hs].
      destruct (N.eqb_spec j j') as [<-|]; cbn in Hq; [|discriminate].
      destruct (N.eqb_spec d c) as [<-|]; cbn in Hq; [|discriminate].
      inversion Hq; subst q; clear Hq.
      cbn in Hnd. inversion Hnd as [|? ? Hnj Hnd']; subst.
      split.
      * assumption.
      * intros i. cbn. destruct (N.eqb_spec i j) as [->|Hne].
        -- split; [contradiction|congruence].
        -- rewrite <- Hmem. cbn. split; [auto|]. intros [H|H]; [congruence|assumption].
      * intros i d' Hi. cbn.
        assert (i <> j). { intros ->. apply Hnj. apply (in_map fst) in Hi. exact Hi. }
        destruct (N.eqb_spec i j); [contradiction|]. apply Hcnt. right. assumption.
      * intros i Hni. cbn. destruct (N.eqb_spec i j) as [->|Hne]; [reflexivity|].
        apply Hz. cbn. intros [H|H]; [congruence|contradiction].
      * intros i k. cbn. destruct (N.eqb i j); [discriminate|]. intros H. apply Hb in H. lia.
      * cbn in Hs. inversion Hs as [|? ? Hs' _]; subst.
        rewrite (map_ext_in (pos (LPop j d :: h)) (pos h)); [assumption|].
        intros i Hi. unfold pos. cbn.
        destruct (N.eqb_spec i j) as [->|]; [contradiction|reflexivity].
Qed.

(** conservation on the abstract level *)
Lemma weight_app a b : weight (a ++ b) = weight a + weight b.
Proof. induction a as [|[i d] a IH]; cbn; [reflexivity|]. rewrite IH. lia. Qed.

Lemma weight_bump i q : aq_mem i q = true -> weight (aq_bump i q) = 1 + weight q.
Proof.
  induction q as [|[k c] q IH]; cbn; [discriminate|].
  destruct (N.eqb i k); cbn; intros H; [lia|]. rewrite IH by assumption. lia.
Qed.

Lemma aq_replay_conservation h : forall q,
  aq_replay h = Some q -> weight (delivered h) + weight q = count_ins h.
Proof.
  induction h as [|e h IH]; cbn; intros q Hq.
  - inversion Hq; reflexivity.
  - destruct e as [j new|j d].
    + destruct (aq_replay h) as [q0|]; [|discriminate].
      destruct (Bool.eqb new (snd (aq_insert j q0))); [|discriminate].
      inversion Hq; subst q. specialize (IH q0 eq_refl).
      unfold aq_insert. destruct (aq_mem j q0) eqn:Em; cbn.
      * rewrite weight_bump by assumption. lia.
      * rewrite weight_app. cbn. lia.
    + destruct (aq_replay h) as [[|[j' c] q0]|]; try discriminate.
      destruct (N.eqb_spec j j') as [<-|]; cbn in Hq; [|discriminate].
      destruct (N.eqb_spec d c) as [<-|]; cbn in Hq; [|discriminate].
      inversion Hq; subst q. specialize (IH _ eq_refl). cbn in IH |- *. lia.
Qed.

(** * Invariants of the transition system, over all schedules *)

Record linv (s : lstate) : Prop := {
  li_wf : qwf (l_q s);
  li_ref : aq_replay (lin (l_hist s)) = Some (q_counts (l_q s));
  li_wake : l_cp s = CWait -> q_queue (l_q s) <> [] ->
            q_token (l_q s) = true \/ exists n i, l_pp s n = PInserted i true;
  li_len : l_cp s = CLen -> q_closed (l_q s) = true;
  li_closed : q_closed (l_q s) = true <-> In EClose (l_hist s);
  li_cancel : l_cancelled s = true <-> In ECancel (l_hist s) }.

Lemma linv_init : linv l_init.
Proof.
  split; cbn; try discriminate; try (split; [discriminate|tauto]).
  - apply qwf_init.
  - reflexivity.
Qed.

Lemma set_pp_same f n p : set_pp f n p n = p.
Proof. unfold set_pp. now rewrite Nat.eqb_refl. Qed.

Lemma set_pp_other f n p m : m <> n -> set_pp f n p m = f m.
Proof. unfold set_pp. intros H. apply Nat.eqb_neq in H. now rewrite H. Qed.

Lemma keys_aq_insert_nonempty i q : map fst (fst (aq_insert i q)) <> [] .
Proof.
  unfold aq_insert. destruct (aq_mem i q) eqn:E; cbn.
  - rewrite keys_bump. destruct q; [discriminate|cbn; congruence].
  - rewrite map_app; cbn. destruct (map fst q); cbn; congruence.
Qed.

Lemma iff_in_cons (P : Prop) (x e : ev) h : e <> x -> (P <-> In x h) -> (P <-> In x (e :: h)).
Proof. intros Hne [H1 H2]. split; [right; auto|intros [H|H]; [contradiction|auto]]. Qed.

Ltac hist_iff H := cbn -[In]; repeat (apply iff_in_cons; [discriminate|]); exact H.
Ltac dinv H := destruct H as [Hwf Href Hwake Hlen Hcl Hca].

Lemma q_close_fields q :
  q_queue (q_close q) = q_queue q /\ q_counts (q_close q) = q_counts q
  /\ q_token (q_close q) = q_token q /\ q_closed (q_close q) = true.
Proof. unfold q_close. destruct (q_closed q) eqn:E; cbn; auto. Qed.

Lemma linv_cons_next s h :
  linv s -> lin h = lin (l_hist s) ->
  (In EClose h <-> In EClose (l_hist s)) -> (In ECancel h <-> In ECancel (l_hist s)) ->
  linv (cons_next s h).
Proof.
  intros Hinv Hlin Hic Hia. dinv Hinv.
  pose proof (locked_next_spec (l_q s) Hwf) as Hn.
  unfold cons_next.
  destruct (locked_next (l_q s)) as [[[i d] q']|] eqn:En.
  - destruct Hn as (Hwf' & Hc' & Ht & Hcz). split; cbn -[In]; auto; try discriminate.
    + rewrite Hlin, Href, Hc', !N.eqb_refl. reflexivity.
    + rewrite Hcz. repeat (apply iff_in_cons; [discriminate|]). rewrite Hic. exact Hcl.
    + repeat (apply iff_in_cons; [discriminate|]). rewrite Hia. exact Hca.
  - destruct Hn as (Hc0 & Hq0). split; cbn -[In]; auto; try discriminate.
    + rewrite Hlin. exact Href.
    + rewrite Hic. exact Hcl.
    + rewrite Hia. exact Hca.
Qed.

Lemma linv_step s l s' : linv s -> lstep s l = Some s' -> linv s'.
Proof.
  intros Hinv Hs.
  destruct l as [n i|n| |b| |]; cbn in Hs.
  - (* LCall *)
    destruct (l_pp s n) eqn:Ep; try discriminate.
    destruct (q_closed (l_q s)) eqn:Ec; inversion Hs; subst; clear Hs; dinv Hinv; split; cbn -[In]; auto.
    + hist_iff Hcl.
    + hist_iff Hca.
    + intros Hw Hq. destruct (Hwake Hw Hq) as [H|(n0 & i0 & H)]; [auto|].
      right. exists n0, i0. rewrite set_pp_other; [assumption|]. intros ->. congruence.
    + hist_iff Hcl.
    + hist_iff Hca.
  - (* LP *)
    destruct (l_pp s n) as [|i|i ok] eqn:Ep; try discriminate.
    + (* locked insert *)
      pose proof (locked_insert_spec (l_q s) i (li_wf _ Hinv)) as Hli. cbn zeta in Hli.
      destruct (locked_insert (l_q s) i) as [q' ok] eqn:El. cbn in Hli.
      destruct Hli as (Hwf' & Hc' & Hok & Ht & Hcz).
      inversion Hs; subst s'; clear Hs. dinv Hinv. split; cbn -[In]; auto.
      * rewrite Href, Hc', Hok, Bool.eqb_reflx. reflexivity.
      * intros Hw Hq. destruct ok.
        -- right. exists n, i. apply set_pp_same.
        -- assert (Hq0 : q_queue (l_q s) <> []).
           { destruct Hwf as [Hk _]. destruct Hwf' as [Hk' _].
             rewrite <- Hk. rewrite <- Hk', Hc' in Hq.
             unfold aq_insert in Hq, Hok. destruct (aq_mem i (q_counts (l_q s))); cbn in Hok; [|discriminate].
             cbn in Hq. rewrite keys_bump in Hq. exact Hq. }
           rewrite Ht. destruct (Hwake Hw Hq0) as [H|(n0 & i0 & H)]; [auto|].
           right. exists n0, i0. rewrite set_pp_other; [assumption|]. intros ->. congruence.
      * rewrite Hcz. exact Hlen.
      * rewrite Hcz. hist_iff Hcl.
      * hist_iff Hca.
    + (* token, return *)
      inversion Hs; subst s'; clear Hs. dinv Hinv.
      split; cbn -[In].
      * destruct ok; [|assumption]. exact Hwf.
      * destruct ok; exact Href.
      * intros Hw Hne. destruct ok; cbn; [left; reflexivity|].
        destruct (Hwake Hw Hne) as [H|(n0 & i0 & H)]; [auto|].
        right. exists n0, i0. rewrite set_pp_other; [assumption|]. intros ->.
        rewrite Ep in H. inversion H.
      * destruct ok; exact Hlen.
      * destruct ok; hist_iff Hcl.
      * hist_iff Hca.
  - (* LC *)
    destruct (l_cp s) eqn:Ec; try discriminate.
    + inversion Hs; subst s'. apply linv_cons_next; cbn; auto.
      * split; [intros [H|H]; [discriminate|auto]|auto].
      * split; [intros [H|H]; [discriminate|auto]|auto].
    + inversion Hs; subst s'. apply linv_cons_next; cbn; auto; tauto.
    + destruct (Nat.eqb (q_len (l_q s)) 0); inversion Hs; subst s'; dinv Hinv; split; cbn -[In]; auto; try discriminate.
      * hist_iff Hcl.
      * hist_iff Hca.
  - (* LSel *)
    destruct (l_cp s) eqn:Ec; try discriminate.
    destruct b.
    + destruct (l_cancelled s) eqn:Ea; inversion Hs; subst s'; dinv Hinv; split; cbn -[In]; auto; try discriminate.
      * hist_iff Hcl.
      * apply iff_in_cons; [discriminate|]. split; [intros _; apply Hca, Ea|reflexivity].
    + destruct (q_token (l_q s)) eqn:Et; inversion Hs; subst s'; dinv Hinv; split; cbn -[In]; auto; try discriminate.
    + destruct (q_closed (l_q s)) eqn:Et; inversion Hs; subst s'; dinv Hinv; split; cbn -[In]; auto; try discriminate.
  - (* LClose *)
    inversion Hs; subst s'; clear Hs. dinv Hinv.
    destruct (q_close_fields (l_q s)) as (Hq & Hc & Ht & Hz).
    split; cbn -[In].
    * unfold qwf. rewrite Hq, Hc. exact Hwf.
    * rewrite Hc. exact Href.
    * rewrite Hq, Ht. exact Hwake.
    * intros _. exact Hz.
    * rewrite Hz. split; [intros _; left; reflexivity|reflexivity].
    * hist_iff Hca.
  - (* LCancel *)
    inversion Hs; subst s'; clear Hs. dinv Hinv. split; cbn -[In]; auto.
    * hist_iff Hcl.
    * split; [intros _; left; reflexivity|reflexivity].
Qed.

Theorem linv_reachable s : lreach s -> linv s.
Proof. apply (invariant lstep linv l_init linv_init). intros; eapply linv_step; eauto. Qed.

(** * The clauses of C11 *)

(** Refinement: along every schedule the critical sections, in the order they
    happened, are a run of the abstract coalescing queue -- every locked insert
    reports "new" exactly when the abstract queue does not hold the item, every
    pop returns the abstract queue's head with its count -- and the concrete
    state abstracts to the abstract queue's state. *)
Theorem refinement s :
  lreach s -> aq_replay (lin (l_hist s)) = Some (q_abs (l_q s)).
Proof.
  intros Hr. destruct (linv_reachable s Hr) as [Hwf Href _ _ _ _].
  rewrite (q_abs_counts _ Hwf). exact Href.
Qed.

(** The queue holds exactly the items with an undelivered insertion, without
    repetition, in the order of their first undelivered insertion. *)
Theorem fifo_first_insertion s :
  lreach s ->
  let h := lin (l_hist s) in
  NoDup (q_queue (l_q s)) /\
  (forall i, In i (q_queue (l_q s)) <-> fpos i h <> None) /\
  StronglySorted lt (map (pos h) (q_queue (l_q s))).
Proof.
  intros Hr h. destruct (linv_reachable s Hr) as [[Hk Hn] Href _ _ _ _].
  destruct (aq_replay_hist_ok _ _ Href) as [Hnd Hmem _ _ _ Hs].
  rewrite Hk in *. auto.
Qed.

(** ... and [Next] delivers the item whose first undelivered insertion is the
    oldest, with exactly the number of further insertions made since. *)
Theorem next_delivers_first s i d q' :
  lreach s -> l_cp s = CIdle \/ l_cp s = CTry ->
  locked_next (l_q s) = Some (i, d, q') ->
  let h := lin (l_hist s) in
  (exists s' pre, lstep s LC = Some s' /\ l_cp s' = CIdle /\ l_q s' = q' /\
                  l_hist s' = ERetNext (NItem i d) :: EPop i d :: pre /\
                  lin (l_hist s') = LPop i d :: h) /\
  fpos i h <> None /\
  (forall j, fpos j h <> None -> (pos h i <= pos h j)%nat) /\
  npend i h = 1 + d.
Proof.
  intros Hr Hcp Hn h. destruct (linv_reachable s Hr) as [Hwf Href _ _ _ _].
  pose proof (locked_next_spec (l_q s) Hwf) as Hsp. rewrite Hn in Hsp.
  destruct Hsp as (_ & Hc & _).
  destruct (aq_replay_hist_ok _ _ Href) as [Hnd Hmem Hcnt _ _ Hs].
  rewrite Hc in *. cbn in Hs, Hmem, Hnd.
  split; [|split; [|split]].
  - cbn. unfold cons_next. destruct Hcp as [E|E]; rewrite E, Hn; eexists; eexists;
      (split; [reflexivity|]); cbn; auto.
  - apply Hmem. left. reflexivity.
  - intros j Hj. apply Hmem in Hj. destruct Hj as [<-|Hj]; [lia|].
    inversion Hs as [|? ? _ Hall]; subst.
    rewrite Forall_forall in Hall.
    assert (pos h i < pos h j)%nat; [|lia].
    apply Hall. apply in_map. exact Hj.
  - apply Hcnt. left. reflexivity.
Qed.

(** A step of the consumer from outside the select returns an item only by
    popping it, so the theorem above covers every delivery. *)
Lemma next_none_waits s :
  l_cp s = CIdle \/ l_cp s = CTry -> locked_next (l_q s) = None ->
  exists s', lstep s LC = Some s' /\ l_cp s' = CWait /\ l_q s' = l_q s.
Proof.
  intros Hcp Hn. cbn. unfold cons_next. destruct Hcp as [E|E]; rewrite E, Hn; eexists; cbn; auto.
Qed.

(** Duplicate counts are exact: the counter of a pending item is the number of
    insertions since its first undelivered one; an item that is not pending has
    no undelivered insertion. *)
Theorem dup_exact s :
  lreach s ->
  let h := lin (l_hist s) in
  (forall i c, cget i (q_counts (l_q s)) = Some c -> npend i h = 1 + c) /\
  (forall i, ~ In i (q_queue (l_q s)) -> npend i h = 0).
Proof.
  intros Hr h. destruct (linv_reachable s Hr) as [[Hk Hn] Href _ _ _ _].
  destruct (aq_replay_hist_ok _ _ Href) as [Hnd _ Hcnt Hz _ _].
  split.
  - intros i c Hg. apply Hcnt. clear - Hg.
    induction (q_counts (l_q s)) as [|[k v] m IH]; cbn in *; [discriminate|].
    destruct (N.eqb_spec i k) as [->|]; [inversion Hg; auto|auto].
  - intros i Hi. apply Hz. rewrite Hk. exact Hi.
Qed.

(** Conservation, in every reachable state of every schedule. *)
Theorem conservation s :
  lreach s ->
  weight (delivered (lin (l_hist s))) + weight (q_abs (l_q s)) = count_ins (lin (l_hist s)).
Proof. intros Hr. apply aq_replay_conservation, refinement, Hr. Qed.

(** Closing and cancelling are for ever. *)
Lemma closed_step s l s' : lstep s l = Some s' -> q_closed (l_q s) = true -> q_closed (l_q s') = true.
Proof.
  destruct l as [n i|n| |b| |]; cbn; intros Hs Hc.
  - destruct (l_pp s n); try discriminate. rewrite Hc in Hs. inversion Hs; subst; auto.
  - destruct (l_pp s n) as [|i|i ok]; try discriminate.
    + unfold locked_insert in Hs. destruct (cget i (q_counts (l_q s))); inversion Hs; subst; auto.
    + inversion Hs; subst; cbn. destruct ok; auto.
  - unfold cons_next, locked_next in Hs.
    destruct (l_cp s); try discriminate.
    + destruct (q_queue (l_q s)) as [|x [|y r]]; inversion Hs; subst; auto.
    + destruct (q_queue (l_q s)) as [|x [|y r]]; inversion Hs; subst; auto.
    + destruct (Nat.eqb (q_len (l_q s)) 0); inversion Hs; subst; auto.
  - destruct (l_cp s); try discriminate. destruct b.
    + destruct (l_cancelled s); inversion Hs; subst; auto.
    + destruct (q_token (l_q s)); inversion Hs; subst; auto.
    + rewrite Hc in Hs. inversion Hs; subst; auto.
  - inversion Hs; subst; cbn. unfold q_close. rewrite Hc. exact Hc.
  - inversion Hs; subst; auto.
Qed.

Theorem closed_forever s s' :
  reachable_from lstep s s' -> q_closed (l_q s) = true -> q_closed (l_q s') = true.
Proof.
  intros Hr Hc. apply (invariant lstep (fun x => q_closed (l_q x) = true) s); auto.
  intros; eapply closed_step; eauto.
Qed.

Lemma cancelled_step s l s' : lstep s l = Some s' -> l_cancelled s = true -> l_cancelled s' = true.
Proof.
  destruct l as [n i|n| |b| |]; cbn; intros Hs Hc.
  - destruct (l_pp s n); try discriminate. destruct (q_closed (l_q s)); inversion Hs; subst; auto.
  - destruct (l_pp s n) as [|i|i ok]; try discriminate.
    + destruct (locked_insert (l_q s) i); inversion Hs; subst; auto.
    + inversion Hs; subst; auto.
  - unfold cons_next in Hs.
    destruct (l_cp s); try discriminate.
    + destruct (locked_next (l_q s)) as [[[? ?] ?]|]; inversion Hs; subst; auto.
    + destruct (locked_next (l_q s)) as [[[? ?] ?]|]; inversion Hs; subst; auto.
    + destruct (Nat.eqb (q_len (l_q s)) 0); inversion Hs; subst; auto.
  - destruct (l_cp s); try discriminate. destruct b.
    + rewrite Hc in Hs. inversion Hs; subst; auto.
    + destruct (q_token (l_q s)); inversion Hs; subst; auto.
    + destruct (q_closed (l_q s)); inversion Hs; subst; auto.
  - inversion Hs; subst; auto.
  - inversion Hs; subst; auto.
Qed.

Theorem cancelled_forever s s' :
  reachable_from lstep s s' -> l_cancelled s = true -> l_cancelled s' = true.
Proof.
  intros Hr Hc. apply (invariant lstep (fun x => l_cancelled x = true) s); auto.
  intros; eapply cancelled_step; eauto.
Qed.

(** Insertions after close are refused: a call whose closed check runs in a
    closed state changes nothing and returns the closed-queue error. *)
Lemma insert_after_close_refused s n i s' :
  q_closed (l_q s) = true -> lstep s (LCall n i) = Some s' ->
  l_q s' = l_q s /\ l_pp s' n = PIdle /\
  l_hist s' = ERetIns n i IClosed :: ECallIns n i :: l_hist s.
Proof.
  intros Hc. cbn. destruct (l_pp s n) eqn:E; try discriminate.
  rewrite Hc. intros H; inversion H; subst; cbn. auto.
Qed.

(** ... and only then: an open queue never refuses. *)
Lemma insert_open_accepted s n i s' :
  q_closed (l_q s) = false -> lstep s (LCall n i) = Some s' ->
  l_pp s' n = PChecked i /\ l_hist s' = ECallIns n i :: l_hist s.
Proof.
  intros Hc. cbn. destruct (l_pp s n) eqn:E; try discriminate.
  rewrite Hc. intros H; inversion H; subst; cbn. rewrite set_pp_same. auto.
Qed.

(** Once Close has run, every later call is refused, whatever happened since. *)
Theorem insert_after_close_refused_later s0 s n i s' :
  q_closed (l_q s0) = true -> reachable_from lstep s0 s -> lstep s (LCall n i) = Some s' ->
  l_q s' = l_q s /\ l_hist s' = ERetIns n i IClosed :: ECallIns n i :: l_hist s.
Proof.
  intros Hc Hr Hs. pose proof (closed_forever _ _ Hr Hc) as Hc'.
  destruct (insert_after_close_refused _ _ _ _ Hc' Hs) as (? & ? & ?). auto.
Qed.

(** No lost wake-up.  A consumer at the select with an item pending has its
    token case enabled, unless a producer stands between its insert and its
    token send -- and that producer's next step is enabled and puts the token. *)
Theorem no_lost_wakeup s :
  lreach s -> l_cp s = CWait -> q_queue (l_q s) <> [] ->
  enabled lstep s (LSel STok) \/
  exists n i s', l_pp s n = PInserted i true /\ lstep s (LP n) = Some s' /\
                 l_cp s' = CWait /\ enabled lstep s' (LSel STok).
Proof.
  intros Hr Hw Hq. destruct (linv_reachable s Hr) as [_ _ Hwake _ _ _].
  destruct (Hwake Hw Hq) as [Ht|(n & i & Hp)].
  - left. unfold enabled. cbn. rewrite Hw, Ht. discriminate.
  - right. exists n, i. eexists. split; [exact Hp|]. cbn. rewrite Hp. split; [reflexivity|].
    cbn. split; [exact Hw|]. unfold enabled. cbn. rewrite Hw. discriminate.
Qed.

(** A consumer that cannot move is entitled to wait: the queue is open, its
    context is live, and either nothing is pending or the producer that made
    the queue non-empty has not sent its token yet. *)
Theorem blocked_justified s :
  lreach s -> l_cp s = CWait ->
  (forall b, lstep s (LSel b) = None) ->
  q_closed (l_q s) = false /\ l_cancelled s = false /\
  (q_queue (l_q s) = [] \/ exists n i, l_pp s n = PInserted i true).
Proof.
  intros Hr Hw Hb. destruct (linv_reachable s Hr) as [_ _ Hwake _ _ _].
  pose proof (Hb SCtx) as H1. pose proof (Hb STok) as H2. pose proof (Hb SClosed) as H3.
  cbn in H1, H2, H3. rewrite Hw in *.
  destruct (l_cancelled s); [discriminate|].
  destruct (q_token (l_q s)) eqn:Et; [discriminate|].
  destruct (q_closed (l_q s)); [discriminate|].
  repeat split; auto.
  destruct (q_queue (l_q s)) eqn:Eq; [left; reflexivity|right].
  destruct (Hwake eq_refl) as [H|H]; [congruence|discriminate|exact H].
Qed.

(** Close and cancellation wake the waiting consumer: the matching case of the
    select is enabled, and stays enabled until the consumer takes a step. *)
Theorem close_wakes s :
  l_cp s = CWait -> q_closed (l_q s) = true ->
  exists s', lstep s (LSel SClosed) = Some s' /\ l_cp s' = CLen.
Proof. intros Hw Hc. cbn. rewrite Hw, Hc. eexists; split; reflexivity. Qed.

Theorem cancel_wakes s :
  l_cp s = CWait -> l_cancelled s = true ->
  exists s', lstep s (LSel SCtx) = Some s' /\ l_cp s' = CIdle /\
             l_hist s' = ERetNext NCtx :: l_hist s.
Proof. intros Hw Hc. cbn. rewrite Hw, Hc. eexists; repeat split; reflexivity. Qed.

(** Only the consumer's own steps change its program counter. *)
Lemma cp_other_step s l s' :
  lstep s l = Some s' -> l <> LC -> (forall b, l <> LSel b) -> l_cp s' = l_cp s.
Proof.
  destruct l as [n i|n| |b| |]; cbn; intros Hs H1 H2; try congruence.
  - destruct (l_pp s n); try discriminate. destruct (q_closed (l_q s)); inversion Hs; subst; auto.
  - destruct (l_pp s n) as [|i|i ok]; try discriminate.
    + destruct (locked_insert (l_q s) i); inversion Hs; subst; auto.
    + inversion Hs; subst; auto.
  - inversion Hs; subst; auto.
  - inversion Hs; subst; auto.
Qed.

(** Drain before closed.  The consumer is told "closed" only by the step that
    found the queue empty after Close; at that moment everything any locked
    insert ever put in -- in particular every insertion that returned before
    Close -- has been delivered, duplicates included. *)
Theorem drain_before_closed s l s' pre :
  lreach s -> lstep s l = Some s' -> l_hist s' = ERetNext NClosed :: pre ->
  List.length (l_hist s') = S (List.length (l_hist s)) ->
  l = LC /\ l_cp s = CLen /\ In EClose (l_hist s) /\
  q_queue (l_q s') = [] /\
  (forall i, npend i (lin (l_hist s')) = 0) /\
  weight (delivered (lin (l_hist s'))) = count_ins (lin (l_hist s')).
Proof.
  intros Hr Hs Hh Hlen.
  assert (Hr' : lreach s') by (eapply reachable_step; eauto).
  assert (Hl : l = LC /\ l_cp s = CLen /\ q_queue (l_q s') = []).
  { destruct l as [n i|n| |b| |]; cbn in Hs.
    - destruct (l_pp s n); try discriminate.
      destruct (q_closed (l_q s)); inversion Hs; subst; cbn in *; solve [discriminate|lia].
    - destruct (l_pp s n) as [|i|i ok]; try discriminate.
      + destruct (locked_insert (l_q s) i); inversion Hs; subst; discriminate.
      + inversion Hs; subst; discriminate.
    - unfold cons_next in Hs. destruct (l_cp s) eqn:Ec; try discriminate.
      + destruct (locked_next (l_q s)) as [[[? ?] ?]|]; inversion Hs; subst; cbn in *; solve [discriminate|lia].
      + destruct (locked_next (l_q s)) as [[[? ?] ?]|]; inversion Hs; subst; cbn in *; solve [discriminate|lia].
      + destruct (Nat.eqb (q_len (l_q s)) 0) eqn:El; inversion Hs; subst; cbn in *; [|lia].
        repeat split. unfold q_len in El. destruct (q_queue (l_q s)); [reflexivity|discriminate].
    - destruct (l_cp s); try discriminate. destruct b.
      + destruct (l_cancelled s); inversion Hs; subst; discriminate.
      + destruct (q_token (l_q s)); inversion Hs; subst; cbn in *; solve [discriminate|lia].
      + destruct (q_closed (l_q s)); inversion Hs; subst; cbn in *; solve [discriminate|lia].
    - inversion Hs; subst; discriminate.
    - inversion Hs; subst; discriminate. }
  destruct Hl as (-> & Hcp & Hq). 
  destruct (linv_reachable s Hr) as [_ _ _ Hlen' Hcl _].
  repeat split; auto.
  - apply Hcl, Hlen', Hcp.
  - intros i. apply (proj2 (dup_exact s' Hr')). rewrite Hq. intros [].
  - pose proof (conservation s' Hr') as Hc. unfold q_abs in Hc. rewrite Hq in Hc. cbn in Hc. lia.
Qed.

(** Insert reports "new" exactly when the item is not pending, and the
    abstract state moves by the abstract insertion. *)
Theorem insert_reports_new s n i :
  lreach s -> l_pp s n = PChecked i ->
  exists s', lstep s (LP n) = Some s' /\
             l_pp s' n = PInserted i (negb (aq_mem i (q_abs (l_q s)))) /\
             q_abs (l_q s') = fst (aq_insert i (q_abs (l_q s))) /\
             l_hist s' = EIns n i (negb (aq_mem i (q_abs (l_q s)))) :: l_hist s.
Proof.
  intros Hr Hp. destruct (linv_reachable s Hr) as [Hwf _ _ _ _ _].
  pose proof (locked_insert_spec (l_q s) i Hwf) as Hli. cbn zeta in Hli.
  cbn. rewrite Hp. destruct (locked_insert (l_q s) i) as [q' ok] eqn:El. cbn in Hli.
  destruct Hli as (Hwf' & Hc' & Hok & _).
  eexists. split; [reflexivity|]. cbn. rewrite set_pp_same.
  rewrite (q_abs_counts _ Hwf), (q_abs_counts _ Hwf'), Hc'.
  assert (ok = negb (aq_mem i (q_counts (l_q s)))) as ->.
  { rewrite Hok. unfold aq_insert. destruct (aq_mem i (q_counts (l_q s))); reflexivity. }
  auto.
Qed.

(** * Examples: the hypotheses above are satisfiable, on non-trivial states

    (Runs are evaluated with [vm_compute]: call-by-name conversion duplicates
    the predecessor state at every step.) *)

Lemma run_ex (sch : list label) (P : lstate -> Prop) :
  match run lstep l_init sch with Some s => P s | None => False end ->
  exists s, run lstep l_init sch = Some s /\ P s.
Proof. destruct (run lstep l_init sch) as [s|]; [eauto|tauto]. Qed.

Lemma reach_ex (sch : list label) (P : lstate -> Prop) :
  match run lstep l_init sch with Some s => P s | None => False end ->
  exists s, lreach s /\ P s.
Proof. intros H. destruct (run_ex sch P H) as (s & Hr & Hp). exists s. split; [exists sch; exact Hr|exact Hp]. Qed.

Definition sch_dup : list label :=
  [LCall 0 5; LP 0; LP 0; LCall 1 5; LP 1; LP 1; LCall 0 6; LP 0; LP 0; LC].

Example ex_reach_dup :
  exists s, lreach s /\ (q_queue (l_q s) = [6] /\
            lin (l_hist s) = [LPop 5 1; LIns 6 true; LIns 5 false; LIns 5 true] /\
            weight (delivered (lin (l_hist s))) = 2 /\ count_ins (lin (l_hist s)) = 3 /\
            l_cp s = CIdle).
Proof. apply (reach_ex sch_dup). vm_compute. repeat split; reflexivity. Qed.

(** consumer at the select, item pending, producer 0 between insert and token *)
Example ex_window :
  exists s, lreach s /\ (l_cp s = CWait /\ q_queue (l_q s) = [5] /\
            l_pp s 0%nat = PInserted 5 true /\ q_token (l_q s) = false).
Proof. apply (reach_ex [LC; LCall 0 5; LP 0]). vm_compute. repeat split; reflexivity. Qed.

(** consumer legitimately parked *)
Example ex_blocked :
  exists s, lreach s /\ (l_cp s = CWait /\ (forall b, lstep s (LSel b) = None)).
Proof. apply (reach_ex [LC]). vm_compute. split; [reflexivity|]. intros []; reflexivity. Qed.

(** the consumer is told "closed" after the item inserted before Close was delivered *)
Example ex_drain :
  exists s, lreach s /\ (exists s', lstep s LC = Some s' /\
               l_hist s' = ERetNext NClosed :: l_hist s /\
               delivered (lin (l_hist s')) = [(5, 0)]).
Proof.
  apply (reach_ex [LCall 0 5; LP 0; LP 0; LClose; LC; LC; LSel SClosed]). vm_compute.
  eexists. split; [reflexivity|]. split; reflexivity.
Qed.

(** cancellation reaches a waiting consumer *)
Example ex_cancel :
  exists s, lreach s /\ (l_cp s = CWait /\ l_cancelled s = true).
Proof. apply (reach_ex [LC; LCancel]). vm_compute. split; reflexivity. Qed.

(** a refused call *)
Example ex_refused :
  exists s, lreach s /\ (q_closed (l_q s) = true /\ exists s', lstep s (LCall 3 9) = Some s').
Proof. apply (reach_ex [LClose]). vm_compute. split; [reflexivity|]. eexists; reflexivity. Qed.

(** An Insert that overlaps Close: producer 0 passes the closed check, Close
    runs, the consumer finds the queue empty and is told "closed"; then the
    producer's locked insert succeeds and Insert returns (true, nil).  The item
    stays in the queue.  This is outside the property as worded (it covers
    insertions that completed before the close); documented, not a finding. *)
Definition sch_overlap : list label :=
  [LCall 0 7; LC; LClose; LSel SClosed; LC; LP 0; LP 0].

Theorem insert_close_overlap_example :
  exists s, run lstep l_init sch_overlap = Some s /\
            (l_hist s = [ERetIns 0 7 (IOk true); EIns 0 7 true; ERetNext NClosed; EClose;
                         ECallNext; ECallIns 0 7] /\
             q_queue (l_q s) = [7] /\ l_cp s = CIdle).
Proof. apply (run_ex sch_overlap). vm_compute. repeat split; reflexivity. Qed.

(** * Soundness of the executable specification K_P (mode E)

    If K_P accepts an observed operation sequence then the accepted inserts
    and the deliveries, in the order observed, are a run of the abstract
    coalescing queue -- hence (by [aq_replay_hist_ok]) the deliveries are in
    order of first undelivered insertion with exact duplicate counts -- and
    "closed" was only ever reported with nothing pending. *)
From Gnmi Require Import Coalesce.QueueCheck.

Fixpoint k_run (k : kst) (l : list (op * obs)) : option kst :=
  match l with
  | [] => Some k
  | (o, r) :: l' => match kstep k o r with
                    | inl k' => k_run k' l'
                    | inr _ => None
                    end
  end.

(** the linearisation the observations themselves define (newest first) *)
Fixpoint obs_lin (l : list (op * obs)) (acc : list lev) : list lev :=
  match l with
  | [] => acc
  | (OInsert i, RIns (IOk new)) :: l' => obs_lin l' (LIns i new :: acc)
  | (ONext _, RNext (NItem i d)) :: l' => obs_lin l' (LPop i d :: acc)
  | _ :: l' => obs_lin l' acc
  end.

Lemma kstep_sound k o r k' acc :
  aq_replay acc = Some (k_aq k) -> kstep k o r = inl k' ->
  aq_replay (obs_lin [(o, r)] acc) = Some (k_aq k') /\
  (r = RNext NClosed -> k_aq k = [] /\ k_closed k = true).
Proof.
  intros Ha Hk. destruct o as [i|c| | |]; destruct r as [res|res|n|b| |]; cbn in Hk; try discriminate.
  - (* insert *)
    destruct (k_closed k).
    + destruct res as [new|]; cbn in Hk; [discriminate|]. inversion Hk; subst. cbn. split; [assumption|discriminate].
    + destruct (aq_insert i (k_aq k)) as [q' new] eqn:E.
      destruct res as [b|]; cbn in Hk; [|discriminate].
      destruct (Bool.eqb b new) eqn:Eb; [|discriminate]. inversion Hk; subst; cbn.
      apply Bool.eqb_prop in Eb. subst b. rewrite Ha, E; cbn. rewrite Bool.eqb_reflx. split; [reflexivity|discriminate].
  - (* next *)
    destruct (k_aq k) as [|[i d] q'] eqn:Eq; cbn in Hk.
    + destruct res; try discriminate.
      * destruct (k_closed k); [|discriminate].
        destruct (N.eqb (k_acc k) (k_del k)); [|discriminate]. inversion Hk; subst. cbn.
        rewrite Eq in *. split; [assumption|auto].
      * destruct (ctx_fires c); [|discriminate]. inversion Hk; subst. cbn. rewrite Eq in *. split; [assumption|discriminate].
      * destruct (k_closed k); [discriminate|]. destruct (ctx_fires c); [discriminate|].
        inversion Hk; subst. cbn. rewrite Eq in *. split; [assumption|discriminate].
    + destruct res as [j e| | |]; try discriminate.
      * destruct (N.eqb_spec i j) as [<-|]; cbn in Hk; [|discriminate].
        destruct (N.eqb_spec d e) as [<-|]; cbn in Hk; [|discriminate].
        inversion Hk; subst; cbn. rewrite Ha, !N.eqb_refl. cbn. split; [reflexivity|discriminate].
      * destruct (ctx_fires c); [|discriminate]. inversion Hk; subst. cbn. rewrite Eq in *. split; [assumption|discriminate].
  - inversion Hk; subst. cbn. split; [assumption|discriminate].
  - destruct (Nat.eqb n (List.length (k_aq k))); [|discriminate]. inversion Hk; subst. cbn. split; [assumption|discriminate].
  - destruct (Bool.eqb b (k_closed k)); [|discriminate]. inversion Hk; subst. cbn. split; [assumption|discriminate].
Qed.

Lemma obs_lin_cons o r l acc : obs_lin ((o, r) :: l) acc = obs_lin l (obs_lin [(o, r)] acc).
Proof.
  destruct o; destruct r as [res|res| | | |]; try reflexivity; destruct res; reflexivity.
Qed.

Theorem K_seq_sound l : forall k k' acc,
  aq_replay acc = Some (k_aq k) -> k_run k l = Some k' ->
  aq_replay (obs_lin l acc) = Some (k_aq k') /\ hist_ok (obs_lin l acc) (k_aq k').
Proof.
  induction l as [|[o r] l IH]; intros k k' acc Ha Hk.
  - cbn in *. inversion Hk; subst. split; [assumption|]. apply aq_replay_hist_ok; assumption.
  - cbn [k_run] in Hk. destruct (kstep k o r) as [k1|] eqn:E; [|discriminate].
    destruct (kstep_sound _ _ _ _ _ Ha E) as [Ha1 _].
    rewrite obs_lin_cons. eapply IH; eauto.
Qed.

(** the checker's verdict list is empty only if [k_run] accepts *)
Lemma check_seq_K l : forall i ss k,
  check_seq i ss (Some k) l = [] -> exists k', k_run k l = Some k'.
Proof.
  induction l as [|[o r] l IH]; intros i ss k H; cbn in *.
  - eauto.
  - destruct (match ss with
              | Some l0 => match msteps l0 o r with [] => ([(i, 1)], None) | q :: l1 => ([], Some (q :: l1)) end
              | None => ([], None) end) as [v1 ss'].
    destruct (kstep k o r) as [k1|t].
    + apply app_eq_nil in H. destruct H as [_ H]. cbn in H. eapply IH; eauto.
    + apply app_eq_nil in H. destruct H as [_ H]. cbn in H. discriminate.
Qed.

Corollary K_seq_check_sound l :
  check_case (CSeq l) = [] ->
  exists q, aq_replay (obs_lin l []) = Some q /\ hist_ok (obs_lin l []) q.
Proof.
  intros H. destruct (check_seq_K _ _ _ _ H) as [k' Hk].
  exists (k_aq k'). eapply (K_seq_sound l k_init k' []); [reflexivity|exact Hk].
Qed.

(** * The sequential model of [Next] (mode E) inside the transition system

    Every outcome [next_seq] allows is produced by a schedule of consumer steps
    alone; "hang" is the consumer parked with no enabled case. *)

Definition cons_label (l : label) : Prop := l = LC \/ exists b, l = LSel b.

Definition next_outcome (r : nres) (s' : lstate) : Prop :=
  match r with
  | NHang => l_cp s' = CWait /\ (forall b, lstep s' (LSel b) = None)
  | _ => l_cp s' = CIdle /\ exists pre, l_hist s' = ERetNext r :: pre
  end.

Lemma run_cons s l sch : run lstep s (l :: sch) = match lstep s l with Some s1 => run lstep s1 sch | None => None end.
Proof. reflexivity. Qed.

Lemma next_some_step s i d q1 :
  l_cp s = CIdle \/ l_cp s = CTry -> locked_next (l_q s) = Some (i, d, q1) ->
  exists s', lstep s LC = Some s' /\ l_cp s' = CIdle /\ l_q s' = q1 /\
             exists pre, l_hist s' = ERetNext (NItem i d) :: pre.
Proof.
  intros Hcp En. cbn. unfold cons_next.
  destruct Hcp as [E|E]; rewrite E, En; eexists; (split; [reflexivity|]); cbn; eauto.
Qed.

Theorem next_seq_in_lts fuel c : forall s q' r,
  l_cp s = CIdle \/ l_cp s = CTry ->
  l_cancelled s = ctx_fires c ->
  In (q', r) (next_seq fuel c (l_q s)) ->
  exists sch s', run lstep s sch = Some s' /\ Forall cons_label sch /\ l_q s' = q' /\ next_outcome r s'.
Proof.
  assert (HLC : cons_label LC) by (left; reflexivity).
  assert (HLS : forall b, cons_label (LSel b)) by (intros b; right; eauto).
  induction fuel as [|f IH]; intros s q' r Hcp Hca Hin.
  - (* no fuel: only the immediate pop *)
    cbn in Hin. destruct (locked_next (l_q s)) as [[[i d] q1]|] eqn:En; [|contradiction].
    destruct Hin as [Hin|[]]. inversion Hin; subst.
    destruct (next_some_step s _ _ _ Hcp En) as (s' & Hs & Hc & Hq & Hh).
    exists [LC], s'. split; [rewrite run_cons, Hs; reflexivity|].
    split; [repeat (apply Forall_cons; [auto|]); apply Forall_nil|]. split; [assumption|]. split; assumption.
  - cbn [next_seq] in Hin. destruct (locked_next (l_q s)) as [[[i d] q1]|] eqn:En.
    + destruct Hin as [Hin|[]]. inversion Hin; subst.
      destruct (next_some_step s _ _ _ Hcp En) as (s' & Hs & Hc & Hq & Hh).
      exists [LC], s'. split; [rewrite run_cons, Hs; reflexivity|].
      split; [repeat (apply Forall_cons; [auto|]); apply Forall_nil|]. split; [assumption|]. split; assumption.
    + (* first step: to the select *)
      destruct (next_none_waits s Hcp En) as (s1 & Hs1 & Hw1 & Hq1).
      assert (Hca1 : l_cancelled s1 = ctx_fires c).
      { rewrite <- Hca. clear - Hs1 Hcp En. cbn in Hs1. unfold cons_next in Hs1.
        destruct Hcp as [E|E]; rewrite E, En in Hs1; inversion Hs1; reflexivity. }
      destruct (negb (ctx_fires c || q_token (l_q s) || q_closed (l_q s))) eqn:Er.
      * (* nothing ready *)
        destruct Hin as [Hin|[]]. inversion Hin; subst.
        apply negb_true_iff in Er. apply orb_false_iff in Er. destruct Er as [Er Hcl].
        apply orb_false_iff in Er. destruct Er as [Hcf Htk].
        exists [LC], s1. split; [rewrite run_cons, Hs1; reflexivity|].
        split; [repeat (apply Forall_cons; [auto|]); apply Forall_nil|]. split; [assumption|].
        split; [assumption|]. intros b. cbn. rewrite Hw1, Hq1, Hca1, Hcf, Htk, Hcl.
        destruct b; reflexivity.
      * apply in_app_or in Hin. destruct Hin as [Hin|Hin].
        { (* ctx *)
          destruct (ctx_fires c) eqn:Ecf; [|contradiction]. destruct Hin as [Hin|[]]. inversion Hin; subst.
          exists [LC; LSel SCtx]. eexists. split; [|split; [repeat (apply Forall_cons; [auto|]); apply Forall_nil|]].
          - rewrite run_cons, Hs1. cbn. rewrite Hw1, Hca1. reflexivity.
          - cbn. split; [solve [assumption|reflexivity]|]. split; eauto. }
        apply in_app_or in Hin. destruct Hin as [Hin|Hin].
        { (* token *)
          destruct (q_token (l_q s)) eqn:Et; [|contradiction].
          assert (Hs2 : lstep s1 (LSel STok) =
                        Some (mkL (take_token (l_q s1)) (l_pp s1) CTry (l_cancelled s1) (l_hist s1))).
          { cbn. rewrite Hw1, Hq1, Et. reflexivity. }
          destruct (IH (mkL (take_token (l_q s1)) (l_pp s1) CTry (l_cancelled s1) (l_hist s1)) q' r)
            as (sch & s' & Hrun & Hall & Hq & Hout); cbn; auto.
          { rewrite Hq1. exact Hin. }
          exists (LC :: LSel STok :: sch), s'. split; [|split; [repeat (apply Forall_cons; [auto|]); assumption|auto]].
          rewrite run_cons, Hs1, run_cons, Hs2. exact Hrun. }
        (* closed *)
        destruct (q_closed (l_q s)) eqn:Ecl; [|contradiction].
        assert (Hs2 : lstep s1 (LSel SClosed) =
                      Some (mkL (l_q s1) (l_pp s1) CLen (l_cancelled s1) (l_hist s1))).
        { cbn. rewrite Hw1, Hq1, Ecl. reflexivity. }
        destruct (Nat.eqb (q_len (l_q s)) 0) eqn:El.
        { destruct Hin as [Hin|[]]. inversion Hin; subst.
          exists [LC; LSel SClosed; LC]. eexists. split; [|split; [repeat (apply Forall_cons; [auto|]); apply Forall_nil|]].
          - rewrite run_cons, Hs1, run_cons, Hs2. cbn. rewrite Hq1, El. reflexivity.
          - cbn. split; [solve [assumption|reflexivity]|]. split; eauto. }
        (* queue not empty although next() just found it empty: cannot happen
           sequentially; the model's retry is a run from [s] itself *)
        exact (IH s q' r Hcp Hca Hin).
Qed.

(** * Soundness of the executable specification K_P (mode S)

    If K_P accepts a recorded run, the locked inserts (arrivals at
    [insert:inserted], each with the "new" flag K_P later compares with what
    Insert returned) and the deliveries, in recorded order, are a run of the
    abstract coalescing queue. *)

Definition ks_lin1 (k : kss) (t : tid) (e : sev) (acc : list lev) : list lev :=
  match t, e with
  | TP n, SAt PtInserted =>
      match nth_kpp (ks_pp k) n with
      | KChecked i => LIns i (snd (aq_insert i (ks_aq k))) :: acc
      | _ => acc
      end
  | TC, SRetNext (NItem j d) => LPop j d :: acc
  | _, _ => acc
  end.

Fixpoint ks_fold (k : kss) (steps : list (tid * sev)) (acc : list lev) : option (kss * list lev) :=
  match steps with
  | [] => Some (k, acc)
  | (t, e) :: r =>
      match ksstep k t e with
      | inl k' => ks_fold k' r (ks_lin1 k t e acc)
      | inr _ => None
      end
  end.

Ltac brk H :=
  repeat match type of H with
         | context [match ?x with _ => _ end] => destruct x eqn:?; try discriminate
         end.

Lemma ksstep_sound k t e k' acc :
  aq_replay acc = Some (ks_aq k) -> ksstep k t e = inl k' ->
  aq_replay (ks_lin1 k t e acc) = Some (ks_aq k').
Proof.
  intros Ha Hk. unfold ksstep in Hk.
  destruct e as [p|r|r| | | |]; try discriminate.
  - (* SAt *)
    destruct ((match t with TC => false | _ => ks_blocked k end) && negb (may_wait k)); [discriminate|].
    destruct t as [n| | |]; try discriminate.
    + destruct (nth_kpp (ks_pp k) n) as [|i|i ex lv] eqn:Ep; destruct p; try discriminate.
      * destruct (nth_prog (ks_progs k) n); [discriminate|].
        destruct (ks_closed k); [discriminate|]. inversion Hk; subst. cbn. rewrite ?Ep. exact Ha.
      * destruct (aq_insert i (ks_aq k)) as [q' new] eqn:Ei. inversion Hk; subst. cbn.
        rewrite Ep. cbn. rewrite Ha, Ei. cbn. rewrite Bool.eqb_reflx. reflexivity.
    + destruct p; try discriminate. inversion Hk; subst. exact Ha.
  - (* SRetIns *)
    destruct ((match t with TC => false | _ => ks_blocked k end) && negb (may_wait k)); [discriminate|].
    destruct t as [n| | |]; try discriminate.
    destruct (nth_kpp (ks_pp k) n) as [|i|i ex lv] eqn:Ep; destruct r as [b|]; try discriminate.
    + destruct (nth_prog (ks_progs k) n); [discriminate|].
      destruct (ks_closed k); [|discriminate]. inversion Hk; subst. exact Ha.
    + destruct (Bool.eqb b ex); [|discriminate]. inversion Hk; subst. exact Ha.
  - (* SRetNext *)
    destruct ((match t with TC => false | _ => ks_blocked k end) && negb (may_wait k)); [discriminate|].
    destruct t as [n| | |]; try discriminate.
    + destruct (nth_kpp (ks_pp k) n); discriminate.
    + destruct r as [j d| | |]; try discriminate.
      * destruct (ks_aq k) as [|[i c] q'] eqn:Eq; [discriminate|].
        destruct (N.eqb_spec i j) as [<-|]; cbn in Hk; [|discriminate].
        destruct (N.eqb_spec c d) as [<-|]; cbn in Hk; [|discriminate].
        inversion Hk; subst. cbn. rewrite Ha, !N.eqb_refl. reflexivity.
      * destruct (ks_closed k); [|discriminate].
        match type of Hk with (if ?c then _ else _) = _ => destruct c end; [discriminate|]. inversion Hk; subst. exact Ha.
      * destruct (ks_cancelled k); [|discriminate]. inversion Hk; subst. exact Ha.
  - (* SBlocked *)
    destruct ((match t with TC => false | _ => ks_blocked k end) && negb (may_wait k)); [discriminate|].
    destruct t as [n| | |]; try discriminate.
    + destruct (nth_kpp (ks_pp k) n); discriminate.
    + cbn zeta in Hk. destruct (may_wait _); [|discriminate]. inversion Hk; subst. exact Ha.
  - (* SRet *)
    destruct ((match t with TC => false | _ => ks_blocked k end) && negb (may_wait k)); [discriminate|].
    destruct t as [n| | |]; try discriminate.
    + destruct (nth_kpp (ks_pp k) n); discriminate.
    + inversion Hk; subst. exact Ha.
    + inversion Hk; subst. exact Ha.
Qed.

Theorem K_sched_sound steps : forall k k' acc acc',
  aq_replay acc = Some (ks_aq k) -> ks_fold k steps acc = Some (k', acc') ->
  aq_replay acc' = Some (ks_aq k') /\ hist_ok acc' (ks_aq k').
Proof.
  induction steps as [|[t e] r IH]; intros k k' acc acc' Ha Hf; cbn in Hf.
  - inversion Hf; subst. split; [assumption|apply aq_replay_hist_ok; assumption].
  - destruct (ksstep k t e) as [k1|] eqn:E; [|discriminate].
    eapply IH; [|exact Hf]. eapply ksstep_sound; eauto.
Qed.

(** the checker's verdict is empty only if the fold accepts *)
Lemma ks_run_fold steps : forall i k fb fl acc,
  ks_run i k steps fb fl = [] -> exists k' acc', ks_fold k steps acc = Some (k', acc').
Proof.
  induction steps as [|[t e] r IH]; intros i k fb fl acc H; cbn in *.
  - eauto.
  - destruct (ksstep k t e) as [k1|]; [eapply IH; eauto|discriminate].
Qed.

Corollary K_sched_check_sound progs steps fb fl :
  check_case (CSched progs steps fb fl) = [] ->
  exists k' acc',
    ks_fold (mkKS [] false false (map (fun _ => KIdle) progs) progs false []) steps [] = Some (k', acc') /\
    aq_replay acc' = Some (ks_aq k') /\ hist_ok acc' (ks_aq k').
Proof.
  intros H. unfold check_case in H. apply app_eq_nil in H. destruct H as [_ H].
  destruct (ks_run_fold _ _ _ _ _ [] H) as (k' & acc' & Hf).
  exists k', acc'. split; [exact Hf|]. eapply K_sched_sound; [|exact Hf]. reflexivity.
Qed.

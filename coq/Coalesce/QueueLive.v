(** Liveness of the coalescing queue under fairness.

    Runs are infinite sequences of states with an optional label per step
    ([None] = nobody moves; a finite maximal trace is a run that stutters for
    ever).  A thread is weakly fair in a run if, from every point on, it
    eventually takes a step or is disabled.  The consumer thread owns the
    labels [LC] and [LSel _] -- taking [LC] from [CIdle] is calling [Next]
    again, so a fair consumer "keeps calling Next"; producer [n] owns [LP n].

    Proved here, over all such runs from the initial state:
      - every locked insert is eventually delivered if the consumer and the
        producers are fair ([fair_delivery]); with a fair consumer alone, every
        Insert that returned "new" is ([fair_delivery_completed]);
      - a consumer inside [Next] returns once the queue is closed or its
        context cancelled ([wake_returns]); after Close, with no Insert past
        its closed check, it drains the queue and returns "closed"
        ([close_drains]);
      - the same statement fails when the wake-up channel is unbuffered
        ([unbuffered_delivery_refuted]). *)
From Gnmi Require Import Base.Prelude Base.Lts Coalesce.QueueModel Coalesce.QueueLts Coalesce.QueueProofs.
Open Scope N_scope.
Local Arguments N.add : simpl never.

(** * Runs and fairness (generic) *)
Section Runs.
Context {S L : Type}.
Variable step : S -> L -> option S.

Definition is_run (run : nat -> S) (lab : nat -> option L) : Prop :=
  forall k, match lab k with
            | Some l => step (run k) l = Some (run (Datatypes.S k))
            | None => run (Datatypes.S k) = run k
            end.

Definition taken (lab : nat -> option L) (P : L -> Prop) (k : nat) : Prop :=
  exists l, lab k = Some l /\ P l.

Definition can (P : L -> Prop) (s : S) : Prop := exists l, P l /\ step s l <> None.

(** weak fairness of the thread owning the labels [P] *)
Definition wfair (run : nat -> S) (lab : nat -> option L) (P : L -> Prop) : Prop :=
  forall k, exists j, (k <= j)%nat /\ (taken lab P j \/ ~ can P (run j)).

Lemma run_reach run lab : is_run run lab -> forall k, reachable_from step (run 0%nat) (run k).
Proof.
  intros Hr. induction k as [|k IH]; [apply reachable_refl|].
  specialize (Hr k). destruct (lab k) as [l|].
  - eapply reachable_step; eauto.
  - rewrite Hr. exact IH.
Qed.
End Runs.

(** * One-step case analysis of [lstep], on the components that matter *)

Inductive stepk (s : lstate) : label -> lstate -> Prop :=
| K_refused n i s' :
    l_pp s n = PIdle -> q_closed (l_q s) = true ->
    l_q s' = l_q s -> l_pp s' = l_pp s -> l_cp s' = l_cp s -> l_cancelled s' = l_cancelled s ->
    stepk s (LCall n i) s'
| K_call n i s' :
    l_pp s n = PIdle -> q_closed (l_q s) = false ->
    l_q s' = l_q s -> l_pp s' = set_pp (l_pp s) n (PChecked i) -> l_cp s' = l_cp s ->
    l_cancelled s' = l_cancelled s ->
    stepk s (LCall n i) s'
| K_insert n i s' :
    l_pp s n = PChecked i ->
    l_q s' = fst (locked_insert (l_q s) i) ->
    l_pp s' = set_pp (l_pp s) n (PInserted i (snd (locked_insert (l_q s) i))) ->
    l_cp s' = l_cp s -> l_cancelled s' = l_cancelled s ->
    stepk s (LP n) s'
| K_ret n i ok s' :
    l_pp s n = PInserted i ok ->
    l_q s' = (if ok then send_token (l_q s) else l_q s) ->
    l_pp s' = set_pp (l_pp s) n PIdle -> l_cp s' = l_cp s -> l_cancelled s' = l_cancelled s ->
    stepk s (LP n) s'
| K_pop i d q' s' :
    l_cp s = CIdle \/ l_cp s = CTry -> locked_next (l_q s) = Some (i, d, q') ->
    l_q s' = q' -> l_pp s' = l_pp s -> l_cp s' = CIdle -> l_cancelled s' = l_cancelled s ->
    stepk s LC s'
| K_empty s' :
    l_cp s = CIdle \/ l_cp s = CTry -> locked_next (l_q s) = None ->
    l_q s' = l_q s -> l_pp s' = l_pp s -> l_cp s' = CWait -> l_cancelled s' = l_cancelled s ->
    stepk s LC s'
| K_len0 s' :
    l_cp s = CLen -> q_queue (l_q s) = [] ->
    l_q s' = l_q s -> l_pp s' = l_pp s -> l_cp s' = CIdle -> l_cancelled s' = l_cancelled s ->
    l_hist s' = ERetNext NClosed :: l_hist s ->
    stepk s LC s'
| K_lenpos s' :
    l_cp s = CLen -> q_queue (l_q s) <> [] ->
    l_q s' = l_q s -> l_pp s' = l_pp s -> l_cp s' = CTry -> l_cancelled s' = l_cancelled s ->
    stepk s LC s'
| K_ctx s' :
    l_cp s = CWait -> l_cancelled s = true ->
    l_q s' = l_q s -> l_pp s' = l_pp s -> l_cp s' = CIdle -> l_cancelled s' = l_cancelled s ->
    stepk s (LSel SCtx) s'
| K_tok s' :
    l_cp s = CWait -> q_token (l_q s) = true ->
    l_q s' = take_token (l_q s) -> l_pp s' = l_pp s -> l_cp s' = CTry -> l_cancelled s' = l_cancelled s ->
    stepk s (LSel STok) s'
| K_closed s' :
    l_cp s = CWait -> q_closed (l_q s) = true ->
    l_q s' = l_q s -> l_pp s' = l_pp s -> l_cp s' = CLen -> l_cancelled s' = l_cancelled s ->
    stepk s (LSel SClosed) s'
| K_close s' :
    l_q s' = q_close (l_q s) -> l_pp s' = l_pp s -> l_cp s' = l_cp s -> l_cancelled s' = l_cancelled s ->
    stepk s LClose s'
| K_cancel s' :
    l_q s' = l_q s -> l_pp s' = l_pp s -> l_cp s' = l_cp s -> l_cancelled s' = true ->
    stepk s LCancel s'.

Lemma lstep_k s l s' : lstep s l = Some s' -> stepk s l s'.
Proof.
  destruct l as [n i|n| |b| |]; cbn; intros Hs.
  - destruct (l_pp s n) eqn:Ep; try discriminate.
    destruct (q_closed (l_q s)) eqn:Ec; inversion Hs; subst.
    + apply K_refused; auto.
    + apply K_call; auto.
  - destruct (l_pp s n) as [|i|i ok] eqn:Ep; try discriminate.
    + destruct (locked_insert (l_q s) i) as [q' ok] eqn:El. inversion Hs; subst.
      apply (K_insert s n i); cbn; rewrite ?El; auto.
    + inversion Hs; subst. apply (K_ret s n i ok); auto.
  - unfold cons_next in Hs. destruct (l_cp s) eqn:Ec; try discriminate.
    + destruct (locked_next (l_q s)) as [[[i d] q']|] eqn:En; inversion Hs; subst.
      * apply (K_pop s i d q'); auto.
      * apply K_empty; auto.
    + destruct (locked_next (l_q s)) as [[[i d] q']|] eqn:En; inversion Hs; subst.
      * apply (K_pop s i d q'); auto.
      * apply K_empty; auto.
    + destruct (Nat.eqb (q_len (l_q s)) 0) eqn:El; inversion Hs; subst.
      * apply K_len0; auto. unfold q_len in El. destruct (q_queue (l_q s)); [reflexivity|discriminate].
      * apply K_lenpos; auto. unfold q_len in El. destruct (q_queue (l_q s)); [discriminate|congruence].
  - destruct (l_cp s) eqn:Ec; try discriminate. destruct b.
    + destruct (l_cancelled s) eqn:Ea; inversion Hs; subst. apply K_ctx; auto.
    + destruct (q_token (l_q s)) eqn:Ea; inversion Hs; subst. apply K_tok; auto.
    + destruct (q_closed (l_q s)) eqn:Ea; inversion Hs; subst. apply K_closed; auto.
  - inversion Hs; subst. apply K_close; auto.
  - inversion Hs; subst. apply K_cancel; auto.
Qed.

(** facts about the critical sections *)
Lemma locked_insert_fields q i :
  (q_queue (fst (locked_insert q i)) = q_queue q \/ q_queue (fst (locked_insert q i)) = q_queue q ++ [i]) /\
  q_token (fst (locked_insert q i)) = q_token q /\ q_closed (fst (locked_insert q i)) = q_closed q.
Proof. unfold locked_insert. destruct (cget i (q_counts q)); cbn; auto. Qed.

Lemma locked_next_some q i d q' :
  locked_next q = Some (i, d, q') ->
  q_queue q = i :: q_queue q' /\ q_token q' = q_token q /\ q_closed q' = q_closed q.
Proof.
  unfold locked_next. destruct (q_queue q) as [|x [|y r]]; intros H; inversion H; subst; cbn; auto.
Qed.

Lemma locked_next_none q : locked_next q = None -> q_queue q = [].
Proof. unfold locked_next. destruct (q_queue q) as [|x [|y r]]; [reflexivity|discriminate|discriminate]. Qed.

Lemma q_close_queue q : q_queue (q_close q) = q_queue q /\ q_token (q_close q) = q_token q /\ q_closed (q_close q) = true.
Proof. destruct (q_close_fields q) as (? & ? & ? & ?). auto. Qed.

Fixpoint idx (x : item) (l : list item) : nat :=
  match l with
  | [] => O
  | y :: l' => if N.eqb x y then O else Datatypes.S (idx x l')
  end.

Lemma idx_app x l y : In x l -> idx x (l ++ [y]) = idx x l.
Proof.
  induction l as [|z l IH]; cbn; [tauto|]. intros [->|H].
  - now rewrite N.eqb_refl.
  - destruct (N.eqb x z); [reflexivity|]. now rewrite IH.
Qed.

(** * The consumer: enabledness, deliveries *)

Definition cons_en (s : lstate) : bool :=
  match l_cp s with
  | CWait => l_cancelled s || q_token (l_q s) || q_closed (l_q s)
  | _ => true
  end.

Definition pops (s : lstate) (x : item) : Prop :=
  (l_cp s = CIdle \/ l_cp s = CTry) /\ exists d q', locked_next (l_q s) = Some (x, d, q').

(** step [j] of the run is a [Next] popping [x] (it returns [x] with its
    duplicate count: [next_delivers_first]) *)
Definition delivers (run : nat -> lstate) (lab : nat -> option label) (j : nat) (x : item) : Prop :=
  lab j = Some LC /\ pops (run j) x.

Lemma cons_label_dec l : {cons_label l} + {~ cons_label l}.
Proof.
  destruct l; try (right; intros [H|[b H]]; discriminate).
  - left; left; reflexivity.
  - left; right; eauto.
Qed.

Lemma cons_en_can s : cons_en s = true -> can lstep cons_label s.
Proof.
  unfold cons_en, can. destruct (l_cp s) eqn:Ec.
  - intros _. exists LC. split; [left; reflexivity|]. cbn. rewrite Ec. discriminate.
  - intros _. exists LC. split; [left; reflexivity|]. cbn. rewrite Ec. discriminate.
  - intros H. apply orb_true_iff in H. destruct H as [H|H]; [apply orb_true_iff in H; destruct H as [H|H]|].
    + exists (LSel SCtx). split; [right; eauto|]. cbn. rewrite Ec, H. discriminate.
    + exists (LSel STok). split; [right; eauto|]. cbn. rewrite Ec, H. discriminate.
    + exists (LSel SClosed). split; [right; eauto|]. cbn. rewrite Ec, H. discriminate.
  - intros _. exists LC. split; [left; reflexivity|]. cbn. rewrite Ec.
    destruct (Nat.eqb (q_len (l_q s)) 0); discriminate.
Qed.

Lemma cons_dis_none s l : cons_en s = false -> cons_label l -> lstep s l = None.
Proof.
  unfold cons_en. destruct (l_cp s) eqn:Ec; try discriminate. intros H.
  apply orb_false_iff in H. destruct H as [H Hc]. apply orb_false_iff in H. destruct H as [Ha Ht].
  intros [->|[b ->]]; cbn; rewrite Ec; [reflexivity|]. destruct b; rewrite ?Ha, ?Ht, ?Hc; reflexivity.
Qed.

(** steps of other threads keep the consumer where it is, keep it enabled,
    and keep every pending item at its place *)
Lemma other_step s l s' x :
  stepk s l s' -> ~ cons_label l ->
  l_cp s' = l_cp s /\
  (cons_en s = true -> cons_en s' = true) /\
  (In x (q_queue (l_q s)) -> In x (q_queue (l_q s')) /\ idx x (q_queue (l_q s')) = idx x (q_queue (l_q s))).
Proof.
  intros Hk Hn.
  assert (Hen : l_cp s' = l_cp s -> (l_cancelled s = true -> l_cancelled s' = true) ->
                (q_token (l_q s) = true -> q_token (l_q s') = true) ->
                (q_closed (l_q s) = true -> q_closed (l_q s') = true) ->
                cons_en s = true -> cons_en s' = true).
  { unfold cons_en. intros -> Ha Ht Hc. destruct (l_cp s); auto.
    rewrite !orb_true_iff. intros [[H|H]|H]; auto. }
  destruct Hk; try (exfalso; apply Hn; solve [left; reflexivity | right; eauto]).
  - split; [assumption|]. split; [apply Hen; congruence|]. intros Hx. rewrite H1. auto.
  - split; [assumption|]. split; [apply Hen; congruence|]. intros Hx. rewrite H1. auto.
  - destruct (locked_insert_fields (l_q s) i) as (Hq & Ht & Hc).
    split; [assumption|]. split; [apply Hen; congruence|]. intros Hx. rewrite H0.
    destruct Hq as [-> | ->]; [auto|]. split; [apply in_or_app; auto|apply idx_app; assumption].
  - split; [assumption|]. split.
    + apply Hen; try congruence; rewrite H0; destruct ok; cbn; auto.
    + intros Hx. rewrite H0. destruct ok; cbn; auto.
  - destruct (q_close_queue (l_q s)) as (Hq & Ht & Hc).
    split; [assumption|]. split; [apply Hen; congruence|]. intros Hx. rewrite H, Hq. auto.
  - split; [assumption|]. split; [apply Hen; congruence|]. intros Hx. rewrite H. auto.
Qed.

(** a consumer step either delivers [x] or leaves it pending, one place
    nearer to the head if it delivered another item *)
Lemma cons_step_mem s l s' x :
  stepk s l s' -> cons_label l -> In x (q_queue (l_q s)) ->
  (l = LC /\ pops s x) \/
  (In x (q_queue (l_q s')) /\
   ((idx x (q_queue (l_q s')) = idx x (q_queue (l_q s)) /\ l_cp s <> CIdle /\ l_cp s <> CTry) \/
    (Datatypes.S (idx x (q_queue (l_q s'))) = idx x (q_queue (l_q s)) /\ l_cp s' = CIdle))).
Proof.
  intros Hk Hl Hx.
  destruct Hk; try (exfalso; destruct Hl as [Hl|[b Hl]]; discriminate).
  - (* pop *)
    destruct (locked_next_some _ _ _ _ H0) as (Hq & _).
    destruct (N.eqb_spec x i) as [->|Hne].
    + left. split; [reflexivity|]. split; [assumption|eauto].
    + right. rewrite H1. rewrite Hq in Hx |- *. destruct Hx as [Hx|Hx]; [congruence|].
      split; [assumption|]. right. split; [|assumption]. cbn.
      apply N.eqb_neq in Hne. rewrite Hne. reflexivity.
  - apply locked_next_none in H0. rewrite H0 in Hx. destruct Hx.
  - rewrite H0 in Hx. destruct Hx.
  - right. rewrite H1. split; [assumption|]. left. rewrite H. repeat split; congruence.
  - right. rewrite H1. split; [assumption|]. left. rewrite H. repeat split; congruence.
  - right. rewrite H1. cbn. split; [assumption|]. left. rewrite H. repeat split; congruence.
  - right. rewrite H1. split; [assumption|]. left. rewrite H. repeat split; congruence.
Qed.

(** * Runs of the queue *)
Section Live.
Variable run : nat -> lstate.
Variable lab : nat -> option label.
Hypothesis Hrun : is_run lstep run lab.

Definition ctaken (k : nat) : Prop := taken lab cons_label k.

Lemma ctaken_dec k : {ctaken k} + {~ ctaken k}.
Proof.
  unfold ctaken, taken. destruct (lab k) as [l|].
  - destruct (cons_label_dec l); [left; eauto|right]. intros (l' & H & Hl). inversion H; subst; auto.
  - right. intros (l' & H & _). discriminate.
Qed.

Lemma step_at k :
  match lab k with
  | Some l => stepk (run k) l (run (S k))
  | None => run (S k) = run k
  end.
Proof. specialize (Hrun k). destruct (lab k); [apply lstep_k|]; assumption. Qed.

(** a property kept by the other threads' steps holds along a segment in
    which the consumer does not move *)
Lemma seg_ind (Q : lstate -> Prop) :
  (forall s l s', Q s -> stepk s l s' -> ~ cons_label l -> Q s') ->
  forall k d, (forall m, (k <= m < k + d)%nat -> ~ ctaken m) -> Q (run k) -> Q (run (k + d)%nat).
Proof.
  intros HQ k d. induction d as [|d IH]; intros Hn H0.
  - now rewrite Nat.add_0_r.
  - rewrite Nat.add_succ_r.
    assert (Hd : Q (run (k + d)%nat)) by (apply IH; auto; intros m Hm; apply Hn; lia).
    pose proof (step_at (k + d)) as Hs.
    destruct (lab (k + d)%nat) as [l|] eqn:El; [|now rewrite Hs].
    eapply HQ; eauto. intros Hl. apply (Hn (k + d)%nat); [lia|]. exists l. auto.
Qed.

Lemma first_ctaken k d :
  (exists j, (k <= j < k + d)%nat /\ ctaken j /\ forall m, (k <= m < j)%nat -> ~ ctaken m) \/
  (forall m, (k <= m < k + d)%nat -> ~ ctaken m).
Proof.
  induction d as [|d IH].
  - right. intros m Hm. lia.
  - destruct IH as [(j & Hj & Ht & Hf)|Hno].
    + left. exists j. split; [lia|auto].
    + destruct (ctaken_dec (k + d)) as [Ht|Hnt].
      * left. exists (k + d)%nat. split; [lia|]. split; [assumption|]. intros m Hm. apply Hno. lia.
      * right. intros m Hm. destruct (Nat.eq_dec m (k + d)) as [->|]; [assumption|apply Hno; lia].
Qed.

Hypothesis Hfair : wfair lstep run lab cons_label.

(** an enabled consumer eventually moves; nobody disables it meanwhile *)
Lemma next_cons_step k :
  cons_en (run k) = true ->
  exists d, ctaken (k + d) /\ forall m, (k <= m < k + d)%nat -> ~ ctaken m.
Proof.
  intros Hen. destruct (Hfair k) as (j & Hkj & Hj).
  destruct (first_ctaken k (S (j - k))) as [(j' & Hr & Ht & Hf)|Hno].
  - exists (j' - k)%nat. replace (k + (j' - k))%nat with j' by lia. auto.
  - exfalso.
    assert (Hq : cons_en (run (k + (j - k))%nat) = true).
    { apply (seg_ind (fun s => cons_en s = true)); auto.
      - intros s l s' Hs Hk Hl. destruct (other_step s l s' 0 Hk Hl) as (_ & He & _). auto.
      - intros m Hm. apply Hno. lia. }
    replace (k + (j - k))%nat with j in Hq by lia.
    destruct Hj as [Hj|Hj].
    + apply (Hno j); [lia|exact Hj].
    + apply Hj. apply cons_en_can. exact Hq.
Qed.

(** ** An awake consumer works through the queue *)

Definition rankA (c : cpc) : nat :=
  match c with CIdle => 1 | CTry => 1 | CLen => 2 | CWait => 3 end.

Lemma deliver_when_awake x : forall n k,
  In x (q_queue (l_q (run k))) -> cons_en (run k) = true ->
  (3 * idx x (q_queue (l_q (run k))) + rankA (l_cp (run k)) <= n)%nat ->
  exists j, (k <= j)%nat /\ delivers run lab j x.
Proof.
  induction n as [n IH] using lt_wf_ind. intros k Hx Hen Hm.
  destruct (next_cons_step k Hen) as (d & Ht & Hnone).
  set (a := idx x (q_queue (l_q (run k)))) in *.
  set (c := l_cp (run k)) in *.
  assert (Hseg : In x (q_queue (l_q (run (k + d)%nat))) /\ idx x (q_queue (l_q (run (k + d)%nat))) = a /\
                 l_cp (run (k + d)%nat) = c).
  { apply (seg_ind (fun s => In x (q_queue (l_q s)) /\ idx x (q_queue (l_q s)) = a /\ l_cp s = c)); auto.
    intros s l s' (H1 & H2 & H3) Hk Hl. destruct (other_step s l s' x Hk Hl) as (Hc & _ & Hq).
    destruct (Hq H1) as (? & ?). repeat split; congruence. }
  destruct Hseg as (Hx' & Ha' & Hc').
  destruct Ht as (l & Hl & Hcl).
  pose proof (step_at (k + d)) as Hs. rewrite Hl in Hs.
  destruct (cons_step_mem _ _ _ x Hs Hcl Hx') as [(-> & Hp)|(Hx2 & Hcase)].
  - exists (k + d)%nat. split; [lia|]. split; assumption.
  - assert (Hen2 : cons_en (run (S (k + d))) = true).
    { unfold cons_en. destruct Hcase as [(_ & Hn1 & Hn2)|(_ & ->)]; [|reflexivity].
      destruct Hs; try (exfalso; destruct Hcl as [Hcl|[b Hcl]]; discriminate);
        try (rewrite H3; reflexivity); try (rewrite H4; reflexivity); try (rewrite H2; reflexivity);
        try (exfalso; destruct H; congruence). }
    assert (Hlt : (3 * idx x (q_queue (l_q (run (S (k + d))))) + rankA (l_cp (run (S (k + d)))) < n)%nat).
    { destruct Hcase as [(He & Hn1 & Hn2)|(He & Hc2)].
      - rewrite He, Ha'.
        assert (rankA (l_cp (run (S (k + d)))) < rankA c)%nat; [|lia].
        rewrite <- Hc'.
        destruct Hs; try (exfalso; destruct Hcl as [Hcl|[b Hcl]]; discriminate);
          try (exfalso; destruct H; congruence);
          repeat match goal with H : l_cp _ = _ |- _ => rewrite H end; cbn; lia.
      - rewrite Hc2. rewrite Ha' in He. cbn. unfold c in Hm. destruct (l_cp (run k)); cbn in Hm; lia. }
    destruct (IH _ Hlt (S (k + d)) Hx2 Hen2 (le_n _)) as (j & Hj & Hd).
    exists j. split; [lia|assumption].
Qed.

End Live.

(** * Delivery under fairness *)
Section Delivery.
Variable run : nat -> lstate.
Variable lab : nat -> option label.
Hypothesis Hinit : run 0%nat = l_init.
Hypothesis Hrun : is_run lstep run lab.
Hypothesis Hfair : wfair lstep run lab cons_label.

Lemma run_linv k : linv (run k).
Proof. apply linv_reachable. unfold lreach. rewrite <- Hinit. apply (run_reach lstep run lab Hrun). Qed.

(** a pending item stays pending until a [Next] pops it *)
Lemma pending_until_delivered x a : forall d,
  In x (q_queue (l_q (run a))) ->
  (exists j, (a <= j < a + d)%nat /\ delivers run lab j x) \/ In x (q_queue (l_q (run (a + d)%nat))).
Proof.
  induction d as [|d IH]; intros Hx.
  - right. now rewrite Nat.add_0_r.
  - destruct (IH Hx) as [(j & Hj & Hd)|Hin]; [left; exists j; split; [lia|assumption]|].
    rewrite Nat.add_succ_r. pose proof (step_at run lab Hrun (a + d)) as Hs.
    destruct (lab (a + d)%nat) as [l|] eqn:El; [|right; now rewrite Hs].
    destruct (cons_label_dec l) as [Hl|Hl].
    + destruct (cons_step_mem _ _ _ x Hs Hl Hin) as [(-> & Hp)|(Hx2 & _)]; [|right; assumption].
      left. exists (a + d)%nat. split; [lia|]. split; assumption.
    + destruct (other_step _ _ _ x Hs Hl) as (_ & _ & Hq). right. apply Hq. assumption.
Qed.

Lemma pp_other_step s l s' n0 p :
  stepk s l s' -> l <> LP n0 -> p <> PIdle -> l_pp s n0 = p -> l_pp s' n0 = p.
Proof.
  intros Hk Hl Hp He.
  destruct Hk; try congruence.
  - rewrite H2. destruct (Nat.eq_dec n0 n) as [->|Hne]; [congruence|]. now rewrite set_pp_other.
  - rewrite H1. destruct (Nat.eq_dec n0 n) as [->|Hne]; [congruence|]. now rewrite set_pp_other.
  - rewrite H1. destruct (Nat.eq_dec n0 n) as [->|Hne]; [congruence|]. now rewrite set_pp_other.
Qed.

Lemma label_LP_dec l n0 : {l = LP n0} + {l <> LP n0}.
Proof.
  destruct l; try (right; discriminate).
  destruct (Nat.eq_dec n n0) as [->|]; [left; reflexivity|right; congruence].
Qed.

(** while the consumer is parked with [x] pending and producer [n0] stands
    between its insert and its token, either the consumer becomes enabled or
    all of that persists *)
Lemma parked_until_token x n0 i0 k : forall d,
  l_pp (run k) n0 = PInserted i0 true -> cons_en (run k) = false -> In x (q_queue (l_q (run k))) ->
  (exists t, (k <= t <= k + d)%nat /\ cons_en (run t) = true /\ In x (q_queue (l_q (run t)))) \/
  (cons_en (run (k + d)%nat) = false /\ In x (q_queue (l_q (run (k + d)%nat))) /\
   l_pp (run (k + d)%nat) n0 = PInserted i0 true /\
   forall m, (k <= m < k + d)%nat -> lab m <> Some (LP n0)).
Proof.
  intros d Hp Hen Hx. induction d as [|d IH].
  - right. rewrite Nat.add_0_r. repeat split; auto. intros m Hm. lia.
  - destruct IH as [(t & Ht & H1 & H2)|(He & Hin & Hpp & Hno)]; [left; exists t; split; [lia|auto]|].
    rewrite Nat.add_succ_r. pose proof (step_at run lab Hrun (k + d)) as Hs.
    pose proof (Hrun (k + d)%nat) as Hraw.
    destruct (lab (k + d)%nat) as [l|] eqn:El.
    + destruct (cons_label_dec l) as [Hl|Hl].
      { rewrite (cons_dis_none _ _ He Hl) in Hraw. discriminate. }
      destruct (other_step _ _ _ x Hs Hl) as (Hcp & _ & Hq). destruct (Hq Hin) as (Hin' & _).
      destruct (cons_en (run (S (k + d)))) eqn:He'.
      { left. exists (S (k + d)). split; [lia|auto]. }
      destruct (label_LP_dec l n0) as [->|Hne].
      * exfalso. inversion Hs; subst; try congruence.
        assert (ok = true) by congruence. subst ok.
        unfold cons_en in He, He'. rewrite H3 in He'. destruct (l_cp (run (k + d)%nat)); try discriminate.
        rewrite H1 in He'. cbn in He'. rewrite orb_true_r in He'. discriminate.
      * right. repeat split; auto.
        -- eapply pp_other_step; eauto. discriminate.
        -- intros m Hm. destruct (Nat.eq_dec m (k + d)) as [->|]; [rewrite El; congruence|apply Hno; lia].
    + right. rewrite Hs. repeat split; auto.
      intros m Hm. destruct (Nat.eq_dec m (k + d)) as [->|]; [rewrite El; discriminate|apply Hno; lia].
Qed.

(** ** (1) every pending item is eventually delivered when the consumer
    and the producers are fair *)
Theorem fair_delivery :
  (forall n, wfair lstep run lab (fun l => l = LP n)) ->
  forall k x, In x (q_queue (l_q (run k))) -> exists j, (k <= j)%nat /\ delivers run lab j x.
Proof.
  intros Hpf k x Hx.
  destruct (cons_en (run k)) eqn:Hen.
  { eapply (deliver_when_awake run lab Hrun Hfair); eauto. }
  (* parked: some producer owes the token *)
  destruct (run_linv k) as [_ _ Hwake _ _ _].
  assert (Hw : l_cp (run k) = CWait /\ q_token (l_q (run k)) = false).
  { unfold cons_en in Hen. destruct (l_cp (run k)); try discriminate. split; [reflexivity|].
    destruct (q_token (l_q (run k))); [|reflexivity]. rewrite orb_true_r in Hen. discriminate. }
  destruct Hw as (Hcw & Htk).
  destruct (Hwake Hcw) as [Ht|(n0 & i0 & Hp)]; [intros E; rewrite E in Hx; destruct Hx|congruence|].
  destruct (Hpf n0 k) as (j & Hkj & Hj).
  assert (Hdel : forall t, cons_en (run t) = true -> In x (q_queue (l_q (run t))) -> (k <= t)%nat ->
                 exists j', (k <= j')%nat /\ delivers run lab j' x).
  { intros t He Hin Ht.
    destruct (deliver_when_awake run lab Hrun Hfair x _ t Hin He (le_n _)) as (j' & Hj' & Hd).
    exists j'. split; [lia|assumption]. }
  destruct (parked_until_token x n0 i0 k (j - k) Hp Hen Hx) as [(t & Ht & He & Hin)|(_ & _ & Hpp & _)].
  { apply (Hdel t); auto. lia. }
  replace (k + (j - k))%nat with j in Hpp by lia.
  destruct Hj as [(l & Hl & ->)|Hj].
  - destruct (parked_until_token x n0 i0 k (S (j - k)) Hp Hen Hx) as [(t & Ht & He & Hin)|(_ & _ & _ & Hno)].
    + apply (Hdel t); auto. lia.
    + exfalso. apply (Hno j); [lia|assumption].
  - exfalso. apply Hj. exists (LP n0). split; [reflexivity|]. cbn. rewrite Hpp. discriminate.
Qed.

Lemma in_keys_aq_insert i q : In i (map fst (fst (aq_insert i q))).
Proof.
  unfold aq_insert. destruct (aq_mem i q) eqn:E; cbn.
  - rewrite keys_bump. apply aq_mem_In. assumption.
  - rewrite map_app. apply in_or_app. right. left. reflexivity.
Qed.

(** the locked insert of step [k] leaves its item pending *)
Lemma insert_step_pending k n i :
  lab k = Some (LP n) -> l_pp (run k) n = PChecked i -> In i (q_queue (l_q (run (S k)))).
Proof.
  intros Hl Hp. pose proof (step_at run lab Hrun k) as Hs. rewrite Hl in Hs.
  destruct (run_linv k) as [Hwf _ _ _ _ _].
  inversion Hs; subst; try congruence.
  assert (i0 = i) by congruence. subst i0.
  pose proof (locked_insert_spec (l_q (run k)) i Hwf) as Hli. cbn zeta in Hli.
  destruct Hli as ((Hk & _) & Hc & _). rewrite H1. rewrite <- Hk, Hc. apply in_keys_aq_insert.
Qed.

Theorem fair_delivery_insert :
  (forall n, wfair lstep run lab (fun l => l = LP n)) ->
  forall k n i, lab k = Some (LP n) -> l_pp (run k) n = PChecked i ->
  exists j, (k < j)%nat /\ delivers run lab j i.
Proof.
  intros Hpf k n i Hl Hp.
  destruct (fair_delivery Hpf (S k) i (insert_step_pending k n i Hl Hp)) as (j & Hj & Hd).
  exists j. split; [lia|assumption].
Qed.

(** ** with a fair consumer alone: an Insert that has returned "new" is
    delivered (its token is in the channel, or the consumer is not parked) *)
Theorem fair_delivery_completed :
  forall k0 k1 n i,
    lab k0 = Some (LP n) -> l_pp (run k0) n = PChecked i ->
    (k0 < k1)%nat -> lab k1 = Some (LP n) -> l_pp (run k1) n = PInserted i true ->
    exists j, (k0 < j)%nat /\ delivers run lab j i.
Proof.
  intros k0 k1 n i Hl0 Hp0 Hlt Hl1 Hp1.
  pose proof (insert_step_pending k0 n i Hl0 Hp0) as Hin.
  destruct (pending_until_delivered i (S k0) (S k1 - S k0) Hin) as [(j & Hj & Hd)|Hin1].
  { exists j. split; [lia|assumption]. }
  replace (S k0 + (S k1 - S k0))%nat with (S k1) in Hin1 by lia.
  assert (Hen : cons_en (run (S k1)) = true).
  { pose proof (step_at run lab Hrun k1) as Hs. rewrite Hl1 in Hs.
    inversion Hs; subst; try congruence.
    assert (ok = true) by congruence. subst ok.
    unfold cons_en. destruct (l_cp (run (S k1))); auto. rewrite H1. cbn.
    rewrite orb_true_r. reflexivity. }
  destruct (deliver_when_awake run lab Hrun Hfair i _ (S k1) Hin1 Hen (le_n _)) as (j & Hj & Hd).
  exists j. split; [lia|assumption].
Qed.
End Delivery.

(** * (3) The unbuffered variant: the wake-up channel has no buffer

    [NewQueue] with [inserted: make(chan struct{})].  A non-blocking send on an
    unbuffered channel succeeds only if the receiver is already parked in its
    [select]; otherwise the token is dropped.  The variant needs to tell a
    consumer that has seen the queue empty but has not parked yet ([CWait],
    not parked) from one that is parked: state = the state above + a flag.
    The buffered token is never set.  Differences to [lstep]:
      - [LP n] from [PInserted i true]: if the consumer is parked it is handed
        the token (it continues at [CTry]), else nothing happens;
      - [LSel STok] at [CWait], not parked, nothing else ready: the consumer
        parks (the select blocks). *)

Record ustate := mkU { u_s : lstate; u_parked : bool }.

Definition u_init : ustate := mkU l_init false.

Definition ustep (u : ustate) (l : label) : option ustate :=
  let s := u_s u in
  let lift := match lstep s l with
              | Some s' => Some (mkU s' (match l_cp s' with CWait => u_parked u | _ => false end))
              | None => None
              end in
  match l with
  | LP n =>
      match l_pp s n with
      | PInserted i ok =>
          let woke := ok && u_parked u && match l_cp s with CWait => true | _ => false end in
          Some (mkU (mkL (l_q s) (set_pp (l_pp s) n PIdle) (if woke then CTry else l_cp s)
                         (l_cancelled s) (ERetIns n i (IOk ok) :: l_hist s))
                    (if woke then false else u_parked u))
      | _ => lift
      end
  | LSel STok =>
      match l_cp s with
      | CWait => if negb (u_parked u) && negb (l_cancelled s) && negb (q_closed (l_q s))
                 then Some (mkU s true) else None
      | _ => None
      end
  | _ => lift
  end.

Definition udelivers (run : nat -> ustate) (lab : nat -> option label) (j : nat) (x : item) : Prop :=
  lab j = Some LC /\ pops (u_s (run j)) x.

(** the witness: the consumer finds the queue empty; a producer inserts 5 and
    sends its token before the consumer has parked (dropped); Insert returns
    (true, nil); the consumer parks; nothing else ever happens. *)
Definition u_labs : list label := [LC; LCall 0 5; LP 0; LP 0; LSel STok].

Definition u_lab (k : nat) : option label := nth_error u_labs k.

Definition u_run (k : nat) : ustate :=
  match run ustep u_init (firstn k u_labs) with
  | Some u => u
  | None => u_init
  end.

Lemma u_is_run : is_run ustep u_run u_lab.
Proof.
  intros k. do 5 (destruct k as [|k]; [vm_compute; reflexivity|]).
  unfold u_lab, u_run. cbn [nth_error u_labs firstn]. destruct k; reflexivity.
Qed.

Lemma u_run_late k : (5 <= k)%nat -> u_run k = u_run 5.
Proof.
  intros H. do 5 (destruct k as [|k]; [lia|]). unfold u_run. cbn [firstn u_labs]. destruct k; reflexivity.
Qed.

Lemma u_parked_disabled l : cons_label l -> ustep (u_run 5) l = None.
Proof. intros [->|[b ->]]; [|destruct b]; vm_compute; reflexivity. Qed.

Lemma u_idle n : ustep (u_run 5) (LP n) = None.
Proof. destruct n as [|n]; vm_compute; reflexivity. Qed.

Theorem unbuffered_delivery_refuted :
  exists run lab,
    run 0%nat = u_init /\ is_run ustep run lab /\
    wfair ustep run lab cons_label /\
    (forall n, wfair ustep run lab (fun l => l = LP n)) /\
    (* the Insert of 5 by producer 0: locked section at step 2, returns "new" at step 3 *)
    lab 2%nat = Some (LP 0) /\ l_pp (u_s (run 2%nat)) 0%nat = PChecked 5 /\
    lab 3%nat = Some (LP 0) /\ l_pp (u_s (run 3%nat)) 0%nat = PInserted 5 true /\
    (* 5 stays pending for ever and is never delivered *)
    (forall j, (3 <= j)%nat -> q_queue (l_q (u_s (run j))) = [5]) /\
    (forall j, ~ udelivers run lab j 5).
Proof.
  exists u_run, u_lab.
  split; [reflexivity|]. split; [exact u_is_run|].
  split.
  { intros k. exists (Nat.max k 5). split; [lia|]. right.
    rewrite u_run_late by lia. intros (l & Hl & Hs). apply Hs. apply u_parked_disabled. assumption. }
  split.
  { intros n k. exists (Nat.max k 5). split; [lia|]. right.
    rewrite u_run_late by lia. intros (l & -> & Hs). apply Hs. apply u_idle. }
  split; [reflexivity|]. split; [vm_compute; reflexivity|].
  split; [reflexivity|]. split; [vm_compute; reflexivity|].
  split.
  { intros j Hj. do 3 (destruct j as [|j]; [lia|]).
    destruct j as [|j]; [vm_compute; reflexivity|]. destruct j as [|j]; [vm_compute; reflexivity|].
    rewrite u_run_late by lia. vm_compute. reflexivity. }
  intros j (Hl & _ & (d & q' & Hn)).
  destruct j as [|j]; [vm_compute in Hn; discriminate|].
  do 4 (destruct j as [|j]; [vm_compute in Hl; discriminate|]).
  unfold u_lab in Hl. cbn [nth_error u_labs] in Hl. destruct j; discriminate.
Qed.

(** hence the delivery theorem, read over the unbuffered variant, is false *)
Corollary unbuffered_fair_delivery_false :
  ~ (forall run lab,
       run 0%nat = u_init -> is_run ustep run lab -> wfair ustep run lab cons_label ->
       (forall n, wfair ustep run lab (fun l => l = LP n)) ->
       forall k x, In x (q_queue (l_q (u_s (run k)))) -> exists j, (k <= j)%nat /\ udelivers run lab j x).
Proof.
  intros H.
  destruct unbuffered_delivery_refuted as (run & lab & H0 & Hr & Hf & Hp & _ & _ & _ & _ & Hq & Hn).
  destruct (H run lab H0 Hr Hf Hp 3%nat 5) as (j & _ & Hd).
  - rewrite Hq by lia. left. reflexivity.
  - exact (Hn j Hd).
Qed.

(** * (2) Close and Cancel wake a consumer that is inside [Next]

    Inside one call the consumer may go round the loop more than once: a
    producer whose item was popped before it sent its token leaves a stale
    token, the select may take it, [next()] finds nothing, back to the select.
    Each round uses up one such producer, so the measure counts them: finitely
    many threads are inside a call ([supp]). *)

Definition supp (s : lstate) (L : list nat) : Prop :=
  NoDup L /\ forall n, l_pp s n <> PIdle -> In n L.

Lemma supp_step s l s' L : supp s L -> stepk s l s' -> exists L', supp s' L'.
Proof.
  intros [Hnd Hs] Hk.
  assert (Hset : forall n p, In n L -> l_pp s' = set_pp (l_pp s) n p -> supp s' L).
  { intros n p Hin He. split; [assumption|]. intros m Hm. rewrite He in Hm.
    destruct (Nat.eq_dec m n) as [->|Hne]; [assumption|]. rewrite set_pp_other in Hm by assumption. auto. }
  assert (Hsame : l_pp s' = l_pp s -> supp s' L).
  { intros He. split; [assumption|]. intros m Hm. rewrite He in Hm. auto. }
  destruct Hk; eauto.
  - destruct (in_dec Nat.eq_dec n L) as [Hin|Hnin]; [exists L; eapply Hset; eauto|].
    exists (n :: L). split; [constructor; assumption|]. intros m Hm. rewrite H2 in Hm.
    destruct (Nat.eq_dec m n) as [->|Hne]; [left; reflexivity|]. rewrite set_pp_other in Hm by assumption.
    right. auto.
  - exists L. eapply Hset; eauto. apply Hs. congruence.
  - exists L. eapply Hset; eauto. apply Hs. congruence.
Qed.

Lemma supp_reach s : lreach s -> exists L, supp s L.
Proof.
  apply (invariant lstep (fun s => exists L, supp s L) l_init).
  - exists []. split; [constructor|]. intros n H. exfalso. apply H. reflexivity.
  - intros s1 l s2 [L HL] Hs. eapply supp_step; [eassumption|apply lstep_k; eassumption].
Qed.

Definition is_win (p : ppc) : bool := match p with PInserted _ true => true | _ => false end.

Definition cnt (f : nat -> ppc) (L : list nat) : nat := List.length (filter (fun n => is_win (f n)) L).

Lemma cnt_set_notin f n p L : ~ In n L -> cnt (set_pp f n p) L = cnt f L.
Proof.
  unfold cnt. induction L as [|m L IH]; cbn; [reflexivity|]. intros Hn.
  rewrite set_pp_other by (intros ->; apply Hn; left; reflexivity).
  destruct (is_win (f m)); cbn; rewrite IH; auto.
Qed.

Lemma cnt_set_same f n p L : is_win p = is_win (f n) -> cnt (set_pp f n p) L = cnt f L.
Proof.
  unfold cnt. intros He. induction L as [|m L IH]; cbn; [reflexivity|].
  destruct (Nat.eq_dec m n) as [->|Hne].
  - rewrite set_pp_same, He. destruct (is_win (f n)); cbn; rewrite IH; reflexivity.
  - rewrite set_pp_other by assumption. destruct (is_win (f m)); cbn; rewrite IH; reflexivity.
Qed.

Lemma cnt_set_dec f n p L :
  NoDup L -> In n L -> is_win (f n) = true -> is_win p = false -> S (cnt (set_pp f n p) L) = cnt f L.
Proof.
  unfold cnt. intros Hnd Hin Hw Hp. induction L as [|m L IH]; [destruct Hin|].
  inversion Hnd as [|? ? Hni Hnd']; subst. cbn.
  destruct (Nat.eq_dec m n) as [->|Hne].
  - rewrite set_pp_same, Hp, Hw. cbn. f_equal. apply (cnt_set_notin f n p L Hni).
  - rewrite set_pp_other by assumption. destruct Hin as [E|Hin]; [congruence|].
    destruct (is_win (f m)); cbn; rewrite <- IH; auto.
Qed.

Definition rankB (c : cpc) : nat :=
  match c with CLen => 1 | CWait => 2 | CTry => 3 | CIdle => 3 end.

Definition mu_c (q : list item) (c : nat) (tok : bool) (cp : cpc) : nat :=
  match q with
  | [] => 4 * (c + (if tok then 1 else 0) + 1) + rankB cp
  | _ :: _ => rankA cp
  end.

Definition mu (L : list nat) (s : lstate) : nat :=
  mu_c (q_queue (l_q s)) (cnt (l_pp s) L) (q_token (l_q s)) (l_cp s).

Definition winv (L : list nat) (s : lstate) : Prop :=
  q_queue (l_q s) = [] -> forall n, is_win (l_pp s n) = true -> In n L.

Definition awake (s : lstate) : Prop := q_closed (l_q s) = true \/ l_cancelled s = true.

Lemma rankA_le c : (rankA c <= 3)%nat.
Proof. destruct c; cbn; lia. Qed.

Lemma mu_c_nonempty_le q c tok cp q0 c0 tok0 : q <> [] -> (mu_c q c tok cp <= mu_c q0 c0 tok0 cp)%nat.
Proof.
  intros Hq. destruct q as [|x q]; [congruence|]. cbn. pose proof (rankA_le cp).
  destruct q0; cbn; [lia|lia].
Qed.

Lemma other_mu L s l s' :
  stepk s l s' -> ~ cons_label l -> NoDup L -> qwf (l_q s) -> winv L s ->
  winv L s' /\ (mu L s' <= mu L s)%nat /\ (awake s -> awake s') /\ l_cp s' = l_cp s.
Proof.
  intros Hk Hn Hnd Hwf Hw. unfold mu, winv, awake in *.
  destruct Hk; try (exfalso; apply Hn; solve [left; reflexivity | right; eauto]).
  - (* refused *) rewrite H1, H2, H3, H4. auto.
  - (* call *)
    rewrite H1, H3, H4. repeat split; auto.
    + intros Hq m Hm. rewrite H2 in Hm. destruct (Nat.eq_dec m n) as [->|Hne].
      * rewrite set_pp_same in Hm. discriminate.
      * rewrite set_pp_other in Hm by assumption. auto.
    + rewrite H2, cnt_set_same; [lia|]. rewrite H. reflexivity.
  - (* locked insert: the queue is not empty afterwards *)
    destruct (locked_insert_fields (l_q s) i) as (Hq & Ht & Hc).
    assert (Hne : q_queue (l_q s') <> []).
    { rewrite H0. destruct Hq as [E|E]; rewrite E.
      - destruct Hwf as [Hk _]. unfold locked_insert in E.
        destruct (cget i (q_counts (l_q s))) eqn:Eg; cbn in E.
        + intros Hq0. rewrite <- Hk in Hq0. destruct (q_counts (l_q s)); [discriminate|discriminate].
        + intros Hq0. symmetry in E. rewrite Hq0 in E. destruct (q_queue (l_q s)); discriminate.
      - destruct (q_queue (l_q s)); discriminate. }
    rewrite H2, H3. repeat split; auto.
    + intros Hq0. congruence.
    + apply mu_c_nonempty_le. assumption.
    + rewrite H0, Hc. auto.
  - (* token send, return *)
    assert (Hqq : q_queue (l_q s') = q_queue (l_q s)) by (rewrite H0; destruct ok; reflexivity).
    assert (Hcl : q_closed (l_q s') = q_closed (l_q s)) by (rewrite H0; destruct ok; reflexivity).
    rewrite H2, H3, Hqq, Hcl. repeat split; auto.
    + intros Hq0 m Hm. rewrite H1 in Hm. destruct (Nat.eq_dec m n) as [->|Hne].
      * rewrite set_pp_same in Hm. discriminate.
      * rewrite set_pp_other in Hm by assumption. auto.
    + destruct (q_queue (l_q s)) as [|x q] eqn:Eq; cbn; [|lia].
      rewrite H1. destruct ok.
      * assert (Hin : In n L) by (apply Hw; [reflexivity|rewrite H; reflexivity]).
        rewrite <- (cnt_set_dec (l_pp s) n PIdle L Hnd Hin); [|rewrite H; reflexivity|reflexivity].
        rewrite H0. cbn. destruct (q_token (l_q s)); lia.
      * rewrite cnt_set_same by (rewrite H; reflexivity). rewrite H0. lia.
  - (* close *)
    destruct (q_close_queue (l_q s)) as (Hq & Ht & Hc).
    rewrite H, H0, H1, H2, Hq, Ht. repeat split; auto.
  - (* cancel *)
    rewrite H, H0, H1, H2. repeat split; auto.
Qed.

Lemma cons_mu L s l s' :
  stepk s l s' -> cons_label l -> l_cp s <> CIdle -> winv L s -> awake s ->
  l_cp s' = CIdle \/
  (l_cp s' <> CIdle /\ winv L s' /\ (mu L s' < mu L s)%nat /\ awake s').
Proof.
  intros Hk Hl Hc Hw Ha. unfold mu, winv, awake in *.
  destruct Hk; try (exfalso; destruct Hl as [Hl|[b Hl]]; discriminate); auto.
  - (* next() found nothing *)
    destruct H as [H|H]; [congruence|]. apply locked_next_none in H0.
    right. rewrite H1, H2, H3, H4, H, H0. cbn. repeat split; auto; try discriminate. lia.
  - (* Len() <> 0 *)
    right. rewrite H1, H2, H3, H4, H. destruct (q_queue (l_q s)); [congruence|]. cbn.
    repeat split; auto; try discriminate.
  - (* token taken *)
    right. rewrite H1, H2, H3, H4, H, H0. cbn [take_token q_queue q_token q_closed].
    repeat split; auto; try discriminate.
    destruct (q_queue (l_q s)); cbn; lia.
  - (* closed case *)
    right. rewrite H1, H2, H3, H4, H. repeat split; auto; try discriminate.
    destruct (q_queue (l_q s)); cbn; lia.
Qed.

Section Wake.
Variable run : nat -> lstate.
Variable lab : nat -> option label.
Hypothesis Hinit : run 0%nat = l_init.
Hypothesis Hrun : is_run lstep run lab.
Hypothesis Hfair : wfair lstep run lab cons_label.

(** step [j] is the consumer returning from [Next] *)
Definition returns (j : nat) : Prop :=
  ctaken lab j /\ l_cp (run j) <> CIdle /\ l_cp (run (S j)) = CIdle.

Lemma awake_en s : awake s -> cons_en s = true.
Proof.
  unfold awake, cons_en. destruct (l_cp s); auto. intros [H|H]; rewrite H; [apply orb_true_r|reflexivity].
Qed.

Lemma wake_aux L : NoDup L -> forall n k,
  l_cp (run k) <> CIdle -> awake (run k) -> winv L (run k) -> (mu L (run k) <= n)%nat ->
  exists j, (k <= j)%nat /\ returns j.
Proof.
  intros Hnd. induction n as [n IH] using lt_wf_ind. intros k Hc Ha Hw Hm.
  destruct (next_cons_step run lab Hrun Hfair k (awake_en _ Ha)) as (d & Ht & Hnone).
  assert (Hseg : forall e, (e <= d)%nat ->
            l_cp (run (k + e)%nat) <> CIdle /\ awake (run (k + e)%nat) /\ winv L (run (k + e)%nat) /\
            (mu L (run (k + e)%nat) <= n)%nat).
  { induction e as [|e IHe]; intros He.
    - rewrite Nat.add_0_r. auto.
    - destruct IHe as (H1 & H2 & H3 & H4); [lia|].
      rewrite Nat.add_succ_r. pose proof (step_at run lab Hrun (k + e)) as Hs.
      destruct (lab (k + e)%nat) as [l|] eqn:El; [|rewrite Hs; auto].
      assert (Hl : ~ cons_label l).
      { intros Hl. apply (Hnone (k + e)%nat); [lia|]. exists l. auto. }
      destruct (run_linv run lab Hinit Hrun (k + e)) as [Hwf _ _ _ _ _].
      destruct (other_mu L _ _ _ Hs Hl Hnd Hwf H3) as (G1 & G2 & G3 & G4).
      repeat split; auto; [congruence|lia]. }
  destruct (Hseg d (le_n _)) as (H1 & H2 & H3 & H4).
  destruct Ht as (l & Hl & Hcl).
  pose proof (step_at run lab Hrun (k + d)) as Hs. rewrite Hl in Hs.
  destruct (cons_mu L _ _ _ Hs Hcl H1 H3 H2) as [Hret|(G1 & G2 & G3 & G4)].
  - exists (k + d)%nat. split; [lia|]. split; [exists l; auto|auto].
  - destruct (IH (mu L (run (S (k + d)))) ltac:(lia) (S (k + d)) G1 G4 G2 (le_n _)) as (j & Hj & Hr).
    exists j. split; [lia|assumption].
Qed.

(** ** a consumer inside [Next] returns once the queue is closed or its
    context is cancelled *)
Theorem wake_returns k :
  l_cp (run k) <> CIdle -> awake (run k) -> exists j, (k <= j)%nat /\ returns j.
Proof.
  intros Hc Ha.
  assert (Hr : lreach (run k)).
  { unfold lreach. rewrite <- Hinit. apply (run_reach lstep run lab Hrun). }
  destruct (supp_reach _ Hr) as (L & Hnd & Hs).
  apply (wake_aux L Hnd (mu L (run k)) k Hc Ha); [|apply le_n].
  intros _ n Hn. apply Hs. intros E. rewrite E in Hn. discriminate.
Qed.

(** which step a return is *)
Lemma returns_cases j :
  returns j ->
  (lab j = Some LC /\ l_cp (run j) = CLen /\ q_queue (l_q (run j)) = [] /\
   l_hist (run (S j)) = ERetNext NClosed :: l_hist (run j)) \/
  (lab j = Some LC /\ exists x, pops (run j) x /\
                                q_queue (l_q (run j)) = x :: q_queue (l_q (run (S j)))) \/
  (lab j = Some (LSel SCtx) /\ l_cancelled (run j) = true).
Proof.
  intros ((l & Hl & Hcl) & Hc & Hc').
  pose proof (step_at run lab Hrun j) as Hs. rewrite Hl in Hs.
  destruct Hs; try (exfalso; destruct Hcl as [Hcl|[b Hcl]]; discriminate); try congruence.
  - right; left. split; [assumption|]. exists i. split.
    + split; [assumption|eauto].
    + destruct (locked_next_some _ _ _ _ H0) as (Hq & _). rewrite H1. exact Hq.
  - left. auto.
  - right; right. auto.
Qed.

(** ** after Close, with no Insert between its closed check and its locked
    section, the consumer drains the queue and is told "closed" *)

Definition quiet (s : lstate) : Prop :=
  q_closed (l_q s) = true /\ forall n i, l_pp s n <> PChecked i.

Lemma quiet_step s l s' :
  stepk s l s' -> quiet s ->
  quiet s' /\ (List.length (q_queue (l_q s')) <= List.length (q_queue (l_q s)))%nat.
Proof.
  intros Hk [Hc Hp]. unfold quiet.
  destruct Hk; try congruence.
  - rewrite H1, H2. auto.
  - exfalso. eapply Hp; eauto.
  - assert (Hq : q_queue (l_q s') = q_queue (l_q s) /\ q_closed (l_q s') = true).
    { rewrite H0. destruct ok; cbn; auto. }
    destruct Hq as (Hq & Hc'). rewrite Hq. split; [|lia]. split; [assumption|].
    intros m j. rewrite H1. destruct (Nat.eq_dec m n) as [->|Hne].
    + rewrite set_pp_same. discriminate.
    + rewrite set_pp_other by assumption. apply Hp.
  - destruct (locked_next_some _ _ _ _ H0) as (Hq & _ & Hc'). rewrite H1, H2, Hq, Hc', Hc. cbn. auto.
  - rewrite H1, H2. auto.
  - rewrite H1, H2. auto.
  - rewrite H1, H2. auto.
  - rewrite H1, H2. auto.
  - rewrite H1, H2. cbn. auto.
  - rewrite H1, H2. auto.
  - destruct (q_close_queue (l_q s)) as (Hq & _ & Hc'). rewrite H, H0, Hq, Hc'. auto.
  - rewrite H, H0. auto.
Qed.

Lemma quiet_later k : quiet (run k) -> forall d,
  quiet (run (k + d)%nat) /\
  (List.length (q_queue (l_q (run (k + d)%nat))) <= List.length (q_queue (l_q (run k))))%nat.
Proof.
  intros Hq. induction d as [|d (IH1 & IH2)].
  - rewrite Nat.add_0_r. auto.
  - rewrite Nat.add_succ_r. pose proof (step_at run lab Hrun (k + d)) as Hs.
    destruct (lab (k + d)%nat) as [l|]; [|rewrite Hs; auto].
    destruct (quiet_step _ _ _ Hs IH1). split; [assumption|lia].
Qed.

Theorem close_drains :
  (forall j, l_cancelled (run j) = false) ->
  forall k, quiet (run k) ->
  exists j, (k <= j)%nat /\ lab j = Some LC /\ l_cp (run j) = CLen /\ q_queue (l_q (run j)) = [] /\
            l_hist (run (S j)) = ERetNext NClosed :: l_hist (run j).
Proof.
  intros Hnc.
  assert (Hmain : forall n k, quiet (run k) -> (List.length (q_queue (l_q (run k))) <= n)%nat ->
            exists j, (k <= j)%nat /\ lab j = Some LC /\ l_cp (run j) = CLen /\ q_queue (l_q (run j)) = [] /\
                      l_hist (run (S j)) = ERetNext NClosed :: l_hist (run j)).
  { induction n as [n IH] using lt_wf_ind. intros k Hq Hn.
    (* from a return: either the closed one, or an item (shorter queue) *)
    assert (Hret : forall j, (k <= j)%nat -> returns j ->
              exists j', (k <= j')%nat /\ lab j' = Some LC /\ l_cp (run j') = CLen /\
                         q_queue (l_q (run j')) = [] /\
                         l_hist (run (S j')) = ERetNext NClosed :: l_hist (run j')).
    { intros j Hj Hr. destruct (returns_cases j Hr) as [(H1 & H2 & H3 & H4)|[(H1 & x & _ & Hqx)|(_ & Hca)]].
      - exists j. auto.
      - destruct (quiet_later k Hq (j - k)) as (Hqj & Hlen).
        replace (k + (j - k))%nat with j in * by lia.
        assert (Hqs : quiet (run (S j))).
        { pose proof (step_at run lab Hrun j) as Hs. rewrite H1 in Hs. apply (quiet_step _ _ _ Hs Hqj). }
        rewrite Hqx in Hlen. cbn in Hlen.
        destruct (IH (List.length (q_queue (l_q (run (S j))))) ltac:(lia) (S j) Hqs (le_n _))
          as (j' & Hj' & Hrest).
        exists j'. split; [lia|assumption].
      - rewrite Hnc in Hca. discriminate. }
    destruct (l_cp (run k)) eqn:Ec.
    - (* between calls: the next call *)
      assert (Hen : cons_en (run k) = true) by (unfold cons_en; rewrite Ec; reflexivity).
      destruct (next_cons_step run lab Hrun Hfair k Hen) as (d & (l & Hl & Hcl) & Hnone).
      assert (Hcd : l_cp (run (k + d)%nat) = CIdle).
      { rewrite <- Ec. apply (seg_ind run lab Hrun (fun s => l_cp s = l_cp (run k))); auto.
        intros s l0 s' Hs Hk Hl0. destruct (other_step s l0 s' 0 Hk Hl0) as (Hc & _). congruence. }
      destruct (quiet_later k Hq d) as (Hqd & Hlen).
      pose proof (step_at run lab Hrun (k + d)) as Hs. rewrite Hl in Hs.
      assert (Hqs : quiet (run (S (k + d)))) by apply (quiet_step _ _ _ Hs Hqd).
      inversion Hs; subst; try (exfalso; destruct Hcl as [Hcl|[b Hcl]]; discriminate); try congruence.
      + (* popped an item at once *)
        destruct (locked_next_some _ _ _ _ H0) as (Hqx & _).
        rewrite Hqx in Hlen. cbn in Hlen.
        destruct (IH (List.length (q_queue (l_q (run (S (k + d)))))) ltac:(lia) (S (k + d)) Hqs (le_n _))
          as (j' & Hj' & Hrest).
        exists j'. split; [lia|assumption].
      + (* waiting: woken by the close *)
        destruct (wake_returns (S (k + d))) as (j & Hj & Hr).
        * rewrite H3. discriminate.
        * left. apply Hqs.
        * destruct (Hret j ltac:(lia) Hr) as (j' & Hj' & Hrest). exists j'. auto.
    - destruct (wake_returns k) as (j & Hj & Hr); [rewrite Ec; discriminate|left; apply Hq|].
      apply (Hret j Hj Hr).
    - destruct (wake_returns k) as (j & Hj & Hr); [rewrite Ec; discriminate|left; apply Hq|].
      apply (Hret j Hj Hr).
    - destruct (wake_returns k) as (j & Hj & Hr); [rewrite Ec; discriminate|left; apply Hq|].
      apply (Hret j Hj Hr). }
  intros k Hq. eapply Hmain; eauto.
Qed.

(** ** a consumer inside [Next] whose context is cancelled returns *)
Theorem cancel_returns k :
  l_cp (run k) <> CIdle -> l_cancelled (run k) = true -> exists j, (k <= j)%nat /\ returns j.
Proof. intros Hc Ha. apply wake_returns; [assumption|right; assumption]. Qed.

End Wake.

(** * Examples: the hypotheses are satisfiable; producer fairness is needed
    for coalesced inserts *)

(** a fair run: Insert(5) completes, the consumer delivers it, calls [Next]
    again, finds the queue empty, takes the stale token, finds the queue empty
    again and parks; then nothing moves *)
Definition e1_labs : list label := [LCall 0 5; LP 0; LP 0; LC; LC; LSel STok; LC].
Definition e1_lab (k : nat) : option label := nth_error e1_labs k.
Definition e1_run (k : nat) : lstate :=
  match run lstep l_init (firstn k e1_labs) with Some s => s | None => l_init end.

Lemma e1_is_run : is_run lstep e1_run e1_lab.
Proof.
  intros k. do 7 (destruct k as [|k]; [vm_compute; reflexivity|]).
  unfold e1_lab, e1_run. cbn [nth_error e1_labs firstn]. destruct k; reflexivity.
Qed.

Lemma e1_late k : (7 <= k)%nat -> e1_run k = e1_run 7.
Proof.
  intros H. do 7 (destruct k as [|k]; [lia|]). unfold e1_run. cbn [firstn e1_labs]. destruct k; reflexivity.
Qed.

Example ex_fair_run :
  exists run lab,
    run 0%nat = l_init /\ is_run lstep run lab /\ wfair lstep run lab cons_label /\
    (forall n, wfair lstep run lab (fun l => l = LP n)) /\
    In 5 (q_queue (l_q (run 2%nat))) /\ delivers run lab 3 5.
Proof.
  exists e1_run, e1_lab. split; [reflexivity|]. split; [exact e1_is_run|].
  split.
  { intros k. exists (Nat.max k 7). split; [lia|]. right. rewrite e1_late by lia.
    intros (l & [->|[b ->]] & Hs); apply Hs; [|destruct b]; vm_compute; reflexivity. }
  split.
  { intros n k. exists (Nat.max k 7). split; [lia|]. right. rewrite e1_late by lia.
    intros (l & -> & Hs). apply Hs. destruct n; vm_compute; reflexivity. }
  split; [vm_compute; auto|].
  split; [reflexivity|]. split; [left; vm_compute; reflexivity|].
  eexists. eexists. vm_compute. reflexivity.
Qed.

(** with a fair consumer but an unfair producer, a completed *coalesced*
    Insert need not be delivered: producer 0 inserts 5 as new and stalls
    before its token; producer 1's Insert(5) coalesces and returns (no token);
    the consumer stays parked. *)
Definition e2_labs : list label := [LC; LCall 0 5; LP 0; LCall 1 5; LP 1; LP 1].
Definition e2_lab (k : nat) : option label := nth_error e2_labs k.
Definition e2_run (k : nat) : lstate :=
  match run lstep l_init (firstn k e2_labs) with Some s => s | None => l_init end.

Lemma e2_is_run : is_run lstep e2_run e2_lab.
Proof.
  intros k. do 6 (destruct k as [|k]; [vm_compute; reflexivity|]).
  unfold e2_lab, e2_run. cbn [nth_error e2_labs firstn]. destruct k; reflexivity.
Qed.

Lemma e2_late k : (6 <= k)%nat -> e2_run k = e2_run 6.
Proof.
  intros H. do 6 (destruct k as [|k]; [lia|]). unfold e2_run. cbn [firstn e2_labs]. destruct k; reflexivity.
Qed.

Theorem fair_delivery_consumer_only_refuted :
  exists run lab,
    run 0%nat = l_init /\ is_run lstep run lab /\ wfair lstep run lab cons_label /\
    (* Insert(5) by producer 1: locked section at step 4 (coalesced), returns at step 5 *)
    lab 4%nat = Some (LP 1) /\ l_pp (run 4%nat) 1%nat = PChecked 5 /\
    lab 5%nat = Some (LP 1) /\ l_pp (run 5%nat) 1%nat = PInserted 5 false /\
    (forall j, (3 <= j)%nat -> q_queue (l_q (run j)) = [5]) /\
    (forall j, ~ delivers run lab j 5) /\
    (* producer 0 is the unfair one: for ever between its insert and its token *)
    (forall j, (3 <= j)%nat -> l_pp (run j) 0%nat = PInserted 5 true).
Proof.
  exists e2_run, e2_lab. split; [reflexivity|]. split; [exact e2_is_run|].
  split.
  { intros k. exists (Nat.max k 6). split; [lia|]. right. rewrite e2_late by lia.
    intros (l & [->|[b ->]] & Hs); apply Hs; [|destruct b]; vm_compute; reflexivity. }
  split; [reflexivity|]. split; [vm_compute; reflexivity|].
  split; [reflexivity|]. split; [vm_compute; reflexivity|].
  split.
  { intros j Hj. do 3 (destruct j as [|j]; [lia|]).
    do 3 (destruct j as [|j]; [vm_compute; reflexivity|]).
    rewrite e2_late by lia. vm_compute. reflexivity. }
  split.
  { intros j (Hl & _ & (d & q' & Hn)).
    destruct j as [|j]; [vm_compute in Hn; discriminate|].
    do 5 (destruct j as [|j]; [vm_compute in Hl; discriminate|]).
    unfold e2_lab in Hl. cbn [nth_error e2_labs] in Hl. destruct j; discriminate. }
  intros j Hj. do 3 (destruct j as [|j]; [lia|]).
  do 3 (destruct j as [|j]; [vm_compute; reflexivity|]).
  rewrite e2_late by lia. vm_compute. reflexivity.
Qed.

(** a fair run for [close_drains]: Insert(5) completes, Close, and the
    consumer calls [Next] for ever (5, then "closed" again and again).  The
    run is generated by a scheduling policy that is enabled in every state. *)
Definition e3_pol (s : lstate) : label :=
  match l_pp s 0%nat with
  | PIdle =>
      if q_closed (l_q s)
      then match l_cp s with CWait => LSel SClosed | _ => LC end
      else match l_hist s with [] => LCall 0 5 | _ => LClose end
  | _ => LP 0
  end.

Fixpoint e3_run (k : nat) : lstate :=
  match k with
  | O => l_init
  | S k' => match lstep (e3_run k') (e3_pol (e3_run k')) with
            | Some s => s
            | None => e3_run k'
            end
  end.

Definition e3_lab (k : nat) : option label := Some (e3_pol (e3_run k)).

Lemma e3_pol_enabled s : lstep s (e3_pol s) <> None.
Proof.
  unfold e3_pol. destruct (l_pp s 0%nat) eqn:Ep.
  - destruct (q_closed (l_q s)) eqn:Ec.
    + destruct (l_cp s) eqn:Ecp; cbn; rewrite Ecp, ?Ec; try discriminate.
      destruct (Nat.eqb (q_len (l_q s)) 0); discriminate.
    + destruct (l_hist s); cbn; rewrite ?Ep, ?Ec; discriminate.
  - cbn. rewrite Ep. destruct (locked_insert (l_q s) i). discriminate.
  - cbn. rewrite Ep. discriminate.
Qed.

Lemma e3_is_run : is_run lstep e3_run e3_lab.
Proof.
  intros k. unfold e3_lab. cbn [e3_run].
  destruct (lstep (e3_run k) (e3_pol (e3_run k))) eqn:E; [reflexivity|].
  exfalso. exact (e3_pol_enabled _ E).
Qed.

Lemma e3_tail k : (4 <= k)%nat ->
  q_closed (l_q (e3_run k)) = true /\ l_pp (e3_run k) 0%nat = PIdle /\ (forall n i, l_pp (e3_run k) n <> PChecked i).
Proof.
  induction k as [|k IH]; [lia|]. intros Hk.
  destruct (Nat.eq_dec k 3) as [->|Hne].
  - split; [vm_compute; reflexivity|]. split; [vm_compute; reflexivity|].
    intros n i. destruct n as [|n]; vm_compute; discriminate.
  - destruct IH as (Hc & Hp & Hq); [lia|].
    pose proof (e3_is_run k) as Hs. unfold e3_lab in Hs. apply lstep_k in Hs.
    unfold e3_pol in Hs. rewrite Hp, Hc in Hs.
    assert (Hcons : cons_label (match l_cp (e3_run k) with CWait => LSel SClosed | _ => LC end)).
    { destruct (l_cp (e3_run k)); [left|left|right; eauto|left]; reflexivity. }
    destruct (quiet_step _ _ _ Hs (conj Hc Hq)) as ((Hc' & Hq') & _).
    split; [assumption|]. split; [|assumption].
    inversion Hs; subst; try (exfalso; destruct Hcons as [Hl|[b Hl]]; congruence); congruence.
Qed.

Lemma e3_not_cancelled k : l_cancelled (e3_run k) = false.
Proof.
  induction k as [|k IH]; [reflexivity|].
  pose proof (e3_is_run k) as Hs. unfold e3_lab in Hs. apply lstep_k in Hs.
  inversion Hs; subst; try congruence.
  exfalso. unfold e3_pol in H. destruct (l_pp (e3_run k) 0%nat); try discriminate.
  destruct (q_closed (l_q (e3_run k))); [destruct (l_cp (e3_run k)); discriminate|].
  destruct (l_hist (e3_run k)); discriminate.
Qed.

Example ex_close_run :
  exists run lab,
    run 0%nat = l_init /\ is_run lstep run lab /\ wfair lstep run lab cons_label /\
    (forall j, l_cancelled (run j) = false) /\ quiet (run 4%nat) /\
    In 5 (q_queue (l_q (run 4%nat))).
Proof.
  exists e3_run, e3_lab. split; [reflexivity|]. split; [exact e3_is_run|].
  split.
  { intros k. exists (Nat.max k 4). split; [lia|]. left.
    destruct (e3_tail (Nat.max k 4)) as (Hc & Hp & _); [lia|].
    unfold taken, e3_lab, e3_pol. rewrite Hp, Hc. eexists. split; [reflexivity|].
    destruct (l_cp (e3_run (Nat.max k 4))); [left|left|right; eauto|left]; reflexivity. }
  split; [exact e3_not_cancelled|].
  split.
  { destruct (e3_tail 4) as (Hc & _ & Hq); [lia|]. split; assumption. }
  vm_compute. auto.
Qed.

(** a fair run for [cancel_returns]: the consumer parks, its context is
    cancelled, and it keeps calling [Next] (context error every time) *)
Definition e4_pol (s : lstate) : label :=
  match l_cp s with
  | CWait => if l_cancelled s then LSel SCtx else LCancel
  | _ => LC
  end.

Fixpoint e4_run (k : nat) : lstate :=
  match k with
  | O => l_init
  | S k' => match lstep (e4_run k') (e4_pol (e4_run k')) with
            | Some s => s
            | None => e4_run k'
            end
  end.

Definition e4_lab (k : nat) : option label := Some (e4_pol (e4_run k)).

Lemma e4_pol_enabled s : lstep s (e4_pol s) <> None.
Proof.
  unfold e4_pol. destruct (l_cp s) eqn:Ecp; cbn; rewrite ?Ecp; try discriminate.
  - destruct (l_cancelled s) eqn:Ea; cbn; rewrite ?Ecp, ?Ea; discriminate.
  - destruct (Nat.eqb (q_len (l_q s)) 0); discriminate.
Qed.

Lemma e4_is_run : is_run lstep e4_run e4_lab.
Proof.
  intros k. unfold e4_lab. cbn [e4_run].
  destruct (lstep (e4_run k) (e4_pol (e4_run k))) eqn:E; [reflexivity|].
  exfalso. exact (e4_pol_enabled _ E).
Qed.

Lemma e4_tail k : (2 <= k)%nat -> l_cancelled (e4_run k) = true.
Proof.
  induction k as [|k IH]; [lia|]. intros Hk.
  destruct (Nat.eq_dec k 1) as [->|Hne]; [vm_compute; reflexivity|].
  pose proof (e4_is_run k) as Hs. unfold e4_lab in Hs.
  eapply cancelled_step; [exact Hs|]. apply IH. lia.
Qed.

Example ex_cancel_run :
  exists run lab,
    run 0%nat = l_init /\ is_run lstep run lab /\ wfair lstep run lab cons_label /\
    l_cp (run 2%nat) = CWait /\ l_cancelled (run 2%nat) = true.
Proof.
  exists e4_run, e4_lab. split; [reflexivity|]. split; [exact e4_is_run|].
  split.
  { intros k. exists (Nat.max k 2). split; [lia|]. left.
    pose proof (e4_tail (Nat.max k 2) ltac:(lia)) as Ha.
    unfold taken, e4_lab, e4_pol. rewrite Ha. eexists. split; [reflexivity|].
    destruct (l_cp (e4_run (Nat.max k 2))); [left|left|right; eauto|left]; reflexivity. }
  split; vm_compute; reflexivity.
Qed.

(** ... and everything that was pending at the Close has been delivered by then *)
Theorem close_drains_all_delivered run lab :
  run 0%nat = l_init -> is_run lstep run lab -> wfair lstep run lab cons_label ->
  (forall j, l_cancelled (run j) = false) ->
  forall k, quiet (run k) ->
  exists j, (k <= j)%nat /\ lab j = Some LC /\ l_cp (run j) = CLen /\
            l_hist (run (S j)) = ERetNext NClosed :: l_hist (run j) /\
            forall x, In x (q_queue (l_q (run k))) ->
                      exists j', (k <= j' < j)%nat /\ delivers run lab j' x.
Proof.
  intros H0 Hr Hf Hnc k Hq.
  destruct (close_drains run lab H0 Hr Hf Hnc k Hq) as (j & Hj & Hl & Hc & He & Hh).
  exists j. repeat split; auto. intros x Hx.
  destruct (pending_until_delivered run lab Hr x k (j - k) Hx) as [(j' & Hj' & Hd)|Hin].
  - exists j'. split; [lia|assumption].
  - replace (k + (j - k))%nat with j in Hin by lia. rewrite He in Hin. destruct Hin.
Qed.

(** * The "wake only on the empty -> non-empty transition" variant

    [Insert] samples [wake := q.Len() == 0] in one critical section, runs the
    locked insert in a second, and sends the token only if [ok && wake].  The
    sample is one more atomic step of the producer between its closed check and
    its locked insert; the state gets the sampled value per producer.  The pc
    [PInserted i b] now carries [b = ok && wake] (will the token be sent). *)

Record tstate := mkT { t_s : lstate; t_wake : nat -> option bool }.

Definition t_init : tstate := mkT l_init (fun _ => None).

Definition set_wake (f : nat -> option bool) (n : nat) (w : option bool) : nat -> option bool :=
  fun m => if Nat.eqb m n then w else f m.

Definition tstep (t : tstate) (l : label) : option tstate :=
  let s := t_s t in
  let lift := match lstep s l with
              | Some s' => Some (mkT s' (t_wake t))
              | None => None
              end in
  match l with
  | LP n =>
      match l_pp s n with
      | PChecked i =>
          match t_wake t n with
          | None =>          (* wake := q.Len() == 0 *)
              Some (mkT s (set_wake (t_wake t) n (Some (Nat.eqb (q_len (l_q s)) 0))))
          | Some w =>        (* ok := q.insert(i) *)
              let '(q', ok) := locked_insert (l_q s) i in
              Some (mkT (mkL q' (set_pp (l_pp s) n (PInserted i (ok && w))) (l_cp s) (l_cancelled s)
                             (EIns n i ok :: l_hist s))
                        (set_wake (t_wake t) n None))
          end
      | _ => lift
      end
  | _ => lift
  end.

Definition tdelivers (run : nat -> tstate) (lab : nat -> option label) (j : nat) (x : item) : Prop :=
  lab j = Some LC /\ pops (t_s (run j)) x.

(** the witness: 1 is queued; Insert(2) samples "not empty"; the consumer
    delivers 1, calls Next again, uses up the stale token and parks; Insert(2)
    lands in the empty queue and returns without a token. *)
Definition t_labs : list label :=
  [LCall 0 1; LP 0; LP 0; LP 0; LCall 0 2; LP 0; LC; LC; LSel STok; LC; LP 0; LP 0].

Definition t_lab (k : nat) : option label := nth_error t_labs k.

Definition t_run (k : nat) : tstate :=
  match run tstep t_init (firstn k t_labs) with
  | Some t => t
  | None => t_init
  end.

Lemma t_is_run : is_run tstep t_run t_lab.
Proof.
  intros k. do 12 (destruct k as [|k]; [vm_compute; reflexivity|]).
  unfold t_lab, t_run. cbn [nth_error t_labs firstn]. destruct k; reflexivity.
Qed.

Lemma t_run_late k : (12 <= k)%nat -> t_run k = t_run 12.
Proof.
  intros H. do 12 (destruct k as [|k]; [lia|]). unfold t_run. cbn [firstn t_labs]. destruct k; reflexivity.
Qed.

Theorem transition_wake_delivery_refuted :
  exists run lab,
    run 0%nat = t_init /\ is_run tstep run lab /\
    wfair tstep run lab cons_label /\
    (forall n, wfair tstep run lab (fun l => l = LP n)) /\
    (* Insert(2) by producer 0: sample at step 5, locked section at step 10, return at step 11 *)
    lab 10%nat = Some (LP 0) /\ l_pp (t_s (run 10%nat)) 0%nat = PChecked 2 /\
    lab 11%nat = Some (LP 0) /\ (exists b, l_pp (t_s (run 11%nat)) 0%nat = PInserted 2 b) /\
    (forall j, (11 <= j)%nat -> q_queue (l_q (t_s (run j))) = [2]) /\
    (forall j, ~ tdelivers run lab j 2).
Proof.
  exists t_run, t_lab.
  split; [reflexivity|]. split; [exact t_is_run|].
  split.
  { intros k. exists (Nat.max k 12). split; [lia|]. right. rewrite t_run_late by lia.
    intros (l & [->|[b ->]] & Hs); apply Hs; [|destruct b]; vm_compute; reflexivity. }
  split.
  { intros n k. exists (Nat.max k 12). split; [lia|]. right. rewrite t_run_late by lia.
    intros (l & -> & Hs). apply Hs. destruct n; vm_compute; reflexivity. }
  split; [reflexivity|]. split; [vm_compute; reflexivity|].
  split; [reflexivity|]. split; [eexists; vm_compute; reflexivity|].
  split.
  { intros j Hj. do 11 (destruct j as [|j]; [lia|]).
    destruct j as [|j]; [vm_compute; reflexivity|]. destruct j as [|j]; [vm_compute; reflexivity|].
    rewrite t_run_late by lia. vm_compute. reflexivity. }
  intros j (Hl & _ & (d & q' & Hn)).
  assert (Hj : j = 6%nat \/ j = 7%nat \/ j = 9%nat).
  { clear Hn. unfold t_lab, t_labs in Hl.
    do 12 (destruct j as [|j]; [cbn in Hl; try discriminate; auto|]).
    cbn in Hl. destruct j; discriminate. }
  destruct Hj as [-> | [-> | ->]]; vm_compute in Hn; discriminate.
Qed.

(** Soundness of the wake-up / refusal / drain clauses of the mode S executable
    specification ([ksstep] / [ks_run] of QueueCheck.v).

    A recorded run is [steps : list (tid * sev)] (oldest first) for the producer
    programs [progs].  [view progs pre] is a *descriptive* reading of a prefix
    of the run -- a total fold that never rejects anything and keeps only
    history-level facts: the linearisation of the locked sections ([d_lin],
    newest first, the same vocabulary [lev] / [npend] as the theorems over the
    transition system), whether Close / cancel have run, where every producer
    stands, whether the consumer's last event was "parked", and the log of the
    Insert calls that returned before Close, each stamped with the
    linearisation up to and including its own locked section.

    The declarative statements quantify over all split points of the run and
    speak about this reading only; [K_P accepts -> declarative] is proved for all
    recorded runs, and the same point predicates ([refusal_ok], [entitled_at],
    [delivered_after]) are shown to hold of every reachable state of the
    transition system, from the theorems of QueueProofs.v. *)
From Coq Require Import Sorting.Sorted.
From Gnmi Require Import Base.Prelude Base.Lts Coalesce.QueueModel Coalesce.QueueLts
  Coalesce.QueueCheck Coalesce.QueueProofs.
Open Scope N_scope.

(** * The descriptive reading of a recorded run *)

(** [DInserted i first hb]: past the locked insert of [i]; [first] = the item had
    no undelivered insertion just before; [hb] = the linearisation up to and
    including this locked section *)
Inductive dpp := DIdle | DChecked (i : item) | DInserted (i : item) (first : bool) (hb : list lev).

Record dview := mkD {
  d_lin : list lev;
  d_closed : bool;
  d_cancelled : bool;
  d_pp : list dpp;
  d_progs : list (list item);
  d_parked : bool;
  d_completed : list (item * list lev) }.

Fixpoint nth_dpp (l : list dpp) (n : nat) : dpp :=
  match l, n with
  | [], _ => DIdle
  | p :: _, O => p
  | _ :: r, S m => nth_dpp r m
  end.

Fixpoint set_dpp (l : list dpp) (n : nat) (p : dpp) : list dpp :=
  match l, n with
  | [], _ => []
  | _ :: r, O => p :: r
  | q :: r, S m => q :: set_dpp r m p
  end.

Definition dstep (d : dview) (t : tid) (e : sev) : dview :=
  match t, e with
  | TP n, SAt PtChecked =>
      match nth_dpp (d_pp d) n, nth_prog (d_progs d) n with
      | DIdle, i :: rest =>
          mkD (d_lin d) (d_closed d) (d_cancelled d) (set_dpp (d_pp d) n (DChecked i))
              (set_prog (d_progs d) n rest) (d_parked d) (d_completed d)
      | _, _ => d
      end
  | TP n, SRetIns IClosed =>
      match nth_dpp (d_pp d) n, nth_prog (d_progs d) n with
      | DIdle, _ :: rest =>
          mkD (d_lin d) (d_closed d) (d_cancelled d) (d_pp d)
              (set_prog (d_progs d) n rest) (d_parked d) (d_completed d)
      | _, _ => d
      end
  | TP n, SAt PtInserted =>
      match nth_dpp (d_pp d) n with
      | DChecked i =>
          let first := N.eqb (npend i (d_lin d)) 0 in
          let lin' := LIns i first :: d_lin d in
          mkD lin' (d_closed d) (d_cancelled d) (set_dpp (d_pp d) n (DInserted i first lin'))
              (d_progs d) (d_parked d) (d_completed d)
      | _ => d
      end
  | TP n, SRetIns (IOk _) =>
      match nth_dpp (d_pp d) n with
      | DInserted i _ hb =>
          mkD (d_lin d) (d_closed d) (d_cancelled d) (set_dpp (d_pp d) n DIdle)
              (d_progs d) (d_parked d)
              (if d_closed d then d_completed d else (i, hb) :: d_completed d)
      | _ => d
      end
  | TC, SBlocked =>
      mkD (d_lin d) (d_closed d) (d_cancelled d) (d_pp d) (d_progs d) true (d_completed d)
  | TC, SRetNext (NItem j c) =>
      mkD (LPop j c :: d_lin d) (d_closed d) (d_cancelled d) (d_pp d) (d_progs d) false (d_completed d)
  | TC, _ =>
      mkD (d_lin d) (d_closed d) (d_cancelled d) (d_pp d) (d_progs d) false (d_completed d)
  | TK, SRet =>
      mkD (d_lin d) true (d_cancelled d) (d_pp d) (d_progs d) (d_parked d) (d_completed d)
  | TX, SRet =>
      mkD (d_lin d) (d_closed d) true (d_pp d) (d_progs d) (d_parked d) (d_completed d)
  | _, _ => d
  end.

Fixpoint dfold (d : dview) (steps : list (tid * sev)) : dview :=
  match steps with
  | [] => d
  | (t, e) :: r => dfold (dstep d t e) r
  end.

Definition d_init (progs : list (list item)) : dview :=
  mkD [] false false (map (fun _ => DIdle) progs) progs false [].

Definition view (progs : list (list item)) (pre : list (tid * sev)) : dview := dfold (d_init progs) pre.

(** * The point predicates, shared by recorded runs and the transition system *)

(** a call that passed the closed check did so before Close; a refused call
    came after it *)
Definition refusal_ok (closed_before passed refused : Prop) : Prop :=
  (passed -> ~ closed_before) /\ (refused -> closed_before).

(** the consumer may stay parked: queue open, context live, and nothing has an
    undelivered insertion -- or a producer stands between the locked insert
    that made its item pending and its token send *)
Definition entitled_at (closed cancelled : bool) (lin : list lev) (window : Prop) : Prop :=
  closed = false /\ cancelled = false /\ ((forall i, npend i lin = 0) \/ window).

(** [i] was delivered after the locked section that is the head of [hb] *)
Definition delivered_after (i : item) (hb lin : list lev) : Prop :=
  exists a d, lin = a ++ hb /\ In (LPop i d) a.

Definition suffix_of (hb lin : list lev) : Prop := exists a, lin = a ++ hb.

(** * The declarative statements over a recorded run *)

(** insertions after close are refused (and only those) *)
Definition refusal_decl (steps : list (tid * sev)) : Prop :=
  forall pre n e post, steps = pre ++ (TP n, e) :: post ->
    refusal_ok (In (TK, SRet) pre) (e = SAt PtChecked) (e = SRetIns IClosed).

Definition d_entitled (d : dview) : Prop :=
  entitled_at (d_closed d) (d_cancelled d) (d_lin d)
              (exists n i hb, nth_dpp (d_pp d) n = DInserted i true hb).

(** a parked consumer that is not entitled to wait (item pending with no producer
    in the window / closed / cancelled) is woken: the next recorded event is
    the consumer's and it is not "parked again"; in particular the run does not
    end there *)
Definition wake_decl (progs : list (list item)) (steps : list (tid * sev)) (final_blocked : bool) : Prop :=
  final_blocked = d_parked (view progs steps) /\
  forall pre post, steps = pre ++ post -> d_parked (view progs pre) = true ->
    d_entitled (view progs pre) \/ exists e post', post = (TC, e) :: post' /\ e <> SBlocked.

(** the consumer is told "closed" only after Close, and after every insertion
    that returned before Close has been delivered (after its own locked section) *)
Definition drain_decl (progs : list (list item)) (steps : list (tid * sev)) : Prop :=
  forall pre post, steps = pre ++ (TC, SRetNext NClosed) :: post ->
    In (TK, SRet) pre /\
    forall i hb, In (i, hb) (d_completed (view progs pre)) -> delivered_after i hb (d_lin (view progs pre)).

(** * Facts about the reading alone *)

Lemma dfold_app d a b : dfold d (a ++ b) = dfold (dfold d a) b.
Proof. revert d. induction a as [|[t e] a IH]; intros d; cbn; [reflexivity|apply IH]. Qed.

Lemma dstep_closed d t e : d_closed (dstep d t e) = d_closed d || (match t, e with TK, SRet => true | _, _ => false end).
Proof.
  destruct t as [n| | |]; destruct e as [[]|[b|]|[j c| | |]| | | |]; cbn;
    repeat match goal with |- context [match ?x with _ => _ end] => destruct x; cbn end;
    rewrite ?orb_false_r, ?orb_true_r; reflexivity.
Qed.

Lemma dstep_cancelled d t e : d_cancelled (dstep d t e) = d_cancelled d || (match t, e with TX, SRet => true | _, _ => false end).
Proof.
  destruct t as [n| | |]; destruct e as [[]|[b|]|[j c| | |]| | | |]; cbn;
    repeat match goal with |- context [match ?x with _ => _ end] => destruct x; cbn end;
    rewrite ?orb_false_r, ?orb_true_r; reflexivity.
Qed.

Lemma dfold_closed pre : forall d, d_closed (dfold d pre) = true <-> d_closed d = true \/ In (TK, SRet) pre.
Proof.
  induction pre as [|[t e] pre IH]; intros d; cbn [dfold In].
  - tauto.
  - rewrite IH, dstep_closed, orb_true_iff. split.
    + intros [[H|H]|H]; auto. right. left.
      destruct t; try discriminate; destruct e; try discriminate; reflexivity.
    + intros [H|[H|H]]; auto. inversion H; subst. auto.
Qed.

Lemma dfold_cancelled pre : forall d, d_cancelled (dfold d pre) = true <-> d_cancelled d = true \/ In (TX, SRet) pre.
Proof.
  induction pre as [|[t e] pre IH]; intros d; cbn [dfold In].
  - tauto.
  - rewrite IH, dstep_cancelled, orb_true_iff. split.
    + intros [[H|H]|H]; auto. right. left.
      destruct t; try discriminate; destruct e; try discriminate; reflexivity.
    + intros [H|[H|H]]; auto. inversion H; subst. auto.
Qed.

(** "closed" / "cancelled" of the reading are facts of the recorded history *)
Theorem view_closed_iff progs pre : d_closed (view progs pre) = true <-> In (TK, SRet) pre.
Proof. unfold view. rewrite dfold_closed. cbn. split; [intros [H|H]; [discriminate|exact H]|auto]. Qed.

Theorem view_cancelled_iff progs pre : d_cancelled (view progs pre) = true <-> In (TX, SRet) pre.
Proof. unfold view. rewrite dfold_cancelled. cbn. split; [intros [H|H]; [discriminate|exact H]|auto]. Qed.

(** the reading says "parked" exactly when the consumer's last event is [SBlocked] *)
Lemma dfold_parked_others mid : forall d,
  Forall (fun te => fst te <> TC) mid -> d_parked (dfold d mid) = d_parked d.
Proof.
  induction mid as [|[t e] mid IH]; intros d H; cbn; [reflexivity|].
  inversion H; subst. rewrite IH by assumption. cbn in *.
  destruct t as [n| | |]; [| congruence | |];
    destruct e as [[]|[b|]|[j c| | |]| | | |]; cbn;
    repeat match goal with |- context [match ?x with _ => _ end] => destruct x; cbn end; reflexivity.
Qed.

Theorem view_parked_iff progs pre e mid :
  Forall (fun te => fst te <> TC) mid ->
  (d_parked (view progs (pre ++ (TC, e) :: mid)) = true <-> e = SBlocked).
Proof.
  intros H. unfold view. rewrite dfold_app. cbn [dfold]. rewrite dfold_parked_others by assumption.
  destruct e as [[]|[b|]|[j c| | |]| | | |]; cbn; split; intros; try discriminate; reflexivity.
Qed.

(** * Lemmas on the linearisation *)

Lemma first_flag h q i : aq_replay h = Some q -> snd (aq_insert i q) = N.eqb (npend i h) 0.
Proof.
  intros Ha. pose proof (aq_replay_hist_ok _ _ Ha) as Ho.
  unfold aq_insert. destruct (aq_mem i q) eqn:Em; cbn.
  - apply aq_mem_In in Em. apply in_map_iff in Em. destruct Em as ([j d] & Hj & Hin). cbn in Hj. subst j.
    rewrite (ho_cnt _ _ Ho _ _ Hin). symmetry. apply N.eqb_neq. lia.
  - assert (Hn : ~ In i (map fst q)).
    { intros Hin. apply aq_mem_In in Hin. congruence. }
    rewrite (ho_zero _ _ Ho _ Hn). reflexivity.
Qed.

Lemma npend_in_aq h q i : aq_replay h = Some q -> npend i h <> 0 -> In i (map fst q).
Proof.
  intros Ha Hn. pose proof (aq_replay_hist_ok _ _ Ha) as Ho.
  destruct (in_dec N.eq_dec i (map fst q)) as [H|H]; [exact H|].
  exfalso. apply Hn. apply (ho_zero _ _ Ho _ H).
Qed.

Lemma aq_nil_npend h : aq_replay h = Some [] -> forall i, npend i h = 0.
Proof. intros Ha i. apply (ho_zero _ _ (aq_replay_hist_ok _ _ Ha)). intros []. Qed.

Lemma npend_zero_aq_nil h q : aq_replay h = Some q -> (forall i, npend i h = 0) -> q = [].
Proof.
  intros Ha Hz. destruct q as [|[i d] q]; [reflexivity|]. exfalso.
  pose proof (ho_cnt _ _ (aq_replay_hist_ok _ _ Ha) i d (or_introl eq_refl)) as H. rewrite Hz in H. lia.
Qed.

(** after a locked insert of [i], either [i] has been popped since or it is pending *)
Lemma pending_or_popped i f r a :
  (exists d, In (LPop i d) a) \/ npend i (a ++ LIns i f :: r) <> 0.
Proof.
  induction a as [|x a IH]; cbn [app npend].
  - right. rewrite N.eqb_refl. lia.
  - destruct x as [j g|j c]; cbn [npend].
    + destruct IH as [[d H]|H]; [left; exists d; right; exact H|right].
      destruct (N.eqb i j); lia.
    + destruct (N.eqb_spec i j) as [<-|Hne].
      * left. exists c. left. reflexivity.
      * destruct IH as [[d H]|H]; [left; exists d; right; exact H|right; exact H].
Qed.

Lemma delivered_after_cons i hb lin x : delivered_after i hb lin -> delivered_after i hb (x :: lin).
Proof. intros (a & d & -> & Hin). exists (x :: a), d. split; [reflexivity|right; exact Hin]. Qed.

Lemma suffix_of_cons hb lin x : suffix_of hb lin -> suffix_of hb (x :: lin).
Proof. intros (a & ->). exists (x :: a). reflexivity. Qed.

Lemma suffix_pop_delivered i hb lin c : suffix_of hb lin -> delivered_after i hb (LPop i c :: lin).
Proof. intros (a & ->). exists (LPop i c :: a), c. split; [reflexivity|left; reflexivity]. Qed.

(** * The invariant tying K_P's bookkeeping to the reading *)

Inductive ppr (lin : list lev) : kpp -> dpp -> Prop :=
| ppr_idle : ppr lin KIdle DIdle
| ppr_chk i : ppr lin (KChecked i) (DChecked i)
| ppr_ins i new live r :
    suffix_of (LIns i new :: r) lin ->
    (live = true \/ delivered_after i (LIns i new :: r) lin) ->
    ppr lin (KInserted i new live) (DInserted i new (LIns i new :: r)).

Record kinv (k : kss) (d : dview) : Prop := {
  ki_closed : ks_closed k = d_closed d;
  ki_canc : ks_cancelled k = d_cancelled d;
  ki_parked : ks_blocked k = d_parked d;
  ki_progs : ks_progs k = d_progs d;
  ki_ref : aq_replay (d_lin d) = Some (ks_aq k);
  ki_pp : Forall2 (ppr (d_lin d)) (ks_pp k) (d_pp d);
  ki_done : forall i hb, In (i, hb) (d_completed d) ->
      (exists f r, hb = LIns i f :: r) /\ suffix_of hb (d_lin d) /\
      (delivered_after i hb (d_lin d) \/ In i (ks_done k)) }.

Lemma ppr_idle_inv lin p' : ppr lin KIdle p' -> p' = DIdle.
Proof. intros H; inversion H; reflexivity. Qed.

Lemma ppr_chk_inv lin i p' : ppr lin (KChecked i) p' -> p' = DChecked i.
Proof. intros H; inversion H; reflexivity. Qed.

Lemma ppr_ins_inv lin i new live p' : ppr lin (KInserted i new live) p' ->
  exists r, p' = DInserted i new (LIns i new :: r) /\ suffix_of (LIns i new :: r) lin /\
            (live = true \/ delivered_after i (LIns i new :: r) lin).
Proof. intros H; inversion H; subst. eauto. Qed.

Lemma ppr_dins_inv lin p i f hb : ppr lin p (DInserted i f hb) -> exists live, p = KInserted i f live.
Proof. intros H; inversion H; subst. eauto. Qed.

Lemma F2_nth lin l l' : Forall2 (ppr lin) l l' -> forall n, ppr lin (nth_kpp l n) (nth_dpp l' n).
Proof.
  induction 1 as [|p p' l l' Hp Hl IH]; intros n.
  - destruct n; constructor.
  - destruct n; cbn; [exact Hp|apply IH].
Qed.

Lemma F2_set lin l l' p p' : Forall2 (ppr lin) l l' -> ppr lin p p' ->
  forall n, Forall2 (ppr lin) (set_kpp l n p) (set_dpp l' n p').
Proof.
  induction 1 as [|q q' l l' Hq Hl IH]; intros Hp n.
  - destruct n; constructor.
  - destruct n; cbn; constructor; auto.
Qed.

Lemma ppr_mono lin x p p' : ppr lin p p' -> ppr (x :: lin) p p'.
Proof.
  intros H. destruct H as [|i|i new live r Hs Hl]; constructor.
  - apply suffix_of_cons; exact Hs.
  - destruct Hl as [Hl|Hl]; [left; exact Hl|right; apply delivered_after_cons; exact Hl].
Qed.

Lemma F2_mono lin x l l' : Forall2 (ppr lin) l l' -> Forall2 (ppr (x :: lin)) l l'.
Proof. induction 1; constructor; auto using ppr_mono. Qed.

Lemma F2_pop lin j c l l' : Forall2 (ppr lin) l l' ->
  Forall2 (ppr (LPop j c :: lin))
    (map (fun p => match p with
                   | KInserted x ex _ => if N.eqb x j then KInserted x ex false else p
                   | _ => p end) l) l'.
Proof.
  induction 1 as [|p p' l l' Hp Hl IH]; cbn; constructor; [|exact IH].
  destruct Hp as [|i|i new live r Hs Hlv]; try constructor.
  destruct (N.eqb_spec i j) as [->|Hne]; constructor.
  - apply suffix_of_cons; exact Hs.
  - right. apply suffix_pop_delivered. exact Hs.
  - apply suffix_of_cons; exact Hs.
  - destruct Hlv as [Hlv|Hlv]; [left; exact Hlv|right; apply delivered_after_cons; exact Hlv].
Qed.

Lemma kinv_init progs :
  kinv (mkKS [] false false (map (fun _ => KIdle) progs) progs false []) (d_init progs).
Proof.
  split; cbn; try reflexivity.
  - induction progs; cbn; constructor; [constructor|assumption].
  - intros i hb [].
Qed.

Ltac kguard Hk :=
  match type of Hk with
  | (if ?g then _ else _) = _ => destruct g eqn:Hguard; [discriminate|]
  end.

Lemma kinv_step k d t e k' : kinv k d -> ksstep k t e = inl k' -> kinv k' (dstep d t e).
Proof.
  intros [Hcl Hca Hpk Hpr Href Hpp Hdn] Hk. unfold ksstep in Hk.
  destruct e as [p|r|r| | | |]; try discriminate; kguard Hk;
    (destruct t as [n| | |];
     [pose proof (F2_nth _ _ _ Hpp n) as Hn | | |]).
  - (* TP, SAt *)
    destruct (nth_kpp (ks_pp k) n) as [|i|i ex lv] eqn:Ep; destruct p; try discriminate.
    + apply ppr_idle_inv in Hn.
      destruct (nth_prog (ks_progs k) n) as [|i rest] eqn:Eg; [discriminate|].
      destruct (ks_closed k) eqn:Ec; [discriminate|]. inversion Hk; subst; clear Hk.
      unfold dstep. rewrite Hn, <- Hpr, Eg.
      split; cbn; auto; try (rewrite Hpr; reflexivity).
      apply F2_set; [exact Hpp|constructor].
    + apply ppr_chk_inv in Hn.
      destruct (aq_insert i (ks_aq k)) as [q' new] eqn:Ei. inversion Hk; subst; clear Hk.
      unfold dstep. rewrite Hn. cbn zeta.
      pose proof (first_flag _ _ i Href) as Hf. rewrite Ei in Hf. cbn in Hf. rewrite <- Hf.
      split; cbn; auto.
      * rewrite Href, Ei. cbn. rewrite Bool.eqb_reflx. reflexivity.
      * apply F2_set; [apply F2_mono; exact Hpp|].
        constructor; [exists []; reflexivity|left; reflexivity].
      * intros j hb Hin. destruct (Hdn j hb Hin) as (Hh & Hs & Hv).
        split; [exact Hh|]. split; [apply suffix_of_cons; exact Hs|].
        destruct Hv as [Hv|Hv]; [left; apply delivered_after_cons; exact Hv|right; exact Hv].
  - (* TC, SAt *)
    destruct p; try discriminate. inversion Hk; subst; clear Hk.
    split; cbn; auto.
  - destruct p; discriminate.
  - destruct p; discriminate.
  - (* TP, SRetIns *)
    destruct (nth_kpp (ks_pp k) n) as [|i|i ex lv] eqn:Ep; destruct r as [b|]; try discriminate.
    + apply ppr_idle_inv in Hn.
      destruct (nth_prog (ks_progs k) n) as [|i rest] eqn:Eg; [discriminate|].
      destruct (ks_closed k) eqn:Ec; [|discriminate]. inversion Hk; subst; clear Hk.
      unfold dstep. rewrite Hn, <- Hpr, Eg.
      split; cbn; auto; try (rewrite Hpr; reflexivity).
    + apply ppr_ins_inv in Hn. destruct Hn as (r' & Hn & Hs & Hlv).
      destruct (Bool.eqb b ex); [|discriminate]. inversion Hk; subst; clear Hk.
      unfold dstep. rewrite Hn.
      split; cbn; auto.
      * apply F2_set; [exact Hpp|constructor].
      * intros j hb Hin. rewrite <- Hcl in Hin.
        destruct (ks_closed k) eqn:Ec; cbn.
        { exact (Hdn j hb Hin). }
        destruct Hin as [Hin|Hin].
        { inversion Hin; subst. split; [eauto|]. split; [exact Hs|].
          destruct Hlv as [->|Hlv]; [right; cbn; left; reflexivity|left; exact Hlv]. }
        destruct (Hdn j hb Hin) as (Hh & Hs' & Hv). split; [exact Hh|]. split; [exact Hs'|].
        destruct Hv as [Hv|Hv]; [left; exact Hv|right].
        destruct (negb lv); cbn; [exact Hv|right; exact Hv].
  - discriminate.
  - discriminate.
  - discriminate.
  - (* TP, SRetNext *)
    destruct (nth_kpp (ks_pp k) n); discriminate.
  - (* TC, SRetNext *)
    destruct r as [j c| | |]; try discriminate.
    + destruct (ks_aq k) as [|[i c'] q'] eqn:Eq; [discriminate|].
      destruct (N.eqb_spec i j) as [<-|]; cbn in Hk; [|discriminate].
      destruct (N.eqb_spec c' c) as [<-|]; cbn in Hk; [|discriminate].
      inversion Hk; subst; clear Hk.
      split; cbn; auto.
      * rewrite Href, !N.eqb_refl. reflexivity.
      * apply F2_pop. exact Hpp.
      * intros x hb Hin. destruct (Hdn x hb Hin) as (Hh & Hs & Hv).
        split; [exact Hh|]. split; [apply suffix_of_cons; exact Hs|].
        destruct Hv as [Hv|Hv]; [left; apply delivered_after_cons; exact Hv|].
        destruct (N.eqb_spec x i) as [->|Hne].
        { left. apply suffix_pop_delivered. exact Hs. }
        right. apply filter_In. split; [exact Hv|]. apply negb_true_iff. apply N.eqb_neq. exact Hne.
    + destruct (ks_closed k) eqn:Ec; [|discriminate].
      match type of Hk with (if ?c then _ else _) = _ => destruct c end; [discriminate|].
      inversion Hk; subst; clear Hk. split; cbn; auto.
    + destruct (ks_cancelled k) eqn:Ec; [|discriminate]. inversion Hk; subst; clear Hk.
      split; cbn; auto.
  - discriminate.
  - discriminate.
  - (* TP, SBlocked *)
    destruct (nth_kpp (ks_pp k) n); discriminate.
  - cbn zeta in Hk. destruct (may_wait _); [|discriminate]. inversion Hk; subst; clear Hk.
    split; cbn; auto.
  - discriminate.
  - discriminate.
  - (* TP, SRet *)
    destruct (nth_kpp (ks_pp k) n); discriminate.
  - discriminate.
  - inversion Hk; subst; clear Hk. split; cbn; auto.
  - inversion Hk; subst; clear Hk. split; cbn; auto.
Qed.

(** an accepted run: at every split point K_P's state satisfies the invariant
    with the reading of the prefix, and K_P accepts the rest *)
Lemma kinv_split pre : forall i k d post fb fl,
  kinv k d -> ks_run i k (pre ++ post) fb fl = [] ->
  exists k' i', kinv k' (dfold d pre) /\ ks_run i' k' post fb fl = [].
Proof.
  induction pre as [|[t e] pre IH]; intros i k d post fb fl Hi Hr.
  - exists k, i. split; assumption.
  - cbn in Hr. destruct (ksstep k t e) as [k1|] eqn:E; [|discriminate].
    cbn [dfold]. eapply IH; [|exact Hr]. eapply kinv_step; eauto.
Qed.

(** * Soundness of the three clauses *)

Definition ks_init (progs : list (list item)) : kss :=
  mkKS [] false false (map (fun _ => KIdle) progs) progs false [].

Lemma refusal_point k n e k' :
  ksstep k (TP n) e = inl k' ->
  (e = SAt PtChecked -> ks_closed k = false) /\ (e = SRetIns IClosed -> ks_closed k = true).
Proof.
  intros Hk. split; intros ->; unfold ksstep in Hk; kguard Hk;
    destruct (nth_kpp (ks_pp k) n); try discriminate;
    destruct (nth_prog (ks_progs k) n); try discriminate;
    destruct (ks_closed k); try discriminate; reflexivity.
Qed.

Theorem ks_refusal_sound progs steps fb fl :
  ks_run 0 (ks_init progs) steps fb fl = [] -> refusal_decl steps.
Proof.
  intros Hr pre n e post ->.
  destruct (kinv_split pre _ _ _ _ _ _ (kinv_init progs) Hr) as (k' & i' & Hi & Hr').
  cbn in Hr'. destruct (ksstep k' (TP n) e) as [k1|] eqn:E; [|discriminate].
  destruct (refusal_point _ _ _ _ E) as [H1 H2].
  pose proof (view_closed_iff progs pre) as Hv. fold (view progs pre) in Hi.
  rewrite <- (ki_closed _ _ Hi) in Hv.
  split.
  - intros He Hin. apply Hv in Hin. rewrite (H1 He) in Hin. discriminate.
  - intros He. apply Hv. exact (H2 He).
Qed.

Lemma may_wait_entitled k d : kinv k d -> may_wait k = true -> d_entitled d.
Proof.
  intros Hi Hm. unfold may_wait in Hm.
  apply andb_true_iff in Hm. destruct Hm as [Hm Hw]. apply andb_true_iff in Hm. destruct Hm as [Hc Hx].
  apply negb_true_iff in Hc, Hx.
  split; [rewrite <- (ki_closed _ _ Hi); exact Hc|]. split; [rewrite <- (ki_canc _ _ Hi); exact Hx|].
  apply orb_true_iff in Hw. destruct Hw as [Hw|Hw].
  - left. destruct (ks_aq k) eqn:Eq; [|discriminate]. apply aq_nil_npend. rewrite <- Eq. exact (ki_ref _ _ Hi).
  - right. apply existsb_exists in Hw. destruct Hw as (p & Hin & Hp).
    destruct p as [|?|i [|] lv]; try discriminate.
    apply In_nth_error in Hin. destruct Hin as [n Hn].
    assert (Hk : nth_kpp (ks_pp k) n = KInserted i true lv).
    { clear - Hn. revert n Hn. induction (ks_pp k) as [|q l IH]; intros n Hn; destruct n; cbn in *; try discriminate.
      - inversion Hn; reflexivity.
      - apply IH; exact Hn. }
    pose proof (F2_nth _ _ _ (ki_pp _ _ Hi) n) as Hr. rewrite Hk in Hr. inversion Hr; subst.
    exists n, i. eexists. symmetry. eassumption.
Qed.

(** the converse: K_P's [may_wait] decides exactly [d_entitled] *)
Lemma entitled_may_wait k d : kinv k d -> d_entitled d -> may_wait k = true.
Proof.
  intros Hi (Hc & Hx & Hw). unfold may_wait.
  rewrite (ki_closed _ _ Hi), (ki_canc _ _ Hi), Hc, Hx. cbn.
  destruct Hw as [Hz|(n & i & hb & Hn)].
  - rewrite (npend_zero_aq_nil _ _ (ki_ref _ _ Hi) Hz). reflexivity.
  - apply orb_true_iff. right.
    pose proof (F2_nth _ _ _ (ki_pp _ _ Hi) n) as Hr. rewrite Hn in Hr.
    apply ppr_dins_inv in Hr. destruct Hr as [live H0].
    apply existsb_exists. exists (KInserted i true live). split; [|reflexivity].
    clear - H0. revert n H0. induction (ks_pp k) as [|q l IH]; intros n Hn; destruct n; cbn in *; try discriminate.
    + left. congruence.
    + right. eapply IH; eauto.
Qed.

Theorem ks_wake_sound progs steps fb fl :
  ks_run 0 (ks_init progs) steps fb fl = [] -> wake_decl progs steps fb.
Proof.
  intros Hr. split.
  - pose proof Hr as Hr0. rewrite <- (app_nil_r steps) in Hr0.
    destruct (kinv_split steps _ _ _ _ _ _ (kinv_init progs) Hr0) as (k' & i' & Hi & Hr').
    fold (view progs steps) in Hi. cbn in Hr'. rewrite <- (ki_parked _ _ Hi).
    destruct (Bool.eqb fb (ks_blocked k')) eqn:Eb; [apply Bool.eqb_prop in Eb; exact Eb|discriminate].
  - intros pre post -> Hp.
    destruct (kinv_split pre _ _ _ _ _ _ (kinv_init progs) Hr) as (k' & i' & Hi & Hr').
    fold (view progs pre) in Hi. rewrite <- (ki_parked _ _ Hi) in Hp.
    destruct (may_wait k') eqn:Em; [left; eapply may_wait_entitled; eauto|right].
    destruct post as [|[t e] post'].
    + exfalso. cbn in Hr'. rewrite Hp, Em in Hr'.
      destruct fb; cbn in Hr'; discriminate.
    + cbn in Hr'. destruct (ksstep k' t e) as [k1|] eqn:E; [|discriminate].
      unfold ksstep in E. rewrite Hp, Em in E.
      destruct t; [destruct e; discriminate| |destruct e; discriminate|destruct e; discriminate].
      assert (Hm : may_wait (ks_upd k' (ks_aq k') (ks_closed k') (ks_cancelled k') (ks_pp k')
                                    (ks_progs k') true) = may_wait k') by reflexivity.
      rewrite Hm, Em in E.
      exists e, post'. split; [reflexivity|]. intros ->. discriminate.
Qed.

Lemma drain_point k k' :
  ksstep k TC (SRetNext NClosed) = inl k' ->
  ks_closed k = true /\ existsb (fun ic => existsb (N.eqb (fst ic)) (ks_done k)) (ks_aq k) = false.
Proof.
  unfold ksstep. cbn. destruct (ks_closed k); [|discriminate].
  match goal with |- context [existsb ?f (ks_aq k)] => destruct (existsb f (ks_aq k)) end; [discriminate|]. auto.
Qed.

Theorem ks_drain_sound progs steps fb fl :
  ks_run 0 (ks_init progs) steps fb fl = [] -> drain_decl progs steps.
Proof.
  intros Hr pre post ->.
  destruct (kinv_split pre _ _ _ _ _ _ (kinv_init progs) Hr) as (k' & i' & Hi & Hr').
  fold (view progs pre) in Hi.
  cbn [ks_run] in Hr'. destruct (ksstep k' TC (SRetNext NClosed)) as [k1|] eqn:E; [|discriminate].
  destruct (drain_point _ _ E) as [Hc Hex].
  split.
  - apply (view_closed_iff progs). rewrite <- (ki_closed _ _ Hi). exact Hc.
  - intros i hb Hin. destruct (ki_done _ _ Hi i hb Hin) as ((f & r & ->) & (a & Ha) & [Hv|Hv]); [exact Hv|].
    destruct (pending_or_popped i f r a) as [[c Hpop]|Hpend].
    + exists a, c. split; assumption.
    + exfalso. rewrite <- Ha in Hpend.
      pose proof (npend_in_aq _ _ _ (ki_ref _ _ Hi) Hpend) as Hq.
      apply in_map_iff in Hq. destruct Hq as ([j c] & Hj & Hq). cbn in Hj. subst j.
      assert (Ht : existsb (fun ic => existsb (N.eqb (fst ic)) (ks_done k')) (ks_aq k') = true).
      { apply existsb_exists. exists (i, c). split; [exact Hq|]. cbn.
        apply existsb_exists. exists i. split; [exact Hv|apply N.eqb_refl]. }
      congruence.
Qed.

(** from the checker's verdict *)
Lemma check_sched_ks progs steps fb fl :
  check_case (CSched progs steps fb fl) = [] -> ks_run 0 (ks_init progs) steps fb fl = [].
Proof. intros H. unfold check_case in H. apply app_eq_nil in H. exact (proj2 H). Qed.

Corollary kp_refusal_sound progs steps fb fl :
  check_case (CSched progs steps fb fl) = [] -> refusal_decl steps.
Proof. intros H. eapply ks_refusal_sound, check_sched_ks, H. Qed.

Corollary kp_wake_sound progs steps fb fl :
  check_case (CSched progs steps fb fl) = [] -> wake_decl progs steps fb.
Proof. intros H. eapply ks_wake_sound, check_sched_ks, H. Qed.

Corollary kp_drain_sound progs steps fb fl :
  check_case (CSched progs steps fb fl) = [] -> drain_decl progs steps.
Proof. intros H. eapply ks_drain_sound, check_sched_ks, H. Qed.

(** * The same predicates over the transition system *)

(** refusal: a call passes the closed check only with no Close in the history,
    and is refused only with one *)
Theorem lts_refusal_ok s n i s' :
  lreach s -> lstep s (LCall n i) = Some s' ->
  refusal_ok (In EClose (l_hist s)) (l_pp s' n = PChecked i)
             (l_hist s' = ERetIns n i IClosed :: ECallIns n i :: l_hist s).
Proof.
  intros Hr Hs. destruct (linv_reachable s Hr) as [_ _ _ _ Hcl _].
  cbn in Hs. destruct (l_pp s n) eqn:Ep; try discriminate.
  destruct (q_closed (l_q s)) eqn:Ec; inversion Hs; subst; cbn; split.
  - intros H. congruence.
  - intros _. apply Hcl. reflexivity.
  - intros _ Hin. apply Hcl in Hin. discriminate.
  - intros H. inversion H.
Qed.

(** wake-up: a consumer at the select with no enabled case is entitled to
    wait -- the predicate K_P's clause decides on recorded runs *)
Theorem lts_parked_entitled s :
  lreach s -> l_cp s = CWait -> (forall b, lstep s (LSel b) = None) ->
  entitled_at (q_closed (l_q s)) (l_cancelled s) (lin (l_hist s))
              (exists n i, l_pp s n = PInserted i true).
Proof.
  intros Hr Hw Hb. destruct (blocked_justified s Hr Hw Hb) as (Hc & Hx & Hq).
  split; [exact Hc|]. split; [exact Hx|].
  destruct Hq as [Hq|Hq]; [left|right; exact Hq].
  intros i. apply (proj2 (dup_exact s Hr)). rewrite Hq. intros [].
Qed.

(** ... so a consumer at the select that is not entitled to wait has an enabled
    case: it is woken *)
Theorem lts_not_entitled_woken s :
  lreach s -> l_cp s = CWait ->
  ~ entitled_at (q_closed (l_q s)) (l_cancelled s) (lin (l_hist s))
                (exists n i, l_pp s n = PInserted i true) ->
  exists b s', lstep s (LSel b) = Some s'.
Proof.
  intros Hr Hw Hne.
  destruct (lstep s (LSel SCtx)) as [s1|] eqn:E1; [eauto|].
  destruct (lstep s (LSel STok)) as [s2|] eqn:E2; [eauto|].
  destruct (lstep s (LSel SClosed)) as [s3|] eqn:E3; [eauto|].
  exfalso. apply Hne. apply lts_parked_entitled; auto. intros []; assumption.
Qed.

(** drain: at the step that reports "closed", every locked insert -- in
    particular every insertion that returned before Close -- has been
    delivered after its own locked section *)
Theorem lts_closed_drained s l s' pre :
  lreach s -> lstep s l = Some s' -> l_hist s' = ERetNext NClosed :: pre ->
  List.length (l_hist s') = S (List.length (l_hist s)) ->
  In EClose (l_hist s) /\
  forall i f r a, lin (l_hist s') = a ++ LIns i f :: r ->
    delivered_after i (LIns i f :: r) (lin (l_hist s')).
Proof.
  intros Hr Hs Hh Hl.
  destruct (drain_before_closed s l s' pre Hr Hs Hh Hl) as (_ & _ & Hcl & _ & Hz & _).
  split; [exact Hcl|]. intros i f r a Ha.
  destruct (pending_or_popped i f r a) as [[c Hpop]|Hpend].
  - exists a, c. split; assumption.
  - exfalso. apply Hpend. rewrite <- Ha. apply Hz.
Qed.

(** * Non-vacuity *)

(** an accepted run that exercises all three clauses: the consumer parks, is
    woken by an insertion, receives the item; Close; a later call is refused;
    the consumer is told "closed" *)
Definition run_good : list (tid * sev) :=
  [(TC, SAt PtEmpty); (TC, SBlocked); (TP 0, SAt PtChecked); (TP 0, SAt PtInserted);
   (TP 0, SRetIns (IOk true)); (TC, SRetNext (NItem 5 0)); (TK, SRet);
   (TP 0, SRetIns IClosed); (TC, SAt PtEmpty); (TC, SRetNext NClosed)].

Example ex_kp_good_accepted : check_case (CSched [[5; 6]] run_good false 0) = [].
Proof. vm_compute. reflexivity. Qed.

Example ex_kp_good_decl :
  refusal_decl run_good /\ wake_decl [[5; 6]] run_good false /\ drain_decl [[5; 6]] run_good /\
  d_completed (view [[5; 6]] run_good) = [(5, [LIns 5 true])] /\
  d_lin (view [[5; 6]] run_good) = [LPop 5 0; LIns 5 true].
Proof.
  pose proof ex_kp_good_accepted as H.
  split; [exact (kp_refusal_sound _ _ _ _ H)|].
  split; [exact (kp_wake_sound _ _ _ _ H)|].
  split; [exact (kp_drain_sound _ _ _ _ H)|].
  split; reflexivity.
Qed.

(** a call that passes the closed check after Close: K_P tag 2, statement false *)
Definition run_bad_refusal : list (tid * sev) := [(TK, SRet); (TP 0, SAt PtChecked)].

Example ex_kp_refusal_false :
  ks_run 0 (ks_init [[5]]) run_bad_refusal false 0 = [(1%nat, 2)] /\ ~ refusal_decl run_bad_refusal.
Proof.
  split; [vm_compute; reflexivity|]. intros H.
  destruct (H [(TK, SRet)] 0%nat (SAt PtChecked) [] eq_refl) as [H1 _].
  apply H1; [reflexivity|left; reflexivity].
Qed.

(** Close while the consumer is parked and the run ends there: tag 5, false *)
Definition run_bad_wake : list (tid * sev) := [(TC, SAt PtEmpty); (TC, SBlocked); (TK, SRet)].

Example ex_kp_wake_false :
  ks_run 0 (ks_init [[5]]) run_bad_wake true 0 = [(3%nat, 5)] /\ ~ wake_decl [[5]] run_bad_wake true.
Proof.
  split; [vm_compute; reflexivity|]. intros [_ H].
  destruct (H run_bad_wake [] (eq_sym (app_nil_r _)) eq_refl) as [(Hc & _)|(e & p & Hp & _)]; discriminate.
Qed.

(** an item pending with its producer gone and the consumer left parked: tag 5 *)
Definition run_bad_wake_item : list (tid * sev) :=
  [(TC, SAt PtEmpty); (TC, SBlocked); (TP 0, SAt PtChecked); (TP 0, SAt PtInserted);
   (TP 0, SRetIns (IOk true))].

Example ex_kp_wake_item_false :
  ks_run 0 (ks_init [[5]]) run_bad_wake_item true 1 = [(5%nat, 5)] /\ ~ wake_decl [[5]] run_bad_wake_item true.
Proof.
  split; [vm_compute; reflexivity|]. intros [_ H].
  destruct (H run_bad_wake_item [] (eq_sym (app_nil_r _)) eq_refl) as [(_ & _ & [Hz|(n & i & hb & Hn)])|(e & p & Hp & _)].
  - specialize (Hz 5). vm_compute in Hz. discriminate.
  - vm_compute in Hn. destruct n as [|[|n]]; discriminate.
  - discriminate.
Qed.

(** told "closed" with an insertion that returned before Close undelivered: tag 3 *)
Definition run_bad_drain : list (tid * sev) :=
  [(TP 0, SAt PtChecked); (TP 0, SAt PtInserted); (TP 0, SRetIns (IOk true)); (TK, SRet);
   (TC, SRetNext NClosed)].

Example ex_kp_drain_false :
  ks_run 0 (ks_init [[5]]) run_bad_drain false 1 = [(4%nat, 3)] /\ ~ drain_decl [[5]] run_bad_drain.
Proof.
  split; [vm_compute; reflexivity|]. intros H.
  destruct (H [(TP 0, SAt PtChecked); (TP 0, SAt PtInserted); (TP 0, SRetIns (IOk true)); (TK, SRet)] []
              eq_refl) as [_ Hd].
  destruct (Hd 5 [LIns 5 true] (or_introl eq_refl)) as (a & c & Ha & Hin).
  vm_compute in Ha. destruct a as [|x a]; [destruct Hin|].
  inversion Ha as [[Hx Ha']]. destruct a; discriminate.
Qed.

(** an Insert overlapping Close (closed check passed before Close, return after)
    is not in the log of insertions completed before Close: the run of
    [C11_insert_close_overlap_example] is accepted and [drain_decl] holds of it *)
Definition run_overlap : list (tid * sev) :=
  [(TP 0, SAt PtChecked); (TC, SAt PtEmpty); (TK, SRet); (TC, SRetNext NClosed);
   (TP 0, SAt PtInserted); (TP 0, SRetIns (IOk true))].

Example ex_kp_overlap :
  check_case (CSched [[7]] run_overlap false 1) = [] /\ d_completed (view [[7]] run_overlap) = [].
Proof. split; vm_compute; reflexivity. Qed.

(** * Statements re-exported by Props/C11.v *)

Lemma kp_may_wait_iff :
  forall k d, kinv k d -> (may_wait k = true <-> d_entitled d).
Proof.
  intros k d H; split; [exact (may_wait_entitled k d H)|exact (entitled_may_wait k d H)].
Qed.

Lemma kp_view_history :
  forall progs pre,
    (d_closed (view progs pre) = true <-> In (TK, SRet) pre) /\
    (d_cancelled (view progs pre) = true <-> In (TX, SRet) pre) /\
    (forall pre0 e mid, pre = pre0 ++ (TC, e) :: mid -> Forall (fun te => fst te <> TC) mid ->
       (d_parked (view progs pre) = true <-> e = SBlocked)).
Proof.
  intros progs pre. split; [exact (view_closed_iff progs pre)|].
  split; [exact (view_cancelled_iff progs pre)|].
  intros pre0 e mid -> H. exact (view_parked_iff progs pre0 e mid H).
Qed.

Lemma kp_wake_lts :
  forall s, lreach s -> l_cp s = CWait ->
    ((forall b, lstep s (LSel b) = None) ->
     entitled_at (q_closed (l_q s)) (l_cancelled s) (lin (l_hist s))
                 (exists n i, l_pp s n = PInserted i true)) /\
    (~ entitled_at (q_closed (l_q s)) (l_cancelled s) (lin (l_hist s))
                   (exists n i, l_pp s n = PInserted i true) ->
     exists b s', lstep s (LSel b) = Some s').
Proof.
  intros s Hr Hw. split; [exact (lts_parked_entitled s Hr Hw)|exact (lts_not_entitled_woken s Hr Hw)].
Qed.

Lemma kp_examples :
  (check_case (CSched [[5; 6]] run_good false 0) = [] /\
   refusal_decl run_good /\ wake_decl [[5; 6]] run_good false /\ drain_decl [[5; 6]] run_good /\
   d_completed (view [[5; 6]] run_good) = [(5, [LIns 5 true])]) /\
  (ks_run 0 (ks_init [[5]]) run_bad_refusal false 0 = [(1%nat, 2)] /\ ~ refusal_decl run_bad_refusal) /\
  (ks_run 0 (ks_init [[5]]) run_bad_wake true 0 = [(3%nat, 5)] /\ ~ wake_decl [[5]] run_bad_wake true) /\
  (ks_run 0 (ks_init [[5]]) run_bad_wake_item true 1 = [(5%nat, 5)] /\
   ~ wake_decl [[5]] run_bad_wake_item true) /\
  (ks_run 0 (ks_init [[5]]) run_bad_drain false 1 = [(4%nat, 3)] /\ ~ drain_decl [[5]] run_bad_drain).
Proof.
  split; [split; [exact ex_kp_good_accepted|]; destruct ex_kp_good_decl as (A & B & C & D & _); auto|].
  split; [exact ex_kp_refusal_false|]. split; [exact ex_kp_wake_false|].
  split; [exact ex_kp_wake_item_false|exact ex_kp_drain_false].
Qed.

(** * Trace abstraction: the runs the model side accepts

    [validate_run] keeps the set of LTS states that can have produced the
    recorded events so far; it accepts a recorded run iff the transition system
    can produce it under the recorded thread choices.  Invariant of the set
    along an accepted run: every member is reachable and its [closed] flag says
    whether [(TK, SRet)] is among the recorded events so far. *)

Definition same_cl (s s' : lstate) : Prop :=
  (lreach s -> lreach s') /\ q_closed (l_q s') = q_closed (l_q s).

Lemma same_cl_refl s : same_cl s s.
Proof. split; auto. Qed.

Lemma same_cl_trans a b c : same_cl a b -> same_cl b c -> same_cl a c.
Proof. intros [H1 H2] [H3 H4]. split; [auto|congruence]. Qed.

Lemma same_cl_step s l s' : lstep s l = Some s' -> l <> LClose -> same_cl s s'.
Proof.
  intros Hs Hl. split; [intros Hr; eapply reachable_step; eauto|].
  destruct l as [n i|n| |b| |]; cbn in Hs; try congruence.
  - destruct (l_pp s n); try discriminate. destruct (q_closed (l_q s)) eqn:E; inversion Hs; subst; cbn; auto.
  - destruct (l_pp s n) as [|i|i ok]; try discriminate.
    + unfold locked_insert in Hs. destruct (cget i (q_counts (l_q s))); inversion Hs; subst; reflexivity.
    + inversion Hs; subst; cbn. destruct ok; reflexivity.
  - unfold cons_next, locked_next in Hs.
    destruct (l_cp s); try discriminate.
    + destruct (q_queue (l_q s)) as [|x [|y r]]; inversion Hs; subst; reflexivity.
    + destruct (q_queue (l_q s)) as [|x [|y r]]; inversion Hs; subst; reflexivity.
    + destruct (Nat.eqb (q_len (l_q s)) 0); inversion Hs; subst; reflexivity.
  - destruct (l_cp s); try discriminate. destruct b.
    + destruct (l_cancelled s); inversion Hs; subst; reflexivity.
    + destruct (q_token (l_q s)); inversion Hs; subst; reflexivity.
    + destruct (q_closed (l_q s)) eqn:E; inversion Hs; subst; cbn; auto.
  - inversion Hs; subst; reflexivity.
Qed.

Lemma cons_go_cl f : forall s s' e, In (s', e) (cons_go f s) -> same_cl s s'.
Proof.
  induction f as [|f IH]; intros s s' e Hin; cbn [cons_go In] in Hin; [destruct Hin|].
  destruct (lstep s LC) as [x|] eqn:Ex; [|destruct Hin].
  assert (Hx : same_cl s x) by (eapply same_cl_step; [exact Ex|discriminate]).
  destruct (l_cp x).
  - destruct Hin as [Hin|[]]. inversion Hin; subst. exact Hx.
  - eapply same_cl_trans; [exact Hx|eapply IH; exact Hin].
  - destruct Hin as [Hin|[]]. inversion Hin; subst. exact Hx.
  - eapply same_cl_trans; [exact Hx|eapply IH; exact Hin].
Qed.

Lemma br_cl s b s' e :
  In (s', e) (match lstep s (LSel b) with
              | None => []
              | Some x => match l_cp x with
                          | CIdle => [(x, SRetNext (last_next (l_hist x)))]
                          | _ => cons_go 4 x
                          end
              end) -> same_cl s s'.
Proof.
  destruct (lstep s (LSel b)) as [x|] eqn:Ex; [|intros []].
  assert (Hx : same_cl s x) by (eapply same_cl_step; [exact Ex|discriminate]).
  destruct (l_cp x); intros Hin.
  - destruct Hin as [Hin|[]]. inversion Hin; subst. exact Hx.
  - eapply same_cl_trans; [exact Hx|eapply cons_go_cl; exact Hin].
  - eapply same_cl_trans; [exact Hx|eapply cons_go_cl; exact Hin].
  - eapply same_cl_trans; [exact Hx|eapply cons_go_cl; exact Hin].
Qed.

Lemma cons_macro_cl s s' e : In (s', e) (cons_macro s) -> same_cl s s'.
Proof.
  unfold cons_macro. destruct (l_cp s); try (apply cons_go_cl).
  match goal with |- In _ (match ?l with _ => _ end) -> _ => destruct l as [|y r] eqn:El end.
  - intros [Hin|[]]. inversion Hin; subst. apply same_cl_refl.
  - rewrite <- El. intros Hin.
    apply in_app_or in Hin. destruct Hin as [Hin|Hin]; [eapply br_cl; exact Hin|].
    apply in_app_or in Hin. destruct Hin as [Hin|Hin]; eapply br_cl; exact Hin.
Qed.

Lemma prod_macro_cl s n it s' e : In (s', e) (prod_macro s n it) -> same_cl s s'.
Proof.
  unfold prod_macro. destruct (l_pp s n).
  - destruct it as [i|]; [|intros []]. destruct (lstep s (LCall n i)) as [x|] eqn:Ex; [|intros []].
    assert (Hx : same_cl s x) by (eapply same_cl_step; [exact Ex|discriminate]).
    destruct (l_pp x n); intros [Hin|[]]; inversion Hin; subst; exact Hx.
  - destruct (lstep s (LP n)) as [x|] eqn:Ex; [|intros []].
    intros [Hin|[]]. inversion Hin; subst. eapply same_cl_step; [exact Ex|discriminate].
  - destruct (lstep s (LP n)) as [x|] eqn:Ex; [|intros []].
    intros [Hin|[]]. inversion Hin; subst. eapply same_cl_step; [exact Ex|discriminate].
Qed.

Lemma dedup_by_In {A} (e : A -> A -> bool) x l : In x (dedup_by e l) -> In x l.
Proof.
  induction l as [|y l IH]; cbn; [auto|].
  destruct (existsb (e y) l); [intros H; right; auto|intros [H|H]; auto].
Qed.

Definition vinv (done : list (tid * sev)) (ss : list lstate) : Prop :=
  forall s, In s ss -> lreach s /\ (q_closed (l_q s) = true <-> In (TK, SRet) done).

Definition vpark (blocked : bool) (t : tid) (ss : list lstate) : list lstate :=
  match t with
  | TC => ss
  | _ => if blocked then filter (fun s => negb (sel_enabled s)) ss else ss
  end.

Lemma vpark_In b t ss s : In s (vpark b t ss) -> In s ss.
Proof. destruct t; cbn; try (destruct b; [intros H; apply filter_In in H; tauto|auto]); auto. Qed.

(** where a member of the next state set comes from *)
Lemma vstep_origin np ss progs b t e ss' progs' b' s' :
  vstep np ss progs b t e = (ss', progs', b') -> In s' ss' ->
  exists s, In s ss /\
    match t with
    | TP n => exists it ev, In (s', ev) (prod_macro s n it) /\ sev_eqb e ev = true
    | TC => exists ev, In (s', ev) (cons_macro s) /\ sev_eqb e ev = true
    | TK => lstep s LClose = Some s' /\ e = SRet
    | TX => lstep s LCancel = Some s' /\ e = SRet
    end.
Proof.
  unfold vstep. fold (vpark b t ss).
  destruct t as [n| | |]; intros Hv Hin; inversion Hv; subst; clear Hv;
    apply dedup_by_In in Hin; apply in_flat_map in Hin; destruct Hin as (s & Hs & Hin);
    (assert (Hs' : In s ss)
       by (match type of Hs with
           | In _ (if ?c then _ else _) => destruct c; [apply filter_In in Hs; apply Hs|exact Hs]
           | _ => exact Hs
           end));
    exists s; (split; [exact Hs'|]).
  - apply in_map_iff in Hin. destruct Hin as ([x ev] & Hx & Hf). cbn in Hx. subst x.
    apply filter_In in Hf. destruct Hf as [Hf He]. eauto.
  - destruct (b && negb match l_cp s with CWait => true | _ => false end); [destruct Hin|].
    apply in_map_iff in Hin. destruct Hin as ([x ev] & Hx & Hf). cbn in Hx. subst x.
    apply filter_In in Hf. destruct Hf as [Hf He]. eauto.
  - destruct e as [[]|[?|]|[? ?| | |]| | | |]; cbn in Hin; try (destruct Hin; fail);
      destruct Hin as [<-|[]]; split; reflexivity.
  - destruct e as [[]|[?|]|[? ?| | |]| | | |]; cbn in Hin; try (destruct Hin; fail);
      destruct Hin as [<-|[]]; split; reflexivity.
Qed.

Lemma vinv_step np ss progs b t e ss' progs' b' done :
  vstep np ss progs b t e = (ss', progs', b') -> vinv done ss -> vinv (done ++ [(t, e)]) ss'.
Proof.
  intros Hv Hi s' Hin. destruct (vstep_origin _ _ _ _ _ _ _ _ _ _ Hv Hin) as (s & Hs & Ho).
  destruct (Hi s Hs) as [Hr Hc].
  assert (Hother : same_cl s s' -> (t, e) <> (TK, SRet) ->
                   lreach s' /\ (q_closed (l_q s') = true <-> In (TK, SRet) (done ++ [(t, e)]))).
  { intros [H1 H2] Hne. split; [auto|]. rewrite H2, Hc, in_app_iff. cbn. split; [auto|].
    intros [H|[H|[]]]; [exact H|contradiction]. }
  destruct t as [n| | |].
  - destruct Ho as (it & ev & Hp & _). apply Hother; [eapply prod_macro_cl; exact Hp|discriminate].
  - destruct Ho as (ev & Hp & _). apply Hother; [eapply cons_macro_cl; exact Hp|discriminate].
  - destruct Ho as [Hl ->]. split; [eapply reachable_step; eauto|].
    split; [intros _; apply in_app_iff; right; left; reflexivity|intros _].
    cbn in Hl. inversion Hl; subst; cbn. unfold q_close. destruct (q_closed (l_q s)) eqn:E; [exact E|reflexivity].
  - destruct Ho as [Hl ->]. apply Hother; [eapply same_cl_step; [exact Hl|discriminate]|discriminate].
Qed.

Lemma vinv_init : vinv [] [l_init].
Proof.
  intros s [<-|[]]. split; [apply reachable_refl|]. cbn. split; [discriminate|intros []].
Qed.

Lemma validate_split np fb fl pre : forall i ss progs b post done,
  vinv done ss -> validate_run np i ss progs b (pre ++ post) fb fl = [] ->
  exists i' ss' progs' b', vinv (done ++ pre) ss' /\ validate_run np i' ss' progs' b' post fb fl = [].
Proof.
  induction pre as [|[t e] pre IH]; intros i ss progs b post done Hi Hr.
  - rewrite app_nil_r. exists i, ss, progs, b. split; assumption.
  - cbn [app validate_run] in Hr.
    destruct (vstep np ss progs b t e) as [[ss1 progs1] b1] eqn:Ev.
    destruct ss1 as [|s1 r1]; [discriminate|].
    destruct (IH _ _ _ _ post (done ++ [(t, e)]) (vinv_step _ _ _ _ _ _ _ _ _ _ Ev Hi) Hr)
      as (i' & ss' & progs' & b' & Hi' & Hr').
    rewrite <- app_assoc in Hi'. eauto 8.
Qed.

(** what a producer macro-step can report, by the closed flag of its origin *)
Lemma prod_macro_sev s n it s' ev :
  In (s', ev) (prod_macro s n it) ->
  (ev = SAt PtChecked -> q_closed (l_q s) = false) /\ (ev = SRetIns IClosed -> q_closed (l_q s) = true).
Proof.
  unfold prod_macro. destruct (l_pp s n) eqn:Ep.
  - destruct it as [i|]; [|intros []]. cbn. rewrite Ep.
    destruct (q_closed (l_q s)) eqn:Ec; cbn; rewrite ?Ep, ?set_pp_same;
      intros [Hin|[]]; inversion Hin; subst; split; intros H; try discriminate; reflexivity.
  - destruct (lstep s (LP n)); [|intros []]. intros [Hin|[]]. inversion Hin; subst. split; discriminate.
  - destruct (lstep s (LP n)); [|intros []]. intros [Hin|[]]. inversion Hin; subst. split; discriminate.
Qed.

(** Every recorded run the transition system can produce (accepted by
    [validate_run]) satisfies the refusal statement. *)
Theorem model_run_refusal progs steps fb fl :
  validate_run (List.length progs) 0 [l_init] progs false steps fb fl = [] -> refusal_decl steps.
Proof.
  intros H pre n e post ->.
  destruct (validate_split _ _ _ pre _ _ _ _ _ [] vinv_init H) as (i' & ss' & progs' & b' & Hi & Hr).
  cbn [app] in Hi. cbn [validate_run] in Hr.
  destruct (vstep (List.length progs) ss' progs' b' (TP n) e) as [[ss1 progs1] b1] eqn:Ev.
  destruct ss1 as [|s1 r1]; [discriminate|].
  destruct (vstep_origin _ _ _ _ _ _ _ _ _ s1 Ev (or_introl eq_refl)) as (s & Hs & it & ev & Hp & He).
  destruct (Hi s Hs) as [_ Hc]. destruct (prod_macro_sev _ _ _ _ _ Hp) as [H1 H2].
  split.
  - intros -> Hin. apply Hc in Hin.
    assert (ev = SAt PtChecked) as -> by (destruct ev as [[]|[?|]|[? ?| | |]| | | |]; try discriminate; reflexivity).
    rewrite (H1 eq_refl) in Hin. discriminate.
  - intros ->. apply Hc.
    assert (ev = SRetIns IClosed) as -> by (destruct ev as [[]|[?|]|[? ?| | |]| | | |]; try discriminate; reflexivity).
    exact (H2 eq_refl).
Qed.

Corollary model_check_refusal progs steps fb fl :
  validate_run (List.length progs) 0 [l_init] progs false steps fb fl = [] ->
  forall pre n e post, steps = pre ++ (TP n, e) :: post ->
    refusal_ok (In (TK, SRet) pre) (e = SAt PtChecked) (e = SRetIns IClosed).
Proof. exact (model_run_refusal progs steps fb fl). Qed.

(** ** "closed" is reported only after Close, for whole model runs *)

Lemma lc_closed_report x s' :
  lreach x -> lstep x LC = Some s' -> l_cp s' = CIdle -> last_next (l_hist s') = NClosed ->
  q_closed (l_q x) = true.
Proof.
  intros Hr Hs Hc Hl. cbn in Hs. unfold cons_next in Hs. destruct (l_cp x) eqn:Ec; try discriminate.
  - destruct (locked_next (l_q x)) as [[[i d] q']|]; inversion Hs; subst; cbn in *; congruence.
  - destruct (locked_next (l_q x)) as [[[i d] q']|]; inversion Hs; subst; cbn in *; congruence.
  - destruct (linv_reachable x Hr) as [_ _ _ Hlen _ _]. exact (Hlen Ec).
Qed.

Lemma cons_go_closed f : forall s s',
  lreach s -> In (s', SRetNext NClosed) (cons_go f s) -> q_closed (l_q s) = true.
Proof.
  induction f as [|f IH]; intros s s' Hr Hin; cbn [cons_go In] in Hin; [destruct Hin|].
  destruct (lstep s LC) as [x|] eqn:Ex; [|destruct Hin].
  assert (Hx : same_cl s x) by (eapply same_cl_step; [exact Ex|discriminate]).
  destruct Hx as [Hrx Hcx].
  destruct (l_cp x) eqn:Ecx.
  - destruct Hin as [Hin|[]]. inversion Hin; subst. eapply lc_closed_report; eauto.
  - rewrite <- Hcx. eapply IH; [auto|exact Hin].
  - destruct Hin as [Hin|[]]. discriminate.
  - rewrite <- Hcx. eapply IH; [auto|exact Hin].
Qed.

Lemma br_closed s b s' :
  lreach s ->
  In (s', SRetNext NClosed)
     (match lstep s (LSel b) with
      | None => []
      | Some x => match l_cp x with
                  | CIdle => [(x, SRetNext (last_next (l_hist x)))]
                  | _ => cons_go 4 x
                  end
      end) -> q_closed (l_q s) = true.
Proof.
  intros Hr. destruct (lstep s (LSel b)) as [x|] eqn:Ex; [|intros []].
  assert (Hx : same_cl s x) by (eapply same_cl_step; [exact Ex|discriminate]).
  destruct Hx as [Hrx Hcx].
  destruct (l_cp x) eqn:Ecx; intros Hin.
  - destruct Hin as [Hin|[]]. inversion Hin; subst. exfalso.
    cbn in Ex. destruct (l_cp s); try discriminate. destruct b.
    + destruct (l_cancelled s); inversion Ex; subst; cbn in *; congruence.
    + destruct (q_token (l_q s)); inversion Ex; subst; cbn in *; congruence.
    + destruct (q_closed (l_q s)); inversion Ex; subst; cbn in *; congruence.
  - rewrite <- Hcx. eapply cons_go_closed; [auto|exact Hin].
  - rewrite <- Hcx. eapply cons_go_closed; [auto|exact Hin].
  - rewrite <- Hcx. eapply cons_go_closed; [auto|exact Hin].
Qed.

Lemma cons_macro_closed s s' :
  lreach s -> In (s', SRetNext NClosed) (cons_macro s) -> q_closed (l_q s) = true.
Proof.
  intros Hr. unfold cons_macro. destruct (l_cp s); try (apply cons_go_closed; exact Hr).
  match goal with |- In _ (match ?l with _ => _ end) -> _ => destruct l as [|y r] eqn:El end.
  - intros [Hin|[]]. discriminate.
  - rewrite <- El. intros Hin.
    apply in_app_or in Hin. destruct Hin as [Hin|Hin]; [eapply br_closed; eauto|].
    apply in_app_or in Hin. destruct Hin as [Hin|Hin]; eapply br_closed; eauto.
Qed.

(** first half of [drain_decl] for every recorded run the transition system
    can produce: "closed" is reported only after Close has run *)
Theorem model_run_closed_after_close progs steps fb fl :
  validate_run (List.length progs) 0 [l_init] progs false steps fb fl = [] ->
  forall pre post, steps = pre ++ (TC, SRetNext NClosed) :: post -> In (TK, SRet) pre.
Proof.
  intros H pre post ->.
  destruct (validate_split _ _ _ pre _ _ _ _ _ [] vinv_init H) as (i' & ss' & progs' & b' & Hi & Hr).
  cbn [app] in Hi. cbn [validate_run] in Hr.
  destruct (vstep (List.length progs) ss' progs' b' TC (SRetNext NClosed)) as [[ss1 progs1] b1] eqn:Ev.
  destruct ss1 as [|s1 r1]; [discriminate|].
  destruct (vstep_origin _ _ _ _ _ _ _ _ _ s1 Ev (or_introl eq_refl)) as (s & Hs & ev & Hp & He).
  destruct (Hi s Hs) as [Hreach Hc].
  assert (ev = SRetNext NClosed) as ->
    by (destruct ev as [[]|[?|]|[? ?| | |]| | | |]; try discriminate; reflexivity).
  apply Hc. eapply cons_macro_closed; eauto.
Qed.

(** non-vacuity of the trace-abstraction theorems: [run_good] is produced by the
    transition system; [run_bad_refusal] and a "closed" without Close are not *)
Example ex_model_runs :
  validate_run 1 0 [l_init] [[5; 6]] false run_good false 0 = [] /\
  validate_run 1 0 [l_init] [[5]] false run_bad_refusal false 0 <> [] /\
  validate_run 1 0 [l_init] [[5]] false [(TC, SAt PtEmpty); (TC, SRetNext NClosed)] false 0 <> [].
Proof. split; [vm_compute; reflexivity|split; vm_compute; discriminate]. Qed.

(** the end-of-run case of [wake_decl] for whole model runs: a run the
    transition system can produce and that ends with the consumer parked ends in
    a reachable state whose consumer is at the select with no enabled case, hence
    entitled to wait -- in particular Close is not among the recorded events *)
Theorem model_run_final_parked progs steps fl :
  validate_run (List.length progs) 0 [l_init] progs false steps true fl = [] ->
  exists s, lreach s /\ l_cp s = CWait /\ (forall b, lstep s (LSel b) = None) /\
            q_len (l_q s) = fl /\ ~ In (TK, SRet) steps /\
            entitled_at (q_closed (l_q s)) (l_cancelled s) (lin (l_hist s))
                        (exists n i, l_pp s n = PInserted i true).
Proof.
  intros H.
  assert (H0 : validate_run (List.length progs) 0 [l_init] progs false (steps ++ []) true fl = [])
    by (rewrite app_nil_r; exact H).
  destruct (validate_split _ _ _ steps _ _ _ _ [] [] vinv_init H0) as (i' & ss' & p' & b' & Hi & Hr).
  cbn [app] in Hi. cbn [validate_run] in Hr.
  match type of Hr with (match ?l with _ => _ end) = _ => destruct l as [|s r] eqn:Ef end; [discriminate|].
  assert (Hin : In s (s :: r)) by (left; reflexivity). rewrite <- Ef in Hin.
  apply filter_In in Hin. destruct Hin as [Hin Hlen]. apply filter_In in Hin. destruct Hin as [Hin Hp].
  apply andb_true_iff in Hp. destruct Hp as [Hne Hcw].
  assert (Hw : l_cp s = CWait) by (destruct (l_cp s); try discriminate; reflexivity).
  destruct (Hi s Hin) as [Hreach Hc].
  unfold sel_enabled in Hne. rewrite Hw in Hne. apply negb_true_iff in Hne.
  apply orb_false_iff in Hne. destruct Hne as [Hne Hcl]. apply orb_false_iff in Hne. destruct Hne as [Hca Htk].
  assert (Hb : forall b, lstep s (LSel b) = None).
  { intros b. cbn. rewrite Hw, Hca, Htk, Hcl. destruct b; reflexivity. }
  exists s. split; [exact Hreach|]. split; [exact Hw|]. split; [exact Hb|].
  split; [apply Nat.eqb_eq; exact Hlen|].
  split; [intros Hk; apply Hc in Hk; congruence|].
  apply lts_parked_entitled; assumption.
Qed.

Example ex_model_final_parked :
  validate_run 1 0 [l_init] [[5]] false [(TC, SAt PtEmpty); (TC, SBlocked)] true 0 = [] /\
  validate_run 1 0 [l_init] [[5]] false run_bad_wake true 0 <> [].
Proof. split; [vm_compute; reflexivity|vm_compute; discriminate]. Qed.

(** Soundness of the wake-up / refusal / drain clauses of the mode S executable
    specification ([ksstep] / [ks_run] of QueueCheck.v).

    A recorded run is [steps : list (tid * sev)] (oldest first) for the producer
    programs [progs].  [view progs pre] is a *descriptive* reading of a prefix
    of the run -- a total fold that never rejects anything and keeps only
    history-level facts: the linearisation of the locked sections ([d_lin],
    newest first, the same vocabulary [lev] / [npend] as the theorems over the
    transition system), whether Close / cancel have run, where every producer
    stands, whether the consumer's last event was "parked", and the log of the
    Insert calls that returned before Close, each stamped with the
    linearisation up to and including its own locked section.

    The declarative statements quantify over all split points of the run and
    speak about this reading only; [K_P accepts -> declarative] is proved for all
    recorded runs, and the same point predicates ([refusal_ok], [entitled_at],
    [delivered_after]) are shown to hold of every reachable state of the
    transition system, from the theorems of QueueProofs.v. *)
From Coq Require Import Sorting.Sorted.
From Gnmi Require Import Base.Prelude Base.Lts Coalesce.QueueModel Coalesce.QueueLts
  Coalesce.QueueCheck Coalesce.QueueProofs.
Open Scope N_scope.

(** * The descriptive reading of a recorded run *)

(** [DInserted i first hb]: past the locked insert of [i]; [first] = the item had
    no undelivered insertion just before; [hb] = the linearisation up to and
    including this locked section *)
Inductive dpp := DIdle | DChecked (i : item) | DInserted (i : item) (first : bool) (hb : list lev).

Record dview := mkD {
  d_lin : list lev;
  d_closed : bool;
  d_cancelled : bool;
  d_pp : list dpp;
  d_progs : list (list item);
  d_parked : bool;
  d_completed : list (item * list lev) }.

Fixpoint nth_dpp (l : list dpp) (n : nat) : dpp :=
  match l, n with
  | [], _ => DIdle
  | p :: _, O => p
  | _ :: r, S m => nth_dpp r m
  end.

Fixpoint set_dpp (l : list dpp) (n : nat) (p : dpp) : list dpp :=
  match l, n with
  | [], _ => []
  | _ :: r, O => p :: r
  | q :: r, S m => q :: set_dpp r m p
  end.

Definition dstep (d : dview) (t : tid) (e : sev) : dview :=
  match t, e with
  | TP n, SAt PtChecked =>
      match nth_dpp (d_pp d) n, nth_prog (d_progs d) n with
      | DIdle, i :: rest =>
          mkD (d_lin d) (d_closed d) (d_cancelled d) (set_dpp (d_pp d) n (DChecked i))
              (set_prog (d_progs d) n rest) (d_parked d) (d_completed d)
      | _, _ => d
      end
  | TP n, SRetIns IClosed =>
      match nth_dpp (d_pp d) n, nth_prog (d_progs d) n with
      | DIdle, _ :: rest =>
          mkD (d_lin d) (d_closed d) (d_cancelled d) (d_pp d)
              (set_prog (d_progs d) n rest) (d_parked d) (d_completed d)
      | _, _ => d
      end
  | TP n, SAt PtInserted =>
      match nth_dpp (d_pp d) n with
      | DChecked i =>
          let first := N.eqb (npend i (d_lin d)) 0 in
          let lin' := LIns i first :: d_lin d in
          mkD lin' (d_closed d) (d_cancelled d) (set_dpp (d_pp d) n (DInserted i first lin'))
              (d_progs d) (d_parked d) (d_completed d)
      | _ => d
      end
  | TP n, SRetIns (IOk _) =>
      match nth_dpp (d_pp d) n with
      | DInserted i _ hb =>
          mkD (d_lin d) (d_closed d) (d_cancelled d) (set_dpp (d_pp d) n DIdle)
              (d_progs d) (d_parked d)
              (if d_closed d then d_completed d else (i, hb) :: d_completed d)
      | _ => d
      end
  | TC, SBlocked =>
      mkD (d_lin d) (d_closed d) (d_cancelled d) (d_pp d) (d_progs d) true (d_completed d)
  | TC, SRetNext (NItem j c) =>
      mkD (LPop j c :: d_lin d) (d_closed d) (d_cancelled d) (d_pp d) (d_progs d) false (d_completed d)
  | TC, _ =>
      mkD (d_lin d) (d_closed d) (d_cancelled d) (d_pp d) (d_progs d) false (d_completed d)
  | TK, SRet =>
      mkD (d_lin d) true (d_cancelled d) (d_pp d) (d_progs d) (d_parked d) (d_completed d)
  | TX, SRet =>
      mkD (d_lin d) (d_closed d) true (d_pp d) (d_progs d) (d_parked d) (d_completed d)
  | _, _ => d
  end.

Fixpoint dfold (d : dview) (steps : list (tid * sev)) : dview :=
  match steps with
  | [] => d
  | (t, e) :: r => dfold (dstep d t e) r
  end.

Definition d_init (progs : list (list item)) : dview :=
  mkD [] false false (map (fun _ => DIdle) progs) progs false [].

Definition view (progs : list (list item)) (pre : list (tid * sev)) : dview := dfold (d_init progs) pre.

(** * The point predicates, shared by recorded runs and the transition system *)

(** a call that passed the closed check did so before Close; a refused call
    came after it *)
Definition refusal_ok (closed_before passed refused : Prop) : Prop :=
  (passed -> ~ closed_before) /\ (refused -> closed_before).

(** the consumer may stay parked: queue open, context live, and nothing has an
    undelivered insertion -- or a producer stands between the locked insert
    that made its item pending and its token send *)
Definition entitled_at (closed cancelled : bool) (lin : list lev) (window : Prop) : Prop :=
  closed = false /\ cancelled = false /\ ((forall i, npend i lin = 0) \/ window).

(** [i] was delivered after the locked section that is the head of [hb] *)
Definition delivered_after (i : item) (hb lin : list lev) : Prop :=
  exists a d, lin = a ++ hb /\ In (LPop i d) a.

Definition suffix_of (hb lin : list lev) : Prop := exists a, lin = a ++ hb.

(** * The declarative statements over a recorded run *)

(** insertions after close are refused (and only those) *)
Definition refusal_decl (steps : list (tid * sev)) : Prop :=
  forall pre n e post, steps = pre ++ (TP n, e) :: post ->
    refusal_ok (In (TK, SRet) pre) (e = SAt PtChecked) (e = SRetIns IClosed).

Definition d_entitled (d : dview) : Prop :=
  entitled_at (d_closed d) (d_cancelled d) (d_lin d)
              (exists n i hb, nth_dpp (d_pp d) n = DInserted i true hb).

(** a parked consumer that is not entitled to wait (item pending with no producer
    in the window / closed / cancelled) is woken: the next recorded event is
    the consumer's and it is not "parked again"; in particular the run does not
    end there *)
Definition wake_decl (progs : list (list item)) (steps : list (tid * sev)) (final_blocked : bool) : Prop :=
  final_blocked = d_parked (view progs steps) /\
  forall pre post, steps = pre ++ post -> d_parked (view progs pre) = true ->
    d_entitled (view progs pre) \/ exists e post', post = (TC, e) :: post' /\ e <> SBlocked.

(** the consumer is told "closed" only after Close, and after every insertion
    that returned before Close has been delivered (after its own locked section) *)
Definition drain_decl (progs : list (list item)) (steps : list (tid * sev)) : Prop :=
  forall pre post, steps = pre ++ (TC, SRetNext NClosed) :: post ->
    In (TK, SRet) pre /\
    forall i hb, In (i, hb) (d_completed (view progs pre)) -> delivered_after i hb (d_lin (view progs pre)).

(** * Facts about the reading alone *)

Lemma dfold_app d a b : dfold d (a ++ b) = dfold (dfold d a) b.
Proof. revert d. induction a as [|[t e] a IH]; intros d; cbn; [reflexivity|apply IH]. Qed.

Lemma dstep_closed d t e : d_closed (dstep d t e) = d_closed d || (match t, e with TK, SRet => true | _, _ => false end).
Proof.
  destruct t as [n| | |]; destruct e as [[]|[b|]|[j c| | |]| | | |]; cbn;
    repeat match goal with |- context [match ?x with _ => _ end] => destruct x; cbn end;
    rewrite ?orb_false_r, ?orb_true_r; reflexivity.
Qed.

Lemma dstep_cancelled d t e : d_cancelled (dstep d t e) = d_cancelled d || (match t, e with TX, SRet => true | _, _ => false end).
Proof.
  destruct t as [n| | |]; destruct e as [[]|[b|]|[j c| | |]| | | |]; cbn;
    repeat match goal with |- context [match ?x with _ => _ end] => destruct x; cbn end;
    rewrite ?orb_false_r, ?orb_true_r; reflexivity.
Qed.

Lemma dfold_closed pre : forall d, d_closed (dfold d pre) = true <-> d_closed d = true \/ In (TK, SRet) pre.
Proof.
  induction pre as [|[t e] pre IH]; intros d; cbn [dfold In].
  - tauto.
  - rewrite IH, dstep_closed, orb_true_iff. split.
    + intros [[H|H]|H]; auto. right. left.
      destruct t; try discriminate; destruct e; try discriminate; reflexivity.
    + intros [H|[H|H]]; auto. inversion H; subst. auto.
Qed.

Lemma dfold_cancelled pre : forall d, d_cancelled (dfold d pre) = true <-> d_cancelled d = true \/ In (TX, SRet) pre.
Proof.
  induction pre as [|[t e] pre IH]; intros d; cbn [dfold In].
  - tauto.
  - rewrite IH, dstep_cancelled, orb_true_iff. split.
    + intros [[H|H]|H]; auto. right. left.
      destruct t; try discriminate; destruct e; try discriminate; reflexivity.
    + intros [H|[H|H]]; auto. inversion H; subst. auto.
Qed.

(** "closed" / "cancelled" of the reading are facts of the recorded history *)
Theorem view_closed_iff progs pre : d_closed (view progs pre) = true <-> In (TK, SRet) pre.
Proof. unfold view. rewrite dfold_closed. cbn. split; [intros [H|H]; [discriminate|exact H]|auto]. Qed.

Theorem view_cancelled_iff progs pre : d_cancelled (view progs pre) = true <-> In (TX, SRet) pre.
Proof. unfold view. rewrite dfold_cancelled. cbn. split; [intros [H|H]; [discriminate|exact H]|auto]. Qed.

(** the reading says "parked" exactly when the consumer's last event is [SBlocked] *)
Lemma dfold_parked_others mid : forall d,
  Forall (fun te => fst te <> TC) mid -> d_parked (dfold d mid) = d_parked d.
Proof.
  induction mid as [|[t e] mid IH]; intros d H; cbn; [reflexivity|].
  inversion H; subst. rewrite IH by assumption. cbn in *.
  destruct t as [n| | |]; [| congruence | |];
    destruct e as [[]|[b|]|[j c| | |]| | | |]; cbn;
    repeat match goal with |- context [match ?x with _ => _ end] => destruct x; cbn end; reflexivity.
Qed.

Theorem view_parked_iff progs pre e mid :
  Forall (fun te => fst te <> TC) mid ->
  (d_parked (view progs (pre ++ (TC, e) :: mid)) = true <-> e = SBlocked).
Proof.
  intros H. unfold view. rewrite dfold_app. cbn [dfold]. rewrite dfold_parked_others by assumption.
  destruct e as [[]|[b|]|[j c| | |]| | | |]; cbn; split; intros; try discriminate; reflexivity.
Qed.

(** * Lemmas on the linearisation *)

Lemma first_flag h q i : aq_replay h = Some q -> snd (aq_insert i q) = N.eqb (npend i h) 0.
Proof.
  intros Ha. pose proof (aq_replay_hist_ok _ _ Ha) as Ho.
  unfold aq_insert. destruct (aq_mem i q) eqn:Em; cbn.
  - apply aq_mem_In in Em. apply in_map_iff in Em. destruct Em as ([j d] & Hj & Hin). cbn in Hj. subst j.
    rewrite (ho_cnt _ _ Ho _ _ Hin). symmetry. apply N.eqb_neq. lia.
  - assert (Hn : ~ In i (map fst q)).
    { intros Hin. apply aq_mem_In in Hin. congruence. }
    rewrite (ho_zero _ _ Ho _ Hn). reflexivity.
Qed.

Lemma npend_in_aq h q i : aq_replay h = Some q -> npend i h <> 0 -> In i (map fst q).
Proof.
  intros Ha Hn. pose proof (aq_replay_hist_ok _ _ Ha) as Ho.
  destruct (in_dec N.eq_dec i (map fst q)) as [H|H]; [exact H|].
  exfalso. apply Hn. apply (ho_zero _ _ Ho _ H).
Qed.

Lemma aq_nil_npend h : aq_replay h = Some [] -> forall i, npend i h = 0.
Proof. intros Ha i. apply (ho_zero _ _ (aq_replay_hist_ok _ _ Ha)). intros []. Qed.

Lemma npend_zero_aq_nil h q : aq_replay h = Some q -> (forall i, npend i h = 0) -> q = [].
Proof.
  intros Ha Hz. destruct q as [|[i d] q]; [reflexivity|]. exfalso.
  pose proof (ho_cnt _ _ (aq_replay_hist_ok _ _ Ha) i d (or_introl eq_refl)) as H. rewrite Hz in H. lia.
Qed.

(** after a locked insert of [i], either [i] has been popped since or it is pending *)
Lemma pending_or_popped i f r a :
  (exists d, In (LPop i d) a) \/ npend i (a ++ LIns i f :: r) <> 0.
Proof.
  induction a as [|x a IH]; cbn [app npend].
  - right. rewrite N.eqb_refl. lia.
  - destruct x as [j g|j c]; cbn [npend].
    + destruct IH as [[d H]|H]; [left; exists d; right; exact H|right].
      destruct (N.eqb i j); lia.
    + destruct (N.eqb_spec i j) as [<-|Hne].
      * left. exists c. left. reflexivity.
      * destruct IH as [[d H]|H]; [left; exists d; right; exact H|right; exact H].
Qed.

Lemma delivered_after_cons i hb lin x : delivered_after i hb lin -> delivered_after i hb (x :: lin).
Proof. intros (a & d & -> & Hin). exists (x :: a), d. split; [reflexivity|right; exact Hin]. Qed.

Lemma suffix_of_cons hb lin x : suffix_of hb lin -> suffix_of hb (x :: lin).
Proof. intros (a & ->). exists (x :: a). reflexivity. Qed.

Lemma suffix_pop_delivered i hb lin c : suffix_of hb lin -> delivered_after i hb (LPop i c :: lin).
Proof. intros (a & ->). exists (LPop i c :: a), c. split; [reflexivity|left; reflexivity]. Qed.

(** * The invariant tying K_P's bookkeeping to the reading *)

Inductive ppr (lin : list lev) : kpp -> dpp -> Prop :=
| ppr_idle : ppr lin KIdle DIdle
| ppr_chk i : ppr lin (KChecked i) (DChecked i)
| ppr_ins i new live r :
    suffix_of (LIns i new :: r) lin ->
    (live = true \/ delivered_after i (LIns i new :: r) lin) ->
    ppr lin (KInserted i new live) (DInserted i new (LIns i new :: r)).

Record kinv (k : kss) (d : dview) : Prop := {
  ki_closed : ks_closed k = d_closed d;
  ki_canc : ks_cancelled k = d_cancelled d;
  ki_parked : ks_blocked k = d_parked d;
  ki_progs : ks_progs k = d_progs d;
  ki_ref : aq_replay (d_lin d) = Some (ks_aq k);
  ki_pp : Forall2 (ppr (d_lin d)) (ks_pp k) (d_pp d);
  ki_done : forall i hb, In (i, hb) (d_completed d) ->
      (exists f r, hb = LIns i f :: r) /\ suffix_of hb (d_lin d) /\
      (delivered_after i hb (d_lin d) \/ In i (ks_done k)) }.

Lemma ppr_idle_inv lin p' : ppr lin KIdle p' -> p' = DIdle.
Proof. intros H; inversion H; reflexivity. Qed.

Lemma ppr_chk_inv lin i p' : ppr lin (KChecked i) p' -> p' = DChecked i.
Proof. intros H; inversion H; reflexivity. Qed.

Lemma ppr_ins_inv lin i new live p' : ppr lin (KInserted i new live) p' ->
  exists r, p' = DInserted i new (LIns i new :: r) /\ suffix_of (LIns i new :: r) lin /\
            (live = true \/ delivered_after i (LIns i new :: r) lin).
Proof. intros H; inversion H; subst. eauto. Qed.

Lemma ppr_dins_inv lin p i f hb : ppr lin p (DInserted i f hb) -> exists live, p = KInserted i f live.
Proof. intros H; inversion H; subst. eauto. Qed.

Lemma F2_nth lin l l' : Forall2 (ppr lin) l l' -> forall n, ppr lin (nth_kpp l n) (nth_dpp l' n).
Proof.
  induction 1 as [|p p' l l' Hp Hl IH]; intros n.
  - destruct n; constructor.
  - destruct n; cbn; [exact Hp|apply IH].
Qed.

Lemma F2_set lin l l' p p' : Forall2 (ppr lin) l l' -> ppr lin p p' ->
  forall n, Forall2 (ppr lin) (set_kpp l n p) (set_dpp l' n p').
Proof.
  induction 1 as [|q q' l l' Hq Hl IH]; intros Hp n.
  - destruct n; constructor.
  - destruct n; cbn; constructor; auto.
Qed.

Lemma ppr_mono lin x p p' : ppr lin p p' -> ppr (x :: lin) p p'.
Proof.
  intros H. destruct H as [|i|i new live r Hs Hl]; constructor.
  - apply suffix_of_cons; exact Hs.
  - destruct Hl as [Hl|Hl]; [left; exact Hl|right; apply delivered_after_cons; exact Hl].
Qed.

Lemma F2_mono lin x l l' : Forall2 (ppr lin) l l' -> Forall2 (ppr (x :: lin)) l l'.
Proof. induction 1; constructor; auto using ppr_mono. Qed.

Lemma F2_pop lin j c l l' : Forall2 (ppr lin) l l' ->
  Forall2 (ppr (LPop j c :: lin))
    (map (fun p => match p with
                   | KInserted x ex _ => if N.eqb x j then KInserted x ex false else p
                   | _ => p end) l) l'.
Proof.
  induction 1 as [|p p' l l' Hp Hl IH]; cbn; constructor; [|exact IH].
  destruct Hp as [|i|i new live r Hs Hlv]; try constructor.
  destruct (N.eqb_spec i j) as [->|Hne]; constructor.
  - apply suffix_of_cons; exact Hs.
  - right. apply suffix_pop_delivered. exact Hs.
  - apply suffix_of_cons; exact Hs.
  - destruct Hlv as [Hlv|Hlv]; [left; exact Hlv|right; apply delivered_after_cons; exact Hlv].
Qed.

Lemma kinv_init progs :
  kinv (mkKS [] false false (map (fun _ => KIdle) progs) progs false []) (d_init progs).
Proof.
  split; cbn; try reflexivity.
  - induction progs; cbn; constructor; [constructor|assumption].
  - intros i hb [].
Qed.

Ltac kguard Hk :=
  match type of Hk with
  | (if ?g then _ else _) = _ => destruct g eqn:Hguard; [discriminate|]
  end.

Lemma kinv_step k d t e k' : kinv k d -> ksstep k t e = inl k' -> kinv k' (dstep d t e).
Proof.
  intros [Hcl Hca Hpk Hpr Href Hpp Hdn] Hk. unfold ksstep in Hk.
  destruct e as [p|r|r| | | |]; try discriminate; kguard Hk;
    (destruct t as [n| | |];
     [pose proof (F2_nth _ _ _ Hpp n) as Hn | | |]).
  - (* TP, SAt *)
    destruct (nth_kpp (ks_pp k) n) as [|i|i ex lv] eqn:Ep; destruct p; try discriminate.
    + apply ppr_idle_inv in Hn.
      destruct (nth_prog (ks_progs k) n) as [|i rest] eqn:Eg; [discriminate|].
      destruct (ks_closed k) eqn:Ec; [discriminate|]. inversion Hk; subst; clear Hk.
      unfold dstep. rewrite Hn, <- Hpr, Eg.
      split; cbn; auto; try (rewrite Hpr; reflexivity).
      apply F2_set; [exact Hpp|constructor].
    + apply ppr_chk_inv in Hn.
      destruct (aq_insert i (ks_aq k)) as [q' new] eqn:Ei. inversion Hk; subst; clear Hk.
      unfold dstep. rewrite Hn. cbn zeta.
      pose proof (first_flag _ _ i Href) as Hf. rewrite Ei in Hf. cbn in Hf. rewrite <- Hf.
      split; cbn; auto.
      * rewrite Href, Ei. cbn. rewrite Bool.eqb_reflx. reflexivity.
      * apply F2_set; [apply F2_mono; exact Hpp|].
        constructor; [exists []; reflexivity|left; reflexivity].
      * intros j hb Hin. destruct (Hdn j hb Hin) as (Hh & Hs & Hv).
        split; [exact Hh|]. split; [apply suffix_of_cons; exact Hs|].
        destruct Hv as [Hv|Hv]; [left; apply delivered_after_cons; exact Hv|right; exact Hv].
  - (* TC, SAt *)
    destruct p; try discriminate. inversion Hk; subst; clear Hk.
    split; cbn; auto.
  - destruct p; discriminate.
  - destruct p; discriminate.
  - (* TP, SRetIns *)
    destruct (nth_kpp (ks_pp k) n) as [|i|i ex lv] eqn:Ep; destruct r as [b|]; try discriminate.
    + apply ppr_idle_inv in Hn.
      destruct (nth_prog (ks_progs k) n) as [|i rest] eqn:Eg; [discriminate|].
      destruct (ks_closed k) eqn:Ec; [|discriminate]. inversion Hk; subst; clear Hk.
      unfold dstep. rewrite Hn, <- Hpr, Eg.
      split; cbn; auto; try (rewrite Hpr; reflexivity).
    + apply ppr_ins_inv in Hn. destruct Hn as (r' & Hn & Hs & Hlv).
      destruct (Bool.eqb b ex); [|discriminate]. inversion Hk; subst; clear Hk.
      unfold dstep. rewrite Hn.
      split; cbn; auto.
      * apply F2_set; [exact Hpp|constructor].
      * intros j hb Hin. rewrite <- Hcl in Hin.
        destruct (ks_closed k) eqn:Ec; cbn.
        { exact (Hdn j hb Hin). }
        destruct Hin as [Hin|Hin].
        { inversion Hin; subst. split; [eauto|]. split; [exact Hs|].
          destruct Hlv as [->|Hlv]; [right; cbn; left; reflexivity|left; exact Hlv]. }
        destruct (Hdn j hb Hin) as (Hh & Hs' & Hv). split; [exact Hh|]. split; [exact Hs'|].
        destruct Hv as [Hv|Hv]; [left; exact Hv|right].
        destruct (negb lv); cbn; [exact Hv|right; exact Hv].
  - discriminate.
  - discriminate.
  - discriminate.
  - (* TP, SRetNext *)
    destruct (nth_kpp (ks_pp k) n); discriminate.
  - (* TC, SRetNext *)
    destruct r as [j c| | |]; try discriminate.
    + destruct (ks_aq k) as [|[i c'] q'] eqn:Eq; [discriminate|].
      destruct (N.eqb_spec i j) as [<-|]; cbn in Hk; [|discriminate].
      destruct (N.eqb_spec c' c) as [<-|]; cbn in Hk; [|discriminate].
      inversion Hk; subst; clear Hk.
      split; cbn; auto.
      * rewrite Href, !N.eqb_refl. reflexivity.
      * apply F2_pop. exact Hpp.
      * intros x hb Hin. destruct (Hdn x hb Hin) as (Hh & Hs & Hv).
        split; [exact Hh|]. split; [apply suffix_of_cons; exact Hs|].
        destruct Hv as [Hv|Hv]; [left; apply delivered_after_cons; exact Hv|].
        destruct (N.eqb_spec x i) as [->|Hne].
        { left. apply suffix_pop_delivered. exact Hs. }
        right. apply filter_In. split; [exact Hv|]. apply negb_true_iff. apply N.eqb_neq. exact Hne.
    + destruct (ks_closed k) eqn:Ec; [|discriminate].
      match type of Hk with (if ?c then _ else _) = _ => destruct c end; [discriminate|].
      inversion Hk; subst; clear Hk. split; cbn; auto.
    + destruct (ks_cancelled k) eqn:Ec; [|discriminate]. inversion Hk; subst; clear Hk.
      split; cbn; auto.
  - discriminate.
  - discriminate.
  - (* TP, SBlocked *)
    destruct (nth_kpp (ks_pp k) n); discriminate.
  - cbn zeta in Hk. destruct (may_wait _); [|discriminate]. inversion Hk; subst; clear Hk.
    split; cbn; auto.
  - discriminate.
  - discriminate.
  - (* TP, SRet *)
    destruct (nth_kpp (ks_pp k) n); discriminate.
  - discriminate.
  - inversion Hk; subst; clear Hk. split; cbn; auto.
  - inversion Hk; subst; clear Hk. split; cbn; auto.
Qed.

(** an accepted run: at every split point K_P's state satisfies the invariant
    with the reading of the prefix, and K_P accepts the rest *)
Lemma kinv_split pre : forall i k d post fb fl,
  kinv k d -> ks_run i k (pre ++ post) fb fl = [] ->
  exists k' i', kinv k' (dfold d pre) /\ ks_run i' k' post fb fl = [].
Proof.
  induction pre as [|[t e] pre IH]; intros i k d post fb fl Hi Hr.
  - exists k, i. split; assumption.
  - cbn in Hr. destruct (ksstep k t e) as [k1|] eqn:E; [|discriminate].
    cbn [dfold]. eapply IH; [|exact Hr]. eapply kinv_step; eauto.
Qed.

(** * Soundness of the three clauses *)

Definition ks_init (progs : list (list item)) : kss :=
  mkKS [] false false (map (fun _ => KIdle) progs) progs false [].

Lemma refusal_point k n e k' :
  ksstep k (TP n) e = inl k' ->
  (e = SAt PtChecked -> ks_closed k = false) /\ (e = SRetIns IClosed -> ks_closed k = true).
Proof.
  intros Hk. split; intros ->; unfold ksstep in Hk; kguard Hk;
    destruct (nth_kpp (ks_pp k) n); try discriminate;
    destruct (nth_prog (ks_progs k) n); try discriminate;
    destruct (ks_closed k); try discriminate; reflexivity.
Qed.

Theorem ks_refusal_sound progs steps fb fl :
  ks_run 0 (ks_init progs) steps fb fl = [] -> refusal_decl steps.
Proof.
  intros Hr pre n e post ->.
  destruct (kinv_split pre _ _ _ _ _ _ (kinv_init progs) Hr) as (k' & i' & Hi & Hr').
  cbn in Hr'. destruct (ksstep k' (TP n) e) as [k1|] eqn:E; [|discriminate].
  destruct (refusal_point _ _ _ _ E) as [H1 H2].
  pose proof (view_closed_iff progs pre) as Hv. fold (view progs pre) in Hi.
  rewrite <- (ki_closed _ _ Hi) in Hv.
  split.
  - intros He Hin. apply Hv in Hin. rewrite (H1 He) in Hin. discriminate.
  - intros He. apply Hv. exact (H2 He).
Qed.

Lemma may_wait_entitled k d : kinv k d -> may_wait k = true -> d_entitled d.
Proof.
  intros Hi Hm. unfold may_wait in Hm.
  apply andb_true_iff in Hm. destruct Hm as [Hm Hw]. apply andb_true_iff in Hm. destruct Hm as [Hc Hx].
  apply negb_true_iff in Hc, Hx.
  split; [rewrite <- (ki_closed _ _ Hi); exact Hc|]. split; [rewrite <- (ki_canc _ _ Hi); exact Hx|].
  apply orb_true_iff in Hw. destruct Hw as [Hw|Hw].
  - left. destruct (ks_aq k) eqn:Eq; [|discriminate]. apply aq_nil_npend. rewrite <- Eq. exact (ki_ref _ _ Hi).
  - right. apply existsb_exists in Hw. destruct Hw as (p & Hin & Hp).
    destruct p as [|?|i [|] lv]; try discriminate.
    apply In_nth_error in Hin. destruct Hin as [n Hn].
    assert (Hk : nth_kpp (ks_pp k) n = KInserted i true lv).
    { clear - Hn. revert n Hn. induction (ks_pp k) as [|q l IH]; intros n Hn; destruct n; cbn in *; try discriminate.
      - inversion Hn; reflexivity.
      - apply IH; exact Hn. }
    pose proof (F2_nth _ _ _ (ki_pp _ _ Hi) n) as Hr. rewrite Hk in Hr. inversion Hr; subst.
    exists n, i. eexists. symmetry. eassumption.
Qed.

(** the converse: K_P's [may_wait] decides exactly [d_entitled] *)
Lemma entitled_may_wait k d : kinv k d -> d_entitled d -> may_wait k = true.
Proof.
  intros Hi (Hc & Hx & Hw). unfold may_wait.
  rewrite (ki_closed _ _ Hi), (ki_canc _ _ Hi), Hc, Hx. cbn.
  destruct Hw as [Hz|(n & i & hb & Hn)].
  - rewrite (npend_zero_aq_nil _ _ (ki_ref _ _ Hi) Hz). reflexivity.
  - apply orb_true_iff. right.
    pose proof (F2_nth _ _ _ (ki_pp _ _ Hi) n) as Hr. rewrite Hn in Hr.
    apply ppr_dins_inv in Hr. destruct Hr as [live H0].
    apply existsb_exists. exists (KInserted i true live). split; [|reflexivity].
    clear - H0. revert n H0. induction (ks_pp k) as [|q l IH]; intros n Hn; destruct n; cbn in *; try discriminate.
    + left. congruence.
    + right. eapply IH; eauto.
Qed.

Theorem ks_wake_sound progs steps fb fl :
  ks_run 0 (ks_init progs) steps fb fl = [] -> wake_decl progs steps fb.
Proof.
  intros Hr. split.
  - pose proof Hr as Hr0. rewrite <- (app_nil_r steps) in Hr0.
    destruct (kinv_split steps _ _ _ _ _ _ (kinv_init progs) Hr0) as (k' & i' & Hi & Hr').
    fold (view progs steps) in Hi. cbn in Hr'. rewrite <- (ki_parked _ _ Hi).
    destruct (Bool.eqb fb (ks_blocked k')) eqn:Eb; [apply Bool.eqb_prop in Eb; exact Eb|discriminate].
  - intros pre post -> Hp.
    destruct (kinv_split pre _ _ _ _ _ _ (kinv_init progs) Hr) as (k' & i' & Hi & Hr').
    fold (view progs pre) in Hi. rewrite <- (ki_parked _ _ Hi) in Hp.
    destruct (may_wait k') eqn:Em; [left; eapply may_wait_entitled; eauto|right].
    destruct post as [|[t e] post'].
    + exfalso. cbn in Hr'. rewrite Hp, Em in Hr'.
      destruct fb; cbn in Hr'; discriminate.
    + cbn in Hr'. destruct (ksstep k' t e) as [k1|] eqn:E; [|discriminate].
      unfold ksstep in E. rewrite Hp, Em in E.
      destruct t; [destruct e; discriminate| |destruct e; discriminate|destruct e; discriminate].
      assert (Hm : may_wait (ks_upd k' (ks_aq k') (ks_closed k') (ks_cancelled k') (ks_pp k')
                                    (ks_progs k') true) = may_wait k') by reflexivity.
      rewrite Hm, Em in E.
      exists e, post'. split; [reflexivity|]. intros ->. discriminate.
Qed.

Lemma drain_point k k' :
  ksstep k TC (SRetNext NClosed) = inl k' ->
  ks_closed k = true /\ existsb (fun ic => existsb (N.eqb (fst ic)) (ks_done k)) (ks_aq k) = false.
Proof.
  unfold ksstep. cbn. destruct (ks_closed k); [|discriminate].
  match goal with |- context [existsb ?f (ks_aq k)] => destruct (existsb f (ks_aq k)) end; [discriminate|]. auto.
Qed.

Theorem ks_drain_sound progs steps fb fl :
  ks_run 0 (ks_init progs) steps fb fl = [] -> drain_decl progs steps.
Proof.
  intros Hr pre post ->.
  destruct (kinv_split pre _ _ _ _ _ _ (kinv_init progs) Hr) as (k' & i' & Hi & Hr').
  fold (view progs pre) in Hi.
  cbn [ks_run] in Hr'. destruct (ksstep k' TC (SRetNext NClosed)) as [k1|] eqn:E; [|discriminate].
  destruct (drain_point _ _ E) as [Hc Hex].
  split.
  - apply (view_closed_iff progs). rewrite <- (ki_closed _ _ Hi). exact Hc.
  - intros i hb Hin. destruct (ki_done _ _ Hi i hb Hin) as ((f & r & ->) & (a & Ha) & [Hv|Hv]); [exact Hv|].
    destruct (pending_or_popped i f r a) as [[c Hpop]|Hpend].
    + exists a, c. split; assumption.
    + exfalso. rewrite <- Ha in Hpend.
      pose proof (npend_in_aq _ _ _ (ki_ref _ _ Hi) Hpend) as Hq.
      apply in_map_iff in Hq. destruct Hq as ([j c] & Hj & Hq). cbn in Hj. subst j.
      assert (Ht : existsb (fun ic => existsb (N.eqb (fst ic)) (ks_done k')) (ks_aq k') = true).
      { apply existsb_exists. exists (i, c). split; [exact Hq|]. cbn.
        apply existsb_exists. exists i. split; [exact Hv|apply N.eqb_refl]. }
      congruence.
Qed.

(** from the checker's verdict *)
Lemma check_sched_ks progs steps fb fl :
  check_case (CSched progs steps fb fl) = [] -> ks_run 0 (ks_init progs) steps fb fl = [].
Proof. intros H. unfold check_case in H. apply app_eq_nil in H. exact (proj2 H). Qed.

Corollary kp_refusal_sound progs steps fb fl :
  check_case (CSched progs steps fb fl) = [] -> refusal_decl steps.
Proof. intros H. eapply ks_refusal_sound, check_sched_ks, H. Qed.

Corollary kp_wake_sound progs steps fb fl :
  check_case (CSched progs steps fb fl) = [] -> wake_decl progs steps fb.
Proof. intros H. eapply ks_wake_sound, check_sched_ks, H. Qed.

Corollary kp_drain_sound progs steps fb fl :
  check_case (CSched progs steps fb fl) = [] -> drain_decl progs steps.
Proof. intros H. eapply ks_drain_sound, check_sched_ks, H. Qed.

(** * The same predicates over the transition system *)

(** refusal: a call passes the closed check only with no Close in the history,
    and is refused only with one *)
Theorem lts_refusal_ok s n i s' :
  lreach s -> lstep s (LCall n i) = Some s' ->
  refusal_ok (In EClose (l_hist s)) (l_pp s' n = PChecked i)
             (l_hist s' = ERetIns n i IClosed :: ECallIns n i :: l_hist s).
Proof.
  intros Hr Hs. destruct (linv_reachable s Hr) as [_ _ _ _ Hcl _].
  cbn in Hs. destruct (l_pp s n) eqn:Ep; try discriminate.
  destruct (q_closed (l_q s)) eqn:Ec; inversion Hs; subst; cbn; split.
  - intros H. congruence.
  - intros _. apply Hcl. reflexivity.
  - intros _ Hin. apply Hcl in Hin. discriminate.
  - intros H. inversion H.
Qed.

(** wake-up: a consumer at the select with no enabled case is entitled to
    wait -- the predicate K_P's clause decides on recorded runs *)
Theorem lts_parked_entitled s :
  lreach s -> l_cp s = CWait -> (forall b, lstep s (LSel b) = None) ->
  entitled_at (q_closed (l_q s)) (l_cancelled s) (lin (l_hist s))
              (exists n i, l_pp s n = PInserted i true).
Proof.
  intros Hr Hw Hb. destruct (blocked_justified s Hr Hw Hb) as (Hc & Hx & Hq).
  split; [exact Hc|]. split; [exact Hx|].
  destruct Hq as [Hq|Hq]; [left|right; exact Hq].
  intros i. apply (proj2 (dup_exact s Hr)). rewrite Hq. intros [].
Qed.

(** ... so a consumer at the select that is not entitled to wait has an enabled
    case: it is woken *)
Theorem lts_not_entitled_woken s :
  lreach s -> l_cp s = CWait ->
  ~ entitled_at (q_closed (l_q s)) (l_cancelled s) (lin (l_hist s))
                (exists n i, l_pp s n = PInserted i true) ->
  exists b s', lstep s (LSel b) = Some s'.
Proof.
  intros Hr Hw Hne.
  destruct (lstep s (LSel SCtx)) as [s1|] eqn:E1; [eauto|].
  destruct (lstep s (LSel STok)) as [s2|] eqn:E2; [eauto|].
  destruct (lstep s (LSel SClosed)) as [s3|] eqn:E3; [eauto|].
  exfalso. apply Hne. apply lts_parked_entitled; auto. intros []; assumption.
Qed.

(** drain: at the step that reports "closed", every locked insert -- in
    particular every insertion that returned before Close -- has been
    delivered after its own locked section *)
Theorem lts_closed_drained s l s' pre :
  lreach s -> lstep s l = Some s' -> l_hist s' = ERetNext NClosed :: pre ->
  List.length (l_hist s') = S (List.length (l_hist s)) ->
  In EClose (l_hist s) /\
  forall i f r a, lin (l_hist s') = a ++ LIns i f :: r ->
    delivered_after i (LIns i f :: r) (lin (l_hist s')).
Proof.
  intros Hr Hs Hh Hl.
  destruct (drain_before_closed s l s' pre Hr Hs Hh Hl) as (_ & _ & Hcl & _ & Hz & _).
  split; [exact Hcl|]. intros i f r a Ha.
  destruct (pending_or_popped i f r a) as [[c Hpop]|Hpend].
  - exists a, c. split; assumption.
  - exfalso. apply Hpend. rewrite <- Ha. apply Hz.
Qed.

(** * Non-vacuity *)

(** an accepted run that exercises all three clauses: the consumer parks, is
    woken by an insertion, receives the item; Close; a later call is refused;
    the consumer is told "closed" *)
Definition run_good : list (tid * sev) :=
  [(TC, SAt PtEmpty); (TC, SBlocked); (TP 0, SAt PtChecked); (TP 0, SAt PtInserted);
   (TP 0, SRetIns (IOk true)); (TC, SRetNext (NItem 5 0)); (TK, SRet);
   (TP 0, SRetIns IClosed); (TC, SAt PtEmpty); (TC, SRetNext NClosed)].

Example ex_kp_good_accepted : check_case (CSched [[5; 6]] run_good false 0) = [].
Proof. vm_compute. reflexivity. Qed.

Example ex_kp_good_decl :
  refusal_decl run_good /\ wake_decl [[5; 6]] run_good false /\ drain_decl [[5; 6]] run_good /\
  d_completed (view [[5; 6]] run_good) = [(5, [LIns 5 true])] /\
  d_lin (view [[5; 6]] run_good) = [LPop 5 0; LIns 5 true].
Proof.
  pose proof ex_kp_good_accepted as H.
  split; [exact (kp_refusal_sound _ _ _ _ H)|].
  split; [exact (kp_wake_sound _ _ _ _ H)|].
  split; [exact (kp_drain_sound _ _ _ _ H)|].
  split; reflexivity.
Qed.

(** a call that passes the closed check after Close: K_P tag 2, statement false *)
Definition run_bad_refusal : list (tid * sev) := [(TK, SRet); (TP 0, SAt PtChecked)].

Example ex_kp_refusal_false :
  ks_run 0 (ks_init [[5]]) run_bad_refusal false 0 = [(1%nat, 2)] /\ ~ refusal_decl run_bad_refusal.
Proof.
  split; [vm_compute; reflexivity|]. intros H.
  destruct (H [(TK, SRet)] 0%nat (SAt PtChecked) [] eq_refl) as [H1 _].
  apply H1; [reflexivity|left; reflexivity].
Qed.

(** Close while the consumer is parked and the run ends there: tag 5, false *)
Definition run_bad_wake : list (tid * sev) := [(TC, SAt PtEmpty); (TC, SBlocked); (TK, SRet)].

Example ex_kp_wake_false :
  ks_run 0 (ks_init [[5]]) run_bad_wake true 0 = [(3%nat, 5)] /\ ~ wake_decl [[5]] run_bad_wake true.
Proof.
  split; [vm_compute; reflexivity|]. intros [_ H].
  destruct (H run_bad_wake [] (eq_sym (app_nil_r _)) eq_refl) as [(Hc & _)|(e & p & Hp & _)]; discriminate.
Qed.

(** an item pending with its producer gone and the consumer left parked: tag 5 *)
Definition run_bad_wake_item : list (tid * sev) :=
  [(TC, SAt PtEmpty); (TC, SBlocked); (TP 0, SAt PtChecked); (TP 0, SAt PtInserted);
   (TP 0, SRetIns (IOk true))].

Example ex_kp_wake_item_false :
  ks_run 0 (ks_init [[5]]) run_bad_wake_item true 1 = [(5%nat, 5)] /\ ~ wake_decl [[5]] run_bad_wake_item true.
Proof.
  split; [vm_compute; reflexivity|]. intros [_ H].
  destruct (H run_bad_wake_item [] (eq_sym (app_nil_r _)) eq_refl) as [(_ & _ & [Hz|(n & i & hb & Hn)])|(e & p & Hp & _)].
  - specialize (Hz 5). vm_compute in Hz. discriminate.
  - vm_compute in Hn. destruct n as [|[|n]]; discriminate.
  - discriminate.
Qed.

(** told "closed" with an insertion that returned before Close undelivered: tag 3 *)
Definition run_bad_drain : list (tid * sev) :=
  [(TP 0, SAt PtChecked); (TP 0, SAt PtInserted); (TP 0, SRetIns (IOk true)); (TK, SRet);
   (TC, SRetNext NClosed)].

Example ex_kp_drain_false :
  ks_run 0 (ks_init [[5]]) run_bad_drain false 1 = [(4%nat, 3)] /\ ~ drain_decl [[5]] run_bad_drain.
Proof.
  split; [vm_compute; reflexivity|]. intros H.
  destruct (H [(TP 0, SAt PtChecked); (TP 0, SAt PtInserted); (TP 0, SRetIns (IOk true)); (TK, SRet)] []
              eq_refl) as [_ Hd].
  destruct (Hd 5 [LIns 5 true] (or_introl eq_refl)) as (a & c & Ha & Hin).
  vm_compute in Ha. destruct a as [|x a]; [destruct Hin|].
  inversion Ha as [[Hx Ha']]. destruct a; discriminate.
Qed.

(** an Insert overlapping Close (closed check passed before Close, return after)
    is not in the log of insertions completed before Close: the run of
    [C11_insert_close_overlap_example] is accepted and [drain_decl] holds of it *)
Definition run_overlap : list (tid * sev) :=
  [(TP 0, SAt PtChecked); (TC, SAt PtEmpty); (TK, SRet); (TC, SRetNext NClosed);
   (TP 0, SAt PtInserted); (TP 0, SRetIns (IOk true))].

Example ex_kp_overlap :
  check_case (CSched [[7]] run_overlap false 1) = [] /\ d_completed (view [[7]] run_overlap) = [].
Proof. split; vm_compute; reflexivity. Qed.

(** * Statements re-exported by Props/C11.v *)

Lemma kp_may_wait_iff :
  forall k d, kinv k d -> (may_wait k = true <-> d_entitled d).
Proof.
  intros k d H; split; [exact (may_wait_entitled k d H)|exact (entitled_may_wait k d H)].
Qed.

Lemma kp_view_history :
  forall progs pre,
    (d_closed (view progs pre) = true <-> In (TK, SRet) pre) /\
    (d_cancelled (view progs pre) = true <-> In (TX, SRet) pre) /\
    (forall pre0 e mid, pre = pre0 ++ (TC, e) :: mid -> Forall (fun te => fst te <> TC) mid ->
       (d_parked (view progs pre) = true <-> e = SBlocked)).
Proof.
  intros progs pre. split; [exact (view_closed_iff progs pre)|].
  split; [exact (view_cancelled_iff progs pre)|].
  intros pre0 e mid -> H. exact (view_parked_iff progs pre0 e mid H).
Qed.

Lemma kp_wake_lts :
  forall s, lreach s -> l_cp s = CWait ->
    ((forall b, lstep s (LSel b) = None) ->
     entitled_at (q_closed (l_q s)) (l_cancelled s) (lin (l_hist s))
                 (exists n i, l_pp s n = PInserted i true)) /\
    (~ entitled_at (q_closed (l_q s)) (l_cancelled s) (lin (l_hist s))
                   (exists n i, l_pp s n = PInserted i true) ->
     exists b s', lstep s (LSel b) = Some s').
Proof.
  intros s Hr Hw. split; [exact (lts_parked_entitled s Hr Hw)|exact (lts_not_entitled_woken s Hr Hw)].
Qed.

Lemma kp_examples :
  (check_case (CSched [[5; 6]] run_good false 0) = [] /\
   refusal_decl run_good /\ wake_decl [[5; 6]] run_good false /\ drain_decl [[5; 6]] run_good /\
   d_completed (view [[5; 6]] run_good) = [(5, [LIns 5 true])]) /\
  (ks_run 0 (ks_init [[5]]) run_bad_refusal false 0 = [(1%nat, 2)] /\ ~ refusal_decl run_bad_refusal) /\
  (ks_run 0 (ks_init [[5]]) run_bad_wake true 0 = [(3%nat, 5)] /\ ~ wake_decl [[5]] run_bad_wake true) /\
  (ks_run 0 (ks_init [[5]]) run_bad_wake_item true 1 = [(5%nat, 5)] /\
   ~ wake_decl [[5]] run_bad_wake_item true) /\
  (ks_run 0 (ks_init [[5]]) run_bad_drain false 1 = [(4%nat, 3)] /\ ~ drain_decl [[5]] run_bad_drain).
Proof.
  split; [split; [exact ex_kp_good_accepted|]; destruct ex_kp_good_decl as (A & B & C & D & _); auto|].
  split; [exact ex_kp_refusal_false|]. split; [exact ex_kp_wake_false|].
  split; [exact ex_kp_wake_item_false|exact ex_kp_drain_false].
Qed.

(** Sequential model of coalesce/coalesce.go (definitions only).

    State mirrors [coalesce.Queue]:
      queue     []interface{}            -> [q_queue  : list item]
      coalesced map[interface{}]uint32   -> [q_counts : list (item * N)] (association list, distinct keys)
      inserted  chan struct{} (cap 1)    -> [q_token  : bool]  (the channel holds a token)
      closed    chan struct{}            -> [q_closed : bool]  (the channel has been closed)
    Items are natural numbers (any type with decidable equality would do; Go
    requires map-key comparability).  The uint32 duplicate counter is an
    unbounded [N] (wrap-around after 2^32 coalesced inserts is outside the
    model, listed as an assumption). *)
From Gnmi Require Import Base.Prelude.
Open Scope N_scope.

Definition item := N.

Record qstate := mkQ {
  q_queue : list item;
  q_counts : list (item * N);
  q_token : bool;
  q_closed : bool }.

Definition q_init : qstate := mkQ [] [] false false.

(** ** Go map operations on the [coalesced] map *)

Fixpoint cget (i : item) (m : list (item * N)) : option N :=
  match m with
  | [] => None
  | (k, c) :: m' => if N.eqb i k then Some c else cget i m'
  end.

(** m[i] = v : replace the binding or add one *)
Fixpoint cset (i : item) (v : N) (m : list (item * N)) : list (item * N) :=
  match m with
  | [] => [(i, v)]
  | (k, c) :: m' => if N.eqb i k then (k, v) :: m' else (k, c) :: cset i v m'
  end.

(** delete(m, i) *)
Fixpoint cdel (i : item) (m : list (item * N)) : list (item * N) :=
  match m with
  | [] => []
  | (k, c) :: m' => if N.eqb i k then m' else (k, c) :: cdel i m'
  end.

(** ** The critical sections *)

(** [func (q *Queue) insert(i) bool]: under the lock. *)
Definition locked_insert (s : qstate) (i : item) : qstate * bool :=
  match cget i (q_counts s) with
  | Some c =>                                   (* if _, ok := q.coalesced[i]; ok { q.coalesced[i]++; return false } *)
      (mkQ (q_queue s) (cset i (c + 1) (q_counts s)) (q_token s) (q_closed s), false)
  | None =>                                     (* q.queue = append(q.queue, i); q.coalesced[i] = 0; return true *)
      (mkQ (q_queue s ++ [i]) (cset i 0 (q_counts s)) (q_token s) (q_closed s), true)
  end.

(** [func (q *Queue) next() (interface{}, uint32, bool)]: under the lock. *)
Definition locked_next (s : qstate) : option (item * N * qstate) :=
  match q_queue s with
  | [] => None                                  (* len(q.queue) == 0 *)
  | i :: rest =>
      (* coalesced := q.coalesced[i] -- a Go map read of an absent key yields 0 *)
      let c := match cget i (q_counts s) with Some c => c | None => 0 end in
      let counts' := cdel i (q_counts s) in
      match rest with
      | [] => Some (i, c, mkQ [] [] (q_token s) (q_closed s))   (* queue = nil; coalesced = make(map) *)
      | _ :: _ => Some (i, c, mkQ rest counts' (q_token s) (q_closed s))
      end
  end.

Definition q_len (s : qstate) : nat := List.length (q_queue s).

(** [Close]: closes the channel unless already closed. *)
Definition q_close (s : qstate) : qstate :=
  if q_closed s then s else mkQ (q_queue s) (q_counts s) (q_token s) true.

(** non-blocking send on [inserted] (capacity 1) *)
Definition send_token (s : qstate) : qstate :=
  mkQ (q_queue s) (q_counts s) true (q_closed s).

Definition take_token (s : qstate) : qstate :=
  mkQ (q_queue s) (q_counts s) false (q_closed s).

(** ** Whole calls, run by a single goroutine *)

Inductive ires := IOk (new : bool) | IClosed.        (* (new, nil) | (false, errClosedQueue) *)

Definition insert_seq (s : qstate) (i : item) : qstate * ires :=
  if q_closed s then (s, IClosed)
  else let '(s', ok) := locked_insert s i in
       ((if ok then send_token s' else s'), IOk ok).

(** Result of [Next]: an item with its duplicate count, errClosedQueue,
    ctx.Err(), or never returning. *)
Inductive nres := NItem (i : item) (d : N) | NClosed | NCtx | NHang.

(** The context handed to [Next]: never done; already cancelled; with a short
    deadline.  For the last two [ctx.Done()] may be ready at any [select] and is
    certainly ready if the goroutine waits. *)
Inductive ctxk := CtxBg | CtxCancelled | CtxShort.

Definition ctx_fires (c : ctxk) : bool :=
  match c with CtxBg => false | _ => true end.

(** [Next] run alone.  Go's [select] picks any ready case, so the result is a
    list of possibilities.  [fuel] bounds the loop iterations (each iteration
    that does not return consumes the token, which nobody refills here). *)
Fixpoint next_seq (fuel : nat) (c : ctxk) (s : qstate) : list (qstate * nres) :=
  match locked_next s with
  | Some (i, d, s') => [(s', NItem i d)]
  | None =>
      match fuel with
      | O => []
      | S f =>
          if negb (ctx_fires c || q_token s || q_closed s)
          then [(s, NHang)]            (* nothing ready and ctx never done: blocks *)
          else
            let b_ctx := if ctx_fires c then [(s, NCtx)] else [] in
            let b_tok := if q_token s then next_seq f c (take_token s) else [] in
            let b_cl := if q_closed s
                        then (if Nat.eqb (q_len s) 0 then [(s, NClosed)] else next_seq f c s)
                        else [] in
            b_ctx ++ b_tok ++ b_cl
      end
  end.

(** ** The abstract coalescing queue (the specification)

    Pending items in order of first insertion, each with the number of extra
    insertions made while it was pending. *)
Definition aq := list (item * N).

Fixpoint aq_mem (i : item) (q : aq) : bool :=
  match q with
  | [] => false
  | (k, _) :: q' => N.eqb i k || aq_mem i q'
  end.

Fixpoint aq_bump (i : item) (q : aq) : aq :=
  match q with
  | [] => []
  | (k, c) :: q' => if N.eqb i k then (k, c + 1) :: q' else (k, c) :: aq_bump i q'
  end.

(** insertion: a pending item is bumped where it stands, a new one goes last *)
Definition aq_insert (i : item) (q : aq) : aq * bool :=
  if aq_mem i q then (aq_bump i q, false) else (q ++ [(i, 0)], true).

Definition aq_next (q : aq) : option (item * N * aq) :=
  match q with
  | [] => None
  | (i, d) :: q' => Some (i, d, q')
  end.

(** abstraction of a concrete state: the queue order, each with its counter *)
Definition q_abs (s : qstate) : aq :=
  map (fun i => (i, match cget i (q_counts s) with Some c => c | None => 0 end)) (q_queue s).

(** Sum of [1 + dup] over a list of (item, dup). *)
Fixpoint weight (q : list (item * N)) : N :=
  match q with
  | [] => 0
  | (_, d) :: q' => 1 + d + weight q'
  end.

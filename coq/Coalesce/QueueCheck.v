(** Correspondence evaluator and executable property checker for C11.

    Three kinds of cases come from the harness (harness/c11):

    [CSeq]    mode E: one goroutine applied Insert / Next(ctx) / Close / Len /
              IsClosed to a real coalesce.Queue; each op with what it returned.
    [CSched]  mode S: two producers, a consumer, a closer and a canceller were
              run under the barrier scheduler; the case is the list of released
              threads, each with what the thread did until its next stop.
    [CStress] free-running producers and one consumer; only per-item totals.

    For each, (a) the model side -- the sequential model of QueueModel.v resp.
    the transition system of QueueLts.v must be able to produce exactly the
    observed results (a Go [select] with several ready cases makes the model a
    set of possibilities: acceptance) -- tag 1; and (b) the specification side
    K_P -- the abstract coalescing queue replayed on the implementation's own
    linearisation and answers, conservation, drain-before-closed, refusal
    after close, wake-ups -- tags 2..5:
       2  order / duplicate count / insert result / Len / IsClosed differ from
          the abstract coalescing queue, or an insert was refused (accepted)
          while the queue was open (closed)
       3  conservation or drain-before-closed broken (told "closed" with
          inserts undelivered; totals differ)
       4  hang or panic
       5  consumer left waiting although an item is pending, or the queue is
          closed, or its context is cancelled (lost wake-up). *)
From Gnmi Require Import Base.Prelude Base.Lts Coalesce.QueueModel Coalesce.QueueLts.
Open Scope N_scope.

Inductive op := OInsert (i : item) | ONext (c : ctxk) | OClose | OLen | OIsClosed.
Inductive obs := RIns (r : ires) | RNext (r : nres) | RLen (n : nat) | RBool (b : bool) | RUnit | RPanic.

Inductive tid := TP (n : nat) | TC | TK | TX.
Inductive point := PtChecked | PtInserted | PtEmpty.
Inductive sev :=
| SAt (p : point)            (* arrived at a hook point *)
| SRetIns (r : ires)         (* Insert returned *)
| SRetNext (r : nres)        (* Next returned *)
| SBlocked                   (* parked inside the select, nothing ready *)
| SRet                       (* Close / cancel returned *)
| SHang | SPanic.

Inductive errk := EKCanceled | EKDeadline | EKOther.

Inductive case :=
| CSeq (l : list (op * obs))
| CSched (progs : list (list item)) (steps : list (tid * sev)) (final_blocked : bool) (final_len : nat)
| CStress (ins : list (item * N)) (del : list (item * N)) (closed_seen : bool) (hang : bool)
(* one goroutine: for each (item, k) in the script, k Inserts of the item (observed: how many
   returned true); then Len; then Close and Next until "closed" (observed deliveries) *)
| CBulk (script : list (item * N)) (news : list N) (len : nat) (dels : list (item * N)) (broken : bool)
(* several goroutines released together insert the listed items (item, number of calls, how many
   calls returned true), nobody consumes; then Len, then a drain by one goroutine *)
| CBurst (ins : list (item * N * N)) (len : nat) (dels : list (item * N)) (broken : bool)
(* producer and consumer in lock-step (insert one item, wait for its delivery), free running *)
| CPing (rounds : N) (stalled : bool)
(* free-running producers against a consumer that keeps up; nobody closes or cancels until the
   consumer has received everything or has made no progress for the watchdog period although
   accepted insertions are undelivered (stalled) *)
| CKeepup (ins : list (item * N)) (del : list (item * N)) (stalled : bool)
(* which error Next returned when its context ended *)
| CCtxErr (c : ctxk) (k : errk).

(** ** decidable equalities *)

Definition ires_eqb (a b : ires) : bool :=
  match a, b with
  | IOk x, IOk y => Bool.eqb x y
  | IClosed, IClosed => true
  | _, _ => false
  end.

Definition nres_eqb (a b : nres) : bool :=
  match a, b with
  | NItem i d, NItem j e => N.eqb i j && N.eqb d e
  | NClosed, NClosed => true
  | NCtx, NCtx => true
  | NHang, NHang => true
  | _, _ => false
  end.

Definition obs_eqb (a b : obs) : bool :=
  match a, b with
  | RIns x, RIns y => ires_eqb x y
  | RNext x, RNext y => nres_eqb x y
  | RLen x, RLen y => Nat.eqb x y
  | RBool x, RBool y => Bool.eqb x y
  | RUnit, RUnit => true
  | _, _ => false           (* RPanic equals nothing *)
  end.

Definition point_eqb (a b : point) : bool :=
  match a, b with
  | PtChecked, PtChecked | PtInserted, PtInserted | PtEmpty, PtEmpty => true
  | _, _ => false
  end.

Definition sev_eqb (a b : sev) : bool :=
  match a, b with
  | SAt p, SAt q => point_eqb p q
  | SRetIns x, SRetIns y => ires_eqb x y
  | SRetNext x, SRetNext y => nres_eqb x y
  | SBlocked, SBlocked => true
  | SRet, SRet => true
  | _, _ => false           (* SHang / SPanic equal nothing *)
  end.

Fixpoint list_eqb {A} (e : A -> A -> bool) (a b : list A) : bool :=
  match a, b with
  | [], [] => true
  | x :: a', y :: b' => e x y && list_eqb e a' b'
  | _, _ => false
  end.

Definition pair_eqb (a b : item * N) : bool := N.eqb (fst a) (fst b) && N.eqb (snd a) (snd b).

Definition qstate_eqb (a b : qstate) : bool :=
  list_eqb N.eqb (q_queue a) (q_queue b) && list_eqb pair_eqb (q_counts a) (q_counts b)
  && Bool.eqb (q_token a) (q_token b) && Bool.eqb (q_closed a) (q_closed b).

Fixpoint dedup_by {A} (e : A -> A -> bool) (l : list A) : list A :=
  match l with
  | [] => []
  | x :: l' => if existsb (e x) l' then dedup_by e l' else x :: dedup_by e l'
  end.

(** ** Mode E, model side *)

Definition seq_fuel : nat := 4.

Definition mstep (s : qstate) (o : op) : list (qstate * obs) :=
  match o with
  | OInsert i => let '(s', r) := insert_seq s i in [(s', RIns r)]
  | ONext c => map (fun sr => (fst sr, RNext (snd sr))) (next_seq seq_fuel c s)
  | OClose => [(q_close s, RUnit)]
  | OLen => [(s, RLen (q_len s))]
  | OIsClosed => [(s, RBool (q_closed s))]
  end.

(** states the model can be in after producing the observed result *)
Definition msteps (ss : list qstate) (o : op) (r : obs) : list qstate :=
  dedup_by qstate_eqb
    (flat_map (fun s => map fst (filter (fun sr => obs_eqb r (snd sr)) (mstep s o))) ss).

(** ** Mode E, specification side (K_P): abstract coalescing queue +
    closed flag + two counters taken from the observations alone *)

Record kst := mkK {
  k_aq : aq;
  k_closed : bool;
  k_acc : N;       (* Insert calls that returned a nil error *)
  k_del : N }.     (* sum of 1+dup over the items Next returned *)

Definition k_init : kst := mkK [] false 0 0.

(** [inl st'] = accepted, [inr tag] = the property fails here *)
Definition kstep (k : kst) (o : op) (r : obs) : kst + N :=
  match o, r with
  | _, RPanic => inr 4
  | OInsert i, RIns res =>
      if k_closed k
      then (if ires_eqb res IClosed then inl k else inr 2)        (* insertions after close are refused *)
      else let '(q', new) := aq_insert i (k_aq k) in
           if ires_eqb res (IOk new)
           then inl (mkK q' false (k_acc k + 1) (k_del k))
           else inr 2
  | ONext c, RNext res =>
      match aq_next (k_aq k), res with
      | Some (i, d, q'), NItem j e =>
          if N.eqb i j && N.eqb d e
          then inl (mkK q' (k_closed k) (k_acc k) (k_del k + 1 + d))
          else inr 2
      | Some _, NCtx => if ctx_fires c then inl k else inr 2       (* the property does not say which wins *)
      | Some _, NClosed => inr 3                                   (* told closed while items are pending *)
      | Some _, NHang => inr 4
      | None, NItem _ _ => inr 2
      | None, NClosed =>
          if k_closed k
          then (if N.eqb (k_acc k) (k_del k) then inl k else inr 3)
          else inr 2
      | None, NCtx => if ctx_fires c then inl k else inr 2
      | None, NHang =>
          if k_closed k then inr 5                                  (* not woken by close *)
          else if ctx_fires c then inr 5                            (* not woken by cancellation *)
          else inl k                                                (* blocking on an empty open queue *)
      end
  | OClose, RUnit => inl (mkK (k_aq k) true (k_acc k) (k_del k))
  | OLen, RLen n => if Nat.eqb n (List.length (k_aq k)) then inl k else inr 2
  | OIsClosed, RBool b => if Bool.eqb b (k_closed k) then inl k else inr 2
  | _, _ => inr 2
  end.

Fixpoint check_seq (i : nat) (ss : option (list qstate)) (k : option kst) (c : list (op * obs))
  : list (nat * N) :=
  match c with
  | [] => []
  | (o, r) :: c' =>
      let '(v1, ss') :=
        match ss with
        | None => ([], None)
        | Some l => match msteps l o r with
                    | [] => ([(i, 1)], None)          (* correspondence lost: stop the model side *)
                    | l' => ([], Some l')
                    end
        end in
      let '(v2, k') :=
        match k with
        | None => ([], None)
        | Some st => match kstep st o r with
                     | inl st' => ([], Some st')
                     | inr t => ([(i, t)], None)       (* first property failure: stop *)
                     end
        end in
      v1 ++ v2 ++ check_seq (S i) ss' k' c'
  end.

(** ** Mode S, model side: validate a recorded run against the LTS *)

Definition last_next (h : list ev) : nres :=
  match h with
  | ERetNext r :: _ => r
  | _ => NHang   (* not used: callers look only after a return step *)
  end.

(** consumer micro-steps from a pc that is not the select, until the next stop *)
Fixpoint cons_go (fuel : nat) (s : lstate) : list (lstate * sev) :=
  match fuel with
  | O => []
  | S f =>
      match lstep s LC with
      | None => []
      | Some s' =>
          match l_cp s' with
          | CIdle => [(s', SRetNext (last_next (l_hist s')))]
          | CWait => [(s', SAt PtEmpty)]
          | _ => cons_go f s'
          end
      end
  end.

Definition sel_enabled (s : lstate) : bool :=
  match l_cp s with
  | CWait => l_cancelled s || q_token (l_q s) || q_closed (l_q s)
  | _ => true
  end.

Definition cons_macro (s : lstate) : list (lstate * sev) :=
  match l_cp s with
  | CWait =>
      let br b := match lstep s (LSel b) with
                  | None => []
                  | Some s' => match l_cp s' with
                               | CIdle => [(s', SRetNext (last_next (l_hist s')))]
                               | _ => cons_go 4 s'
                               end
                  end in
      match br SCtx ++ br STok ++ br SClosed with
      | [] => [(s, SBlocked)]
      | l => l
      end
  | _ => cons_go 4 s
  end.

(** producer n, with the item its program calls next *)
Definition prod_macro (s : lstate) (n : nat) (next_item : option item) : list (lstate * sev) :=
  match l_pp s n with
  | PIdle =>
      match next_item with
      | None => []
      | Some i =>
          match lstep s (LCall n i) with
          | None => []
          | Some s' => match l_pp s' n with
                       | PIdle => [(s', SRetIns IClosed)]
                       | _ => [(s', SAt PtChecked)]
                       end
          end
      end
  | PChecked _ =>
      match lstep s (LP n) with Some s' => [(s', SAt PtInserted)] | None => [] end
  | PInserted _ ok =>
      match lstep s (LP n) with Some s' => [(s', SRetIns (IOk ok))] | None => [] end
  end.

Definition ppc_eqb (a b : ppc) : bool :=
  match a, b with
  | PIdle, PIdle => true
  | PChecked i, PChecked j => N.eqb i j
  | PInserted i x, PInserted j y => N.eqb i j && Bool.eqb x y
  | _, _ => false
  end.

Definition cpc_eqb (a b : cpc) : bool :=
  match a, b with
  | CIdle, CIdle | CTry, CTry | CWait, CWait | CLen, CLen => true
  | _, _ => false
  end.

(** equality on what future behaviour depends on (producers 0..np-1) *)
Definition lstate_eqb (np : nat) (a b : lstate) : bool :=
  qstate_eqb (l_q a) (l_q b) && cpc_eqb (l_cp a) (l_cp b)
  && Bool.eqb (l_cancelled a) (l_cancelled b)
  && forallb (fun n => ppc_eqb (l_pp a n) (l_pp b n)) (seq 0 np).

Fixpoint nth_prog (progs : list (list item)) (n : nat) : list item :=
  match progs, n with
  | [], _ => []
  | p :: _, O => p
  | _ :: r, S m => nth_prog r m
  end.

Fixpoint set_prog (progs : list (list item)) (n : nat) (p : list item) : list (list item) :=
  match progs, n with
  | [], _ => []
  | _ :: r, O => p :: r
  | q :: r, S m => q :: set_prog r m p
  end.

(** One recorded step.  Returns the new state set and the programs. *)
Definition vstep (np : nat) (ss : list lstate) (progs : list (list item)) (blocked : bool)
           (t : tid) (e : sev) : list lstate * list (list item) * bool :=
  (* a consumer the harness saw parked in the select stays parked while other
     threads move only if no case of its select is ready *)
  let ss := match t with
            | TC => ss
            | _ => if blocked then filter (fun s => negb (sel_enabled s)) ss else ss
            end in
  let keep (l : list (lstate * sev)) := map fst (filter (fun se => sev_eqb e (snd se)) l) in
  match t with
  | TP n =>
      let prog := nth_prog progs n in
      let calling := existsb (fun s => match l_pp s n with PIdle => true | _ => false end) ss in
      let ss' := flat_map (fun s => keep (prod_macro s n (hd_error prog))) ss in
      (dedup_by (lstate_eqb np) ss', (if calling then set_prog progs n (tl prog) else progs), blocked)
  | TC =>
      let ss' := flat_map (fun s =>
                   if blocked && negb (match l_cp s with CWait => true | _ => false end) then []
                   else keep (cons_macro s)) ss in
      (dedup_by (lstate_eqb np) ss', progs, match e with SBlocked => true | _ => false end)
  | TK =>
      let ss' := flat_map (fun s => match lstep s LClose with
                                    | Some s' => if sev_eqb e SRet then [s'] else []
                                    | None => [] end) ss in
      (dedup_by (lstate_eqb np) ss', progs, blocked)
  | TX =>
      let ss' := flat_map (fun s => match lstep s LCancel with
                                    | Some s' => if sev_eqb e SRet then [s'] else []
                                    | None => [] end) ss in
      (dedup_by (lstate_eqb np) ss', progs, blocked)
  end.

Fixpoint validate_run (np : nat) (i : nat) (ss : list lstate) (progs : list (list item))
         (blocked : bool) (steps : list (tid * sev)) (final_blocked : bool) (final_len : nat)
  : list (nat * N) :=
  match steps with
  | [] =>
      let ss1 := if final_blocked
                 then filter (fun s => negb (sel_enabled s) &&
                                       match l_cp s with CWait => true | _ => false end) ss
                 else ss in
      let ss2 := filter (fun s => Nat.eqb (q_len (l_q s)) final_len) ss1 in
      match ss2 with [] => [(i, 1)] | _ => [] end
  | (t, e) :: steps' =>
      match vstep np ss progs blocked t e with
      | ([], _, _) => [(i, 1)]
      | (ss', progs', blocked') => validate_run np (S i) ss' progs' blocked' steps' final_blocked final_len
      end
  end.

(** ** Mode S, specification side (K_P) on the recorded run alone.

    The order of the locked sections is known from the run: a producer's
    locked insert happens in the step that ends at [insert:inserted], a pop
    in the consumer step that returns an item, Close and cancel in their own
    steps; one thread moves at a time. *)

(* [live]: the item has not been delivered since this producer's locked insert *)
Inductive kpp := KIdle | KChecked (i : item) | KInserted (i : item) (expect : bool) (live : bool).

Record kss := mkKS {
  ks_aq : aq;
  ks_closed : bool;
  ks_cancelled : bool;
  ks_pp : list kpp;            (* per producer *)
  ks_progs : list (list item);
  ks_blocked : bool;           (* consumer parked in the select *)
  ks_done : list item }.       (* pending items with an Insert that returned before Close was called *)

Fixpoint nth_kpp (l : list kpp) (n : nat) : kpp :=
  match l, n with
  | [], _ => KIdle
  | p :: _, O => p
  | _ :: r, S m => nth_kpp r m
  end.

Fixpoint set_kpp (l : list kpp) (n : nat) (p : kpp) : list kpp :=
  match l, n with
  | [], _ => []
  | _ :: r, O => p :: r
  | q :: r, S m => q :: set_kpp r m p
  end.

(** may the consumer legitimately be parked?  Not if closed, not if
    cancelled, and with an item pending only while the producer that made the
    queue non-empty is still between its insert and its token. *)
Definition may_wait (k : kss) : bool :=
  negb (ks_closed k) && negb (ks_cancelled k) &&
  (match ks_aq k with [] => true | _ => false end
   || existsb (fun p => match p with KInserted _ true _ => true | _ => false end) (ks_pp k)).

Definition ks_upd (k : kss) (q : aq) (cl ca : bool) (pp : list kpp) (pr : list (list item)) (bl : bool) : kss :=
  mkKS q cl ca pp pr bl (ks_done k).

Definition ksstep (k : kss) (t : tid) (e : sev) : kss + N :=
  match e with
  | SHang | SPanic => inr 4
  | _ =>
    (* a consumer seen parked must still be allowed to wait when others move *)
    if (match t with TC => false | _ => ks_blocked k end) && negb (may_wait k) then inr 5 else
    match t, e with
    | TP n, _ =>
        match nth_kpp (ks_pp k) n, e with
        | KIdle, SAt PtChecked =>
            match nth_prog (ks_progs k) n with
            | i :: rest =>
                if ks_closed k then inr 2       (* a call that began after Close must be refused *)
                else inl (ks_upd k (ks_aq k) (ks_closed k) (ks_cancelled k) (set_kpp (ks_pp k) n (KChecked i))
                               (set_prog (ks_progs k) n rest) (ks_blocked k))
            | [] => inr 2
            end
        | KIdle, SRetIns IClosed =>
            match nth_prog (ks_progs k) n with
            | _ :: rest =>
                if ks_closed k
                then inl (ks_upd k (ks_aq k) (ks_closed k) (ks_cancelled k) (ks_pp k)
                               (set_prog (ks_progs k) n rest) (ks_blocked k))
                else inr 2                      (* refused while open *)
            | [] => inr 2
            end
        | KChecked i, SAt PtInserted =>
            let '(q', new) := aq_insert i (ks_aq k) in
            inl (ks_upd k q' (ks_closed k) (ks_cancelled k) (set_kpp (ks_pp k) n (KInserted i new true))
                      (ks_progs k) (ks_blocked k))
        | KInserted i new live, SRetIns (IOk b) =>
            if Bool.eqb b new
            then inl (mkKS (ks_aq k) (ks_closed k) (ks_cancelled k) (set_kpp (ks_pp k) n KIdle)
                           (ks_progs k) (ks_blocked k)
                           (if ks_closed k || negb live then ks_done k else i :: ks_done k))
            else inr 2
        | _, _ => inr 2
        end
    | TC, SAt PtEmpty => inl (ks_upd k (ks_aq k) (ks_closed k) (ks_cancelled k) (ks_pp k) (ks_progs k) false)
    | TC, SBlocked =>
        let k' := ks_upd k (ks_aq k) (ks_closed k) (ks_cancelled k) (ks_pp k) (ks_progs k) true in
        if may_wait k' then inl k' else inr 5
    | TC, SRetNext (NItem j d) =>
        match ks_aq k with
        | (i, c) :: q' =>
            if N.eqb i j && N.eqb c d
            then inl (mkKS q' (ks_closed k) (ks_cancelled k)
                           (map (fun p => match p with
                                          | KInserted x ex _ => if N.eqb x i then KInserted x ex false else p
                                          | _ => p end) (ks_pp k))
                           (ks_progs k) false
                           (filter (fun x => negb (N.eqb x i)) (ks_done k)))
            else inr 2
        | [] => inr 2
        end
    | TC, SRetNext NClosed =>
        if ks_closed k
        then (* told closed: every insertion that completed before the close
                must have been delivered (an insert overlapping Close may be
                left behind; the model side still objects to that) *)
             if existsb (fun ic => existsb (N.eqb (fst ic)) (ks_done k)) (ks_aq k)
             then inr 3
             else inl (ks_upd k (ks_aq k) true (ks_cancelled k) (ks_pp k) (ks_progs k) false)
        else inr 2
    | TC, SRetNext NCtx =>
        if ks_cancelled k
        then inl (ks_upd k (ks_aq k) (ks_closed k) true (ks_pp k) (ks_progs k) false)
        else inr 2
    | TK, SRet => inl (ks_upd k (ks_aq k) true (ks_cancelled k) (ks_pp k) (ks_progs k) (ks_blocked k))
    | TX, SRet => inl (ks_upd k (ks_aq k) (ks_closed k) true (ks_pp k) (ks_progs k) (ks_blocked k))
    | _, _ => inr 2
    end
  end.

Fixpoint ks_run (i : nat) (k : kss) (steps : list (tid * sev)) (final_blocked : bool) (final_len : nat)
  : list (nat * N) :=
  match steps with
  | [] =>
      if Bool.eqb final_blocked (ks_blocked k) && (negb final_blocked || may_wait k)
      then (if Nat.eqb final_len (List.length (ks_aq k)) then [] else [(i, 3)])
      else [(i, 5)]
  | (t, e) :: steps' =>
      match ksstep k t e with
      | inl k' => ks_run (S i) k' steps' final_blocked final_len
      | inr tag => [(i, tag)]
      end
  end.

(** ** Stress: per-item totals.  Every producer had returned before Close was
    called, so everything accepted must have been delivered. *)

Fixpoint total_of (i : item) (l : list (item * N)) : N :=
  match l with
  | [] => 0
  | (k, c) :: l' => (if N.eqb i k then c else 0) + total_of i l'
  end.

Definition check_stress (ins del : list (item * N)) (closed_seen hang : bool) : list (nat * N) :=
  if hang then [(O, 4)]
  else if negb closed_seen then [(O, 3)]
  else if forallb (fun ic => N.eqb (total_of (fst ic) ins) (total_of (fst ic) del)) (ins ++ del)
       then [] else [(O, 3)].

(** ** Bulk: many insertions of one item / many distinct items *)

Definition bulk_model_step (st : qstate * list N) (e : item * N) : qstate * list N :=
  let r := N.iter (snd e) (fun sn : qstate * N =>
                              let '(s', res) := insert_seq (fst sn) (fst e) in
                              (s', match res with IOk true => snd sn + 1 | _ => snd sn end))
                  (fst st, 0) in
  (fst r, snd st ++ [snd r]).

Fixpoint drain_model (fuel : nat) (s : qstate) : list (item * N) :=
  match fuel with
  | O => []
  | S f => match locked_next s with
           | Some (i, d, s') => (i, d) :: drain_model f s'
           | None => []
           end
  end.

Definition bulk_spec_step (st : aq * list N) (e : item * N) : aq * list N :=
  let r := N.iter (snd e) (fun qn : aq * N =>
                              let '(q', new) := aq_insert (fst e) (fst qn) in
                              (q', if new then snd qn + 1 else snd qn))
                  (fst st, 0) in
  (fst r, snd st ++ [snd r]).

Definition check_bulk (script : list (item * N)) (news : list N) (len : nat)
           (dels : list (item * N)) (broken : bool) : list (nat * N) :=
  if broken then [(O, 4)] else
  let m := fold_left bulk_model_step script (q_init, []) in
  let k := fold_left bulk_spec_step script ([], []) in
  let ok_m := list_eqb N.eqb news (snd m) && Nat.eqb len (q_len (fst m))
              && list_eqb pair_eqb dels (drain_model (S (q_len (fst m))) (fst m)) in
  let ok_k := list_eqb N.eqb news (snd k) && Nat.eqb len (List.length (fst k))
              && list_eqb pair_eqb dels (fst k) in
  (if ok_m then [] else [(O, 1)]) ++ (if ok_k then [] else [(O, 2)]).

(** ** Burst: concurrent inserts, no consumer.  Whatever the interleaving, each
    inserted item is pending once, exactly one of its calls reported "new",
    and it is delivered once with all the other calls as duplicates. *)

Definition check_burst (ins : list (item * N * N)) (len : nat) (dels : list (item * N))
           (broken : bool) : list (nat * N) :=
  if broken then [(O, 4)] else
  let used := filter (fun e => negb (N.eqb (snd (fst e)) 0)) ins in
  if Nat.eqb len (List.length used)
     && Nat.eqb (List.length dels) (List.length used)
     && forallb (fun e => N.eqb (snd e) 1
                          && existsb (fun d => N.eqb (fst d) (fst (fst e))
                                               && N.eqb (snd d + 1) (snd (fst e))) dels) used
  then [] else [(O, 2)].

Definition check_ctxerr (c : ctxk) (k : errk) : list (nat * N) :=
  match c, k with
  | CtxCancelled, EKCanceled => []
  | CtxShort, EKDeadline => []
  | _, _ => [(O, 1)]          (* an implementation detail: which ctx error *)
  end.

(** ** verdicts *)

Definition check_case (c : case) : list (nat * N) :=
  match c with
  | CSeq l => check_seq 0 (Some [q_init]) (Some k_init) l
  | CSched progs steps fb fl =>
      let np := List.length progs in
      validate_run np 0 [l_init] progs false steps fb fl
      ++ ks_run 0 (mkKS [] false false (map (fun _ => KIdle) progs) progs false []) steps fb fl
  | CStress ins del cs hang => check_stress ins del cs hang
  | CBulk script news len dels broken => check_bulk script news len dels broken
  | CBurst ins len dels broken => check_burst ins len dels broken
  | CPing _ stalled => if stalled then [(O, 5)] else []
  | CKeepup ins del stalled =>
      (* a waiting consumer is always woken by an insertion: it may not be left parked with
         accepted insertions undelivered; and what it delivered is what was accepted *)
      if stalled then [(O, 5)]
      else if forallb (fun ic => N.eqb (total_of (fst ic) ins) (total_of (fst ic) del)) (ins ++ del)
           then [] else [(O, 3)]
  | CCtxErr c k => check_ctxerr c k
  end.

Fixpoint check_all_from (i : nat) (cs : list case) : list (nat * nat * N) :=
  match cs with
  | [] => []
  | c :: cs' => map (fun sn => (i, fst sn, snd sn)) (check_case c) ++ check_all_from (S i) cs'
  end.

Definition check_all (cs : list case) : list (nat * nat * N) := check_all_from 0 cs.

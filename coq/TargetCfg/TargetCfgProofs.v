(** Proofs about the model of target/target.go (TargetCfgModel.v). *)
From Gnmi Require Import Base.Prelude TargetCfg.TargetCfgModel.
Open Scope Z_scope.

Section Proofs.
Context {R O X : Type}.
Variable R_eqb : R -> R -> bool.
Variable O_eqb : O -> O -> bool.
Variable R_empty : R.
Variable O_empty : O.

Notation config := (config R O X).
Notation state := (state R O X).
Notation load_gen := (@load_gen R O X R_eqb O_eqb R_empty O_empty).

Lemma load_rejected_unchanged p (s : state) (arg : option config) :
  snd (fst (load_gen p s arg)) <> None ->
  fst (fst (load_gen p s arg)) = s /\ snd (load_gen p s arg) = [].
Proof.
  unfold TargetCfgModel.load_gen. destruct arg as [cf|]; cbn; [|auto].
  destruct (validate_gen p cf); cbn; [auto|].
  destruct (check_revision s cf); cbn; [congruence|auto].
Qed.

End Proofs.

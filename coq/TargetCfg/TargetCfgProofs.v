(** Proofs about the model of target/target.go (TargetCfgModel.v).

    Contents: [validate_spec] (Validate decides an order-independent
    predicate), [load_gate], [handle_diffs_spec] (the handler calls of an
    accepted load are exactly the difference of the effective configurations),
    [replay_diff_ok] / [replay_converges] (replaying the calls, each load's in
    any order, reproduces the effective configuration, for every history),
    [unchanged_silent], and the refutation of convergence for the unpatched
    code when the caller edits a loaded message in place. *)
From Gnmi Require Import Base.Prelude TargetCfg.TargetCfgModel.
Open Scope Z_scope.

(** * association-list facts *)

Section AssocFacts.
Context {A : Type}.

Lemma assoc_map_snd {B} (h : A -> B) k (l : list (string * A)) :
  assoc k (map (fun kt => (fst kt, h (snd kt))) l) = option_map h (assoc k l).
Proof.
  induction l as [|[k' a] l IH]; cbn; [reflexivity|].
  destruct (String.eqb k k'); auto.
Qed.

Lemma keys_map_snd {B} (h : A -> B) (l : list (string * A)) :
  keys (map (fun kt => (fst kt, h (snd kt))) l) = keys l.
Proof. induction l as [|[k' a] l IH]; cbn; congruence. Qed.

Lemma NoDup_keys_NoDup (l : list (string * A)) : NoDup (keys l) -> NoDup l.
Proof.
  induction l as [|[k a] l IH]; cbn; intros H; [constructor|].
  inversion H as [|? ? Hni Hnd]; subst. constructor; auto.
  intros Hin. apply Hni. change k with (fst (k, a)). now apply in_map.
Qed.

Lemma assoc_ext_perm (a b : list (string * A)) :
  NoDup (keys a) -> NoDup (keys b) -> (forall k, assoc k a = assoc k b) -> Permutation a b.
Proof.
  intros Ha Hb He. apply NoDup_Permutation; auto using NoDup_keys_NoDup.
  intros [k v]; split; intros Hin.
  - apply assoc_In. rewrite <- He. now apply In_assoc.
  - apply assoc_In. rewrite He. now apply In_assoc.
Qed.

Lemma assoc_perm k (a b : list (string * A)) :
  NoDup (keys a) -> Permutation a b -> assoc k a = assoc k b.
Proof.
  intros Ha Hp.
  assert (Hb : NoDup (keys b)) by (eapply Permutation_NoDup; [apply Permutation_map; eassumption|assumption]).
  destruct (assoc k a) as [v|] eqn:E.
  - symmetry. apply In_assoc; auto. eapply Permutation_in; eauto. now apply assoc_In.
  - destruct (assoc k b) as [v|] eqn:E'; [|reflexivity].
    apply assoc_In in E'. apply Permutation_sym in Hp.
    pose proof (Permutation_in _ Hp E') as Hin. apply In_assoc in Hin; auto. congruence.
Qed.

Lemma filter_key_absent k (l : list (string * A)) :
  ~ In k (keys l) -> filter (fun kt => negb (String.eqb k (fst kt))) l = l.
Proof.
  induction l as [|[k' a] l IH]; cbn; intros H; [reflexivity|].
  destruct (String.eqb_spec k k') as [->|Hn]; [tauto|]. cbn. f_equal. apply IH. tauto.
Qed.

Lemma adel_filter k (l : list (string * A)) :
  NoDup (keys l) -> adel k l = filter (fun kt => negb (String.eqb k (fst kt))) l.
Proof.
  induction l as [|[k' a] l IH]; cbn; intros H; [reflexivity|].
  inversion H as [|? ? Hni Hnd]; subst.
  destruct (String.eqb_spec k k') as [->|Hn]; cbn.
  - symmetry. now apply filter_key_absent.
  - f_equal. auto.
Qed.

Lemma adel_absent k (l : list (string * A)) : ~ In k (keys l) -> adel k l = l.
Proof.
  induction l as [|[k' a] l IH]; cbn; intros H; [reflexivity|].
  destruct (String.eqb_spec k k') as [->|Hn]; [tauto|]. f_equal. apply IH. tauto.
Qed.

End AssocFacts.

Lemma filter_filter {A} (f g : A -> bool) l :
  filter f (filter g l) = filter (fun x => g x && f x) l.
Proof.
  induction l as [|x l IH]; cbn; [reflexivity|].
  destruct (g x); cbn; [destruct (f x)|]; cbn; congruence.
Qed.

Lemma filter_all {A} (f : A -> bool) l : (forall x, In x l -> f x = true) -> filter f l = l.
Proof.
  induction l as [|x l IH]; cbn; intros H; [reflexivity|].
  rewrite (H x) by auto. f_equal. auto.
Qed.

Lemma flat_map_ext_In {A B} (f g : A -> list B) l :
  (forall x, In x l -> f x = g x) -> flat_map f l = flat_map g l.
Proof.
  induction l as [|x l IH]; cbn; intros H; [reflexivity|].
  rewrite (H x) by auto. f_equal. auto.
Qed.

Lemma flat_map_map {A B C} (f : B -> list C) (g : A -> B) l :
  flat_map f (map g l) = flat_map (fun x => f (g x)) l.
Proof. induction l as [|x l IH]; cbn; congruence. Qed.

Lemma existsb_eqb_In k l : existsb (String.eqb k) l = true <-> In k l.
Proof.
  rewrite existsb_exists. split.
  - intros (x & Hin & E). apply String.eqb_eq in E. now subst.
  - intros H. exists k. split; auto. apply String.eqb_refl.
Qed.

Section Proofs.
Context {R O X : Type}.
Variable R_eqb : R -> R -> bool.
Variable O_eqb : O -> O -> bool.
Variable R_empty : R.
Variable O_empty : O.

Notation config := (config R O X).
Notation state := (state R O X).
Notation target := (target O).
Notation tval := (tval O).
Notation rval := (rval R).
Notation call := (call R O).
Notation eff := (eff R O).
Notation entry := (entry R O).
Notation hop := (hop R O X).
Notation load_gen := (@load_gen R O X R_eqb O_eqb R_empty O_empty).
Notation run_gen := (@run_gen R O X R_eqb O_eqb R_empty O_empty).
Notation hop_state := (@hop_state R O X R_eqb O_eqb R_empty O_empty).
Notation hop_calls := (@hop_calls R O X R_eqb O_eqb R_empty O_empty).
Notation handle_diffs := (@handle_diffs R O X R_eqb O_eqb).
Notation eff_diff := (@eff_diff R O R_eqb O_eqb).
Notation entry_eqb := (@entry_eqb R O R_eqb O_eqb).
Notation clone_config := (@clone_config R O X R_empty O_empty).
Notation store_gen := (@store_gen R O X R_empty O_empty).
Notation mutate_gen := (@mutate_gen R O X).

(** * Validate *)

(** what Validate demands of one target binding.  [p] is the patch flag: with
    the patch a request entry that is a nil pointer does not count. *)
Definition target_ok (p : bool) (reqs : list (string * rval)) (k : string) (t : tval) : Prop :=
  k <> "" /\
  exists t0, t = Some t0 /\ t_addresses t0 <> [] /\ t_request t0 <> "" /\
             exists v, assoc (t_request t0) reqs = Some v /\ (p = true -> v <> None).

Definition valid_p (p : bool) (c : config) : Prop :=
  forall k t, In (k, t) (c_target c) -> target_ok p (c_request c) k t.

(** Go maps have distinct keys *)
Definition wf_config (c : config) : Prop :=
  NoDup (keys (c_request c)) /\ NoDup (keys (c_target c)).

Lemma validate_targets_spec p reqs ts :
  validate_targets p reqs ts = None <-> (forall k t, In (k, t) ts -> target_ok p reqs k t).
Proof.
  induction ts as [|[k t] ts IH]; cbn.
  - split; [intros _ ? ? []|reflexivity].
  - destruct (String.eqb_spec k "") as [->|Hk].
    { split; [discriminate|]. intros H. destruct (H "" t (or_introl eq_refl)) as [Hn _]. congruence. }
    destruct t as [t0|].
    2:{ split; [discriminate|]. intros H.
        destruct (H k None (or_introl eq_refl)) as [_ (t0 & E & _)]. discriminate. }
    destruct (t_addresses t0) as [|a0 al] eqn:Ea.
    { split; [discriminate|]. intros H.
      destruct (H k (Some t0) (or_introl eq_refl)) as [_ (t1 & E & Hna & _)].
      inversion E; subst. congruence. }
    destruct (String.eqb_spec (t_request t0) "") as [Er|Hr].
    { split; [discriminate|]. intros H.
      destruct (H k (Some t0) (or_introl eq_refl)) as [_ (t1 & E & _ & Hnr & _)].
      inversion E; subst. congruence. }
    assert (Hhead : forall v, assoc (t_request t0) reqs = Some v -> (p = true -> v <> None) ->
                              target_ok p reqs k (Some t0)).
    { intros v Hv Hp. split; [assumption|]. exists t0. repeat split; try assumption.
      - rewrite Ea. discriminate.
      - eauto. }
    destruct (assoc (t_request t0) reqs) as [v|] eqn:Ev.
    2:{ split; [discriminate|]. intros H.
        destruct (H k (Some t0) (or_introl eq_refl)) as [_ (t1 & E & _ & _ & (v & Hv & _))].
        inversion E; subst. congruence. }
    destruct v as [r|].
    + rewrite IH. split.
      * intros H k' t' [E|Hin]; [inversion E; subst; apply (Hhead (Some r)); [reflexivity|discriminate]|auto].
      * intros H k' t' Hin. auto.
    + destruct p.
      * split; [discriminate|]. intros H.
        destruct (H k (Some t0) (or_introl eq_refl)) as [_ (t1 & E & _ & _ & (v & Hv & Hp))].
        inversion E; subst. rewrite Ev in Hv. inversion Hv; subst. now specialize (Hp eq_refl).
      * rewrite IH. split.
        -- intros H k' t' [E|Hin]; [inversion E; subst; apply (Hhead None); [reflexivity|discriminate]|auto].
        -- intros H k' t' Hin. auto.
Qed.

Lemma validate_spec p (c : config) : validate_gen p c = None <-> valid_p p c.
Proof. apply validate_targets_spec. Qed.

(** whether Validate returns an error does not depend on map iteration order *)
Lemma validate_order_independent p (c c' : config) :
  wf_config c ->
  Permutation (c_request c) (c_request c') -> Permutation (c_target c) (c_target c') ->
  (validate_gen p c = None <-> validate_gen p c' = None).
Proof.
  intros [Hr _] Pr Pt. rewrite !validate_spec. unfold valid_p.
  assert (Ha : forall k, assoc k (c_request c) = assoc k (c_request c')) by (intros; now apply assoc_perm).
  split; intros H k t Hin.
  - apply (Permutation_in _ (Permutation_sym Pt)) in Hin. specialize (H k t Hin).
    destruct H as [H1 (t0 & E & H2 & H3 & (v & Hv & Hp))]. split; auto.
    exists t0. repeat split; auto. exists v. rewrite <- Ha. auto.
  - apply (Permutation_in _ Pt) in Hin. specialize (H k t Hin).
    destruct H as [H1 (t0 & E & H2 & H3 & (v & Hv & Hp))]. split; auto.
    exists t0. repeat split; auto. exists v. rewrite Ha. auto.
Qed.

(** the patched Validate is the stricter one *)
Lemma valid_p_weaken p c : valid_p p c -> valid_p false c.
Proof.
  intros H k t Hin. destruct (H k t Hin) as [H1 (t0 & E & H2 & H3 & (v & Hv & _))].
  split; auto. exists t0. repeat split; auto. exists v. split; auto. discriminate.
Qed.

(** * the gate *)

Definition newer (s : state) (cf : config) : Prop :=
  match s with None => True | Some cur => c_revision cur < c_revision cf end.

Lemma check_revision_spec s cf : check_revision s cf = true <-> newer s cf.
Proof.
  destruct s as [cur|]; cbn; [|tauto].
  rewrite negb_true_iff, Z.leb_gt. tauto.
Qed.

(** [load_gate]: a load is applied iff its argument is a valid configuration
    whose revision is strictly greater than the current one (or there is no
    current one); then the state is the (stored copy of the) argument;
    otherwise the state is unchanged and no handler runs. *)
Lemma load_gate p (s : state) (arg : option config) :
  (load_err R_eqb O_eqb R_empty O_empty p s arg = None <->
   exists cf, arg = Some cf /\ valid_p p cf /\ newer s cf)
  /\ (forall cf, arg = Some cf -> valid_p p cf -> newer s cf ->
        load_state R_eqb O_eqb R_empty O_empty p s arg = Some (store_gen p cf))
  /\ (load_err R_eqb O_eqb R_empty O_empty p s arg <> None ->
        load_state R_eqb O_eqb R_empty O_empty p s arg = s
        /\ load_calls R_eqb O_eqb R_empty O_empty p s arg = []).
Proof.
  unfold load_err, load_state, load_calls, TargetCfgModel.load_gen.
  destruct arg as [cf|]; cbn.
  2:{ split; [split; [discriminate|intros (cf & E & _); discriminate]|].
      split; [intros ? E; discriminate|auto]. }
  destruct (validate_gen p cf) as [e|] eqn:Ev; cbn.
  { split; [split; [discriminate|]|split; [|auto]].
    - intros (cf' & E & Hv & _). inversion E; subst. apply validate_spec in Hv. congruence.
    - intros cf' E Hv. inversion E; subst. apply validate_spec in Hv. congruence. }
  apply validate_spec in Ev.
  destruct (check_revision s cf) eqn:Ec; cbn.
  - apply check_revision_spec in Ec.
    split; [split; [eauto|reflexivity]|split; [|congruence]].
    intros cf' E _ _. now inversion E.
  - assert (Hn : ~ newer s cf) by (rewrite <- check_revision_spec; congruence).
    split; [split; [discriminate|]|split; [|auto]].
    + intros (cf' & E & _ & Hn'). inversion E; subst. contradiction.
    + intros cf' E _ Hn'. inversion E; subst. contradiction.
Qed.

(** * proto.Equal on the compared messages *)

Lemma strs_eqb_spec a b : strs_eqb a b = true <-> a = b.
Proof.
  revert b; induction a as [|x a IH]; intros [|y b]; cbn; try (split; congruence).
  rewrite andb_true_iff, String.eqb_eq, IH. split; [intros [-> ->]; reflexivity|intros E; inversion E; auto].
Qed.

(** from here on: the two abstract comparisons are equality of content *)
Hypothesis R_eqb_spec : forall a b, R_eqb a b = true <-> a = b.
Hypothesis O_eqb_spec : forall a b, O_eqb a b = true <-> a = b.

Lemma target_eqb_spec (a b : target) : target_eqb O_eqb a b = true <-> a = b.
Proof.
  unfold target_eqb. rewrite !andb_true_iff, strs_eqb_spec, String.eqb_eq, O_eqb_spec.
  destruct a, b; cbn. split; [intros [[-> ->] ->]; reflexivity|intros E; inversion E; auto].
Qed.

Lemma tval_eqb_spec (a b : tval) : tval_eqb O_eqb a b = true <-> a = b.
Proof.
  destruct a as [a|], b as [b|]; cbn; try (split; congruence).
  rewrite target_eqb_spec. split; congruence.
Qed.

Lemma rval_eqb_spec (a b : rval) : rval_eqb R_eqb a b = true <-> a = b.
Proof.
  destruct a as [a|], b as [b|]; cbn; try (split; congruence).
  rewrite R_eqb_spec. split; congruence.
Qed.

Lemma entry_eqb_spec (a b : entry) : entry_eqb a b = true <-> a = b.
Proof.
  unfold TargetCfgModel.entry_eqb. rewrite andb_true_iff, tval_eqb_spec, rval_eqb_spec.
  destruct a, b; cbn. split; [intros [-> ->]; reflexivity|intros E; inversion E; auto].
Qed.

(** * handleDiffs announces exactly the difference of the effective configurations *)

Lemma is_changed_in (old new : list (string * rval)) r :
  is_changed (request_changed R_eqb old new) r = true -> In r (keys new).
Proof.
  unfold is_changed, request_changed. rewrite existsb_eqb_In, in_flat_map.
  intros ([k v] & Hin & Hr). cbn in Hr.
  destruct (assoc k old) as [o|]; [|destruct Hr].
  destruct (negb (rval_eqb R_eqb o v)); [|destruct Hr].
  destruct Hr as [<-|[]]. change k with (fst (k, v)). now apply in_map.
Qed.

Lemma is_changed_spec (old new : list (string * rval)) r vo vn :
  NoDup (keys new) -> assoc r old = Some vo -> assoc r new = Some vn ->
  is_changed (request_changed R_eqb old new) r = negb (rval_eqb R_eqb vo vn).
Proof.
  intros Hnd Ho. revert Hnd.
  induction new as [|[k v] new IH]; intros Hnd Hn; [discriminate|].
  inversion Hnd as [|? ? Hni Hnd']; subst.
  unfold is_changed, request_changed in *. cbn [flat_map fst snd]. rewrite existsb_app.
  cbn [assoc fst snd] in Hn.
  destruct (String.eqb_spec r k) as [->|Hne].
  - inversion Hn; subst. rewrite Ho.
    match goal with |- _ || ?b = _ => destruct b eqn:E end.
    { apply (is_changed_in old new k) in E. contradiction. }
    destruct (rval_eqb R_eqb vo vn); cbn; rewrite ?String.eqb_refl; reflexivity.
  - rewrite IH by auto.
    destruct (assoc k old) as [o|]; [|reflexivity].
    destruct (negb (rval_eqb R_eqb o v)); [|reflexivity].
    cbn. destruct (String.eqb_spec r k); [congruence|reflexivity].
Qed.

(** the calls one old target gives rise to, given the new target map *)
Definition step_calls (rc : list string) (nr : list (string * rval))
    (nts : list (string * tval)) (kt : string * tval) : list call :=
  match map_get (fst kt) nts with
  | None => [HDelete (fst kt)]
  | Some nt =>
      if negb (is_changed rc (get_request_name (snd kt))) && tval_eqb O_eqb (snd kt) (Some nt)
      then []
      else [HUpdate (fst kt) (map_get (t_request nt) nr) (Some nt)]
  end.

Definition no_nil (nts : list (string * tval)) : Prop := forall k, ~ In (k, None) nts.

Lemma map_get_cases {A} k (m : list (string * option A)) :
  (assoc k m = None /\ map_get k m = None) \/ (exists v, assoc k m = Some v /\ map_get k m = v).
Proof. unfold map_get. destruct (assoc k m) as [v|]; eauto. Qed.

Lemma map_get_assoc_Some {A} k (m : list (string * option A)) v :
  assoc k m = Some v -> map_get k m = v.
Proof. unfold map_get. now intros ->. Qed.

Lemma map_get_None_absent k (nts : list (string * tval)) :
  no_nil nts -> map_get k nts = None -> ~ In k (keys nts).
Proof.
  intros Hnn H. destruct (map_get_cases k nts) as [[Ea _]|(v & Ea & Em)].
  - now apply assoc_None.
  - rewrite H in Em. subst v. apply assoc_In in Ea. exfalso. eapply Hnn; eauto.
Qed.

Lemma fold_diff_old rc nr (l : list (string * tval)) :
  forall nts cs,
    NoDup (keys l) -> NoDup (keys nts) -> no_nil nts ->
    fold_left (diff_old O_eqb rc nr) l (nts, cs) =
    (filter (fun kt => negb (existsb (String.eqb (fst kt)) (keys l))) nts,
     cs ++ flat_map (step_calls rc nr nts) l).
Proof.
  induction l as [|[k t] l IH]; intros nts cs Hl Hn Hnn.
  - cbn. rewrite app_nil_r. f_equal. symmetry. now apply filter_all.
  - inversion Hl as [|? ? Hni Hl']; subst. cbn [fold_left].
    assert (Hstep : diff_old O_eqb rc nr (nts, cs) (k, t) = (adel k nts, cs ++ step_calls rc nr nts (k, t))).
    { unfold diff_old, step_calls. cbn [fst snd].
      destruct (map_get k nts) as [nt|] eqn:E.
      - destruct (negb (is_changed rc (get_request_name t)) && tval_eqb O_eqb t (Some nt));
          [now rewrite app_nil_r|reflexivity].
      - rewrite adel_absent; [reflexivity|]. now apply map_get_None_absent. }
    rewrite Hstep, IH; auto.
    + f_equal.
      * rewrite adel_filter by assumption. rewrite filter_filter. apply filter_ext.
        intros [k' t']. cbn. rewrite (String.eqb_sym k k'). now rewrite negb_orb.
      * rewrite <- app_assoc. f_equal. cbn [flat_map]. f_equal.
        apply flat_map_ext_In. intros [k' t'] Hin. unfold step_calls. cbn [fst snd].
        assert (k' <> k).
        { intros ->. apply Hni. change k with (fst (k, t')). now apply in_map. }
        unfold map_get. rewrite assoc_adel by assumption.
        destruct (String.eqb_spec k' k); [congruence|reflexivity].
    + now apply NoDup_keys_adel.
    + intros k' Hin. apply (Hnn k'). rewrite adel_filter in Hin by assumption.
      apply filter_In in Hin. tauto.
Qed.

(** state invariant: the current configuration, if any, passed Validate and
    has distinct map keys *)
Definition state_ok (s : state) : Prop :=
  match s with None => True | Some c => wf_config c /\ valid_p false c end.

Lemma keys_effective (c : config) : keys (effective (Some c)) = keys (c_target c).
Proof. cbn. apply (keys_map_snd (fun t => (t, map_get (get_request_name t) (c_request c)))). Qed.

Lemma assoc_effective k (c : config) :
  assoc k (effective (Some c)) =
  option_map (fun t => (t, map_get (get_request_name t) (c_request c)))
             (@assoc (option target) k (c_target c)).
Proof. cbn. apply (assoc_map_snd (fun t => (t, map_get (get_request_name t) (c_request c)))). Qed.

Lemma NoDup_keys_effective (s : state) : state_ok s -> NoDup (keys (effective s)).
Proof.
  destruct s as [c|]; [|constructor]. intros [[_ H] _]. now rewrite keys_effective.
Qed.

Lemma valid_no_nil p (c : config) : valid_p p c -> no_nil (c_target c).
Proof. intros H k Hin. destruct (H k None Hin) as [_ (t0 & E & _)]. discriminate. Qed.

Lemma handle_diffs_spec (s : state) (cf : config) :
  state_ok s -> valid_p false cf -> wf_config cf ->
  handle_diffs s cf = eff_diff (effective s) (effective (Some cf)).
Proof.
  intros Hs Hv [Hwr Hwt]. unfold TargetCfgModel.handle_diffs, TargetCfgModel.eff_diff.
  pose proof (valid_no_nil _ _ Hv) as Hnn.
  assert (Hl : NoDup (keys (get_targets s))).
  { destruct s as [c|]; cbn; [apply Hs|constructor]. }
  rewrite fold_diff_old by assumption. cbn [fst snd app]. f_equal.
  - (* calls for the old targets *)
    destruct s as [c|]; [|reflexivity]. destruct Hs as [[Hcr Hct] Hcv].
    cbn [get_targets get_requests effective]. rewrite flat_map_map.
    apply flat_map_ext_In. intros [k t] Hin. cbn [fst snd]. unfold step_calls. cbn [fst snd].
    change (map _ (c_target cf)) with (effective (Some cf)). rewrite assoc_effective.
    unfold map_get at 1.
    destruct (@assoc (option target) k (c_target cf)) as [[nt|]|] eqn:En; cbn [option_map].
    + (* present in both *)
      unfold TargetCfgModel.entry_eqb. cbn [fst snd get_request_name].
      destruct (tval_eqb O_eqb t (Some nt)) eqn:Et; cbn [andb]; [|now rewrite andb_false_r].
      apply tval_eqb_spec in Et. subst t. cbn [get_request_name]. rewrite andb_true_r.
      destruct (Hcv k (Some nt) Hin) as [_ (t0 & E0 & _ & _ & (vo & Hvo & _))]. inversion E0; subst t0.
      apply assoc_In in En.
      destruct (Hv k (Some nt) En) as [_ (t1 & E1 & _ & _ & (vn & Hvn & _))]. inversion E1; subst t1.
      rewrite (is_changed_spec _ _ _ vo vn) by assumption.
      rewrite (map_get_assoc_Some _ _ _ Hvo), (map_get_assoc_Some _ _ _ Hvn).
      rewrite negb_involutive. reflexivity.
    + (* nil pointer in the new map: excluded by validity *)
      apply assoc_In in En. exfalso. eapply Hnn; eauto.
    + reflexivity.
  - (* leftovers are the new targets *)
    assert (Ha : forall k, assoc k (effective s) = None <-> ~ In k (keys (get_targets s))).
    { intros k. destruct s as [c|]; cbn [get_targets]; [|cbn; tauto].
      rewrite assoc_None, keys_effective. tauto. }
    cbn [effective]. rewrite flat_map_map. clear Hnn Hv Hwt.
    induction (c_target cf) as [|[k t] l IH]; cbn; [reflexivity|].
    destruct (assoc k (effective s)) as [e|] eqn:E.
    + assert (Hin : In k (keys (get_targets s))).
      { destruct (in_dec string_dec k (keys (get_targets s))); auto.
        apply Ha in n. congruence. }
      apply existsb_eqb_In in Hin. rewrite Hin. cbn. apply IH.
    + apply Ha in E.
      destruct (existsb (String.eqb k) (keys (get_targets s))) eqn:Ex.
      { apply existsb_eqb_In in Ex. contradiction. }
      cbn. f_equal. apply IH.
Qed.

(** * replaying a correct set of announcements, in any order *)

(** [c] is a correct announcement of the change from [e1] to [e2] *)
Definition call_ok (e1 e2 : eff) (c : call) : Prop :=
  match c with
  | HAdd n r t => assoc n e1 = None /\ assoc n e2 = Some (t, r)
  | HUpdate n r t => assoc n e1 <> None /\ assoc n e2 = Some (t, r)
  | HDelete n => assoc n e1 <> None /\ assoc n e2 = None
  end.

(** [cs] announces the change from [e1] to [e2]: at most one call per target,
    each correct, and every target without a call is the same on both sides.
    Nothing here depends on the order of [cs]. *)
Definition diff_ok (e1 e2 : eff) (cs : list call) : Prop :=
  NoDup (map call_name cs)
  /\ Forall (call_ok e1 e2) cs
  /\ (forall k, ~ In k (map call_name cs) -> assoc k e1 = assoc k e2).

Lemma diff_ok_perm e1 e2 cs cs' : Permutation cs cs' -> diff_ok e1 e2 cs -> diff_ok e1 e2 cs'.
Proof.
  intros Hp (H1 & H2 & H3). repeat split.
  - eapply Permutation_NoDup; [apply Permutation_map; eassumption|assumption].
  - eapply Permutation_Forall; eassumption.
  - intros k Hk. apply H3. intros Hin. apply Hk.
    eapply Permutation_in; [apply Permutation_map; eassumption|assumption].
Qed.

Lemma diff_ok_ext e1 e1' e2 e2' cs :
  (forall k, assoc k e1 = assoc k e1') -> (forall k, assoc k e2 = assoc k e2') ->
  diff_ok e1 e2 cs -> diff_ok e1' e2' cs.
Proof.
  intros E1 E2 (H1 & H2 & H3). repeat split; auto.
  - eapply Forall_impl; [|exact H2]. intros [n r t|n r t|n]; cbn; rewrite <- ?E1, <- ?E2; auto.
  - intros k Hk. rewrite <- E1, <- E2. auto.
Qed.

Lemma diff_ok_nil e : diff_ok e e [].
Proof. split; [constructor|split; [constructor|reflexivity]]. Qed.

Lemma replay_call_ok e1 e2 c :
  NoDup (keys e1) -> call_ok e1 e2 c ->
  exists e1', replay_call e1 c = Some e1' /\ NoDup (keys e1')
              /\ forall k, assoc k e1' = if String.eqb k (call_name c) then assoc k e2 else assoc k e1.
Proof.
  intros Hnd. destruct c as [n r t|n r t|n]; cbn; intros [Ha Hb].
  - rewrite Ha. eexists; split; [reflexivity|]. split; [now apply NoDup_keys_aset|].
    intros k. rewrite assoc_aset. destruct (String.eqb_spec k n); [subst; now rewrite Hb|reflexivity].
  - destruct (assoc n e1) as [x|]; [|congruence].
    eexists; split; [reflexivity|]. split; [now apply NoDup_keys_aset|].
    intros k. rewrite assoc_aset. destruct (String.eqb_spec k n); [subst; now rewrite Hb|reflexivity].
  - destruct (assoc n e1) as [x|]; [|congruence].
    eexists; split; [reflexivity|]. split; [now apply NoDup_keys_adel|].
    intros k. rewrite assoc_adel by assumption.
    destruct (String.eqb_spec k n); [subst; now rewrite Hb|reflexivity].
Qed.

Lemma replay_diff_ok cs : forall e1 e2,
  NoDup (keys e1) -> diff_ok e1 e2 cs ->
  exists e, replay cs e1 = Some e /\ NoDup (keys e) /\ forall k, assoc k e = assoc k e2.
Proof.
  induction cs as [|c cs IH]; intros e1 e2 Hnd (H1 & H2 & H3).
  - exists e1. repeat split; auto.
  - inversion H1 as [|? ? Hni H1']; subst. inversion H2 as [|? ? Hc H2']; subst.
    destruct (replay_call_ok e1 e2 c Hnd Hc) as (e1' & Er & Hnd' & Ha).
    cbn [replay]. rewrite Er. apply (IH e1' e2 Hnd').
    repeat split; auto.
    + eapply Forall_forall. intros c' Hin. rewrite Forall_forall in H2'. specialize (H2' c' Hin).
      assert (Hne : call_name c' <> call_name c).
      { intros E. apply Hni. rewrite <- E. now apply in_map. }
      destruct c' as [n r t|n r t|n]; cbn in *; rewrite Ha;
        (destruct (String.eqb_spec n (call_name c)); [congruence|assumption]).
    + intros k Hk. rewrite Ha. destruct (String.eqb_spec k (call_name c)) as [->|Hne]; [reflexivity|].
      apply H3. cbn. intros [E|Hin]; [congruence|contradiction].
Qed.

Lemma replay_app cs1 cs2 (e : eff) :
  replay (cs1 ++ cs2) e = match replay cs1 e with Some e' => replay cs2 e' | None => None end.
Proof.
  revert e; induction cs1 as [|c cs1 IH]; intros e; cbn; [reflexivity|].
  destruct (replay_call e c); auto.
Qed.

(** the specified difference is a correct set of announcements *)

Lemma names_flat_map (f : string * entry -> list call) (e : eff) :
  (forall ke c, In c (f ke) -> call_name c = fst ke) ->
  (forall ke, (List.length (f ke) <= 1)%nat) ->
  NoDup (keys e) -> NoDup (map call_name (flat_map f e))
  /\ forall n, In n (map call_name (flat_map f e)) -> In n (keys e).
Proof.
  intros Hname Hlen. induction e as [|ke e IH]; cbn; intros Hnd; [split; [constructor|tauto]|].
  inversion Hnd as [|? ? Hni Hnd']; subst. destruct (IH Hnd') as [IH1 IH2].
  rewrite map_app. split.
  - pose proof (Hlen ke) as Hl. pose proof (Hname ke) as Hn.
    destruct (f ke) as [|c [|c' l]]; cbn in *; [assumption| |lia].
    constructor; auto. rewrite (Hn c) by auto. intros Hin. apply Hni. auto.
  - intros n. rewrite in_app_iff. intros [Hin|Hin]; [|right; auto].
    left. apply in_map_iff in Hin as (c & <- & Hc). symmetry. now apply Hname.
Qed.

Lemma eff_diff_ok (e1 e2 : eff) :
  NoDup (keys e1) -> NoDup (keys e2) -> diff_ok e1 e2 (eff_diff e1 e2).
Proof.
  intros H1 H2. unfold TargetCfgModel.eff_diff.
  set (f1 := fun ke : string * entry =>
               match assoc (fst ke) e2 with
               | None => [HDelete (fst ke)]
               | Some e' => if entry_eqb (snd ke) e' then [] else [HUpdate (fst ke) (snd e') (fst e')]
               end).
  set (f2 := fun ke : string * entry =>
               match assoc (fst ke) e1 with
               | None => [HAdd (fst ke) (snd (snd ke)) (fst (snd ke))]
               | Some _ => []
               end).
  assert (N1 : forall ke c, In c (f1 ke) -> call_name c = fst ke).
  { intros ke c. unfold f1. destruct (assoc (fst ke) e2) as [e'|].
    - destruct (entry_eqb (snd ke) e'); [intros []|intros [<-|[]]; reflexivity].
    - intros [<-|[]]; reflexivity. }
  assert (L1 : forall ke, (List.length (f1 ke) <= 1)%nat).
  { intros ke. unfold f1. destruct (assoc (fst ke) e2) as [e'|]; [destruct (entry_eqb (snd ke) e')|]; cbn; lia. }
  assert (N2 : forall ke c, In c (f2 ke) -> call_name c = fst ke).
  { intros ke c. unfold f2. destruct (assoc (fst ke) e1); [intros []|intros [<-|[]]; reflexivity]. }
  assert (L2 : forall ke, (List.length (f2 ke) <= 1)%nat).
  { intros ke. unfold f2. destruct (assoc (fst ke) e1); cbn; lia. }
  destruct (names_flat_map f1 e1 N1 L1 H1) as [D1 I1].
  destruct (names_flat_map f2 e2 N2 L2 H2) as [D2 I2].
  assert (A2 : forall n, In n (map call_name (flat_map f2 e2)) -> assoc n e1 = None).
  { intros n Hin. apply in_map_iff in Hin as (c & <- & Hc). apply in_flat_map in Hc as (ke & Hke & Hc).
    rewrite (N2 ke c Hc). unfold f2 in Hc. destruct (assoc (fst ke) e1); [destruct Hc|reflexivity]. }
  repeat split.
  - rewrite map_app. apply NoDup_app_intro; auto.
    intros n Hn1 Hn2. apply I1 in Hn1. apply A2 in Hn2. apply assoc_None in Hn2. contradiction.
  - apply Forall_app. split; apply Forall_forall; intros c Hc; apply in_flat_map in Hc as ([k v] & Hke & Hc).
    + unfold f1 in Hc. cbn [fst snd] in Hc.
      assert (Hk : assoc k e1 <> None) by (rewrite (In_assoc _ _ _ H1 Hke); discriminate).
      destruct (assoc k e2) as [[t r]|] eqn:E2.
      * destruct (entry_eqb v (t, r)); [destruct Hc|]. destruct Hc as [<-|[]]. cbn. auto.
      * destruct Hc as [<-|[]]. cbn. auto.
    + unfold f2 in Hc. cbn [fst snd] in Hc. destruct (assoc k e1) eqn:E1; [destruct Hc|].
      destruct Hc as [<-|[]]. cbn. split; auto. rewrite (In_assoc _ _ _ H2 Hke). now destruct v.
  - intros k Hk. rewrite map_app, in_app_iff in Hk.
    destruct (assoc k e1) as [v1|] eqn:E1.
    + destruct (assoc k e2) as [v2|] eqn:E2.
      * destruct (entry_eqb v1 v2) eqn:Ee; [apply entry_eqb_spec in Ee; congruence|].
        exfalso. apply Hk. left. apply in_map_iff. exists (HUpdate k (snd v2) (fst v2)). split; auto.
        apply in_flat_map. exists (k, v1). split; [now apply assoc_In|].
        unfold f1. cbn [fst snd]. rewrite E2, Ee. now left.
      * exfalso. apply Hk. left. apply in_map_iff. exists (HDelete k). split; auto.
        apply in_flat_map. exists (k, v1). split; [now apply assoc_In|].
        unfold f1. cbn [fst snd]. rewrite E2. now left.
    + destruct (assoc k e2) as [v2|] eqn:E2; [|reflexivity].
      exfalso. apply Hk. right. apply in_map_iff. exists (HAdd k (snd v2) (fst v2)). split; auto.
      apply in_flat_map. exists (k, v2). split; [now apply assoc_In|].
      unfold f2. cbn [fst snd]. rewrite E1. now left.
Qed.

(** * one step of a history *)

Definition hop_wf (h : hop) : Prop :=
  match h with
  | HLoad (Some cf) => wf_config cf
  | HLoad None => True
  | HMutate c' => wf_config c'
  end.

Lemma clone_config_wf (c : config) : wf_config c -> wf_config (clone_config c).
Proof.
  intros [H1 H2]. split; cbn.
  - now rewrite (keys_map_snd (fun v : rval => match v with Some r => Some r | None => Some R_empty end)).
  - now rewrite (keys_map_snd (fun v : tval => match v with Some t => Some t | None => Some (mkTarget [] "" O_empty) end)).
Qed.

Lemma effective_clone (c : config) :
  valid_p true c -> effective (Some (clone_config c)) = effective (Some c).
Proof.
  intros Hv. cbn [effective clone_config c_target c_request]. rewrite map_map.
  apply map_ext_in. intros [k t] Hin. cbn [fst snd].
  destruct (Hv k t Hin) as [_ (t0 & -> & _ & _ & (v & Ha & Hn))]. cbn [get_request_name].
  f_equal. f_equal. unfold map_get.
  rewrite (assoc_map_snd (fun v : rval => match v with Some r => Some r | None => Some R_empty end)).
  unfold TargetCfgModel.rval in *. rewrite Ha. cbn.
  destruct v; [reflexivity|]. now specialize (Hn eq_refl).
Qed.

Lemma clone_config_valid p (c : config) : valid_p p c -> valid_p false (clone_config c).
Proof.
  intros Hv k t Hin. cbn [clone_config c_target c_request] in *.
  apply in_map_iff in Hin as ([k' t'] & E & Hin). cbn [fst snd] in E. inversion E; subst k t. clear E.
  destruct (Hv k' t' Hin) as [H1 (t0 & -> & H2 & H3 & (v & Ha & _))].
  split; auto. exists t0. repeat split; auto.
  exists (match v with Some r => Some r | None => Some R_empty end). split; [|discriminate].
  rewrite (assoc_map_snd (fun v : rval => match v with Some r => Some r | None => Some R_empty end)).
  unfold TargetCfgModel.rval in *. now rewrite Ha.
Qed.

Lemma store_ok p (cf : config) :
  wf_config cf -> valid_p p cf ->
  state_ok (Some (store_gen p cf))
  /\ effective (Some (store_gen p cf)) = effective (Some cf).
Proof.
  intros Hw Hv. unfold TargetCfgModel.store_gen. destruct p.
  - split; [|now apply effective_clone].
    split; [now apply clone_config_wf|now apply (clone_config_valid true)].
  - split; [split; assumption|reflexivity].
Qed.

(** an accepted load announces exactly the difference of the effective
    configurations *)
Lemma load_calls_exact p (s : state) (cf : config) :
  state_ok s -> wf_config cf ->
  load_err R_eqb O_eqb R_empty O_empty p s (Some cf) = None ->
  load_calls R_eqb O_eqb R_empty O_empty p s (Some cf)
  = eff_diff (effective s) (effective (Some cf)).
Proof.
  intros Hs Hw. unfold load_err, load_calls, TargetCfgModel.load_gen.
  destruct (validate_gen p cf) eqn:Ev; cbn; [discriminate|].
  destruct (check_revision s cf); cbn; [|discriminate].
  intros _. apply validate_spec in Ev. apply handle_diffs_spec; auto. now apply (valid_p_weaken p).
Qed.

Lemma hop_step p (s : state) (h : hop) :
  state_ok s -> hop_wf h -> (p = true \/ is_load h = true) ->
  state_ok (hop_state p s h)
  /\ diff_ok (effective s) (effective (hop_state p s h)) (hop_calls p s h).
Proof.
  intros Hs Hw Hp. destruct h as [arg|c']; cbn [hop_state hop_calls].
  - unfold load_state, load_calls, TargetCfgModel.load_gen.
    destruct arg as [cf|]; cbn [fst snd]; [|split; [assumption|apply diff_ok_nil]].
    destruct (validate_gen p cf) eqn:Ev; cbn [fst snd]; [split; [assumption|apply diff_ok_nil]|].
    destruct (check_revision s cf); cbn [fst snd]; [|split; [assumption|apply diff_ok_nil]].
    apply validate_spec in Ev. cbn in Hw.
    destruct (store_ok p cf Hw Ev) as [Hso He]. split; [assumption|].
    rewrite He, handle_diffs_spec by (auto; now apply (valid_p_weaken p)).
    apply eff_diff_ok.
    + now apply NoDup_keys_effective.
    + rewrite keys_effective. apply Hw.
  - destruct Hp as [->|Hl]; [|discriminate]. cbn. split; [assumption|apply diff_ok_nil].
Qed.

(** * every history *)

Lemma replay_run p (hs : list hop) : forall (s : state) (e0 : eff) css',
  state_ok s -> NoDup (keys e0) -> (forall k, assoc k e0 = assoc k (effective s)) ->
  Forall hop_wf hs -> (p = true \/ forallb is_load hs = true) ->
  Forall2 (@Permutation call) (snd (run_gen p s hs)) css' ->
  state_ok (fst (run_gen p s hs))
  /\ exists e, replay (List.concat css') e0 = Some e /\ NoDup (keys e)
               /\ forall k, assoc k e = assoc k (effective (fst (run_gen p s hs))).
Proof.
  induction hs as [|h hs IH]; intros s e0 css' Hs Hnd He Hw Hp Hperm.
  - cbn in *. inversion Hperm; subst. cbn. split; [assumption|]. exists e0. auto.
  - cbn [run_gen fst snd] in *. inversion Hperm as [|cs cs' css css'' Hp1 Hp2]; subst.
    inversion Hw as [|? ? Hw1 Hw2]; subst.
    assert (Hp' : (p = true \/ is_load h = true) /\ (p = true \/ forallb is_load hs = true)).
    { destruct Hp as [->|Hl]; [auto|]. cbn in Hl. apply andb_true_iff in Hl. tauto. }
    destruct Hp' as [Hph Hpt].
    destruct (hop_step p s h Hs Hw1 Hph) as [Hs' Hd].
    assert (Hd' : diff_ok e0 (effective (hop_state p s h)) cs').
    { eapply diff_ok_perm; [eassumption|].
      eapply diff_ok_ext; [| |exact Hd]; [intros k; symmetry; apply He|reflexivity]. }
    destruct (replay_diff_ok cs' e0 _ Hnd Hd') as (e1 & Er & Hnd1 & He1).
    cbn [List.concat]. rewrite replay_app, Er.
    apply (IH (hop_state p s h) e1 css''); auto.
Qed.

(** [replay_converges]: for every history of loads -- valid or not, newer or
    not, with or (patched code only) without in-place edits by the caller --
    replaying the Add/Update/Delete calls, those of each load in any order,
    onto the effective initial configuration never hits a protocol error and
    yields exactly the effective current configuration. *)
Lemma replay_converges p (s0 : state) (hs : list hop) :
  state_ok s0 -> Forall hop_wf hs -> (p = true \/ forallb is_load hs = true) ->
  forall css', Forall2 (@Permutation call) (snd (run_gen p s0 hs)) css' ->
  exists e, replay (List.concat css') (effective s0) = Some e
            /\ Permutation e (effective (fst (run_gen p s0 hs))).
Proof.
  intros Hs Hw Hp css' Hperm.
  destruct (replay_run p hs s0 (effective s0) css' Hs (NoDup_keys_effective _ Hs) (fun _ => eq_refl) Hw Hp Hperm)
    as (Hsf & e & Er & Hnd & He).
  exists e. split; [assumption|].
  apply assoc_ext_perm; auto. now apply NoDup_keys_effective.
Qed.

(** the result of a replay does not depend on the order inside a load *)
Lemma replay_order_independent p (s0 : state) (hs : list hop) css1 css2 e1 e2 :
  state_ok s0 -> Forall hop_wf hs -> (p = true \/ forallb is_load hs = true) ->
  Forall2 (@Permutation call) (snd (run_gen p s0 hs)) css1 ->
  Forall2 (@Permutation call) (snd (run_gen p s0 hs)) css2 ->
  replay (List.concat css1) (effective s0) = Some e1 ->
  replay (List.concat css2) (effective s0) = Some e2 ->
  Permutation e1 e2.
Proof.
  intros Hs Hw Hp H1 H2 E1 E2.
  destruct (replay_converges p s0 hs Hs Hw Hp css1 H1) as (x1 & X1 & P1).
  destruct (replay_converges p s0 hs Hs Hw Hp css2 H2) as (x2 & X2 & P2).
  rewrite E1 in X1. rewrite E2 in X2. inversion X1; inversion X2; subst.
  etransitivity; [exact P1|now symmetry].
Qed.

(** * unchanged targets are silent; changed ones are announced once *)

Lemma eff_diff_named (e1 e2 : eff) c :
  NoDup (keys e1) -> In c (eff_diff e1 e2) -> assoc (call_name c) e1 <> assoc (call_name c) e2.
Proof.
  intros H1. unfold TargetCfgModel.eff_diff. rewrite in_app_iff, !in_flat_map.
  intros [([k v] & Hin & Hc)|([k v] & Hin & Hc)]; cbn [fst snd] in Hc.
  - destruct (assoc k e2) as [e'|] eqn:E2.
    + destruct (entry_eqb v e') eqn:Ee; [destruct Hc|]. destruct Hc as [<-|[]]. cbn.
      rewrite (In_assoc _ _ _ H1 Hin), E2. intros E. inversion E; subst.
      assert (entry_eqb e' e' = true) by now apply entry_eqb_spec. congruence.
    + destruct Hc as [<-|[]]. cbn. rewrite (In_assoc _ _ _ H1 Hin), E2. discriminate.
  - destruct (assoc k e1) eqn:E1; [destruct Hc|]. destruct Hc as [<-|[]]. cbn.
    rewrite E1. intros E. symmetry in E. apply assoc_None in E. apply E.
    change k with (fst (k, v)). now apply in_map.
Qed.

(** [unchanged_silent]: a target whose settings and request content are the
    same before and after an accepted load gets no handler call. *)
Lemma unchanged_silent p (s : state) (cf : config) k :
  state_ok s -> wf_config cf ->
  load_err R_eqb O_eqb R_empty O_empty p s (Some cf) = None ->
  assoc k (effective s) = assoc k (effective (Some cf)) ->
  ~ In k (map call_name (load_calls R_eqb O_eqb R_empty O_empty p s (Some cf))).
Proof.
  intros Hs Hw Herr Heq Hin. rewrite load_calls_exact in Hin by assumption.
  apply in_map_iff in Hin as (c & <- & Hc).
  apply eff_diff_named in Hc; [contradiction|]. now apply NoDup_keys_effective.
Qed.

(** conversely a target that is new, gone or different gets exactly one call,
    of the right kind and with the new content *)
Lemma changed_announced_once p (s : state) (cf : config) :
  state_ok s -> wf_config cf ->
  load_err R_eqb O_eqb R_empty O_empty p s (Some cf) = None ->
  let cs := load_calls R_eqb O_eqb R_empty O_empty p s (Some cf) in
  NoDup (map call_name cs)
  /\ Forall (call_ok (effective s) (effective (Some cf))) cs
  /\ forall k, assoc k (effective s) <> assoc k (effective (Some cf)) -> In k (map call_name cs).
Proof.
  intros Hs Hw Herr cs. subst cs. rewrite load_calls_exact by assumption.
  destruct (eff_diff_ok (effective s) (effective (Some cf))) as (H1 & H2 & H3).
  - now apply NoDup_keys_effective.
  - rewrite keys_effective. apply Hw.
  - repeat split; auto. intros k Hne.
    destruct (in_dec string_dec k (map call_name (eff_diff (effective s) (effective (Some cf))))); auto.
    exfalso. apply Hne. now apply H3.
Qed.

(** * monotonic revisions *)

(** revision of the current configuration; [None] before the first load *)
Definition rev_of (s : state) : option Z :=
  match s with Some c => Some (c_revision c) | None => None end.

(** [a] is no later than [b]: no configuration yet, or a revision not above *)
Definition rev_le (a b : option Z) : Prop :=
  match a, b with
  | None, _ => True
  | Some _, None => False
  | Some x, Some y => x <= y
  end.

Lemma rev_le_refl a : rev_le a a.
Proof. destruct a; cbn; [lia|exact I]. Qed.

Lemma rev_le_trans a b c : rev_le a b -> rev_le b c -> rev_le a c.
Proof. destruct a, b, c; cbn; try tauto; lia. Qed.

Lemma store_gen_revision p (cf : config) :
  c_revision (store_gen p cf) = c_revision cf.
Proof. destruct p; reflexivity. Qed.

(** one load: the revision never goes down, the configuration never goes back
    to nil, and an applied load on an existing configuration strictly raises
    the revision *)
Lemma load_monotonic p (s : state) (arg : option config) :
  let s' := load_state R_eqb O_eqb R_empty O_empty p s arg in
  rev_le (rev_of s) (rev_of s')
  /\ (load_err R_eqb O_eqb R_empty O_empty p s arg = None ->
      forall cur, s = Some cur ->
      exists cf, arg = Some cf /\ s' = Some (store_gen p cf)
                 /\ c_revision cur < c_revision cf).
Proof.
  unfold load_state, load_err, TargetCfgModel.load_gen.
  destruct arg as [cf|]; cbn [fst snd]; [|split; [apply rev_le_refl|discriminate]].
  destruct (validate_gen p cf); cbn [fst snd]; [split; [apply rev_le_refl|discriminate]|].
  destruct (check_revision s cf) eqn:Ec; cbn [fst snd]; [|split; [apply rev_le_refl|discriminate]].
  apply check_revision_spec in Ec. split.
  - destruct s as [cur|]; cbn in *; [|exact I]. rewrite store_gen_revision. lia.
  - intros _ cur ->. exists cf. cbn in Ec. auto.
Qed.

(** every history of loads: revisions are monotonic *)
Lemma history_monotonic p (hs : list hop) : forall (s : state),
  forallb is_load hs = true ->
  rev_le (rev_of s) (rev_of (fst (run_gen p s hs))).
Proof.
  induction hs as [|h hs IH]; intros s Hl; [apply rev_le_refl|].
  cbn in Hl. apply andb_true_iff in Hl as [Hh Hl]. cbn [run_gen fst].
  eapply rev_le_trans; [|apply IH; assumption].
  destruct h as [arg|c']; [|discriminate]. cbn [hop_state].
  apply (load_monotonic p s arg).
Qed.

(** * the announcements do not depend on Go's map iteration order

    The model iterates its association lists front to back; the Go code ranges
    over maps in random order.  Re-ordering any of the four maps involved only
    permutes the calls (this is what licenses comparing the calls of one load
    as a multiset in the correspondence run). *)

Definition config_perm (c c' : config) : Prop :=
  Permutation (c_request c) (c_request c') /\ Permutation (c_target c) (c_target c').

Definition state_perm (s s' : state) : Prop :=
  match s, s' with
  | None, None => True
  | Some c, Some c' => config_perm c c'
  | _, _ => False
  end.

Lemma wf_config_perm (c c' : config) : wf_config c -> config_perm c c' -> wf_config c'.
Proof.
  intros [H1 H2] [P1 P2]. split.
  - eapply Permutation_NoDup; [apply Permutation_map; exact P1|assumption].
  - eapply Permutation_NoDup; [apply Permutation_map; exact P2|assumption].
Qed.

Lemma valid_p_perm p (c c' : config) : wf_config c -> config_perm c c' -> valid_p p c -> valid_p p c'.
Proof.
  intros Hw [P1 P2] Hv. apply validate_spec. apply validate_spec in Hv.
  now apply (validate_order_independent p c c' Hw P1 P2).
Qed.

Lemma effective_perm (c c' : config) :
  wf_config c -> config_perm c c' -> Permutation (effective (Some c)) (effective (Some c')).
Proof.
  intros [H1 _] [P1 P2]. cbn [effective].
  rewrite (map_ext _ (fun kt : string * tval =>
                        (fst kt, (snd kt, map_get (get_request_name (snd kt)) (c_request c'))))).
  - now apply Permutation_map.
  - intros [k t]. cbn [fst snd]. unfold map_get. now rewrite (assoc_perm _ _ _ H1 P1).
Qed.

Lemma eff_diff_perm (e1 e1' e2 e2' : eff) :
  NoDup (keys e1) -> NoDup (keys e2) -> Permutation e1 e1' -> Permutation e2 e2' ->
  Permutation (eff_diff e1 e2) (eff_diff e1' e2').
Proof.
  intros H1 H2 P1 P2. unfold TargetCfgModel.eff_diff. apply Permutation_app.
  - rewrite (flat_map_ext_In _ (fun ke : string * entry =>
              match assoc (fst ke) e2' with
              | None => [HDelete (fst ke)]
              | Some e' => if entry_eqb (snd ke) e' then [] else [HUpdate (fst ke) (snd e') (fst e')]
              end)).
    + now apply Permutation_flat_map.
    + intros ke _. now rewrite (assoc_perm _ _ _ H2 P2).
  - rewrite (flat_map_ext_In _ (fun ke : string * entry =>
              match assoc (fst ke) e1' with
              | None => [HAdd (fst ke) (snd (snd ke)) (fst (snd ke))]
              | Some _ => []
              end)).
    + now apply Permutation_flat_map.
    + intros ke _. now rewrite (assoc_perm _ _ _ H1 P1).
Qed.

Lemma handle_diffs_order_independent (s s' : state) (cf cf' : config) :
  state_ok s -> valid_p false cf -> wf_config cf ->
  state_perm s s' -> config_perm cf cf' ->
  Permutation (handle_diffs s cf) (handle_diffs s' cf').
Proof.
  intros Hs Hv Hw Ps Pc.
  assert (Hs' : state_ok s').
  { destruct s as [c|], s' as [c'|]; cbn in Ps; try contradiction; try exact I.
    destruct Hs as [Hcw Hcv]. split; [apply (wf_config_perm c c')|apply (valid_p_perm false c c')]; auto. }
  rewrite (handle_diffs_spec s cf), (handle_diffs_spec s' cf'); auto.
  - apply eff_diff_perm.
    + now apply NoDup_keys_effective.
    + rewrite keys_effective. apply Hw.
    + destruct s as [c|], s' as [c'|]; cbn in Ps; try contradiction; try (cbn; constructor).
      apply effective_perm; [apply Hs|assumption].
    + now apply effective_perm.
  - apply (valid_p_perm false cf cf'); auto.
  - apply (wf_config_perm cf cf'); auto.
Qed.

End Proofs.

(** * Concrete instances: non-vacuity examples and the refutation for the
      unpatched code *)

Module Witness.
Definition scfg := config string string string.
Definition shop := hop string string string.

Definition tA1 := mkTarget ["a:1"] "r1" "".
Definition tA2 := mkTarget ["a:2"] "r1" "".
Definition tB1 := mkTarget ["b:1"] "r1" "".

(** rev 1: t1 -> r1 *)
Definition cA : scfg := mkConfig 1 [("r1", Some "q")] [("t1", Some tA1)] "".
(** rev 2: the caller has added t2 to the same message *)
Definition cA' : scfg := mkConfig 2 [("r1", Some "q")] [("t1", Some tA1); ("t2", Some tB1)] "".
(** rev 3: request r1 edited (t1, t2 untouched), t3 added *)
Definition cB : scfg :=
  mkConfig 3 [("r1", Some "q2")] [("t1", Some tA1); ("t2", Some tB1); ("t3", Some tA2)] "".
(** rev 4 but invalid: t1 names a request that is gone *)
Definition cBad : scfg := mkConfig 4 [] [("t1", Some tA1)] "".
(** rev 5: t2 removed, request renamed r1 -> r9 and t1, t3 re-pointed *)
Definition cC : scfg :=
  mkConfig 5 [("r9", Some "q2")]
           [("t1", Some (mkTarget ["a:1"] "r9" "")); ("t3", Some (mkTarget ["a:2"] "r9" ""))] "".

Definition srun := @run_gen string string string String.eqb String.eqb "" "".

Ltac nodup := repeat constructor; cbn; intuition discriminate.

Lemma wf_cA : wf_config cA. Proof. split; nodup. Qed.
Lemma wf_cA' : wf_config cA'. Proof. split; nodup. Qed.
Lemma wf_cB : wf_config cB. Proof. split; nodup. Qed.
Lemma wf_cBad : wf_config cBad. Proof. split; nodup. Qed.
Lemma wf_cC : wf_config cC. Proof. split; nodup. Qed.

(** a history with an invalid load between good ones, a stale revision, a
    request edit under unchanged targets, and a rename + re-point *)
Definition good_history : list shop :=
  [HLoad (Some cA); HLoad (Some cA'); HLoad (Some cB); HLoad (Some cBad); HLoad (Some cA);
   HLoad None; HLoad (Some cC)].

Example good_history_hyps :
  state_ok (None : state string string string)
  /\ Forall hop_wf good_history
  /\ forallb is_load good_history = true.
Proof.
  split; [exact I|]. split; [|reflexivity].
  repeat constructor; cbn; try exact I; try nodup.
Qed.

(** what the model announces along it: the request edit reaches the two
    unchanged targets as Updates, the rejected loads announce nothing *)
Example good_history_calls :
  snd (srun false None good_history) =
  [ [HAdd "t1" (Some "q") (Some tA1)];
    [HAdd "t2" (Some "q") (Some tB1)];
    [HUpdate "t1" (Some "q2") (Some tA1); HUpdate "t2" (Some "q2") (Some tB1);
     HAdd "t3" (Some "q2") (Some tA2)];
    []; []; [];
    [HUpdate "t1" (Some "q2") (Some (mkTarget ["a:1"] "r9" "")); HDelete "t2";
     HUpdate "t3" (Some "q2") (Some (mkTarget ["a:2"] "r9" ""))] ]
  /\ fst (srun false None good_history) = Some cC.
Proof. split; vm_compute; reflexivity. Qed.

Example gate_example :
  valid_p true cB /\ newer (Some cA') cB /\ ~ valid_p false cBad /\ ~ newer (Some cB) cA.
Proof.
  split; [|split; [|split]].
  - apply (validate_spec true cB). reflexivity.
  - cbn. lia.
  - intros H. apply (validate_spec false cBad) in H. discriminate.
  - cbn. lia.
Qed.

Example unchanged_silent_example :
  load_err String.eqb String.eqb "" "" false (Some cA) (Some cA') = None
  /\ assoc "t1" (effective (Some cA)) = assoc "t1" (effective (Some cA'))
  /\ assoc "t2" (effective (Some cA)) <> assoc "t2" (effective (Some cA')).
Proof. split; [|split]; vm_compute; congruence. Qed.

(** the caller edits the message it loaded and loads it again *)
Definition alias_history : list shop := [HLoad (Some cA); HMutate cA'; HLoad (Some cA')].

(** [replay_converges] and the gate are false of target.go as it is now once
    the caller may edit a loaded message in place: the edit becomes the
    current configuration without any announcement, and the re-load -- valid,
    revision 2 after the last accepted revision 1 -- is refused. *)
Lemma replay_converges_unpatched_refuted :
  exists hs : list shop,
    Forall hop_wf hs
    /\ (let r := srun false None hs in
        exists e, replay (List.concat (snd r)) (effective (None : state string string string)) = Some e
                  /\ ~ Permutation e (effective (fst r)))
    /\ load_err String.eqb String.eqb "" "" false
         (fst (srun false None [HLoad (Some cA); HMutate cA'])) (Some cA') <> None
    /\ valid_p true cA' /\ newer (Some cA) cA'.
Proof.
  exists alias_history. split; [|split; [|split; [|split]]].
  - repeat constructor; cbn; nodup.
  - eexists. split; [vm_compute; reflexivity|].
    intros Hp. apply Permutation_length in Hp. vm_compute in Hp. discriminate.
  - vm_compute. discriminate.
  - apply (validate_spec true cA'). reflexivity.
  - cbn. lia.
Qed.

(** with the patch the same history converges (instance of [replay_converges]) *)
Example alias_history_patched :
  let r := srun true None alias_history in
  fst r = Some cA' /\ snd r = [[HAdd "t1" (Some "q") (Some tA1)]; []; [HAdd "t2" (Some "q") (Some tB1)]].
Proof. split; vm_compute; reflexivity. Qed.

End Witness.

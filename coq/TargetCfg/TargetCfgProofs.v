(** Proofs about the model of target/target.go (TargetCfgModel.v). *)
From Gnmi Require Import Base.Prelude TargetCfg.TargetCfgModel.
Open Scope Z_scope.

Section Proofs.
Context {R O X : Type}.
Variable R_eqb : R -> R -> bool.
Variable O_eqb : O -> O -> bool.

Notation config := (config R O X).
Notation state := (state R O X).
Notation load := (@load R O X R_eqb O_eqb).

Lemma load_rejected_unchanged (s : state) (arg : option config) :
  snd (fst (load s arg)) <> None ->
  fst (fst (load s arg)) = s /\ snd (load s arg) = [].
Proof.
  unfold TargetCfgModel.load. destruct arg as [cf|]; cbn; [|auto].
  destruct (validate cf); cbn; [auto|].
  destruct (check_revision s cf); cbn; [congruence|auto].
Qed.

End Proofs.

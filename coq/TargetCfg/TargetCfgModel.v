(** Executable model of target/target.go: Validate, Config.Load, checkRevision,
    handleDiffs, NewConfig / NewConfigWithBase, Current.

    A [pb.Configuration] is a revision, a request map, a target map and the
    remaining fields (instance id, meta).  Message contents that the Go code
    only ever compares with [proto.Equal] are abstract types with a boolean
    equality handed in as a section variable:
      [R]  the content of one [gnmi.SubscribeRequest],
      [O]  what a [pb.Target] holds besides addresses and request name
           (credentials, meta, dialer),
      [X]  what a [pb.Configuration] holds besides revision, requests and
           targets (never inspected by the Go code).
    Pointers that may be nil are [option]: a map value [*pb.Target] /
    [*gpb.SubscribeRequest] may be a nil pointer, [Config.configuration] is nil
    before the first accepted load.  Go maps are association lists with
    distinct keys; the model iterates them front to back, the Go code in random
    order -- every statement about the order of handler calls is therefore made
    up to [Permutation] (TargetCfgProofs.v).

    Only definitions in this file. *)
From Gnmi Require Export Base.Prelude.
Open Scope Z_scope.

Section Model.
Context {R O X : Type}.
Variable R_eqb : R -> R -> bool.
Variable O_eqb : O -> O -> bool.
(** the empty SubscribeRequest message and the remaining fields of an empty
    Target message (what proto.Clone makes of a nil map value, see [current]) *)
Variable R_empty : R.
Variable O_empty : O.

(** pb.Target *)
Record target := mkTarget {
  t_addresses : list string;
  t_request : string;
  t_other : O
}.

Definition tval := option target.    (* *pb.Target, None = nil pointer *)
Definition rval := option R.         (* *gpb.SubscribeRequest, None = nil pointer *)

(** pb.Configuration *)
Record config := mkConfig {
  c_revision : Z;
  c_request : list (string * rval);
  c_target : list (string * tval);
  c_other : X
}.

(** Config.configuration *)
Definition state := option config.

(** ** proto.Equal on the messages the code compares

    proto.Equal(x, y) for typed pointers: two nil pointers are equal, a nil
    pointer and a message are not (an invalid message is only equal to another
    invalid message), two messages are compared field by field; repeated
    string fields as lists. *)

Fixpoint strs_eqb (a b : list string) : bool :=
  match a, b with
  | [], [] => true
  | x :: a', y :: b' => String.eqb x y && strs_eqb a' b'
  | _, _ => false
  end.

Definition target_eqb (a b : target) : bool :=
  strs_eqb (t_addresses a) (t_addresses b)
  && String.eqb (t_request a) (t_request b)
  && O_eqb (t_other a) (t_other b).

Definition tval_eqb (a b : tval) : bool :=
  match a, b with
  | None, None => true
  | Some x, Some y => target_eqb x y
  | _, _ => false
  end.

Definition rval_eqb (a b : rval) : bool :=
  match a, b with
  | None, None => true
  | Some x, Some y => R_eqb x y
  | _, _ => false
  end.

(** ** nil-safe getters and map indexing *)

(** t.GetRequest() *)
Definition get_request_name (t : tval) : string :=
  match t with Some t => t_request t | None => "" end.

(** c.configuration.GetRequest() / GetTarget(): nil map for a nil receiver *)
Definition get_requests (s : state) : list (string * rval) :=
  match s with Some c => c_request c | None => [] end.

Definition get_targets (s : state) : list (string * tval) :=
  match s with Some c => c_target c | None => [] end.

(** m[k] on a pointer-valued map: nil when the key is absent *)
Definition map_get {A : Type} (k : string) (m : list (string * option A)) : option A :=
  match assoc k m with Some v => v | None => None end.

(** ** The defect C17_1 (fixed in /repo by b7e5099)

    [true] = target.go as it is now (Load and NewConfigWithBase store
    proto.Clone(config); Validate treats a nil request pointer as a missing
    request).  [false] = the code before that commit, kept because the
    refutation [replay_converges_unpatched_refuted] is a regression witness of
    the unpatched variant.  The three places the flag reaches are the [_gen]
    functions below, each marked "C17_1".  Every theorem is stated for an
    arbitrary value of the flag (or says which value it needs). *)
Definition patched_C17_1 : bool := true.

(** ** Validate

    Error classes: 1 empty target name, 2 nil target message, 3 no address,
    4 empty request name, 5 request name not a key of the request map.  The
    first offending target in iteration order decides the class; whether an
    error is returned at all does not depend on the order
    (TargetCfgProofs.validate_spec). *)
Fixpoint validate_targets (p : bool) (reqs : list (string * rval)) (ts : list (string * tval))
  : option N :=
  match ts with
  | [] => None
  | nt :: ts' =>
      if String.eqb (fst nt) "" then Some 1%N
      else match snd nt with
           | None => Some 2%N
           | Some t =>
               match t_addresses t with
               | [] => Some 3%N
               | _ :: _ =>
                   if String.eqb (t_request t) "" then Some 4%N
                   else match assoc (t_request t) reqs with
                        | None => Some 5%N
                        | Some None =>
                            (* C17_1: before b7e5099 [_, ok := config.Request[..]; !ok]
                               let a nil request pointer through ([p = false]);
                               now [config.Request[..] == nil] is an error *)
                            if p then Some 5%N else validate_targets p reqs ts'
                        | Some (Some _) => validate_targets p reqs ts'
                        end
               end
           end
  end.

Definition validate_gen (p : bool) (c : config) : option N :=
  validate_targets p (c_request c) (c_target c).

Definition validate : config -> option N := validate_gen patched_C17_1.

(** ** checkRevision: [true] = no error *)
Definition check_revision (s : state) (cf : config) : bool :=
  match s with
  | None => true
  | Some cur => negb (c_revision cf <=? c_revision cur)
  end.

(** ** Handler invocations: Update{Name, Request, Target} / name *)
Inductive call :=
| HAdd (name : string) (r : rval) (t : tval)
| HUpdate (name : string) (r : rval) (t : tval)
| HDelete (name : string).

Definition call_name (c : call) : string :=
  match c with HAdd n _ _ | HUpdate n _ _ | HDelete n => n end.

(** ** handleDiffs *)

(** first loop: [requestChanged[k] = true] for every key [k] of the *new*
    request map that is also a key of the current one with a different
    (proto.Equal) value. *)
Definition request_changed (old_reqs new_reqs : list (string * rval)) : list string :=
  flat_map (fun kn =>
              match assoc (fst kn) old_reqs with
              | Some old => if negb (rval_eqb old (snd kn)) then [fst kn] else []
              | None => []
              end) new_reqs.

(** requestChanged[k] (false for an absent key) *)
Definition is_changed (rc : list string) (k : string) : bool :=
  existsb (String.eqb k) rc.

(** one iteration of [for k, t := range c.configuration.GetTarget()]; the
    accumulator is the (shrinking) copy [newTargets] and the calls made so far *)
Definition diff_old (rc : list string) (new_reqs : list (string * rval))
    (acc : list (string * tval) * list call) (kt : string * tval)
  : list (string * tval) * list call :=
  let k := fst kt in
  let t := snd kt in
  match map_get k (fst acc) with
  | None =>                                       (* case nt == nil *)
      (fst acc, snd acc ++ [HDelete k])
  | Some nt =>
      if negb (is_changed rc (get_request_name t)) && tval_eqb t (Some nt)
      then (adel k (fst acc), snd acc)            (* unchanged: delete(newTargets, k) *)
      else (adel k (fst acc),
            snd acc ++ [HUpdate k (map_get (t_request nt) new_reqs) (Some nt)])
  end.

(** last loop: anything left in newTargets is announced as new *)
Definition add_left (new_reqs : list (string * rval)) (kt : string * tval) : call :=
  HAdd (fst kt) (map_get (get_request_name (snd kt)) new_reqs) (snd kt).

Definition handle_diffs (s : state) (cf : config) : list call :=
  let rc := request_changed (get_requests s) (c_request cf) in
  let r := fold_left (diff_old rc (c_request cf)) (get_targets s) (c_target cf, []) in
  snd r ++ map (add_left (c_request cf)) (fst r).

(** Current: proto.Clone of the state.  Clone copies a map entry whose value is a
    nil message pointer as an *empty* message (mergeMap allocates a new message
    and merges the invalid one into it); a nil configuration stays nil. *)
Definition clone_config (c : config) : config :=
  mkConfig (c_revision c)
           (map (fun kr => (fst kr, match snd kr with Some r => Some r | None => Some R_empty end))
                (c_request c))
           (map (fun kt => (fst kt, match snd kt with
                                    | Some t => Some t
                                    | None => Some (mkTarget [] "" O_empty)
                                    end))
                (c_target c))
           (c_other c).

Definition current (s : state) : option config :=
  match s with Some c => Some (clone_config c) | None => None end.

(** what Load / NewConfigWithBase keep of the message they are handed *)
Definition store_gen (p : bool) (cf : config) : config :=
  (* C17_1: before b7e5099 [c.configuration = config], the caller's own message
     ([p = false]); now [proto.Clone(config)] *)
  if p then clone_config cf else cf.

(** ** Load

    Result: new state, error class ([None] = nil error; 1 nil configuration,
    2 invalid, 3 revision not strictly greater) and the handler calls made. *)
Definition load_gen (p : bool) (s : state) (arg : option config)
  : state * option N * list call :=
  match arg with
  | None => (s, Some 1%N, [])
  | Some cf =>
      match validate_gen p cf with
      | Some _ => (s, Some 2%N, [])
      | None =>
          if check_revision s cf
          then (Some (store_gen p cf), None, handle_diffs s cf)
          else (s, Some 3%N, [])
      end
  end.

Definition load : state -> option config -> state * option N * list call :=
  load_gen patched_C17_1.

(** NewConfig: nil configuration.  NewConfigWithBase: the base is validated
    (when non-nil) and becomes the initial state without any handler call. *)
Definition new_config : state := None.

Definition new_config_with_base_gen (p : bool) (base : option config) : outcome state :=
  match base with
  | None => Ok None
  | Some c => match validate_gen p c with Some _ => Err 2%N | None => Ok (Some (store_gen p c)) end
  end.

Definition new_config_with_base : option config -> outcome state :=
  new_config_with_base_gen patched_C17_1.

(** ** the caller edits, in place, the message it handed to the last accepted
    Load (or to NewConfigWithBase)

    While the configuration was stored by reference (before b7e5099) such an
    edit was an edit of [Config.configuration] itself: no validation, no
    revision gate, no handler call.  [c'] is the content of the message after
    the edit. *)
Definition mutate_gen (p : bool) (s : state) (c' : config) : state :=
  (* C17_1: before b7e5099 the stored message was the caller's ([p = false]);
     now the state is a private copy and the edit does not reach it *)
  if p then s
  else match s with Some _ => Some c' | None => None end.

Definition mutate : state -> config -> state := mutate_gen patched_C17_1.

(** ** histories *)

Definition load_state (p : bool) (s : state) (arg : option config) : state :=
  fst (fst (load_gen p s arg)).
Definition load_calls (p : bool) (s : state) (arg : option config) : list call :=
  snd (load_gen p s arg).
Definition load_err (p : bool) (s : state) (arg : option config) : option N :=
  snd (fst (load_gen p s arg)).

(** what a client of one [Config] can do: load, or edit the message it loaded last *)
Inductive hop :=
| HLoad (arg : option config)
| HMutate (c' : config).

Definition hop_state (p : bool) (s : state) (h : hop) : state :=
  match h with
  | HLoad a => load_state p s a
  | HMutate c' => mutate_gen p s c'
  end.

Definition hop_calls (p : bool) (s : state) (h : hop) : list call :=
  match h with
  | HLoad a => load_calls p s a
  | HMutate _ => []
  end.

(** state after a history, and the handler calls of each step *)
Fixpoint run_gen (p : bool) (s : state) (hs : list hop) : state * list (list call) :=
  match hs with
  | [] => (s, [])
  | h :: hs' =>
      let r := run_gen p (hop_state p s h) hs' in
      (fst r, hop_calls p s h :: snd r)
  end.

Definition is_load (h : hop) : bool := match h with HLoad _ => true | HMutate _ => false end.

(** ** what a subscriber to the handler knows

    A consumer of Add/Update/Delete keeps, per target name, the target message
    and the request message it was last handed.  [replay] is strict: Add of a
    name already held, Update or Delete of a name not held is a protocol
    error ([None]). *)
Definition entry := (tval * rval)%type.
Definition eff := list (string * entry).

Definition replay_call (e : eff) (c : call) : option eff :=
  match c with
  | HAdd n r t =>
      match assoc n e with None => Some (aset n (t, r) e) | Some _ => None end
  | HUpdate n r t =>
      match assoc n e with Some _ => Some (aset n (t, r) e) | None => None end
  | HDelete n =>
      match assoc n e with Some _ => Some (adel n e) | None => None end
  end.

Fixpoint replay (cs : list call) (e : eff) : option eff :=
  match cs with
  | [] => Some e
  | c :: cs' => match replay_call e c with Some e' => replay cs' e' | None => None end
  end.

(** the effective configuration: target name |-> (target settings, content of
    the request it names) *)
Definition effective (s : state) : eff :=
  match s with
  | None => []
  | Some c =>
      map (fun kt => (fst kt, (snd kt, map_get (get_request_name (snd kt)) (c_request c))))
          (c_target c)
  end.

(** ** the exact difference between two effective configurations
    (specification of what one accepted load must announce; never used by
    [handle_diffs]) *)
Definition entry_eqb (a b : entry) : bool :=
  tval_eqb (fst a) (fst b) && rval_eqb (snd a) (snd b).

Definition eff_diff (e1 e2 : eff) : list call :=
  flat_map (fun ke =>
              match assoc (fst ke) e2 with
              | None => [HDelete (fst ke)]
              | Some e' =>
                  if entry_eqb (snd ke) e' then []
                  else [HUpdate (fst ke) (snd e') (fst e')]
              end) e1
  ++ flat_map (fun ke =>
                 match assoc (fst ke) e1 with
                 | None => [HAdd (fst ke) (snd (snd ke)) (fst (snd ke))]
                 | Some _ => []
                 end) e2.

(** ** concurrent Loads on one Config

    [Load] = Validate (no shared state) ; c.mu.Lock ; checkRevision ;
    handleDiffs -- one handler call at a time, the handlers run with c.mu held
    -- ; store ; Unlock.  A labelled transition system over thread ids: thread
    [t] loads [nth t args]; the atomic steps are the points at which another
    goroutine can observe or interfere (taking the mutex, each handler call,
    the store + release).  A thread whose step is not enabled (the mutex is
    held by another) does not move.

    [g_order] (threads in the order in which their Load returned) and
    [g_emitted] (calls made so far by the holder of the mutex) are ghost
    fields: no step reads them. *)
Inductive pc :=
| PStart
| PWait (cf : config)                      (* validated, about to take c.mu *)
| PCall (cf : config) (rem : list call)    (* holds c.mu, handler calls still to make *)
| PDone (err : bool).

Record gstate := mkG {
  g_cfg : state;
  g_lock : option nat;
  g_pcs : list pc;
  g_trace : list (nat * call);
  g_order : list nat;
  g_emitted : list call
}.

Fixpoint upd {A : Type} (l : list A) (n : nat) (x : A) : list A :=
  match l, n with
  | [], _ => []
  | _ :: l', 0%nat => x :: l'
  | y :: l', S n' => y :: upd l' n' x
  end.

Definition finish (g : gstate) (t : nat) (s' : state) (err : bool) : gstate :=
  mkG s' None (upd (g_pcs g) t (PDone err)) (g_trace g) (g_order g ++ [t]) [].

Definition lstep (p : bool) (args : list (option config)) (g : gstate) (t : nat)
  : option gstate :=
  match nth_error (g_pcs g) t with
  | Some PStart =>
      match nth_error args t with
      | Some (Some cf) =>
          match validate_gen p cf with
          | Some _ =>       (* returns before touching c.mu *)
              Some (mkG (g_cfg g) (g_lock g) (upd (g_pcs g) t (PDone true)) (g_trace g)
                        (g_order g ++ [t]) (g_emitted g))
          | None =>
              Some (mkG (g_cfg g) (g_lock g) (upd (g_pcs g) t (PWait cf)) (g_trace g)
                        (g_order g) (g_emitted g))
          end
      | _ =>                (* Load(nil) *)
          Some (mkG (g_cfg g) (g_lock g) (upd (g_pcs g) t (PDone true)) (g_trace g)
                    (g_order g ++ [t]) (g_emitted g))
      end
  | Some (PWait cf) =>
      match g_lock g with
      | Some _ => None      (* blocked in c.mu.Lock() *)
      | None =>
          if check_revision (g_cfg g) cf
          then Some (mkG (g_cfg g) (Some t)
                         (upd (g_pcs g) t (PCall cf (handle_diffs (g_cfg g) cf)))
                         (g_trace g) (g_order g) [])
          else Some (finish g t (g_cfg g) true)     (* lock; stale; unlock *)
      end
  | Some (PCall cf (c :: rem)) =>
      Some (mkG (g_cfg g) (g_lock g) (upd (g_pcs g) t (PCall cf rem))
                (g_trace g ++ [(t, c)]) (g_order g) (g_emitted g ++ [c]))
  | Some (PCall cf []) =>
      Some (finish g t (Some (store_gen p cf)) false)
  | _ => None
  end.

(** a schedule is the list of threads given a turn; a turn of a thread that
    cannot move is a stutter *)
Fixpoint lexec (p : bool) (args : list (option config)) (g : gstate) (sch : list nat) : gstate :=
  match sch with
  | [] => g
  | t :: sch' =>
      match lstep p args g t with
      | Some g' => lexec p args g' sch'
      | None => lexec p args g sch'
      end
  end.

Definition ginit (s0 : state) (n : nat) : gstate := mkG s0 None (repeat PStart n) [] [] [].

Definition is_done (x : pc) : bool := match x with PDone _ => true | _ => false end.
Definition all_done (g : gstate) : bool := forallb is_done (g_pcs g).

(** the loads of the threads in [order], one after the other, and their calls
    tagged with the thread *)
Definition arg_of (args : list (option config)) (t : nat) : option config :=
  match nth_error args t with Some a => a | None => None end.

Fixpoint seq_run (p : bool) (args : list (option config)) (s : state) (order : list nat)
  : state * list (nat * call) :=
  match order with
  | [] => (s, [])
  | t :: o =>
      let r := seq_run p args (load_state p s (arg_of args t)) o in
      (fst r, map (pair t) (load_calls p s (arg_of args t)) ++ snd r)
  end.

(** the schedule the harness forces on two threads: thread 0 runs until it is
    inside its first handler call (or has returned); then thread 1 runs as far
    as it can; then thread 0 finishes, then thread 1. *)
Fixpoint run_until (p : bool) (args : list (option config)) (stop : gstate -> bool)
    (fuel : nat) (g : gstate) (t : nat) : gstate :=
  match fuel with
  | 0%nat => g
  | S f =>
      if stop g then g
      else match lstep p args g t with
           | Some g' => run_until p args stop f g' t
           | None => g
           end
  end.

Definition pc_done (g : gstate) (t : nat) : bool :=
  match nth_error (g_pcs g) t with Some (PDone _) => true | _ => false end.
Definition pc_err (g : gstate) (t : nat) : bool :=
  match nth_error (g_pcs g) t with Some (PDone e) => e | _ => false end.

(** result: did thread 1 return while thread 0 was parked in a handler; final state *)
Definition par_run (p : bool) (s : state) (a b : option config) : bool * gstate :=
  let args := [a; b] in
  let fuel := 200%nat in
  let g1 := run_until p args (fun g => match g_trace g with [] => false | _ => true end) fuel
                      (ginit s 2) 0 in
  let parked := negb (pc_done g1 0) in
  let g2 := if parked then run_until p args (fun _ => false) fuel g1 1 else g1 in
  let early := parked && pc_done g2 1 in
  let g3 := run_until p args (fun _ => false) fuel g2 0 in
  let g4 := run_until p args (fun _ => false) fuel g3 1 in
  (early, g4).

End Model.

Arguments target : clear implicits.
Arguments tval : clear implicits.
Arguments rval : clear implicits.
Arguments config : clear implicits.
Arguments state : clear implicits.
Arguments call : clear implicits.
Arguments hop : clear implicits.
Arguments entry : clear implicits.
Arguments eff : clear implicits.
Arguments mkTarget {O}.
Arguments mkConfig {R O X}.
Arguments pc : clear implicits.
Arguments gstate : clear implicits.

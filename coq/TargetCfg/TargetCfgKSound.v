(** Soundness of the executable property checker K_P of TargetCfgCheck.v:
    when [kstep] raises no tag on an observed step, the observation satisfies
    the property's clauses as propositions (gate, state, exact announcements,
    replay), stated with the Prop-level notions of TargetCfgProofs.v. *)
From Gnmi Require Import Base.Prelude TargetCfg.TargetCfgModel TargetCfg.TargetCfgProofs
  TargetCfg.TargetCfgCheck.
Open Scope Z_scope.

(** ** the boolean comparisons decide equality / multiset equality *)

Lemma list_eqb_eq {A} (e : A -> A -> bool) :
  (forall x y, e x y = true -> x = y) -> forall a b, list_eqb e a b = true -> a = b.
Proof.
  intros He a. induction a as [|x a IH]; intros [|y b]; cbn; try congruence.
  rewrite andb_true_iff. intros [H1 H2]. f_equal; auto.
Qed.

Lemma remove1_perm {A} (e : A -> A -> bool) :
  (forall x y, e x y = true -> x = y) ->
  forall x l l', remove1 e x l = Some l' -> Permutation l (x :: l').
Proof.
  intros He x l. induction l as [|y l IH]; cbn; intros l'; [discriminate|].
  destruct (e x y) eqn:E.
  - intros H; inversion H; subst. apply He in E. subst. reflexivity.
  - destruct (remove1 e x l) as [r|]; [|discriminate]. intros H; inversion H; subst.
    rewrite perm_swap. constructor. now apply IH.
Qed.

Lemma mset_eqb_perm {A} (e : A -> A -> bool) :
  (forall x y, e x y = true -> x = y) ->
  forall a b, mset_eqb e a b = true -> Permutation a b.
Proof.
  intros He a. induction a as [|x a IH]; intros b; cbn.
  - destruct b; [constructor|discriminate].
  - destruct (remove1 e x b) as [b'|] eqn:E; [|discriminate].
    intros H. apply IH in H. apply (remove1_perm e He) in E.
    rewrite E. now constructor.
Qed.

Lemma s_tval_eqb_eq (a b : option tgt) : tv_eqb a b = true -> a = b.
Proof. apply (tval_eqb_spec String.eqb String.eqb_eq). Qed.

Lemma s_rval_eqb_eq (a b : option string) : rv_eqb a b = true -> a = b.
Proof. apply (rval_eqb_spec String.eqb String.eqb_eq). Qed.

Lemma call_eqb_eq (a b : ccall) : call_eqb a b = true -> a = b.
Proof.
  destruct a as [n r t|n r t|n], b as [n' r' t'|n' r' t'|n']; cbn; try discriminate;
    rewrite ?andb_true_iff, ?String.eqb_eq.
  - intros [[-> H1] H2]. apply s_rval_eqb_eq in H1. apply s_tval_eqb_eq in H2. congruence.
  - intros [[-> H1] H2]. apply s_rval_eqb_eq in H1. apply s_tval_eqb_eq in H2. congruence.
  - congruence.
Qed.

Lemma ebind_eqb_eq (a b : string * entry string string) : ebind_eqb a b = true -> a = b.
Proof.
  destruct a as [k v], b as [k' v']. unfold ebind_eqb, entry_eqb. cbn.
  rewrite andb_true_iff, String.eqb_eq. intros [-> H].
  apply (entry_eqb_spec String.eqb String.eqb String.eqb_eq String.eqb_eq) in H. congruence.
Qed.

Lemma rbind_eqb_eq (a b : string * option string) : rbind_eqb a b = true -> a = b.
Proof.
  destruct a, b. unfold rbind_eqb. cbn. rewrite andb_true_iff, String.eqb_eq.
  intros [-> H]. apply s_rval_eqb_eq in H. congruence.
Qed.

Lemma tbind_eqb_eq (a b : string * option tgt) : tbind_eqb a b = true -> a = b.
Proof.
  destruct a, b. unfold tbind_eqb. cbn. rewrite andb_true_iff, String.eqb_eq.
  intros [-> H]. apply s_tval_eqb_eq in H. congruence.
Qed.

(** two projected configurations are the same message: same scalar fields,
    same bindings in both maps *)
Definition cfg_equiv (a b : option cfg) : Prop :=
  match a, b with
  | None, None => True
  | Some x, Some y =>
      c_revision x = c_revision y /\ c_other x = c_other y
      /\ Permutation (c_request x) (c_request y) /\ Permutation (c_target x) (c_target y)
  | _, _ => False
  end.

Lemma ocfg_eqb_equiv a b : ocfg_eqb a b = true -> cfg_equiv a b.
Proof.
  destruct a as [x|], b as [y|]; cbn; try congruence; [|trivial].
  unfold cfg_eqb. rewrite !andb_true_iff, Z.eqb_eq, String.eqb_eq.
  intros [[[H1 H2] H3] H4]. repeat split; auto.
  - now apply (mset_eqb_perm rbind_eqb rbind_eqb_eq).
  - now apply (mset_eqb_perm tbind_eqb tbind_eqb_eq).
Qed.

(** ** the boolean validity / gate are the propositional ones *)

Lemma valid_b_spec p (c : cfg) : valid_b p c = true <-> valid_p p c.
Proof.
  unfold valid_b, valid_p. rewrite forallb_forall. split.
  - intros H k t Hin. specialize (H (k, t) Hin). cbn [fst snd] in H.
    apply andb_true_iff in H as [Hk H]. apply negb_true_iff in Hk.
    split; [intros ->; discriminate|].
    destruct t as [t0|]; [|discriminate]. exists t0. split; [reflexivity|].
    apply andb_true_iff in H as [H Hr]. apply andb_true_iff in H as [Ha Hn].
    apply negb_true_iff in Hn.
    split; [destruct (t_addresses t0); [discriminate|congruence]|].
    split; [intros E; rewrite E in Hn; discriminate|].
    destruct (assoc (t_request t0) (c_request c)) as [[r|]|] eqn:Ea.
    + exists (Some r). split; [reflexivity|discriminate].
    + exists None. split; [reflexivity|]. intros ->. discriminate Hr.
    + discriminate Hr.
  - intros H [k t] Hin. cbn [fst snd]. destruct (H k t Hin) as [Hk (t0 & -> & Ha & Hn & (v & Hv & Hp))].
    apply andb_true_iff. split.
    { apply negb_true_iff. destruct (String.eqb_spec k ""); congruence. }
    apply andb_true_iff. split; [apply andb_true_iff; split|].
    + destruct (t_addresses t0); [congruence|reflexivity].
    + apply negb_true_iff. destruct (String.eqb_spec (t_request t0) ""); congruence.
    + unfold TargetCfgModel.rval in *. rewrite Hv. destruct v; [reflexivity|].
      destruct p; [now specialize (Hp eq_refl)|reflexivity].
Qed.

Lemma newer_spec (st : option cfg) (c : cfg) : TargetCfgCheck.newer st c = true <-> TargetCfgProofs.newer st c.
Proof. destruct st; cbn; [apply Z.ltb_lt|tauto]. Qed.

Lemma tagif_nil b t : tagif b t = [] -> b = true.
Proof. destruct b; cbn; [reflexivity|discriminate]. Qed.

Lemma admissible_true (st arg : option cfg) err :
  admissible st arg err = true ->
  exists cf, arg = Some cf /\ valid_p false cf /\ TargetCfgProofs.newer st cf.
Proof.
  unfold admissible, must_apply, may_apply. destruct arg as [cf|]; [|discriminate].
  intros Ha. exists cf. split; [reflexivity|].
  destruct (valid_b true cf && TargetCfgCheck.newer st cf) eqn:E1.
  - apply andb_true_iff in E1 as [V N]. apply valid_b_spec in V. apply newer_spec in N.
    split; [now apply (valid_p_weaken true)|assumption].
  - destruct (valid_b false cf && TargetCfgCheck.newer st cf) eqn:E2; [|discriminate].
    apply andb_true_iff in E2 as [V N]. apply valid_b_spec in V. apply newer_spec in N. auto.
Qed.

Lemma admissible_false (st arg : option cfg) err :
  admissible st arg err = false ->
  ~ (exists cf, arg = Some cf /\ valid_p true cf /\ TargetCfgProofs.newer st cf).
Proof.
  unfold admissible, must_apply. intros Ha (cf & -> & V & N).
  apply valid_b_spec in V. apply newer_spec in N. rewrite V, N in Ha. discriminate.
Qed.

(** ** soundness of one observed Load step

    [st] is the last configuration the specification admitted, [e0] the result
    of replaying every handler call observed so far. *)
Theorem kstep_load_sound (st : option cfg) (e0 : ceff) (arg : option cfg)
    (err : bool) (cs : list ccall) (cur : option cfg) st' rep' :
  kstep st (Some e0) (OLoad arg) (RLoad err cs cur) = ([], st', rep') ->
  (* gate: accepted only if valid and newer; refused only if not (strictly valid and newer) *)
  (err = false ->
     exists cf, arg = Some cf /\ valid_p false cf /\ TargetCfgProofs.newer st cf /\ st' = arg)
  /\ (err = true ->
        st' = st /\ cs = []
        /\ ~ (exists cf, arg = Some cf /\ valid_p true cf /\ TargetCfgProofs.newer st cf))
  (* state: Current() shows the admitted configuration *)
  /\ cfg_equiv cur (shown st')
  (* announcements: exactly the difference of the effective configurations *)
  /\ Permutation cs (if err then [] else eff_diff (eff_of st) (eff_of arg))
  (* replay: no protocol error, and the effective admitted configuration results *)
  /\ exists e, replay cs e0 = Some e /\ rep' = Some e /\ Permutation e (eff_of st').
Proof.
  unfold kstep, kstep_load. intros H. inversion H as [[Ht Hst Hrep]]. clear H.
  apply app_eq_nil in Ht as [T2 Ht]. apply app_eq_nil in Ht as [T3 Ht]. apply app_eq_nil in Ht as [T4 T5].
  apply tagif_nil in T2, T3, T4, T5.
  pose proof (admissible_true st arg err) as Hgate1.
  pose proof (admissible_false st arg err) as Hgate2.
  remember (admissible st arg err) as adm eqn:Eadm. clear Eadm.
  assert (Herr : err = negb adm) by (now apply Bool.eqb_prop).
  split; [|split; [|split; [|split]]].
  - intros ->. destruct adm; [|discriminate]. destruct (Hgate1 eq_refl) as (cf & E & V & N).
    exists cf. split; [assumption|split; [assumption|split; [assumption|reflexivity]]].
  - intros ->. destruct adm; [discriminate|]. split; [reflexivity|]. split; [|now apply Hgate2].
    apply (mset_eqb_perm call_eqb call_eqb_eq) in T4. apply Permutation_sym in T4. now apply Permutation_nil in T4.
  - now apply ocfg_eqb_equiv.
  - apply (mset_eqb_perm call_eqb call_eqb_eq) in T4. rewrite Herr. destruct adm; exact T4.
  - unfold rep_ok, replay_step in T5. destruct (replay cs e0) as [e|]; [|discriminate].
    exists e. split; [reflexivity|]. split; [reflexivity|].
    apply (mset_eqb_perm ebind_eqb ebind_eqb_eq). exact T5.
Qed.

(** an in-place edit by the caller must leave Current() alone *)
Theorem kstep_mutate_sound (st : option cfg) (rep : option ceff) (c' : cfg) (cur : option cfg) st' rep' :
  kstep st rep (OMutate c') (RCur cur) = ([], st', rep') ->
  st' = st /\ rep' = rep /\ cfg_equiv cur (shown st).
Proof.
  unfold kstep. intros H. inversion H as [[Ht Hst Hrep]].
  apply tagif_nil in Ht. subst. split; [reflexivity|]. split; [reflexivity|]. now apply ocfg_eqb_equiv.
Qed.

(** non-vacuity: an observation that passes *)
Example kstep_load_example :
  let cA := Witness.cA in
  kstep None (Some []) (OLoad (Some cA))
        (RLoad false [HAdd "t1" (Some "q") (Some Witness.tA1)] (Some cA))
  = ([], Some cA, Some [("t1", (Some Witness.tA1, Some "q"))]).
Proof. vm_compute. reflexivity. Qed.

(** ** two overlapping Loads: no tag means the observed global call order is
    load-contiguous (all calls of the first load before all of the second),
    the second load returned early only if it was refused before the mutex,
    each load on its own passes [kstep_load] (= [kstep] on a Load step, so
    [kstep_load_sound] applies to each), and the replay of the calls in the
    order they were made gives the effective admitted configuration. *)
Theorem kstep_par_sound (st : option cfg) (rep : option ceff) (a b : option cfg)
    (early : bool) (tr : list (nat * ccall)) (ea eb : bool) (cur : option cfg) st' rep' :
  kstep st rep (OPar a b) (RPar early tr ea eb cur) = ([], st', rep') ->
  contiguous (map fst tr) = true
  /\ (early = true ->
      eb = true /\ match b with Some c => ~ valid_p true c | None => True end)
  /\ exists st1 rep1 rep2,
       kstep st rep (OLoad a)
             (RLoad ea (calls_of 0 tr) (shown (if admissible st a ea then a else st)))
       = ([], st1, rep1)
       /\ kstep st1 rep1 (OLoad b) (RLoad eb (calls_of 1 tr) cur) = ([], st', rep2)
       /\ rep' = replay_step rep (map snd tr)
       /\ rep_ok rep' st' = true.
Proof.
  unfold kstep.
  destruct (kstep_load st rep a ea (calls_of 0 tr) (shown (if admissible st a ea then a else st)))
    as [[ta st1] rep1] eqn:Ea.
  destruct (kstep_load st1 rep1 b eb (calls_of 1 tr) cur) as [[tb st2] rep2] eqn:Eb.
  intros H. injection H as Ht Hst Hrep. subst st2.
  apply app_eq_nil in Ht as [T7 Ht]. apply app_eq_nil in Ht as [Ta Ht]. apply app_eq_nil in Ht as [Tb T5].
  apply tagif_nil in T7, T5. subst ta tb.
  apply andb_true_iff in T7 as [Hc He].
  split; [assumption|]. split.
  - intros ->. cbn in He. apply andb_true_iff in He as [-> Hb]. split; [reflexivity|].
    destruct b as [c|]; [|exact I]. apply negb_true_iff in Hb. intros V.
    apply valid_b_spec in V. congruence.
  - exists st1, rep1, rep2. subst rep'. auto.
Qed.

Example kstep_par_example :
  let a := Witness.cA in
  let b := Witness.cA' in
  fst (fst (kstep None (Some []) (OPar (Some a) (Some b))
                  (RPar false [(0%nat, HAdd "t1" (Some "q") (Some Witness.tA1));
                               (1%nat, HAdd "t2" (Some "q") (Some Witness.tB1))]
                        false false (Some b)))) = []
  /\ fst (fst (kstep None (Some []) (OPar (Some a) (Some b))
                     (RPar true [(0%nat, HAdd "t1" (Some "q") (Some Witness.tA1));
                                 (1%nat, HAdd "t2" (Some "q") (Some Witness.tB1))]
                           false false (Some b)))) = [7%N].
Proof. split; vm_compute; reflexivity. Qed.

(** Correspondence evaluator and executable property checker for C17.

    A case is one real [target.Config]: how it was constructed (NewConfig /
    NewConfigWithBase base), then a list of operations -- [Load arg], or the
    caller editing in place the message it loaded last -- each with what the
    implementation did, projected: whether an error came back, the handler
    invocations of that call (compared as a multiset: Go map order), and
    [Current()] afterwards (maps compared as sets of bindings).

    Message contents the Go code only compares with proto.Equal are strings
    here (the harness renders the deterministic wire form of a request, of a
    target without addresses/request, of a configuration without
    revision/requests/targets).

    [check_case] (a) runs the model of TargetCfgModel.v -- correspondence,
    tag 1 -- and (b) evaluates the property itself on the implementation's own
    observations against a specification that never looks at the model's
    [handle_diffs] / [validate] -- tags 2..6:
      2  gate: error returned although the load is valid and newer, or no
         error although it is nil / invalid / not newer
      3  state: Current() is not (a clone of) the argument of the last
         admissible load
      4  announcements: the handler calls of a load are not exactly the
         difference between the effective configurations before and after
         (includes: a call for an unchanged target, a call on a rejected load)
      5  replay: replaying every handler call made so far, in the order the
         implementation made them, onto the effective base configuration is a
         protocol error or does not yield the effective configuration of the
         last admissible load
      6  the implementation panicked
      7  serialisation: no sequential order of several Loads started together
         explains their results, calls and Current(); or, with two overlapping Loads, the second made handler
         calls / returned accepted while the first was parked inside a
         handler, or the handler calls of the two loads interleave
    No open known-finding class (KF-C17-1, configuration stored by reference,
    was fixed by b7e5099: an in-place edit of a loaded message must now leave
    Current() alone, and failing that is an ordinary tag 3). *)
From Gnmi Require Import Base.Prelude TargetCfg.TargetCfgModel.
Open Scope Z_scope.

Definition cfg := config string string string.
Definition tgt := target string.
Definition ccall := call string string.
Definition ceff := eff string string.

Inductive op :=
| OLoad (arg : option cfg)
| OMutate (c' : cfg)
| OPar (a b : option cfg)       (* two overlapping Loads, forced schedule (see par_run) *)
| ORace (args : list (option cfg)).   (* several Loads started together, no forced schedule *)

(** [RPar early tr ea eb cur]: Load b returned while Load a was parked inside
    its first handler call; every handler call in the global order in which
    the calls were entered, tagged 0 (made by Load a) / 1 (Load b); the two
    error results; Current() after both returned. *)
Inductive obs :=
| RLoad (err : bool) (calls : list ccall) (cur : option cfg)
| RCur (cur : option cfg)
| RPar (early : bool) (tr : list (nat * ccall)) (ea eb : bool) (cur : option cfg)
(** [RRace errs tr cur]: error result of each Load (by thread), every handler
    call in the global order the calls were entered tagged with the thread,
    Current() after all returned *)
| RRace (errs : list bool) (tr : list (nat * ccall)) (cur : option cfg)
| RPanic.

(** construction: the base handed to NewConfigWithBase ([None] = NewConfig or
    a nil base), whether an error came back, and Current() right after *)
Record case := mkCase {
  k_base : option cfg;
  k_base_err : bool;
  k_cur0 : option cfg;
  k_steps : list (op * obs)
}.

(** ** decidable equalities (proto.Equal on the projected messages) *)

Fixpoint list_eqb {A} (e : A -> A -> bool) (a b : list A) : bool :=
  match a, b with
  | [], [] => true
  | x :: a', y :: b' => e x y && list_eqb e a' b'
  | _, _ => false
  end.

Definition opt_eqb {A} (e : A -> A -> bool) (a b : option A) : bool :=
  match a, b with
  | None, None => true
  | Some x, Some y => e x y
  | _, _ => false
  end.

Definition tgt_eqb : tgt -> tgt -> bool := target_eqb String.eqb.
Definition tv_eqb : option tgt -> option tgt -> bool := tval_eqb String.eqb.
Definition rv_eqb : option string -> option string -> bool := rval_eqb String.eqb.

(** remove the first element equal to [x] *)
Fixpoint remove1 {A} (e : A -> A -> bool) (x : A) (l : list A) : option (list A) :=
  match l with
  | [] => None
  | y :: l' => if e x y then Some l'
               else match remove1 e x l' with Some r => Some (y :: r) | None => None end
  end.

(** equality as multisets *)
Fixpoint mset_eqb {A} (e : A -> A -> bool) (a b : list A) : bool :=
  match a with
  | [] => match b with [] => true | _ => false end
  | x :: a' => match remove1 e x b with Some b' => mset_eqb e a' b' | None => false end
  end.

Definition rbind_eqb (a b : string * option string) : bool :=
  String.eqb (fst a) (fst b) && rv_eqb (snd a) (snd b).
Definition tbind_eqb (a b : string * option tgt) : bool :=
  String.eqb (fst a) (fst b) && tv_eqb (snd a) (snd b).

Definition cfg_eqb (a b : cfg) : bool :=
  Z.eqb (c_revision a) (c_revision b)
  && String.eqb (c_other a) (c_other b)
  && mset_eqb rbind_eqb (c_request a) (c_request b)
  && mset_eqb tbind_eqb (c_target a) (c_target b).

Definition ocfg_eqb : option cfg -> option cfg -> bool := opt_eqb cfg_eqb.

Definition call_eqb (a b : ccall) : bool :=
  match a, b with
  | HAdd n r t, HAdd n' r' t' => String.eqb n n' && rv_eqb r r' && tv_eqb t t'
  | HUpdate n r t, HUpdate n' r' t' => String.eqb n n' && rv_eqb r r' && tv_eqb t t'
  | HDelete n, HDelete n' => String.eqb n n'
  | _, _ => false
  end.

Definition entry_eqb : entry string string -> entry string string -> bool :=
  entry_eqb String.eqb String.eqb.

Definition ebind_eqb (a b : string * entry string string) : bool :=
  String.eqb (fst a) (fst b) && entry_eqb (snd a) (snd b).

Definition calls_of (t : nat) (tr : list (nat * ccall)) : list ccall :=
  map snd (filter (fun tc => Nat.eqb (fst tc) t) tr).

Definition obs_eqb (a b : obs) : bool :=
  match a, b with
  | RLoad e cs cur, RLoad e' cs' cur' =>
      Bool.eqb e e' && mset_eqb call_eqb cs cs' && ocfg_eqb cur cur'
  | RCur cur, RCur cur' => ocfg_eqb cur cur'
  | RPar e tr ea eb cur, RPar e' tr' ea' eb' cur' =>
      (* same thread order call by call; the calls of each thread as a multiset *)
      (* whether a refused second load came back before or after the first
         one finished is not part of the contract (Validate may run inside or
         outside the critical section) *)
      (Bool.eqb e e' || (eb && eb')) && list_eqb Nat.eqb (map fst tr) (map fst tr')
      && mset_eqb call_eqb (calls_of 0 tr) (calls_of 0 tr')
      && mset_eqb call_eqb (calls_of 1 tr) (calls_of 1 tr')
      && Bool.eqb ea ea' && Bool.eqb eb eb' && ocfg_eqb cur cur'
  | _, _ => false
  end.

(** ** the model side *)

Definition m_load := @load string string string String.eqb String.eqb "" "".

(** Current(): the empty request renders as the empty string, so does what an
    empty Target holds besides addresses and request *)
Definition m_current : option cfg -> option cfg := current "" "".

Definition mstep (s : option cfg) (o : op) : option cfg * obs :=
  match o with
  | OLoad arg =>
      let r := m_load s arg in
      (fst (fst r),
       RLoad (match snd (fst r) with Some _ => true | None => false end) (snd r)
             (m_current (fst (fst r))))
  | OMutate c' =>
      let s' := mutate s c' in (s', RCur (m_current s'))
  | OPar a b =>
      let r := @par_run string string string String.eqb String.eqb "" "" patched_C17_1 s a b in
      let g := snd r in
      (g_cfg g, RPar (fst r) (g_trace g) (pc_err g 0) (pc_err g 1) (m_current (g_cfg g)))
  | ORace _ => (s, RPanic)     (* races are compared by [mcheck] *)
  end.

(** ** the specification side

    The specification keeps the last admissible configuration [st] (its own
    decision, not the implementation's), and the result [rep] of replaying the
    implementation's handler calls. *)

Definition nonempty {A} (l : list A) : bool := match l with [] => false | _ => true end.

(** a configuration is valid: every target has a name, a message, an address
    and names a request that the request map has.  Whether a request entry
    whose value is a nil message pointer counts as "has" is not specified (it
    cannot be written in a configuration file); [valid_b false] lets it
    through, [valid_b true] does not. *)
Definition valid_b (strict : bool) (c : cfg) : bool :=
  forallb (fun kt =>
             negb (String.eqb (fst kt) "")
             && match snd kt with
                | None => false
                | Some t =>
                    nonempty (t_addresses t)
                    && negb (String.eqb (t_request t) "")
                    && match assoc (t_request t) (c_request c) with
                       | None => false
                       | Some None => negb strict
                       | Some (Some _) => true
                       end
                end) (c_target c).

Definition newer (st : option cfg) (c : cfg) : bool :=
  match st with None => true | Some cur => Z.ltb (c_revision cur) (c_revision c) end.

(** must be applied / may be applied *)
Definition must_apply (st : option cfg) (arg : option cfg) : bool :=
  match arg with None => false | Some c => valid_b true c && newer st c end.
Definition may_apply (st : option cfg) (arg : option cfg) : bool :=
  match arg with None => false | Some c => valid_b false c && newer st c end.

(** the specification's decision: forced where the property decides, the
    implementation's own answer in the unspecified corner *)
Definition admissible (st : option cfg) (arg : option cfg) (err : bool) : bool :=
  if must_apply st arg then true
  else if may_apply st arg then negb err
  else false.

Definition eff_of (st : option cfg) : ceff := effective st.

(** the exact difference between two effective configurations *)
Definition eff_diff : ceff -> ceff -> list ccall := eff_diff String.eqb String.eqb.

Definition eff_eqb (a b : ceff) : bool := mset_eqb ebind_eqb a b.

Definition replay_step (rep : option ceff) (cs : list ccall) : option ceff :=
  match rep with Some e => replay cs e | None => None end.

Definition rep_ok (rep : option ceff) (st : option cfg) : bool :=
  match rep with Some e => eff_eqb e (eff_of st) | None => false end.

(** what Current() shows of a configuration: a proto.Clone, in which a nil map
    value has become an empty message (protobuf library behaviour) *)
Definition shown (st : option cfg) : option cfg := m_current st.

Definition tagif (b : bool) (t : N) : list N := if b then [] else [t].

(** all calls tagged 0 come before all calls tagged 1 *)
Fixpoint contiguous (tags : list nat) : bool :=
  match tags with
  | [] => true
  | 0%nat :: tl => contiguous tl
  | _ :: tl => forallb (fun t => negb (Nat.eqb t 0)) tl
  end.

(** one observed Load: tags, new specification state, new replay state *)
Definition kstep_load (st : option cfg) (rep : option ceff) (arg : option cfg)
    (err : bool) (cs : list ccall) (cur : option cfg) : list N * option cfg * option ceff :=
  let adm := admissible st arg err in
  let st' := if adm then arg else st in
  let rep' := replay_step rep cs in
  (tagif (Bool.eqb err (negb adm)) 2
   ++ tagif (ocfg_eqb cur (shown st')) 3
   ++ tagif (mset_eqb call_eqb cs (if adm then eff_diff (eff_of st) (eff_of arg) else [])) 4
   ++ tagif (rep_ok rep' st') 5,
   st', rep').

(** ** unforced races: some sequential order must explain the observation *)

Fixpoint inserts {A} (x : A) (l : list A) : list (list A) :=
  match l with
  | [] => [[x]]
  | y :: l' => (x :: l) :: map (cons y) (inserts x l')
  end.

Fixpoint perms {A} (l : list A) : list (list A) :=
  match l with
  | [] => [[]]
  | x :: l' => flat_map (inserts x) (perms l')
  end.

(** the thread tags a load-contiguous trace has when the loads take effect in [order] *)
Definition block_tags (tr : list (nat * ccall)) (order : list nat) : list nat :=
  flat_map (fun t => repeat t (List.length (calls_of t tr))) order.

Definition nth_err (errs : list bool) (t : nat) : bool := nth t errs false.
Definition nth_arg (args : list (option cfg)) (t : nat) : option cfg :=
  match nth_error args t with Some a => a | None => None end.

(** model: run the loads sequentially in [order]; does that give the observation? *)
Fixpoint race_model (s : option cfg) (args : list (option cfg)) (errs : list bool)
    (tr : list (nat * ccall)) (order : list nat) : option cfg * bool :=
  match order with
  | [] => (s, true)
  | t :: o =>
      let r := m_load s (nth_arg args t) in
      let e := match snd (fst r) with Some _ => true | None => false end in
      let rest := race_model (fst (fst r)) args errs tr o in
      (fst rest,
       Bool.eqb e (nth_err errs t) && mset_eqb call_eqb (snd r) (calls_of t tr) && snd rest)
  end.

Definition race_model_ok (s : option cfg) (args : list (option cfg)) (errs : list bool)
    (tr : list (nat * ccall)) (cur : option cfg) (order : list nat) : bool :=
  let r := race_model s args errs tr order in
  snd r && list_eqb Nat.eqb (map fst tr) (block_tags tr order) && ocfg_eqb cur (m_current (fst r)).

(** specification: the chain of [kstep_load]s in [order] raises no tag *)
Fixpoint race_spec (st : option cfg) (rep : option ceff) (args : list (option cfg))
    (errs : list bool) (tr : list (nat * ccall)) (cur : option cfg) (order : list nat)
  : bool * option cfg * option ceff :=
  match order with
  | [] => (true, st, rep)
  | t :: o =>
      let a := nth_arg args t in
      let e := nth_err errs t in
      let sta := if admissible st a e then a else st in
      let shown_here := match o with [] => cur | _ => shown sta end in
      let '(tags, st1, rep1) := kstep_load st rep a e (calls_of t tr) shown_here in
      let '(ok, st2, rep2) := race_spec st1 rep1 args errs tr cur o in
      (match tags with [] => ok | _ => false end, st2, rep2)
  end.

Definition race_spec_ok (st : option cfg) (rep : option ceff) (args : list (option cfg))
    (errs : list bool) (tr : list (nat * ccall)) (cur : option cfg) (order : list nat) : bool :=
  let '(ok, st', _) := race_spec st rep args errs tr cur order in
  ok && list_eqb Nat.eqb (map fst tr) (block_tags tr order)
  && rep_ok (replay_step rep (map snd tr)) st'.

Definition first_order (f : list nat -> bool) (n : nat) : option (list nat) :=
  find f (perms (seq 0 n)).

(** tags of one step, new specification state, new replay state *)
Definition kstep (st : option cfg) (rep : option ceff) (o : op) (r : obs)
  : list N * option cfg * option ceff :=
  match o, r with
  | OLoad arg, RLoad err cs cur => kstep_load st rep arg err cs cur
  | OMutate _, RCur cur =>
      (tagif (ocfg_eqb cur (shown st)) 3, st, rep)
  | OPar a b, RPar early tr ea eb cur =>
      (* Load a took c.mu first and was parked inside a handler, or had already
         returned, when Load b was issued: the loads must take effect in the
         order a, b, b's calls after all of a's, and b may only have returned
         meanwhile if it was refused before touching the mutex (nil / invalid) *)
      let serial :=
        contiguous (map fst tr)
        && (negb early
            || (eb && match b with None => true | Some c => negb (valid_b true c) end)) in
      let sta := if admissible st a ea then a else st in
      let '(ta, st1, rep1) := kstep_load st rep a ea (calls_of 0 tr) (shown sta) in
      let '(tb, st2, rep2) := kstep_load st1 rep1 b eb (calls_of 1 tr) cur in
      let repg := replay_step rep (map snd tr) in      (* the calls in the order they were made *)
      (tagif serial 7 ++ ta ++ tb ++ tagif (rep_ok repg st2) 5, st2, repg)
  | ORace args, RRace errs tr cur =>
      (* loads started together: any one sequential order of them may be the one
         that happened, but one must explain everything that was observed *)
      let n := List.length args in
      match first_order (race_spec_ok st rep args errs tr cur) n with
      | Some order =>
          let '(_, st', _) := race_spec st rep args errs tr cur order in
          ([], st', replay_step rep (map snd tr))
      | None =>
          let '(_, st', _) := race_spec st rep args errs tr cur (seq 0 n) in
          ([7%N], st', replay_step rep (map snd tr))
      end
  | _, RPanic => ([6%N], st, rep)
  | _, _ => ([6%N], st, rep)      (* malformed observation *)
  end.

(** ** verdicts *)

(** model state after the step and whether the observation is the model's (for a
    race: is that of some sequential order of the model's loads) *)
Definition mcheck (s : option cfg) (o : op) (r : obs) : option cfg * bool :=
  match o, r with
  | ORace args, RRace errs tr cur =>
      let n := List.length args in
      match first_order (race_model_ok s args errs tr cur) n with
      | Some order => (fst (race_model s args errs tr order), true)
      | None => (fst (race_model s args errs tr (seq 0 n)), false)
      end
  | ORace args, _ => (s, false)
  | _, _ => let '(s', rm) := mstep s o in (s', obs_eqb r rm)
  end.

Fixpoint check_from (i : nat) (ms : option cfg) (st : option cfg) (rep : option ceff)
    (c : list (op * obs)) : list (nat * N) :=
  match c with
  | [] => []
  | (o, r) :: c' =>
      let '(ms', agree) := mcheck ms o r in
      let '(tags, st', rep') := kstep st rep o r in
      (if agree then [] else [(i, 1%N)])
      ++ map (fun t => (i, t)) tags
      ++ check_from (S i) ms' st' rep' c'
  end.

Definition m_new := @new_config_with_base string string string "" "".

Definition check_case (k : case) : list (nat * N) :=
  (* step 0: construction *)
  let spec_ok := match k_base k with
                 | None => true
                 | Some c => if valid_b true c then true
                             else if valid_b false c then negb (k_base_err k) else false
                 end in
  let spec_st := if spec_ok then k_base k else None in
  let ktags :=
    tagif (Bool.eqb (k_base_err k) (negb spec_ok)) 2
    ++ (if k_base_err k then [] else tagif (ocfg_eqb (k_cur0 k) (shown spec_st)) 3) in
  match m_new (k_base k) with
  | Ok ms =>
      (if negb (k_base_err k) && ocfg_eqb (k_cur0 k) (m_current ms) then [] else [(0%nat, 1%N)])
      ++ map (fun t => (0%nat, t)) ktags
      ++ (if k_base_err k then []
          else check_from 1 ms spec_st (Some (eff_of spec_st)) (k_steps k))
  | _ =>
      (if k_base_err k then [] else [(0%nat, 1%N)])
      ++ map (fun t => (0%nat, t)) ktags
  end.

Fixpoint check_all_from (i : nat) (cs : list case) : list (nat * nat * N) :=
  match cs with
  | [] => []
  | c :: cs' => map (fun sn => (i, fst sn, snd sn)) (check_case c) ++ check_all_from (S i) cs'
  end.

Definition check_all (cs : list case) : list (nat * nat * N) := check_all_from 0 cs.

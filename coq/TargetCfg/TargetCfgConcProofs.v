(** Overlapping Loads on one Config (the LTS [lstep] of TargetCfgModel.v).

    [conc_invariant]: in every reachable state, under every schedule, the
    handler calls made so far are those of a sequential run of the loads that
    have returned, in the order in which they returned, followed by a prefix of
    the calls of the load that holds c.mu -- the calls of one load are
    contiguous.  [conc_serialisable]: when all threads have returned, state and
    global call sequence are those of SOME sequential order of all the loads.
    [conc_replay_converges]: hence replaying the global call sequence yields
    the effective current configuration ([replay_converges] carries over). *)
From Gnmi Require Import Base.Prelude TargetCfg.TargetCfgModel TargetCfg.TargetCfgProofs.
Open Scope Z_scope.

Lemma length_upd {A} (l : list A) n x : List.length (upd l n x) = List.length l.
Proof. revert n; induction l as [|y l IH]; intros [|n]; cbn; auto. Qed.

Lemma nth_error_upd_eq {A} (l : list A) n x y :
  nth_error l n = Some y -> nth_error (upd l n x) n = Some x.
Proof. revert n; induction l as [|z l IH]; intros [|n]; cbn; try discriminate; auto. Qed.

Lemma nth_error_upd_neq {A} (l : list A) n m x :
  n <> m -> nth_error (upd l n x) m = nth_error l m.
Proof.
  revert n m; induction l as [|z l IH]; intros [|n] [|m] H; cbn; auto; try congruence.
Qed.

Lemma Forall2_refl {A} (P : A -> A -> Prop) l : (forall x, P x x) -> Forall2 P l l.
Proof. intros H; induction l; constructor; auto. Qed.

Section Conc.
Context {R O X : Type}.
Variable R_eqb : R -> R -> bool.
Variable O_eqb : O -> O -> bool.
Variable R_empty : R.
Variable O_empty : O.
Variable p : bool.
Variable args : list (option (config R O X)).
Variable s0 : state R O X.

Notation config := (config R O X).
Notation state := (state R O X).
Notation call := (call R O).
Notation gstate := (gstate R O X).
Notation lstep := (@lstep R O X R_eqb O_eqb R_empty O_empty p args).
Notation lexec := (@lexec R O X R_eqb O_eqb R_empty O_empty p args).
Notation seq_run := (@seq_run R O X R_eqb O_eqb R_empty O_empty p args).
Notation load_state := (@load_state R O X R_eqb O_eqb R_empty O_empty p).
Notation load_calls := (@load_calls R O X R_eqb O_eqb R_empty O_empty p).
Notation handle_diffs := (@handle_diffs R O X R_eqb O_eqb).
Notation store_gen := (@store_gen R O X R_empty O_empty p).

Lemma seq_run_snoc (o : list nat) t : forall s,
  seq_run s (o ++ [t]) =
  (load_state (fst (seq_run s o)) (arg_of args t),
   snd (seq_run s o) ++ map (pair t) (load_calls (fst (seq_run s o)) (arg_of args t))).
Proof.
  induction o as [|u o IH]; intros s; cbn [app seq_run fst snd].
  - now rewrite app_nil_r.
  - rewrite IH. cbn [fst snd]. now rewrite app_assoc.
Qed.

(** what one sequential Load does, by outcome *)
Lemma load_nil s : load_state s None = s /\ load_calls s None = [].
Proof. split; reflexivity. Qed.

Lemma load_invalid s cf e :
  validate_gen p cf = Some e -> load_state s (Some cf) = s /\ load_calls s (Some cf) = [].
Proof. unfold TargetCfgModel.load_state, TargetCfgModel.load_calls, load_gen. intros ->. split; reflexivity. Qed.

Lemma load_stale s cf :
  validate_gen p cf = None -> check_revision s cf = false ->
  load_state s (Some cf) = s /\ load_calls s (Some cf) = [].
Proof. unfold TargetCfgModel.load_state, TargetCfgModel.load_calls, load_gen. intros -> ->. split; reflexivity. Qed.

Lemma load_applied s cf :
  validate_gen p cf = None -> check_revision s cf = true ->
  load_state s (Some cf) = Some (store_gen cf) /\ load_calls s (Some cf) = handle_diffs s cf.
Proof. unfold TargetCfgModel.load_state, TargetCfgModel.load_calls, load_gen. intros -> ->. split; reflexivity. Qed.

(** calls made so far by the load that holds c.mu, tagged *)
Definition holder_part (g : gstate) : list (nat * call) :=
  match g_lock g with Some h => map (pair h) (g_emitted g) | None => [] end.

Record Inv (g : gstate) : Prop := mkInv {
  I_cfg : g_cfg g = fst (seq_run s0 (g_order g));
  I_trace : g_trace g = snd (seq_run s0 (g_order g)) ++ holder_part g;
  I_lock : forall h, g_lock g = Some h ->
           exists cf rem,
             nth_error (g_pcs g) h = Some (PCall cf rem)
             /\ nth_error args h = Some (Some cf)
             /\ validate_gen p cf = None
             /\ check_revision (g_cfg g) cf = true
             /\ handle_diffs (g_cfg g) cf = g_emitted g ++ rem;
  I_call : forall t cf rem, nth_error (g_pcs g) t = Some (PCall cf rem) -> g_lock g = Some t;
  I_wait : forall t cf, nth_error (g_pcs g) t = Some (PWait cf) ->
           nth_error args t = Some (Some cf) /\ validate_gen p cf = None;
  I_nodup : NoDup (g_order g);
  I_order : forall t, In t (g_order g) <-> exists e, nth_error (g_pcs g) t = Some (PDone e);
  I_len : List.length (g_pcs g) = List.length args
}.

Lemma inv_init : Inv (ginit s0 (List.length args)).
Proof.
  assert (Hr : forall t x, nth_error (repeat (@PStart R O X) (List.length args)) t = Some x -> x = PStart).
  { intros t x H. apply nth_error_In in H. now apply repeat_spec in H. }
  constructor; cbn; auto.
  - intros h H; discriminate.
  - intros t cf rem H. apply Hr in H. discriminate.
  - intros t cf H. apply Hr in H. discriminate.
  - constructor.
  - intros t. split; [intros []|]. intros [e H]. apply Hr in H. discriminate.
  - apply repeat_length.
Qed.

(** bookkeeping shared by the three ways a thread returns *)
Lemma order_snoc (g : gstate) t x e :
  Inv g -> nth_error (g_pcs g) t = Some x -> is_done x = false ->
  NoDup (g_order g ++ [t])
  /\ forall t', In t' (g_order g ++ [t]) <->
                exists e', nth_error (upd (g_pcs g) t (PDone e)) t' = Some (PDone e').
Proof.
  intros I Ht Hx.
  assert (Hni : ~ In t (g_order g)).
  { intros Hin. apply (I_order g I) in Hin as [e' He']. rewrite Ht in He'. inversion He'; subst. discriminate. }
  split; [now apply NoDup_app_intro_single; [apply (I_nodup g I)|]|].
  intros t'. rewrite in_app_iff. destruct (Nat.eq_dec t t') as [<-|Hne].
  - rewrite (nth_error_upd_eq _ _ _ _ Ht). split; [eauto|]. intros _. right. now left.
  - rewrite (nth_error_upd_neq _ _ _ _ Hne), <- (I_order g I). cbn. tauto.
Qed.

Lemma other_pc (g : gstate) t t' x y z :
  nth_error (g_pcs g) t = Some x ->
  nth_error (upd (g_pcs g) t y) t' = Some z -> z <> y -> t <> t' /\ nth_error (g_pcs g) t' = Some z.
Proof.
  intros Ht H Hz. destruct (Nat.eq_dec t t') as [<-|Hne].
  - rewrite (nth_error_upd_eq _ _ _ _ Ht) in H. congruence.
  - rewrite (nth_error_upd_neq _ _ _ _ Hne) in H. auto.
Qed.

Lemma inv_step (g g' : gstate) t : Inv g -> lstep g t = Some g' -> Inv g'.
Proof.
  intros I. unfold TargetCfgModel.lstep.
  destruct (nth_error (g_pcs g) t) as [[|cf|cf [|c rem]|e]|] eqn:Ept; try discriminate.
  - (* PStart *)
    assert (Hret : load_state (g_cfg g) (arg_of args t) = g_cfg g ->
                            load_calls (g_cfg g) (arg_of args t) = [] ->
                            Inv (mkG (g_cfg g) (g_lock g) (upd (g_pcs g) t (PDone true)) (g_trace g)
                                     (g_order g ++ [t]) (g_emitted g))).
    { intros Hs Hc.
      destruct (order_snoc g t PStart true I Ept eq_refl) as [Hnd Hord].
      constructor; cbn [g_cfg g_lock g_pcs g_trace g_order g_emitted]; auto.
      - rewrite seq_run_snoc. cbn [fst]. rewrite <- (I_cfg g I). now rewrite Hs.
      - rewrite seq_run_snoc. cbn [snd]. rewrite <- (I_cfg g I), Hc. cbn. rewrite app_nil_r. apply (I_trace g I).
      - intros h Hh. destruct (I_lock g I h Hh) as (cf & rem & H1 & H2).
        exists cf, rem. split; [|exact H2]. rewrite nth_error_upd_neq; auto. intros <-. congruence.
      - intros t' cf rem H. apply (other_pc g t t' PStart) in H as [_ H]; [|assumption|discriminate].
        now apply (I_call g I) in H.
      - intros t' cf H. apply (other_pc g t t' PStart) in H as [_ H]; [|assumption|discriminate].
        now apply (I_wait g I) in H.
      - rewrite length_upd. apply (I_len g I). }
    destruct (nth_error args t) as [[cf|]|] eqn:Ea.
    + destruct (validate_gen p cf) as [e|] eqn:Ev; intros H; inversion H; subst; clear H.
      * assert (Harg : arg_of args t = Some cf) by (unfold arg_of; now rewrite Ea).
        apply Hret; rewrite Harg; now apply (load_invalid _ _ e).
      * (* validated: waits for the mutex *)
        constructor; cbn [g_cfg g_lock g_pcs g_trace g_order g_emitted];
          try apply I.
        -- intros h Hh. destruct (I_lock g I h Hh) as (cf' & rem & H1 & H2).
           exists cf', rem. split; [|exact H2]. rewrite nth_error_upd_neq; auto. intros <-. congruence.
        -- intros t' cf' rem H. apply (other_pc g t t' PStart) in H as [_ H]; [|assumption|discriminate].
           now apply (I_call g I) in H.
        -- intros t' cf' H. destruct (Nat.eq_dec t t') as [<-|Hne].
           ++ rewrite (nth_error_upd_eq _ _ _ _ Ept) in H. inversion H; subst. auto.
           ++ rewrite (nth_error_upd_neq _ _ _ _ Hne) in H. now apply (I_wait g I) in H.
        -- intros t'. rewrite (I_order g I). destruct (Nat.eq_dec t t') as [<-|Hne].
           ++ rewrite (nth_error_upd_eq _ _ _ _ Ept), Ept. split; intros [e H]; discriminate.
           ++ now rewrite (nth_error_upd_neq _ _ _ _ Hne).
        -- rewrite length_upd. apply (I_len g I).
    + intros H; inversion H; subst; clear H.
      assert (Harg : arg_of args t = None) by (unfold arg_of; now rewrite Ea).
      apply Hret; rewrite Harg; apply load_nil.
    + intros H; inversion H; subst; clear H.
      assert (Harg : arg_of args t = None) by (unfold arg_of; now rewrite Ea).
      apply Hret; rewrite Harg; apply load_nil.
  - (* PWait: take the mutex *)
    destruct (g_lock g) as [h|] eqn:El; [discriminate|].
    destruct (I_wait g I t cf Ept) as [Ea Ev].
    assert (Harg : arg_of args t = Some cf) by (unfold arg_of; now rewrite Ea).
    assert (Hnocall : forall t' cf' rem, nth_error (g_pcs g) t' = Some (PCall cf' rem) -> False).
    { intros t' cf' rem H. apply (I_call g I) in H. congruence. }
    destruct (check_revision (g_cfg g) cf) eqn:Ec; intros H; inversion H; subst; clear H.
    + constructor; cbn [g_cfg g_lock g_pcs g_trace g_order g_emitted]; try apply I.
      * rewrite (I_trace g I). unfold holder_part. rewrite El. reflexivity.
      * intros h Hh. inversion Hh; subst h. exists cf, (handle_diffs (g_cfg g) cf).
        rewrite (nth_error_upd_eq _ _ _ _ Ept). auto.
      * intros t' cf' rem H. destruct (Nat.eq_dec t t') as [<-|Hne]; [reflexivity|].
        rewrite (nth_error_upd_neq _ _ _ _ Hne) in H. exfalso. eapply Hnocall; eauto.
      * intros t' cf' H. apply (other_pc g t t' (PWait cf)) in H as [_ H]; [|assumption|discriminate].
        now apply (I_wait g I) in H.
      * intros t'. rewrite (I_order g I). destruct (Nat.eq_dec t t') as [<-|Hne].
        -- rewrite (nth_error_upd_eq _ _ _ _ Ept), Ept. split; intros [e H]; discriminate.
        -- now rewrite (nth_error_upd_neq _ _ _ _ Hne).
      * rewrite length_upd. apply (I_len g I).
    + destruct (load_stale (g_cfg g) cf Ev Ec) as [Hs Hc].
      destruct (order_snoc g t (PWait cf) true I Ept eq_refl) as [Hnd Hord].
      unfold finish. constructor; cbn [g_cfg g_lock g_pcs g_trace g_order g_emitted]; auto.
      * rewrite seq_run_snoc. cbn [fst]. rewrite <- (I_cfg g I), Harg. now rewrite Hs.
      * rewrite seq_run_snoc. cbn [snd]. rewrite <- (I_cfg g I), Harg, Hc. cbn.
        unfold holder_part. cbn. rewrite !app_nil_r. rewrite (I_trace g I). unfold holder_part.
        rewrite El. now rewrite app_nil_r.
      * intros h Hh; discriminate.
      * intros t' cf' rem H. apply (other_pc g t t' (PWait cf)) in H as [_ H]; [|assumption|discriminate].
        exfalso. eapply Hnocall; eauto.
      * intros t' cf' H. apply (other_pc g t t' (PWait cf)) in H as [_ H]; [|assumption|discriminate].
        now apply (I_wait g I) in H.
      * rewrite length_upd. apply (I_len g I).
  - (* PCall, no call left: store and release *)
    intros H; inversion H; subst; clear H.
    pose proof (I_call g I t cf [] Ept) as El.
    destruct (I_lock g I t El) as (cf' & rem' & H1 & Ea & Ev & Ec & Hd).
    rewrite Ept in H1. inversion H1; subst cf' rem'. rewrite app_nil_r in Hd.
    assert (Harg : arg_of args t = Some cf) by (unfold arg_of; now rewrite Ea).
    destruct (load_applied (g_cfg g) cf Ev Ec) as [Hs Hc].
    destruct (order_snoc g t (PCall cf []) false I Ept eq_refl) as [Hnd Hord].
    unfold finish. constructor; cbn [g_cfg g_lock g_pcs g_trace g_order g_emitted]; auto.
    + rewrite seq_run_snoc. cbn [fst]. rewrite <- (I_cfg g I), Harg. now rewrite Hs.
    + rewrite seq_run_snoc. cbn [snd]. rewrite <- (I_cfg g I), Harg, Hc, Hd.
      unfold holder_part at 1. cbn. rewrite app_nil_r. rewrite (I_trace g I). unfold holder_part.
      now rewrite El.
    + intros h Hh; discriminate.
    + intros t' cf' rem H. apply (other_pc g t t' (PCall cf [])) in H as [Hne H]; [|assumption|discriminate].
      apply (I_call g I) in H. congruence.
    + intros t' cf' H. apply (other_pc g t t' (PCall cf [])) in H as [_ H]; [|assumption|discriminate].
      now apply (I_wait g I) in H.
    + rewrite length_upd. apply (I_len g I).
  - (* PCall: one handler call *)
    intros H; inversion H; subst; clear H.
    pose proof (I_call g I t cf (c :: rem) Ept) as El.
    destruct (I_lock g I t El) as (cf' & rem' & H1 & Ea & Ev & Ec & Hd).
    rewrite Ept in H1. inversion H1; subst cf' rem'.
    constructor; cbn [g_cfg g_lock g_pcs g_trace g_order g_emitted]; try apply I.
    + rewrite (I_trace g I). unfold holder_part. cbn [g_lock g_emitted]. rewrite El.
      rewrite map_app. cbn. now rewrite app_assoc.
    + intros h Hh. rewrite El in Hh. inversion Hh; subst h. exists cf, rem.
      rewrite (nth_error_upd_eq _ _ _ _ Ept). repeat split; auto. rewrite Hd. now rewrite <- app_assoc.
    + intros t' cf' rem' H. destruct (Nat.eq_dec t t') as [<-|Hne]; [assumption|].
      rewrite (nth_error_upd_neq _ _ _ _ Hne) in H. now apply (I_call g I) in H.
    + intros t' cf' H. apply (other_pc g t t' (PCall cf (c :: rem))) in H as [_ H]; [|assumption|discriminate].
      now apply (I_wait g I) in H.
    + intros t'. rewrite (I_order g I). destruct (Nat.eq_dec t t') as [<-|Hne].
      * rewrite (nth_error_upd_eq _ _ _ _ Ept), Ept. split; intros [e H]; discriminate.
      * now rewrite (nth_error_upd_neq _ _ _ _ Hne).
    + rewrite length_upd. apply (I_len g I).
Qed.

Lemma inv_exec sch : forall g, Inv g -> Inv (lexec g sch).
Proof.
  induction sch as [|t sch IH]; intros g I; cbn; [assumption|].
  destruct (lstep g t) as [g'|] eqn:E; [|auto]. apply IH. eapply inv_step; eauto.
Qed.

(** [conc_invariant]: every schedule, every reachable state *)
Lemma conc_invariant (sch : list nat) :
  let g := lexec (ginit s0 (List.length args)) sch in
  g_cfg g = fst (seq_run s0 (g_order g))
  /\ g_trace g = snd (seq_run s0 (g_order g)) ++ holder_part g
  /\ (forall h, g_lock g = Some h ->
        exists cf rem, nth_error args h = Some (Some cf)
                       /\ load_calls (g_cfg g) (Some cf) = g_emitted g ++ rem)
  /\ (g_lock g = None -> holder_part g = []).
Proof.
  intros g. pose proof (inv_exec sch _ inv_init) as I. fold g in I.
  split; [apply I|]. split; [apply I|]. split.
  - intros h Hh. destruct (I_lock g I h Hh) as (cf & rem & _ & Ea & Ev & Ec & Hd).
    exists cf, rem. split; [assumption|]. destruct (load_applied (g_cfg g) cf Ev Ec) as [_ Hc]. congruence.
  - intros Hn. unfold holder_part. now rewrite Hn.
Qed.

(** [conc_serialisable]: all threads returned => some sequential order *)
Lemma conc_serialisable (sch : list nat) :
  let g := lexec (ginit s0 (List.length args)) sch in
  all_done g = true ->
  exists order, Permutation order (seq 0 (List.length args))
                /\ g_cfg g = fst (seq_run s0 order)
                /\ g_trace g = snd (seq_run s0 order).
Proof.
  intros g Hd. pose proof (inv_exec sch _ inv_init) as I. fold g in I.
  unfold all_done in Hd. rewrite forallb_forall in Hd.
  exists (g_order g). split; [|split; [apply I|]].
  - apply NoDup_Permutation; [apply I|apply seq_NoDup|].
    intros t. rewrite (I_order g I), in_seq. split.
    + intros [e H]. assert (Hlt : (t < List.length (g_pcs g))%nat) by (apply nth_error_Some; congruence).
      rewrite (I_len g I) in Hlt. lia.
    + intros [_ H]. cbn in H. rewrite <- (I_len g I) in H. apply nth_error_Some in H.
      destruct (nth_error (g_pcs g) t) as [x|] eqn:E; [|congruence].
      pose proof (Hd x (nth_error_In _ _ E)) as Hx. destruct x; try discriminate. eauto.
  - rewrite (I_trace g I). unfold holder_part. destruct (g_lock g) as [h|] eqn:El; [|apply app_nil_r].
    destruct (I_lock g I h El) as (cf & rem & H & _). apply nth_error_In in H. apply Hd in H. discriminate.
Qed.

(** a sequential order of the threads is a history of loads *)
Lemma seq_run_run_gen (order : list nat) : forall s,
  let hs := map (fun t => HLoad (arg_of args t)) order in
  fst (seq_run s order) = fst (run_gen R_eqb O_eqb R_empty O_empty p s hs)
  /\ map snd (snd (seq_run s order)) = List.concat (snd (run_gen R_eqb O_eqb R_empty O_empty p s hs)).
Proof.
  induction order as [|t o IH]; intros s; cbn [map seq_run run_gen fst snd List.concat]; [auto|].
  destruct (IH (load_state s (arg_of args t))) as [H1 H2]. cbn [hop_state hop_calls]. split; [exact H1|].
  rewrite map_app, map_map. cbn [snd]. rewrite map_id. now rewrite H2.
Qed.

Hypothesis R_eqb_spec : forall a b, R_eqb a b = true <-> a = b.
Hypothesis O_eqb_spec : forall a b, O_eqb a b = true <-> a = b.

(** [conc_replay_converges]: any number of overlapping Loads, any schedule:
    once all have returned, replaying the handler calls in the global order in
    which they were made yields exactly the effective current configuration. *)
Lemma conc_replay_converges (sch : list nat) :
  state_ok s0 ->
  Forall (fun a => match a with Some cf => wf_config cf | None => True end) args ->
  let g := lexec (ginit s0 (List.length args)) sch in
  all_done g = true ->
  exists e, replay (map snd (g_trace g)) (effective s0) = Some e
            /\ Permutation e (effective (g_cfg g)).
Proof.
  intros Hs Hw g Hd. destruct (conc_serialisable sch Hd) as (order & _ & Hc & Ht).
  fold g in Hc, Ht. destruct (seq_run_run_gen order s0) as [H1 H2].
  rewrite Ht, H2, Hc, H1.
  apply (replay_converges R_eqb O_eqb R_empty O_empty R_eqb_spec O_eqb_spec p s0); auto.
  - apply Forall_forall. intros h Hin. apply in_map_iff in Hin as (t & <- & _). cbn.
    unfold arg_of. destruct (nth_error args t) as [a|] eqn:E; [|exact I].
    rewrite Forall_forall in Hw. apply (Hw a). eapply nth_error_In; eauto.
  - right. clear. induction order as [|t o IH]; cbn; auto.
  - apply Forall2_refl. intros x. reflexivity.
Qed.

End Conc.

(** * non-vacuity: three overlapping loads (two good, one invalid), an
      interleaved schedule *)
Module ConcWitness.
Import Witness.
Definition ex_args : list (option scfg) := [Some cA'; Some cB; Some cBad].
Definition ex_sch : list nat := [0;1;2;0;1;1;0;1;0;1;0;1;2;1;1;1;1;1;1]%nat.
Definition ex_exec := @lexec string string string String.eqb String.eqb "" "" true ex_args.
Definition ex_step := @lstep string string string String.eqb String.eqb "" "" true ex_args.

(** all three return; the invalid load returned first without the mutex, the
    calls of thread 0 all come before those of thread 1 *)
Example ex_final :
  let g := ex_exec (ginit None 3) ex_sch in
  all_done g = true /\ map fst (g_trace g) = [0; 0; 1; 1; 1]%nat /\ g_order g = [2; 0; 1]%nat
  /\ g_cfg g = Some cB.
Proof. vm_compute. repeat split. Qed.

(** while thread 0 is inside its first handler call, thread 1 cannot move *)
Example ex_blocked :
  let g := ex_exec (ginit None 3) [0; 1; 0; 0]%nat in
  g_lock g = Some 0%nat /\ map fst (g_trace g) = [0%nat] /\ ex_step g 1%nat = None.
Proof. vm_compute. repeat split. Qed.

Example ex_hyps :
  state_ok (None : state string string string)
  /\ Forall (fun a : option scfg => match a with Some cf => wf_config cf | None => True end) ex_args.
Proof. split; [exact I|]. repeat constructor; cbn; nodup. Qed.
End ConcWitness.

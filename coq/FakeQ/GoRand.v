(** Port of the bounded-draw algorithms of Go 1.23 math/rand (rand.go:
    Int63n, Int31n, Intn, int31n, Float64, Shuffle) on top of a RAW tape: the
    sequence of values returned by successive [Source.Int63()] calls.

    The rejection loops of the Go code ([for v > max { v = r.Int63() }]) are
    structural recursions over the tape: the tape is the fuel, and running out
    of it is the explicit outcome [ROut].  Nothing here depends on how the Go
    generator produces the tape; every lemma about these functions holds for an
    arbitrary [list Z].  The port itself is validated by the correspondence
    run of C20 (the harness records the tape of [rand.NewSource(seed)] and the
    real [rand.Rand] built from the same seed makes the draws). *)
From Coq Require Import ZArith Lia Floats Uint63 List.
Import ListNotations.
Open Scope Z_scope.

Definition tape := list Z.

(** result of a computation that consumes randomness *)
Inductive rres (A : Type) :=
| RV (a : A) (t : tape)     (* value, rest of the tape *)
| RPanic                    (* Go panics ("invalid argument to Int63n") *)
| ROut                      (* tape exhausted: more draws than were recorded *)
| RErr.                     (* the caller returned an error (never produced in this file) *)
Arguments RV {A} a t.
Arguments RPanic {A}.
Arguments ROut {A}.
Arguments RErr {A}.

Definition rbind {A B} (m : rres A) (f : A -> tape -> rres B) : rres B :=
  match m with
  | RV a t => f a t
  | RPanic => RPanic
  | ROut => ROut
  | RErr => RErr
  end.

Definition two63 : Z := 9223372036854775808.
Definition two32 : Z := 4294967296.
Definition two31 : Z := 2147483648.

(** r.Int63() *)
Definition int63 (t : tape) : rres Z :=
  match t with
  | x :: t' => RV x t'
  | [] => ROut
  end.

(** [v := r.Int63(); for v > max { v = r.Int63() }] *)
Fixpoint until_le (mx : Z) (t : tape) : rres Z :=
  match t with
  | [] => ROut
  | v :: t' => if v >? mx then until_le mx t' else RV v t'
  end.

(** rand.go Int63n *)
Definition int63n (n : Z) (t : tape) : rres Z :=
  if n <=? 0 then RPanic
  else if Z.land n (n - 1) =? 0 then
    rbind (int63 t) (fun v t' => RV (Z.land v (n - 1)) t')
  else
    let mx := two63 - 1 - (two63 mod n) in
    rbind (until_le mx t) (fun v t' => RV (v mod n) t').

(** r.Int31() = int32(r.Int63() >> 32) *)
Definition int31_of (x : Z) : Z := Z.shiftr x 32.

Fixpoint until_le31 (mx : Z) (t : tape) : rres Z :=
  match t with
  | [] => ROut
  | x :: t' => let v := int31_of x in if v >? mx then until_le31 mx t' else RV v t'
  end.

(** rand.go Int31n *)
Definition int31n_pub (n : Z) (t : tape) : rres Z :=
  if n <=? 0 then RPanic
  else if Z.land n (n - 1) =? 0 then
    rbind (int63 t) (fun x t' => RV (Z.land (int31_of x) (n - 1)) t')
  else
    let mx := two31 - 1 - (two31 mod n) in
    rbind (until_le31 mx t) (fun v t' => RV (v mod n) t').

(** rand.go Intn *)
Definition intn (n : Z) (t : tape) : rres Z :=
  if n <=? 0 then RPanic
  else if n <=? two31 - 1 then int31n_pub n t
  else int63n n t.

(** r.Uint32() = uint32(r.Int63() >> 31) *)
Definition uint32_of (x : Z) : Z := (Z.shiftr x 31) mod two32.

(** the redraw loop of the unexported int31n (Lemire) *)
Fixpoint lemire_loop (n thresh : Z) (t : tape) : rres Z :=
  match t with
  | [] => ROut
  | x :: t' =>
      let prod := uint32_of x * n in
      if prod mod two32 <? thresh then lemire_loop n thresh t' else RV (prod / two32) t'
  end.

(** rand.go int31n (used by Shuffle), for 0 < n < 2^31 *)
Definition int31n_lemire (n : Z) (t : tape) : rres Z :=
  rbind (int63 t) (fun x t' =>
    let prod := uint32_of x * n in
    let low := prod mod two32 in
    if low <? n then
      let thresh := (two32 - n) mod n in
      if low <? thresh then lemire_loop n thresh t' else RV (prod / two32) t'
    else RV (prod / two32) t').

(** rand.go Float64: [again: f := float64(r.Int63()) / (1<<63); if f == 1 goto again] *)
Definition f64_of (x : Z) : float :=
  PrimFloat.div (PrimFloat.of_uint63 (Uint63.of_Z x)) 0x1p+63%float.

Fixpoint float64 (t : tape) : rres float :=
  match t with
  | [] => ROut
  | x :: t' => let f := f64_of x in if PrimFloat.eqb f 1%float then float64 t' else RV f t'
  end.

(** [options[i], options[j] = options[j], options[i]] *)
Definition swap {A} (l : list A) (i j : nat) : option (list A) :=
  match nth_error l i, nth_error l j with
  | Some a, Some b =>
      let set k x l := firstn k l ++ x :: skipn (S k) l in
      Some (set j a (set i b l))
  | _, _ => None
  end.

(** rand.go Shuffle for n <= 2^31-1:
    [for i := n-1; i > 0; i-- { j := int(r.int31n(int32(i+1))); swap(i, j) }] *)
Fixpoint shuffle_from {A} (i : nat) (l : list A) (t : tape) : rres (list A) :=
  match i with
  | O => RV l t
  | S i' =>
      rbind (int31n_lemire (Z.of_nat (S i)) t) (fun j t' =>
        match swap l i (Z.to_nat j) with
        | Some l' => shuffle_from i' l' t'
        | None => RPanic            (* index out of range *)
        end)
  end.

Definition shuffle {A} (l : list A) (t : tape) : rres (list A) :=
  shuffle_from (Nat.pred (List.length l)) l t.
